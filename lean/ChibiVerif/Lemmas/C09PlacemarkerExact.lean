/-
C09 — the repair of C09-placemarker (`fix:` 5a15c0f) is conservative: on every replacement list / argument list OUTSIDE the
former known-finding region (`hasPlacemarkerChain args body = false`: no four consecutive tokens `p ## q ##` with both
arguments empty) the present `subst` and the `subst` before the repair are the same function — same tokens with the same
flags, same diagnostics, same state — for every lexer, every pre-expander, object-like and function-like, `__VA_OPT__`
contents included.  So everything the earlier correspondence runs and theorems said about `subst` outside the region is
untouched by the repair, and the region was exactly where the two differ in the code (`skipEmptyOperands` leaves its
arguments alone unless it stands on `p ## q ##` with both empty).
-/
import ChibiVerif.Model.PP
import ChibiVerif.Lemmas.PPArgs
import ChibiVerif.Lemmas.PPSubst
import ChibiVerif.Lemmas.C09Skip
import ChibiVerif.Lemmas.C09Placemarker

namespace ChibiVerif.PP

theorem chain_congr {args args' : List MacroArg} (h : ∀ t, emptyParam args t = emptyParam args' t) :
    ∀ body : List Tok, hasPlacemarkerChain args body = hasPlacemarkerChain args' body := by
  intro body
  induction body with
  | nil => rfl
  | cons p tl ih =>
    simp only [hasPlacemarkerChain, ih]
    congr 1
    split <;> simp [h]

theorem emptyParam_setExpanded (args : List MacroArg) (n : String) (e : List Tok) (t : Tok) :
    emptyParam (setExpanded args n e) t = emptyParam args t :=
  emptyParam_core (setExpanded_core args n e) t

theorem chain_setExpanded (args : List MacroArg) (n : String) (e : List Tok) (body : List Tok) :
    hasPlacemarkerChain (setExpanded args n e) body = hasPlacemarkerChain args body :=
  chain_congr (emptyParam_setExpanded args n e) body

theorem chain_drop {args : List MacroArg} : ∀ (k : Nat) {body : List Tok},
    hasPlacemarkerChain args body = false → hasPlacemarkerChain args (body.drop k) = false := by
  intro k
  induction k with
  | zero => intro body h; simpa using h
  | succ k ih =>
    intro body h
    cases body with
    | nil => simpa using h
    | cons t r => simpa using ih (chain_tail h)

/-- a window of the prefix is a window of the whole list -/
theorem chain_prefix {args : List MacroArg} : ∀ {a b : List Tok},
    hasPlacemarkerChain args (a ++ b) = false → hasPlacemarkerChain args a = false := by
  intro a
  induction a with
  | nil => intro b _; rfl
  | cons p tl ih =>
    intro b h
    simp only [List.cons_append, hasPlacemarkerChain, Bool.or_eq_false_iff] at h ⊢
    refine ⟨?_, ih h.2⟩
    match tl, h.1 with
    | [], _ => rfl
    | [_], _ => rfl
    | [_, _], _ => rfl
    | h1 :: q :: h2 :: r, h1' => simpa using h1'

/-- outside the region the loop of the repair does not move -/
theorem skip_stays {args : List MacroArg} {tok hh rhs : Tok} {rest3 : List Tok} {a : MacroArg}
    (hchain : hasPlacemarkerChain args (tok :: hh :: rhs :: rest3) = false)
    (ha : findArg args (some tok) = some a) (hnil : a.toks = []) (hhh : hh.text = "##") :
    skipEmptyOperands args rhs rest3 = (rhs, rest3) := by
  have hemp : emptyParam args tok = true := by simp [emptyParam, ha, hnil]
  match rest3, hchain with
  | [], _ => exact skipEmptyOperands_stop (Or.inr (Or.inr (by simp)))
  | [_], _ => exact skipEmptyOperands_stop (Or.inr (Or.inr (by simp)))
  | h2 :: q :: r, hchain =>
    simp only [hasPlacemarkerChain, Bool.or_eq_false_iff, hemp, hhh, beq_self_eq_true, Bool.true_and] at hchain
    have h1 := hchain.1
    cases he : emptyParam args rhs with
    | false => exact skipEmptyOperands_stop (Or.inl he)
    | true =>
      rw [he] at h1
      exact skipEmptyOperands_stop (Or.inr (Or.inl (by simpa [textIs] using h1)))

/-- `subst` touches the argument list only through the caches `arg->expanded` -/
theorem substLoop_core (lx : String → LexOne) (pp : PreExpand) :
    ∀ (fuel : Nat) (isObj : Bool) (st : St) (args : List MacroArg) (body acc out : List Tok) (args' : List MacroArg) (st' : St),
      substLoop lx pp isObj fuel st args body acc = .ok (out, args', st') → args'.map core = args.map core := by
  intro fuel
  induction fuel with
  | zero =>
    intro isObj st args body acc out args' st' h
    cases body with
    | nil => simp only [substLoop, Except.ok.injEq, Prod.mk.injEq] at h; rw [h.2.1]
    | cons t r => simp [substLoop] at h
  | succ n ih =>
    intro isObj st args body acc out args' st' h
    cases body with
    | nil => simp only [substLoop, Except.ok.injEq, Prod.mk.injEq] at h; rw [h.2.1]
    | cons tok rest =>
      unfold substLoop at h
      repeat' split at h
      all_goals first
        | (exact ih _ _ _ _ _ _ _ _ h)
        | (simp at h; done)
        | (rw [ih _ _ _ _ _ _ _ _ h, setExpanded_core])
        | (rw [ih _ _ _ _ _ _ _ _ h]; exact ih _ _ _ _ _ _ _ _ ‹substLoop lx pp false n st args _ [] = _›)

/-- split the first `match`/`if` of the goal (the one of the present `subst`) and take the same branch on the other side -/
local macro "sp" : tactic =>
  `(tactic| (split <;> (try dsimp only) <;> (try (rename_i hsp; simp only [hsp, ↓reduceIte, Bool.false_eq_true])) <;> (try rfl)))

/-- **the repair is conservative.** -/
theorem substLoop_eq_old (lx : String → LexOne) (pp : PreExpand) :
    ∀ (fuel : Nat) (isObj : Bool) (st : St) (args : List MacroArg) (body acc : List Tok),
      hasPlacemarkerChain args body = false →
      substLoop lx pp isObj fuel st args body acc = substLoopOld lx pp isObj fuel st args body acc := by
  intro fuel
  induction fuel with
  | zero =>
    intro isObj st args body acc _
    cases body <;> simp [substLoop, substLoopOld]
  | succ n ih =>
    intro isObj st args body acc hchain
    cases body with
    | nil => simp [substLoop, substLoopOld]
    | cons tok rest =>
      have hct := chain_tail hchain
      unfold substLoop substLoopOld
      -- `sp` closes the branches that end in the same diagnostic on both sides; what is left are the recursive calls
      sp
      · -- `#`
        sp
        exact ih _ _ _ _ _ (chain_drop 1 hct)
      · sp
        · -- GNU comma
          sp
          · exact ih _ _ _ _ _ (chain_drop 2 hct)
          · exact ih _ _ _ _ _ (chain_drop 1 hct)
        · sp
          · -- `##`
            sp
            sp
            have hc2 := chain_tail hct
            sp
            · sp
              · exact ih _ _ _ _ _ hc2
              · sp
                exact ih _ _ _ _ _ hc2
            · sp
              exact ih _ _ _ _ _ hc2
          · sp
            · -- a parameter
              rename_i a ha
              sp
              · rename_i hnx
                sp
                rename_i rhs rest3 hdrop
                -- rest = hh :: rhs :: rest3
                obtain ⟨hh, hrest⟩ : ∃ hh, rest = hh :: rhs :: rest3 := by
                  cases rest with
                  | nil => simp at hdrop
                  | cons hh r => exact ⟨hh, by simpa using hdrop⟩
                subst hrest
                have hhh : hh.text = "##" := by simpa [textIs] using hnx
                have hc3 : hasPlacemarkerChain args rest3 = false := chain_tail (chain_tail hct)
                sp
                · rename_i hnil
                  rw [skip_stays hchain ha hnil hhh]
                  sp
                  · exact ih _ _ _ _ _ hc3
                  · exact ih _ _ _ _ _ hc3
                · exact ih _ _ _ _ _ hct
              · sp
                · exact ih _ _ _ _ _ hct
                · sp
                  exact ih _ _ _ _ _ (by rw [chain_setExpanded]; exact hct)
            · -- `__VA_OPT__`, other tokens
              sp
              · sp
                rename_i content r hone
                obtain ⟨h1, _, _, _⟩ := argOne_sound _ _ _ _ _ hone
                have hd1 : hasPlacemarkerChain args (content ++ r) = false := by rw [← h1]; exact chain_drop 1 hct
                have hcc : hasPlacemarkerChain args content = false := chain_prefix hd1
                have hcr : hasPlacemarkerChain args (r.drop 1) = false := by
                  have : (content ++ r).drop content.length = r := by simp
                  have h2 := chain_drop content.length hd1
                  rw [this] at h2
                  exact chain_drop 1 h2
                sp
                · rw [← ih _ _ _ _ _ hcc]
                  sp
                  rename_i out args' st' hsub
                  -- the arguments after the nested run differ from `args` only in their caches
                  exact ih _ _ _ _ _ (by
                    rw [chain_congr (args' := args)]
                    · exact hcr
                    · intro t
                      exact emptyParam_core (substLoop_core lx pp _ _ _ _ _ _ _ _ _ hsub) t)
                · exact ih _ _ _ _ _ hcr
              · exact ih _ _ _ _ _ hct

theorem subst_eq_old (lx : String → LexOne) (pp : PreExpand) (st : St) (body : List Tok) (args : List MacroArg) (isObj : Bool)
    (h : hasPlacemarkerChain args body = false) : subst lx pp st body args isObj = substOld lx pp st body args isObj := by
  unfold subst substOld
  rw [substLoop_eq_old lx pp _ _ _ _ _ _ h]

end ChibiVerif.PP
