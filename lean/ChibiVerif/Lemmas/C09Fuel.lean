/-
C09 — termination of `preprocess2` for every macro table (object-like, function-like, variadic, built-in):
one step of `expand_macro` lowers the potential of the level structure (Lemmas/C09Measure.lean), the arguments handed
to the nested `preprocess2` have a smaller potential, and `subst` (Lemmas/C09Subst.lean) adds no fuel problem of its own.
-/
import ChibiVerif.Model.PP
import ChibiVerif.Lemmas.PPLemmas
import ChibiVerif.Lemmas.PPTerm
import ChibiVerif.Lemmas.C09Measure
import ChibiVerif.Lemmas.C09Subst

namespace ChibiVerif.PP

/-! ## arguments: sublists of the invocation text, not yet pre-expanded -/

theorem Sep_sublist {first : Bool} {as : List (List Tok)} {l : List Tok} (h : Sep first as l) :
    ∀ a ∈ as, a.Sublist l := by
  induction h with
  | nil => intro a ha; simp at ha
  | first a as l _ ih =>
    intro x hx
    simp only [List.mem_cons] at hx
    rcases hx with rfl | hx
    · exact List.sublist_append_left _ _
    · exact (ih x hx).trans (List.sublist_append_right _ _)
  | next c a as l _ _ ih =>
    intro x hx
    simp only [List.mem_cons] at hx
    rcases hx with rfl | hx
    · exact (List.sublist_append_left _ _).trans (List.sublist_cons_self _ _)
    · exact ((ih x hx).trans (List.sublist_append_right _ _)).trans (List.sublist_cons_self _ _)

theorem readMacroArgs_sublist {ps : List String} {va : Option String} {ts : List Tok}
    {args : List MacroArg} {rp : Tok} {rest : List Tok}
    (h : readMacroArgs ps va ts = .ok (args, rp, rest)) :
    rp.text = ")" ∧ ∃ l, ts = l ++ rp :: rest ∧ ∀ a ∈ args, a.toks.Sublist l := by
  obtain ⟨hrp, _, _, _, l, hl, hshape⟩ := readMacroArgs_sound _ _ _ _ _ _ h
  refine ⟨hrp, l, hl, ?_⟩
  intro a ha
  cases va with
  | none =>
    simp only at hshape
    exact Sep_sublist hshape a.toks (List.mem_map.2 ⟨a, ha, rfl⟩)
  | some v =>
    simp only at hshape
    obtain ⟨named, vaArg, rfl, _, _, hsep | ⟨hemp, hsep⟩⟩ := hshape
    · exact Sep_sublist hsep a.toks (List.mem_map.2 ⟨a, ha, rfl⟩)
    · simp only [List.mem_append, List.mem_singleton] at ha
      rcases ha with ha | rfl
      · exact Sep_sublist hsep a.toks (List.mem_map.2 ⟨a, ha, rfl⟩)
      · rw [hemp]; exact List.nil_sublist _

theorem readNamedArgs_fresh : ∀ (ps : List String) (first : Bool) (ts : List Tok) (args : List MacroArg) (r : List Tok),
    readNamedArgs ps first ts = .ok (args, r) → ∀ a ∈ args, a.expanded = none := by
  intro ps
  induction ps with
  | nil =>
    intro first ts args r h
    simp only [readNamedArgs, Except.ok.injEq, Prod.mk.injEq] at h
    obtain ⟨rfl, _⟩ := h
    simp
  | cons p ps ih =>
    intro first ts args r h
    unfold readNamedArgs at h
    split at h
    · simp at h
    · split at h
      · simp at h
      · simp only [Except.map] at h
        split at h
        · simp at h
        · rename_i v hrec
          obtain ⟨as, r'⟩ := v
          simp only [Except.ok.injEq, Prod.mk.injEq] at h
          obtain ⟨rfl, _⟩ := h
          intro x hx
          simp only [List.mem_cons] at hx
          rcases hx with rfl | hx
          · rfl
          · exact ih _ _ _ _ hrec x hx

theorem readMacroArgs_fresh {ps : List String} {va : Option String} {ts : List Tok}
    {args : List MacroArg} {rp : Tok} {rest : List Tok}
    (h : readMacroArgs ps va ts = .ok (args, rp, rest)) : ∀ a ∈ args, a.expanded = none := by
  unfold readMacroArgs at h
  split at h
  · simp at h
  · rename_i nargs r hnamed
    have hn := readNamedArgs_fresh _ _ _ _ _ hnamed
    have hsnoc : ∀ (x : MacroArg), x.expanded = none → ∀ a ∈ nargs ++ [x], a.expanded = none := by
      intro x hx a ha
      simp only [List.mem_append, List.mem_singleton] at ha
      rcases ha with ha | rfl
      · exact hn a ha
      · exact hx
    cases va with
    | none =>
      simp only at h
      obtain ⟨rfl, _, _⟩ := fin_ok h
      exact hn
    | some vn =>
      simp only at h
      split at h
      · obtain ⟨rfl, _, _⟩ := fin_ok h
        exact hsnoc _ rfl
      · split at h
        · simp at h
        · split at h
          · simp at h
          · obtain ⟨rfl, _, _⟩ := fin_ok h
            exact hsnoc _ rfl

theorem skip_error_ne_fuel {ts : List Tok} {s : String} : skip ts s ≠ .error .fuel := by
  intro h
  unfold skip at h
  split at h
  · split at h <;> simp at h
  · simp at h

theorem readNamedArgs_nofuel : ∀ (ps : List String) (first : Bool) (ts : List Tok),
    readNamedArgs ps first ts ≠ .error .fuel := by
  intro ps
  induction ps with
  | nil => intro first ts h; simp [readNamedArgs] at h
  | cons p ps ih =>
    intro first ts h
    unfold readNamedArgs at h
    split at h
    · rename_i e hsk
      simp only [Except.error.injEq] at h
      subst h
      cases first with
      | true => simp at hsk
      | false =>
        simp only [Bool.false_eq_true, if_false] at hsk
        exact skip_error_ne_fuel hsk
    · split at h
      · rename_i e hone
        simp only [Except.error.injEq] at h
        subst h
        have := argOne_error _ _ _ _ hone
        simp at this
      · simp only [Except.map] at h
        split at h
        · rename_i e hrec
          simp only [Except.error.injEq] at h
          subst h
          exact ih _ _ hrec
        · simp at h

theorem fin_nofuel {args : List MacroArg} {r : List Tok}
    (h : (match r with
          | t :: r' => if t.text == ")" then (Except.ok (args, t, r') : Except Err (List MacroArg × Tok × List Tok))
                       else .error (.expected ")")
          | [] => .error (.expected ")")) = .error .fuel) : False := by
  split at h
  · split at h <;> simp at h
  · simp at h

theorem readMacroArgs_nofuel (ps : List String) (va : Option String) (ts : List Tok) :
    readMacroArgs ps va ts ≠ .error .fuel := by
  intro h
  unfold readMacroArgs at h
  split at h
  · rename_i e hn
    simp only [Except.error.injEq] at h
    subst h
    exact readNamedArgs_nofuel _ _ _ hn
  · cases va with
    | none => exact fin_nofuel h
    | some vn =>
      simp only at h
      split at h
      · exact fin_nofuel h
      · split at h
        · rename_i e hsk
          simp only [Except.error.injEq] at h
          subst h
          split at hsk
          · simp at hsk
          · exact skip_error_ne_fuel hsk
        · split at h
          · rename_i e hone
            simp only [Except.error.injEq] at h
            subst h
            have := argOne_error _ _ _ _ hone
            simp at this
          · exact fin_nofuel h

/-! ## the replacement-list bound of a table -/

/-- tokens a single application of the macro can contribute per unit of `M` (see `subst_fuel`); a built-in yields one token -/
def bodyLen : Macro → Nat
  | .obj b => b.length
  | .fn _ _ b => b.length
  | .builtin _ => 1

/-- longest replacement list of the table, object-like and function-like macros alike (at least 1) -/
def maxBody : List (String × Macro) → Nat
  | [] => 1
  | d :: ds => max (bodyLen d.2) (maxBody ds)

theorem maxBody_pos : ∀ defs, 1 ≤ maxBody defs := by
  intro defs
  induction defs with
  | nil => simp [maxBody]
  | cons d ds ih => simp only [maxBody]; omega

theorem maxBody_ge : ∀ {defs : List (String × Macro)} {n : String} {m : Macro}, (n, m) ∈ defs → bodyLen m ≤ maxBody defs := by
  intro defs
  induction defs with
  | nil => intro n m h; simp at h
  | cons d ds ih =>
    intro n m h
    simp only [List.mem_cons] at h
    simp only [maxBody]
    rcases h with rfl | h
    · simp only; omega
    · have := ih h; omega

/-- **the fuel bound**: `fuelE` for the whole input as one level whose budget is the number of table entries -/
def fuelBound (defs : List (String × Macro)) (ts : List Tok) : Nat := fuelE (maxBody defs) defs.length ts.length 0

/-! ## tokens of an expansion -/

theorem repr_ne_rparen (n : Nat) : n.repr ≠ ")" := by
  intro h
  have h1 : n.repr.toList = [')'] := by rw [h]; rfl
  rw [Nat.toList_repr] at h1
  have : ')' ∈ Nat.toDigits 10 n := by rw [h1]; simp
  have := Nat.isDigit_of_mem_toDigits (by decide) (by decide) this
  simp [Char.isDigit] at this

theorem quoteString_ne_rparen (s : String) : quoteString s ≠ ")" := by
  intro h
  have h1 : (quoteString s).toList = [')'] := by rw [h]; rfl
  simp [quoteString, String.toList_ofList] at h1

theorem respects_runBuiltin (H : Hideset) (st : St) (b : Builtin) (tok : Tok) : Respects H (runBuiltin st b tok).1 := by
  left
  cases b <;> simp [runBuiltin, newNumToken, newStrToken, repr_ne_rparen, quoteString_ne_rparen]

/-- the tokens `expand_macro` puts in front of the remaining input: as many as `subst` returned, each with the hide
    set `hs` added -/
theorem spliceBody_shape (out : List Tok) (hs : Hideset) (tok : Tok) (rest : List Tok) :
    ∃ new, spliceBody (setOrigin (addHideset out hs) tok) rest tok = new ++ rest ∧ new.length = out.length ∧
      ∀ t ∈ new, ∀ x, hidesetContains hs x = true → hidesetContains t.hide x = true := by
  have hall : ∀ t ∈ setOrigin (addHideset out hs) tok, ∀ x, hidesetContains hs x = true → hidesetContains t.hide x = true := by
    intro t ht x hx
    obtain ⟨t0, hh⟩ := mem_setOrigin_addHideset ht
    rw [hh, hidesetContains_union, hx]; simp
  have hlen : (setOrigin (addHideset out hs) tok).length = out.length := by simp [setOrigin, addHideset]
  unfold spliceBody
  split
  · rename_i hemp
    refine ⟨[], rfl, ?_, by simp⟩
    have : setOrigin (addHideset out hs) tok = [] := by simpa using hemp
    rw [this] at hlen
    simpa using hlen
  · cases hb : setOrigin (addHideset out hs) tok with
    | nil => simp [hb] at *
    | cons t0 r =>
      rw [hb] at hall hlen
      refine ⟨{ t0 with atBol := tok.atBol, hasSpace := tok.hasSpace } :: r, by simp [setHeadFlags], by simpa using hlen, ?_⟩
      intro t ht
      simp only [List.mem_cons] at ht
      rcases ht with rfl | ht
      · exact hall t0 (by simp)
      · exact hall t (by simp [ht])

theorem respects_of_contains {H : Hideset} {t : Tok} (h : ∀ x ∈ H, hidesetContains t.hide x = true) : Respects H t :=
  Or.inr h

/-- an identifier that respects `H` and does not hide its own name: the name is outside `H` -/
theorem not_in_H {H : Hideset} {tok : Tok} (hk : tok.kind = .ident) (hr : Respects H tok)
    (hnot : hidesetContains tok.hide tok.text = false) : hidesetContains H tok.text = false := by
  cases hc : hidesetContains H tok.text with
  | false => rfl
  | true =>
    rcases hr with hr | hr
    · exact absurd hk hr.1
    · have := hr tok.text ((hidesetContains_iff _ _).1 hc)
      rw [this] at hnot; simp at hnot

/-! ## one step -/

/-- what the loop of `preprocess2` needs from its pre-expander for the fuel argument: on every token list with a
    level structure of potential at most `n` it does not run out of fuel, returns no more tokens than the potential,
    and keeps the table -/
def PPGood (pp : PreExpand) (defs : List (String × Macro)) (L n : Nat) : Prop :=
  ∀ (st : St) (ts : List Tok) (lv : List Level), st.defs = defs → NoHash ts → WF (defs.map (·.1)) lv → flat lv = ts →
    pot L 0 lv ≤ n →
    match pp st ts with
    | .error e => e ≠ .fuel
    | .ok (out, st') => out.length ≤ pot L 0 lv ∧ st'.defs = defs

/-- one call of `expand_macro`: no fuel error, and an application strictly lowers the potential -/
theorem expandMacro_fuel (lx : String → LexOne) (pp : PreExpand) (defs : List (String × Macro)) (L n : Nat)
    (hL1 : 1 ≤ L) (hL : ∀ nm m, (nm, m) ∈ defs → bodyLen m ≤ L) (hpp : PPGood pp defs L n)
    (st : St) (tok : Tok) (rest : List Tok) (lv : List Level)
    (hdefs : st.defs = defs) (hnh : NoHash (tok :: rest)) (hwf : WF (defs.map (·.1)) lv) (hflat : flat lv = tok :: rest)
    (hpot : pot L 0 lv ≤ n + 1) :
    match expandMacro lx pp st tok rest with
    | .error e => e ≠ .fuel
    | .ok none => True
    | .ok (some (ts', _)) => ∃ lv', WF (defs.map (·.1)) lv' ∧ flat lv' = ts' ∧ pot L 0 lv' < pot L 0 lv := by
  unfold expandMacro
  by_cases hh : hidesetContains tok.hide tok.text = true
  · simp [hh]
  · have hnot : hidesetContains tok.hide tok.text = false := by simpa using hh
    rw [if_neg hh]
    cases hm : findMacro st.defs tok with
    | none => simp
    | some m =>
      obtain ⟨hmem, hkind⟩ := findMacro_mem hm
      rw [hdefs] at hmem
      have hname : tok.text ∈ defs.map (·.1) := List.mem_map.2 ⟨_, hmem, rfl⟩
      have hbl := hL _ _ hmem
      cases m with
      | builtin b =>
        simp only
        obtain ⟨Z, H, hr, _, _, _, _, hrep⟩ := replace_core (L := L) hL1 (A := []) hwf (by simpa using hflat)
        have hnH := not_in_H hkind hr hnot
        obtain ⟨lv', h1, h2, h3⟩ := hrep [(runBuiltin st b tok).1] tok.text hname hnH
          (by intro t ht; simp only [List.mem_singleton] at ht; subst ht; exact respects_runBuiltin _ _ _ _)
          (by simp only [List.length_singleton]; exact Nat.le_trans hL1 (Nat.le_mul_of_pos_right _ (by omega)))
        exact ⟨lv', h1, by simpa using h2, h3⟩
      | obj body =>
        simp only
        have hs := subst_obj lx pp st body
        cases hsub : subst lx pp st body [] true with
        | error e => rw [hsub] at hs; simpa using hs
        | ok v =>
          rw [hsub] at hs
          obtain ⟨out, st1⟩ := v
          simp only at hs ⊢
          obtain ⟨Z, H, hr, _, _, _, _, hrep⟩ := replace_core (L := L) hL1 (A := []) hwf (by simpa using hflat)
          have hnH := not_in_H hkind hr hnot
          obtain ⟨new, hnew, hlen, hhide⟩ := spliceBody_shape out (hidesetUnion tok.hide [tok.text]) tok rest
          rw [hnew]
          apply hrep new tok.text hname hnH
          · intro t ht
            apply respects_of_contains
            intro x hx
            apply hhide t ht x
            rw [hidesetContains_union]
            simp only [List.mem_append, List.mem_singleton] at hx
            rcases hx with hx | rfl
            · rcases hr with hr | hr
              · exact absurd hkind hr.1
              · simp [hr x hx]
            · simp [hidesetContains]
          · rw [hlen]
            have h1 : out.length ≤ L := Nat.le_trans hs.2 hbl
            have h2 : L ≤ L * (1 + Z) := Nat.le_mul_of_pos_right _ (by omega)
            omega
      | fn ps va mbody =>
        simp only
        by_cases hlp : textIs rest.head? "(" = true
        · simp only [hlp, Bool.not_true, Bool.false_eq_true, if_false]
          cases hargs : readMacroArgs ps va (rest.drop 1) with
          | error e =>
            simp only
            intro he
            subst he
            exact readMacroArgs_nofuel _ _ _ hargs
          | ok v =>
            obtain ⟨args, rp, rest'⟩ := v
            simp only
            obtain ⟨hrp, l, hl, hsubl⟩ := readMacroArgs_sublist hargs
            have hfresh := readMacroArgs_fresh hargs
            obtain ⟨lp, hrest⟩ : ∃ lp, rest = lp :: rest.drop 1 := by
              cases rest with
              | nil => simp [textIs] at hlp
              | cons a r => exact ⟨a, by simp⟩
            have hflat' : flat lv = (tok :: lp :: l) ++ rp :: rest' := by
              rw [hflat]; conv => lhs; rw [hrest, hl]
              simp
            obtain ⟨Z, H, hr, hA, hZ, hnest, _, hrep⟩ := replace_core (L := L) hL1 hwf hflat'
            have hrtok : Respects H tok := hA tok (by simp)
            have hnH := not_in_H hkind hrtok hnot
            -- the arguments
            have hQ : ArgsQ (PPArgOK pp (fun s : St => s.defs = defs) Z) args := by
              intro a ha
              rw [addHideset_nil]
              intro s hs
              have hsl : a.toks.Sublist (tok :: lp :: l) :=
                ((hsubl a ha).trans (List.sublist_cons_self _ _)).trans (List.sublist_cons_self _ _)
              obtain ⟨lva, hwfa, hfa, hpa⟩ := hnest a.toks hsl
              have hnha : NoHash a.toks := by
                intro t ht
                apply hnh t
                have : t ∈ tok :: lp :: l := hsl.subset ht
                rw [hrest, hl]
                simp only [List.mem_cons, List.mem_append] at this ⊢
                rcases this with h | h | h
                · exact Or.inl h
                · exact Or.inr (Or.inl h)
                · exact Or.inr (Or.inr (Or.inl h))
              have := hpp s a.toks lva hs hnha hwfa hfa (by omega)
              cases hres : pp s a.toks with
              | error e => rw [hres] at this; simpa using this
              | ok v =>
                rw [hres] at this
                obtain ⟨e, s'⟩ := v
                simp only at this ⊢
                exact ⟨Nat.le_trans this.1 hpa, this.2⟩
            have hAL : ArgsLen (1 + Z) args := by
              intro a ha
              have hsl : a.toks.Sublist (tok :: lp :: l) :=
                ((hsubl a ha).trans (List.sublist_cons_self _ _)).trans (List.sublist_cons_self _ _)
              obtain ⟨lva, _, hfa, hpa⟩ := hnest a.toks hsl
              have := pot_ge (L := L) hL1 lva 0
              rw [hfa] at this
              refine ⟨by omega, ?_⟩
              intro e he
              rw [hfresh a ha] at he
              simp at he
            have hsf := subst_fuel lx pp (fun s : St => s.defs = defs) Z (1 + Z) (by omega) (by omega)
              { st with pmHit := st.pmHit || hasPlacemarkerChain args mbody, bsHit := st.bsHit || hasUnsafeStringize args mbody }
              mbody args false hdefs hQ hAL
            cases hsub : subst lx pp
                { st with pmHit := st.pmHit || hasPlacemarkerChain args mbody, bsHit := st.bsHit || hasUnsafeStringize args mbody }
                mbody args false with
            | error e => rw [hsub] at hsf; simpa using hsf
            | ok v =>
              rw [hsub] at hsf
              obtain ⟨out, st1⟩ := v
              simp only at hsf ⊢
              obtain ⟨new, hnew, hlen, hhide⟩ :=
                spliceBody_shape out (hidesetUnion (hidesetIntersection tok.hide rp.hide) [tok.text]) tok rest'
              rw [hnew]
              apply hrep new tok.text hname hnH
              · intro t ht
                apply respects_of_contains
                intro x hx
                apply hhide t ht x
                rw [hidesetContains_union, hidesetContains_intersection]
                simp only [List.mem_append, List.mem_singleton] at hx
                rcases hx with hx | rfl
                · have h1 : hidesetContains tok.hide x = true := by
                    rcases hrtok with h | h
                    · exact absurd hkind h.1
                    · exact h x hx
                  have h2 : hidesetContains rp.hide x = true := by
                    rcases hr with h | h
                    · exact absurd hrp h.2
                    · exact h x hx
                  simp [h1, h2]
                · simp [hidesetContains]
              · rw [hlen]
                have h1 : mbody.length ≤ L := hbl
                exact Nat.le_trans hsf.1 (Nat.mul_le_mul_right _ h1)
        · simp [hlp]

/-! ## the loop -/

/-- **fuel bound for every table**: with at least as much fuel as the potential of a level structure of its input,
    `preprocess2` does not run out of fuel, and its output has no more tokens than that potential -/
theorem preprocess2_good (lx : String → LexOne) (defs : List (String × Macro)) (L : Nat)
    (hL1 : 1 ≤ L) (hL : ∀ nm m, (nm, m) ∈ defs → bodyLen m ≤ L) :
    ∀ n, PPGood (fun st ts => preprocess2 lx n st ts) defs L n := by
  intro n
  induction n with
  | zero =>
    intro st ts lv hdefs _ _ hflat hpot
    cases ts with
    | nil => simp [preprocess2, hdefs]
    | cons t r =>
      have := pot_ge (L := L) hL1 lv 0
      rw [hflat] at this
      simp only [List.length_cons] at this
      omega
  | succ n ih =>
    intro st ts lv hdefs hnh hwf hflat hpot
    cases ts with
    | nil => simp [preprocess2, hdefs]
    | cons tok rest =>
      have hrest : NoHash rest := fun t ht => hnh t (by simp [ht])
      simp only [preprocess2]
      have hexp := expandMacro_fuel lx (fun st ts => preprocess2 lx n st ts) defs L n hL1 hL ih st tok rest lv
        hdefs hnh hwf hflat hpot
      cases hres : expandMacro lx (fun st ts => preprocess2 lx n st ts) st tok rest with
      | error e =>
        rw [hres] at hexp
        simpa using hexp
      | ok o =>
        cases o with
        | none =>
          simp only [hnh tok (by simp), Bool.not_false, if_true]
          obtain ⟨_, _, _, _, _, _, ⟨lv', hwf', hflat', hpot'⟩, _⟩ :=
            replace_core (L := L) hL1 (A := []) hwf (by simpa using hflat)
          have := ih st rest lv' hdefs hrest hwf' hflat' (by omega)
          dsimp only at this
          cases hr : preprocess2 lx n st rest with
          | error e => rw [hr] at this; simpa [Except.map] using this
          | ok v =>
            rw [hr] at this
            obtain ⟨out, st'⟩ := v
            simp only [Except.map, List.length_cons] at this ⊢
            exact ⟨by omega, this.2⟩
        | some v =>
          obtain ⟨ts', st'⟩ := v
          rw [hres] at hexp
          simp only at hexp ⊢
          obtain ⟨lv', hwf', hflat', hpot'⟩ := hexp
          obtain ⟨hd, hn⟩ := expandMacro_keeps (preprocess2_keeps lx n) hnh hres
          have := ih st' ts' lv' (hd.trans hdefs) hn hwf' hflat' (by omega)
          dsimp only at this
          cases hr : preprocess2 lx n st' ts' with
          | error e => rw [hr] at this; simpa using this
          | ok v =>
            rw [hr] at this
            obtain ⟨out, st''⟩ := v
            simp only at this ⊢
            exact ⟨by omega, this.2⟩

/-- the input as a single level: budget bound = number of table entries, no name required in any hide set -/
theorem wf_single (defs : List (String × Macro)) (ts : List Tok) :
    WF (defs.map (·.1)) [{ j := defs.length, H := [], seg := ts }] := by
  refine ⟨?_, by simp⟩
  intro l hl
  simp only [List.mem_singleton] at hl
  subst hl
  refine ⟨?_, fun t _ => Or.inr (by simp)⟩
  have h := List.length_filter_le (fun n => !hidesetContains [] n) (defs.map (·.1))
  simpa [budget] using h

/-- **termination of `preprocess2` for every macro table**: `fuelBound defs input` units of fuel are enough, whatever
    the lexer used by `##`, and the output is no longer than the bound -/
theorem preprocess2_fuelBound (lx : String → LexOne) (st : St) (ts : List Tok) (fuel : Nat)
    (hnh : NoHash ts) (hfuel : fuelBound st.defs ts ≤ fuel) :
    preprocess2 lx fuel st ts ≠ .error .fuel ∧
      ∀ out st', preprocess2 lx fuel st ts = .ok (out, st') → out.length ≤ fuelBound st.defs ts := by
  have hpot : pot (maxBody st.defs) 0 [{ j := st.defs.length, H := [], seg := ts }] = fuelBound st.defs ts := by
    simp [pot, fuelBound]
  have := preprocess2_good lx st.defs (maxBody st.defs) (maxBody_pos _) (fun _ _ h => maxBody_ge h) fuel st ts
    [{ j := st.defs.length, H := [], seg := ts }] rfl hnh (wf_single _ _) (by simp [flat]) (by rw [hpot]; exact hfuel)
  rw [hpot] at this
  dsimp only at this
  cases hr : preprocess2 lx fuel st ts with
  | error e =>
    rw [hr] at this
    exact ⟨fun h => this (by simpa using h), fun _ _ h => by simp at h⟩
  | ok v =>
    rw [hr] at this
    obtain ⟨out, st'⟩ := v
    refine ⟨by simp, ?_⟩
    intro o s h
    simp only [Except.ok.injEq, Prod.mk.injEq] at h
    obtain ⟨rfl, rfl⟩ := h
    exact this.1

end ChibiVerif.PP
