/-
C18 × the macro-expansion model (Model/PP.lean, tied to `chibicc -E` by the C09 correspondence): what `expand_macro` does to
the `origin` of tokens, in the PP model's own terms (`Tok.origin` = line of the outermost origin, `originLine`).
-/
import ChibiVerif.Model.PP
import ChibiVerif.Model.LineNo

namespace ChibiVerif.LineNo
open ChibiVerif.PP (setOrigin originLine setHeadFlags spliceBody expandMacro findMacro newNumToken newStrToken runBuiltin
  Macro Builtin readMacroArgs hidesetContains textIs)

theorem pp_setOrigin_origin (ts : List PP.Tok) (tok : PP.Tok) :
    ∀ t ∈ setOrigin ts tok, t.origin = some (originLine tok) := by
  intro t ht
  simp only [setOrigin, List.mem_map] at ht
  obtain ⟨u, _, rfl⟩ := ht
  rfl

theorem pp_setHeadFlags_origin (ts : List PP.Tok) (a b : Bool) :
    (setHeadFlags ts a b).map (·.origin) = ts.map (·.origin) := by
  cases ts <;> rfl

theorem pp_setHeadFlags_line (ts : List PP.Tok) (a b : Bool) :
    (setHeadFlags ts a b).map (·.line) = ts.map (·.line) := by
  cases ts <;> rfl

theorem pp_spliceBody_origin (body rest : List PP.Tok) (tok : PP.Tok) :
    (spliceBody body rest tok).map (·.origin) = (body ++ rest).map (·.origin) := by
  unfold spliceBody
  split
  · rename_i h
    have : body = [] := by simpa using h
    simp [this]
  · exact pp_setHeadFlags_origin _ _ _

/-- the line `line_macro` reports for a token of an expansion is the one it reports for the invoking token -/
theorem pp_originLine_of_origin (t tok : PP.Tok) (h : t.origin = some (originLine tok)) : originLine t = originLine tok := by
  simp [originLine, h]

/-- a token that `tokenize` made from a file (no origin) reports its own line -/
theorem pp_originLine_plain (t : PP.Tok) (h : t.origin = none) : originLine t = t.line := by
  simp [originLine, h]

/-- **`expand_macro` in the PP model.**  When it expands `tok`:
    * `__LINE__`: the new input is the number `originLine tok` (a token on that line) followed by the rest;
    * `__FILE__`: a string token on line `originLine tok`;
    * an object-like or function-like macro: the new input is (up to the flags of its first token) `body ++ rest'` where every
      token of `body` has `origin = some (originLine tok)` — so `__LINE__` anywhere inside, at any depth of further expansion,
      reports `originLine tok` again. -/
theorem pp_expandMacro_origin (lx : String → PP.LexOne) (pp : PP.PreExpand) (st st' : PP.St) (tok : PP.Tok)
    (rest out : List PP.Tok) (h : expandMacro lx pp st tok rest = .ok (some (out, st'))) :
    (findMacro st.defs tok = some (.builtin .line) →
        out = newNumToken (originLine tok) (originLine tok) :: rest) ∧
    (findMacro st.defs tok = some (.builtin .file) →
        out = newStrToken st.file (originLine tok) :: rest) ∧
    ((∃ mb, findMacro st.defs tok = some (.obj mb)) ∨ (∃ ps va mb, findMacro st.defs tok = some (.fn ps va mb)) →
        ∃ (body rest' : List PP.Tok), (∀ b ∈ body, b.origin = some (originLine tok)) ∧
          out.map (·.origin) = (body ++ rest').map (·.origin)) := by
  unfold expandMacro at h
  split at h
  · simp at h
  · split at h
    · simp at h
    · rename_i b hb
      simp only [Except.ok.injEq, Option.some.injEq, Prod.mk.injEq] at h
      refine ⟨fun hl => ?_, fun hf => ?_, fun hx => ?_⟩
      · rw [hb] at hl; simp only [Option.some.injEq, Macro.builtin.injEq] at hl; subst hl
        rw [← h.1]; rfl
      · rw [hb] at hf; simp only [Option.some.injEq, Macro.builtin.injEq] at hf; subst hf
        rw [← h.1]; rfl
      · rcases hx with ⟨mb, hm⟩ | ⟨ps, va, mb, hm⟩ <;> rw [hb] at hm <;> simp at hm
    · rename_i mbody hb
      refine ⟨fun hl => by rw [hb] at hl; simp at hl, fun hf => by rw [hb] at hf; simp at hf, fun _ => ?_⟩
      dsimp only at h
      split at h
      · simp at h
      · rename_i body st'' _
        simp only [Except.ok.injEq, Option.some.injEq, Prod.mk.injEq] at h
        refine ⟨setOrigin (PP.addHideset body (PP.hidesetUnion tok.hide [tok.text])) tok, rest,
          pp_setOrigin_origin _ _, ?_⟩
        rw [← h.1]; exact pp_spliceBody_origin _ _ _
    · rename_i params va mbody hb
      refine ⟨fun hl => by rw [hb] at hl; simp at hl, fun hf => by rw [hb] at hf; simp at hf, fun _ => ?_⟩
      split at h
      · simp at h
      · split at h
        · simp at h
        · rename_i args rparen rest' _
          dsimp only at h
          split at h
          · simp at h
          · rename_i body st'' _
            simp only [Except.ok.injEq, Option.some.injEq, Prod.mk.injEq] at h
            refine ⟨setOrigin (PP.addHideset body
              (PP.hidesetUnion (PP.hidesetIntersection tok.hide rparen.hide) [tok.text])) tok, rest',
              pp_setOrigin_origin _ _, ?_⟩
            rw [← h.1]; exact pp_spliceBody_origin _ _ _

/-- the two models agree on what an origin chain is for: walking LineNo's chain to its end (`Tok.outermost`) is what the PP
    model keeps as the summary `origin` (`setOrigin` stores `originLine tok`, the line at the end of `tok`'s own chain) -/
def ppSummary : Tok → Int := fun t => t.outermost.info.lineNo

theorem ppSummary_expand (body : TokInfo) (m : Tok) : ppSummary (expandBodyTok body m) = ppSummary m := rfl

theorem ppSummary_plain (i : TokInfo) : ppSummary (.plain i) = i.lineNo := rfl

end ChibiVerif.LineNo
