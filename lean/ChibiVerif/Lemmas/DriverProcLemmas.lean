/-
Helper lemmas for C14 (driver process model, Model/DriverProc.lean):
file-system algebra, small-step = big-step, generic invariants of `doActs`.
-/
import ChibiVerif.Model.DriverProc

set_option linter.unusedSimpArgs false
set_option linter.unusedVariables false
set_option linter.unusedSectionVars false

namespace ChibiVerif.DriverProc

variable {P : Type} [DecidableEq P]

/-! ### file system -/
namespace FS

theorem get_erase_self (fs : FS P) (p : P) : (fs.erase p).get p = none := by
  induction fs with
  | nil => rfl
  | cons e r ih =>
    obtain ⟨q, c⟩ := e
    simp only [erase] at ih ⊢
    by_cases h : q = p
    · simpa [List.filter, h] using ih
    · simpa [List.filter, h, get] using ih

theorem get_erase_ne (fs : FS P) {p q : P} (h : q ≠ p) : (fs.erase p).get q = fs.get q := by
  induction fs with
  | nil => rfl
  | cons e r ih =>
    obtain ⟨a, c⟩ := e
    simp only [erase] at ih ⊢
    by_cases ha : a = p
    · have : ¬ p = q := fun e => h e.symm
      subst ha
      simpa [List.filter, get, this] using ih
    · by_cases hq : a = q
      · subst hq; simp [List.filter, ha, get]
      · simpa [List.filter, ha, get, hq] using ih

theorem get_set_self (fs : FS P) (p : P) (c : Content) : (fs.set p c).get p = some c := by
  simp [set, get]

theorem get_set_ne (fs : FS P) {p q : P} (c : Content) (h : q ≠ p) : (fs.set p c).get q = fs.get q := by
  have : p ≠ q := fun e => h e.symm
  simp [set, get, this, get_erase_ne fs h]

theorem get_erase_none (fs : FS P) (p q : P) (h : fs.get q = none) : (fs.erase p).get q = none := by
  by_cases e : q = p
  · subst e; exact get_erase_self fs q
  · rw [get_erase_ne fs e]; exact h

theorem get_set (fs : FS P) (p q : P) (c : Content) :
    (fs.set p c).get q = if q = p then some c else fs.get q := by
  by_cases h : q = p
  · subst h; simp [get_set_self]
  · simp [h, get_set_ne fs c h]

theorem get_erase (fs : FS P) (p q : P) :
    (fs.erase p).get q = if q = p then none else fs.get q := by
  by_cases h : q = p
  · subst h; simp [get_erase_self]
  · simp [h, get_erase_ne fs h]

theorem origins_congr {fs gs : FS P} {p : P} (h : fs.get p = gs.get p) : fs.origins p = gs.origins p := by
  simp [origins, h]

end FS

/-! ### iteration -/

theorem iter_add (env : Env P) (m n : Nat) (x : DState P × FS P) :
    iter env (m + n) x = iter env n (iter env m x) := by
  induction m generalizing x with
  | zero => simp [iter]
  | succ m ih => rw [Nat.add_right_comm]; simp [iter, ih]

theorem step_terminal (env : Env P) (x : DState P × FS P) (h : x.1.phase.terminal = true) :
    step env x.1 x.2 = x := by
  obtain ⟨s, fs⟩ := x
  simp only at h
  unfold step
  cases hp : s.phase <;> simp_all [Phase.terminal]

theorem iter_terminal (env : Env P) (n : Nat) (x : DState P × FS P) (h : x.1.phase.terminal = true) :
    iter env n x = x := by
  induction n with
  | zero => rfl
  | succ n ih => simp [iter, step_terminal env x h, ih]

/-- a terminal configuration reached after some number of steps is reached after any larger number -/
theorem iter_mono (env : Env P) {m n : Nat} (x : DState P × FS P) (h : m ≤ n)
    (ht : (iter env m x).1.phase.terminal = true) : iter env n x = iter env m x := by
  obtain ⟨k, rfl⟩ := Nat.exists_eq_add_of_le h
  rw [iter_add, iter_terminal env k _ ht]

/-- determinism: all terminal configurations reachable from `x0` coincide -/
theorem Reaches.unique (env : Env P) {x0 x y : DState P × FS P}
    (hx : Reaches env x0 x) (hy : Reaches env x0 y) : x = y := by
  obtain ⟨m, rfl, hm⟩ := hx
  obtain ⟨n, rfl, hn⟩ := hy
  rcases Nat.le_total m n with h | h
  · exact (iter_mono env x0 h hm).symm
  · exact iter_mono env x0 h hn

/-! ### cleanup -/

theorem iter_cleanup (env : Env P) (code : Nat) (todo : List P) (s : DState P) (fs : FS P) (n : Nat)
    (hn : todo.length + 1 ≤ n) :
    iter env n ({ s with phase := .exiting code todo }, fs) = cleanupAll code todo (s, fs) := by
  induction todo generalizing s fs n with
  | nil =>
    obtain ⟨m, rfl⟩ : ∃ m, n = m + 1 := ⟨n - 1, by simp at hn; omega⟩
    simp only [iter, step, cleanupAll]
    exact iter_terminal env m _ rfl
  | cons t ts ih =>
    obtain ⟨m, rfl⟩ : ∃ m, n = m + 1 := ⟨n - 1, by simp at hn; omega⟩
    simp only [iter, step, cleanupAll]
    have := ih (({ s with phase := Phase.exiting code ts }).emit (.unlink t)) (fs.erase t) m
      (by simp at hn ⊢; omega)
    simpa [DState.emit] using this

theorem cleanupAll_phase_irrel (code : Nat) (todo : List P) (s : DState P) (ph : Phase P) (fs : FS P) :
    cleanupAll code todo ({ s with phase := ph }, fs) = cleanupAll code todo (s, fs) := by
  cases todo <;> simp [cleanupAll]

/-! ### small-step runs equal the big-step presentation -/

theorem bigRun_cons_ok (env : Env P) {s : DState P} {fs : FS P} {a : Act P} {r : List (Act P)}
    {y : DState P × FS P} (ha : s.acts = a :: r)
    (h : doAct env a ({ s with acts := r }, fs) = .ok y) (hy : y.1.acts = r) :
    bigRun env (s, fs) = bigRun env y := by
  simp only [bigRun, ha, doActs, h, hy]

theorem bigRun_cons_error (env : Env P) {s : DState P} {fs : FS P} {a : Act P} {r : List (Act P)}
    {e : DState P × FS P} (ha : s.acts = a :: r)
    (h : doAct env a ({ s with acts := r }, fs) = .error e) :
    bigRun env (s, fs) = finish e := by
  simp only [bigRun, ha, doActs, h]

theorem finish_exiting (s : DState P) (fs : FS P) (code : Nat) :
    finish (s.exitWith code, fs) = cleanupAll code s.tmpfiles (s, fs) := by
  simp only [finish, DState.exitWith]
  exact cleanupAll_phase_irrel code s.tmpfiles s _ fs

theorem iter_exitWith (env : Env P) (s : DState P) (fs : FS P) (code n : Nat)
    (hn : s.tmpfiles.length + 1 ≤ n) :
    iter env n (s.exitWith code, fs) = finish (s.exitWith code, fs) := by
  rw [finish_exiting]
  exact iter_cleanup env code s.tmpfiles s fs n hn

/-- number of small steps one action takes -/
def Act.steps (s : DState P) : Act P → Nat
  | .run _ inp out =>
    match resolve s.tmpfiles inp, resolveOut s.tmpfiles out with
    | some _, some _ => 2
    | _, _ => 1
  | .link _ => if s.ldArgs.isEmpty then 1 else 2
  | _ => 1

def merge {α : Type} : Except α α → α
  | .ok x => x
  | .error x => x

theorem iter_one (env : Env P) (x : DState P × FS P) : iter env 1 x = step env x.1 x.2 := rfl
theorem iter_two (env : Env P) (x : DState P × FS P) :
    iter env 2 x = step env (step env x.1 x.2).1 (step env x.1 x.2).2 := rfl

theorem merge_ite {α : Type} (c : Prop) [Decidable c] (a b : α) :
    merge (if c then Except.ok a else Except.error b) = if c then a else b := by
  split <;> rfl

/-- the small steps of one action compute what `doAct` computes -/
theorem iter_act (env : Env P) (s : DState P) (fs : FS P) (a : Act P) (r : List (Act P))
    (hp : s.phase = .run) (ha : s.acts = a :: r) :
    iter env (a.steps s) (s, fs) = merge (doAct env a ({ s with acts := r }, fs)) := by
  obtain ⟨acts, tf, ld, nT, n1, n2, n3, ph, lg⟩ := s
  simp only at hp ha
  subst hp ha
  cases a with
  | mktemp =>
    simp only [Act.steps, iter, step, stepRun, doAct]
    cases env.fresh nT <;> rfl
  | run prog inp out =>
    simp only [Act.steps, doAct]
    cases hi : resolve tf inp with
    | none => simp only [iter, step, stepRun, hi]; rfl
    | some i =>
      cases ho : resolveOut tf out with
      | none => simp only [iter, step, stepRun, hi, ho]; rfl
      | some o =>
        simp only [iter, step, stepRun, hi, ho, stepWait, DState.emit]
        cases prog
        · by_cases hw : (env.sched Prog.cc1 n1).status.wait = 0 <;>
            simp [DState.count, DState.bump, DState.emit, DState.exitWith, hw, merge]
        · by_cases hw : (env.sched Prog.as n2).status.wait = 0 <;>
            simp [DState.count, DState.bump, DState.emit, DState.exitWith, hw, merge]
        · by_cases hw : (env.sched Prog.ld n3).status.wait = 0 <;>
            simp [DState.count, DState.bump, DState.emit, DState.exitWith, hw, merge]
  | pushLd ref =>
    simp only [Act.steps, iter, step, stepRun, doAct]
    cases resolve tf ref <;> rfl
  | link o =>
    simp only [Act.steps, doAct]
    by_cases hl : ld.isEmpty = true
    · simp only [hl, if_true, iter, step, stepRun]; rfl
    · rw [if_neg hl, if_neg hl, iter_two]
      simp only [step, stepRun, hl, stepWait, DState.emit, DState.count,
        DState.bump, DState.exitWith]
      by_cases hw : (env.sched Prog.ld n3).status.wait = 0 <;> simp [hw, merge]
  | fail why =>
    simp only [Act.steps, iter, step, stepRun, doAct]; rfl

/-- shape of a successful `doAct` -/
theorem doAct_ok_shape (env : Env P) (a : Act P) (s : DState P) (fs : FS P) (y : DState P × FS P)
    (h : doAct env a (s, fs) = .ok y) :
    y.1.phase = s.phase ∧ y.1.acts = s.acts ∧
      y.1.tmpfiles.length + mkCount s.acts + 1 = s.tmpfiles.length + mkCount (a :: s.acts) + 1 := by
  cases a with
  | mktemp =>
    simp only [doAct] at h
    cases hf : env.fresh s.nTemp with
    | none => simp [hf] at h
    | some t =>
      simp only [hf] at h
      injection h with h; subst h
      simp [DState.emit, mkCount]; omega
  | run prog inp out =>
    simp only [doAct] at h
    cases hi : resolve s.tmpfiles inp with
    | none => simp [hi] at h
    | some i =>
      cases ho : resolveOut s.tmpfiles out with
      | none => simp [hi, ho] at h
      | some o =>
        simp only [hi, ho] at h
        split at h
        · injection h with h; subst h
          cases prog <;> simp [DState.emit, DState.bump, mkCount]
        · simp at h
  | pushLd ref =>
    simp only [doAct] at h
    cases hi : resolve s.tmpfiles ref with
    | none => simp [hi] at h
    | some p => simp only [hi] at h; injection h with h; subst h; simp [mkCount]
  | link o =>
    simp only [doAct] at h
    split at h
    · injection h with h; subst h; simp [mkCount]
    · split at h
      · injection h with h; subst h; simp [DState.emit, DState.bump, mkCount]
      · simp at h
  | fail why => simp [doAct] at h

/-- shape of a failing `doAct`: `exit(1)` with the temporaries recorded so far, or (model error) stuck -/
theorem doAct_error_shape (env : Env P) (a : Act P) (s : DState P) (fs : FS P) (e : DState P × FS P)
    (h : doAct env a (s, fs) = .error e) :
    e.1.phase = .stuck ∨ (e.1.phase = .exiting 1 e.1.tmpfiles ∧ e.1.tmpfiles = s.tmpfiles) := by
  cases a with
  | mktemp =>
    simp only [doAct] at h
    cases hf : env.fresh s.nTemp with
    | none => simp only [hf] at h; injection h with h; subst h; right; simp [DState.emit, DState.exitWith]
    | some t => simp [hf] at h
  | run prog inp out =>
    simp only [doAct] at h
    cases hi : resolve s.tmpfiles inp with
    | none => simp only [hi] at h; injection h with h; subst h; left; rfl
    | some i =>
      cases ho : resolveOut s.tmpfiles out with
      | none => simp only [hi, ho] at h; injection h with h; subst h; left; rfl
      | some o =>
        simp only [hi, ho] at h
        split at h
        · simp at h
        · injection h with h; subst h; right
          cases prog <;> simp [DState.emit, DState.bump, DState.exitWith]
  | pushLd ref =>
    simp only [doAct] at h
    cases hi : resolve s.tmpfiles ref with
    | none => simp only [hi] at h; injection h with h; subst h; left; rfl
    | some p => simp [hi] at h
  | link o =>
    simp only [doAct] at h
    split at h
    · simp at h
    · split at h
      · simp at h
      · injection h with h; subst h; right; simp [DState.emit, DState.bump, DState.exitWith]
  | fail why =>
    simp only [doAct] at h; injection h with h; subst h; right; simp [DState.emit, DState.exitWith]

omit [DecidableEq P] in
theorem Act.steps_le (s : DState P) (a : Act P) : a.steps s ≤ 2 := by
  cases a <;> simp [Act.steps] <;> (try split) <;> omega

theorem iter_eq_bigRun_aux (env : Env P) (acts : List (Act P)) :
    ∀ (s : DState P) (fs : FS P) (n : Nat), s.acts = acts → s.phase = .run → fuel s ≤ n →
      iter env n (s, fs) = bigRun env (s, fs) := by
  induction acts with
  | nil =>
    intro s fs n ha hp hn
    obtain ⟨m, rfl⟩ : ∃ m, n = m + 1 := ⟨n - 1, by simp [fuel] at hn; omega⟩
    simp only [iter, step, hp, stepRun, ha, bigRun, doActs]
    apply iter_exitWith
    simp [fuel, ha, mkCount] at hn; omega
  | cons a r ih =>
    intro s fs n ha hp hn
    have hst := Act.steps_le s a
    obtain ⟨k, rfl⟩ : ∃ k, n = a.steps s + k := ⟨n - a.steps s, by simp [fuel, ha] at hn; omega⟩
    rw [iter_add, iter_act env s fs a r hp ha]
    cases hd : doAct env a ({ s with acts := r }, fs) with
    | ok y =>
      obtain ⟨h1, h2, h3⟩ := doAct_ok_shape env a _ fs y hd
      simp only [merge]
      rw [bigRun_cons_ok env ha hd h2]
      obtain ⟨ys, yfs⟩ := y
      apply ih
      · exact h2
      · simpa [hp] using h1
      · simp only [fuel, ha, List.length_cons] at hn
        simp only [fuel, show ys.acts = r from h2]
        simp only at h3
        have : mkCount (a :: r) ≤ mkCount r + 1 := by cases a <;> simp [mkCount]
        omega
    | error e =>
      simp only [merge]
      rw [bigRun_cons_error env ha hd]
      rcases doAct_error_shape env a _ fs e hd with h | ⟨h, htf⟩
      · simp only [finish, h]
        exact iter_terminal env k e (by simp [h, Phase.terminal])
      · obtain ⟨es, efs⟩ := e
        have he : es = es.exitWith 1 := by
          cases es; simp only [DState.exitWith] at h ⊢; subst h; rfl
        rw [he]
        apply iter_exitWith
        simp only at htf
        simp only [fuel, ha, List.length_cons] at hn
        simp only [htf]; omega

/-- every run of at least `fuel s` small steps from a configuration in phase `run` ends in the
    configuration the big-step presentation computes -/
theorem iter_eq_bigRun (env : Env P) (s : DState P) (fs : FS P) (n : Nat) (hp : s.phase = .run)
    (hn : fuel s ≤ n) : iter env n (s, fs) = bigRun env (s, fs) :=
  iter_eq_bigRun_aux env s.acts s fs n rfl hp hn

/-! ### generic invariants of `doAct` / `doActs`: the log and the list of temporaries -/

omit [DecidableEq P] in
theorem created_append (l m : List (Event P)) : created (l ++ m) = created l ++ created m := by
  simp [created, List.filterMap_append]

omit [DecidableEq P] in
theorem created_nil : created ([] : List (Event P)) = [] := rfl

omit [DecidableEq P] in
theorem created_cons (e : Event P) (l : List (Event P)) :
    created (e :: l) = (match e with | .mkstemp p => [p] | _ => []) ++ created l := by
  cases e <;> simp [created, List.filterMap_cons]

/-- what one action does to the log and to `tmpfiles` -/
def ActInv (s : DState P) : Except (DState P × FS P) (DState P × FS P) → Prop
  | .ok y => (∃ l, y.1.log = s.log ++ l ∧ ∀ e ∈ l, Event.bad e = false) ∧
      (created s.log = s.tmpfiles → created y.1.log = y.1.tmpfiles)
  | .error e => e.1.phase = .stuck ∨
      ((∃ l b, e.1.log = s.log ++ l ++ [b] ∧ (∀ e ∈ l, Event.bad e = false) ∧ Event.bad b = true) ∧
       (created s.log = s.tmpfiles → created e.1.log = e.1.tmpfiles))

theorem doAct_inv (env : Env P) (a : Act P) (s : DState P) (fs : FS P) :
    ActInv s (doAct env a (s, fs)) := by
  cases a with
  | mktemp =>
    simp only [doAct]
    cases hf : env.fresh s.nTemp with
    | none =>
      right
      refine ⟨⟨[], .mkstempFailed, by simp [DState.emit, DState.exitWith], by simp, rfl⟩, ?_⟩
      intro h; simp [DState.emit, DState.exitWith, created_append, h, created_cons, created_nil]
    | some t =>
      refine ⟨⟨[.mkstemp t], by simp [DState.emit], by simp [Event.bad]⟩, ?_⟩
      intro h; simp [DState.emit, created_append, h, created_cons, created_nil]
  | run prog inp out =>
    simp only [doAct]
    cases hi : resolve s.tmpfiles inp with
    | none => left; rfl
    | some i =>
      cases ho : resolveOut s.tmpfiles out with
      | none => left; rfl
      | some o =>
        simp only
        by_cases hw : (env.sched prog (s.count prog)).status.wait = 0
        · have hc : (s.emit (Event.spawn prog [i] o)).count prog = s.count prog := by cases prog <;> rfl
          simp only [hc, hw, if_true]
          refine ⟨⟨[.spawn prog [i] o, .wait prog (env.sched prog (s.count prog)).status], ?_, ?_⟩, ?_⟩
          · cases prog <;> simp [DState.emit, DState.bump]
          · simp [Event.bad, hw]
          · intro h; cases prog <;> simp [DState.emit, DState.bump, created_append, h, created_cons, created_nil]
        · have hc : (s.emit (Event.spawn prog [i] o)).count prog = s.count prog := by cases prog <;> rfl
          simp only [hc, hw, if_false]
          right
          refine ⟨⟨[.spawn prog [i] o], .wait prog (env.sched prog (s.count prog)).status, ?_, ?_, ?_⟩, ?_⟩
          · cases prog <;> simp [DState.emit, DState.bump, DState.exitWith]
          · simp [Event.bad]
          · simp [Event.bad, hw]
          · intro h; cases prog <;> simp [DState.emit, DState.bump, DState.exitWith, created_append, h, created_cons, created_nil]
  | pushLd ref =>
    simp only [doAct]
    cases hi : resolve s.tmpfiles ref with
    | none => left; rfl
    | some p => exact ⟨⟨[], by simp, by simp⟩, fun h => h⟩
  | link o =>
    simp only [doAct]
    by_cases hl : s.ldArgs.isEmpty = true
    · simp only [hl, if_true]; exact ⟨⟨[], by simp, by simp⟩, fun h => h⟩
    · simp only [hl, if_false]
      by_cases hw : (env.sched .ld s.nLd).status.wait = 0
      · simp only [hw, if_true]
        refine ⟨⟨[.spawn .ld s.ldArgs (some o), .wait .ld (env.sched .ld s.nLd).status], ?_, ?_⟩, ?_⟩
        · simp [DState.emit, DState.bump]
        · simp [Event.bad, hw]
        · intro h; simp [DState.emit, DState.bump, created_append, h, created_cons, created_nil]
      · simp only [hw, if_false]
        right
        refine ⟨⟨[.spawn .ld s.ldArgs (some o)], .wait .ld (env.sched .ld s.nLd).status, ?_, ?_, ?_⟩, ?_⟩
        · simp [DState.emit, DState.bump, DState.exitWith]
        · simp [Event.bad]
        · simp [Event.bad, hw]
        · intro h; simp [DState.emit, DState.bump, DState.exitWith, created_append, h, created_cons, created_nil]
  | fail why =>
    simp only [doAct]
    right
    refine ⟨⟨[], .error why, by simp [DState.emit, DState.exitWith], by simp, rfl⟩, ?_⟩
    intro h; simp [DState.emit, DState.exitWith, created_append, h, created_cons, created_nil]

theorem doActs_inv (env : Env P) (acts : List (Act P)) (s : DState P) (fs : FS P) :
    ActInv s (doActs env acts (s, fs)) := by
  induction acts generalizing s fs with
  | nil => exact ⟨⟨[], by simp [doActs], by simp⟩, fun h => h⟩
  | cons a r ih =>
    simp only [doActs]
    have h1 := doAct_inv env a { s with acts := r } fs
    cases hd : doAct env a ({ s with acts := r }, fs) with
    | error e => simpa [hd, ActInv] using h1
    | ok y =>
      obtain ⟨ys, yfs⟩ := y
      simp only [hd, ActInv] at h1
      obtain ⟨⟨l, hl, hlb⟩, hc⟩ := h1
      have h2 := ih ys yfs
      simp only
      cases hr : doActs env r (ys, yfs) with
      | ok z =>
        simp only [hr, ActInv] at h2 ⊢
        obtain ⟨⟨l2, hl2, hlb2⟩, hc2⟩ := h2
        refine ⟨⟨l ++ l2, by rw [hl2, hl]; simp, ?_⟩, fun h => hc2 (hc h)⟩
        intro e he; rcases List.mem_append.mp he with h | h
        · exact hlb e h
        · exact hlb2 e h
      | error e =>
        simp only [hr, ActInv] at h2 ⊢
        rcases h2 with h2 | ⟨⟨l2, b, hl2, hlb2, hb⟩, hc2⟩
        · left; exact h2
        · right
          refine ⟨⟨l ++ l2, b, by rw [hl2, hl]; simp, ?_, hb⟩, fun h => hc2 (hc h)⟩
          intro e he; rcases List.mem_append.mp he with h | h
          · exact hlb e h
          · exact hlb2 e h

/-! ### the model never gets stuck: temp registers are filled before they are used -/

def Ref.ok (n : Nat) : Ref P → Bool
  | .path _ => true
  | .tmp i => decide (i < n)

/-- every `tmp i` an action uses refers to one of the temporaries created before it -/
def WF : Nat → List (Act P) → Bool
  | _, [] => true
  | n, .mktemp :: r => WF (n + 1) r
  | n, .run _ i o :: r => i.ok n && (match o with | none => true | some x => x.ok n) && WF n r
  | n, .pushLd x :: r => x.ok n && WF n r
  | n, .link _ :: r => WF n r
  | n, .fail _ :: r => WF n r

omit [DecidableEq P] in
theorem WF_append (n : Nat) (a b : List (Act P)) : WF n (a ++ b) = (WF n a && WF (n + mkCount a) b) := by
  induction a generalizing n with
  | nil => simp [WF, mkCount]
  | cons x r ih =>
    cases x <;> simp [WF, mkCount, ih, Bool.and_assoc]
    · congr 2; omega

omit [DecidableEq P] in
theorem resolve_ok {tf : List P} {r : Ref P} (h : r.ok tf.length = true) : ∃ p, resolve tf r = some p := by
  cases r with
  | path p => exact ⟨p, rfl⟩
  | tmp i =>
    simp only [Ref.ok, decide_eq_true_eq] at h
    exact ⟨tf[i], by simp [resolve, h]⟩

theorem doActs_not_stuck (env : Env P) (acts : List (Act P)) (s : DState P) (fs : FS P)
    (hs : s.phase ≠ .stuck) (hwf : WF s.tmpfiles.length acts = true) :
    match doActs env acts (s, fs) with
    | .ok y => y.1.phase ≠ .stuck
    | .error e => e.1.phase ≠ .stuck := by
  induction acts generalizing s fs with
  | nil => simpa [doActs] using hs
  | cons a r ih =>
    simp only [doActs]
    cases a with
    | mktemp =>
      simp only [doAct]
      cases hf : env.fresh s.nTemp with
      | none => simp [DState.emit, DState.exitWith]
      | some t =>
        simp only
        apply ih
        · simpa [DState.emit] using hs
        · simpa [DState.emit, WF] using hwf
    | run prog inp out =>
      simp only [WF, Bool.and_eq_true] at hwf
      obtain ⟨⟨hi, ho⟩, hr⟩ := hwf
      obtain ⟨i, hi⟩ := resolve_ok hi
      have ho' : ∃ o, resolveOut s.tmpfiles out = some o := by
        cases out with
        | none => exact ⟨none, rfl⟩
        | some x => obtain ⟨p, hp⟩ := resolve_ok (tf := s.tmpfiles) (r := x) ho; exact ⟨some p, by simp [resolveOut, hp]⟩
      obtain ⟨o, ho'⟩ := ho'
      simp only [doAct, hi, ho']
      by_cases hw : (env.sched prog (DState.count { s with acts := r } prog)).status.wait = 0
      · simp only [hw, if_true]
        apply ih
        · cases prog <;> simpa [DState.emit, DState.bump] using hs
        · cases prog <;> simpa [DState.emit, DState.bump] using hr
      · simp only [hw, if_false]; simp [DState.exitWith]
    | pushLd ref =>
      simp only [WF, Bool.and_eq_true] at hwf
      obtain ⟨p, hp⟩ := resolve_ok hwf.1
      simp only [doAct, hp]
      exact ih _ _ (by simpa using hs) (by simpa using hwf.2)
    | link o =>
      simp only [doAct]
      by_cases hl : s.ldArgs.isEmpty = true
      · simp only [hl, if_true]
        exact ih _ _ (by simpa using hs) (by simpa [WF] using hwf)
      · simp only [hl, if_false]
        by_cases hw : (env.sched Prog.ld s.nLd).status.wait = 0
        · simp only [hw, if_true]
          exact ih _ _ (by simpa [DState.emit, DState.bump] using hs) (by simpa [WF, DState.emit, DState.bump] using hwf)
        · simp only [hw, if_false]; simp [DState.exitWith]
    | fail why => simp [doAct, DState.exitWith]

omit [DecidableEq P] in
theorem mkCount_append (a b : List (Act P)) : mkCount (a ++ b) = mkCount a + mkCount b := by
  induction a with
  | nil => simp [mkCount]
  | cons x r ih => cases x <;> simp [mkCount, ih] <;> omega

theorem plan_mkCount (cmd : Cmd P) (n : Nat) (i : Input P) : mkCount (plan cmd n i) = planTemps cmd i := by
  unfold plan planTemps
  cases cmd.depsOnly <;> cases effKind cmd.mode i.kind <;> cases cmd.mode <;> simp [mkCount]

theorem plan_WF (cmd : Cmd P) (n : Nat) (i : Input P) : WF n (plan cmd n i) = true := by
  unfold plan
  cases cmd.depsOnly <;> cases effKind cmd.mode i.kind <;> cases cmd.mode <;> simp [WF, Ref.ok] <;>
    (try cases cmd.out <;> simp [Ref.ok]) <;> omega

theorem compileLoop_WF (cmd : Cmd P) (n : Nat) (l : List (Input P)) : WF n (compileLoop cmd n l) = true := by
  induction l generalizing n with
  | nil => simp only [compileLoop]; split <;> simp [WF]
  | cons i r ih => simp [compileLoop, WF_append, plan_WF, plan_mkCount, ih]

theorem compile_WF (cmd : Cmd P) : WF 0 (compile cmd) = true := by
  unfold compile
  split
  · simp [WF]
  · split
    · simp [WF]
    · exact compileLoop_WF cmd 0 _

/-! ### the atexit handler, and the whole run -/

theorem cleanupAll_spec (code : Nat) (todo : List P) (s : DState P) (fs : FS P) :
    (cleanupAll code todo (s, fs)).1.phase = .done code ∧
    (cleanupAll code todo (s, fs)).1.log = s.log ++ todo.map Event.unlink ++ [Event.exit code] ∧
    (cleanupAll code todo (s, fs)).1.tmpfiles = s.tmpfiles ∧
    (∀ p, (cleanupAll code todo (s, fs)).2.get p = if p ∈ todo then none else fs.get p) := by
  induction todo generalizing s fs with
  | nil => simp [cleanupAll, DState.emit]
  | cons t ts ih =>
    obtain ⟨h1, h2, h3, h4⟩ := ih (({ s with phase := Phase.exiting code ts }).emit (.unlink t)) (fs.erase t)
    simp only [cleanupAll]
    refine ⟨h1, ?_, h3, ?_⟩
    · rw [h2]; simp [DState.emit]
    · intro p
      rw [h4 p, FS.get_erase]
      by_cases hp : p = t
      · simp [hp]
      · by_cases hp2 : p ∈ ts <;> simp [hp, hp2]

theorem doActs_error_shape (env : Env P) (acts : List (Act P)) (s : DState P) (fs : FS P)
    (e : DState P × FS P) (h : doActs env acts (s, fs) = .error e) :
    e.1.phase = .stuck ∨ e.1.phase = .exiting 1 e.1.tmpfiles := by
  induction acts generalizing s fs with
  | nil => simp [doActs] at h
  | cons a r ih =>
    simp only [doActs] at h
    cases hd : doAct env a ({ s with acts := r }, fs) with
    | ok y => rw [hd] at h; exact ih y.1 y.2 h
    | error e' =>
      rw [hd] at h; injection h with h; subst h
      rcases doAct_error_shape env a _ fs e' hd with h | ⟨h, _⟩
      · exact Or.inl h
      · exact Or.inr h

/-- summary of a complete run of a command: the configuration `e` at the moment `exit`/`return` is
    reached, and what the atexit handler makes of it -/
theorem runCmd_spec (env : Env P) (cmd : Cmd P) (fs : FS P) :
    ∃ (code : Nat) (e : DState P) (efs : FS P),
      runCmd env cmd fs = cleanupAll code e.tmpfiles (e, efs) ∧
      created e.log = e.tmpfiles ∧
      ((code = 0 ∧ doActs env (compile cmd) (init cmd, fs) = .ok (e, efs) ∧ ∀ x ∈ e.log, Event.bad x = false) ∨
       (code = 1 ∧ doActs env (compile cmd) (init cmd, fs) = .error (e, efs) ∧
          ∃ l b, e.log = l ++ [b] ∧ (∀ x ∈ l, Event.bad x = false) ∧ Event.bad b = true)) := by
  have hrun : runCmd env cmd fs = bigRun env (init cmd, fs) :=
    iter_eq_bigRun env (init cmd) fs _ rfl (Nat.le_refl _)
  have hinv := doActs_inv env (compile cmd) (init cmd) fs
  have hns := doActs_not_stuck env (compile cmd) (init cmd) fs (by simp [init]) (by simpa [init] using compile_WF cmd)
  rw [hrun]
  simp only [bigRun, show (init cmd).acts = compile cmd from rfl]
  cases hd : doActs env (compile cmd) (init cmd, fs) with
  | ok y =>
    obtain ⟨ys, yfs⟩ := y
    simp only [hd, ActInv] at hinv
    obtain ⟨⟨l, hl, hlb⟩, hc⟩ := hinv
    refine ⟨0, ys, yfs, ?_, hc (by simp [init, created]), Or.inl ⟨rfl, rfl, ?_⟩⟩
    · simp only; exact finish_exiting ys yfs 0
    · intro x hx; rw [hl] at hx; simp [init] at hx; exact hlb x hx
  | error e =>
    obtain ⟨es, efs⟩ := e
    simp only [hd, ActInv] at hinv
    simp only [hd] at hns
    rcases hinv with h | ⟨⟨l, b, hl, hlb, hb⟩, hc⟩
    · exact absurd h hns
    · refine ⟨1, es, efs, ?_, hc (by simp [init, created]), Or.inr ⟨rfl, rfl, l, b, ?_, hlb, hb⟩⟩
      · rcases doActs_error_shape env _ _ fs _ hd with h | h
        · exact absurd h hns
        · simp only at h
          have he : es = es.exitWith 1 := by
            cases es; simp only [DState.exitWith] at h ⊢; subst h; rfl
          have := finish_exiting es efs 1
          rw [← he] at this
          exact this
      · simpa [init] using hl

end ChibiVerif.DriverProc
