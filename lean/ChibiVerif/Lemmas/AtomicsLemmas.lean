/-
Helper lemmas for C16 (Props/C16.lean): register sub-word facts, the thread-local invariant, and the
global invariant of the interleaving semantics of Model/Atomics.lean.
-/
import ChibiVerif.Model.Atomics

namespace ChibiVerif.Atomics

/-! ### sub-registers -/

theorem rw8 (r : BitVec 64) (v : BitVec 8) : ((r &&& 0xFFFFFFFFFFFFFF00#64) ||| v.setWidth 64).setWidth 8 = v := by
  apply BitVec.eq_of_getLsbD_eq; intro i hi; simp [hi]
theorem rw16 (r : BitVec 64) (v : BitVec 16) : ((r &&& 0xFFFFFFFFFFFF0000#64) ||| v.setWidth 64).setWidth 16 = v := by
  apply BitVec.eq_of_getLsbD_eq; intro i hi; simp [hi]
theorem rw32 (r : BitVec 64) (v : BitVec 32) : ((r &&& 0#64) ||| v.setWidth 64).setWidth 32 = v := by
  apply BitVec.eq_of_getLsbD_eq; intro i hi; simp [hi]
theorem rw64 (r : BitVec 64) (v : BitVec 64) : ((r &&& 0#64) ||| v.setWidth 64).setWidth 64 = v := by
  simp

/-- reading back a sub-register that was just written yields the written value, whatever the rest of the register holds -/
theorem readReg_writeReg (w : Width) (r : BitVec 64) (v : Word w) : readReg w (writeReg w r v) = v := by
  cases w
  · exact rw8 r v
  · exact rw16 r v
  · exact rw32 r v
  · exact rw64 r v

theorem se8 (v : BitVec 8) : ((v.signExtend 32).setWidth 64).setWidth 8 = v := by
  apply BitVec.eq_of_getLsbD_eq; intro i hi
  have h32 : i < 32 := by omega
  simp [hi, h32, BitVec.getElem_signExtend]
theorem se16 (v : BitVec 16) : ((v.signExtend 32).setWidth 64).setWidth 16 = v := by
  apply BitVec.eq_of_getLsbD_eq; intro i hi
  have h32 : i < 32 := by omega
  simp [hi, h32, BitVec.getElem_signExtend]
theorem se32 (v : BitVec 32) : (v.signExtend 64).setWidth 32 = v := by
  apply BitVec.eq_of_getLsbD_eq; intro i hi
  have h64 : i < 64 := by omega
  simp [BitVec.getElem_signExtend, hi, h64]
theorem ze (n : Nat) (h : n ≤ 64) (v : BitVec n) : (v.setWidth 64).setWidth n = v := by
  apply BitVec.eq_of_getLsbD_eq; intro i hi
  have h64 : i < 64 := by omega
  simp [hi, h64]

/-- the low `w` bits of a register loaded from a `w`-bit object are the object's value, whatever the extension -/
theorem readReg_loadExt (w : Width) (k : Kind) (v : Word w) : readReg w (loadExt w k v) = v := by
  cases w <;> cases k <;> simp only [readReg, loadExt, Width.bits] <;>
    first | exact se8 v | exact se16 v | exact se32 v | exact ze _ (by decide) v | simp

@[simp] theorem bit8_true : bit8 true = 1#8 := rfl
@[simp] theorem bit8_false : bit8 false = 0#8 := rfl
@[simp] theorem one_ne_zero8 : (1#8 = 0#8) = False := by decide
theorem bit8_ne_zero (b : Bool) : (bit8 b != 0#8) = b := by cases b <;> decide
theorem bit8_ext32 (b : Bool) : (((bit8 b).setWidth 64).setWidth 32 == 0#32) = !b := by cases b <;> decide
theorem write_al_zero (r : BitVec 64) (z : Bool) : ((writeReg .w8 r (bit8 z)).setWidth 8 == 0#8) = !z := by
  have := readReg_writeReg .w8 r (bit8 z)
  simp only [readReg, Width.bits] at this
  rw [this]; cases z <;> decide
theorem movzx_test (x : BitVec 64) :
    (((x.setWidth 8).setWidth 64).setWidth 32 == 0#32) = (x.setWidth 8 == 0#8) := by
  generalize x.setWidth 8 = y
  have h1 : (y.setWidth 64).setWidth 32 = y.setWidth 32 := by
    apply BitVec.eq_of_getLsbD_eq; intro i hi; simp
  rw [h1]
  have h2 : (y.setWidth 32).setWidth 8 = y := by
    apply BitVec.eq_of_getLsbD_eq; intro i hi; simp [hi]
  by_cases hy : y = 0#8
  · subst hy; decide
  · have : y.setWidth 32 ≠ 0#32 := by
      intro h; apply hy; rw [← h2, h]; decide
    rw [beq_eq_false_iff_ne.mpr hy, beq_eq_false_iff_ne.mpr this]

theorem zext8_32_eq_zero (x : BitVec 8) : (x.setWidth 32 = 0#32) = (x = 0#8) := by
  have h2 : (x.setWidth 32).setWidth 8 = x := by
    apply BitVec.eq_of_getLsbD_eq; intro i hi; simp [hi]
  apply propext; constructor
  · intro h; rw [← h2, h]; decide
  · intro h; subst h; decide

/-! ### `lock cmpxchg` -/

theorem lockCmpxchg_eq {w : Width} {c : Word w} {rax rdx : BitVec 64} (h : c = readReg w rax) :
    lockCmpxchg w c rax rdx = (readReg w rdx, rax, true) := by
  simp [lockCmpxchg, h]

theorem lockCmpxchg_ne {w : Width} {c : Word w} {rax rdx : BitVec 64} (h : c ≠ readReg w rax) :
    lockCmpxchg w c rax rdx = (c, writeReg w rax c, false) := by
  simp [lockCmpxchg, h]

/-! ### thread-local invariant -/

/-- what the private state of a thread satisfies at each program point of its current operation -/
def TInv {w : Width} (th : Thread w) : Prop :=
  match th.todo with
  | [] => True
  | .rmw f _ :: _ =>
    match th.pc with
    | .init0 | .init1 | .compute | .trap => True
    | .casNew => f th.old = some th.new
    | .casOld => f th.old = some th.new ∧ readReg w th.stk = th.new
    | .popRdx => f th.old = some th.new ∧ readReg w th.stk = th.new ∧ readReg w th.rax = th.old
    | .popRdi | .cmpxchg => f th.old = some th.new ∧ readReg w th.rdx = th.new ∧ readReg w th.rax = th.old
    | .sete => True
    | .je => th.cl = bit8 th.zf
    | .wb => th.zf = false ∧ th.cl = 0#8
    | .movzbl | .cmp1 | .seteAl | .movzx | .cmp2 | .jne | .result => True
    | _ => False
  | .cas e d :: _ =>
    match th.pc with
    | .casNew => th.old = e
    | .casOld => th.old = e ∧ th.stk = d
    | .popRdx => th.old = e ∧ th.stk = d ∧ readReg w th.rax = e
    | .popRdi | .cmpxchg => th.old = e ∧ th.rdx = d ∧ readReg w th.rax = e
    | .sete => True
    | .je => th.cl = bit8 th.zf
    | .wb => th.zf = false ∧ th.cl = 0#8
    | .movzbl => True
    | _ => False
  | .xchg v :: _ =>
    match th.pc with
    | .xload => True
    | .xpre | .xchg => readReg w th.rax = readReg w v
    | .xext => True
    | _ => False
  | .load :: _ =>
    match th.pc with
    | .aload => True
    | _ => False
  | .store v :: _ =>
    match th.pc with
    | .sload => True
    | .sstore => th.rax = v
    | _ => False

theorem TInv_enter {w : Width} (th : Thread w) : TInv (enter th) := by
  unfold enter
  cases h : th.todo with
  | nil => simp [TInv, h]
  | cons o rest =>
    cases o <;> simp [TInv, h, startPc]

theorem TInv_mkThread {w : Width} (ops : List (Oper w)) : TInv (mkThread ops) := TInv_enter _

theorem TInv_finish {w : Width} (th : Thread w) (r : Result w) : TInv (finish th r) := TInv_enter _

/-! ### `enter` / `finish` -/

theorem pendingRes_enter {w : Width} (th : Thread w) : (enter th).pendingRes = none := by
  unfold enter
  cases h : th.todo with
  | nil => simp [Thread.pendingRes, h]
  | cons o rest => cases o <;> simp [Thread.pendingRes, Thread.succeeded, h, startPc]

theorem todo_enter {w : Width} (th : Thread w) : (enter th).todo = th.todo := by
  unfold enter
  cases h : th.todo with
  | nil => simp [h]
  | cons o rest => cases o <;> simp [h]

theorem results_enter {w : Width} (th : Thread w) : (enter th).results = th.results := by
  unfold enter
  cases h : th.todo with
  | nil => rfl
  | cons o rest => cases o <;> rfl

theorem believes_enter {w : Width} (th : Thread w) : (enter th).believes = none := by
  unfold enter
  cases h : th.todo with
  | nil => simp [Thread.believes, h]
  | cons o rest => cases o <;> simp [Thread.believes, h, startPc]

theorem rax_enter {w : Width} (th : Thread w) : (enter th).rax = th.rax := by
  unfold enter
  cases h : th.todo with
  | nil => rfl
  | cons o rest => cases o <;> rfl

theorem pendingOps_enter {w : Width} (th : Thread w) : (enter th).pendingOps = th.todo := by
  simp [Thread.pendingOps, pendingRes_enter, todo_enter]

@[simp] theorem pendingRes_finish {w : Width} (th : Thread w) (r : Result w) : (finish th r).pendingRes = none :=
  pendingRes_enter _
@[simp] theorem todo_finish {w : Width} (th : Thread w) (r : Result w) : (finish th r).todo = th.todo.tail := by
  simp [finish, todo_enter]
@[simp] theorem results_finish {w : Width} (th : Thread w) (r : Result w) : (finish th r).results = th.results ++ [r] := by
  simp [finish, results_enter]
@[simp] theorem rax_finish {w : Width} (th : Thread w) (r : Result w) : (finish th r).rax = th.rax := by
  simp [finish, rax_enter]
@[simp] theorem believes_finish {w : Width} (th : Thread w) (r : Result w) : (finish th r).believes = none :=
  believes_enter _
@[simp] theorem pendingOps_finish {w : Width} (th : Thread w) (r : Result w) : (finish th r).pendingOps = th.todo.tail := by
  simp [finish, pendingOps_enter]

/-! ### one step of one thread -/

/-- what a step does to the bookkeeping of the stepping thread: a commit moves the head of the
    uncommitted operations into the log together with the result the thread will report, and its
    effect on the object is the sequential specification's; any other step leaves the object alone -/
def Eff {w : Width} (c : Word w) (th : Thread w) (out : StepOut w) : Prop :=
  match out.ev with
  | some (.commit o r) =>
      th.pendingOps = o :: out.th.pendingOps ∧
      out.th.results ++ out.th.pendingRes.toList = th.results ++ th.pendingRes.toList ++ [r] ∧
      o.spec c = some (out.cell, r)
  | _ =>
      out.cell = c ∧ out.th.pendingOps = th.pendingOps ∧
      out.th.results ++ out.th.pendingRes.toList = th.results ++ th.pendingRes.toList

/-- a logged access leaves the thread believing the object's current value (or nothing);
    an unlogged step keeps its belief -/
def Bel {w : Width} (th : Thread w) (out : StepOut w) : Prop :=
  ∀ v, out.th.believes = some v →
    (out.ev.isSome = true → v = out.cell) ∧ (out.ev = none → th.believes = some v)

structure StepOK {w : Width} (c : Word w) (th : Thread w) (out : StepOut w) : Prop where
  tinv : TInv out.th
  eff : Eff c th out
  bel : Bel th out

macro "step_simp" : tactic => `(tactic|
  (try simp only [Eff, Bel, pendingRes_finish, pendingOps_finish, results_finish, believes_finish, todo_finish]) <;>
  simp [TInv, Eff, Bel, Thread.pendingOps, Thread.pendingRes, Thread.succeeded, Thread.believes, Oper.spec,
        readReg_loadExt, readReg_writeReg, bit8_ne_zero, bit8_ext32, write_al_zero, movzx_test, zext8_32_eq_zero, TInv_finish, *] at *)

macro "solve_case" : tactic => `(tactic|
  (refine ⟨?_, ?_, ?_⟩ <;> first | exact TInv_finish _ _ | (step_simp <;> (try simp_all))))

theorem stepOK {w : Width} (k : Kind) (c : Word w) (th : Thread w) (h : TInv th) :
    StepOK c th (stepThread k c th) := by
  cases htodo : th.todo with
  | nil =>
    simp only [stepThread, htodo]
    refine ⟨h, ?_, ?_⟩ <;> simp [Eff, Bel]
  | cons o rest =>
    cases o with
    | rmw f ro =>
      cases hpc : th.pc <;> simp only [stepThread, htodo, hpc]
      case compute => cases hf : f th.old <;> solve_case
      case cmpxchg =>
        by_cases hc : c = readReg w th.rax
        · rw [lockCmpxchg_eq hc]; solve_case
        · rw [lockCmpxchg_ne hc]; solve_case
      case je => cases hz : th.zf <;> solve_case
      case jne => cases hz : th.zf <;> solve_case
      all_goals (try solve_case)
    | cas e d =>
      cases hpc : th.pc <;> simp only [stepThread, htodo, hpc]
      case cmpxchg =>
        by_cases hc : c = readReg w th.rax
        · rw [lockCmpxchg_eq hc]; solve_case
        · rw [lockCmpxchg_ne hc]; solve_case
      case je => cases hz : th.zf <;> solve_case
      all_goals (try solve_case)
    | xchg v =>
      cases hpc : th.pc <;> simp only [stepThread, htodo, hpc]
      case xload => cases hk : (k == Kind.flo) <;> simp only [Bool.false_eq_true, ↓reduceIte] <;> solve_case
      case xchg => cases hn : xchgHasPost w k <;> simp only [Bool.false_eq_true, ↓reduceIte] <;> solve_case
      all_goals (try solve_case)
    | load =>
      cases hpc : th.pc <;> simp only [stepThread, htodo, hpc]
      all_goals (try solve_case)
    | store v =>
      cases hpc : th.pc <;> simp only [stepThread, htodo, hpc]
      all_goals (try solve_case)

/-! ### the log -/

theorem replay_append {w : Width} (init : Word w) (l : List (Event w)) (e : Event w) :
    replay init (l ++ [e]) = applyEv (replay init l) e := by
  simp [replay, List.foldl_append]

theorem commitsOf_append {w : Width} (t : Nat) (l : List (Event w)) (e : Event w) :
    commitsOf t (l ++ [e]) = commitsOf t l ++ (e.commitOf t).toList := by
  simp only [commitsOf, List.filterMap_append]
  cases h : e.commitOf t <;> simp [List.filterMap, h]

theorem noCommitSince_append {w : Width} (t : Nat) (l : List (Event w)) (e : Event w) :
    noCommitSince t (l ++ [e]) = (if e.tid = t then true else (!e.kind.isCommit && noCommitSince t l)) := by
  simp [noCommitSince, noCommitSinceRev]

/-! ### global invariant -/

/-- everything the property theorems need, for a run that started from `initSys w k init progs` -/
structure Good {w : Width} (init : Word w) (progs : List (List (Oper w))) (s : Sys w) : Prop where
  /-- the object holds what the committed operations, applied sequentially in commit order, produce -/
  lin : replay init s.log = some s.cell
  len : s.threads.length = progs.length
  tids : ∀ e ∈ s.log, e.tid < progs.length
  thr : ∀ t th, s.threads[t]? = some th →
    TInv th ∧
    progs[t]? = some ((commitsOf t s.log).map Prod.fst ++ th.pendingOps) ∧
    (commitsOf t s.log).map Prod.snd = th.results ++ th.pendingRes.toList ∧
    (∀ v, th.believes = some v → noCommitSince t s.log = true → v = s.cell)

theorem pendingRes_mkThread {w : Width} (ops : List (Oper w)) : (mkThread ops).pendingRes = none :=
  pendingRes_enter _

theorem Good_init {w : Width} (k : Kind) (init : Word w) (progs : List (List (Oper w))) :
    Good init progs (initSys w k init progs) := by
  refine ⟨rfl, by simp [initSys], by simp [initSys], ?_⟩
  intro t th hth
  simp only [initSys, List.getElem?_map] at hth
  cases hp : progs[t]? with
  | none => simp [hp] at hth
  | some p =>
    simp [hp] at hth
    subst hth
    refine ⟨TInv_mkThread p, ?_, ?_, ?_⟩
    · simp [initSys, commitsOf, mkThread, pendingOps_enter]
    · simp [initSys, commitsOf, mkThread, pendingRes_enter, results_enter]
    · intro v hv; simp [mkThread, believes_enter] at hv

theorem Good_step {w : Width} {init : Word w} {progs : List (List (Oper w))} {s : Sys w}
    (g : Good init progs s) (t : Nat) : Good init progs (step t s) := by
  unfold step
  cases hth : s.threads[t]? with
  | none => simpa using g
  | some th =>
    simp only
    obtain ⟨hT, hops, hres, hbel⟩ := g.thr t th hth
    have ok := stepOK s.kind s.cell th hT
    have htlt : t < s.threads.length := by
      rcases List.getElem?_eq_some_iff.mp hth with ⟨h, _⟩; exact h
    generalize hout : stepThread s.kind s.cell th = out at ok
    obtain ⟨oth, ocell, oev⟩ := out
    have heff := ok.eff
    have hbl := ok.bel
    simp only [Eff, Bel] at heff hbl
    cases oev with
    | none =>
      -- an unlogged private step
      simp only at heff hbl
      obtain ⟨hc, hpo, hpr⟩ := heff
      subst hc
      refine ⟨by simpa using g.lin, by simpa using g.len, by simpa using g.tids, ?_⟩
      intro u thu hu
      simp only [Option.map_none, Option.toList_none, List.append_nil] at hu ⊢
      by_cases hut : u = t
      · subst hut
        rw [List.getElem?_set_self htlt] at hu
        cases hu
        refine ⟨ok.tinv, by rw [hpo]; exact hops, by rw [hpr]; exact hres, ?_⟩
        intro v hv hn
        exact hbel v ((hbl v hv).2 trivial) hn
      · rw [List.getElem?_set_ne (Ne.symm hut)] at hu
        exact g.thr u thu hu
    | some ek =>
      have hlog : ∀ u, u ≠ t → commitsOf u (s.log ++ [Event.mk t ek]) = commitsOf u s.log := by
        intro u hut
        rw [commitsOf_append]
        cases ek <;> simp [Event.commitOf, Ne.symm hut]
      have htid : ∀ e ∈ s.log ++ [Event.mk t ek], e.tid < progs.length := by
        intro e he
        rcases List.mem_append.mp he with h | h
        · exact g.tids e h
        · simp at h; subst h; simpa [← g.len] using htlt
      cases ek with
      | read =>
        simp only at heff hbl
        obtain ⟨hc, hpo, hpr⟩ := heff
        subst hc
        refine ⟨?_, by simpa using g.len, by simpa using htid, ?_⟩
        · simp only [Option.map_some, Option.toList_some]
          rw [replay_append, g.lin]; rfl
        intro u thu hu
        simp only [Option.map_some, Option.toList_some] at hu ⊢
        by_cases hut : u = t
        · subst hut
          rw [List.getElem?_set_self htlt] at hu
          cases hu
          have hco : commitsOf u (s.log ++ [Event.mk u EvKind.read]) = commitsOf u s.log := by
            rw [commitsOf_append]; simp [Event.commitOf]
          refine ⟨ok.tinv, by rw [hco, hpo]; exact hops, by rw [hco, hpr]; exact hres, ?_⟩
          intro v hv _
          exact (hbl v hv).1 rfl
        · rw [List.getElem?_set_ne (Ne.symm hut)] at hu
          obtain ⟨a, b, c, d⟩ := g.thr u thu hu
          refine ⟨a, by rw [hlog u hut]; exact b, by rw [hlog u hut]; exact c, ?_⟩
          intro v hv hn
          rw [noCommitSince_append] at hn
          simp [Ne.symm hut, EvKind.isCommit] at hn
          exact d v hv hn
      | commit o r =>
        simp only at heff hbl
        obtain ⟨hpo, hpr, hspec⟩ := heff
        refine ⟨?_, by simpa using g.len, by simpa using htid, ?_⟩
        · simp only [Option.map_some, Option.toList_some]
          rw [replay_append, g.lin]
          simp [applyEv, hspec]
        intro u thu hu
        simp only [Option.map_some, Option.toList_some] at hu ⊢
        by_cases hut : u = t
        · subst hut
          rw [List.getElem?_set_self htlt] at hu
          cases hu
          have hco : commitsOf u (s.log ++ [Event.mk u (EvKind.commit o r)]) = commitsOf u s.log ++ [(o, r)] := by
            rw [commitsOf_append]; simp [Event.commitOf]
          refine ⟨ok.tinv, ?_, ?_, ?_⟩
          · rw [hco, hops, hpo]; simp
          · rw [hco]; simp only [List.map_append, List.map_cons, List.map_nil]; rw [hres, hpr]
          · intro v hv _
            exact (hbl v hv).1 rfl
        · rw [List.getElem?_set_ne (Ne.symm hut)] at hu
          obtain ⟨a, b, c, d⟩ := g.thr u thu hu
          refine ⟨a, by rw [hlog u hut]; exact b, by rw [hlog u hut]; exact c, ?_⟩
          intro v hv hn
          rw [noCommitSince_append] at hn
          simp [Ne.symm hut, EvKind.isCommit] at hn

theorem Good_exec {w : Width} {init : Word w} {progs : List (List (Oper w))} (sched : List Nat) :
    ∀ {s : Sys w}, Good init progs s → Good init progs (exec sched s) := by
  induction sched with
  | nil => intro s g; exact g
  | cons t rest ih => intro s g; exact ih (Good_step g t)

/-! ### at termination the log is a permutation of the programs -/

theorem flatMap_congr' {α β : Type} (l : List β) (f g : β → List α) (h : ∀ x ∈ l, f x = g x) :
    l.flatMap f = l.flatMap g := by
  induction l with
  | nil => rfl
  | cons a l ih =>
    simp only [List.flatMap_cons]
    rw [h a (by simp), ih (fun x hx => h x (by simp [hx]))]

theorem perm_of_proj {α : Type} (n : Nat) : ∀ (l : List (Nat × α)), (∀ e ∈ l, e.1 < n) →
    (l.map (·.2)).Perm ((List.range n).flatMap fun t => (l.filter (fun e => e.1 == t)).map (·.2)) := by
  induction n with
  | zero =>
    intro l h
    cases l with
    | nil => simp
    | cons e l => exact absurd (h e (by simp)) (by omega)
  | succ n ih =>
    intro l h
    rw [List.range_succ, List.flatMap_append]
    simp only [List.flatMap_cons, List.flatMap_nil, List.append_nil]
    have hsplit := (List.filter_append_perm (fun e : Nat × α => e.1 == n) l)
    have h1 : (l.map (·.2)).Perm ((l.filter (fun e => !(e.1 == n))).map (·.2) ++ (l.filter (fun e => e.1 == n)).map (·.2)) := by
      rw [← List.map_append]
      exact (hsplit.symm.trans List.perm_append_comm).map _
    refine h1.trans (List.Perm.append ?_ (List.Perm.refl _))
    have h2 := ih (l.filter (fun e => !(e.1 == n))) (by
      intro e he
      simp only [List.mem_filter] at he
      have := h e he.1
      have hne : e.1 ≠ n := by simpa using he.2
      omega)
    refine h2.trans (List.Perm.of_eq ?_)
    apply flatMap_congr'
    intro t ht
    simp only [List.mem_range] at ht
    rw [List.filter_filter]
    congr 1
    apply List.filter_congr
    intro e _
    by_cases het : e.1 = t
    · simp [het]; omega
    · simp [het]

theorem commitsOf_eq {w : Width} (t : Nat) (log : List (Event w)) :
    commitsOf t log = ((commits log).filter (fun e => e.1 == t)).map (·.2) := by
  induction log with
  | nil => rfl
  | cons e l ih =>
    simp only [commitsOf, commits, List.filterMap_cons] at ih ⊢
    cases hk : e.kind with
    | read => simp [Event.commitOf, hk, ih]
    | commit o r =>
      by_cases het : e.tid = t
      · simp [Event.commitOf, hk, het, ih]
      · simp [Event.commitOf, hk, het, ih]

theorem mem_commits {w : Width} {log : List (Event w)} {x : Nat × Oper w × Result w} (h : x ∈ commits log) :
    ∃ e ∈ log, e.tid = x.1 := by
  simp only [commits, List.mem_filterMap] at h
  obtain ⟨e, he, hx⟩ := h
  refine ⟨e, he, ?_⟩
  cases hk : e.kind with
  | read => simp [hk] at hx
  | commit o r => simp [hk] at hx; rw [← hx]

theorem range_map_getD {α : Type} (l : List (List α)) :
    (List.range l.length).map (fun t => l[t]?.getD []) = l := by
  apply List.ext_getElem
  · simp
  · intro i h1 h2
    simp at h1 ⊢
    simp [h2]

/-- when every thread has finished, the committed operations are exactly all the operations of all
    the programs, each once -/
theorem commits_perm {w : Width} {init : Word w} {progs : List (List (Oper w))} {s : Sys w}
    (g : Good init progs s) (hterm : ∀ th ∈ s.threads, th.todo = []) :
    ((commits s.log).map (·.2.1)).Perm progs.flatten := by
  have hlt : ∀ e ∈ commits s.log, e.1 < progs.length := by
    intro x hx
    obtain ⟨e, he, het⟩ := mem_commits hx
    rw [← het]; exact g.tids e he
  have h1 := (perm_of_proj progs.length (commits s.log) hlt).map (·.1)
  have h0 : (commits s.log).map (·.2.1) = ((commits s.log).map (·.2)).map (·.1) := by simp
  rw [h0]
  refine h1.trans (List.Perm.of_eq ?_)
  rw [List.map_flatMap]
  conv => rhs; rw [← range_map_getD progs]
  rw [List.flatMap_def]
  congr 1
  apply List.map_congr_left
  intro t ht
  simp only [List.mem_range] at ht
  rw [← commitsOf_eq]
  have htl : t < s.threads.length := by rw [g.len]; exact ht
  have hth : s.threads[t]? = some s.threads[t] := List.getElem?_eq_getElem htl
  obtain ⟨_, hops, _, _⟩ := g.thr t _ hth
  have htodo := hterm _ (List.getElem_mem htl)
  have hp : (s.threads[t]).pendingOps = [] := by
    simp [Thread.pendingOps, Thread.pendingRes, htodo]
  rw [hops, hp]; simp


/-! ### a sequential history determines the object's value -/

theorem foldl_applyEv_none {w : Width} (l : List (Event w)) : l.foldl applyEv none = none := by
  induction l with
  | nil => rfl
  | cons e l ih =>
    simp only [List.foldl_cons]
    have : applyEv none e = none := by
      cases hk : e.kind <;> simp [applyEv, hk]
    rw [this, ih]

theorem replay_foldl {w : Width} : ∀ (log : List (Event w)) (init c : Word w),
    replay init log = some c → c = ((commits log).map (·.2.1)).foldl applyOp init := by
  intro log
  induction log with
  | nil => intro init c h; simp [replay] at h; simp [commits, h]
  | cons e l ih =>
    intro init c h
    simp only [replay, List.foldl_cons] at h
    cases hk : e.kind with
    | read =>
      simp only [applyEv, hk] at h
      have := ih init c h
      simpa [commits, hk] using this
    | commit o r =>
      simp only [applyEv, hk] at h
      cases hs : o.spec init with
      | none => simp [hs, foldl_applyEv_none] at h
      | some p =>
        obtain ⟨c', r'⟩ := p
        simp only [hs] at h
        by_cases hrr : r' = r
        · simp only [hrr, if_true] at h
          have := ih c' c h
          simp only [commits, List.filterMap_cons, hk, List.map_cons, List.foldl_cons]
          simpa [applyOp, hs, commits] using this
        · simp [hrr, foldl_applyEv_none] at h

/-- unpacking `noCommitSince = false`: after thread `t`'s latest logged access another thread committed -/
theorem noCommitSinceRev_false {w : Width} (t : Nat) : ∀ (l : List (Event w)), noCommitSinceRev t l = false →
    ∃ l1 e l2, l = l1 ++ e :: l2 ∧ e.kind.isCommit = true ∧ e.tid ≠ t ∧ ∀ e' ∈ l1, e'.tid ≠ t := by
  intro l
  induction l with
  | nil => intro h; simp [noCommitSinceRev] at h
  | cons e l ih =>
    intro h
    simp only [noCommitSinceRev] at h
    by_cases het : e.tid = t
    · simp [het] at h
    · simp only [het, if_false, Bool.and_eq_false_iff, Bool.not_eq_false'] at h
      rcases h with h | h
      · exact ⟨[], e, l, rfl, h, het, by simp⟩
      · obtain ⟨l1, e', l2, hl, hc, ht, hall⟩ := ih h
        refine ⟨e :: l1, e', l2, by simp [hl], hc, ht, ?_⟩
        intro x hx
        rcases List.mem_cons.mp hx with rfl | hx
        · exact het
        · exact hall x hx

theorem noCommitSince_false {w : Width} (t : Nat) (log : List (Event w)) (h : noCommitSince t log = false) :
    ∃ l1 e l2, log = l1 ++ e :: l2 ∧ e.kind.isCommit = true ∧ e.tid ≠ t ∧ ∀ e' ∈ l2, e'.tid ≠ t := by
  obtain ⟨l1, e, l2, hl, hc, ht, hall⟩ := noCommitSinceRev_false t log.reverse h
  refine ⟨l2.reverse, e, l1.reverse, ?_, hc, ht, by simpa using hall⟩
  have := congrArg List.reverse hl
  simpa using this

/-! ### the commuting operators -/

theorem trunc_neg8 (y : BitVec 32) : (-y).setWidth 8 = -(y.setWidth 8) := by
  apply BitVec.eq_of_toNat_eq
  simp only [BitVec.toNat_setWidth, BitVec.toNat_neg]
  have hy := y.isLt
  omega
theorem trunc_neg16 (y : BitVec 32) : (-y).setWidth 16 = -(y.setWidth 16) := by
  apply BitVec.eq_of_toNat_eq
  simp only [BitVec.toNat_setWidth, BitVec.toNat_neg]
  have hy := y.isLt
  omega
theorem trunc_sub8 (x y : BitVec 32) : (x - y).setWidth 8 = x.setWidth 8 - y.setWidth 8 := by
  rw [BitVec.sub_eq_add_neg, BitVec.sub_eq_add_neg, BitVec.setWidth_add _ _ (by decide), trunc_neg8]
theorem trunc_sub16 (x y : BitVec 32) : (x - y).setWidth 16 = x.setWidth 16 - y.setWidth 16 := by
  rw [BitVec.sub_eq_add_neg, BitVec.sub_eq_add_neg, BitVec.setWidth_add _ _ (by decide), trunc_neg16]

theorem trunc_sext8 (v : BitVec 8) : (v.signExtend 32).setWidth 8 = v := by
  apply BitVec.eq_of_getLsbD_eq; intro i hi
  have h32 : i < 32 := by omega
  simp [hi, h32, BitVec.getElem_signExtend]
theorem trunc_sext16 (v : BitVec 16) : (v.signExtend 32).setWidth 16 = v := by
  apply BitVec.eq_of_getLsbD_eq; intro i hi
  have h32 : i < 32 := by omega
  simp [hi, h32, BitVec.getElem_signExtend]
theorem trunc_zext8 (v : BitVec 8) : (v.setWidth 32).setWidth 8 = v := by
  apply BitVec.eq_of_getLsbD_eq; intro i hi; simp [hi]
theorem trunc_zext16 (v : BitVec 16) : (v.setWidth 32).setWidth 16 = v := by
  apply BitVec.eq_of_getLsbD_eq; intro i hi; simp [hi]


/-- for `+= -= *= &= |= ^=` the promote-operate-truncate pipeline is the operation at the object's own width,
    for every width and signedness, and it never traps -/
theorem Op.fn_pure (w : Width) (sg : Bool) (op : Op) (h : op.commClass.isSome = true) (v c : Word w) :
    Op.fn w sg op v c = some (op.pure c v) := by
  cases w <;> cases sg <;> cases op <;> simp [Op.commClass] at h <;>
    simp [Op.fn, opAt, Op.pure, BitVec.setWidth_add, BitVec.setWidth_mul, trunc_sub8, trunc_sub16,
      trunc_sext8, trunc_sext16, trunc_zext8, trunc_zext16]

theorem Op.pure_comm {n : Nat} (o1 o2 : Op) (h1 : o1.commClass.isSome = true) (h : o1.commClass = o2.commClass)
    (c a b : BitVec n) : o2.pure (o1.pure c a) b = o1.pure (o2.pure c b) a := by
  cases o1 <;> cases o2 <;> simp [Op.commClass] at h h1 <;> simp only [Op.pure, BitVec.sub_eq_add_neg] <;> ac_rfl

theorem applyOp_rmw_fn (w : Width) (sg : Bool) (op : Op) (h : op.commClass.isSome = true) (v c : Word w) (ro : Bool) :
    applyOp c (.rmw (Op.fn w sg op v) ro) = op.pure c v := by
  simp [applyOp, Oper.spec, Op.fn_pure w sg op h]

theorem foldl_congr_mem {α β : Type} (f g : β → α → β) (l : List α) (init : β)
    (h : ∀ c, ∀ x ∈ l, f c x = g c x) : l.foldl f init = l.foldl g init := by
  induction l generalizing init with
  | nil => rfl
  | cons a l ih =>
    simp only [List.foldl_cons]
    rw [h init a (by simp)]
    exact ih _ (fun c x hx => h c x (by simp [hx]))

/-! ### progress -/

theorem distance_le {w : Width} (th : Thread w) (c : Word w) : th.distance c ≤ 30 := by
  unfold Thread.distance
  cases th.pc <;> simp <;> split <;> omega

macro "prog_simp" : tactic => `(tactic|
  simp [TInv, Thread.distance, Thread.pendingRes, Thread.succeeded, Thread.believes,
        readReg_loadExt, readReg_writeReg, bit8_ne_zero, bit8_ext32, write_al_zero, movzx_test, zext8_32_eq_zero, *] at *)

/-- one instruction of a thread inside a retry loop that has not succeeded yet: it commits, or traps, or gets
    one instruction closer to its next successful `lock cmpxchg` -/
theorem step_progress {w : Width} (k : Kind) (c : Word w) (th : Thread w) (f : Word w → Option (Word w)) (ro : Bool)
    (rest : List (Oper w)) (hT : TInv th) (htodo : th.todo = .rmw f ro :: rest) (hp : th.pendingRes = none)
    (htrap : th.pc ≠ .trap) :
    let out := stepThread k c th
    (∃ o r, out.ev = some (.commit o r)) ∨ out.th.pc = .trap ∨
      (out.cell = c ∧ out.th.distance c + 1 = th.distance c ∧ out.th.pendingRes = none ∧ out.th.todo = th.todo ∧
        out.th.pc ≠ .trap ∧ (∀ o r, out.ev ≠ some (.commit o r))) := by
  cases hpc : th.pc <;> simp only [stepThread, htodo, hpc]
  case compute => cases hf : f th.old <;> prog_simp <;> (split <;> omega)
  case cmpxchg =>
    by_cases hc : c = readReg w th.rax
    · rw [lockCmpxchg_eq hc]; prog_simp
    · have hc' : ¬ readReg w th.rax = c := fun h => hc h.symm
      rw [lockCmpxchg_ne hc]; prog_simp
  case je => cases hz : th.zf <;> prog_simp <;> (split <;> omega)
  case jne => cases hz : th.zf <;> prog_simp <;> (split <;> omega)
  all_goals (try prog_simp)
  all_goals (try (split <;> omega))
  all_goals (try (simp_all <;> (try (split <;> omega))))

/-! ### commits only accumulate -/

theorem commits_append {w : Width} (l : List (Event w)) (e : Event w) :
    (commits (l ++ [e])).length = (commits l).length + (if e.kind.isCommit then 1 else 0) := by
  simp only [commits, List.filterMap_append, List.length_append]
  cases hk : e.kind <;> simp [List.filterMap, hk, EvKind.isCommit]

theorem ncommits_step {w : Width} (t : Nat) (s : Sys w) : ncommits s ≤ ncommits (step t s) := by
  unfold step ncommits
  cases hth : s.threads[t]? with
  | none => simp
  | some th =>
    simp only
    cases (stepThread s.kind s.cell th).ev with
    | none => simp
    | some ek => simp only [Option.map_some, Option.toList_some]; rw [commits_append]; omega

theorem ncommits_exec {w : Width} (sched : List Nat) : ∀ (s : Sys w), ncommits s ≤ ncommits (exec sched s) := by
  induction sched with
  | nil => intro s; exact Nat.le_refl _
  | cons t rest ih => intro s; exact Nat.le_trans (ncommits_step t s) (ih (step t s))

theorem trapped_step {w : Width} {s : Sys w} {t : Nat} (u : Nat) (h : trapped s t) : trapped (step u s) t := by
  obtain ⟨th, hth, hpc⟩ := h
  unfold step
  cases hu : s.threads[u]? with
  | none => exact ⟨th, by simpa using hth, hpc⟩
  | some thu =>
    simp only
    by_cases hut : u = t
    · subst hut
      have : thu = th := by rw [hth] at hu; cases hu; rfl
      subst this
      have hlt : u < s.threads.length := (List.getElem?_eq_some_iff.mp hth).1
      refine ⟨(stepThread s.kind s.cell thu).th, by simp [List.getElem?_set_self hlt], ?_⟩
      unfold stepThread
      cases htodo : thu.todo with
      | nil => simpa [htodo] using hpc
      | cons o rest => cases o <;> simp [hpc]
    · exact ⟨th, by simpa [List.getElem?_set_ne hut] using hth, hpc⟩

theorem trapped_exec {w : Width} (sched : List Nat) : ∀ {s : Sys w} {t : Nat}, trapped s t → trapped (exec sched s) t := by
  induction sched with
  | nil => intro s t h; exact h
  | cons u rest ih => intro s t h; exact ih (trapped_step u h)

/-- as long as nobody commits, every instruction of a waiting thread brings it one closer to its next
    successful `lock cmpxchg` (or it traps), and instructions of other threads do not move it -/
theorem progress_aux {w : Width} {init : Word w} {progs : List (List (Oper w))} (t : Nat)
    (f : Word w → Option (Word w)) (ro : Bool) (rest : List (Oper w)) (sched : List Nat) :
    ∀ {s : Sys w}, Good init progs s → Waiting s t f ro rest → ncommits (exec sched s) = ncommits s →
      trapped (exec sched s) t ∨ sched.count t + distanceOf (exec sched s) t = distanceOf s t := by
  induction sched with
  | nil => intro s _ _ _; right; simp [exec]
  | cons u sched' ih =>
    intro s g hw hn
    have hn1 : ncommits (step u s) = ncommits s := by
      have a := ncommits_step u s
      have b := ncommits_exec sched' (step u s)
      simp only [exec, List.foldl_cons] at hn
      have : ncommits (exec sched' (step u s)) = ncommits s := hn
      omega
    have hn2 : ncommits (exec sched' (step u s)) = ncommits (step u s) := by
      simp only [exec, List.foldl_cons] at hn
      have : ncommits (exec sched' (step u s)) = ncommits s := hn
      omega
    have g1 := Good_step g u
    obtain ⟨th, hth, htodo, hpr, hpc⟩ := hw
    have hlt : t < s.threads.length := (List.getElem?_eq_some_iff.mp hth).1
    by_cases hut : u = t
    · subst hut
      have hT := (g.thr u th hth).1
      have sp := step_progress s.kind s.cell th f ro rest hT htodo hpr hpc
      have hstep : step u s = { s with cell := (stepThread s.kind s.cell th).cell,
                                       threads := s.threads.set u (stepThread s.kind s.cell th).th,
                                       log := s.log ++ ((stepThread s.kind s.cell th).ev.map (Event.mk u)).toList } := by
        simp [step, hth]
      rcases sp with ⟨o, r, hev⟩ | htrap | ⟨hcell, hdist, hpr', htodo', hpc', hnc⟩
      · exfalso
        have : ncommits (step u s) = ncommits s + 1 := by
          rw [hstep]; simp only [ncommits, hev, Option.map_some, Option.toList_some]
          rw [commits_append]; simp [EvKind.isCommit]
        omega
      · left
        have : trapped (step u s) u := ⟨_, by rw [hstep]; simp [List.getElem?_set_self hlt], htrap⟩
        simpa [exec] using trapped_exec sched' this
      · have hw1 : Waiting (step u s) u f ro rest :=
          ⟨_, by rw [hstep]; simp [List.getElem?_set_self hlt], by rw [htodo', htodo], hpr', hpc'⟩
        have hd1 : distanceOf (step u s) u + 1 = distanceOf s u := by
          simp only [distanceOf, hth]
          rw [hstep]; simp only [List.getElem?_set_self hlt, hcell]
          exact hdist
        rcases ih g1 hw1 hn2 with h | h
        · left; simpa [exec] using h
        · right
          simp only [exec, List.foldl_cons, List.count_cons_self] at h ⊢
          have : distanceOf (exec sched' (step u s)) u = distanceOf (List.foldl (fun s t => step t s) (step u s) sched') u := rfl
          omega
    · -- another thread (or no thread) steps
      have hth1 : (step u s).threads[t]? = some th := by
        unfold step
        cases hu : s.threads[u]? with
        | none => simpa using hth
        | some thu => simp [List.getElem?_set_ne hut, hth]
      have hcell1 : (step u s).cell = s.cell := by
        unfold step
        cases hu : s.threads[u]? with
        | none => rfl
        | some thu =>
          simp only
          have ok := stepOK s.kind s.cell thu (g.thr u thu hu).1
          have heff := ok.eff
          simp only [Eff] at heff
          cases hev : (stepThread s.kind s.cell thu).ev with
          | none => simp only [hev] at heff; exact heff.1
          | some ek =>
            cases ek with
            | read => simp only [hev] at heff; exact heff.1
            | commit o r =>
              exfalso
              have : ncommits (step u s) = ncommits s + 1 := by
                simp only [ncommits, step, hu, hev, Option.map_some, Option.toList_some]
                rw [commits_append]; simp [EvKind.isCommit]
              omega
      have hw1 : Waiting (step u s) t f ro rest := ⟨th, hth1, htodo, hpr, hpc⟩
      have hd1 : distanceOf (step u s) t = distanceOf s t := by
        simp only [distanceOf, hth1, hth, hcell1]
      rcases ih g1 hw1 hn2 with h | h
      · left; simpa [exec] using h
      · right
        simp only [exec, List.foldl_cons] at h ⊢
        rw [List.count_cons_of_ne hut]
        have : distanceOf (exec sched' (step u s)) t = distanceOf (List.foldl (fun s t => step t s) (step u s) sched') t := rfl
        omega


end ChibiVerif.Atomics
