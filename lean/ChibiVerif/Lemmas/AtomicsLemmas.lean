/-
Helper lemmas for C16 (Props/C16.lean): register sub-word facts, the thread-local invariant, and the
global invariant of the interleaving semantics of Model/Atomics.lean.
-/
import ChibiVerif.Model.Atomics

namespace ChibiVerif.Atomics

/-! ### sub-registers -/

theorem rw8 (r : BitVec 64) (v : BitVec 8) : ((r &&& 0xFFFFFFFFFFFFFF00#64) ||| v.setWidth 64).setWidth 8 = v := by
  apply BitVec.eq_of_getLsbD_eq; intro i hi; simp [hi]
theorem rw16 (r : BitVec 64) (v : BitVec 16) : ((r &&& 0xFFFFFFFFFFFF0000#64) ||| v.setWidth 64).setWidth 16 = v := by
  apply BitVec.eq_of_getLsbD_eq; intro i hi; simp [hi]
theorem rw32 (r : BitVec 64) (v : BitVec 32) : ((r &&& 0#64) ||| v.setWidth 64).setWidth 32 = v := by
  apply BitVec.eq_of_getLsbD_eq; intro i hi; simp [hi]
theorem rw64 (r : BitVec 64) (v : BitVec 64) : ((r &&& 0#64) ||| v.setWidth 64).setWidth 64 = v := by
  simp

/-- reading back a sub-register that was just written yields the written value, whatever the rest of the register holds -/
theorem readReg_writeReg (w : Width) (r : BitVec 64) (v : Word w) : readReg w (writeReg w r v) = v := by
  cases w
  · exact rw8 r v
  · exact rw16 r v
  · exact rw32 r v
  · exact rw64 r v

theorem se8 (v : BitVec 8) : ((v.signExtend 32).setWidth 64).setWidth 8 = v := by
  apply BitVec.eq_of_getLsbD_eq; intro i hi
  have h32 : i < 32 := by omega
  simp [hi, h32, BitVec.getElem_signExtend]
theorem se16 (v : BitVec 16) : ((v.signExtend 32).setWidth 64).setWidth 16 = v := by
  apply BitVec.eq_of_getLsbD_eq; intro i hi
  have h32 : i < 32 := by omega
  simp [hi, h32, BitVec.getElem_signExtend]
theorem se32 (v : BitVec 32) : (v.signExtend 64).setWidth 32 = v := by
  apply BitVec.eq_of_getLsbD_eq; intro i hi
  have h64 : i < 64 := by omega
  simp [BitVec.getElem_signExtend, hi, h64]
theorem ze (n : Nat) (h : n ≤ 64) (v : BitVec n) : (v.setWidth 64).setWidth n = v := by
  apply BitVec.eq_of_getLsbD_eq; intro i hi
  have h64 : i < 64 := by omega
  simp [hi, h64]

/-- the low `w` bits of a register loaded from a `w`-bit object are the object's value, whatever the extension -/
theorem readReg_loadExt (w : Width) (k : Kind) (v : Word w) : readReg w (loadExt w k v) = v := by
  cases w <;> cases k <;> simp only [readReg, loadExt, Width.bits] <;>
    first | exact se8 v | exact se16 v | exact se32 v | exact ze _ (by decide) v | simp

@[simp] theorem bit8_true : bit8 true = 1#8 := rfl
@[simp] theorem bit8_false : bit8 false = 0#8 := rfl
@[simp] theorem one_ne_zero8 : (1#8 = 0#8) = False := by decide
theorem bit8_ne_zero (b : Bool) : (bit8 b != 0#8) = b := by cases b <;> decide
theorem bit8_ext32 (b : Bool) : (((bit8 b).setWidth 64).setWidth 32 == 0#32) = !b := by cases b <;> decide
theorem write_al_zero (r : BitVec 64) (z : Bool) : ((writeReg .w8 r (bit8 z)).setWidth 8 == 0#8) = !z := by
  have := readReg_writeReg .w8 r (bit8 z)
  simp only [readReg, Width.bits] at this
  rw [this]; cases z <;> decide
theorem movzx_test (x : BitVec 64) :
    (((x.setWidth 8).setWidth 64).setWidth 32 == 0#32) = (x.setWidth 8 == 0#8) := by
  generalize x.setWidth 8 = y
  have h1 : (y.setWidth 64).setWidth 32 = y.setWidth 32 := by
    apply BitVec.eq_of_getLsbD_eq; intro i hi; simp
  rw [h1]
  have h2 : (y.setWidth 32).setWidth 8 = y := by
    apply BitVec.eq_of_getLsbD_eq; intro i hi; simp [hi]
  by_cases hy : y = 0#8
  · subst hy; decide
  · have : y.setWidth 32 ≠ 0#32 := by
      intro h; apply hy; rw [← h2, h]; decide
    rw [beq_eq_false_iff_ne.mpr hy, beq_eq_false_iff_ne.mpr this]

theorem zext8_32_eq_zero (x : BitVec 8) : (x.setWidth 32 = 0#32) = (x = 0#8) := by
  have h2 : (x.setWidth 32).setWidth 8 = x := by
    apply BitVec.eq_of_getLsbD_eq; intro i hi; simp [hi]
  apply propext; constructor
  · intro h; rw [← h2, h]; decide
  · intro h; subst h; decide

/-! ### `lock cmpxchg` -/

theorem lockCmpxchg_eq {w : Width} {c : Word w} {rax rdx : BitVec 64} (h : c = readReg w rax) :
    lockCmpxchg w c rax rdx = (readReg w rdx, rax, true) := by
  simp [lockCmpxchg, h]

theorem lockCmpxchg_ne {w : Width} {c : Word w} {rax rdx : BitVec 64} (h : c ≠ readReg w rax) :
    lockCmpxchg w c rax rdx = (c, writeReg w rax c, false) := by
  simp [lockCmpxchg, h]

/-! ### thread-local invariant -/

/-- what the private state of a thread satisfies at each program point of its current operation -/
def TInv {w : Width} (th : Thread w) : Prop :=
  match th.todo with
  | [] => True
  | .rmw f _ :: _ =>
    match th.pc with
    | .init0 | .init1 | .compute | .trap => True
    | .casNew => f th.old = some th.new
    | .casOld => f th.old = some th.new ∧ readReg w th.stk = th.new
    | .popRdx => f th.old = some th.new ∧ readReg w th.stk = th.new ∧ readReg w th.rax = th.old
    | .popRdi | .cmpxchg => f th.old = some th.new ∧ readReg w th.rdx = th.new ∧ readReg w th.rax = th.old
    | .sete => True
    | .je => th.cl = bit8 th.zf
    | .wb => th.zf = false ∧ th.cl = 0#8
    | .movzbl | .cmp1 | .seteAl | .movzx | .cmp2 | .jne | .result => True
    | _ => False
  | .cas e d :: _ =>
    match th.pc with
    | .casNew => th.old = e
    | .casOld => th.old = e ∧ th.stk = d
    | .popRdx => th.old = e ∧ th.stk = d ∧ readReg w th.rax = e
    | .popRdi | .cmpxchg => th.old = e ∧ th.rdx = d ∧ readReg w th.rax = e
    | .sete => True
    | .je => th.cl = bit8 th.zf
    | .wb => th.zf = false ∧ th.cl = 0#8
    | .movzbl => True
    | _ => False
  | .xchg v :: _ =>
    match th.pc with
    | .xload => True
    | .xchg => th.rax = v
    | .xext => w.narrow = true
    | _ => False
  | .load :: _ =>
    match th.pc with
    | .aload => True
    | _ => False
  | .store v :: _ =>
    match th.pc with
    | .sload => True
    | .sstore => th.rax = v
    | _ => False

theorem TInv_enter {w : Width} (th : Thread w) : TInv (enter th) := by
  unfold enter
  cases h : th.todo with
  | nil => simp [TInv, h]
  | cons o rest =>
    cases o <;> simp [TInv, h, startPc]

theorem TInv_mkThread {w : Width} (ops : List (Oper w)) : TInv (mkThread ops) := TInv_enter _

theorem TInv_finish {w : Width} (th : Thread w) (r : Result w) : TInv (finish th r) := TInv_enter _

/-! ### `enter` / `finish` -/

theorem pendingRes_enter {w : Width} (th : Thread w) : (enter th).pendingRes = none := by
  unfold enter
  cases h : th.todo with
  | nil => simp [Thread.pendingRes, h]
  | cons o rest => cases o <;> simp [Thread.pendingRes, Thread.succeeded, h, startPc]

theorem todo_enter {w : Width} (th : Thread w) : (enter th).todo = th.todo := by
  unfold enter
  cases h : th.todo with
  | nil => simp [h]
  | cons o rest => cases o <;> simp [h]

theorem results_enter {w : Width} (th : Thread w) : (enter th).results = th.results := by
  unfold enter
  cases h : th.todo with
  | nil => rfl
  | cons o rest => cases o <;> rfl

theorem believes_enter {w : Width} (th : Thread w) : (enter th).believes = none := by
  unfold enter
  cases h : th.todo with
  | nil => simp [Thread.believes, h]
  | cons o rest => cases o <;> simp [Thread.believes, h, startPc]

theorem pendingOps_enter {w : Width} (th : Thread w) : (enter th).pendingOps = th.todo := by
  simp [Thread.pendingOps, pendingRes_enter, todo_enter]

@[simp] theorem pendingRes_finish {w : Width} (th : Thread w) (r : Result w) : (finish th r).pendingRes = none :=
  pendingRes_enter _
@[simp] theorem todo_finish {w : Width} (th : Thread w) (r : Result w) : (finish th r).todo = th.todo.tail := by
  simp [finish, todo_enter]
@[simp] theorem results_finish {w : Width} (th : Thread w) (r : Result w) : (finish th r).results = th.results ++ [r] := by
  simp [finish, results_enter]
@[simp] theorem believes_finish {w : Width} (th : Thread w) (r : Result w) : (finish th r).believes = none :=
  believes_enter _
@[simp] theorem pendingOps_finish {w : Width} (th : Thread w) (r : Result w) : (finish th r).pendingOps = th.todo.tail := by
  simp [finish, pendingOps_enter]

/-! ### one step of one thread -/

/-- what a step does to the bookkeeping of the stepping thread: a commit moves the head of the
    uncommitted operations into the log together with the result the thread will report, and its
    effect on the object is the sequential specification's; any other step leaves the object alone -/
def Eff {w : Width} (c : Word w) (th : Thread w) (out : StepOut w) : Prop :=
  match out.ev with
  | some (.commit o r) =>
      th.pendingOps = o :: out.th.pendingOps ∧
      out.th.results ++ out.th.pendingRes.toList = th.results ++ th.pendingRes.toList ++ [r] ∧
      o.spec c = some (out.cell, r)
  | _ =>
      out.cell = c ∧ out.th.pendingOps = th.pendingOps ∧
      out.th.results ++ out.th.pendingRes.toList = th.results ++ th.pendingRes.toList

/-- a logged access leaves the thread believing the object's current value (or nothing);
    an unlogged step keeps its belief -/
def Bel {w : Width} (th : Thread w) (out : StepOut w) : Prop :=
  ∀ v, out.th.believes = some v →
    (out.ev.isSome = true → v = out.cell) ∧ (out.ev = none → th.believes = some v)

structure StepOK {w : Width} (c : Word w) (th : Thread w) (out : StepOut w) : Prop where
  tinv : TInv out.th
  eff : Eff c th out
  bel : Bel th out

macro "step_simp" : tactic => `(tactic|
  (try simp only [Eff, Bel, pendingRes_finish, pendingOps_finish, results_finish, believes_finish, todo_finish]) <;>
  simp [TInv, Eff, Bel, Thread.pendingOps, Thread.pendingRes, Thread.succeeded, Thread.believes, Oper.spec,
        readReg_loadExt, readReg_writeReg, bit8_ne_zero, bit8_ext32, write_al_zero, movzx_test, zext8_32_eq_zero, TInv_finish, *] at *)

macro "solve_case" : tactic => `(tactic|
  (refine ⟨?_, ?_, ?_⟩ <;> first | exact TInv_finish _ _ | (step_simp <;> (try simp_all))))

theorem stepOK {w : Width} (k : Kind) (c : Word w) (th : Thread w) (h : TInv th) :
    StepOK c th (stepThread k c th) := by
  cases htodo : th.todo with
  | nil =>
    simp only [stepThread, htodo]
    refine ⟨h, ?_, ?_⟩ <;> simp [Eff, Bel]
  | cons o rest =>
    cases o with
    | rmw f ro =>
      cases hpc : th.pc <;> simp only [stepThread, htodo, hpc]
      case compute => cases hf : f th.old <;> solve_case
      case cmpxchg =>
        by_cases hc : c = readReg w th.rax
        · rw [lockCmpxchg_eq hc]; solve_case
        · rw [lockCmpxchg_ne hc]; solve_case
      case je => cases hz : th.zf <;> solve_case
      case jne => cases hz : th.zf <;> solve_case
      all_goals (try solve_case)
    | cas e d =>
      cases hpc : th.pc <;> simp only [stepThread, htodo, hpc]
      case cmpxchg =>
        by_cases hc : c = readReg w th.rax
        · rw [lockCmpxchg_eq hc]; solve_case
        · rw [lockCmpxchg_ne hc]; solve_case
      case je => cases hz : th.zf <;> solve_case
      all_goals (try solve_case)
    | xchg v =>
      cases hpc : th.pc <;> simp only [stepThread, htodo, hpc]
      case xchg => cases hn : w.narrow <;> simp only [Bool.false_eq_true, ↓reduceIte] <;> solve_case
      all_goals (try solve_case)
    | load =>
      cases hpc : th.pc <;> simp only [stepThread, htodo, hpc]
      all_goals (try solve_case)
    | store v =>
      cases hpc : th.pc <;> simp only [stepThread, htodo, hpc]
      all_goals (try solve_case)

end ChibiVerif.Atomics
