/-
Helper lemmas for C16 (Props/C16.lean): register sub-word facts, the thread-local invariant, and the
global invariant of the interleaving semantics of Model/Atomics.lean.
-/
import ChibiVerif.Model.Atomics

namespace ChibiVerif.Atomics

/-! ### sub-registers -/

theorem rw8 (r : BitVec 64) (v : BitVec 8) : ((r &&& 0xFFFFFFFFFFFFFF00#64) ||| v.setWidth 64).setWidth 8 = v := by
  apply BitVec.eq_of_getLsbD_eq; intro i hi; simp [hi]
theorem rw16 (r : BitVec 64) (v : BitVec 16) : ((r &&& 0xFFFFFFFFFFFF0000#64) ||| v.setWidth 64).setWidth 16 = v := by
  apply BitVec.eq_of_getLsbD_eq; intro i hi; simp [hi]
theorem rw32 (r : BitVec 64) (v : BitVec 32) : ((r &&& 0#64) ||| v.setWidth 64).setWidth 32 = v := by
  apply BitVec.eq_of_getLsbD_eq; intro i hi; simp [hi]
theorem rw64 (r : BitVec 64) (v : BitVec 64) : ((r &&& 0#64) ||| v.setWidth 64).setWidth 64 = v := by
  simp

/-- reading back a sub-register that was just written yields the written value, whatever the rest of the register holds -/
theorem readReg_writeReg (w : Width) (r : BitVec 64) (v : Word w) : readReg w (writeReg w r v) = v := by
  cases w
  · exact rw8 r v
  · exact rw16 r v
  · exact rw32 r v
  · exact rw64 r v

theorem se8 (v : BitVec 8) : ((v.signExtend 32).setWidth 64).setWidth 8 = v := by
  apply BitVec.eq_of_getLsbD_eq; intro i hi
  have h32 : i < 32 := by omega
  simp [hi, h32, BitVec.getElem_signExtend]
theorem se16 (v : BitVec 16) : ((v.signExtend 32).setWidth 64).setWidth 16 = v := by
  apply BitVec.eq_of_getLsbD_eq; intro i hi
  have h32 : i < 32 := by omega
  simp [hi, h32, BitVec.getElem_signExtend]
theorem se32 (v : BitVec 32) : (v.signExtend 64).setWidth 32 = v := by
  apply BitVec.eq_of_getLsbD_eq; intro i hi
  have h64 : i < 64 := by omega
  simp [BitVec.getElem_signExtend, hi, h64]
theorem ze (n : Nat) (h : n ≤ 64) (v : BitVec n) : (v.setWidth 64).setWidth n = v := by
  apply BitVec.eq_of_getLsbD_eq; intro i hi
  have h64 : i < 64 := by omega
  simp [hi, h64]

/-- the low `w` bits of a register loaded from a `w`-bit object are the object's value, whatever the extension -/
theorem readReg_loadExt (w : Width) (k : Kind) (v : Word w) : readReg w (loadExt w k v) = v := by
  cases w <;> cases k <;> simp only [readReg, loadExt, Width.bits] <;>
    first | exact se8 v | exact se16 v | exact se32 v | exact ze _ (by decide) v | simp

@[simp] theorem bit8_true : bit8 true = 1#8 := rfl
@[simp] theorem bit8_false : bit8 false = 0#8 := rfl
@[simp] theorem one_ne_zero8 : (1#8 = 0#8) = False := by decide
theorem bit8_ne_zero (b : Bool) : (bit8 b != 0#8) = b := by cases b <;> decide
theorem bit8_ext32 (b : Bool) : (((bit8 b).setWidth 64).setWidth 32 == 0#32) = !b := by cases b <;> decide
theorem write_al_zero (r : BitVec 64) (z : Bool) : ((writeReg .w8 r (bit8 z)).setWidth 8 == 0#8) = !z := by
  have := readReg_writeReg .w8 r (bit8 z)
  simp only [readReg, Width.bits] at this
  rw [this]; cases z <;> decide
theorem movzx_test (x : BitVec 64) :
    (((x.setWidth 8).setWidth 64).setWidth 32 == 0#32) = (x.setWidth 8 == 0#8) := by
  generalize x.setWidth 8 = y
  have h1 : (y.setWidth 64).setWidth 32 = y.setWidth 32 := by
    apply BitVec.eq_of_getLsbD_eq; intro i hi; simp
  rw [h1]
  have h2 : (y.setWidth 32).setWidth 8 = y := by
    apply BitVec.eq_of_getLsbD_eq; intro i hi; simp [hi]
  by_cases hy : y = 0#8
  · subst hy; decide
  · have : y.setWidth 32 ≠ 0#32 := by
      intro h; apply hy; rw [← h2, h]; decide
    rw [beq_eq_false_iff_ne.mpr hy, beq_eq_false_iff_ne.mpr this]

theorem zext8_32_eq_zero (x : BitVec 8) : (x.setWidth 32 = 0#32) = (x = 0#8) := by
  have h2 : (x.setWidth 32).setWidth 8 = x := by
    apply BitVec.eq_of_getLsbD_eq; intro i hi; simp [hi]
  apply propext; constructor
  · intro h; rw [← h2, h]; decide
  · intro h; subst h; decide

/-! ### `lock cmpxchg` -/

theorem lockCmpxchg_eq {w : Width} {c : Word w} {rax rdx : BitVec 64} (h : c = readReg w rax) :
    lockCmpxchg w c rax rdx = (readReg w rdx, rax, true) := by
  simp [lockCmpxchg, h]

theorem lockCmpxchg_ne {w : Width} {c : Word w} {rax rdx : BitVec 64} (h : c ≠ readReg w rax) :
    lockCmpxchg w c rax rdx = (c, writeReg w rax c, false) := by
  simp [lockCmpxchg, h]

/-! ### thread-local invariant -/

/-- what the private state of a thread satisfies at each program point of its current operation -/
def TInv {w : Width} (th : Thread w) : Prop :=
  match th.todo with
  | [] => True
  | .rmw f _ :: _ =>
    match th.pc with
    | .init0 | .init1 | .compute | .trap => True
    | .casNew => f th.old = some th.new
    | .casOld => f th.old = some th.new ∧ readReg w th.stk = th.new
    | .popRdx => f th.old = some th.new ∧ readReg w th.stk = th.new ∧ readReg w th.rax = th.old
    | .popRdi | .cmpxchg => f th.old = some th.new ∧ readReg w th.rdx = th.new ∧ readReg w th.rax = th.old
    | .sete => True
    | .je => th.cl = bit8 th.zf
    | .wb => th.zf = false ∧ th.cl = 0#8
    | .movzbl | .cmp1 | .seteAl | .movzx | .cmp2 | .jne | .result => True
    | _ => False
  | .cas e d :: _ =>
    match th.pc with
    | .casNew => th.old = e
    | .casOld => th.old = e ∧ th.stk = d
    | .popRdx => th.old = e ∧ th.stk = d ∧ readReg w th.rax = e
    | .popRdi | .cmpxchg => th.old = e ∧ th.rdx = d ∧ readReg w th.rax = e
    | .sete => True
    | .je => th.cl = bit8 th.zf
    | .wb => th.zf = false ∧ th.cl = 0#8
    | .movzbl => True
    | _ => False
  | .xchg v :: _ =>
    match th.pc with
    | .xload => True
    | .xpre | .xchg => readReg w th.rax = readReg w v
    | .xext => True
    | _ => False
  | .load :: _ =>
    match th.pc with
    | .aload => True
    | _ => False
  | .store v :: _ =>
    match th.pc with
    | .sload => True
    | .sstore => th.rax = v
    | _ => False

theorem TInv_enter {w : Width} (th : Thread w) : TInv (enter th) := by
  unfold enter
  cases h : th.todo with
  | nil => simp [TInv, h]
  | cons o rest =>
    cases o <;> simp [TInv, h, startPc]

theorem TInv_mkThread {w : Width} (ops : List (Oper w)) : TInv (mkThread ops) := TInv_enter _

theorem TInv_finish {w : Width} (th : Thread w) (r : Result w) : TInv (finish th r) := TInv_enter _

/-! ### `enter` / `finish` -/

theorem pendingRes_enter {w : Width} (th : Thread w) : (enter th).pendingRes = none := by
  unfold enter
  cases h : th.todo with
  | nil => simp [Thread.pendingRes, h]
  | cons o rest => cases o <;> simp [Thread.pendingRes, Thread.succeeded, h, startPc]

theorem todo_enter {w : Width} (th : Thread w) : (enter th).todo = th.todo := by
  unfold enter
  cases h : th.todo with
  | nil => simp [h]
  | cons o rest => cases o <;> simp [h]

theorem results_enter {w : Width} (th : Thread w) : (enter th).results = th.results := by
  unfold enter
  cases h : th.todo with
  | nil => rfl
  | cons o rest => cases o <;> rfl

theorem believes_enter {w : Width} (th : Thread w) : (enter th).believes = none := by
  unfold enter
  cases h : th.todo with
  | nil => simp [Thread.believes, h]
  | cons o rest => cases o <;> simp [Thread.believes, h, startPc]

theorem rax_enter {w : Width} (th : Thread w) : (enter th).rax = th.rax := by
  unfold enter
  cases h : th.todo with
  | nil => rfl
  | cons o rest => cases o <;> rfl

theorem pendingOps_enter {w : Width} (th : Thread w) : (enter th).pendingOps = th.todo := by
  simp [Thread.pendingOps, pendingRes_enter, todo_enter]

@[simp] theorem pendingRes_finish {w : Width} (th : Thread w) (r : Result w) : (finish th r).pendingRes = none :=
  pendingRes_enter _
@[simp] theorem todo_finish {w : Width} (th : Thread w) (r : Result w) : (finish th r).todo = th.todo.tail := by
  simp [finish, todo_enter]
@[simp] theorem results_finish {w : Width} (th : Thread w) (r : Result w) : (finish th r).results = th.results ++ [r] := by
  simp [finish, results_enter]
@[simp] theorem rax_finish {w : Width} (th : Thread w) (r : Result w) : (finish th r).rax = th.rax := by
  simp [finish, rax_enter]
@[simp] theorem believes_finish {w : Width} (th : Thread w) (r : Result w) : (finish th r).believes = none :=
  believes_enter _
@[simp] theorem pendingOps_finish {w : Width} (th : Thread w) (r : Result w) : (finish th r).pendingOps = th.todo.tail := by
  simp [finish, pendingOps_enter]

/-! ### one step of one thread -/

/-- what a step does to the bookkeeping of the stepping thread: a commit moves the head of the
    uncommitted operations into the log together with the result the thread will report, and its
    effect on the object is the sequential specification's; any other step leaves the object alone -/
def Eff {w : Width} (c : Word w) (th : Thread w) (out : StepOut w) : Prop :=
  match out.ev with
  | some (.commit o r) =>
      th.pendingOps = o :: out.th.pendingOps ∧
      out.th.results ++ out.th.pendingRes.toList = th.results ++ th.pendingRes.toList ++ [r] ∧
      o.spec c = some (out.cell, r)
  | _ =>
      out.cell = c ∧ out.th.pendingOps = th.pendingOps ∧
      out.th.results ++ out.th.pendingRes.toList = th.results ++ th.pendingRes.toList

/-- a logged access leaves the thread believing the object's current value (or nothing);
    an unlogged step keeps its belief -/
def Bel {w : Width} (th : Thread w) (out : StepOut w) : Prop :=
  ∀ v, out.th.believes = some v →
    (out.ev.isSome = true → v = out.cell) ∧ (out.ev = none → th.believes = some v)

structure StepOK {w : Width} (c : Word w) (th : Thread w) (out : StepOut w) : Prop where
  tinv : TInv out.th
  eff : Eff c th out
  bel : Bel th out

macro "step_simp" : tactic => `(tactic|
  (try simp only [Eff, Bel, pendingRes_finish, pendingOps_finish, results_finish, believes_finish, todo_finish]) <;>
  simp [TInv, Eff, Bel, Thread.pendingOps, Thread.pendingRes, Thread.succeeded, Thread.believes, Oper.spec,
        readReg_loadExt, readReg_writeReg, bit8_ne_zero, bit8_ext32, write_al_zero, movzx_test, zext8_32_eq_zero, TInv_finish, *] at *)

macro "solve_case" : tactic => `(tactic|
  (refine ⟨?_, ?_, ?_⟩ <;> first | exact TInv_finish _ _ | (step_simp <;> (try simp_all))))

theorem stepOK {w : Width} (k : Kind) (c : Word w) (th : Thread w) (h : TInv th) :
    StepOK c th (stepThread k c th) := by
  cases htodo : th.todo with
  | nil =>
    simp only [stepThread, htodo]
    refine ⟨h, ?_, ?_⟩ <;> simp [Eff, Bel]
  | cons o rest =>
    cases o with
    | rmw f ro =>
      cases hpc : th.pc <;> simp only [stepThread, htodo, hpc]
      case compute => cases hf : f th.old <;> solve_case
      case cmpxchg =>
        by_cases hc : c = readReg w th.rax
        · rw [lockCmpxchg_eq hc]; solve_case
        · rw [lockCmpxchg_ne hc]; solve_case
      case je => cases hz : th.zf <;> solve_case
      case jne => cases hz : th.zf <;> solve_case
      all_goals (try solve_case)
    | cas e d =>
      cases hpc : th.pc <;> simp only [stepThread, htodo, hpc]
      case cmpxchg =>
        by_cases hc : c = readReg w th.rax
        · rw [lockCmpxchg_eq hc]; solve_case
        · rw [lockCmpxchg_ne hc]; solve_case
      case je => cases hz : th.zf <;> solve_case
      all_goals (try solve_case)
    | xchg v =>
      cases hpc : th.pc <;> simp only [stepThread, htodo, hpc]
      case xload => cases hk : (k == Kind.flo) <;> simp only [Bool.false_eq_true, ↓reduceIte] <;> solve_case
      case xchg => cases hn : xchgHasPost w k <;> simp only [Bool.false_eq_true, ↓reduceIte] <;> solve_case
      all_goals (try solve_case)
    | load =>
      cases hpc : th.pc <;> simp only [stepThread, htodo, hpc]
      all_goals (try solve_case)
    | store v =>
      cases hpc : th.pc <;> simp only [stepThread, htodo, hpc]
      all_goals (try solve_case)

/-! ### the log -/

theorem replay_append {w : Width} (init : Word w) (l : List (Event w)) (e : Event w) :
    replay init (l ++ [e]) = applyEv (replay init l) e := by
  simp [replay, List.foldl_append]

theorem commitsOf_append {w : Width} (t : Nat) (l : List (Event w)) (e : Event w) :
    commitsOf t (l ++ [e]) = commitsOf t l ++ (e.commitOf t).toList := by
  simp only [commitsOf, List.filterMap_append]
  cases h : e.commitOf t <;> simp [List.filterMap, h]

theorem noCommitSince_append {w : Width} (t : Nat) (l : List (Event w)) (e : Event w) :
    noCommitSince t (l ++ [e]) = (if e.tid = t then true else (!e.kind.isCommit && noCommitSince t l)) := by
  simp [noCommitSince, noCommitSinceRev]

/-! ### global invariant -/

/-- everything the property theorems need, for a run that started from `initSys w k init progs` -/
structure Good {w : Width} (init : Word w) (progs : List (List (Oper w))) (s : Sys w) : Prop where
  /-- the object holds what the committed operations, applied sequentially in commit order, produce -/
  lin : replay init s.log = some s.cell
  len : s.threads.length = progs.length
  tids : ∀ e ∈ s.log, e.tid < progs.length
  thr : ∀ t th, s.threads[t]? = some th →
    TInv th ∧
    progs[t]? = some ((commitsOf t s.log).map Prod.fst ++ th.pendingOps) ∧
    (commitsOf t s.log).map Prod.snd = th.results ++ th.pendingRes.toList ∧
    (∀ v, th.believes = some v → noCommitSince t s.log = true → v = s.cell)

theorem pendingRes_mkThread {w : Width} (ops : List (Oper w)) : (mkThread ops).pendingRes = none :=
  pendingRes_enter _

theorem Good_init {w : Width} (k : Kind) (init : Word w) (progs : List (List (Oper w))) :
    Good init progs (initSys w k init progs) := by
  refine ⟨rfl, by simp [initSys], by simp [initSys], ?_⟩
  intro t th hth
  simp only [initSys, List.getElem?_map] at hth
  cases hp : progs[t]? with
  | none => simp [hp] at hth
  | some p =>
    simp [hp] at hth
    subst hth
    refine ⟨TInv_mkThread p, ?_, ?_, ?_⟩
    · simp [initSys, commitsOf, mkThread, pendingOps_enter]
    · simp [initSys, commitsOf, mkThread, pendingRes_enter, results_enter]
    · intro v hv; simp [mkThread, believes_enter] at hv

theorem Good_step {w : Width} {init : Word w} {progs : List (List (Oper w))} {s : Sys w}
    (g : Good init progs s) (t : Nat) : Good init progs (step t s) := by
  unfold step
  cases hth : s.threads[t]? with
  | none => simpa using g
  | some th =>
    simp only
    obtain ⟨hT, hops, hres, hbel⟩ := g.thr t th hth
    have ok := stepOK s.kind s.cell th hT
    have htlt : t < s.threads.length := by
      rcases List.getElem?_eq_some_iff.mp hth with ⟨h, _⟩; exact h
    generalize hout : stepThread s.kind s.cell th = out at ok
    obtain ⟨oth, ocell, oev⟩ := out
    have heff := ok.eff
    have hbl := ok.bel
    simp only [Eff, Bel] at heff hbl
    cases oev with
    | none =>
      -- an unlogged private step
      simp only at heff hbl
      obtain ⟨hc, hpo, hpr⟩ := heff
      subst hc
      refine ⟨by simpa using g.lin, by simpa using g.len, by simpa using g.tids, ?_⟩
      intro u thu hu
      simp only [Option.map_none, Option.toList_none, List.append_nil] at hu ⊢
      by_cases hut : u = t
      · subst hut
        rw [List.getElem?_set_self htlt] at hu
        cases hu
        refine ⟨ok.tinv, by rw [hpo]; exact hops, by rw [hpr]; exact hres, ?_⟩
        intro v hv hn
        exact hbel v ((hbl v hv).2 trivial) hn
      · rw [List.getElem?_set_ne (Ne.symm hut)] at hu
        exact g.thr u thu hu
    | some ek =>
      have hlog : ∀ u, u ≠ t → commitsOf u (s.log ++ [Event.mk t ek]) = commitsOf u s.log := by
        intro u hut
        rw [commitsOf_append]
        cases ek <;> simp [Event.commitOf, Ne.symm hut]
      have htid : ∀ e ∈ s.log ++ [Event.mk t ek], e.tid < progs.length := by
        intro e he
        rcases List.mem_append.mp he with h | h
        · exact g.tids e h
        · simp at h; subst h; simpa [← g.len] using htlt
      cases ek with
      | read =>
        simp only at heff hbl
        obtain ⟨hc, hpo, hpr⟩ := heff
        subst hc
        refine ⟨?_, by simpa using g.len, by simpa using htid, ?_⟩
        · simp only [Option.map_some, Option.toList_some]
          rw [replay_append, g.lin]; rfl
        intro u thu hu
        simp only [Option.map_some, Option.toList_some] at hu ⊢
        by_cases hut : u = t
        · subst hut
          rw [List.getElem?_set_self htlt] at hu
          cases hu
          have hco : commitsOf u (s.log ++ [Event.mk u EvKind.read]) = commitsOf u s.log := by
            rw [commitsOf_append]; simp [Event.commitOf]
          refine ⟨ok.tinv, by rw [hco, hpo]; exact hops, by rw [hco, hpr]; exact hres, ?_⟩
          intro v hv _
          exact (hbl v hv).1 rfl
        · rw [List.getElem?_set_ne (Ne.symm hut)] at hu
          obtain ⟨a, b, c, d⟩ := g.thr u thu hu
          refine ⟨a, by rw [hlog u hut]; exact b, by rw [hlog u hut]; exact c, ?_⟩
          intro v hv hn
          rw [noCommitSince_append] at hn
          simp [Ne.symm hut, EvKind.isCommit] at hn
          exact d v hv hn
      | commit o r =>
        simp only at heff hbl
        obtain ⟨hpo, hpr, hspec⟩ := heff
        refine ⟨?_, by simpa using g.len, by simpa using htid, ?_⟩
        · simp only [Option.map_some, Option.toList_some]
          rw [replay_append, g.lin]
          simp [applyEv, hspec]
        intro u thu hu
        simp only [Option.map_some, Option.toList_some] at hu ⊢
        by_cases hut : u = t
        · subst hut
          rw [List.getElem?_set_self htlt] at hu
          cases hu
          have hco : commitsOf u (s.log ++ [Event.mk u (EvKind.commit o r)]) = commitsOf u s.log ++ [(o, r)] := by
            rw [commitsOf_append]; simp [Event.commitOf]
          refine ⟨ok.tinv, ?_, ?_, ?_⟩
          · rw [hco, hops, hpo]; simp
          · rw [hco]; simp only [List.map_append, List.map_cons, List.map_nil]; rw [hres, hpr]
          · intro v hv _
            exact (hbl v hv).1 rfl
        · rw [List.getElem?_set_ne (Ne.symm hut)] at hu
          obtain ⟨a, b, c, d⟩ := g.thr u thu hu
          refine ⟨a, by rw [hlog u hut]; exact b, by rw [hlog u hut]; exact c, ?_⟩
          intro v hv hn
          rw [noCommitSince_append] at hn
          simp [Ne.symm hut, EvKind.isCommit] at hn

theorem Good_exec {w : Width} {init : Word w} {progs : List (List (Oper w))} (sched : List Nat) :
    ∀ {s : Sys w}, Good init progs s → Good init progs (exec sched s) := by
  induction sched with
  | nil => intro s g; exact g
  | cons t rest ih => intro s g; exact ih (Good_step g t)

/-! ### at termination the log is a permutation of the programs -/

theorem flatMap_congr' {α β : Type} (l : List β) (f g : β → List α) (h : ∀ x ∈ l, f x = g x) :
    l.flatMap f = l.flatMap g := by
  induction l with
  | nil => rfl
  | cons a l ih =>
    simp only [List.flatMap_cons]
    rw [h a (by simp), ih (fun x hx => h x (by simp [hx]))]

theorem perm_of_proj {α : Type} (n : Nat) : ∀ (l : List (Nat × α)), (∀ e ∈ l, e.1 < n) →
    (l.map (·.2)).Perm ((List.range n).flatMap fun t => (l.filter (fun e => e.1 == t)).map (·.2)) := by
  induction n with
  | zero =>
    intro l h
    cases l with
    | nil => simp
    | cons e l => exact absurd (h e (by simp)) (by omega)
  | succ n ih =>
    intro l h
    rw [List.range_succ, List.flatMap_append]
    simp only [List.flatMap_cons, List.flatMap_nil, List.append_nil]
    have hsplit := (List.filter_append_perm (fun e : Nat × α => e.1 == n) l)
    have h1 : (l.map (·.2)).Perm ((l.filter (fun e => !(e.1 == n))).map (·.2) ++ (l.filter (fun e => e.1 == n)).map (·.2)) := by
      rw [← List.map_append]
      exact (hsplit.symm.trans List.perm_append_comm).map _
    refine h1.trans (List.Perm.append ?_ (List.Perm.refl _))
    have h2 := ih (l.filter (fun e => !(e.1 == n))) (by
      intro e he
      simp only [List.mem_filter] at he
      have := h e he.1
      have hne : e.1 ≠ n := by simpa using he.2
      omega)
    refine h2.trans (List.Perm.of_eq ?_)
    apply flatMap_congr'
    intro t ht
    simp only [List.mem_range] at ht
    rw [List.filter_filter]
    congr 1
    apply List.filter_congr
    intro e _
    by_cases het : e.1 = t
    · simp [het]; omega
    · simp [het]

theorem commitsOf_eq {w : Width} (t : Nat) (log : List (Event w)) :
    commitsOf t log = ((commits log).filter (fun e => e.1 == t)).map (·.2) := by
  induction log with
  | nil => rfl
  | cons e l ih =>
    simp only [commitsOf, commits, List.filterMap_cons] at ih ⊢
    cases hk : e.kind with
    | read => simp [Event.commitOf, hk, ih]
    | commit o r =>
      by_cases het : e.tid = t
      · simp [Event.commitOf, hk, het, ih]
      · simp [Event.commitOf, hk, het, ih]

theorem mem_commits {w : Width} {log : List (Event w)} {x : Nat × Oper w × Result w} (h : x ∈ commits log) :
    ∃ e ∈ log, e.tid = x.1 := by
  simp only [commits, List.mem_filterMap] at h
  obtain ⟨e, he, hx⟩ := h
  refine ⟨e, he, ?_⟩
  cases hk : e.kind with
  | read => simp [hk] at hx
  | commit o r => simp [hk] at hx; rw [← hx]

theorem range_map_getD {α : Type} (l : List (List α)) :
    (List.range l.length).map (fun t => l[t]?.getD []) = l := by
  apply List.ext_getElem
  · simp
  · intro i h1 h2
    simp at h1 ⊢
    simp [h2]

/-- when every thread has finished, the committed operations are exactly all the operations of all
    the programs, each once -/
theorem commits_perm {w : Width} {init : Word w} {progs : List (List (Oper w))} {s : Sys w}
    (g : Good init progs s) (hterm : ∀ th ∈ s.threads, th.todo = []) :
    ((commits s.log).map (·.2.1)).Perm progs.flatten := by
  have hlt : ∀ e ∈ commits s.log, e.1 < progs.length := by
    intro x hx
    obtain ⟨e, he, het⟩ := mem_commits hx
    rw [← het]; exact g.tids e he
  have h1 := (perm_of_proj progs.length (commits s.log) hlt).map (·.1)
  have h0 : (commits s.log).map (·.2.1) = ((commits s.log).map (·.2)).map (·.1) := by simp
  rw [h0]
  refine h1.trans (List.Perm.of_eq ?_)
  rw [List.map_flatMap]
  conv => rhs; rw [← range_map_getD progs]
  rw [List.flatMap_def]
  congr 1
  apply List.map_congr_left
  intro t ht
  simp only [List.mem_range] at ht
  rw [← commitsOf_eq]
  have htl : t < s.threads.length := by rw [g.len]; exact ht
  have hth : s.threads[t]? = some s.threads[t] := List.getElem?_eq_getElem htl
  obtain ⟨_, hops, _, _⟩ := g.thr t _ hth
  have htodo := hterm _ (List.getElem_mem htl)
  have hp : (s.threads[t]).pendingOps = [] := by
    simp [Thread.pendingOps, Thread.pendingRes, htodo]
  rw [hops, hp]; simp


/-! ### a sequential history determines the object's value -/

theorem foldl_applyEv_none {w : Width} (l : List (Event w)) : l.foldl applyEv none = none := by
  induction l with
  | nil => rfl
  | cons e l ih =>
    simp only [List.foldl_cons]
    have : applyEv none e = none := by
      cases hk : e.kind <;> simp [applyEv, hk]
    rw [this, ih]

theorem replay_foldl {w : Width} : ∀ (log : List (Event w)) (init c : Word w),
    replay init log = some c → c = ((commits log).map (·.2.1)).foldl applyOp init := by
  intro log
  induction log with
  | nil => intro init c h; simp [replay] at h; simp [commits, h]
  | cons e l ih =>
    intro init c h
    simp only [replay, List.foldl_cons] at h
    cases hk : e.kind with
    | read =>
      simp only [applyEv, hk] at h
      have := ih init c h
      simpa [commits, hk] using this
    | commit o r =>
      simp only [applyEv, hk] at h
      cases hs : o.spec init with
      | none => simp [hs, foldl_applyEv_none] at h
      | some p =>
        obtain ⟨c', r'⟩ := p
        simp only [hs] at h
        by_cases hrr : r' = r
        · simp only [hrr, if_true] at h
          have := ih c' c h
          simp only [commits, List.filterMap_cons, hk, List.map_cons, List.foldl_cons]
          simpa [applyOp, hs, commits] using this
        · simp [hrr, foldl_applyEv_none] at h

/-- unpacking `noCommitSince = false`: after thread `t`'s latest logged access another thread committed -/
theorem noCommitSinceRev_false {w : Width} (t : Nat) : ∀ (l : List (Event w)), noCommitSinceRev t l = false →
    ∃ l1 e l2, l = l1 ++ e :: l2 ∧ e.kind.isCommit = true ∧ e.tid ≠ t ∧ ∀ e' ∈ l1, e'.tid ≠ t := by
  intro l
  induction l with
  | nil => intro h; simp [noCommitSinceRev] at h
  | cons e l ih =>
    intro h
    simp only [noCommitSinceRev] at h
    by_cases het : e.tid = t
    · simp [het] at h
    · simp only [het, if_false, Bool.and_eq_false_iff, Bool.not_eq_false'] at h
      rcases h with h | h
      · exact ⟨[], e, l, rfl, h, het, by simp⟩
      · obtain ⟨l1, e', l2, hl, hc, ht, hall⟩ := ih h
        refine ⟨e :: l1, e', l2, by simp [hl], hc, ht, ?_⟩
        intro x hx
        rcases List.mem_cons.mp hx with rfl | hx
        · exact het
        · exact hall x hx

theorem noCommitSince_false {w : Width} (t : Nat) (log : List (Event w)) (h : noCommitSince t log = false) :
    ∃ l1 e l2, log = l1 ++ e :: l2 ∧ e.kind.isCommit = true ∧ e.tid ≠ t ∧ ∀ e' ∈ l2, e'.tid ≠ t := by
  obtain ⟨l1, e, l2, hl, hc, ht, hall⟩ := noCommitSinceRev_false t log.reverse h
  refine ⟨l2.reverse, e, l1.reverse, ?_, hc, ht, by simpa using hall⟩
  have := congrArg List.reverse hl
  simpa using this

end ChibiVerif.Atomics
