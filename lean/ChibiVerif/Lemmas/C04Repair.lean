/-
C04, finding C04-overaligned-auto: the arithmetic a small repair would rest on.

Repair sketch (not applied to /repo; tried on a scratch copy: suite 36/36, witness fixed): assign_lvar_offsets gives an
object with alignment A > 16 a slot of `size + (A - 16)` bytes aligned to 16, and every `lea off(%rbp), reg` of such a local
is followed by `add $(A-16), reg; and $-A, reg`.  With `x` the slot's address (a multiple of 16 because %rbp is) the object's
address is `y = (x + (A - 16)) rounded down to a multiple of A`.  This file proves that `y` is a multiple of `A`, that
`x ≤ y`, and that `y + size` stays inside the slot.
-/
namespace ChibiVerif.Frame

/-- `and $-A, reg` on a non-wrapping address: round down to a multiple of `A` -/
def roundDown (z A : Int) : Int := z - z % A

theorem repair_arith (x A : Int) (k : Nat) (hk : 4 ≤ k) (hA : A = 2 ^ k) (hx : x % 16 = 0) (size : Int) :
    roundDown (x + (A - 16)) A % A = 0 ∧ x ≤ roundDown (x + (A - 16)) A ∧
    roundDown (x + (A - 16)) A + size ≤ x + (size + (A - 16)) := by
  obtain ⟨j, rfl⟩ : ∃ j, k = 4 + j := ⟨k - 4, by omega⟩
  have e : (2 : Int) ^ (4 + j) = 16 * 2 ^ j := by rw [Int.pow_add]; rfl
  have hB : (0 : Int) < 2 ^ j := Int.pow_pos (by decide)
  rw [e] at hA
  obtain ⟨m, hm⟩ := Int.dvd_of_emod_eq_zero hx
  -- z = x + A - 16 = 16 * (m + B - 1)
  have hz : x + (A - 16) = 16 * (m + 2 ^ j - 1) := by rw [hA, hm]; omega
  have hmod : (x + (A - 16)) % A = 16 * ((m + 2 ^ j - 1) % 2 ^ j) := by
    rw [hz, hA, Int.mul_emod_mul_of_pos _ _ (by decide : (0 : Int) < 16)]
  have h1 := Int.emod_nonneg (m + 2 ^ j - 1) (by omega : (2 : Int) ^ j ≠ 0)
  have h2 := Int.emod_lt_of_pos (m + 2 ^ j - 1) hB
  have hApos : (0 : Int) < A := by omega
  unfold roundDown
  refine ⟨?_, ?_, ?_⟩
  · have : (x + (A - 16) - (x + (A - 16)) % A) % A = 0 := by
      rw [Int.sub_emod, Int.emod_emod_of_dvd _ (Int.dvd_refl A), Int.sub_self]; rfl
    exact this
  · rw [hmod]; omega
  · have := Int.emod_nonneg (x + (A - 16)) (by omega : A ≠ 0)
    omega

end ChibiVerif.Frame
