/-
C06, struct / union return values of at most 16 bytes: the loads of `copy_struct_reg` (callee) and the stores of
`copy_ret_buffer` (caller) touch exactly the bytes of the object — every byte once, none outside (Model/CallConv `RetOp`).
-/
import ChibiVerif.Model.CallConv
import ChibiVerif.Lemmas.CallConvLemmas

namespace ChibiVerif.CallConv

theorem mem_countUp (i n : Nat) : i ∈ countUp n ↔ i < n := by simp [countUp]

theorem mem_countDown (i hi lo : Nat) : i ∈ countDown hi lo ↔ lo ≤ i ∧ i < hi := by
  simp only [countDown, List.mem_reverse, List.mem_map, List.mem_range]
  constructor
  · rintro ⟨a, ha, rfl⟩; omega
  · rintro ⟨h1, h2⟩; exact ⟨i - lo, by omega, by omega⟩

theorem mem_fp_bytes (i w off : Nat) : i ∈ (List.range w).map (· + off) ↔ off ≤ i ∧ i < off + w := by
  simp only [List.mem_map, List.mem_range]
  constructor
  · rintro ⟨a, ha, rfl⟩; omega
  · rintro ⟨h1, h2⟩; exact ⟨i - off, by omega, by omega⟩

/-- the conditions `aggSizeOk` gives for an aggregate of 1..16 bytes: the two `assert`s of the ladder hold -/
theorem aggSizeOk_small (u : Bool) (sz al : Nat) (ms : Members) (hok : aggSizeOk (.agg u sz al ms) = true) (h16 : sz ≤ 16)
    (h0 : sz ≠ 0) :
    (hasFlonum (.agg u sz al ms) 0 8 0 = true → sz = 4 ∨ 8 ≤ sz) ∧
    (sz > 8 → hasFlonum (.agg u sz al ms) 8 16 0 = true → sz = 12 ∨ sz = 16) := by
  unfold aggSizeOk at hok
  simp only [hasFlonum1, hasFlonum2] at hok
  constructor
  · intro h; simp [h, h0] at hok; omega
  · intro h8 h; simp [h, h8, h0] at hok; omega

theorem sizes_1_16 (sz : Nat) (h0 : sz ≠ 0) (h16 : sz ≤ 16) :
    sz = 1 ∨ sz = 2 ∨ sz = 3 ∨ sz = 4 ∨ sz = 5 ∨ sz = 6 ∨ sz = 7 ∨ sz = 8 ∨ sz = 9 ∨ sz = 10 ∨ sz = 11 ∨ sz = 12 ∨ sz = 13 ∨
    sz = 14 ∨ sz = 15 ∨ sz = 16 := by omega

/-- **callee**: `copy_struct_reg` loads exactly the bytes `0 .. size-1` of the returned object -/
theorem copyStructReg_bytes (u : Bool) (sz al : Nat) (ms : Members) (hok : aggSizeOk (.agg u sz al ms) = true) (h16 : sz ≤ 16)
    (i : Nat) : i ∈ (copyStructRegOps (.agg u sz al ms)).flatMap RetOp.bytes ↔ i < sz := by
  by_cases h0 : sz = 0
  · subst h0; simp [copyStructRegOps, ATy.size]
  obtain ⟨ha, hb⟩ := aggSizeOk_small u sz al ms hok h16 h0
  have hsz := sizes_1_16 sz h0 h16
  cases h1 : hasFlonum (.agg u sz al ms) 0 8 0 <;> cases h2 : hasFlonum (.agg u sz al ms) 8 16 0 <;>
    simp only [h1, h2, forall_const, Bool.false_eq_true, false_implies] at ha hb <;>
    rcases hsz with rfl | rfl | rfl | rfl | rfl | rfl | rfl | rfl | rfl | rfl | rfl | rfl | rfl | rfl | rfl | rfl <;>
    first
    | omega
    | (simp [copyStructRegOps, ATy.size, h1, h2, RetOp.bytes, countDown, List.range_succ] <;> omega)

/-- **caller**: `copy_ret_buffer` stores exactly the bytes `0 .. size-1` of the return buffer -/
theorem copyRetBuffer_bytes (u : Bool) (sz al : Nat) (ms : Members) (hok : aggSizeOk (.agg u sz al ms) = true) (h16 : sz ≤ 16)
    (i : Nat) : i ∈ (copyRetBufferOps (.agg u sz al ms)).flatMap RetOp.bytes ↔ i < sz := by
  by_cases h0 : sz = 0
  · subst h0; simp [copyRetBufferOps, ATy.size]
  obtain ⟨ha, hb⟩ := aggSizeOk_small u sz al ms hok h16 h0
  have hsz := sizes_1_16 sz h0 h16
  cases h1 : hasFlonum (.agg u sz al ms) 0 8 0 <;> cases h2 : hasFlonum (.agg u sz al ms) 8 16 0 <;>
    simp only [h1, h2, forall_const, Bool.false_eq_true, false_implies] at ha hb <;>
    rcases hsz with rfl | rfl | rfl | rfl | rfl | rfl | rfl | rfl | rfl | rfl | rfl | rfl | rfl | rfl | rfl | rfl <;>
    first
    | omega
    | (simp [copyRetBufferOps, ATy.size, hasFlonum1, hasFlonum2, h1, h2, RetOp.bytes, countUp, List.range_succ] <;> omega)

/-- every byte is loaded once -/
theorem copyStructReg_length (u : Bool) (sz al : Nat) (ms : Members) (hok : aggSizeOk (.agg u sz al ms) = true) (h16 : sz ≤ 16) :
    ((copyStructRegOps (.agg u sz al ms)).flatMap RetOp.bytes).length = sz := by
  by_cases h0 : sz = 0
  · subst h0; simp [copyStructRegOps, ATy.size]
  obtain ⟨ha, hb⟩ := aggSizeOk_small u sz al ms hok h16 h0
  have hsz := sizes_1_16 sz h0 h16
  cases h1 : hasFlonum (.agg u sz al ms) 0 8 0 <;> cases h2 : hasFlonum (.agg u sz al ms) 8 16 0 <;>
    simp only [h1, h2, forall_const, Bool.false_eq_true, false_implies] at ha hb <;>
    rcases hsz with rfl | rfl | rfl | rfl | rfl | rfl | rfl | rfl | rfl | rfl | rfl | rfl | rfl | rfl | rfl | rfl <;>
    first
    | omega
    | simp [copyStructRegOps, ATy.size, h1, h2, RetOp.bytes, countDown, List.range_succ]

/-- every byte is stored once -/
theorem copyRetBuffer_length (u : Bool) (sz al : Nat) (ms : Members) (hok : aggSizeOk (.agg u sz al ms) = true) (h16 : sz ≤ 16) :
    ((copyRetBufferOps (.agg u sz al ms)).flatMap RetOp.bytes).length = sz := by
  by_cases h0 : sz = 0
  · subst h0; simp [copyRetBufferOps, ATy.size]
  obtain ⟨ha, hb⟩ := aggSizeOk_small u sz al ms hok h16 h0
  have hsz := sizes_1_16 sz h0 h16
  cases h1 : hasFlonum (.agg u sz al ms) 0 8 0 <;> cases h2 : hasFlonum (.agg u sz al ms) 8 16 0 <;>
    simp only [h1, h2, forall_const, Bool.false_eq_true, false_implies] at ha hb <;>
    rcases hsz with rfl | rfl | rfl | rfl | rfl | rfl | rfl | rfl | rfl | rfl | rfl | rfl | rfl | rfl | rfl | rfl <;>
    first
    | omega
    | simp [copyRetBufferOps, ATy.size, hasFlonum1, hasFlonum2, h1, h2, RetOp.bytes, countUp, List.range_succ]

end ChibiVerif.CallConv
