/-
Helper lemmas for C15_symbols_partial: the TYPE of the tentative definition `scan_globals` keeps.

`scan_globals` walks the list newest first; a tentative definition that is followed (in the list: preceded, in
the source) by another tentative definition of the same name is dropped, after handing its (completed) type to
that earlier one if the earlier one leaves the array length open.  So lengths travel towards the oldest
tentative definition, which is the one that stays.  `ChainOK` is the invariant of that walk which guarantees
that the survivor ends up with the composite type's size: either no declaration gives a length (then every
completed type is already right), or behind some declaration that gives the right length only declarations
follow that give the right length or none.
-/
import ChibiVerif.Lemmas.LinkageScan
import ChibiVerif.Lemmas.LinkageExact

namespace ChibiVerif.Linkage

variable [Rules]

def completeTy (t : ObjTy) : ObjTy := if t.isArray && t.unknownLen then { t with unknownLen := false } else t

omit [Rules] in
theorem completeArray_eq (o : Obj) : completeArray o = { o with ty := completeTy o.ty } := by
  unfold completeArray completeTy
  split <;> rfl

/-- size, alignment and array-ness of the composite type -/
structure TyParams where
  size : Nat
  align : Nat
  isArray : Bool

/-- alignment and array-ness are those of the composite type -/
def WTy (P : TyParams) (t : ObjTy) : Prop :=
  t.align = P.align ∧ t.isArray = P.isArray ∧ (t.unknownLen = true → t.isArray = true)

/-- ... and the length is known and gives the composite type's size -/
def GoodTy (P : TyParams) (t : ObjTy) : Prop := WTy P t ∧ t.unknownLen = false ∧ t.size = P.size

instance (P : TyParams) (t : ObjTy) : Decidable (WTy P t) := by unfold WTy; infer_instance
instance (P : TyParams) (t : ObjTy) : Decidable (GoodTy P t) := by unfold GoodTy; infer_instance

omit [Rules] in
theorem wty_complete {P : TyParams} {t : ObjTy} (h : WTy P t) : WTy P (completeTy t) := by
  unfold completeTy
  split
  · exact ⟨h.1, h.2.1, fun hh => by cases hh⟩
  · exact h

omit [Rules] in
theorem complete_of_known {t : ObjTy} (h : t.unknownLen = false) : completeTy t = t := by
  simp [completeTy, h]

omit [Rules] in
theorem complete_known {P : TyParams} {t : ObjTy} (h : WTy P t) : (completeTy t).unknownLen = false := by
  unfold completeTy
  cases hu : t.unknownLen
  · simp [hu]
  · simp [h.2.2 hu]

/-- the invariant on the types of the tentative definitions of one name that are still to be visited
    (newest first) -/
def ChainOK (P : TyParams) (ts : List ObjTy) : Prop :=
  (∀ t, t ∈ ts → WTy P t) ∧
  ((∀ t, t ∈ ts → GoodTy P (completeTy t)) ∨
   ∃ pre g post, ts = pre ++ g :: post ∧ GoodTy P g ∧ ∀ p, p ∈ post → p.unknownLen = true ∨ GoodTy P p)

omit [Rules] in
theorem chain_nil (P : TyParams) : ChainOK P [] :=
  ⟨fun _ h => absurd h List.not_mem_nil, Or.inl (fun _ h => absurd h List.not_mem_nil)⟩

omit [Rules] in
theorem chain_single {P : TyParams} {t : ObjTy} (h : ChainOK P [t]) : GoodTy P (completeTy t) := by
  rcases h.2 with h | ⟨pre, g, post, he, hg, _⟩
  · exact h t List.mem_cons_self
  · cases pre with
    | nil =>
      simp only [List.nil_append, List.cons.injEq] at he
      rw [he.1, complete_of_known hg.2.1]
      exact hg
    | cons a as =>
      simp only [List.cons_append, List.cons.injEq] at he
      have := he.2
      cases as <;> simp at this

omit [Rules] in
theorem chain_step {P : TyParams} {t t2 : ObjTy} {r : List ObjTy} (h : ChainOK P (t :: t2 :: r)) :
    ChainOK P ((if t2.unknownLen then completeTy t else t2) :: r) := by
  have hw := h.1
  have hwt : WTy P t := hw t List.mem_cons_self
  have hwt2 : WTy P t2 := hw t2 (List.mem_cons_of_mem _ List.mem_cons_self)
  refine ⟨?_, ?_⟩
  · intro x hx
    rcases List.mem_cons.mp hx with rfl | hx
    · split
      · exact wty_complete hwt
      · exact hwt2
    · exact hw x (List.mem_cons_of_mem _ (List.mem_cons_of_mem _ hx))
  · rcases h.2 with hall | ⟨pre, g, post, he, hg, hpost⟩
    · left
      intro x hx
      rcases List.mem_cons.mp hx with rfl | hx
      · split
        · have := hall t List.mem_cons_self
          rw [complete_of_known this.2.1]
          exact this
        · exact hall t2 (List.mem_cons_of_mem _ List.mem_cons_self)
      · exact hall x (List.mem_cons_of_mem _ (List.mem_cons_of_mem _ hx))
    · right
      cases pre with
      | nil =>
        -- `t` is the good one; `t2` heads `post`
        simp only [List.nil_append, List.cons.injEq] at he
        obtain ⟨rfl, rfl⟩ := he
        refine ⟨[], _, r, rfl, ?_, fun p hp => hpost p (List.mem_cons_of_mem _ hp)⟩
        cases hu : t2.unknownLen
        · simp only [Bool.false_eq_true, if_false]
          rcases hpost t2 List.mem_cons_self with h' | h'
          · rw [hu] at h'; cases h'
          · exact h'
        · simp only [if_true]
          rw [complete_of_known hg.2.1]
          exact hg
      | cons a as =>
        simp only [List.cons_append, List.cons.injEq] at he
        obtain ⟨rfl, he⟩ := he
        cases as with
        | nil =>
          -- `t2` is the good one: it is not overwritten
          simp only [List.nil_append, List.cons.injEq] at he
          obtain ⟨rfl, rfl⟩ := he
          refine ⟨[], _, r, rfl, ?_, hpost⟩
          rw [hg.2.1]
          simp only [Bool.false_eq_true, if_false]
          exact hg
        | cons b bs =>
          simp only [List.cons_append, List.cons.injEq] at he
          obtain ⟨rfl, rfl⟩ := he
          exact ⟨_ :: bs, g, post, rfl, hg, hpost⟩

omit [Rules] in
/-- what `objValid` gives about the types of the tentative definitions -/
theorem chain_initial {P : TyParams} {ts : List ObjTy}
    (hw : ∀ t, t ∈ ts → WTy P t ∧ (t.unknownLen = false → t.size = P.size))
    (h : (∃ t, t ∈ ts ∧ t.unknownLen = false) ∨ (∀ t, t ∈ ts → t.size = P.size)) : ChainOK P ts := by
  refine ⟨fun t ht => (hw t ht).1, ?_⟩
  rcases h with ⟨t, ht, hk⟩ | hall
  · right
    obtain ⟨pre, post, rfl⟩ := List.append_of_mem ht
    refine ⟨pre, t, post, rfl, ⟨(hw t ht).1, hk, (hw t ht).2 hk⟩, fun p hp => ?_⟩
    have hp' : p ∈ pre ++ t :: post := List.mem_append_right _ (List.mem_cons_of_mem _ hp)
    cases hu : p.unknownLen
    · exact Or.inr ⟨(hw p hp').1, hu, (hw p hp').2 hu⟩
    · exact Or.inl rfl
  · left
    intro t ht
    refine ⟨wty_complete (hw t ht).1, complete_known (hw t ht).1, ?_⟩
    have := hall t ht
    unfold completeTy
    split <;> exact this

/-! ### the walk -/

/-- the types of the tentative definitions of `s` in `l`, in list order -/
def tysOf (s : Sym) (l : List Obj) : List ObjTy := (l.filter (isTentOf s)).map (·.ty)

omit [Rules] in
theorem tysOf_cons_hit {s : Sym} {o : Obj} (h : isTentOf s o = true) (l : List Obj) : tysOf s (o :: l) = o.ty :: tysOf s l := by
  simp [tysOf, h]

omit [Rules] in
theorem tysOf_cons_miss {s : Sym} {o : Obj} (h : isTentOf s o = false) (l : List Obj) : tysOf s (o :: l) = tysOf s l := by
  simp [tysOf, h]

omit [Rules] in
theorem tysOf_find_none {s : Sym} : ∀ {l : List Obj}, l.find? (isTentOf s) = none → tysOf s l = []
  | [], _ => rfl
  | a :: as, h => by
    simp only [List.find?] at h
    cases ha : isTentOf s a
    · rw [ha] at h
      rw [tysOf_cons_miss ha]
      exact tysOf_find_none h
    · rw [ha] at h; cases h

omit [Rules] in
theorem tysOf_find_some {s : Sym} (T : ObjTy) : ∀ {l : List Obj} {v : Obj}, l.find? (isTentOf s) = some v →
    ∃ r, tysOf s l = v.ty :: r ∧ tysOf s (updFirst (isTentOf s) (fun o => { o with ty := T }) l) = T :: r
  | [], _, h => by cases h
  | a :: as, v, h => by
    simp only [List.find?] at h
    cases ha : isTentOf s a
    · rw [ha] at h
      obtain ⟨r, h1, h2⟩ := tysOf_find_some T h
      refine ⟨r, by rw [tysOf_cons_miss ha]; exact h1, ?_⟩
      rw [updFirst_miss _ ha, tysOf_cons_miss ha]
      exact h2
    · rw [ha] at h
      simp only [Option.some.injEq] at h
      subst h
      refine ⟨tysOf s as, tysOf_cons_hit ha as, ?_⟩
      rw [updFirst_hit _ ha]
      exact tysOf_cons_hit (o := { a with ty := T }) ha as

omit [Rules] in
theorem tysOf_updFirst_other {s s' : Sym} (hne : s' ≠ s) (T : ObjTy) : ∀ l : List Obj,
    tysOf s (updFirst (isTentOf s') (fun o => { o with ty := T }) l) = tysOf s l
  | [] => rfl
  | a :: as => by
    cases ha : isTentOf s' a
    · rw [updFirst_miss _ ha]
      cases hb : isTentOf s a
      · rw [tysOf_cons_miss hb, tysOf_cons_miss hb, tysOf_updFirst_other hne T as]
      · rw [tysOf_cons_hit hb, tysOf_cons_hit hb, tysOf_updFirst_other hne T as]
    · rw [updFirst_hit _ ha]
      have hb : isTentOf s a = false := by
        have := isTentOf_sym ha
        simp only [isTentOf, Bool.and_eq_false_iff, beq_eq_false_iff_ne, ne_eq]
        right; rw [this]; exact hne
      rw [tysOf_cons_miss hb, tysOf_cons_miss (o := { a with ty := T }) hb]

omit [Rules] in
/-- **the survivor has the composite type.**  If no non-tentative definition of `s` exists and the tentative
    definitions still to be visited satisfy `ChainOK`, every tentative definition of `s` that `scan_globals`
    keeps has a type with known length and the composite type's size, alignment and array-ness. -/
theorem scanLoop_good {P : TyParams} {s : Sym} {all : List Obj} (hreal : all.any (realDefOf s) = false) :
    ∀ (n : Nat) (l : List Obj), l.length ≤ n → ChainOK P (tysOf s l) →
      ∀ o, o ∈ scanLoop all n l → isTentOf s o = true → GoodTy P o.ty := by
  intro n
  induction n with
  | zero =>
    intro l _ _ o ho
    simp [scanLoop] at ho
  | succ n ih =>
    intro l hn hc o ho hs
    cases l with
    | nil => simp [scanLoop] at ho
    | cons var rest =>
      have hn' : rest.length ≤ n := by simp at hn; omega
      unfold scanLoop at ho
      cases ht : var.isTentative
      · -- not tentative: kept, and not what we are looking at
        simp only [ht, Bool.not_false, if_true] at ho
        have hm : isTentOf s var = false := by simp [isTentOf, ht]
        rw [tysOf_cons_miss hm] at hc
        rcases List.mem_cons.mp ho with rfl | ho
        · rw [hm] at hs; cases hs
        · exact ih rest hn' hc o ho hs
      · simp only [ht, Bool.not_true, Bool.false_eq_true, if_false] at ho
        have hsym : (completeArray var).sym = var.sym := by rw [completeArray_eq]
        have hcty : (completeArray var).ty = completeTy var.ty := by rw [completeArray_eq]
        rw [hsym] at ho
        by_cases hvs : var.sym = s
        · -- a tentative definition of `s`
          have hm : isTentOf s var = true := by simp [isTentOf, ht, hvs]
          rw [tysOf_cons_hit hm] at hc
          have hall : (all.any fun o => o.isDefinition && !o.isTentative && o.sym == var.sym) = false := by
            rw [hvs]; exact hreal
          rw [hall] at ho
          simp only [Bool.false_eq_true, if_false] at ho
          rw [hvs] at ho
          cases hf : rest.find? (isTentOf s) with
          | none =>
            rw [hf] at ho
            have h0 := tysOf_find_none hf
            rw [h0] at hc
            rcases List.mem_cons.mp ho with rfl | ho
            · rw [hcty]; exact chain_single hc
            · exact ih rest hn' (by rw [h0]; exact chain_nil P) o ho hs
          | some var2 =>
            rw [hf] at ho
            obtain ⟨r, h1, h2⟩ := tysOf_find_some (completeArray var).ty hf
            rw [h1] at hc
            have hstep := chain_step hc
            cases hu : var2.ty.unknownLen
            · simp only [hu, Bool.false_eq_true, if_false] at ho hstep
              exact ih rest hn' (by rw [h1]; exact hstep) o ho hs
            · simp only [hu, if_true] at ho hstep
              refine ih _ (by rw [length_updFirst]; exact hn') ?_ o ho hs
              rw [h2, hcty]; exact hstep
        · -- a tentative definition of another name: the types of `s` are not touched
          have hm : isTentOf s var = false := by
            simp only [isTentOf, Bool.and_eq_false_iff, beq_eq_false_iff_ne, ne_eq]
            right; exact hvs
          rw [tysOf_cons_miss hm] at hc
          split at ho
          · exact ih rest hn' hc o ho hs
          · split at ho
            · split at ho
              · refine ih _ (by rw [length_updFirst]; exact hn') ?_ o ho hs
                rw [tysOf_updFirst_other hvs]; exact hc
              · exact ih rest hn' hc o ho hs
            · rcases List.mem_cons.mp ho with rfl | ho
              · have : isTentOf s (completeArray var) = false := by
                  simp only [isTentOf, Bool.and_eq_false_iff, beq_eq_false_iff_ne, ne_eq]
                  right; rw [hsym]; exact hvs
                rw [this] at hs; cases hs
              · exact ih rest hn' hc o ho hs

omit [Rules] in
theorem scanCore_good {P : TyParams} {s : Sym} {gs : List Obj} (hreal : gs.any (realDefOf s) = false)
    (hc : ChainOK P (tysOf s gs)) : ∀ o, o ∈ scanCore gs → isTentOf s o = true → GoodTy P o.ty :=
  scanLoop_good hreal gs.length gs (Nat.le_refl _) hc

end ChibiVerif.Linkage
