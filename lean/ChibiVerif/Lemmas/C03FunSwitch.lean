/-
C03 × C01: `switch` in the whole-function simulation, and the simulation theorem `sim`.

* `caseTest_run`, `rungs_run`: the compare ladder of ND_SWITCH on the X86 model — `cmp $c, %eax|%rax` (or `mov $c, %rdi; cmp
  %rdi, %rax` for a 64-bit constant that is not a sign-extended imm32) sets ZF iff the value of the controlling expression
  equals the `case` constant converted to the promoted controlling type (`case_zf32`, `case_zf64`: negative constants,
  constants above 32 bits, `char` / `short` / `_Bool` controlling expressions compared in 32 bits); the rungs are tried in
  `case_next` order, so control reaches the label `pickCase` names, else falls out of the ladder.
* `chain_sel`: for a body that is a list of labelled statements, the statement list the abstract machine selects
  (`selectCase` / `selectDefault`) starts at the label the ladder jumps to (`pickCase` / `lastDefault` of the labels `collect`
  finds), and is compiled — as a statement of its own — to the code that sits there.
* `sim_switch`, `sim_case`, `sim_default`; `sim`.
-/
import ChibiVerif.Lemmas.C03FunSim

namespace ChibiVerif.C03Fun
open ChibiVerif.Asm ChibiVerif.Spec.IntSpec ChibiVerif.C01 ChibiVerif.X86 ChibiVerif.X86J

/-! ### the counter of `new_unique_name()` -/

theorem compileF_u (tys : List ITy) (off toff : Nat → Int) (R : ITy) (s : FStmt) :
    ∀ (ctx : JCtx) (k0 c0 u0 : Nat) (code : List FI) (k1 c1 u1 : Nat),
      compileF tys off toff R ctx k0 c0 u0 s = some (code, k1, c1, u1) → u1 = u0 + nuniq s := by
  induction s with
  | skip => intro ctx k0 c0 u0 code k1 c1 u1 h; simp only [compileF, Option.some.injEq, Prod.mk.injEq] at h; simp [nuniq, ← h.2.2.2]
  | expr e =>
    intro ctx k0 c0 u0 code k1 c1 u1 h
    simp only [compileF, Option.map_eq_some_iff, Prod.mk.injEq] at h
    obtain ⟨_, _, _, _, _, rfl⟩ := h; rfl
  | ret e =>
    intro ctx k0 c0 u0 code k1 c1 u1 h
    simp only [compileF, Option.map_eq_some_iff, Prod.mk.injEq] at h
    obtain ⟨_, _, _, _, _, rfl⟩ := h; rfl
  | brk =>
    intro ctx k0 c0 u0 code k1 c1 u1 h
    simp only [compileF, Option.map_eq_some_iff, Prod.mk.injEq] at h
    obtain ⟨_, _, _, _, _, rfl⟩ := h; rfl
  | cont =>
    intro ctx k0 c0 u0 code k1 c1 u1 h
    simp only [compileF, Option.map_eq_some_iff, Prod.mk.injEq] at h
    obtain ⟨_, _, _, _, _, rfl⟩ := h; rfl
  | seq a b iha ihb =>
    intro ctx k0 c0 u0 code k1 c1 u1 h
    simp only [compileF] at h
    cases ha : compileF tys off toff R ctx k0 c0 u0 a with
    | none => simp [ha] at h
    | some ra =>
      obtain ⟨ca, ka, c1a, u1a⟩ := ra
      simp only [ha, Option.map_eq_some_iff, Prod.mk.injEq] at h
      obtain ⟨⟨cb, kb, c1b, u1b⟩, hb, _, _, _, hu⟩ := h
      have hu : u1b = u1 := hu
      have := iha _ _ _ _ _ _ _ _ ha
      have := ihb _ _ _ _ _ _ _ _ hb
      simp only [nuniq]; omega
  | ifte e t f iht ihf =>
    intro ctx k0 c0 u0 code k1 c1 u1 h
    simp only [compileF] at h
    cases he : compileJ tys off toff k0 (c0 + 1) e with
    | none => simp [he] at h
    | some re =>
      obtain ⟨te, ce, ke, c1e⟩ := re
      simp only [he] at h
      cases ht : compileF tys off toff R ctx ke c1e u0 t with
      | none => simp [ht] at h
      | some rt =>
        obtain ⟨ct, kt, c1t, u1t⟩ := rt
        simp only [ht, Option.map_eq_some_iff, Prod.mk.injEq] at h
        obtain ⟨⟨cf, kf, c1f, u1f⟩, hf, _, _, _, hu⟩ := h
        have hu : u1f = u1 := hu
        have := iht _ _ _ _ _ _ _ _ ht
        have := ihf _ _ _ _ _ _ _ _ hf
        simp only [nuniq]; omega
  | for_ init e inc body ihb =>
    intro ctx k0 c0 u0 code k1 c1 u1 h
    simp only [compileF] at h
    cases h0 : compileOpt tys off toff k0 (c0 + 1) init with
    | none => simp [h0] at h
    | some r0 =>
      obtain ⟨c0i, ka, ca⟩ := r0
      simp only [h0] at h
      cases he : compileJ tys off toff ka ca e with
      | none => simp [he] at h
      | some re =>
        obtain ⟨te, ce, ke, c1e⟩ := re
        simp only [he] at h
        cases hi : compileOpt tys off toff ke (c1e + nlblF body) inc with
        | none => simp [hi] at h
        | some ri =>
          obtain ⟨ci, ki, c1i⟩ := ri
          simp only [hi, Option.map_eq_some_iff, Prod.mk.injEq] at h
          obtain ⟨⟨cb, kb, c1b, u1b⟩, hb, _, _, _, hu⟩ := h
          have hu : u1b = u1 := hu
          have := ihb _ _ _ _ _ _ _ _ hb
          simp only [nuniq]; omega
  | doWhile body e ihb =>
    intro ctx k0 c0 u0 code k1 c1 u1 h
    simp only [compileF] at h
    cases hb : compileF tys off toff R ⟨some u0, some (u0 + 1), ctx.sw⟩ k0 (c0 + 1) (u0 + 2) body with
    | none => simp [hb] at h
    | some rb =>
      obtain ⟨cb, kb, c1b, u1b⟩ := rb
      simp only [hb, Option.map_eq_some_iff, Prod.mk.injEq] at h
      obtain ⟨⟨te, ce, ke, c1e⟩, he, _, _, _, hu⟩ := h
      have hu : u1b = u1 := hu
      have := ihb _ _ _ _ _ _ _ _ hb
      simp only [nuniq]; omega
  | switch_ e body ihb =>
    intro ctx k0 c0 u0 code k1 c1 u1 h
    simp only [compileF] at h
    cases he : compileJ tys off toff k0 c0 e with
    | none => simp [he] at h
    | some re =>
      obtain ⟨te, ce, ke, c1e⟩ := re
      simp only [he, Option.map_eq_some_iff, Prod.mk.injEq] at h
      obtain ⟨⟨cb, kb, c1b, u1b⟩, hb, _, _, _, hu⟩ := h
      have hu : u1b = u1 := hu
      have := ihb _ _ _ _ _ _ _ _ hb
      simp only [nuniq]; omega
  | case_ lo hi s ih =>
    intro ctx k0 c0 u0 code k1 c1 u1 h
    simp only [compileF] at h
    split at h
    · simp only [Option.map_eq_some_iff, Prod.mk.injEq] at h
      obtain ⟨⟨cs, ks, c1s, u1s⟩, hs, _, _, _, hu⟩ := h
      have hu : u1s = u1 := hu
      have := ih _ _ _ _ _ _ _ _ hs
      simp only [nuniq]; omega
    · simp at h
  | default_ s ih =>
    intro ctx k0 c0 u0 code k1 c1 u1 h
    simp only [compileF] at h
    split at h
    · simp only [Option.map_eq_some_iff, Prod.mk.injEq] at h
      obtain ⟨⟨cs, ks, c1s, u1s⟩, hs, _, _, _, hu⟩ := h
      have hu : u1s = u1 := hu
      have := ih _ _ _ _ _ _ _ _ hs
      simp only [nuniq]; omega
    · simp at h

/-- a statement without labels of the enclosing `switch` contributes no rung -/
theorem collect_nofree (s : FStmt) : ∀ u, noFreeCase s = true → collect u s = [] := by
  induction s with
  | seq a b iha ihb => intro u h; simp only [noFreeCase, Bool.and_eq_true] at h; simp [collect, iha _ h.1, ihb _ h.2]
  | ifte e t f iht ihf => intro u h; simp only [noFreeCase, Bool.and_eq_true] at h; simp [collect, iht _ h.1, ihf _ h.2]
  | for_ init e inc b ih => intro u h; simp only [noFreeCase] at h; simp [collect, ih _ h]
  | doWhile b e ih => intro u h; simp only [noFreeCase] at h; simp [collect, ih _ h]
  | case_ lo hi s _ => intro u h; simp [noFreeCase] at h
  | default_ s _ => intro u h; simp [noFreeCase] at h
  | skip => intro u _; rfl
  | expr e => intro u _; rfl
  | switch_ e b _ => intro u _; rfl
  | brk => intro u _; rfl
  | cont => intro u _; rfl
  | ret e => intro u _; rfl

/-! ### the compare ladder on the machine -/

/-- 32-bit rung: `cmp $(int)c, %eax` sets ZF iff the value equals the constant converted to the promoted controlling type -/
theorem case_zf32 (t : ITy) (ht : t.size ≠ 8) (r : BitVec 64) (v cv : Int) (h : Represents t r v) :
    (r.setWidth 32 - BitVec.ofInt 32 (toI32 cv) == 0) = decide (v = convert (promote t) cv) := by
  have e := sub_eq_zero_iff (r.setWidth 32) (BitVec.ofInt 32 (toI32 cv))
  refine Eq.trans e ?_
  congr 1
  rw [eq_iff_toNatI]
  unfold Represents at h
  obtain ⟨hr, hv⟩ := h
  cases t <;> simp only [ITy.size] at ht <;> try (exact absurd rfl ht)
  all_goals
    simp only [ITy.inRange, ITy.min, ITy.max, ITy.signed, ITy.bits] at hr
    simp only at hv
    simp only [promote, convert, wrap, toI32, ITy.rank, ITy.min, ITy.max, ITy.signed, ITy.bits, BitVec.toNat_setWidth,
      BitVec.toNat_ofInt, Int.bmod_def]
    simp at *
    omega

/-- 64-bit rung -/
theorem case_zf64 (t : ITy) (ht : t.size = 8) (r : BitVec 64) (v cv : Int) (h : Represents t r v) :
    (r - BitVec.ofInt 64 cv == 0) = decide (v = convert (promote t) cv) := by
  have e := sub_eq_zero_iff r (BitVec.ofInt 64 cv)
  refine Eq.trans e ?_
  congr 1
  rw [eq_iff_toNatI]
  unfold Represents at h
  obtain ⟨hr, hv⟩ := h
  cases t <;> simp only [ITy.size] at ht <;> try (exact absurd ht (by decide))
  all_goals
    simp only [ITy.inRange, ITy.min, ITy.max, ITy.signed, ITy.bits] at hr
    simp only at hv
    simp only [promote, convert, wrap, ITy.rank, ITy.min, ITy.max, ITy.signed, ITy.bits, BitVec.toNat_ofInt, Int.bmod_def]
    simp at *
    omega

theorem ofInt_toI32 (x : Int) : BitVec.ofInt 32 (toI32 x) = BitVec.ofInt 32 x := by
  apply BitVec.eq_of_toNat_eq
  simp only [BitVec.toNat_ofInt, toI32, Int.bmod_def]
  congr 1
  split <;> omega

theorem ofInt_toI64 (x : Int) : BitVec.ofInt 64 (toI64 x) = BitVec.ofInt 64 x := by
  apply BitVec.eq_of_toNat_eq
  simp only [BitVec.toNat_ofInt, toI64, Int.bmod_def]
  congr 1
  split <;> omega

/-- `jbe` after `cmp y, x`: CF or ZF iff `x ≤ y` unsigned -/
theorem be_iff {n : Nat} (x y : BitVec n) : (BitVec.usubOverflow x y || (x - y == 0#n)) = decide (x.toNat ≤ y.toNat) := by
  rw [sub_eq_zero_iff]
  simp only [BitVec.usubOverflow]
  by_cases h : x = y
  · subst h; simp
  · have : x.toNat ≠ y.toNat := fun e => h (BitVec.eq_of_toNat_eq e)
    simp only [h, decide_false, Bool.or_false]
    congr 1
    apply propext
    omega

/-- 32-bit range rung: the unsigned distance test `(v - lo) mod 2^32 ≤ (hi - lo) mod 2^32` decides `lo ≤ v ≤ hi` in the promoted
    controlling type, for a range that is not empty there -/
theorem range32 (t : ITy) (ht : t.size ≠ 8) (r : BitVec 64) (v lo hi : Int) (h : Represents t r v)
    (hle : convert (promote t) lo ≤ convert (promote t) hi) :
    decide ((r.setWidth 32 - BitVec.ofInt 32 (toI32 lo)).toNat ≤ (BitVec.ofInt 32 (toI32 (hi - lo))).toNat) =
      decide (convert (promote t) lo ≤ v ∧ v ≤ convert (promote t) hi) := by
  rw [ofInt_toI32, ofInt_toI32]
  congr 1
  apply propext
  unfold Represents at h
  obtain ⟨hr, hv⟩ := h
  cases t <;> simp only [ITy.size] at ht <;> try (exact absurd rfl ht)
  all_goals
    simp only [ITy.inRange, ITy.min, ITy.max, ITy.signed, ITy.bits] at hr
    simp only at hv
    simp only [promote, convert, wrap, ITy.rank, ITy.min, ITy.max, ITy.signed, ITy.bits, BitVec.toNat_setWidth,
      BitVec.toNat_ofInt, BitVec.toNat_sub, Int.bmod_def] at hle ⊢
    simp at *
    omega

/-- 64-bit range rung -/
theorem range64 (t : ITy) (ht : t.size = 8) (r : BitVec 64) (v lo hi : Int) (h : Represents t r v)
    (hle : convert (promote t) lo ≤ convert (promote t) hi) :
    decide ((r - BitVec.ofInt 64 lo).toNat ≤ (BitVec.ofInt 64 (toI64 (hi - lo))).toNat) =
      decide (convert (promote t) lo ≤ v ∧ v ≤ convert (promote t) hi) := by
  rw [ofInt_toI64]
  congr 1
  apply propext
  unfold Represents at h
  obtain ⟨hr, hv⟩ := h
  cases t <;> simp only [ITy.size] at ht <;> try (exact absurd ht (by decide))
  all_goals
    simp only [ITy.inRange, ITy.min, ITy.max, ITy.signed, ITy.bits] at hr
    simp only at hv
    simp only [promote, convert, wrap, ITy.rank, ITy.min, ITy.max, ITy.signed, ITy.bits, BitVec.toNat_ofInt, BitVec.toNat_sub,
      Int.bmod_def] at hle ⊢
    simp at *
    omega

theorem caseSel_eq (P : ITy) (c v : Int) : caseSel P c c v = decide (v = convert P c) := by
  unfold caseSel
  congr 1
  apply propext
  omega

/-- the comparison of one rung: the flags are defined, the condition of its jump holds iff the `case` selects `v`; memory,
    `%rsp`, `%rbp`, `%rax` unchanged -/
theorem caseCmp_run (t : ITy) (lo hi v : Int) (s : State) (h : Represents t (s.get .rax) v)
    (hle : convert (promote t) lo ≤ convert (promote t) hi) :
    ∃ (is : List Ins) (cc : CC) (s' : State), (∀ l, caseTest t lo hi l = (is.map FI.ins) ++ [FI.jcc cc (.s (.uniq l))]) ∧
      X86.run is s = some s' ∧ s'.flagsValid = true ∧ s'.cond cc = caseSel (promote t) lo hi v ∧ Same s s' ∧
      s'.get .rax = s.get .rax := by
  by_cases hlh : lo = hi
  · subst hlh
    rw [caseSel_eq]
    by_cases h8 : t.size = 8
    · by_cases hf : fits32 lo = true
      · refine ⟨[⟨"cmp", [.i lo, .r "%rax"]⟩], .e, _, fun l => by simp [caseTest, h8, hf], rfl, rfl, ?_, ⟨rfl, rfl, rfl⟩, rfl⟩
        rw [← case_zf64 t h8 (s.get .rax) v lo h]
        simp [State.cond, State.flags, State.src, State.getW]
      · refine ⟨[⟨"mov", [.i lo, .r "%rdi"]⟩, ⟨"cmp", [.r "%rdi", .r "%rax"]⟩], .e, _, fun l => by simp [caseTest, h8, hf], rfl, rfl,
          ?_, ⟨rfl, ?_, ?_⟩, ?_⟩
        · rw [← case_zf64 t h8 (s.get .rax) v lo h]
          simp [State.cond, State.flags, State.src, State.getW, State.setW, State.get, State.set]
        all_goals simp [State.flags, State.src, State.getW, State.setW, State.get, State.set]
    · refine ⟨[⟨"cmp", [.i (toI32 lo), .r "%eax"]⟩], .e, _, fun l => by simp [caseTest, h8], rfl, rfl, ?_, ⟨rfl, rfl, rfl⟩, rfl⟩
      rw [← case_zf32 t h8 (s.get .rax) v lo h]
      simp [State.cond, State.flags, State.src, State.getW]
  · unfold caseSel
    by_cases h8 : t.size = 8
    · rw [← range64 t h8 (s.get .rax) v lo hi h hle]
      have key := be_iff ((s.get .rax) - BitVec.ofInt 64 lo) (BitVec.ofInt 64 (toI64 (hi - lo)))
      by_cases hf : fits32 lo = true
      · by_cases hg : fits32 (toI64 (hi - lo)) = true
        · refine ⟨[⟨"mov", [.r "%rax", .r "%rdi"]⟩, ⟨"sub", [.i lo, .r "%rdi"]⟩, ⟨"cmp", [.i (toI64 (hi - lo)), .r "%rdi"]⟩], .be, _,
            fun l => by simp [caseTest, hlh, h8, hf, hg], rfl, rfl, ?_, ⟨rfl, ?_, ?_⟩, ?_⟩
          · simpa [State.cond, State.flags, State.src, State.getW, State.setW, State.get, State.set, BitVec.usubOverflow] using key
          all_goals simp [State.flags, State.src, State.getW, State.setW, State.get, State.set]
        · refine ⟨[⟨"mov", [.r "%rax", .r "%rdi"]⟩, ⟨"sub", [.i lo, .r "%rdi"]⟩, ⟨"mov", [.i (toI64 (hi - lo)), .r "%rdx"]⟩,
              ⟨"cmp", [.r "%rdx", .r "%rdi"]⟩], .be, _,
            fun l => by simp [caseTest, hlh, h8, hf, hg], rfl, rfl, ?_, ⟨rfl, ?_, ?_⟩, ?_⟩
          · simpa [State.cond, State.flags, State.src, State.getW, State.setW, State.get, State.set, BitVec.usubOverflow] using key
          all_goals simp [State.flags, State.src, State.getW, State.setW, State.get, State.set]
      · by_cases hg : fits32 (toI64 (hi - lo)) = true
        · refine ⟨[⟨"mov", [.r "%rax", .r "%rdi"]⟩, ⟨"mov", [.i lo, .r "%rdx"]⟩, ⟨"sub", [.r "%rdx", .r "%rdi"]⟩,
              ⟨"cmp", [.i (toI64 (hi - lo)), .r "%rdi"]⟩], .be, _,
            fun l => by simp [caseTest, hlh, h8, hf, hg], rfl, rfl, ?_, ⟨rfl, ?_, ?_⟩, ?_⟩
          · simpa [State.cond, State.flags, State.src, State.getW, State.setW, State.get, State.set, BitVec.usubOverflow] using key
          all_goals simp [State.flags, State.src, State.getW, State.setW, State.get, State.set]
        · refine ⟨[⟨"mov", [.r "%rax", .r "%rdi"]⟩, ⟨"mov", [.i lo, .r "%rdx"]⟩, ⟨"sub", [.r "%rdx", .r "%rdi"]⟩,
              ⟨"mov", [.i (toI64 (hi - lo)), .r "%rdx"]⟩, ⟨"cmp", [.r "%rdx", .r "%rdi"]⟩], .be, _,
            fun l => by simp [caseTest, hlh, h8, hf, hg], rfl, rfl, ?_, ⟨rfl, ?_, ?_⟩, ?_⟩
          · simpa [State.cond, State.flags, State.src, State.getW, State.setW, State.get, State.set, BitVec.usubOverflow] using key
          all_goals simp [State.flags, State.src, State.getW, State.setW, State.get, State.set]
    · rw [← range32 t h8 (s.get .rax) v lo hi h hle]
      have key := be_iff ((s.get .rax).setWidth 32 - BitVec.ofInt 32 (toI32 lo)) (BitVec.ofInt 32 (toI32 (hi - lo)))
      refine ⟨[⟨"mov", [.r "%eax", .r "%edi"]⟩, ⟨"sub", [.i (toI32 lo), .r "%edi"]⟩, ⟨"cmp", [.i (toI32 (hi - lo)), .r "%edi"]⟩], .be, _,
        fun l => by simp [caseTest, hlh, h8], rfl, rfl, ?_, ⟨rfl, ?_, ?_⟩, ?_⟩
      · simpa [State.cond, State.flags, State.src, State.getW, State.setW, State.get, State.set, BitVec.usubOverflow] using key
      all_goals simp [State.flags, State.src, State.getW, State.setW, State.get, State.set]

theorem enc_ins (C : Nat) (is : List Ins) : (is.map FI.ins).map (enc C) = J is := by
  induction is with
  | nil => rfl
  | cons i r ih => simp only [List.map_cons, J] at ih ⊢; rw [ih]; rfl

/-- **one rung**: to the line `.L..l:` if the `case` selects `v`, else to the next rung -/
theorem caseTest_run (g : Cfg) (ok : g.OK) (t : ITy) (lo hi v : Int) (l pos tpos : Nat) (m : State)
    (hat : At g.q pos ((caseTest t lo hi l).map (enc g.C)))
    (ht : caseSel (promote t) lo hi v = true → g.q[tpos]? = some (.lbl (encL g.C (.s (.uniq l)))))
    (hle : convert (promote t) lo ≤ convert (promote t) hi)
    (hr : Represents t (m.get .rax) v) :
    ∃ m', Same m m' ∧ Represents t (m'.get .rax) v ∧
      Reach g.q (pos, m) (if caseSel (promote t) lo hi v = true then tpos else pos + (caseTest t lo hi l).length, m') := by
  obtain ⟨is, cc, s', hshape, hrun, hfv, hz, hsame, hrax⟩ := caseCmp_run t lo hi v m hr hle
  rw [hshape l] at hat ⊢
  rw [List.map_append, enc_ins, At_append, length_J] at hat
  have r1 := reach_of_exec (Exec.ins hat.1 hrun)
  have hj : g.q[pos + is.length]? = some (JI.jcc cc (encL g.C (.s (.uniq l)))) := hat.2.1
  refine ⟨s', hsame, by rw [hrax]; exact hr, r1.trans ?_⟩
  by_cases hv : caseSel (promote t) lo hi v = true
  · simp only [hv, if_true]
    exact jcc_taken ok.nodup hj (ht hv) hfv (by rw [hz]; exact hv)
  · simp only [hv, Bool.false_eq_true, if_false]
    have := jcc_fall hj hfv (by rw [hz]; simpa using hv)
    refine reach_to this ?_
    simp only [List.length_append, List.length_map, List.length_cons, List.length_nil]; omega

/-- **the rungs**: control reaches the label `pickCase` names, else the line after the last rung -/
theorem rungs_run (g : Cfg) (ok : g.OK) (t : ITy) (v : Int) (tpos : Nat) :
    ∀ (ents : List (Option (Int × Int) × Nat)) (pos : Nat) (m : State), At g.q pos ((rungs t ents).map (enc g.C)) →
      (∀ l, pickCase (promote t) v ents = some l → g.q[tpos]? = some (.lbl (encL g.C (.s (.uniq l))))) →
      (∀ lo hi l, (some (lo, hi), l) ∈ ents → convert (promote t) lo ≤ convert (promote t) hi) →
      Represents t (m.get .rax) v →
      ∃ m', Same m m' ∧ Represents t (m'.get .rax) v ∧
        Reach g.q (pos, m) (if (pickCase (promote t) v ents).isSome then tpos else pos + (rungs t ents).length, m') := by
  intro ents
  induction ents with
  | nil => intro pos m _ _ _ hr; exact ⟨m, Same.refl _, hr, by simpa [pickCase, rungs] using Reach.refl _ _⟩
  | cons x r ih =>
    obtain ⟨o, l⟩ := x
    cases o with
    | none =>
      intro pos m hat hp hne hr
      exact ih pos m hat hp (fun lo hi l' h' => hne lo hi l' (List.mem_cons_of_mem _ h')) hr
    | some cv =>
      obtain ⟨lo, hi⟩ := cv
      intro pos m hat hp hne hr
      have hne' : ∀ lo' hi' l', (some (lo', hi'), l') ∈ r → convert (promote t) lo' ≤ convert (promote t) hi' :=
        fun lo' hi' l' h' => hne lo' hi' l' (List.mem_cons_of_mem _ h')
      simp only [rungs, List.map_append] at hat
      rw [At_append, List.length_map] at hat
      cases hpr : pickCase (promote t) v r with
      | some l' =>
        have hp' : ∀ l0, pickCase (promote t) v r = some l0 → g.q[tpos]? = some (.lbl (encL g.C (.s (.uniq l0)))) := by
          intro l0 h0; exact hp l0 (by simp [pickCase, h0])
        obtain ⟨m', sm, hr', r1⟩ := ih pos m hat.1 hp' hne' hr
        refine ⟨m', sm, hr', ?_⟩
        simpa [pickCase, hpr] using r1
      | none =>
        obtain ⟨m1, sm1, hr1, r1⟩ := ih pos m hat.1 (by intro l0 h0; rw [hpr] at h0; cases h0) hne' hr
        simp only [hpr, Option.isSome_none, Bool.false_eq_true, if_false] at r1
        obtain ⟨m2, sm2, hr2, r2⟩ := caseTest_run g ok t lo hi v l _ tpos m1 hat.2
          (fun hv => hp l (by simp [pickCase, hpr, hv])) (hne lo hi l (List.mem_cons_self ..)) hr1
        refine ⟨m2, sm1.trans sm2, hr2, ?_⟩
        by_cases hv : caseSel (promote t) lo hi v = true
        · simp only [hv, if_true] at r2
          simpa [pickCase, hpr, hv] using r1.trans r2
        · simp only [hv, Bool.false_eq_true, if_false] at r2
          have := r1.trans r2
          simp only [pickCase, hpr, hv, if_false, Option.orElse, Option.isSome_none, Bool.false_eq_true, rungs,
            List.length_append]
          exact reach_to this (by omega)

/-! ### the selected statement list and the code at the selected label -/

/-- the statement list `suf` is compiled — as a statement of its own, at some state of the counters — to the code at the line
    `.L..l:`, which ends at `endPos` with the counters at `k1 c1 u1` -/
def Entry (g : Cfg) (ctx : JCtx) (l : Nat) (suf : FStmt) (endPos k1 c1 u1 Dn : Nat) : Prop :=
  ∃ (posL k' c' u' : Nat) (codeS : List FI), g.q[posL]? = some (.lbl (encL g.C (.s (.uniq l)))) ∧
    compileF g.tys g.off g.toff g.R ctx k' c' u' suf = some (codeS, k1, c1, u1) ∧ At g.q posL (codeS.map (enc g.C)) ∧
    posL + codeS.length = endPos ∧ noConflictF suf = true ∧ depthF suf ≤ Dn

theorem Entry.mono {g : Cfg} {ctx : JCtx} {l : Nat} {suf : FStmt} {e e' k1 c1 u1 D D' : Nat}
    (h : Entry g ctx l suf e k1 c1 u1 D) (he : e = e') (hD : D ≤ D') : Entry g ctx l suf e' k1 c1 u1 D' := by
  obtain ⟨posL, k', c', u', codeS, h1, h2, h3, h4, h5, h6⟩ := h
  exact ⟨posL, k', c', u', codeS, h1, h2, h3, by omega, h5, by omega⟩

/-- **what the abstract machine selects is what the ladder jumps to**, for a body that is a list of labelled statements -/
theorem chain_sel (g : Cfg) (P : ITy) (v : Int) (ctx : JCtx) (hsw : ctx.sw = true) (b : FStmt) :
    ∀ (k c u : Nat) (code : List FI) (k1 c1 u1 pos : Nat), isChain b = true →
      compileF g.tys g.off g.toff g.R ctx k c u b = some (code, k1, c1, u1) → At g.q pos (code.map (enc g.C)) →
      noConflictF b = true →
      (∀ suf, selectCase P v b = some suf →
        ∃ l, pickCase P v (collect u b) = some l ∧ Entry g ctx l suf (pos + code.length) k1 c1 u1 (depthF b)) ∧
      (selectCase P v b = none → pickCase P v (collect u b) = none) ∧
      (∀ suf, selectDefault b = some suf →
        ∃ l, lastDefault (collect u b) = some l ∧ Entry g ctx l suf (pos + code.length) k1 c1 u1 (depthF b)) ∧
      (selectDefault b = none → lastDefault (collect u b) = none) ∧
      (∀ lo hi l, (some (lo, hi), l) ∈ collect u b → (lo, hi) ∈ chainRanges b) := by
  induction b with
  | skip =>
    intro k c u code k1 c1 u1 pos _ _ _ _
    refine ⟨?_, fun _ => rfl, ?_, fun _ => rfl, fun lo hi l h => by simp [collect] at h⟩ <;> intro suf h <;>
      simp [selectCase, selectDefault] at h
  | seq it rest _ ihr =>
    intro k c u code k1 c1 u1 pos hch hc hat hnc
    simp only [isChain, Bool.and_eq_true] at hch
    simp only [compileF] at hc
    cases hci : compileF g.tys g.off g.toff g.R ctx k c u it with
    | none => simp [hci] at hc
    | some ri =>
      obtain ⟨ci, ka, ca, ua⟩ := ri
      simp only [hci, Option.map_eq_some_iff, Prod.mk.injEq] at hc
      obtain ⟨⟨cr, kr, c1r, u1r⟩, hcr, hcode, hk1, hc1, hu1⟩ := hc
      have hk1 : kr = k1 := hk1
      have hc1 : c1r = c1 := hc1
      have hu1 : u1r = u1 := hu1
      subst hk1 hc1 hu1 hcode
      have hua := compileF_u _ _ _ _ _ _ _ _ _ _ _ _ _ hci
      simp only [noConflictF, Bool.and_eq_true] at hnc
      have hat0 := hat
      rw [List.map_append, At_append, List.length_map] at hat
      obtain ⟨R1, R2, R3, R4, R5⟩ := ihr ka ca ua cr kr c1r u1r (pos + ci.length) hch.2 hcr hat.2 hnc.2
      have hend : pos + ci.length + cr.length = pos + (ci ++ cr).length := by rw [List.length_append]; omega
      have hdr : depthF rest ≤ depthF (.seq it rest) := by simp only [depthF]; omega
      -- the whole chain as the selected list: its code starts here
      have hself : ∀ l s0, ci = FI.lbl (.s (.uniq l)) :: s0 →
          Entry g ctx l (.seq it rest) (pos + (ci ++ cr).length) kr c1r u1r (depthF (.seq it rest)) := by
        intro l s0 hs0
        refine ⟨pos, k, c, u, ci ++ cr, ?_, by simp [compileF, hci, hcr], hat0, rfl, by simp [noConflictF, hnc.1, hnc.2], Nat.le_refl _⟩
        have := hat.1
        rw [hs0] at this
        exact this.1
      have hcol : ∀ it', noFreeCase it' = true → ua = u + nuniq it' → collect u (.seq it' rest) = collect ua rest := by
        intro it' h1 h2
        show collect u it' ++ collect (u + nuniq it') rest = _
        rw [collect_nofree it' u h1, ← h2]; rfl
      cases it with
      | case_ lo hi s =>
        simp only [isItem] at hch
        have hcs : collect u (.seq (.case_ lo hi s) rest) = (some (lo, hi), u) :: collect ua rest := by
          simp [collect, collect_nofree s _ hch.1, hua, nuniq]
        rw [hcs]
        simp only [compileF, hsw, if_true, Option.map_eq_some_iff, Prod.mk.injEq] at hci
        obtain ⟨⟨cs, ks, c1s, u1s⟩, _, hci', _, _, _⟩ := hci
        refine ⟨?_, ?_, ?_, ?_, ?_⟩
        · intro suf hs
          simp only [selectCase] at hs
          cases hsr : selectCase P v rest with
          | some suf' =>
            simp only [hsr, Option.orElse] at hs
            simp only [Option.some.injEq] at hs
            subst hs
            obtain ⟨l, hp, he⟩ := R1 suf' hsr
            exact ⟨l, by simp [pickCase, hp], he.mono hend hdr⟩
          | none =>
            simp only [hsr, Option.orElse] at hs
            by_cases hv : caseSel P lo hi v = true
            · simp only [hv, if_true, Option.some.injEq] at hs
              subst hs
              exact ⟨u, by simp [pickCase, R2 hsr, hv], hself u cs hci'.symm⟩
            · simp [hv] at hs
        · intro hs
          simp only [selectCase] at hs
          cases hsr : selectCase P v rest with
          | some suf' => simp [hsr, Option.orElse] at hs
          | none =>
            simp only [hsr, Option.orElse] at hs
            by_cases hv : caseSel P lo hi v = true
            · simp [hv] at hs
            · simp [pickCase, R2 hsr, hv]
        · intro suf hs
          simp only [selectDefault] at hs
          obtain ⟨l, hp, he⟩ := R3 suf hs
          exact ⟨l, by simp [lastDefault, hp], he.mono hend hdr⟩
        · intro hs
          simp only [selectDefault] at hs
          simp [lastDefault, R4 hs]
        · intro lo' hi' l' h'
          simp only [List.mem_cons, Prod.mk.injEq, Option.some.injEq] at h'
          rcases h' with ⟨⟨rfl, rfl⟩, _⟩ | h'
          · simp [chainRanges]
          · simp only [chainRanges, List.mem_cons]; exact Or.inr (R5 _ _ _ h')
      | default_ s =>
        simp only [isItem] at hch
        have hcs : collect u (.seq (.default_ s) rest) = (none, u) :: collect ua rest := by
          simp [collect, collect_nofree s _ hch.1, hua, nuniq]
        rw [hcs]
        simp only [compileF, hsw, if_true, Option.map_eq_some_iff, Prod.mk.injEq] at hci
        obtain ⟨⟨cs, ks, c1s, u1s⟩, _, hci', _, _, _⟩ := hci
        refine ⟨?_, ?_, ?_, ?_, ?_⟩
        rotate_left 4
        · intro lo' hi' l' h'
          simp only [List.mem_cons, Prod.mk.injEq, reduceCtorEq, false_and, false_or] at h'
          simp only [chainRanges]; exact R5 _ _ _ h'
        · intro suf hs
          simp only [selectCase] at hs
          obtain ⟨l, hp, he⟩ := R1 suf hs
          exact ⟨l, by simp [pickCase, hp], he.mono hend hdr⟩
        · intro hs
          simp only [selectCase] at hs
          simp [pickCase, R2 hs]
        · intro suf hs
          simp only [selectDefault] at hs
          cases hsr : selectDefault rest with
          | some suf' =>
            simp only [hsr, Option.orElse, Option.some.injEq] at hs
            subst hs
            obtain ⟨l, hp, he⟩ := R3 suf' hsr
            exact ⟨l, by simp [lastDefault, hp], he.mono hend hdr⟩
          | none =>
            simp only [hsr, Option.orElse, Option.some.injEq] at hs
            subst hs
            exact ⟨u, by simp [lastDefault, R4 hsr], hself u cs hci'.symm⟩
        · intro hs
          simp only [selectDefault] at hs
          cases hsr : selectDefault rest with
          | some suf' => simp [hsr, Option.orElse] at hs
          | none => simp [hsr, Option.orElse] at hs
      | _ =>
        simp only [isItem] at hch
        rw [hcol _ hch.1 hua]
        refine ⟨?_, ?_, ?_, ?_, ?_⟩
        rotate_left 4
        · intro lo' hi' l' h'
          simp only [chainRanges]; exact R5 _ _ _ h'
        · intro suf hs
          simp only [selectCase] at hs
          obtain ⟨l, hp, he⟩ := R1 suf hs
          exact ⟨l, hp, he.mono hend hdr⟩
        · intro hs
          simp only [selectCase] at hs
          exact R2 hs
        · intro suf hs
          simp only [selectDefault] at hs
          obtain ⟨l, hp, he⟩ := R3 suf hs
          exact ⟨l, hp, he.mono hend hdr⟩
        · intro hs
          simp only [selectDefault] at hs
          exact R4 hs
  | _ =>
    intro k c u code k1 c1 u1 pos hch
    simp [isChain] at hch

/-! ### `case`, `default`, `switch` -/

theorem sim_case (g : Cfg) (n : Nat) (lo hi : Int) (s : FStmt) (ih : SimS g n s) : SimS g (n + 1) (.case_ lo hi s) := by
  intro σ o σ' hx ctx k0 c0 u0 code k1 c1 u1 hc hK hnc hd pos brkPos contPos hat hctx m hm
  simp only [execF] at hx
  simp only [compileF] at hc
  split at hc
  · simp only [Option.map_eq_some_iff, Prod.mk.injEq] at hc
    obtain ⟨⟨cs, ks, c1s, u1s⟩, hcs, rfl, hk1, _, _⟩ := hc
    have hk1 : ks = k1 := hk1
    simp only [List.map_cons, enc] at hat
    rw [At_cons] at hat
    obtain ⟨m', r, hm', hr'⟩ := ih σ o σ' hx ctx k0 c0 (u0 + 1) cs ks c1s u1s hcs (by omega) (by simpa [noConflictF] using hnc)
      (by simpa [depthF] using hd) (pos + 1) brkPos contPos hat.2 hctx m hm
    refine ⟨m', (lbl_step hat.1 m).trans (reach_to r ?_), hm', hr'⟩
    cases o <;> simp only [tgt, List.length_cons] <;> omega
  · simp at hc

theorem sim_default (g : Cfg) (n : Nat) (s : FStmt) (ih : SimS g n s) : SimS g (n + 1) (.default_ s) := by
  intro σ o σ' hx ctx k0 c0 u0 code k1 c1 u1 hc hK hnc hd pos brkPos contPos hat hctx m hm
  simp only [execF] at hx
  simp only [compileF] at hc
  split at hc
  · simp only [Option.map_eq_some_iff, Prod.mk.injEq] at hc
    obtain ⟨⟨cs, ks, c1s, u1s⟩, hcs, rfl, hk1, _, _⟩ := hc
    have hk1 : ks = k1 := hk1
    simp only [List.map_cons, enc] at hat
    rw [At_cons] at hat
    obtain ⟨m', r, hm', hr'⟩ := ih σ o σ' hx ctx k0 c0 (u0 + 1) cs ks c1s u1s hcs (by omega) (by simpa [noConflictF] using hnc)
      (by simpa [depthF] using hd) (pos + 1) brkPos contPos hat.2 hctx m hm
    refine ⟨m', (lbl_step hat.1 m).trans (reach_to r ?_), hm', hr'⟩
    cases o <;> simp only [tgt, List.length_cons] <;> omega
  · simp at hc

theorem length_ladder (t : ITy) (ents : List (Option (Int × Int) × Nat)) (brk : Nat) :
    (ladder t ents brk).length = (rungs t ents).length + ((match lastDefault ents with | some _ => 1 | none => 0) + 1) := by
  unfold ladder
  cases lastDefault ents <;> simp

theorem sim_switch (g : Cfg) (ok : g.OK) (n : Nat) (e : E) (body : FStmt) (ih : Sim g n) : SimS g (n + 1) (.switch_ e body) := by
  intro σ o σ' hx ctx k0 c0 u0 code k1 c1 u1 hc hK hnc hd pos brkPos contPos hat hctx m hm
  simp only [compileF] at hc
  cases hce : compileJ g.tys g.off g.toff k0 c0 e with
  | none => simp [hce] at hc
  | some re =>
    obtain ⟨te, ce, ke, c1e⟩ := re
    simp only [hce, Option.map_eq_some_iff, Prod.mk.injEq] at hc
    obtain ⟨⟨cb, kb, c1b, u1b⟩, hcb, hcode, hk1, hc1, hu1⟩ := hc
    have hk1 : kb = k1 := hk1
    have hc1 : c1b = c1 := hc1
    have hu1 : u1b = u1 := hu1
    subst hk1 hc1 hu1 hcode
    have hkb := compileF_k _ _ _ _ _ _ _ _ _ _ _ _ _ hcb
    simp only [noConflictF, Bool.and_eq_true] at hnc
    simp only [depthF] at hd
    simp only [List.map_append, List.map_cons, List.map_nil, enc_emb, enc] at hat
    rw [At_append] at hat; obtain ⟨hat_e, hat⟩ := hat
    rw [At_append] at hat; obtain ⟨hat_l, hat⟩ := hat
    rw [At_append] at hat; obtain ⟨hat_b, hat⟩ := hat
    rw [At_cons] at hat; obtain ⟨hlbrk, _⟩ := hat
    simp only [List.length_map] at hat_b hlbrk
    -- the ladder: rungs, then `jmp default` / `jmp brk`
    have hat_l' := hat_l
    unfold ladder at hat_l'
    rw [List.map_append, At_append, List.length_map] at hat_l'
    obtain ⟨hat_r, hat_t⟩ := hat_l'
    have hlen : (embs ce ++ (ladder te (collect (u0 + 1) body) u0 ++ (cb ++ [FI.lbl (.s (.uniq u0))]))).length =
        ce.length + (ladder te (collect (u0 + 1) body) u0).length + cb.length + 1 := by
      simp only [List.length_append, length_embs, List.length_cons, List.length_nil]; omega
    rw [hlen]
    have hctx' : CtxOK g ⟨some u0, ctx.cont, true⟩ (pos + ce.length + (ladder te (collect (u0 + 1) body) u0).length + cb.length)
        contPos := by
      refine ⟨fun b h => ?_, hctx.2⟩
      simp only [Option.some.injEq] at h; subst h; exact hlbrk
    simp only [execF] at hx
    have hty : typeOf σ e = some te := (compileJ_facts _ _ _ _ _ _ _ _ _ _ hce).ty σ hm.1
    cases hv : evalE σ e with
    | none => simp [hty, hv] at hx
    | some r =>
      obtain ⟨v, σ1⟩ := r
      simp only [hty, hv] at hx
      by_cases hok : switchOK (promote te) body = true
      · simp only [hok, if_true] at hx
        simp only [switchOK, Bool.and_eq_true] at hok
        obtain ⟨m1, r1, hm1, hrep⟩ := hole g ok hce hv hnc.1 (by omega) (by omega) hat_e hm
        obtain ⟨S1, S2, S3, S4, S5⟩ := chain_sel g (promote te) v ⟨some u0, ctx.cont, true⟩ rfl body ke c1e (u0 + 1) cb kb c1b u1b _
          hok.1.1.1 hcb hat_b hnc.2
        have hne : ∀ lo hi l, (some (lo, hi), l) ∈ collect (u0 + 1) body → convert (promote te) lo ≤ convert (promote te) hi := by
          intro lo hi l hmem
          have := List.all_eq_true.1 hok.1.1.2 (lo, hi) (S5 lo hi l hmem)
          simpa using this
        -- running the selected statement list from its label
        have hrun : ∀ (suf : FStmt) (l : Nat),
            Entry g ⟨some u0, ctx.cont, true⟩ l suf
              (pos + ce.length + (ladder te (collect (u0 + 1) body) u0).length + cb.length) kb c1b u1b (depthF body) →
            (match execF g.R n suf σ1 with
              | .done .brk σ2 => FRes.done .normal σ2
              | r => r) = .done o σ' →
            ∀ m2, MInv g σ1 m2 → ∃ posL, g.q[posL]? = some (.lbl (encL g.C (.s (.uniq l)))) ∧ ∃ m', Reach g.q (posL, m2)
              (tgt g o (pos + (ce.length + (ladder te (collect (u0 + 1) body) u0).length + cb.length + 1)) brkPos contPos, m') ∧
              MInv g σ' m' ∧ RetOK g o m' := by
          intro suf l hE hx' m2 hm2
          obtain ⟨posL, k', c', u', codeS, hl, hcS, hatS, hendS, hncS, hdS⟩ := hE
          refine ⟨posL, hl, ?_⟩
          cases hb : execF g.R n suf σ1 with
          | timeout => simp [hb] at hx'
          | undef => simp [hb] at hx'
          | unsupported => simp [hb] at hx'
          | done ob σ2 =>
            obtain ⟨m3, r3, hm3, hr3⟩ := ih suf σ1 ob σ2 hb ⟨some u0, ctx.cont, true⟩ k' c' u' codeS kb c1b u1b hcS hK hncS
              (by omega) posL _ contPos hatS hctx' m2 hm2
            cases ob with
            | normal =>
              simp only [hb, FRes.done.injEq] at hx'
              obtain ⟨rfl, rfl⟩ := hx'
              simp only [tgt] at r3
              rw [hendS] at r3
              refine ⟨m3, reach_to (r3.trans (lbl_step hlbrk m3)) ?_, hm3, retOK_of_ne (fun v => by simp)⟩
              simp only [tgt]; omega
            | brk =>
              simp only [hb, FRes.done.injEq] at hx'
              obtain ⟨rfl, rfl⟩ := hx'
              simp only [tgt] at r3
              refine ⟨m3, reach_to (r3.trans (lbl_step hlbrk m3)) ?_, hm3, retOK_of_ne (fun v => by simp)⟩
              simp only [tgt]; omega
            | cont =>
              simp only [hb, FRes.done.injEq] at hx'
              obtain ⟨rfl, rfl⟩ := hx'
              exact ⟨m3, r3, hm3, hr3⟩
            | ret w =>
              simp only [hb, FRes.done.injEq] at hx'
              obtain ⟨rfl, rfl⟩ := hx'
              exact ⟨m3, r3, hm3, hr3⟩
        cases hs : selectCase (promote te) v body with
        | some suf =>
          simp only [hs] at hx
          obtain ⟨l, hp, hE⟩ := S1 suf hs
          have hm2' : ∀ m2, Same m1 m2 → MInv g σ1 m2 := fun m2 sm => hm1.same sm
          -- where the label is
          obtain ⟨posL, hl, _⟩ := hrun suf l hE hx m1 hm1
          obtain ⟨m2, sm2, _, r2⟩ := rungs_run g ok te v posL (collect (u0 + 1) body) (pos + ce.length) m1 hat_r
            (fun l0 h0 => by rw [hp] at h0; simp only [Option.some.injEq] at h0; subst h0; exact hl) hne hrep
          simp only [hp, Option.isSome_some, if_true] at r2
          obtain ⟨posL', hl', m', r3, hm', hr'⟩ := hrun suf l hE hx m2 (hm1.same sm2)
          have hpos : posL' = posL := by
            have a := findLbl_at ok.nodup hl
            have b := findLbl_at ok.nodup hl'
            rw [a] at b
            exact (Option.some.inj b).symm
          subst hpos
          exact ⟨m', r1.trans (r2.trans r3), hm', hr'⟩
        | none =>
          simp only [hs] at hx
          have hp := S2 hs
          obtain ⟨m2, sm2, _, r2⟩ := rungs_run g ok te v 0 (collect (u0 + 1) body) (pos + ce.length) m1 hat_r
            (fun l0 h0 => by rw [hp] at h0; cases h0) hne hrep
          simp only [hp, Option.isSome_none, Bool.false_eq_true, if_false] at r2
          have hm2 := hm1.same sm2
          cases hds : selectDefault body with
          | some suf =>
            simp only [hds] at hx
            obtain ⟨d, hld, hE⟩ := S3 suf hds
            obtain ⟨posL, hl, m', r3, hm', hr'⟩ := hrun suf d hE hx m2 hm2
            simp only [hld, List.map_append, List.map_cons, List.map_nil, enc] at hat_t
            have hj : g.q[pos + ce.length + (rungs te (collect (u0 + 1) body)).length]? =
                some (JI.jmp (encL g.C (.s (.uniq d)))) := hat_t.1
            exact ⟨m', r1.trans (r2.trans ((jmp_to ok.nodup hj hl m2).trans r3)), hm', hr'⟩
          | none =>
            simp only [hds, FRes.done.injEq] at hx
            obtain ⟨rfl, rfl⟩ := hx
            have hld := S4 hds
            simp only [hld, List.map_append, List.map_cons, List.map_nil, enc, List.nil_append] at hat_t
            have hj : g.q[pos + ce.length + (rungs te (collect (u0 + 1) body)).length]? =
                some (JI.jmp (encL g.C (.s (.uniq u0)))) := hat_t.1
            refine ⟨m2, reach_to (r1.trans (r2.trans ((jmp_to ok.nodup hj hlbrk m2).trans (lbl_step hlbrk m2)))) ?_, hm2,
              retOK_of_ne (fun v => by simp)⟩
            simp only [tgt]; omega
      · simp [hok] at hx

theorem sim_le (g : Cfg) (ok : g.OK) : ∀ n k, k ≤ n → Sim g k := by
  intro n
  induction n with
  | zero =>
    intro k hk s σ o σ' hx
    have : k = 0 := by omega
    subst this
    simp [execF] at hx
  | succ n ih =>
    intro k hk
    by_cases hk' : k ≤ n
    · exact ih k hk'
    · have : k = n + 1 := by omega
      subst this
      intro s
      cases s with
      | skip => exact sim_skip g n
      | expr e => exact sim_expr g ok n e
      | seq a b => exact sim_seq g n a b (ih n (Nat.le_refl _) a) (ih n (Nat.le_refl _) b)
      | ifte e t f => exact sim_ifte g ok n e t f (ih n (Nat.le_refl _) t) (ih n (Nat.le_refl _) f)
      | for_ init e inc body => exact sim_for g ok n init e inc body (fun k hk => ih k hk body)
      | doWhile body e => exact sim_doWhile g ok n body e (ih n (Nat.le_refl _) body) (ih n (Nat.le_refl _) _)
      | switch_ e body => exact sim_switch g ok n e body (ih n (Nat.le_refl _))
      | case_ lo hi s => exact sim_case g n lo hi s (ih n (Nat.le_refl _) s)
      | default_ s => exact sim_default g n s (ih n (Nat.le_refl _) s)
      | brk => exact sim_brk g ok n
      | cont => exact sim_cont g ok n
      | ret e => exact sim_ret g ok n e

/-- **the simulation**, for every fuel and every statement of the fragment -/
theorem sim (g : Cfg) (ok : g.OK) (n : Nat) : Sim g n := sim_le g ok n n (Nat.le_refl _)


end ChibiVerif.C03Fun
