/-
C09 — termination of `preprocess2` for every macro table: the measure.

The pending token list is cut (a ghost of the proof, nothing of it exists in the C code) into consecutive *levels*
`seg_d ++ … ++ seg_1 ++ seg_0`, innermost first.  Level `i` carries a set of names `H_i` such that every token of
`seg_i` that can matter (an identifier, or a token spelled `)`) has all of `H_i` in its hide set, with
`H_0 ⊆ H_1 ⊆ … ⊆ H_d` and strictly decreasing *budgets* (number of macro names outside `H_i`).

* An object-like expansion of the head token `m` (level `d`) opens level `d+1` with `H_d ∪ {m}`.
* A function-like expansion of the head token `f` whose `)` lies in level `e ≤ d` wipes levels `e+1 … d`, takes at
  least the `)` out of level `e`, and opens a new level `e+1` with `H_e ∪ {f}`: the hide set of the expansion is
  `(hide f ∩ hide ')') ∪ {f}`, `hide f ⊇ H_d ⊇ H_e` and `hide ')' ⊇ H_e` — **this is where the intersection rule
  of `expand_macro` is harmless**: it can lose names, but never a name of the level the `)` comes from.
* `f ∉ hide f ⊇ H_e`, so the budget of the new level is strictly smaller.

The lexicographic order on the vector of level lengths (outermost first) therefore decreases with every step of the
loop, and the argument of a nested `preprocess2` (pre-expansion of an argument) inherits a componentwise smaller
vector.  `fuelE` turns that order into a natural number: `fuelE L j m x` bounds the work of a level of budget `j`
with `m` tokens when the levels inside it have potential `x` and every replacement list has at most `L` tokens.
-/
import ChibiVerif.Model.PP
import ChibiVerif.Lemmas.PPLemmas
import ChibiVerif.Lemmas.PPTerm

namespace ChibiVerif.PP

/-! ## the bound function -/

/-- one level on top of `prev` (the bound function of the next smaller budget): consuming one of `m + 1` tokens may
    open a new inner level of at most `L * (1 + potential of what is left)` tokens -/
def levelStep (L : Nat) (prev : Nat → Nat → Nat) : Nat → Nat → Nat
  | 0, x => x
  | m + 1, x => 1 + levelStep L prev m (prev (L * (1 + levelStep L prev m x)) 0)

/-- `fuelE L j m x`: potential of a level with budget `j` (macro names not yet in its hide set) and `m` tokens whose
    inner levels have potential `x`.  Budget 0: nothing can expand, every token costs one step. -/
def fuelE (L : Nat) : Nat → Nat → Nat → Nat
  | 0 => fun m x => m + x
  | j + 1 => levelStep L (fuelE L j)

section levelStep
variable {L : Nat} {prev : Nat → Nat → Nat}

theorem levelStep_ge (hL : 1 ≤ L) (hge : ∀ a, a ≤ prev a 0) : ∀ m x, m + x ≤ levelStep L prev m x := by
  intro m
  induction m with
  | zero => intro x; simp [levelStep]
  | succ m ih =>
    intro x
    simp only [levelStep]
    have h1 := ih x
    have h2 := hge (L * (1 + levelStep L prev m x))
    have h3 : 1 + levelStep L prev m x ≤ L * (1 + levelStep L prev m x) := Nat.le_mul_of_pos_left _ hL
    have h4 := ih (prev (L * (1 + levelStep L prev m x)) 0)
    omega

theorem levelStep_inner_ge (hL : 1 ≤ L) (hge : ∀ a, a ≤ prev a 0) (m x : Nat) :
    x ≤ prev (L * (1 + levelStep L prev m x)) 0 := by
  have h1 := levelStep_ge hL hge m x
  have h2 := hge (L * (1 + levelStep L prev m x))
  have h3 : 1 + levelStep L prev m x ≤ L * (1 + levelStep L prev m x) := Nat.le_mul_of_pos_left _ hL
  omega

theorem levelStep_lt_x (hL : 1 ≤ L) (hs : ∀ a b, a < b → prev a 0 < prev b 0) :
    ∀ m x y, x < y → levelStep L prev m x < levelStep L prev m y := by
  intro m
  induction m with
  | zero => intro x y h; simpa [levelStep] using h
  | succ m ih =>
    intro x y h
    simp only [levelStep]
    have h1 := ih x y h
    have h2 : L * (1 + levelStep L prev m x) < L * (1 + levelStep L prev m y) :=
      Nat.mul_lt_mul_of_pos_left (by omega) hL
    have h3 := ih _ _ (hs _ _ h2)
    omega

theorem levelStep_le_x (hL : 1 ≤ L) (hs : ∀ a b, a < b → prev a 0 < prev b 0) (m : Nat) {x y : Nat} (h : x ≤ y) :
    levelStep L prev m x ≤ levelStep L prev m y := by
  rcases Nat.lt_or_eq_of_le h with h | h
  · exact Nat.le_of_lt (levelStep_lt_x hL hs m x y h)
  · subst h; exact Nat.le_refl _

theorem levelStep_lt_m (hL : 1 ≤ L) (hge : ∀ a, a ≤ prev a 0) (hs : ∀ a b, a < b → prev a 0 < prev b 0) (m x : Nat) :
    levelStep L prev m x < levelStep L prev (m + 1) x := by
  simp only [levelStep]
  have := levelStep_le_x hL hs m (levelStep_inner_ge hL hge m x)
  omega

end levelStep

/-- the three facts about `fuelE L j` every later argument uses -/
structure EGood (L j : Nat) : Prop where
  ge : ∀ m x, m + x ≤ fuelE L j m x
  lt_x : ∀ m x y, x < y → fuelE L j m x < fuelE L j m y
  lt_m : ∀ m x, fuelE L j m x < fuelE L j (m + 1) x

theorem EGood.lt_m0 {L j : Nat} (h : EGood L j) : ∀ a b, a < b → fuelE L j a 0 < fuelE L j b 0 := by
  intro a b hab
  induction hab with
  | refl => exact h.lt_m a 0
  | step _ ih => exact Nat.lt_trans ih (h.lt_m _ 0)

theorem fuelE_good {L : Nat} (hL : 1 ≤ L) : ∀ j, EGood L j := by
  intro j
  induction j with
  | zero => exact ⟨fun m x => by simp [fuelE], fun m x y h => by simp only [fuelE]; omega, fun m x => by simp only [fuelE]; omega⟩
  | succ j ih =>
    have hge : ∀ a, a ≤ fuelE L j a 0 := fun a => by simpa using ih.ge a 0
    exact ⟨fun m x => levelStep_ge hL hge m x, fun m x y h => levelStep_lt_x hL ih.lt_m0 m x y h,
           fun m x => levelStep_lt_m hL hge ih.lt_m0 m x⟩

theorem fuelE_le_x {L : Nat} (hL : 1 ≤ L) (j m : Nat) {x y : Nat} (h : x ≤ y) : fuelE L j m x ≤ fuelE L j m y := by
  rcases Nat.lt_or_eq_of_le h with h | h
  · exact Nat.le_of_lt ((fuelE_good hL j).lt_x m x y h)
  · subst h; exact Nat.le_refl _

theorem fuelE_le_m {L : Nat} (hL : 1 ≤ L) (j : Nat) {m m' : Nat} (x : Nat) (h : m ≤ m') : fuelE L j m x ≤ fuelE L j m' x := by
  induction h with
  | refl => exact Nat.le_refl _
  | step _ ih => exact Nat.le_trans ih (Nat.le_of_lt ((fuelE_good hL j).lt_m _ x))

theorem fuelE_le {L : Nat} (hL : 1 ≤ L) (j : Nat) {m m' x y : Nat} (hm : m ≤ m') (hx : x ≤ y) :
    fuelE L j m x ≤ fuelE L j m' y :=
  Nat.le_trans (fuelE_le_m hL j x hm) (fuelE_le_x hL j m' hx)

theorem fuelE_succ (L j m x : Nat) :
    fuelE L (j + 1) (m + 1) x = 1 + fuelE L (j + 1) m (fuelE L j (L * (1 + fuelE L (j + 1) m x)) 0) := rfl

/-! ## levels -/

/-- a ghost level: an upper bound of the budget, the names every relevant token of the segment hides, the segment -/
structure Level where
  j : Nat
  H : Hideset
  seg : List Tok

abbrev LKey := Nat × Hideset
def Level.key (l : Level) : LKey := (l.j, l.H)

/-- inner level before outer level: strictly smaller budget bound, larger name set -/
def chainR (a b : LKey) : Prop := a.1 < b.1 ∧ ∀ x ∈ b.2, x ∈ a.2

/-- the token list of a level structure (innermost level first) -/
def flat : List Level → List Tok
  | [] => []
  | l :: outer => l.seg ++ flat outer

/-- the potential of a level structure: `x` is the potential of what lies inside the innermost level -/
def pot (L : Nat) : Nat → List Level → Nat
  | x, [] => x
  | x, l :: outer => pot L (fuelE L l.j l.seg.length x) outer

/-- the token does not matter for hide-set bookkeeping (it can neither be a macro name nor the `)` of an invocation),
    or it hides all of `H` -/
def Respects (H : Hideset) (t : Tok) : Prop :=
  (t.kind ≠ .ident ∧ t.text ≠ ")") ∨ ∀ x ∈ H, hidesetContains t.hide x = true

/-- macro names not in `H` -/
def budget (names : List String) (H : Hideset) : Nat := (names.filter fun n => !hidesetContains H n).length

def LevelOK (names : List String) (l : Level) : Prop := budget names l.H ≤ l.j ∧ ∀ t ∈ l.seg, Respects l.H t

def WF (names : List String) (lv : List Level) : Prop :=
  (∀ l ∈ lv, LevelOK names l) ∧ (lv.map Level.key).Pairwise chainR

theorem flat_append (a b : List Level) : flat (a ++ b) = flat a ++ flat b := by
  induction a with
  | nil => rfl
  | cons l a ih => simp [flat, ih]

theorem pot_append (L x : Nat) (a b : List Level) : pot L x (a ++ b) = pot L (pot L x a) b := by
  induction a generalizing x with
  | nil => rfl
  | cons l a ih => simp [pot, ih]

theorem pot_le {L : Nat} (hL : 1 ≤ L) : ∀ (lv : List Level) {x y : Nat}, x ≤ y → pot L x lv ≤ pot L y lv := by
  intro lv
  induction lv with
  | nil => intro x y h; exact h
  | cons l outer ih => intro x y h; exact ih (fuelE_le_x hL _ _ h)

theorem pot_lt {L : Nat} (hL : 1 ≤ L) : ∀ (lv : List Level) {x y : Nat}, x < y → pot L x lv < pot L y lv := by
  intro lv
  induction lv with
  | nil => intro x y h; exact h
  | cons l outer ih => intro x y h; exact ih ((fuelE_good hL _).lt_x _ _ _ h)

theorem pot_ge {L : Nat} (hL : 1 ≤ L) : ∀ (lv : List Level) (x : Nat), x + (flat lv).length ≤ pot L x lv := by
  intro lv
  induction lv with
  | nil => intro x; simp [flat, pot]
  | cons l outer ih =>
    intro x
    have h1 := ih (fuelE L l.j l.seg.length x)
    have h2 := (fuelE_good hL l.j).ge l.seg.length x
    simp only [flat, pot, List.length_append]
    omega

theorem respects_mono {H H' : Hideset} {t : Tok} (hsub : ∀ x ∈ H', x ∈ H) (h : Respects H t) : Respects H' t := by
  rcases h with h | h
  · exact Or.inl h
  · exact Or.inr fun x hx => h x (hsub x hx)

theorem mem_flat {lv : List Level} {t : Tok} (h : t ∈ flat lv) : ∃ l ∈ lv, t ∈ l.seg := by
  induction lv with
  | nil => simp [flat] at h
  | cons l outer ih =>
    simp only [flat, List.mem_append] at h
    rcases h with h | h
    · exact ⟨l, by simp, h⟩
    · obtain ⟨l', hl', ht⟩ := ih h
      exact ⟨l', by simp [hl'], ht⟩

theorem budget_lt {names : List String} {H : Hideset} {f : String} (hf : f ∈ names) (hn : hidesetContains H f = false) :
    budget names (H ++ [f]) < budget names H := by
  unfold budget
  apply length_filter_lt _ _ names f hf
  · intro y hy
    have hu := hidesetContains_union H [f] y
    unfold hidesetUnion at hu
    simp only [Bool.not_eq_true', hu, Bool.or_eq_false_iff] at hy ⊢
    exact hy.1
  · simp [hn]
  · have hu := hidesetContains_union H [f] f
    unfold hidesetUnion at hu
    simp [hidesetContains]

/-! ## sub-structures: a sublist of the tokens has a level structure with no larger potential -/

theorem sub_struct {names : List String} {L : Nat} (hL : 1 ≤ L) : ∀ (lv : List Level) (ts' : List Tok),
    WF names lv → ts'.Sublist (flat lv) →
    ∃ lv', WF names lv' ∧ flat lv' = ts' ∧ lv'.map Level.key = lv.map Level.key ∧
      ∀ x y, x ≤ y → pot L x lv' ≤ pot L y lv := by
  intro lv
  induction lv with
  | nil =>
    intro ts' hwf hsub
    simp only [flat, List.sublist_nil] at hsub
    subst hsub
    exact ⟨[], hwf, rfl, rfl, fun x y h => h⟩
  | cons l outer ih =>
    intro ts' hwf hsub
    simp only [flat] at hsub
    obtain ⟨l₁, l₂, rfl, h1, h2⟩ := List.sublist_append_iff.1 hsub
    have hwfo : WF names outer := by
      refine ⟨fun o ho => hwf.1 o (by simp [ho]), ?_⟩
      have := hwf.2
      simp only [List.map_cons, List.pairwise_cons] at this
      exact this.2
    obtain ⟨outer', hwf', hflat', hkeys', hpot'⟩ := ih l₂ hwfo h2
    refine ⟨{ l with seg := l₁ } :: outer', ⟨?_, ?_⟩, by simp [flat, hflat'], by simp [Level.key, hkeys'], ?_⟩
    · intro o ho
      simp only [List.mem_cons] at ho
      rcases ho with rfl | ho
      · have := hwf.1 l (by simp)
        exact ⟨this.1, fun t ht => this.2 t (h1.subset ht)⟩
      · exact hwf'.1 o ho
    · have := hwf.2
      simp only [List.map_cons] at this ⊢
      rw [hkeys']
      exact this
    · intro x y hxy
      simp only [pot]
      exact hpot' _ _ (fuelE_le hL _ h1.length_le hxy)

/-! ## cutting the structure at a token -/

theorem split_at : ∀ (lv : List Level) (A : List Tok) (r : Tok) (B : List Tok), flat lv = A ++ r :: B →
    ∃ inner l pre post outer, lv = inner ++ l :: outer ∧ l.seg = pre ++ r :: post ∧
      A = flat inner ++ pre ∧ B = post ++ flat outer := by
  intro lv
  induction lv with
  | nil => intro A r B h; simp [flat] at h
  | cons l0 rest ih =>
    intro A r B h
    simp only [flat] at h
    rcases List.append_eq_append_iff.1 h with ⟨a', ha, hb⟩ | ⟨c', hc, hd⟩
    · -- A = l0.seg ++ a'
      obtain ⟨inner, l, pre, post, outer, h1, h2, h3, h4⟩ := ih a' r B hb
      exact ⟨l0 :: inner, l, pre, post, outer, by simp [h1], h2, by simp [flat, ha, h3], h4⟩
    · cases c' with
      | nil =>
        simp only [List.append_nil, List.nil_append] at hc hd
        obtain ⟨inner, l, pre, post, outer, h1, h2, h3, h4⟩ := ih [] r B hd.symm
        exact ⟨l0 :: inner, l, pre, post, outer, by simp [h1], h2, by simp [flat, hc, ← h3], h4⟩
      | cons c cs =>
        simp only [List.cons_append, List.cons.injEq] at hd
        obtain ⟨rfl, rfl⟩ := hd
        exact ⟨[], l0, A, cs, rest, rfl, hc, by simp [flat], rfl⟩

/-- **the step lemma**: what happens to the level structure when the tokens `A ++ [r]` at the front of the pending
    list are consumed.  `Z` bounds the potential of (a structure for) any sublist of `A` — in particular of every
    macro argument; dropping `A ++ [r]` lowers the potential; so does replacing `A ++ [r]` by at most `L * (1 + Z)`
    tokens that hide `H ∪ {f}` for a macro name `f` outside `H`, where `H` is the name set of the level of `r`. -/
theorem replace_core {names : List String} {L : Nat} (hL : 1 ≤ L) {lv : List Level} {A : List Tok} {r : Tok} {B : List Tok}
    (hwf : WF names lv) (hflat : flat lv = A ++ r :: B) :
    ∃ Z H, Respects H r ∧ (∀ t ∈ A, Respects H t) ∧ Z < pot L 0 lv ∧
      (∀ ts', ts'.Sublist A → ∃ lv', WF names lv' ∧ flat lv' = ts' ∧ pot L 0 lv' ≤ Z) ∧
      (∃ lv', WF names lv' ∧ flat lv' = B ∧ pot L 0 lv' < pot L 0 lv) ∧
      (∀ (new : List Tok) (f : String), f ∈ names → hidesetContains H f = false →
        (∀ t ∈ new, Respects (H ++ [f]) t) → new.length ≤ L * (1 + Z) →
        ∃ lv', WF names lv' ∧ flat lv' = new ++ B ∧ pot L 0 lv' < pot L 0 lv) := by
  obtain ⟨inner, l, pre, post, outer, rfl, hseg, rfl, rfl⟩ := split_at lv A r B hflat
  have hkeys := hwf.2
  simp only [List.map_append, List.map_cons, List.pairwise_append, List.pairwise_cons] at hkeys
  obtain ⟨hk_inner, ⟨hk_l_outer, hk_outer⟩, hk_cross⟩ := hkeys
  have hl_ok := hwf.1 l (by simp)
  have hwf_outer : WF names outer := ⟨fun o ho => hwf.1 o (by simp [ho]), hk_outer⟩
  have hwf_inner : WF names inner := ⟨fun o ho => hwf.1 o (by simp [ho]), hk_inner⟩
  have hpot : pot L 0 (inner ++ l :: outer) = pot L (fuelE L l.j (pre.length + post.length + 1) (pot L 0 inner)) outer := by
    have hlen : (pre ++ r :: post).length = pre.length + post.length + 1 := by
      simp only [List.length_append, List.length_cons]; omega
    rw [pot_append]; simp only [pot, hseg, hlen]
  have hG := fuelE_good hL l.j
  refine ⟨fuelE L l.j (pre.length + post.length) (pot L 0 inner), l.H, ?_, ?_, ?_, ?_, ?_, ?_⟩
  · exact hl_ok.2 r (by rw [hseg]; simp)
  · intro t ht
    simp only [List.mem_append] at ht
    rcases ht with ht | ht
    · obtain ⟨i, hi, hti⟩ := mem_flat ht
      have hi_ok := hwf.1 i (by simp [hi])
      have hc := hk_cross i.key (List.mem_map.2 ⟨i, hi, rfl⟩) l.key (by simp)
      exact respects_mono hc.2 (hi_ok.2 t hti)
    · exact hl_ok.2 t (by rw [hseg]; simp [ht])
  · rw [hpot]
    have h1 := hG.lt_m (pre.length + post.length) (pot L 0 inner)
    have h2 := pot_ge hL outer (fuelE L l.j (pre.length + post.length + 1) (pot L 0 inner))
    omega
  · intro ts' hsub
    have hwf_pre : WF names (inner ++ [{ l with seg := pre }]) := by
      refine ⟨?_, ?_⟩
      · intro o ho
        simp only [List.mem_append, List.mem_singleton] at ho
        rcases ho with ho | rfl
        · exact hwf.1 o (by simp [ho])
        · exact ⟨hl_ok.1, fun t ht => hl_ok.2 t (by rw [hseg]; simp [ht])⟩
      · simp only [List.map_append, List.map_cons, List.map_nil, List.pairwise_append, List.pairwise_cons]
        refine ⟨hk_inner, ⟨by simp, List.Pairwise.nil⟩, ?_⟩
        intro a ha b hb
        simp only [List.mem_singleton] at hb
        subst hb
        exact hk_cross a ha l.key (by simp)
    have hfl : flat (inner ++ [{ l with seg := pre }]) = flat inner ++ pre := by simp [flat_append, flat]
    obtain ⟨lv', hwf', hflat', _, hpot'⟩ := sub_struct (L := L) hL _ ts' hwf_pre (by rw [hfl]; exact hsub)
    refine ⟨lv', hwf', hflat', ?_⟩
    have := hpot' 0 0 (Nat.le_refl _)
    rw [pot_append] at this
    simp only [pot] at this
    exact Nat.le_trans this (fuelE_le_m hL _ _ (by omega))
  · refine ⟨{ l with seg := post } :: outer, ⟨?_, ?_⟩, by simp [flat], ?_⟩
    · intro o ho
      simp only [List.mem_cons] at ho
      rcases ho with rfl | ho
      · exact ⟨hl_ok.1, fun t ht => hl_ok.2 t (by rw [hseg]; simp [ht])⟩
      · exact hwf.1 o (by simp [ho])
    · simp only [List.map_cons, List.pairwise_cons]
      exact ⟨hk_l_outer, hk_outer⟩
    · rw [hpot]
      simp only [pot]
      apply pot_lt hL
      have h1 : fuelE L l.j post.length 0 ≤ fuelE L l.j (pre.length + post.length) (pot L 0 inner) :=
        fuelE_le hL _ (by omega) (Nat.zero_le _)
      have h2 := hG.lt_m (pre.length + post.length) (pot L 0 inner)
      omega
  · intro new f hf hnf hnew hlen
    have hb := budget_lt (names := names) hf hnf
    obtain ⟨j', hj'⟩ : ∃ j', l.j = j' + 1 := ⟨l.j - 1, by have := hl_ok.1; omega⟩
    refine ⟨{ j := j', H := l.H ++ [f], seg := new } :: { l with seg := post } :: outer, ⟨?_, ?_⟩, by simp [flat], ?_⟩
    · intro o ho
      simp only [List.mem_cons] at ho
      rcases ho with rfl | rfl | ho
      · exact ⟨by have := hl_ok.1; simp only; omega, hnew⟩
      · exact ⟨hl_ok.1, fun t ht => hl_ok.2 t (by rw [hseg]; simp [ht])⟩
      · exact hwf.1 o (by simp [ho])
    · simp only [List.map_cons, List.pairwise_cons]
      refine ⟨?_, hk_l_outer, hk_outer⟩
      intro k hk
      simp only [List.mem_cons] at hk
      rcases hk with rfl | hk
      · exact ⟨by show j' < l.j; omega, fun x hx => by
          have hx' : x ∈ l.H := hx
          show x ∈ l.H ++ [f]; simp [hx']⟩
      · have hlk := hk_l_outer k hk
        have h1 : l.j < k.1 := hlk.1
        have h2 : ∀ x ∈ k.2, x ∈ l.H := hlk.2
        exact ⟨by show j' < k.1; omega, fun x hx => by show x ∈ l.H ++ [f]; simp [h2 x hx]⟩
    · rw [hpot]
      simp only [pot]
      apply pot_lt hL
      rw [hj', fuelE_succ]
      have hG' := fuelE_good hL j'
      have h1 : fuelE L j' new.length 0 ≤
          fuelE L j' (L * (1 + fuelE L (j' + 1) (pre.length + post.length) (pot L 0 inner))) 0 := by
        apply fuelE_le_m hL
        rw [hj'] at hlen
        exact hlen
      have h2 : fuelE L (j' + 1) post.length (fuelE L j' new.length 0) ≤
          fuelE L (j' + 1) (pre.length + post.length)
            (fuelE L j' (L * (1 + fuelE L (j' + 1) (pre.length + post.length) (pot L 0 inner))) 0) :=
        fuelE_le hL _ (by omega) h1
      omega

end ChibiVerif.PP
