/-
C05, parser = specification: whole-element initializers (braces, a string literal, one expression) as functions of the node they
initialise; GNU range designators `[a ... b]` whose initializer is of that kind (the parser parses the same tokens once per
element, the specification stores one initializer in every element); `array_initializer1`.
-/
import ChibiVerif.Lemmas.InitSimStruct

namespace ChibiVerif.InitSpec
open ChibiVerif.Init

theorem growable_false' {root : Ty} {top : Bool} {obj : Init} {p : List Nat} {t : Ty} {c : Init} (h : At root top obj p t c) :
    growable root top p = false := h.ng

/-- what a brace-enclosed list for a subobject of type `t` whose node is `c` must deliver: the parser's node `c'` and rest -/
def BraceSim (t : Ty) (c : Init) (inner : List ITok) (c' : Init) (rest : List ITok) : Prop :=
  ∀ top g fl res, initList g t top c (firstCursor t) inner true fl = .ok res → res.fl.clean = true →
    defaultMember t (unflex res.obj) = c' ∧ res.rest = rest ∧ res.fl = fl

/-- `{ … }` for the subobject at `p` (p19: the whole subobject; the parser re-uses the node, which is zero if untouched) -/
theorem init2_brace {root : Ty} {top : Bool} {obj : Init} {p : List Nat} {t : Ty} {c : Init} {inner : List ITok} {c' : Init}
    {rest : List ITok} (hA : At root top obj p t c) (hbl : bracedLit t inner = none)
    (hb : hasExpr c = false → BraceSim t c inner c' rest) :
    ∀ g fl, ∃ g', Imp (initItem g root top obj [p] (.lbrace :: inner) fl) (After root top obj p c' rest fl g') := by
  intro g fl
  refine ⟨g, fun res hres hcl => ?_⟩
  rw [initItem_brace _ _ _ _ _ _ _ hA.sub hA.ng hbl] at hres
  obtain ⟨sub, hsub, hres⟩ := bind_eq_ok hres
  obtain ⟨obj', hmod, hfin⟩ := bind_eq_ok hres
  have hfl := initList_clean _ _ _ _ _ _ _ _ _ hfin hcl
  obtain ⟨hfl1, hsubcl⟩ := Flags.clean_join hfl
  obtain ⟨_, hfl2⟩ := Flags.clean_join hfl1
  obtain ⟨htch, hxa, _⟩ := Flags.clean_mk hfl2
  obtain ⟨hne, hsw⟩ := touched_false p obj c hA.get htch
  have hz := zero_of_shaped t c hA.ok hA.shapedc hne
  have hzero : braceStart t = c := by rw [hz]; rfl
  rw [hzero] at hsub
  obtain ⟨h1, h2, h3⟩ := hb hne false g Flags.none sub hsub hsubcl
  rw [h1, hA.modifyAt_eq _ hsw] at hmod
  simp only [pure_bind'] at hmod
  cases hmod
  rw [h2, h3, htch, hxa, Flags.join_false, Flags.join_none] at hfin
  exact hfin

/-- an initializer without braces that initialises the subobject at `p` as a whole (p11, p13, p14) -/
theorem init2_stop {root : Ty} {top : Bool} {obj : Init} {p : List Nat} {t : Ty} {c : Init} {tok : ITok} {r : List ITok} {c' : Init}
    (hA : At root top obj p t c) (hb : tok ≠ .lbrace) (hs : stopsAt t tok = true)
    (hst : (isStrTok tok = true → (∀ sz k, t ≠ .scalar sz k) → hasExpr c = false) → storeTok root top tok p t c = .ok c') :
    ∀ g fl, ∃ g', Imp (initItem g root top obj [p] (tok :: r) fl) (After root top obj p c' r fl g') := by
  intro g fl
  refine ⟨g, fun res hres hcl => ?_⟩
  rw [initItem_stop hb hA.sub hs] at hres
  obtain ⟨obj', hmod, hfin⟩ := bind_eq_ok hres
  have hfl := initList_clean _ _ _ _ _ _ _ _ _ hfin hcl
  obtain ⟨_, hfl2⟩ := Flags.clean_join hfl
  obtain ⟨hov, hxa, _⟩ := Flags.clean_mk hfl2
  simp only [tokFlags, Bool.or_eq_false_iff] at hov hfl2
  obtain ⟨hstr, hsw⟩ := hov
  have hstore := hst (fun his hns => by
    have : touched obj p = false := by
      rw [his, hA.sub] at hstr
      cases t with
      | scalar sz k => exact absurd rfl (hns sz k)
      | array => simpa using hstr
      | inc => simpa using hstr
      | struct => simpa using hstr
      | union => simpa using hstr
    exact (touched_false p obj c hA.get this).1)
  rw [hA.modifyAt_eq _ hsw, hstore] at hmod
  simp only [ok_bind] at hmod
  cases hmod
  have : tokFlags root obj tok p = ⟨false, false, false, false⟩ := by
    simp only [tokFlags, hstr, hsw, hxa, Bool.or_self]
  rw [this, Flags.join_false] at hfin
  exact hfin


theorem unflex_arr (cs : List Init) : unflex (.arr cs) = .arr cs := rfl
theorem unflex_struct (e : Option Expr) (cs : List Init) : unflex (.struct e cs) = .struct e cs := rfl
theorem unflex_union (e : Option Expr) (m : Option Nat) (cs : List Init) : unflex (.union e m cs) = .union e m cs := rfl
theorem unflex_leaf (e : Option Expr) : unflex (.leaf e) = .leaf e := rfl

theorem unflex_shaped {t : Ty} {c : Init} (h : shaped t c = true) : unflex c = c := by
  cases c <;> first | rfl | (cases t <;> simp [shaped] at h)

theorem defaultMember_non_union {t : Ty} (c : Init) (h : ∀ ms sz fl0, t ≠ .union ms sz fl0) : defaultMember t c = c := by
  cases t with
  | union ms sz fl0 => exact absurd rfl (h ms sz fl0)
  | scalar => rfl
  | array => rfl
  | inc => rfl
  | struct => rfl

theorem desigPaths_scalar (sz : Nat) (k : SKind) (top : Bool) (d : Nat) (toks : List ITok) (h : isDesg toks = true) :
    ∃ e, desigPaths (.scalar sz k) top d [[]] toks = .error e := by
  cases d with
  | zero => exact ⟨_, rfl⟩
  | succ d =>
    cases toks with
    | nil => simp [isDesg] at h
    | cons t r =>
      cases t <;> simp [isDesg] at h
      · rw [desigPaths]; simp [headTy, subTy, findMember, Ty.isAgg]
      · rw [desigPaths]; simp [headTy, subTy]
      · rw [desigPaths]; simp [headTy, subTy]

/-- a brace-enclosed initializer for an object of type `t`: `initializer2` with the node `c` against the list of the specification -/
theorem braceSim_step {f : Nat} (ih : Sim f) {t : Ty} {c : Init} {inner : List ITok} {c' : Init} {rest : List ITok}
    (ho : subOk t = true) (hs : shaped t c = true) (hbl : bracedLit t inner = none)
    (h : initializer2 (f+1) t (.lbrace :: inner) c = .ok (c', rest)) :
    shaped t c' = true ∧ (hasExpr c = false → BraceSim t c inner c' rest) := by
  cases t with
  | inc => simp [subOk] at ho
  | array elem len =>
    rw [initializer2_array_brace_none _ (bracedStr_none_of_bracedLit rfl hbl)] at h
    obtain ⟨hs', inner', heq, himp⟩ := ih.arr1 ho hs h
    cases heq
    refine ⟨hs', fun _ top g fl res hres hcl => ?_⟩
    have := himp top g fl res hres hcl
    cases this
    rw [unflex_shaped hs']
    exact ⟨rfl, rfl, rfl⟩
  | struct ms sz fl0 =>
    obtain ⟨e, cs, rfl, hms⟩ := struct_of_shaped hs
    rw [initializer2] at h
    simp only [startsBrace, ↓reduceIte] at h
    obtain ⟨hs', inner', heq, himp⟩ := ih.struct1 ho hs h
    cases heq
    refine ⟨hs', fun hne top g fl res hres hcl => ?_⟩
    have hE : hasAggExpr (Init.struct e cs) = false := by
      simp only [hasExpr, Bool.or_eq_false_iff] at hne
      cases e <;> simp_all [hasAggExpr]
    have := himp hE top g fl res hres hcl
    cases this
    rw [unflex_shaped hs']
    exact ⟨rfl, rfl, rfl⟩
  | union ms sz fl0 =>
    rw [initializer2] at h
    simp only [startsBrace, ↓reduceIte] at h
    obtain ⟨hs', himp⟩ := ih.union1 ho hs h
    refine ⟨hs', fun hne top g fl res hres hcl => ?_⟩
    have hz := zero_of_shaped _ _ ho hs hne
    obtain ⟨h1, h2, h3⟩ := himp hz top g fl res hres hcl
    have hus : unflex res.obj = res.obj := by
      cases hro : res.obj with
      | flex => rw [hro] at h1; simp [defaultMember] at h1; rw [← h1] at hs'; simp [shaped] at hs'
      | _ => rfl
    rw [hus]
    exact ⟨h1, h2, h3⟩
  | scalar sz k =>
    obtain ⟨e, rfl⟩ := leaf_of_shaped hs
    rw [initializer2] at h
    obtain ⟨⟨c1, tok⟩, hinit, h⟩ := bind_eq_ok h
    obtain ⟨rest', hrb, h⟩ := bind_eq_ok h
    cases h
    have hend := strip_comma_rbrace hrb
    have hAr : ∀ top, At (.scalar sz k) top (.leaf e) [] (.scalar sz k) (.leaf e) := fun _ => At.root ho hs
    obtain ⟨hs', _⟩ := ih.init2 (top := false) (hAr false) hinit
    refine ⟨hs', fun hne top g fl res hres hcl => ?_⟩
    obtain ⟨_, himp⟩ := ih.init2 (top := top) (hAr top) hinit
    have fin : ∀ g1 cur first, initList g1 (.scalar sz k) top c' cur tok first fl = .ok res →
        defaultMember (.scalar sz k) (unflex res.obj) = c' ∧ res.rest = rest ∧ res.fl = fl := by
      intro g1 cur first hh
      cases g1 with
      | zero => cases hh
      | succ g1 =>
        rw [initList_end _ _ _ _ _ _ _ _ _ hend] at hh
        cases hh
        obtain ⟨e1, rfl⟩ := leaf_of_shaped hs'
        exact ⟨rfl, rfl, rfl⟩
    cases g with
    | zero => cases hres
    | succ g =>
      cases hce : consumeEnd inner with
      | some rest0 =>
        obtain ⟨e1, e2⟩ := init2_nothing hs ho (consumeEnd_some_isEnd hce) hinit
        subst e1 e2
        exact fin (g+1) _ _ hres
      | none =>
        replace hres := initList_item_imp _ _ _ _ _ _ _ _ hce hres hcl
        simp only [↓reduceIte, pure_bind'] at hres
        by_cases hdg : isDesg inner = true
        · exfalso
          obtain ⟨e', he'⟩ := desigPaths_scalar sz k top (inner.length + 1) inner hdg
          simp only [pathsOf, hdg, ↓reduceIte, he'] at hres
          cases hres
        · simp only [pathsOf, hdg, Bool.false_eq_true, ↓reduceIte, pure_bind', firstCursor] at hres
          obtain ⟨g1, h1⟩ := himp g fl
          have hh := h1 res hres hcl
          simp only [After, setAtM] at hh
          exact fin g1 _ _ hh


/-! ### whole-element initializers as functions of the node -/

theorem strFill_shape (bytes : List Nat) (w : Nat) (sz : Nat) (kd : SKind) : ∀ (n : Nat) (cs cs' : List Init) (i : Nat),
    strFill bytes w cs i n = .ok cs' → shapedAll (.scalar sz kd) cs = true →
    cs'.length = cs.length ∧ shapedAll (.scalar sz kd) cs' = true
  | 0, cs, cs', i, h, hsa => by rw [strFill] at h; cases h; exact ⟨rfl, hsa⟩
  | n+1, [], cs', i, h, _ => by rw [strFill] at h; cases h
  | n+1, c0 :: cs0, cs', i, h, hsa => by
    rw [strFill] at h
    split at h
    · cases h
    · obtain ⟨rest, hr, h⟩ := bind_eq_ok h
      cases h
      simp only [shapedAll, Bool.and_eq_true] at hsa
      obtain ⟨h1, h2⟩ := strFill_shape bytes w sz kd n cs0 rest (i+1) hr hsa.2
      obtain ⟨e0, rfl⟩ := leaf_of_shaped hsa.1
      simp [shapedAll, h1, h2, Init.setExpr, shaped]

/-- `string_initializer` keeps the array shaped and consumes the literal -/
theorem stringInitializer_shape {elem : Ty} {len : Nat} {bytes : List Nat} {esz : Nat} {r toks' : List ITok} {cs : List Init}
    {c' : Init} (hlen : cs.length = len) (hall : shapedAll elem cs = true) (hint : elem.isInteger = true)
    (h : stringInitializer elem bytes esz r (.arr cs) = .ok (c', toks')) :
    shaped (.array elem len) c' = true ∧ toks' = r ∧ elem.size = (esz : Int) := by
  unfold stringInitializer at h
  split at h
  · cases h
  · rename_i hsz
    simp only [Init.children, Init.withChildren] at h
    split at h
    · obtain ⟨cs', hf, h⟩ := bind_eq_ok h
      cases h
      obtain ⟨sz, kd, rfl⟩ := isInteger_scalar hint
      obtain ⟨h1, h2⟩ := strFill_shape bytes _ sz kd _ cs cs' 0 hf hall
      exact ⟨by simp [shaped, h1, hlen, h2], rfl, by simpa using hsz⟩
    · cases h

/-- an initializer without braces that initialises the node of type `t` as a whole: what the parser makes of the node is what
    `storeTok` makes of it -/
theorem init2_whole_tok {f : Nat} {t : Ty} {tok : ITok} {r : List ITok} {c c' : Init} {toks' : List ITok} (ho : subOk t = true)
    (hs : shaped t c = true) (hb : tok ≠ .lbrace) (hst : stopsAt t tok = true)
    (h : initializer2 f t (tok :: r) c = .ok (c', toks')) :
    toks' = r ∧ shaped t c' = true ∧ ∀ (root : Ty) (top : Bool) (P : List Nat), growable root top P = false →
      (isStrTok tok = true → (∀ sz k, t ≠ .scalar sz k) → hasExpr c = false) → storeTok root top tok P t c = .ok c' := by
  cases f with
  | zero => cases h
  | succ f =>
  cases t with
  | inc => simp [subOk] at ho
  | scalar sz k =>
    obtain ⟨e, rfl⟩ := leaf_of_shaped hs
    rw [initializer2] at h
    · obtain ⟨⟨ex, rest⟩, hpa, h⟩ := bind_eq_ok h
      cases h
      obtain ⟨tok', htoks, hte, _, _, _⟩ := parseAssign_ok hpa
      cases htoks
      refine ⟨rfl, by simp [Init.setExpr, shaped], fun root top P _ _ => ?_⟩
      simp [storeTok, hte, Init.setExpr]
      rfl
    · intro r' hr'; cases hr'; exact hb rfl
  | array elem len =>
    obtain ⟨cs, rfl, hlen, hall⟩ := arr_of_shaped hs
    cases tok with
    | str id bytes esz =>
      have hint : elem.isInteger = true := by
        simp only [stopsAt, strFits, Bool.and_eq_true] at hst; exact hst.1
      rw [initializer2] at h
      simp only [hint, ↓reduceIte] at h
      obtain ⟨hs', htoks, _⟩ := stringInitializer_shape hlen hall hint h
      refine ⟨htoks, hs', fun root top P hg hne => ?_⟩
      have hz := hne rfl (by intro sz k hh; cases hh)
      obtain ⟨_, _, hsv, _⟩ := stringInitializer_spec hs hz hint h
      simp only [storeTok, hg, Bool.false_eq_true, ↓reduceIte]
      exact hsv
    | _ => simp [stopsAt] at hst
  | struct ms sz fl0 =>
    obtain ⟨e, cs, rfl, hms⟩ := struct_of_shaped hs
    cases tok with
    | expr ex =>
      have hisS : ex.isStruct = true := by simpa [stopsAt] using hst
      rw [initializer2] at h
      simp only [startsBrace, Bool.false_eq_true, ↓reduceIte, parseAssign, ok_bind, hisS] at h
      cases h
      exact ⟨rfl, by simpa [Init.setExpr, shaped] using hms, fun _ _ _ _ _ => rfl⟩
    | _ => simp [stopsAt] at hst
  | union ms sz fl0 =>
    obtain ⟨e, m, cs, rfl, hms⟩ := union_of_shaped hs
    cases tok with
    | expr ex =>
      have hisU : ex.isUnion = true := by simpa [stopsAt] using hst
      rw [initializer2] at h
      simp only [startsBrace, Bool.false_eq_true, ↓reduceIte, parseAssign, ok_bind, hisU] at h
      cases h
      exact ⟨rfl, by simpa [Init.setExpr, shaped] using hs, fun _ _ _ _ _ => rfl⟩
    | _ => simp [stopsAt] at hst

/-- the initializer of a designation without (further) designator: an optional `=` is dropped -/
def itemOf : List ITok → List ITok
  | .eq :: r => r
  | t => t

/-- `designation` on a token list without (further) designator is `initializer2` on the initializer -/
theorem desg_item {f : Nat} {t : Ty} {toks : List ITok} {c c' : Init} {toks' : List ITok} (hd : isDesg toks = false)
    (h : designation f t toks c = .ok (c', toks')) :
    (∃ f', f = f' + 1 ∧ initializer2 f' t (itemOf toks) c = .ok (c', toks')) ∧
      ∀ root top d ps, desigPaths root top (d+1) ps toks = .ok (ps, itemOf toks) := by
  cases f with
  | zero => cases h
  | succ f =>
    unfold designation at h
    split at h
    · simp [isDesg] at hd
    · simp [isDesg] at hd
    · simp [isDesg] at hd
    · rename_i r
      exact ⟨⟨f, rfl, h⟩, fun root top d ps => desigPaths_eq _ _ _ _ _⟩
    · rename_i hn1 hn2 hn3 hn4
      have hi : itemOf toks = toks := by
        cases toks with
        | nil => rfl
        | cons t0 r => cases t0 <;> first | rfl | exact absurd rfl (hn4 _)
      rw [hi]
      exact ⟨⟨f, rfl, h⟩, fun root top d ps => desigPaths_plain _ _ _ _ _ hd (fun r hr => hn4 r hr)⟩

/-! ### several designated elements of one array -/

theorem switchesUnion_nochild {obj : Init} {k : Nat} (p : List Nat) (hk : obj.children[k]? = none)
    (hn : ∀ e m cs, obj ≠ .union e (some m) cs) : switchesUnion obj (k :: p) = false := by
  rw [switchesUnion]
  · simp [hk]
  · intro e m cs he; exact hn e m cs he

/-- after the node at `p` has been written, a path through `p` switches no union above it -/
theorem switchesUnion_marked : ∀ (p : List Nat) (obj c X : Init) (j : Nat), getAt obj p = some c →
    (∀ e m cs, X ≠ .union e (some m) cs) → switchesUnion (setAtM obj p X) (p ++ [j]) = false
  | [], obj, c, X, j, _, hX => by
    simp only [setAtM, List.nil_append]
    cases hk : X.children[j]? with
    | none => exact switchesUnion_nochild [] hk hX
    | some ck => rw [switchesUnion_other [] hk hX, switchesUnion]
  | k :: p, obj, c, X, j, hg, hX => by
    obtain ⟨ck, hk, hg'⟩ := getAt_cons_some hg
    have ih := switchesUnion_marked p ck c X j hg' hX
    have hlt : k < obj.children.length := (List.getElem?_eq_some_iff.mp hk).1
    have hch : (setAtM obj (k :: p) X).children[k]? = some (setAtM ck p X) := by
      rw [children_setAtM_cons obj k p X ck hk]; simp [hlt]
    rw [List.cons_append]
    cases obj with
    | leaf e => simp [Init.children] at hk
    | flex => simp [Init.children] at hk
    | arr cs => rw [switchesUnion_other _ hch (by intro e m cs' h; simp [setAtM] at h)]; exact ih
    | struct e cs => rw [switchesUnion_other _ hch (by intro e m cs' h; simp [setAtM] at h)]; exact ih
    | union e m cs =>
      simp only [Init.children] at hk hlt
      have : setAtM (Init.union e m cs) (k :: p) X = .union none (some k) (cs.set k (setAtM ck p X)) := by
        simp [setAtM, hk]
      have hch2 : (cs.set k (setAtM ck p X))[k]? = some (setAtM ck p X) := by simp [hlt]
      rw [this, switchesUnion_union_some none k _ hch2]
      simp only [↓reduceIte]
      exact ih

theorem initItem_brace_multi (g : Nat) (root : Ty) (top : Bool) (obj : Init) (p0 : List Nat) (rest : List (List Nat))
    (inner : List ITok) (fl : Flags) {t : Ty} (ht : subTy root p0 = some t) (hg : growable root top p0 = false)
    (hbl : bracedLit t inner = none) :
    initItem g root top obj (p0 :: rest) (.lbrace :: inner) fl =
      (initList g t false (braceStart t) (firstCursor t) inner true Flags.none >>= fun sub =>
        (p0 :: rest).foldlM (fun o p => modifyAt root top (fun _ _ => pure (defaultMember t (unflex sub.obj))) root [] p o) obj
          >>= fun obj' =>
          initList g root top obj' (next root top (p0 :: rest).getLast!.reverse) sub.rest false
            ((fl.join ⟨(p0 :: rest).any (touched obj), (p0 :: rest).any (exprAbove obj),
                decide ((p0 :: rest).length > 1) && !siblings (p0 :: rest), false⟩).join sub.fl)) := by
  unfold initItem initItemWith
  simp only [ht, hg, Bool.false_eq_true, ↓reduceIte, pure_bind', hbl]

/-- `touched`, except for scalars (a string literal replaces an array as a whole) -/
def nonScalarTouched (root : Ty) (obj : Init) (p : List Nat) : Bool :=
  match subTy root p with
  | some (.scalar ..) => false
  | _ => touched obj p

theorem initItem_tok_multi (g : Nat) (root : Ty) (top : Bool) (obj : Init) (p0 : List Nat) (rest : List (List Nat))
    (tok : ITok) (r : List ITok) (fl : Flags) (hb : tok ≠ .lbrace) :
    initItem g root top obj (p0 :: rest) (tok :: r) fl =
      ((p0 :: rest).mapM (fun p => descend root top tok (p.length + root.nodes + 2) p) >>= fun targets =>
        targets.foldlM (fun o p => modifyAt root top (storeTok root top tok p) root [] p o) obj >>= fun obj' =>
          initList g root top obj' (next root top targets.getLast!.reverse) r false
            (fl.join ⟨(isStrTok tok && targets.any (nonScalarTouched root obj))
                || targets.any (switchesUnion obj), targets.any (exprAbove obj),
              decide ((p0 :: rest).length > 1) && !(siblings (p0 :: rest) && targets == (p0 :: rest)), false⟩)) := by
  unfold initItem initItemWith initTokWith
  cases tok <;> first | exact absurd rfl hb | rfl

/-- the parser's loop over the elements of a range and the specification's fold over the designated paths, in lockstep:
    `fP` is what the specification stores (`storeTok`, or the value of a brace-enclosed list), `hrel` says that the parser's
    `designation` on an element computes the same -/
theorem range_fold {f : Nat} {root : Ty} {top : Bool} {elem : Ty} {len : Nat} {p : List Nat} (tok tokR : List ITok)
    (fP : List Nat → Ty → Init → Except Fail Init) :
    ∀ (js : List Nat) (obj : Init) (cs : List Init) (t0 : List ITok) (c1 : Init) (tok2 : List ITok),
    At root top obj p (.array elem len) (.arr cs) → js.Nodup → (∀ j ∈ js, j < len) →
    (∀ j ∈ js, ∀ c v t, cs[j]? = some c → designation f elem tok c = .ok (v, t) →
      fP (p ++ [j]) elem c = .ok v ∧ t = tokR ∧ shaped elem v = true) →
    (∀ j ∈ js, switchesUnion obj (p ++ [j]) = false) →
    (js = [] → setAtM obj p (.arr cs) = obj) →
    js.foldlM (fun (acc : Init × List ITok) j => getChild acc.1.children j >>= fun c => designation f elem tok c >>= fun y =>
        (pure (acc.1.setChild j y.1, y.2) : Except Fail (Init × List ITok))) (.arr cs, t0) = .ok (c1, tok2) →
    ∃ csF, c1 = .arr csF ∧
      (js.map (fun j => p ++ [j])).foldlM (fun o P => modifyAt root top (fP P) root [] P o) obj = .ok (setAtM obj p (.arr csF)) ∧
      (js ≠ [] → tok2 = tokR) ∧ (js = [] → tok2 = t0) ∧ shaped (.array elem len) (.arr csF) = true
  | [], obj, cs, t0, c1, tok2, hA, _, _, _, _, hM, hfold => by
    simp only [List.foldlM_nil, pure, Except.pure, Except.ok.injEq, Prod.mk.injEq] at hfold
    obtain ⟨rfl, rfl⟩ := hfold
    exact ⟨cs, rfl, by simp [List.foldlM_nil, hM rfl, pure, Except.pure], by simp, fun _ => rfl, hA.shapedc⟩
  | j0 :: js', obj, cs, t0, c1, tok2, hA, hnd, hlt, hrel, hsw, _, hfold => by
    rw [List.foldlM_cons] at hfold
    obtain ⟨⟨c1', t1⟩, hstep, hfold⟩ := bind_eq_ok hfold
    obtain ⟨c, hc, hstep⟩ := bind_eq_ok hstep
    obtain ⟨⟨v, t⟩, hd, hstep⟩ := bind_eq_ok hstep
    cases hstep
    have hk : (Init.arr cs).children[j0]? = some c := getChild_ok hc
    simp only [Init.children] at hk
    obtain ⟨hf, ht, hsv⟩ := hrel j0 (by simp) c v t hk hd
    have hAj := hA.child (childTy_arr elem len j0) (by simpa [Init.children] using hk)
    obtain ⟨e1, hA1, hM1⟩ := hA.set_child (childTy_arr elem len j0) (by simpa [Init.children] using hk) hsv
    rw [setAtM_one_arr] at hA1 hM1 e1
    simp only [Init.setChild, Init.withChildren, Init.children] at hA1 hM1 e1 hfold
    have hnd' : js'.Nodup := (List.nodup_cons.mp hnd).2
    have hj0 : j0 ∉ js' := (List.nodup_cons.mp hnd).1
    obtain ⟨csF, h1, h2, h3, h4, h5⟩ := range_fold tok tokR fP js' (setAtM obj (p ++ [j0]) v) (cs.set j0 v) t c1 tok2 hA1 hnd'
      (fun j hj => hlt j (by simp [hj]))
      (fun j hj c' v' t' hc' hd' => by
        have hne : j0 ≠ j := fun h => hj0 (h ▸ hj)
        rw [List.getElem?_set_ne hne] at hc'
        exact hrel j (by simp [hj]) c' v' t' hc' hd')
      (fun j hj => by rw [e1]; exact switchesUnion_marked p obj _ _ j hA.get (by intro e m cs' h; cases h))
      (fun _ => hM1) hfold
    refine ⟨csF, h1, ?_, fun _ => ?_, fun h => absurd h (List.cons_ne_nil _ _), h5⟩
    · rw [List.map_cons, List.foldlM_cons,
        hAj.modifyAt_eq _ (hsw j0 (by simp)), hf]
      simp only [ok_bind, pure_bind']
      rw [h2, e1, setAtM_over hA]
    · by_cases hjs : js' = []
      · rw [h4 hjs]; exact ht
      · exact h3 hjs

theorem init2_fuel_lift {ty : Ty} {toks : List ITok} {c : Init} {f g : Nat} {r : Init × List ITok} (h : f ≤ g)
    (hr : initializer2 f ty toks c = .ok r) : initializer2 g ty toks c = .ok r := by
  rcases initializer2_fuel_mono ty toks c f g h with h1 | h1
  · rw [hr] at h1; cases h1
  · rw [← h1, hr]

theorem getLast!_range_map (p : List Nat) (b n : Nat) (hn : 1 ≤ n) :
    ((List.range' b n).map (fun k => p ++ [k])).getLast! = p ++ [b + n - 1] := by
  obtain ⟨m, rfl⟩ : ∃ m, n = m + 1 := ⟨n - 1, by omega⟩
  rw [List.range'_concat, List.map_append]
  simp

theorem range'_nodup (b n : Nat) : (List.range' b n).Nodup := List.nodup_range'

theorem mapM_stop {root : Ty} {top : Bool} {tok : ITok} {elem : Ty} (hst : stopsAt elem tok = true) (N : Nat) :
    ∀ (ps : List (List Nat)), (∀ q ∈ ps, subTy root q = some elem) →
      ps.mapM (fun q => descend root top tok (q.length + N + 2) q) = .ok ps
  | [], _ => rfl
  | q :: ps, h => by
    rw [List.mapM_cons, show q.length + N + 2 = (q.length + N + 1) + 1 from rfl,
      descend_stop _ (h q (by simp)) hst, ok_bind, mapM_stop hst N ps (fun q' hq' => h q' (by simp [hq'])), ok_bind]
    rfl

/-- the parser's per-element loop of a range designator (`for (i = begin; i <= end; i++) designation(&tok2, tok, init->children[i])`) -/
abbrev rangeLoop (f : Nat) (elem : Ty) (tok : List ITok) (js : List Nat) (cs : List Init) : Except Fail (Init × List ITok) :=
  js.foldlM (fun (acc : Init × List ITok) j => getChild acc.1.children j >>= fun c =>
    designation f elem tok c >>= fun y => (pure (acc.1.setChild j y.1, y.2) : Except Fail (Init × List ITok))) (.arr cs, tok)

/-- a range designator over several elements `[b] … [b+m]` of the array at `p` whose initializer initialises each element as a
    whole (braces, a string literal, one expression) - or else the run enters the region `WideRange`.  Generic in how the
    specification's fold over the designated elements is computed (`hF`): for an array of known length through `setAtM`
    (`range_whole`), for an array of unknown bound by growing it (`range_whole_inc`). -/
theorem range_core {f : Nat} (ih : Sim f) {root : Ty} {top : Bool} {obj : Init} {p : List Nat} {elem : Ty} {cs : List Init}
    (hoe : subOk elem = true) (b m : Nat) (hm : 1 ≤ m)
    (hsub : ∀ j ∈ List.range' b (m+1), subTy root (p ++ [j]) = some elem)
    (hgr : ∀ j ∈ List.range' b (m+1), growable root top (p ++ [j]) = false)
    (hch : ∀ j ∈ List.range' b (m+1), ∃ c, cs[j]? = some c)
    (hshc : ∀ j ∈ List.range' b (m+1), ∀ c, cs[j]? = some c → shaped elem c = true)
    (hpr : ∀ j ∈ List.range' b (m+1), ∀ c, cs[j]? = some c → touched obj (p ++ [j]) = false → hasExpr c = false)
    (hsw' : ∀ j ∈ List.range' b (m+1), touched obj (p ++ [j]) = false → switchesUnion obj (p ++ [j]) = false)
    (cur' : Option (List Nat)) (hlast : next root top (p ++ [b + m]).reverse = cur')
    (tok : List ITok) (c1 : Init) (tok2 : List ITok) (hfold : rangeLoop f elem tok (List.range' b (m+1)) cs = .ok (c1, tok2))
    (Post : Init → Prop)
    (hF : ∀ (fP : List Nat → Ty → Init → Except Fail Init) (tokR : List ITok),
      (∀ j ∈ List.range' b (m+1), ∀ c v t, cs[j]? = some c → designation f elem tok c = .ok (v, t) →
        fP (p ++ [j]) elem c = .ok v ∧ t = tokR ∧ shaped elem v = true) →
      (∀ j ∈ List.range' b (m+1), switchesUnion obj (p ++ [j]) = false) →
      ∃ objF, ((List.range' b (m+1)).map (fun k => p ++ [k])).foldlM (fun o P => modifyAt root top (fP P) root [] P o) obj = .ok objF ∧
        tok2 = tokR ∧ Post objF) :
    ∀ g d fl res, afterDesg g root top obj fl (desigPaths root top d ((List.range' b (m+1)).map (fun k => p ++ [k])) tok) = .ok res →
      res.fl.clean = true → ∃ objF, initList g root top objF cur' tok2 false fl = .ok res ∧ Post objF := by
  intro g d fl res hres hcl
  cases d with
  | zero => cases hres
  | succ d =>
  by_cases hdg : isDesg tok = true
  · rw [afterDesg_wide_dirty (by omega) hdg hres] at hcl; cases hcl
  · have hdg' : isDesg tok = false := by simpa using hdg
    have hb0 : b ∈ List.range' b (m+1) := by simp
    rw [afterDesg] at hres
    have hitem : ∀ c v t, designation f elem tok c = .ok (v, t) →
        ∃ f', f = f' + 1 ∧ initializer2 f' elem (itemOf tok) c = .ok (v, t) := fun c v t h => (desg_item hdg' h).1
    -- the first element's call
    obtain ⟨c0, v0, t0, hk0, hd0⟩ : ∃ c0 v0 t0, cs[b]? = some c0 ∧ designation f elem tok c0 = .ok (v0, t0) := by
      have hfold' := hfold
      simp only [rangeLoop] at hfold'
      rw [List.range'_succ, List.foldlM_cons] at hfold'
      obtain ⟨_, hstep, _⟩ := bind_eq_ok hfold'
      obtain ⟨c, hc, hstep⟩ := bind_eq_ok hstep
      obtain ⟨⟨v, t⟩, hd0, _⟩ := bind_eq_ok hstep
      have hk : cs[b]? = some c := by have := getChild_ok hc; simpa [Init.children] using this
      exact ⟨c, v, t, hk, hd0⟩
    have hdp : ∀ ps, desigPaths root top (d+1) ps tok = .ok (ps, itemOf tok) := fun ps => (desg_item hdg' hd0).2 root top d ps
    rw [hdp, ok_bind] at hres
    simp only at hres
    have hpaths : (List.range' b (m+1)).map (fun k => p ++ [k]) =
        (p ++ [b]) :: (List.range' (b+1) m).map (fun k => p ++ [k]) := by rw [List.range'_succ]; rfl
    have hsubq : ∀ q ∈ (List.range' b (m+1)).map (fun k => p ++ [k]), subTy root q = some elem := by
      intro q hq
      simp only [List.mem_map] at hq
      obtain ⟨j, hj, rfl⟩ := hq
      exact hsub j hj
    have hlast' : next root top ((List.range' b (m+1)).map (fun k => p ++ [k])).getLast!.reverse = cur' := by
      rw [getLast!_range_map p b (m+1) (by omega)]
      exact hlast
    have nobrace : ∀ (tok0 : ITok) (r : List ITok), tok0 ≠ .lbrace →
        (∀ c v t, designation f elem tok c = .ok (v, t) →
          ∃ f', f = f' + 1 ∧ initializer2 f' elem (tok0 :: r) c = .ok (v, t)) →
        initItem g root top obj ((List.range' b (m+1)).map (fun k => p ++ [k])) (tok0 :: r) fl = .ok res →
        ∃ objF, initList g root top objF cur' tok2 false fl = .ok res ∧ Post objF := by
      intro tok0 r hb hitem hres
      rw [hpaths, initItem_tok_multi _ _ _ _ _ _ _ _ _ hb, ← hpaths] at hres
      obtain ⟨targets, htg, hres⟩ := bind_eq_ok hres
      obtain ⟨obj', hmod, hfin⟩ := bind_eq_ok hres
      have hfl := initList_clean _ _ _ _ _ _ _ _ _ hfin hcl
      obtain ⟨_, hfl2⟩ := Flags.clean_join hfl
      obtain ⟨hov, hxa, hwd⟩ := Flags.clean_mk hfl2
      cases hst : stopsAt elem tok0 with
      | false =>
        -- brace elision into the elements: region WideRange
        exfalso
        rw [hpaths] at htg
        obtain ⟨q0, ts, hq0, _, rfl⟩ := mapM_cons_ok htg
        obtain ⟨k, s', hqs⟩ := descend_below (hsub b hb0) hst hq0
        have hne : ((q0 :: ts) == (p ++ [b]) :: (List.range' (b+1) m).map (fun k => p ++ [k])) = false := by
          rw [hqs]
          simp only [beq_eq_false_iff_ne, ne_eq, List.cons.injEq, not_and]
          intro h; exfalso
          have := congrArg List.length h
          simp at this
        rw [hpaths, hne] at hwd
        have : 0 < m := by omega
        simp [this] at hwd
      | true =>
        have htg' : targets = (List.range' b (m+1)).map (fun k => p ++ [k]) := by
          rw [mapM_stop hst root.nodes _ hsubq] at htg
          cases htg; rfl
        subst htg'
        simp only [Bool.or_eq_false_iff] at hov
        obtain ⟨hstr, hsw⟩ := hov
        have hswj : ∀ j ∈ List.range' b (m+1), switchesUnion obj (p ++ [j]) = false := by
          intro j hj
          have := List.any_eq_false.mp hsw (p ++ [j]) (List.mem_map_of_mem hj)
          simpa using this
        obtain ⟨objF, h2, h3, hpost⟩ := hF (fun P => storeTok root top tok0 P) r
          (fun j hj c v t hc hd => by
            obtain ⟨f', hf', hi2⟩ := hitem c v t hd
            obtain ⟨e1, hsv, hsto⟩ := init2_whole_tok hoe (hshc j hj c hc) hb hst hi2
            refine ⟨hsto root top (p ++ [j]) (hgr j hj) (fun his hns => ?_), e1, hsv⟩
            have htj : touched obj (p ++ [j]) = false := by
              rw [his, Bool.true_and] at hstr
              have := List.any_eq_false.mp hstr (p ++ [j]) (List.mem_map_of_mem hj)
              simp only [nonScalarTouched] at this
              rw [hsub j hj] at this
              cases elem with
              | scalar sz k => exact absurd rfl (hns sz k)
              | array => simpa using this
              | inc => simpa using this
              | struct => simpa using this
              | union => simpa using this
            exact hpr j hj c hc htj)
          hswj
        rw [h2] at hmod
        cases hmod
        have hfl0 : (⟨(isStrTok tok0 && ((List.range' b (m+1)).map (fun k => p ++ [k])).any (nonScalarTouched root obj))
              || ((List.range' b (m+1)).map (fun k => p ++ [k])).any (switchesUnion obj),
            ((List.range' b (m+1)).map (fun k => p ++ [k])).any (exprAbove obj),
            decide (((List.range' b (m+1)).map (fun k => p ++ [k])).length > 1) &&
              !(siblings ((List.range' b (m+1)).map (fun k => p ++ [k])) &&
                ((List.range' b (m+1)).map (fun k => p ++ [k])) == ((List.range' b (m+1)).map (fun k => p ++ [k]))), false⟩ : Flags)
            = ⟨false, false, false, false⟩ := by
          rw [hstr, hsw, hxa, hwd]; rfl
        rw [hlast', hfl0, Flags.join_false] at hfin
        rw [h3]
        exact ⟨obj', hfin, hpost⟩
    cases hit : itemOf tok with
    | nil =>
      rw [hit, hpaths] at hres
      unfold initItem initItemWith initTokWith at hres
      cases hres
    | cons tok0 r =>
      rw [hit] at hres
      by_cases hb : tok0 = .lbrace
      · -- braces
        subst hb
        cases hbl : bracedLit elem r with
        | some tr =>
          -- p14/p15: a string literal in braces for a character array: the literal alone
          obtain ⟨tok1, r1⟩ := tr
          rw [hpaths, initItem_bracedLit _ _ _ _ _ _ _ _ (hsub b hb0) (hgr b hb0) hbl, ← hpaths] at hres
          exact nobrace tok1 r1 (bracedLit_stops hbl).2 (fun c v t hd => by
            obtain ⟨f', hf', hi2⟩ := hitem c v t hd
            rw [hit, init2_bracedLit_eq c hbl] at hi2
            exact ⟨f', hf', hi2⟩) hres
        | none =>
          rw [hpaths, initItem_brace_multi _ _ _ _ _ _ _ _ (hsub b hb0) (hgr b hb0) hbl, ← hpaths] at hres
          obtain ⟨sub, hsb, hres⟩ := bind_eq_ok hres
          obtain ⟨obj', hmod, hfin⟩ := bind_eq_ok hres
          have hfl := initList_clean _ _ _ _ _ _ _ _ _ hfin hcl
          obtain ⟨hfl1, hsubcl⟩ := Flags.clean_join hfl
          obtain ⟨_, hfl2⟩ := Flags.clean_join hfl1
          obtain ⟨htch, hxa, hwd⟩ := Flags.clean_mk hfl2
          have hnt : ∀ j ∈ List.range' b (m+1), touched obj (p ++ [j]) = false := by
            intro j hj
            have := List.any_eq_false.mp htch (p ++ [j]) (List.mem_map_of_mem hj)
            simpa using this
          have hbrace : ∀ j ∈ List.range' b (m+1), ∀ c v t, cs[j]? = some c → designation f elem tok c = .ok (v, t) →
              defaultMember elem (unflex sub.obj) = v ∧ sub.rest = t ∧ sub.fl = Flags.none ∧ shaped elem v = true := by
            intro j hj c v t hc hd
            obtain ⟨f', hf', hi2⟩ := hitem c v t hd
            rw [hit] at hi2
            have hup := init2_fuel_lift (g := f+1) (by omega) hi2
            obtain ⟨hsv, hbs⟩ := braceSim_step ih hoe (hshc j hj c hc) hbl hup
            have hne := hpr j hj c hc (hnt j hj)
            have hz := zero_of_shaped elem c hoe (hshc j hj c hc) hne
            have hzero : braceStart elem = c := by rw [hz]; rfl
            rw [hzero] at hsb
            obtain ⟨e1, e2, e3⟩ := hbs hne false g Flags.none sub hsb hsubcl
            exact ⟨e1, e2, e3, hsv⟩
          obtain ⟨objF, h2, h3, hpost⟩ := hF (fun _ _ _ => pure (defaultMember elem (unflex sub.obj))) sub.rest
            (fun j hj c v t hc hd => by
              obtain ⟨e1, e2, _, hsv⟩ := hbrace j hj c v t hc hd
              exact ⟨by rw [e1]; rfl, e2.symm, hsv⟩)
            (fun j hj => hsw' j hj (hnt j hj))
          rw [h2] at hmod
          cases hmod
          have hsfl : sub.fl = Flags.none := (hbrace b hb0 c0 v0 t0 hk0 hd0).2.2.1
          rw [hlast', htch, hxa, hwd, hsfl, Flags.join_false, Flags.join_none] at hfin
          rw [h3]
          exact ⟨obj', hfin, hpost⟩
      · -- an initializer without braces
        exact nobrace tok0 r hb (fun c v t hd => by
          obtain ⟨f', hf', hi2⟩ := hitem c v t hd
          rw [hit] at hi2
          exact ⟨f', hf', hi2⟩) hres

/-- `range_core` for an array of known length inside any object -/
theorem range_whole {f : Nat} (ih : Sim f) {root : Ty} {top : Bool} {obj : Init} {p : List Nat} {elem : Ty} {len : Nat}
    {cs : List Init} (hA : At root top obj p (.array elem len) (.arr cs)) (b n : Nat) (hn : 2 ≤ n) (hbn : b + n ≤ len)
    (tok : List ITok) (c1 : Init) (tok2 : List ITok) (hfold : rangeLoop f elem tok (List.range' b n) cs = .ok (c1, tok2)) :
    ∀ g d fl res, afterDesg g root top obj fl (desigPaths root top d ((List.range' b n).map (fun k => p ++ [k])) tok) = .ok res →
      res.fl.clean = true →
      initList g root top (setAtM obj p c1) (cursorIn root top p (b + n)) tok2 false fl = .ok res := by
  intro g d fl res hres hcl
  have hoe : subOk elem = true := by have := hA.ok; simpa [subOk] using this
  obtain ⟨m, rfl⟩ : ∃ m, n = m + 1 := ⟨n - 1, by omega⟩
  have hjs : ∀ j ∈ List.range' b (m+1), j < len := by
    intro j hj; simp only [List.mem_range'] at hj; obtain ⟨i, hi, rfl⟩ := hj; omega
  have hl : cs.length = len := by
    obtain ⟨cs', h1, h2, _⟩ := arr_of_shaped hA.shapedc; cases h1; exact h2
  have hchild : ∀ j ∈ List.range' b (m+1), ∃ c, cs[j]? = some c :=
    fun j hj => ⟨cs[j]'(hl ▸ hjs j hj), List.getElem?_eq_getElem _⟩
  have hAj : ∀ j ∈ List.range' b (m+1), ∀ c, cs[j]? = some c → At root top obj (p ++ [j]) elem c :=
    fun j _ c hc => hA.child (childTy_arr elem len j) (by simpa [Init.children] using hc)
  obtain ⟨objF, h1, h2⟩ := range_core ih (top := top) (obj := obj) (p := p) (cs := cs) hoe b m (by omega)
    (fun j hj => by obtain ⟨c, hc⟩ := hchild j hj; exact (hAj j hj c hc).sub)
    (fun j hj => by obtain ⟨c, hc⟩ := hchild j hj; exact (hAj j hj c hc).ng)
    hchild
    (fun j hj c hc => (hAj j hj c hc).shapedc)
    (fun j hj c hc ht => (touched_false _ obj c (hAj j hj c hc).get ht).1)
    (fun j hj ht => by obtain ⟨c, hc⟩ := hchild j hj; exact (touched_false _ obj c (hAj j hj c hc).get ht).2)
    (cursorIn root top p (b + (m+1)))
    (by rw [List.reverse_append, List.reverse_singleton, List.singleton_append, next_snoc]; rfl)
    tok c1 tok2 hfold (fun objF => objF = setAtM obj p c1)
    (fun fP tokR hrel hsw => by
      obtain ⟨csF, e1, e2, e3, _, _⟩ := range_fold (top := top) tok tokR fP (List.range' b (m+1)) obj cs tok c1 tok2 hA
        (range'_nodup b (m+1)) hjs hrel hsw (fun h => absurd h (by simp)) hfold
      exact ⟨_, e2, e3 (by simp), by rw [e1]⟩)
    g d fl res hres hcl
  rw [← h2]; exact h1

/-! ### `array_initializer1` -/

theorem sim_arr1loop {f : Nat} (ih : Sim f) : Arr1LoopSt (f+1) := by
  intro elem len c toks i first c' rest ho hs h
  obtain ⟨cs, rfl, hlen, hall⟩ := arr_of_shaped hs
  have hA := fun top => At.root (top := top) ho hs
  rw [arrayInit1Loop] at h
  cases hce : consumeEnd toks with
  | some rest0 =>
    simp only [hce] at h
    cases h
    refine ⟨hs, fun top g fl => ?_⟩
    cases g with
    | zero => exact Imp.of_error rfl
    | succ g => rw [initList_end _ _ _ _ _ _ _ _ _ hce]; exact Imp.refl _
  | none =>
    simp only [hce] at h
    rw [ite_bind_pull] at h
    obtain ⟨toks1, hfirst, h⟩ := bind_eq_ok h
    split at h
    · rename_i hbr
      obtain ⟨⟨b, e, tok⟩, had, h⟩ := bind_eq_ok h
      obtain ⟨⟨c1, tok2⟩, hfold, h⟩ := bind_eq_ok h
      simp only at hfold h
      have hs1 : shaped (.array elem len) c1 = true :=
        foldlM_inv (P := fun acc => shaped (.array elem len) acc.1 = true)
          (fun acc j acc' hh hp => desgStep_shape ih ho tok acc j acc' hh hp) _ _ _ hfold hs
      obtain ⟨hs', himp2⟩ := ih.arr1loop ho hs1 h
      refine ⟨hs', fun top g fl => ?_⟩
      cases g with
      | zero => exact Imp.of_error rfl
      | succ g =>
        refine Imp.of_item hce ?_
        rw [hfirst, ok_bind]
        have hdg : isDesg toks1 = true := by
          cases toks1 with
          | nil => simp [isBracket] at hbr
          | cons t r => cases t <;> simp [isBracket] at hbr <;> rfl
        simp only [pathsOf, hdg, ↓reduceIte]
        simp only [Init.children] at had
        have single : ∀ (a : Int) , 0 ≤ a → a < len → b = a.toNat → e = a.toNat →
            Imp (afterDesg g (.array elem len) top (.arr cs) fl
                  (desigPaths (.array elem len) top (tok.length + 1) [[a.toNat]] tok))
              (.ok ⟨c', rest, fl⟩) := by
          intro a h0 h1 hb he
          subst hb he
          rw [range'_one _ _ rfl] at hfold
          have hstep := foldlM_single hfold
          obtain ⟨ca, hca, hstep⟩ := bind_eq_ok hstep
          obtain ⟨⟨ca', t2⟩, hd, hstep⟩ := bind_eq_ok hstep
          cases hstep
          have hk : (Init.arr cs).children[a.toNat]? = some ca := getChild_ok hca
          have hAa := (hA top).child (childTy_arr elem len a.toNat) hk
          obtain ⟨hsa, himp1⟩ := ih.desg (top := top) hAa hd
          obtain ⟨g1, h1'⟩ := himp1 g (tok.length + 1) fl
          simp only [List.nil_append, After, List.reverse_cons, List.reverse_nil, next_snoc, setAtM_one_arr] at h1'
          exact h1'.trans (himp2 top g1 fl)
        rcases arrayDesignator_ok had with ⟨a, rfl, h0, h1, hb, he⟩ | ⟨a, a2, rfl, h0, h1, h2, hb, he⟩
        · rw [hlen] at h1
          simp only [List.length_cons]
          rw [desigPaths_idx_arr (p := []) _ _ rfl (growable_false (hA top)) h0 h1]
          exact single a h0 h1 hb he
        · rw [hlen] at h2
          simp only [List.length_cons]
          rw [desigPaths_range_arr (p := []) _ _ rfl (growable_false (hA top)) h0 h1 h2]
          by_cases heq : a2 = a
          · subst heq
            have : a2.toNat + 1 - a2.toNat = 1 := by omega
            simp only [this, List.range'_one, List.map_cons, List.map_nil, List.nil_append]
            exact single a2 h0 h2 hb he
          · intro res hres hcl
            subst hb he
            have hrw := range_whole ih (hA top) a.toNat (a2.toNat + 1 - a.toNat) (by omega) (by omega) tok c1 tok2 hfold
              g (tok.length + 1) fl res hres hcl
            simp only [setAtM] at hrw
            have hidx : a.toNat + (a2.toNat + 1 - a.toNat) = a2.toNat + 1 := by omega
            rw [hidx] at hrw
            exact himp2 top g fl res hrw hcl
    · rename_i hbr
      split at h
      · rename_i hil
        obtain ⟨ci, hci, h⟩ := bind_eq_ok h
        obtain ⟨⟨ci', toks2⟩, hinit, h⟩ := bind_eq_ok h
        simp only at h
        have hk : (Init.arr cs).children[i]? = some ci := getChild_ok hci
        have hAi := fun top => (hA top).child (childTy_arr elem len i) hk
        obtain ⟨hsi, himp1⟩ := ih.init2 (top := false) (hAi false) hinit
        have hs1 : shaped (.array elem len) ((Init.arr cs).setChild i ci') = true := by
          have := shaped_set_child hs (childTy_arr elem len i) hk hsi
          rwa [setAtM_one_arr] at this
        obtain ⟨hs', himp2⟩ := ih.arr1loop ho hs1 h
        refine ⟨hs', fun top g fl => ?_⟩
        obtain ⟨_, himp1⟩ := ih.init2 (top := top) (hAi top) hinit
        cases g with
        | zero => exact Imp.of_error rfl
        | succ g =>
          refine Imp.of_item hce ?_
          rw [hfirst, ok_bind]
          by_cases hdg : isDesg toks1 = true
          · rcases isDesg_cases hdg with hb | ⟨n, r, rfl⟩
            · rw [hb] at hbr; exact absurd rfl hbr
            · simp only [pathsOf, hdg, ↓reduceIte]
              obtain ⟨e, he⟩ := desigPaths_dot_arr elem len top ((ITok.dot n :: r).length + 1) n r
              rw [he]; exact Imp.of_error rfl
          · simp only [Init.children] at hil
            have hil' : i < len := hlen ▸ hil
            simp only [pathsOf, hdg, Bool.false_eq_true, ↓reduceIte, cursorIn_arr_root elem len top i ho, hil', pure_bind']
            obtain ⟨g1, h1'⟩ := himp1 g fl
            simp only [List.nil_append, After, List.reverse_cons, List.reverse_nil, next_snoc, setAtM_one_arr] at h1'
            exact h1'.trans (himp2 top g1 fl)
      · rename_i hil
        obtain ⟨toks2, hskip, h⟩ := bind_eq_ok h
        obtain ⟨hs', himp2⟩ := ih.arr1loop ho hs h
        refine ⟨hs', fun top g fl => ?_⟩
        cases g with
        | zero => exact Imp.of_error rfl
        | succ g =>
          refine Imp.of_item hce ?_
          rw [hfirst, ok_bind]
          by_cases hdg : isDesg toks1 = true
          · rcases isDesg_cases hdg with hb | ⟨n, r, rfl⟩
            · rw [hb] at hbr; exact absurd rfl hbr
            · simp only [pathsOf, hdg, ↓reduceIte]
              obtain ⟨e, he⟩ := desigPaths_dot_arr elem len top ((ITok.dot n :: r).length + 1) n r
              rw [he]; exact Imp.of_error rfl
          · simp only [Init.children] at hil
            have hil' : ¬ i < len := hlen ▸ hil
            simp only [pathsOf, hdg, Bool.false_eq_true, ↓reduceIte, cursorIn_arr_root elem len top i ho, hil', pure_bind']
            rw [initItem_excess]
            intro res hres hcl
            obtain ⟨r', hr', hres⟩ := bind_eq_ok hres
            have := skipExcess_fuel hskip hr'
            subst this
            have hc2 : cursorIn (.array elem len) top [] (i+1) = none := by
              rw [cursorIn_arr_root elem len top (i+1) ho]; simp; omega
            have := himp2 top g fl
            rw [hc2] at this
            exact this res hres hcl



end ChibiVerif.InitSpec
