/-
Helper lemmas for C20 (Props/C20.lean): the effect of every piece of `Model/Codegen` as a
Hoare-style judgment `SemP P m r x d`:

  whenever the code generator `m` succeeds, the lines it printed satisfy `P ls r x` — code with
  effect (Δrsp = r, Δx87 = x) — and the `depth` counter has changed by `d`.

`P` is a *code predicate* (`CodePred`): any predicate on printed code that holds of straight-line
code with its `delta` and is closed under concatenation.  Two instances are used:
* `Straight` (`delta ls = some ⟨r, x⟩`: no label, no jump) — `Sem m r x d`, the judgment of the
  straight-line theorems (`covE/covA/covS`);
* `FlowP` (Lemmas/C20Flow.lean: one height per label, every jump and fall-through arrives at its
  label's height) — the judgment of the theorems about code with labels.
Every arm lemma below is proved once, for every code predicate, from the rules of the judgment.
-/
import ChibiVerif.Model.Codegen
import ChibiVerif.Model.Effect
import ChibiVerif.Gen.CastTableGen
import ChibiVerif.Model.C20Scope

namespace ChibiVerif.Lemmas.C20
open ChibiVerif ChibiVerif.Codegen ChibiVerif.Effect ChibiVerif.Asm ChibiVerif.Ast ChibiVerif.C20Scope

/-- the type of code predicates: `K lo hi ls r x` — the code `ls`, printed while the label counter
    `count()` went from `lo` to `hi`, has effect (r, x) -/
abbrev CodeK := Nat → Nat → List Line → Int → Int → Prop

/-- a predicate on printed code and an (rsp, x87) effect that holds of straight-line code with its
    `delta` and is closed under concatenation (the label counter only grows) -/
class CodePred (P : CodeK) : Prop where
  lines : ∀ {lo hi : Nat} {ls : List Line} {r x : Int}, delta ls = some ⟨r, x⟩ → lo ≤ hi → P lo hi ls r x
  append : ∀ {lo mid hi : Nat} {a b : List Line} {r1 x1 r2 x2 : Int},
    P lo mid a r1 x1 → P mid hi b r2 x2 → P lo hi (a ++ b) (r1 + r2) (x1 + x2)

/-- straight-line code with effect (r, x) -/
def Straight (_lo _hi : Nat) (ls : List Line) (r x : Int) : Prop := delta ls = some ⟨r, x⟩

instance : CodePred Straight where
  lines h _ := h
  append := by
    intro lo mid hi a b r1 x1 r2 x2 h1 h2
    unfold Straight at *
    rw [delta_append, h1, h2]
    simp [H.add_def]

def SemP (P : CodeK) (m : M α) (r x d : Int) : Prop :=
  ∀ s a s' ls, m s = .ok (a, s', ls) → P s.count s'.count ls r x ∧ s'.depth = s.depth + d

/-- the straight-line judgment -/
abbrev Sem (m : M α) (r x d : Int) : Prop := SemP Straight m r x d

variable {K : CodeK} [CodePred K]

omit [CodePred K] in
theorem SemP.cast {m : M α} (h : SemP K m r x d) (hr : r = r') (hx : x = x') (hd : d = d') :
    SemP K m r' x' d' := by
  subst hr hx hd; exact h

theorem P_nil (n : Nat) : K n n [] 0 0 := CodePred.lines (by simp [delta, H.zero]) (Nat.le_refl n)

theorem Sem_pure (a : α) : SemP K (pure a : M α) 0 0 0 := by
  intro s a' s' ls h
  simp only [pure, M.pure, Except.ok.injEq, Prod.mk.injEq] at h
  obtain ⟨_, rfl, rfl⟩ := h
  exact ⟨P_nil _, by simp⟩

theorem Sem_bind {m : M α} {f : α → M β} (h1 : SemP K m r1 x1 d1) (h2 : ∀ a, SemP K (f a) r2 x2 d2) :
    SemP K (m >>= f) (r1 + r2) (x1 + x2) (d1 + d2) := by
  intro s b s' ls h
  simp only [bind, M.bind] at h
  split at h
  · cases h
  · rename_i a s1 l1 hm
    split at h
    · cases h
    · rename_i b' s2 l2 hf
      simp only [Except.ok.injEq, Prod.mk.injEq] at h
      obtain ⟨rfl, rfl, rfl⟩ := h
      obtain ⟨e1, e2⟩ := h1 _ _ _ _ hm
      obtain ⟨e3, e4⟩ := h2 a _ _ _ _ hf
      exact ⟨CodePred.append e1 e3, by simp [e4, e2, Int.add_assoc]⟩

/-- the continuation may use what the first action returned, as long as it succeeded with it -/
theorem Sem_bind' {m : M α} {f : α → M β} (h1 : SemP K m r1 x1 d1)
    (h2 : ∀ a s s' l, m s = .ok (a, s', l) → SemP K (f a) r2 x2 d2) :
    SemP K (m >>= f) (r1 + r2) (x1 + x2) (d1 + d2) := by
  intro s b s' ls h
  simp only [bind, M.bind] at h
  split at h
  · cases h
  · rename_i a s1 l1 hm
    split at h
    · cases h
    · rename_i b' s2 l2 hf
      simp only [Except.ok.injEq, Prod.mk.injEq] at h
      obtain ⟨rfl, rfl, rfl⟩ := h
      obtain ⟨e1, e2⟩ := h1 _ _ _ _ hm
      obtain ⟨e3, e4⟩ := h2 a _ _ _ hm _ _ _ _ hf
      exact ⟨CodePred.append e1 e3, by simp [e4, e2, Int.add_assoc]⟩

omit [CodePred K] in
theorem Sem_fail (msg : String) : SemP K (fail msg : M α) r x d := by
  intro s a s' ls h; cases h

theorem Sem_emit {l : Line} (h : lineDelta l = some ⟨r, x⟩) : SemP K (emit l) r x 0 := by
  intro s a s' ls hm
  simp only [emit, Except.ok.injEq, Prod.mk.injEq] at hm
  obtain ⟨_, rfl, rfl⟩ := hm
  exact ⟨CodePred.lines (by simp [delta, h, H.zero]) (Nat.le_refl _), by simp⟩

theorem Sem_emits {ls : List Line} (h : delta ls = some ⟨r, x⟩) : SemP K (emits ls) r x 0 := by
  intro s a s' l hm
  simp only [emits, Except.ok.injEq, Prod.mk.injEq] at hm
  obtain ⟨_, rfl, rfl⟩ := hm
  exact ⟨CodePred.lines h (Nat.le_refl _), by simp⟩

theorem Sem_addDepth (k : Int) : SemP K (addDepth k) 0 0 k := by
  intro s a s' ls h
  simp only [addDepth, Except.ok.injEq, Prod.mk.injEq] at h
  obtain ⟨_, rfl, rfl⟩ := h
  exact ⟨P_nil _, by simp⟩

theorem Sem_getDepth : SemP K getDepth 0 0 0 := by
  intro s a s' ls h
  simp only [getDepth, Except.ok.injEq, Prod.mk.injEq] at h
  obtain ⟨_, rfl, rfl⟩ := h
  exact ⟨P_nil _, by simp⟩

theorem Sem_count : SemP K count 0 0 0 := by
  intro s a s' ls h
  simp only [count, Except.ok.injEq, Prod.mk.injEq] at h
  obtain ⟨_, rfl, rfl⟩ := h
  exact ⟨CodePred.lines (by simp [delta, H.zero]) (Nat.le_succ _), by simp⟩

theorem Sem_liftE (e : Except String α) : SemP K (liftE e) 0 0 0 := by
  cases e with
  | error m => exact Sem_fail m
  | ok a => exact Sem_pure a

theorem Sem_needTy (w : String) (t : Option Ty) : SemP K (needTy w t) 0 0 0 := by
  cases t with
  | none => exact Sem_fail _
  | some t => exact Sem_pure t

theorem Sem_needVar (w : String) (t : Option Var) : SemP K (needVar w t) 0 0 0 := by
  cases t with
  | none => exact Sem_fail _
  | some t => exact Sem_pure t

/-- what `needTy` returns is the type it was given -/
theorem needTy_eq {w : String} {t : Option Ty} {a : Ty} {s s' : St} {l : List Line}
    (h : needTy w t s = .ok (a, s', l)) : t = some a := by
  cases t with
  | none => cases h
  | some t =>
    simp only [needTy, pure, M.pure, Except.ok.injEq, Prod.mk.injEq] at h
    rw [h.1]

theorem Sem_argreg (tbl : List String) (r : Int) : SemP K (argreg tbl r) 0 0 0 := by
  unfold argreg
  split
  · exact Sem_fail _
  · split
    · exact Sem_pure _
    · exact Sem_fail _

theorem Sem_regAx (sz : Int) : SemP K (regAx sz) 0 0 0 := by
  unfold regAx
  repeat' split
  all_goals first | exact Sem_pure _ | exact Sem_fail _

theorem Sem_regDx (sz : Int) : SemP K (regDx sz) 0 0 0 := by
  unfold regDx
  repeat' split
  all_goals first | exact Sem_pure _ | exact Sem_fail _

/-! ### `node->ty` of each constructor -/

@[simp] theorem ty?_nullExpr : (Node.nullExpr i).ty? = i.ty := rfl
@[simp] theorem ty?_binop : (Node.binop i op lhs rhs).ty? = i.ty := rfl
@[simp] theorem ty?_neg : (Node.neg i lhs).ty? = i.ty := rfl
@[simp] theorem ty?_assign : (Node.assign i lhs rhs).ty? = i.ty := rfl
@[simp] theorem ty?_cond : (Node.cond i c t e).ty? = i.ty := rfl
@[simp] theorem ty?_comma : (Node.comma i lhs rhs).ty? = i.ty := rfl
@[simp] theorem ty?_member : (Node.member i lhs mem).ty? = i.ty := rfl
@[simp] theorem ty?_addr : (Node.addr i lhs).ty? = i.ty := rfl
@[simp] theorem ty?_deref : (Node.deref i lhs).ty? = i.ty := rfl
@[simp] theorem ty?_not : (Node.not i lhs).ty? = i.ty := rfl
@[simp] theorem ty?_bitnot : (Node.bitnot i lhs).ty? = i.ty := rfl
@[simp] theorem ty?_logand : (Node.logand i lhs rhs).ty? = i.ty := rfl
@[simp] theorem ty?_logor : (Node.logor i lhs rhs).ty? = i.ty := rfl
@[simp] theorem ty?_ret : (Node.ret i lhs).ty? = i.ty := rfl
@[simp] theorem ty?_if_ : (Node.if_ i c t e).ty? = i.ty := rfl
@[simp] theorem ty?_for_ : (Node.for_ i a b c d e f).ty? = i.ty := rfl
@[simp] theorem ty?_do_ : (Node.do_ i a b c d).ty? = i.ty := rfl
@[simp] theorem ty?_switch_ : (Node.switch_ i a b c d e).ty? = i.ty := rfl
@[simp] theorem ty?_case_ : (Node.case_ i a b c d).ty? = i.ty := rfl
@[simp] theorem ty?_block : (Node.block i b).ty? = i.ty := rfl
@[simp] theorem ty?_goto_ : (Node.goto_ i a b).ty? = i.ty := rfl
@[simp] theorem ty?_gotoExpr : (Node.gotoExpr i lhs).ty? = i.ty := rfl
@[simp] theorem ty?_label : (Node.label i a b c).ty? = i.ty := rfl
@[simp] theorem ty?_labelVal : (Node.labelVal i a b).ty? = i.ty := rfl
@[simp] theorem ty?_funcall : (Node.funcall i a b c d).ty? = i.ty := rfl
@[simp] theorem ty?_exprStmt : (Node.exprStmt i lhs).ty? = i.ty := rfl
@[simp] theorem ty?_stmtExpr : (Node.stmtExpr i b).ty? = i.ty := rfl
@[simp] theorem ty?_var : (Node.var i v).ty? = i.ty := rfl
@[simp] theorem ty?_vlaPtr : (Node.vlaPtr i v).ty? = i.ty := rfl
@[simp] theorem ty?_num : (Node.num i a b c d e).ty? = i.ty := rfl
@[simp] theorem ty?_cast : (Node.cast i lhs).ty? = i.ty := rfl
@[simp] theorem ty?_memzero : (Node.memzero i v).ty? = i.ty := rfl
@[simp] theorem ty?_asm_ : (Node.asm_ i s).ty? = i.ty := rfl
@[simp] theorem ty?_cas : (Node.cas i a b c).ty? = i.ty := rfl
@[simp] theorem ty?_exch : (Node.exch i lhs rhs).ty? = i.ty := rfl
@[simp] theorem ty?_null : Node.null.ty? = none := rfl

theorem xOf_eq_of_isLD {a b : Option Ty} (h : isLD a = isLD b) : xOf a = xOf b := by simp [xOf, h]
theorem xOf_zero {a : Option Ty} (h : isLD a = false) : xOf a = 0 := by simp [xOf, h]
theorem xOf_one {a : Option Ty} (h : isLD a = true) : xOf a = 1 := by simp [xOf, h]

theorem Sem_nullDeref (w : String) : SemP K (nullDeref w : M α) r x d := Sem_fail _

/-- first action carries the effect, the rest has none -/
theorem Sem_bind_l {m : M α} {f : α → M β} (h1 : SemP K m r x d) (h2 : ∀ a, SemP K (f a) 0 0 0) :
    SemP K (m >>= f) r x d :=
  (Sem_bind h1 h2).cast (by omega) (by omega) (by omega)

-- from here on `Sem` is opaque to `intro`/`apply`: the judgment is only built with the rules above
attribute [irreducible] SemP

/-! ### tactic: derive `Sem m r x d` top-down -/

/-- top-down sequencing: the first action is a leaf with a known effect, the continuation must
    account for the remainder of the target -/
theorem Sem_bind_td {m : M α} {f : α → M β} {r x d r1 x1 d1 : Int} (h1 : SemP K m r1 x1 d1)
    (h2 : ∀ a, SemP K (f a) (r - r1) (x - x1) (d - d1)) : SemP K (m >>= f) r x d :=
  (Sem_bind h1 h2).cast (by omega) (by omega) (by omega)

theorem Sem_bind0 {m : M α} {f : α → M β} (h1 : SemP K m 0 0 0) (h2 : ∀ a, SemP K (f a) r x d) :
    SemP K (m >>= f) r x d :=
  (Sem_bind h1 h2).cast (by omega) (by omega) (by omega)

/-- `let t ← needTy w ty?; f t`: the continuation sees the type that was passed -/
theorem Sem_needTy_bind {w : String} {ty? : Option Ty} {f : Ty → M β}
    (h : ∀ t, ty? = some t → SemP K (f t) r x d) : SemP K (needTy w ty? >>= f) r x d := by
  refine (Sem_bind' (Sem_needTy w ty?) (fun a s s' l hm => h a (needTy_eq hm))).cast ?_ ?_ ?_ <;> omega

theorem needVar_eq {w : String} {t : Option Var} {a : Var} {s s' : St} {l : List Line}
    (h : needVar w t s = .ok (a, s', l)) : t = some a := by
  cases t with
  | none => cases h
  | some t =>
    simp only [needVar, pure, M.pure, Except.ok.injEq, Prod.mk.injEq] at h
    rw [h.1]

theorem Sem_needVar_bind {w : String} {v? : Option Var} {f : Var → M β}
    (h : ∀ v, v? = some v → SemP K (f v) r x d) : SemP K (needVar w v? >>= f) r x d := by
  refine (Sem_bind' (Sem_needVar w v?) (fun a s s' l hm => h a (needVar_eq hm))).cast ?_ ?_ ?_ <;> omega

/-- a leaf: an action whose effect is known (rules are added to this tactic as lemmas are proved) -/
syntax "sem_leaf" : tactic
macro_rules
  | `(tactic| sem_leaf) => `(tactic| first
      | exact Sem_pure _
      | exact Sem_emit rfl
      | exact Sem_addDepth _
      | exact Sem_getDepth
      | exact Sem_count
      | exact Sem_needTy _ _
      | exact Sem_needVar _ _
      | exact Sem_liftE _
      | exact Sem_argreg _ _
      | exact Sem_regAx _
      | exact Sem_regDx _
      | assumption)

/-- close the arithmetic side conditions -/
syntax "sem_arith" : tactic
macro_rules
  | `(tactic| sem_arith) => `(tactic| first
      | rfl | omega | (simp; done) | (simp; omega)
      | (simp [xOf, isLD, isCmp, *]; done) | (simp [xOf, isLD, isCmp, *]; omega))

/-- derive `Sem m r x d`: peel the `do` block action by action, split every `if`/`match` -/
syntax "sem" : tactic
macro_rules
  | `(tactic| sem) => `(tactic| repeat' (first
      | exact Sem_fail _
      | exact Sem_nullDeref _
      | (refine SemP.cast (by sem_leaf) ?_ ?_ ?_ <;> sem_arith)
      | (refine Sem_bind_td (by sem_leaf) (fun _ => ?_))
      | dsimp only
      | split
      | (exfalso; simp_all; done)))

/-! ### push / pop / discard / loc -/

theorem Sem_push : SemP K push (-8) 0 1 := by unfold push; sem
theorem Sem_pop (a : String) (h : a ≠ "%rsp") : SemP K (pop a) 8 0 (-1) := by
  unfold pop
  have : lineDelta (ins1 "pop" (.r a)) = some ⟨8, 0⟩ := by
    simp [lineDelta, ins1, insDelta, dstIsRsp, isRsp, h]
  have := Sem_emit (K := K) this
  sem
theorem Sem_pushf : SemP K pushf (-8) 0 1 := by unfold pushf; sem
theorem Sem_popf (n : Nat) : SemP K (popf n) 8 0 (-1) := by unfold popf; sem

theorem xOf_some (t : Ty) : xOf (some t) = if t.kind = .ldouble then 1 else 0 := by
  simp [xOf, isLD]

theorem Sem_discard (t : Option Ty) : SemP K (Codegen.discard t) 0 (-(xOf t)) 0 := by
  unfold Codegen.discard
  cases t with
  | none => exact (Sem_pure ()).cast rfl (by simp [xOf, isLD]) rfl
  | some t => rw [xOf_some]; sem

theorem Sem_loc (i : NInfo) : SemP K (loc i) 0 0 0 := by unfold loc; exact Sem_emit rfl

macro_rules
  | `(tactic| sem_leaf) => `(tactic| first
      | exact Sem_push | exact Sem_pushf | exact Sem_popf _ | exact Sem_pop _ (by decide)
      | exact Sem_discard _ | exact Sem_loc _)

/-! ### gen_addr leaf, load, store, cmp_zero -/

theorem Sem_addrVar (env : Env) (i : NInfo) (v : Option Var) : SemP K (addrVar env i v) 0 0 0 := by
  unfold addrVar
  sem

theorem Sem_addrMember {a : M Unit} (h : SemP K a 0 0 0) (mem : Option Member) :
    SemP K (addrMember a mem) 0 0 0 := by
  unfold addrMember
  sem

theorem Sem_load (ty? : Option Ty) : SemP K (load ty?) 0 (xOf ty?) 0 := by
  unfold load
  refine Sem_needTy_bind fun ty hty => ?_
  subst hty
  rw [xOf_some]
  sem

theorem delta_copyBytes (src tmp dst : String) (hs : tmp ≠ "%rsp") (i n : Nat) :
    delta (copyBytes src tmp dst i n) = some ⟨0, 0⟩ := by
  induction n generalizing i with
  | zero => simp [copyBytes, delta, H.zero]
  | succ n ih =>
    have h1 : lineDelta (ins2 "mov" (.m (↑i) src) (.r tmp)) = some ⟨0, 0⟩ := by
      simp [lineDelta, ins2, insDelta, dstIsRsp, isRsp, hs, x87Push, x87Pop, x87Same, plainOps]
    have h2 : lineDelta (ins2 "mov" (.r tmp) (.m (↑i) dst)) = some ⟨0, 0⟩ := by rfl
    simp [copyBytes, delta, h1, h2, ih]

theorem Sem_copyBytes (src tmp dst : String) (hs : tmp ≠ "%rsp") (i n : Nat) :
    SemP K (emits (copyBytes src tmp dst i n)) 0 0 0 :=
  Sem_emits (delta_copyBytes src tmp dst hs i n)

macro_rules
  | `(tactic| sem_leaf) => `(tactic| exact Sem_copyBytes _ _ _ (by decide) _ _)

theorem Sem_store (ty? : Option Ty) : SemP K (store ty?) 8 0 (-1) := by
  unfold store
  sem

theorem Sem_cmpZeroTail : SemP K (emits cmpZeroTail) 0 0 0 := Sem_emits rfl

theorem Sem_cmpZero (ty? : Option Ty) : SemP K (cmpZero ty?) 0 (-(xOf ty?)) 0 := by
  unfold cmpZero
  refine Sem_needTy_bind fun ty hty => ?_
  subst hty
  rw [xOf_some]
  have := Sem_cmpZeroTail (K := K)
  sem

macro_rules
  | `(tactic| sem_leaf) => `(tactic| first
      | exact Sem_addrVar _ _ _ | exact Sem_load _ | exact Sem_store _ | exact Sem_cmpZero _)

/-! ### cast: the whole table -/

/-- 1 for the type id of long double -/
def f80 (t : Nat) : Int := if t = Gen.CastTable.F80 then 1 else 0

/-- every cell of `cast_table` is straight-line, leaves %rsp alone, and changes the x87 depth by
    exactly (to is long double) − (from is long double) -/
theorem castTable_delta : ∀ t1, t1 < 11 → ∀ t2, t2 < 11 →
    (match Gen.CastTable.castCell t1 t2 with
     | some l => lineDelta l
     | none => some H.zero) = some ⟨0, f80 t2 - f80 t1⟩ := by
  decide

theorem getTypeId_lt (k : TyKind) (u : Bool) : Gen.CastTable.getTypeId k u < 11 := by
  cases k <;> cases u <;> decide

theorem f80_getTypeId (k : TyKind) (u : Bool) :
    f80 (Gen.CastTable.getTypeId k u) = if k = .ldouble then 1 else 0 := by
  cases k <;> cases u <;> decide

theorem Sem_cast (from? to? : Option Ty) : SemP K (Codegen.cast from? to?) 0 (xOf to? - xOf from?) 0 := by
  unfold Codegen.cast
  refine Sem_needTy_bind fun to hto => ?_
  subst hto
  rw [xOf_some]
  by_cases hv : to.kind = .void
  · simp only [hv, beq_self_eq_true, if_true, reduceCtorEq, if_false]
    exact (Sem_discard from?).cast rfl (by omega) rfl
  · have hv' : (to.kind == TyKind.void) = false := by simpa using hv
    simp only [hv']
    by_cases hb : to.kind = .bool
    · simp only [hb, beq_self_eq_true, if_true, reduceCtorEq, if_false]
      sem
    · have hb' : (to.kind == TyKind.bool) = false := by simpa using hb
      simp only [hb', Bool.false_eq_true, if_false]
      refine Sem_needTy_bind fun fr hfr => ?_
      subst hfr
      rw [xOf_some]
      have hcell := castTable_delta _ (getTypeId_lt fr.kind fr.isUnsigned) _ (getTypeId_lt to.kind to.isUnsigned)
      rw [f80_getTypeId, f80_getTypeId] at hcell
      split
      · rename_i l hl
        rw [hl] at hcell
        exact Sem_emit hcell
      · rename_i hl
        rw [hl] at hcell
        simp only [H.zero, Option.some.injEq, H.mk.injEq] at hcell
        exact (Sem_pure ()).cast rfl hcell.2 rfl

macro_rules
  | `(tactic| sem_leaf) => `(tactic| exact Sem_cast _ _)

/-! ### gen_expr arms without control flow -/

theorem Sem_numArm (i : NInfo) (val : Int) (a b c d : Nat) : SemP K (numArm i val a b c d) 0 (xOf i.ty) 0 := by
  unfold numArm
  refine Sem_needTy_bind fun ty hty => ?_
  rw [hty, xOf_some]
  sem

theorem Sem_negArm (i : NInfo) {lhs : M Unit} {xl : Int} (h : SemP K lhs 0 xl 0) :
    SemP K (negArm i lhs) 0 xl 0 := by
  unfold negArm
  sem

theorem Sem_bitfieldExtract (env : Env) (mem : Member) : SemP K (bitfieldExtract env mem) 0 0 0 := by
  unfold bitfieldExtract
  sem

macro_rules
  | `(tactic| sem_leaf) => `(tactic| exact Sem_bitfieldExtract _ _)

theorem Sem_memberArm (i : NInfo) {a : M Unit} (h : SemP K a 0 0 0) (mem : Option Member) (env : Env) :
    SemP K (memberArm i a mem env) 0 (xOf i.ty) 0 := by
  unfold memberArm
  have h1 := Sem_addrMember h mem
  sem

/-- x87 effect of the bit-field path of an assignment: `load(mem->ty)` -/
def bfX (env : Env) (bf : Option Member) : Int :=
  match bf with
  | some m => xOf (env.ty? m.ty)
  | none => 0

theorem Sem_assignArm (env : Env) (i : NInfo) (bf : Option Member) {a r : M Unit} {xr : Int}
    (ha : SemP K a 0 0 0) (hr : SemP K r 0 xr 0) : SemP K (assignArm env i bf a r) 0 (xr + bfX env bf) 0 := by
  unfold assignArm bfX
  sem

theorem Sem_notArm {lhs : M Unit} (lty : Option Ty) (h : SemP K lhs 0 (xOf lty) 0) :
    SemP K (notArm lhs lty) 0 0 0 := by
  unfold notArm
  sem

theorem Sem_memzeroArm (env : Env) (v : Option Var) : SemP K (memzeroArm env v) 0 0 0 := by
  unfold memzeroArm
  sem

theorem Sem_exchArm (env : Env) {lhs rhs : M Unit} (lty : Option Ty) {xl xr : Int}
    (hl : SemP K lhs 0 xl 0) (hr : SemP K rhs 0 xr 0) : SemP K (exchArm env lhs lty rhs) 0 (xl + xr) 0 := by
  unfold exchArm
  sem


theorem Sem_binopFlo (sz : String) (hsz : sz = "ss" ∨ sz = "sd") (op : BinOp) {lhs rhs : M Unit}
    (hl : SemP K lhs 0 0 0) (hr : SemP K rhs 0 0 0) : SemP K (binopFlo sz op lhs rhs) 0 0 0 := by
  unfold binopFlo
  rcases hsz with rfl | rfl <;> cases op <;> sem

theorem Sem_binopLd (op : BinOp) {lhs rhs : M Unit} (hl : SemP K lhs 0 1 0) (hr : SemP K rhs 0 1 0) :
    SemP K (binopLd op lhs rhs) 0 (if isCmp op then 0 else 1) 0 := by
  unfold binopLd
  cases op <;> sem

theorem Sem_binopInt (i : NInfo) (op : BinOp) (lty : Ty) {lhs rhs : M Unit}
    (hl : SemP K lhs 0 0 0) (hr : SemP K rhs 0 0 0) : SemP K (binopInt i op lty lhs rhs) 0 0 0 := by
  unfold binopInt
  cases op <;> sem

end ChibiVerif.Lemmas.C20
