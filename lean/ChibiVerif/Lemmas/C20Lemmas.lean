/-
Helper lemmas for C20 (Props/C20.lean): the straight-line effect of every piece of
`Model/Codegen` as a Hoare-style judgment `Sem m r x d`:

  whenever the code generator `m` succeeds, the lines it printed are straight-line code with
  effect (Δrsp = r, Δx87 = x) and the `depth` counter has changed by `d`.
-/
import ChibiVerif.Model.Codegen
import ChibiVerif.Model.Effect

namespace ChibiVerif.Lemmas.C20
open ChibiVerif ChibiVerif.Codegen ChibiVerif.Effect ChibiVerif.Asm ChibiVerif.Ast

def Sem (m : M α) (r x d : Int) : Prop :=
  ∀ s a s' ls, m s = .ok (a, s', ls) → delta ls = some ⟨r, x⟩ ∧ s'.depth = s.depth + d

theorem Sem.cast {m : M α} (h : Sem m r x d) (hr : r = r') (hx : x = x') (hd : d = d') :
    Sem m r' x' d' := by
  subst hr hx hd; exact h

theorem Sem_pure (a : α) : Sem (pure a : M α) 0 0 0 := by
  intro s a' s' ls h
  simp only [pure, M.pure, Except.ok.injEq, Prod.mk.injEq] at h
  obtain ⟨_, rfl, rfl⟩ := h
  simp [delta, H.zero]

theorem Sem_bind {m : M α} {f : α → M β} (h1 : Sem m r1 x1 d1) (h2 : ∀ a, Sem (f a) r2 x2 d2) :
    Sem (m >>= f) (r1 + r2) (x1 + x2) (d1 + d2) := by
  intro s b s' ls h
  simp only [bind, M.bind] at h
  split at h
  · cases h
  · rename_i a s1 l1 hm
    split at h
    · cases h
    · rename_i b' s2 l2 hf
      simp only [Except.ok.injEq, Prod.mk.injEq] at h
      obtain ⟨rfl, rfl, rfl⟩ := h
      obtain ⟨e1, e2⟩ := h1 _ _ _ _ hm
      obtain ⟨e3, e4⟩ := h2 a _ _ _ _ hf
      rw [delta_append, e1, e3]
      simp [H.add_def, e4, e2, Int.add_assoc]

/-- the continuation may use what the first action returned, as long as it succeeded with it -/
theorem Sem_bind' {m : M α} {f : α → M β} (h1 : Sem m r1 x1 d1)
    (h2 : ∀ a s s' l, m s = .ok (a, s', l) → Sem (f a) r2 x2 d2) :
    Sem (m >>= f) (r1 + r2) (x1 + x2) (d1 + d2) := by
  intro s b s' ls h
  simp only [bind, M.bind] at h
  split at h
  · cases h
  · rename_i a s1 l1 hm
    split at h
    · cases h
    · rename_i b' s2 l2 hf
      simp only [Except.ok.injEq, Prod.mk.injEq] at h
      obtain ⟨rfl, rfl, rfl⟩ := h
      obtain ⟨e1, e2⟩ := h1 _ _ _ _ hm
      obtain ⟨e3, e4⟩ := h2 a _ _ _ hm _ _ _ _ hf
      rw [delta_append, e1, e3]
      simp [H.add_def, e4, e2, Int.add_assoc]

theorem Sem_fail (msg : String) : Sem (fail msg : M α) r x d := by
  intro s a s' ls h; cases h

theorem Sem_emit {l : Line} (h : lineDelta l = some ⟨r, x⟩) : Sem (emit l) r x 0 := by
  intro s a s' ls hm
  simp only [emit, Except.ok.injEq, Prod.mk.injEq] at hm
  obtain ⟨_, rfl, rfl⟩ := hm
  simp [delta, h, H.zero]

theorem Sem_emits {ls : List Line} (h : delta ls = some ⟨r, x⟩) : Sem (emits ls) r x 0 := by
  intro s a s' l hm
  simp only [emits, Except.ok.injEq, Prod.mk.injEq] at hm
  obtain ⟨_, rfl, rfl⟩ := hm
  simp [h]

theorem Sem_addDepth (k : Int) : Sem (addDepth k) 0 0 k := by
  intro s a s' ls h
  simp only [addDepth, Except.ok.injEq, Prod.mk.injEq] at h
  obtain ⟨_, rfl, rfl⟩ := h
  simp [delta, H.zero]

theorem Sem_getDepth : Sem getDepth 0 0 0 := by
  intro s a s' ls h
  simp only [getDepth, Except.ok.injEq, Prod.mk.injEq] at h
  obtain ⟨_, rfl, rfl⟩ := h
  simp [delta, H.zero]

theorem Sem_count : Sem count 0 0 0 := by
  intro s a s' ls h
  simp only [count, Except.ok.injEq, Prod.mk.injEq] at h
  obtain ⟨_, rfl, rfl⟩ := h
  simp [delta, H.zero]

theorem Sem_liftE (e : Except String α) : Sem (liftE e) 0 0 0 := by
  cases e with
  | error m => exact Sem_fail m
  | ok a => exact Sem_pure a

theorem Sem_needTy (w : String) (t : Option Ty) : Sem (needTy w t) 0 0 0 := by
  cases t with
  | none => exact Sem_fail _
  | some t => exact Sem_pure t

theorem Sem_needVar (w : String) (t : Option Var) : Sem (needVar w t) 0 0 0 := by
  cases t with
  | none => exact Sem_fail _
  | some t => exact Sem_pure t

/-- what `needTy` returns is the type it was given -/
theorem needTy_eq {w : String} {t : Option Ty} {a : Ty} {s s' : St} {l : List Line}
    (h : needTy w t s = .ok (a, s', l)) : t = some a := by
  cases t with
  | none => cases h
  | some t =>
    simp only [needTy, pure, M.pure, Except.ok.injEq, Prod.mk.injEq] at h
    rw [h.1]

theorem Sem_argreg (tbl : List String) (r : Int) : Sem (argreg tbl r) 0 0 0 := by
  unfold argreg
  split
  · exact Sem_fail _
  · split
    · exact Sem_pure _
    · exact Sem_fail _

theorem Sem_regAx (sz : Int) : Sem (regAx sz) 0 0 0 := by
  unfold regAx
  repeat' split
  all_goals first | exact Sem_pure _ | exact Sem_fail _

theorem Sem_regDx (sz : Int) : Sem (regDx sz) 0 0 0 := by
  unfold regDx
  repeat' split
  all_goals first | exact Sem_pure _ | exact Sem_fail _

-- from here on `Sem` is opaque to `intro`/`apply`: the judgment is only built with the rules above
attribute [irreducible] Sem

/-! ### tactic: compose a `do` block -/

/-- solve `Sem m ?r ?x ?d` for a sequential block whose leaves are known -/
syntax "sem_steps" : tactic
macro_rules
  | `(tactic| sem_steps) => `(tactic| repeat (first
      | exact Sem_pure _
      | exact Sem_emit rfl
      | exact Sem_addDepth _
      | exact Sem_getDepth
      | exact Sem_count
      | exact Sem_fail _
      | exact Sem_needTy _ _
      | exact Sem_needVar _ _
      | exact Sem_liftE _
      | exact Sem_argreg _ _
      | exact Sem_regAx _
      | exact Sem_regDx _
      | assumption
      | apply Sem_bind
      | intro _))

/-- prove `Sem m r x d` for concrete `r x d`: compose, then check the sums -/
syntax "sem_prove" : tactic
macro_rules
  | `(tactic| sem_prove) => `(tactic|
      (apply Sem.cast
       case h => sem_steps
       all_goals (first | rfl | omega | (simp; done) | (simp; omega))))

/-! ### push / pop / discard / loc -/

theorem Sem_push : Sem push (-8) 0 1 := by unfold push; sem_prove
theorem Sem_pop (a : String) (h : a ≠ "%rsp") : Sem (pop a) 8 0 (-1) := by
  unfold pop
  have : lineDelta (ins1 "pop" (.r a)) = some ⟨8, 0⟩ := by
    simp [lineDelta, ins1, insDelta, dstIsRsp, isRsp, h]
  refine Sem.cast (Sem_bind (Sem_emit this) (fun _ => Sem_addDepth _)) ?_ ?_ ?_ <;> rfl
theorem Sem_pushf : Sem pushf (-8) 0 1 := by unfold pushf; sem_prove
theorem Sem_popf (n : Nat) : Sem (popf n) 8 0 (-1) := by unfold popf; sem_prove

def isLD (t : Option Ty) : Bool :=
  match t with
  | some t => t.kind == .ldouble
  | none => false

/-- +1 for a long double, 0 for every other type -/
def xOf (t : Option Ty) : Int := if isLD t then 1 else 0

theorem Sem_discard (t : Option Ty) : Sem (Codegen.discard t) 0 (-(xOf t)) 0 := by
  unfold Codegen.discard xOf isLD
  cases t with
  | none => simpa using Sem_pure ()
  | some t =>
    by_cases h : t.kind = .ldouble
    · simp only [h, beq_self_eq_true, if_true]; sem_prove
    · have : (t.kind == TyKind.ldouble) = false := by simpa using h
      simp only [this]; simpa using Sem_pure ()

theorem Sem_loc (i : NInfo) : Sem (loc i) 0 0 0 := by unfold loc; exact Sem_emit rfl


/-! ### branching helpers -/

theorem Sem_bind0 {m : M α} {f : α → M β} (h1 : Sem m 0 0 0) (h2 : ∀ a, Sem (f a) r x d) :
    Sem (m >>= f) r x d :=
  (Sem_bind h1 h2).cast (by omega) (by omega) (by omega)

/-- `let t ← needTy w ty?; f t`: the continuation sees the type that was passed -/
theorem Sem_needTy_bind {w : String} {ty? : Option Ty} {f : Ty → M β}
    (h : ∀ t, ty? = some t → Sem (f t) r x d) : Sem (needTy w ty? >>= f) r x d := by
  refine (Sem_bind' (Sem_needTy w ty?) (fun a s s' l hm => h a (needTy_eq hm))).cast ?_ ?_ ?_ <;> omega

theorem needVar_eq {w : String} {t : Option Var} {a : Var} {s s' : St} {l : List Line}
    (h : needVar w t s = .ok (a, s', l)) : t = some a := by
  cases t with
  | none => cases h
  | some t =>
    simp only [needVar, pure, M.pure, Except.ok.injEq, Prod.mk.injEq] at h
    rw [h.1]

theorem Sem_needVar_bind {w : String} {v? : Option Var} {f : Var → M β}
    (h : ∀ v, v? = some v → Sem (f v) r x d) : Sem (needVar w v? >>= f) r x d := by
  refine (Sem_bind' (Sem_needVar w v?) (fun a s s' l hm => h a (needVar_eq hm))).cast ?_ ?_ ?_ <;> omega

/-- zero-effect actions whose result the rest does not depend on (for the effect) -/
syntax "sem_zero" : tactic
macro_rules
  | `(tactic| sem_zero) => `(tactic| first
      | exact Sem_needTy _ _
      | exact Sem_needVar _ _
      | exact Sem_liftE _
      | exact Sem_getDepth
      | exact Sem_count
      | exact Sem_argreg _ _
      | exact Sem_regAx _
      | exact Sem_regDx _
      | exact Sem_pure _)

/-- peel zero-effect prefixes and split every `if`/`match`, then compose each branch -/
syntax "sem_auto" : tactic
macro_rules
  | `(tactic| sem_auto) => `(tactic|
      ((repeat' (first
          | (refine Sem_bind0 (by sem_zero) (fun _ => ?_))
          | dsimp only
          | split))
       all_goals sem_prove))

/-! ### gen_addr leaf, load, store, cmp_zero -/

theorem Sem_addrVar (env : Env) (i : NInfo) (v : Option Var) : Sem (addrVar env i v) 0 0 0 := by
  unfold addrVar
  sem_auto

theorem Sem_addrMember {a : M Unit} (h : Sem a 0 0 0) (mem : Option Member) :
    Sem (addrMember a mem) 0 0 0 := by
  unfold addrMember
  cases mem with
  | none => exact Sem_bind0 h (fun _ => Sem_fail _)
  | some m => exact Sem_bind0 h (fun _ => Sem_emit rfl)

theorem xOf_some (t : Ty) : xOf (some t) = if t.kind = .ldouble then 1 else 0 := by
  simp [xOf, isLD]

theorem Sem_load (ty? : Option Ty) : Sem (load ty?) 0 (xOf ty?) 0 := by
  unfold load
  refine Sem_needTy_bind fun ty hty => ?_
  subst hty
  rw [xOf_some]
  cases hk : ty.kind <;> simp only [reduceCtorEq, if_false, if_true] <;> sem_auto

theorem delta_copyBytes (src tmp dst : String) (hs : tmp ≠ "%rsp") (i n : Nat) :
    delta (copyBytes src tmp dst i n) = some ⟨0, 0⟩ := by
  induction n generalizing i with
  | zero => simp [copyBytes, delta, H.zero]
  | succ n ih =>
    have h1 : lineDelta (ins2 "mov" (.m (↑i) src) (.r tmp)) = some ⟨0, 0⟩ := by
      simp [lineDelta, ins2, insDelta, dstIsRsp, isRsp, hs, x87Push, x87Pop, x87Same, plainOps]
    have h2 : lineDelta (ins2 "mov" (.r tmp) (.m (↑i) dst)) = some ⟨0, 0⟩ := by rfl
    simp [copyBytes, delta, h1, h2, ih]

theorem Sem_store (ty? : Option Ty) : Sem (store ty?) 8 0 (-1) := by
  unfold store
  refine (Sem_bind (Sem_pop "%rdi" (by decide)) (fun _ => ?_)).cast (r := 8 + 0) (x := 0 + 0) (d := -1 + 0)
    (by omega) (by omega) (by omega)
  refine Sem_needTy_bind fun ty _ => ?_
  cases hk : ty.kind <;> simp only <;>
    first
    | exact Sem_emits (delta_copyBytes _ _ _ (by decide) _ _)
    | sem_auto

theorem Sem_cmpZero (ty? : Option Ty) : Sem (cmpZero ty?) 0 (-(xOf ty?)) 0 := by
  unfold cmpZero
  refine Sem_needTy_bind fun ty hty => ?_
  subst hty
  rw [xOf_some]
  have ht : delta cmpZeroTail = some ⟨0, 0⟩ := by rfl
  cases hk : ty.kind <;> simp only [reduceCtorEq, if_false, if_true] <;>
    first
    | (apply Sem.cast
       case h => repeat (first | exact Sem_emit rfl | exact Sem_emits ht | apply Sem_bind | intro _)
       all_goals (first | rfl | omega | (simp; done)))
    | sem_auto

end ChibiVerif.Lemmas.C20
