/-
C17 — `rehash` as an obligation of its own.

`Lemmas/HashMapLemmas.lean` proves what the refinement needs from `rehash` (`WF.rehash_spec`:
invariant again, same dictionary, room for one insertion).  This file proves the complete
contract: additionally no tombstone survives, `used` is the number of live names, and the new
capacity is the one an independent specification (`IsRehashCap`: the first capacity in the
doubling sequence that brings the load below the low watermark) prescribes.  It also ties the
model's two load-factor tests and the doubling step to the definitions the translator
regenerates from the text of `rehash()` / `get_or_insert_entry()` (`Gen/HashMapShapeGen.lean`).

Core Lean only.
-/
import ChibiVerif.Lemmas.HashMapLemmas
import ChibiVerif.Gen.HashMapShapeGen

set_option linter.unusedSectionVars false

namespace ChibiVerif.HashMap
open ChibiVerif.Gen.HashMap (INIT_SIZE HIGH_WATERMARK LOW_WATERMARK)
open ChibiVerif.Gen.HashMapShape (rehashGrowCond rehashGrowNext needRehash)

variable {α β : Type}

theorem eq_ok_of_toOption {ε γ : Type} {e : Except ε γ} {a : γ} (h : e.toOption = some a) :
    e = .ok a := by
  cases e with
  | error _ => simp [Except.toOption] at h
  | ok b => simp [Except.toOption] at h; rw [h]

/-! ### The capacity `rehash` must choose -/

/-- **Specification of the new capacity** (no fuel, no loop): `cap'` is `cap` doubled `e` times,
    the load of `nkeys` live names in `cap'` buckets is below the low watermark, and it was not
    below it after fewer doublings.  (`e = 0`: the capacity stays — a rehash that only drops
    tombstones.) -/
def IsRehashCap (nkeys cap cap' : Nat) : Prop :=
  ∃ e, cap' = cap * 2 ^ e ∧ nkeys * 100 / cap' < LOW_WATERMARK ∧
    ∀ e', e' < e → LOW_WATERMARK ≤ nkeys * 100 / (cap * 2 ^ e')

/-- the specification determines the capacity -/
theorem IsRehashCap.unique {n c a b : Nat} (ha : IsRehashCap n c a) (hb : IsRehashCap n c b) :
    a = b := by
  obtain ⟨e1, rfl, h1, m1⟩ := ha
  obtain ⟨e2, rfl, h2, m2⟩ := hb
  rcases Nat.lt_trichotomy e1 e2 with h | h | h
  · have := m2 e1 h; omega
  · rw [h]
  · have := m1 e2 h; omega

/-- the capacity stays exactly when the live names already load the table below the low watermark -/
theorem IsRehashCap.same_iff {n c c' : Nat} (hc : IsRehashCap n c c') :
    c' = c ↔ n * 100 / c < LOW_WATERMARK := by
  constructor
  · intro e
    obtain ⟨_, _, h, _⟩ := hc
    rw [e] at h; exact h
  · intro hlt
    have : IsRehashCap n c c := ⟨0, by simp, hlt, fun e' he' => by omega⟩
    exact hc.unique this

theorem pow2_shift (c e : Nat) : c * 2 * 2 ^ e = c * 2 ^ (e + 1) := by
  rw [Nat.pow_succ, Nat.mul_assoc, Nat.mul_comm 2]

theorem growCap_isRehashCap (nkeys : Nat) : ∀ f cap, 0 < cap →
    nkeys * 100 < LOW_WATERMARK * cap * 2 ^ f → IsRehashCap nkeys cap (HM.growCap nkeys f cap) := by
  intro f
  induction f with
  | zero =>
    intro cap hc hlt
    simp only [HM.growCap, Nat.pow_zero, Nat.mul_one] at *
    exact ⟨0, by simp, (Nat.div_lt_iff_lt_mul hc).2 hlt, fun e' he' => by omega⟩
  | succ f ih =>
    intro cap hc hlt
    rw [HM.growCap]
    split
    · rename_i hge
      have h2 : nkeys * 100 < LOW_WATERMARK * (cap * 2) * 2 ^ f := by
        have : LOW_WATERMARK * (cap * 2) * 2 ^ f = LOW_WATERMARK * cap * 2 ^ (f + 1) := by
          rw [Nat.pow_succ, Nat.mul_comm (2 ^ f) 2, ← Nat.mul_assoc, ← Nat.mul_assoc]
        rw [this]; exact hlt
      obtain ⟨e, he1, he2, he3⟩ := ih (cap * 2) (by omega) h2
      refine ⟨e + 1, by rw [he1, pow2_shift], he2, ?_⟩
      intro e' he'
      cases e' with
      | zero => simpa using hge
      | succ e'' =>
        have := he3 e'' (by omega)
        rwa [pow2_shift] at this
    · rename_i hnot
      exact ⟨0, by simp, by omega, fun e' he' => by omega⟩

theorem growCap_top_isRehashCap (nkeys cap : Nat) (hc : 0 < cap) :
    IsRehashCap nkeys cap (HM.growCap nkeys (nkeys + 2) cap) := by
  apply growCap_isRehashCap nkeys (nkeys + 2) cap hc
  have h1 : nkeys < 2 ^ nkeys := Nat.lt_two_pow_self
  have h2 : 2 ^ (nkeys + 2) = 2 ^ nkeys * 4 := by rw [Nat.pow_add]
  have h3 : LOW_WATERMARK * 1 * 2 ^ (nkeys + 2) ≤ LOW_WATERMARK * cap * 2 ^ (nkeys + 2) :=
    Nat.mul_le_mul_right _ (Nat.mul_le_mul_left _ hc)
  rw [h2] at h3 ⊢
  unfold LOW_WATERMARK at h3 ⊢
  omega

/-! ### The model's arithmetic is the translated arithmetic -/

/-- one round of the model's `growCap` is the `while` of `rehash()` as the translator reads it:
    test `rehashGrowCond`, step `rehashGrowNext` -/
theorem growCap_succ_eq_translated (nkeys f cap : Nat) :
    HM.growCap nkeys (f + 1) cap =
      if rehashGrowCond nkeys cap = true then HM.growCap nkeys f (rehashGrowNext cap) else cap := by
  simp [HM.growCap, rehashGrowCond, rehashGrowNext]

/-- the model's load test before an insertion is the test of `get_or_insert_entry()` as the
    translator reads it -/
theorem needRehash_eq_model (used cap : Nat) :
    needRehash used cap = decide (used * 100 / cap ≥ HIGH_WATERMARK) := rfl

/-! ### The complete contract of `rehash` -/

variable [DecidableEq α]

/-- number of tombstones -/
def tombCount (b : List (Slot α β)) : Nat :=
  b.countP (fun s => match s with | .tomb => true | _ => false)

theorem rehash_used_eq {h : α → Nat} {m m2 : HM α β} (e : HM.rehash h m = .ok m2) :
    m2.used = (HM.liveEntries m.buckets).length := by
  unfold HM.rehash at e
  simp only [bind, Except.bind, pure, Except.pure, throw, throwThe, MonadExceptOf.throw] at e
  split at e
  · cases e
  · split at e
    · cases e
    · split at e
      · cases e
      · rename_i r hr
        split at e
        · cases e
        · rename_i hu
          injection e with e
          subst e
          simpa using hu

/-- **`rehash` on a well-formed table**: it does not abort; the result is well formed (unique
    keys, no empty slot on the probe path of a stored key, `used` = occupied slots < capacity);
    it holds no tombstone; it denotes the same dictionary; its capacity is the specified one;
    `used` is the number of live names; and one more insertion fits. -/
theorem WF.rehash_full {h : α → Nat} {m : HM α β} (w : WF h m) :
    ∃ m2, HM.rehash h m = .ok m2 ∧ WF h m2 ∧ NoTomb m2 ∧ (∀ k, absGet m2 k = absGet m k) ∧
      IsRehashCap (HM.liveEntries m.buckets).length m.buckets.length m2.buckets.length ∧
      m2.used = (HM.liveEntries m.buckets).length ∧
      m2.used + 1 < m2.buckets.length := by
  have hg := growCap_top (HM.liveEntries m.buckets).length m.buckets.length w.cap_pos
  obtain ⟨hge, hlow⟩ := hg
  have hcap : INIT_SIZE ≤ HM.growCap (HM.liveEntries m.buckets).length
      ((HM.liveEntries m.buckets).length + 2) m.buckets.length := Nat.le_trans w.cap_ge hge
  have w0 := WF_replicate (β := β) h hcap
  have hnt0 : NoTomb (⟨List.replicate (HM.growCap (HM.liveEntries m.buckets).length
      ((HM.liveEntries m.buckets).length + 2) m.buckets.length) .empty, 0⟩ : HM α β) := by
    intro j; simp only [slotAt_replicate_empty]; intro e; cases e
  have habs0 : ∀ k, absGet (⟨List.replicate (HM.growCap (HM.liveEntries m.buckets).length
      ((HM.liveEntries m.buckets).length + 2) m.buckets.length) .empty, 0⟩ : HM α β) k = none := by
    intro k; rw [absGet_eq_none_iff]; intro j; simp only [slotAt_replicate_empty]; simp
  obtain ⟨r, hr, wr, hntr, hcr, hur, har⟩ := rehash_fold (h := h) _ _ hlow
    (HM.liveEntries m.buckets) _ w0 hnt0 (by simp) w.live_pairwise
    (fun kv _ => habs0 kv.1) (by simp)
  simp only [Nat.zero_add] at hur
  have hcpos : 0 < HM.growCap (HM.liveEntries m.buckets).length
      ((HM.liveEntries m.buckets).length + 2) m.buckets.length := by
    unfold INIT_SIZE at hcap; omega
  have hrun : HM.rehash h m = .ok r := by
    have hc0 : ¬ HM.growCap (HM.liveEntries m.buckets).length
      ((HM.liveEntries m.buckets).length + 2) m.buckets.length = 0 := by omega
    simp [HM.rehash, isEmpty_eq_false_of_WF w, hc0, hr, hur, bind, Except.bind, pure,
      Except.pure]
  refine ⟨r, hrun, wr, hntr, ?_, ?_, hur, ?_⟩
  · intro k
    apply Option.ext
    intro v
    rw [har, habs0]
    constructor
    · rintro (hm | hf)
      · obtain ⟨j, hj⟩ := mem_liveEntries.1 hm
        exact w.absGet_of_slot hj
      · simp at hf
    · intro hg
      exact Or.inl (mem_liveEntries.2 (slot_of_absGet_eq_some hg))
  · rw [hcr]
    exact growCap_top_isRehashCap _ _ w.cap_pos
  · rw [hur, hcr]
    have := (Nat.div_lt_iff_lt_mul hcpos).1 hlow
    unfold LOW_WATERMARK at this
    unfold INIT_SIZE at hcap
    omega

/-- in a table without tombstones every non-empty slot is a live entry, so `used` counts names -/
theorem NoTomb.tombCount_eq_zero {m : HM α β} (hn : NoTomb m) : tombCount m.buckets = 0 := by
  unfold tombCount
  rw [List.countP_eq_zero]
  intro s hs
  obtain ⟨j, hj, hjs⟩ := List.mem_iff_getElem.1 hs
  have := hn j
  rw [slotAt_eq_getElem hj, hjs] at this
  cases s <;> simp_all

end ChibiVerif.HashMap
