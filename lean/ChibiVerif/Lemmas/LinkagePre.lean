/-
Helper lemmas for C15: the pass in front of `scan_globals` (`preScan`, the repair of C15-tentative-composite-size):
it changes types of data objects only.
-/
import ChibiVerif.Lemmas.LinkageEmit

namespace ChibiVerif.Linkage

variable [Rules]

omit [Rules] in
theorem completeOne_same (gs : List Obj) (o : Obj) : SameButTy (completeOne gs o) o := by
  unfold completeOne
  split
  · split
    · exact ⟨_, rfl⟩
    · exact SameButTy.rfl' o
  · exact SameButTy.rfl' o

theorem preOne_same (gs : List Obj) (o : Obj) : SameButTy (preOne gs o) o := by
  unfold preOne
  split
  · exact completeOne_same gs o
  · exact SameButTy.rfl' o

omit [Rules] in
theorem completeOne_fn (gs : List Obj) {o : Obj} (h : o.isFunction = true) : completeOne gs o = o := by
  simp [completeOne, h]

theorem preOne_fn (gs : List Obj) {o : Obj} (h : o.isFunction = true) : preOne gs o = o := by
  unfold preOne; split
  · exact completeOne_fn gs h
  · rfl

omit [Rules] in
theorem completeOne_known (gs : List Obj) {o : Obj} (h : o.ty.unknownLen = false) : completeOne gs o = o := by
  simp [completeOne, h]

omit [Rules] in
theorem completeOne_hit (gs : List Obj) {o k : Obj} (hf : o.isFunction = false) (ha : o.ty.isArray = true)
    (hu : o.ty.unknownLen = true) (hk : gs.find? (knownArr o.sym) = some k) :
    completeOne gs o = { o with ty := { o.ty with size := k.ty.size, unknownLen := false } } := by
  simp [completeOne, hf, ha, hu, hk]

omit [Rules] in
theorem completeOne_miss (gs : List Obj) {o : Obj} (hk : gs.find? (knownArr o.sym) = none) : completeOne gs o = o := by
  unfold completeOne
  split
  · rw [hk]
  · rfl

theorem preOne_known (gs : List Obj) {o : Obj} (h : o.ty.unknownLen = false) : preOne gs o = o := by
  unfold preOne; split
  · exact completeOne_known gs h
  · rfl

theorem preOne_off (h : Rules.compositeFromDecls = false) (gs : List Obj) (o : Obj) : preOne gs o = o := by
  simp [preOne, h]

theorem preScan_off (h : Rules.compositeFromDecls = false) (gs : List Obj) : preScan gs = gs := by
  unfold preScan
  rw [show preOne gs = id from funext (fun o => preOne_off h gs o)]
  exact List.map_id gs

omit [Rules] in
theorem tyRel_map {φ : Obj → Obj} (h : ∀ o, SameButTy (φ o) o) : ∀ l : List Obj, TyRel l (l.map φ)
  | [] => .nil
  | a :: as => .cons (h a) (tyRel_map h as)

theorem preScan_tyRel (gs : List Obj) : TyRel gs (preScan gs) := tyRel_map (preOne_same gs) gs

theorem mem_preScan {gs : List Obj} {o : Obj} : o ∈ preScan gs ↔ ∃ a, a ∈ gs ∧ o = preOne gs a := by
  unfold preScan
  rw [List.mem_map]
  constructor
  · rintro ⟨a, ha, rfl⟩; exact ⟨a, ha, rfl⟩
  · rintro ⟨a, ha, rfl⟩; exact ⟨a, ha, rfl⟩

theorem mem_preScan_fn {gs : List Obj} {o : Obj} (h : o.isFunction = true) : o ∈ preScan gs ↔ o ∈ gs := by
  rw [mem_preScan]
  constructor
  · rintro ⟨a, ha, rfl⟩
    obtain ⟨t, ht⟩ := preOne_same gs a
    have hfa : a.isFunction = true := by rw [ht] at h; exact h
    rw [preOne_fn gs hfa]; exact ha
  · intro ho
    exact ⟨o, ho, (preOne_fn gs h).symm⟩

theorem fnNotTent_preScan {gs : List Obj} (h : FnNotTent gs) : FnNotTent (preScan gs) :=
  fnNotTent_of_tyRel (preScan_tyRel gs) h

omit [Rules] in
theorem findFunc_map_same {φ : Obj → Obj} (hs : ∀ o, SameButTy (φ o) o) (hf : ∀ o, o.isFunction = true → φ o = o) (f : Name) :
    ∀ l : List Obj, findFunc (l.map φ) f = findFunc l f
  | [] => rfl
  | a :: as => by
    have ih := findFunc_map_same hs hf f as
    obtain ⟨t, ht⟩ := hs a
    simp only [findFunc, List.map_cons, List.find?] at ih ⊢
    have hp : ((φ a).isFunction && (φ a).sym == Sym.named f) = (a.isFunction && a.sym == Sym.named f) := by rw [ht]
    rw [hp]
    cases hq : (a.isFunction && a.sym == Sym.named f)
    · exact ih
    · simp only [Bool.and_eq_true] at hq
      rw [hf a hq.1]

theorem findFunc_preScan (gs : List Obj) (f : Name) : findFunc (preScan gs) f = findFunc gs f :=
  findFunc_map_same (preOne_same gs) (fun _ h => preOne_fn gs h) f gs

omit [Rules] in
theorem fnNamesOf_map_same {φ : Obj → Obj} (hs : ∀ o, SameButTy (φ o) o) : ∀ l : List Obj, fnNamesOf (l.map φ) = fnNamesOf l
  | [] => rfl
  | a :: as => by
    obtain ⟨t, ht⟩ := hs a
    have h1 : fnName (φ a) = fnName a := by rw [ht]; rfl
    have ih := fnNamesOf_map_same hs as
    simp only [fnNamesOf] at ih
    simp only [fnNamesOf, List.map_cons, List.filterMap_cons, h1, ih]

theorem fnNamesOf_preScan (gs : List Obj) : fnNamesOf (preScan gs) = fnNamesOf gs := fnNamesOf_map_same (preOne_same gs) gs

theorem emitTextFn_preOne (gs : List Obj) (o : Obj) : emitTextFn (preOne gs o) = emitTextFn o := by
  cases hf : o.isFunction
  · obtain ⟨T, hT⟩ := preOne_same gs o
    rw [hT]
    simp [emitTextFn, hf]
  · rw [preOne_fn gs hf]

theorem filterMap_emitTextFn_map (gs : List Obj) : ∀ l : List Obj, (l.map (preOne gs)).filterMap emitTextFn = l.filterMap emitTextFn
  | [] => rfl
  | a :: as => by
    simp only [List.map_cons, List.filterMap_cons, emitTextFn_preOne, filterMap_emitTextFn_map gs as]

theorem emitText_preScan (gs : List Obj) : emitText (preScan gs) = emitText gs := filterMap_emitTextFn_map gs gs

theorem findFunc_scanGlobals {gs : List Obj} (hf : FnNotTent gs) (f : Name) : findFunc (scanGlobals gs) f = findFunc gs f := by
  unfold scanGlobals
  rw [findFunc_scanCore (fnNotTent_preScan hf), findFunc_preScan]

theorem mem_scanGlobals_fn {gs : List Obj} (hf : FnNotTent gs) {o : Obj} (hfun : o.isFunction = true) :
    o ∈ scanGlobals gs ↔ o ∈ gs := by
  unfold scanGlobals
  rw [mem_scanCore_fn (fnNotTent_preScan hf) hfun, mem_preScan_fn hfun]

/-- `scan_globals` (with the pass in front of it) changes types only and drops tentative definitions -/
theorem scanGlobals_tyRel (gs : List Obj) : TyRel (scanPure (preScan gs) (preScan gs)) (scanGlobals gs) :=
  scanCore_tyRel (preScan gs)

end ChibiVerif.Linkage
