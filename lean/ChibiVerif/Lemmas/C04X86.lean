/-
C04 over the executable x86 semantics (Model/X86.lean, the one C01 validates against the host CPU).

The bit-field theorems of Props/C04.lean were stated over hand-written meanings (`BitField.loadUnit`, `storeUnit`,
`extract`, `bfAssign`).  This file executes the *regenerated* instruction lists (`Gen.C04.loadIntLine`, `storeIntLines`,
`bfExtractLines`, `bfAssignLines`) with `X86.run` and proves that the machine state they leave is the one those
meanings describe — for every declared type, width and offset, every register file and every memory.
-/
import ChibiVerif.Model.X86
import ChibiVerif.Model.BitField

namespace ChibiVerif.C04X86
open ChibiVerif.X86 ChibiVerif.Asm ChibiVerif.BitField ChibiVerif.Gen.C04

/-- the instructions of a list of lines -/
def insOf (ls : List Line) : List Ins := ls.flatMap Line.instrs

/-- the storage unit at address `p` (little endian) -/
def unitAt (s : State) (p : BitVec 64) : (u : BitField.USize) → BitVec u.bits
  | .b1 => s.read8 p
  | .b2 => s.read16 p
  | .b4 => s.read32 p
  | .b8 => s.read64 p

/-- memory after writing the storage unit at address `p` -/
def setUnit (s : State) (p : BitVec 64) : (u : BitField.USize) → BitVec u.bits → State
  | .b1, v => s.write8 p v
  | .b2, v => s.write16 p v
  | .b4, v => s.write32 p v
  | .b8, v => s.write64 p v

theorem run_append (a b : List Ins) (s : State) :
    X86.run (a ++ b) s = (match X86.run a s with | some s' => X86.run b s' | none => none) := by
  induction a generalizing s with
  | nil => rfl
  | cons i is ih =>
    simp only [List.cons_append, X86.run]
    cases X86.step i s with
    | none => rfl
    | some s' => exact ih s'

/-! ### single instructions -/

theorem ofInt0 : BitVec.ofInt 64 0 = 0#64 := by decide

@[simp] theorem get_flags {n : Nat} (s : State) (r : BitVec n) (cf of : Bool) (x : Reg) : (s.flags r cf of).get x = s.get x := rfl
@[simp] theorem mem_flags {n : Nat} (s : State) (r : BitVec n) (cf of : Bool) : (s.flags r cf of).mem = s.mem := rfl
@[simp] theorem mem_set (s : State) (x : Reg) (v : BitVec 64) : (s.set x v).mem = s.mem := rfl
@[simp] theorem get_write8 (s : State) (a : BitVec 64) (v : BitVec 8) (x : Reg) : (s.write8 a v).get x = s.get x := rfl
@[simp] theorem get_write16 (s : State) (a : BitVec 64) (v : BitVec 16) (x : Reg) : (s.write16 a v).get x = s.get x := by
  simp only [State.write16, get_write8]
@[simp] theorem get_write32 (s : State) (a : BitVec 64) (v : BitVec 32) (x : Reg) : (s.write32 a v).get x = s.get x := by
  simp only [State.write32, get_write16]
@[simp] theorem get_write64 (s : State) (a : BitVec 64) (v : BitVec 64) (x : Reg) : (s.write64 a v).get x = s.get x := by
  simp only [State.write64, get_write32]

theorem dec_mov_rax_rdi : decode ⟨"mov", [.r "%rax", .r "%rdi"]⟩ = some (.mov .w64 (.reg .rax) (.reg .rdi)) := rfl

theorem step_mov_rax_rdi (s : State) :
    X86.step ⟨"mov", [.r "%rax", .r "%rdi"]⟩ s = some (s.set .rdi (s.get .rax)) := by
  simp only [X86.step, dec_mov_rax_rdi, exec, State.src, State.dst, State.getW, State.setW, W.bits, BitVec.setWidth_eq]

theorem dec_mov_imm_r9 (n : Int) : decode ⟨"mov", [.i n, .r "%r9"]⟩ = some (.mov .w64 (.imm n) (.reg .r9)) := rfl

theorem step_mov_imm_r9 (s : State) (n : BitVec 64) :
    X86.step ⟨"mov", [.i n.toInt, .r "%r9"]⟩ s = some (s.set .r9 n) := by
  simp only [X86.step, dec_mov_imm_r9, exec, State.src, State.dst, State.setW, W.bits, BitVec.ofInt_toInt]

/-- a state whose flags are architecturally undefined (after a shift) -/
def noFlags (s : State) : State := { s with flagsValid := false }
@[simp] theorem get_noFlags (s : State) (x : Reg) : (noFlags s).get x = s.get x := rfl
@[simp] theorem mem_noFlags (s : State) : (noFlags s).mem = s.mem := rfl

theorem dec_shift (op : String) (sh : Sh) (k : Int) (rn : String) (r : Reg)
    (hop : (op = "shl" ∧ sh = .shl) ∨ (op = "shr" ∧ sh = .shr) ∨ (op = "sar" ∧ sh = .sar))
    (hr : (rn = "%rax" ∧ r = .rax) ∨ (rn = "%rdi" ∧ r = .rdi)) :
    decode ⟨op, [.i k, .r rn]⟩ = if 0 ≤ k ∧ k < 64 then some (.shiftImm sh .w64 k.toNat r) else none := by
  rcases hop with ⟨rfl, rfl⟩ | ⟨rfl, rfl⟩ | ⟨rfl, rfl⟩ <;> rcases hr with ⟨rfl, rfl⟩ | ⟨rfl, rfl⟩ <;> rfl

theorem step_shl (rn : String) (r : Reg) (hr : (rn = "%rax" ∧ r = .rax) ∨ (rn = "%rdi" ∧ r = .rdi))
    (k : Int) (h0 : 0 ≤ k) (h1 : k < 64) (s : State) :
    X86.step ⟨"shl", [.i k, .r rn]⟩ s = some (noFlags (s.set r (s.get r <<< shiftCount k))) := by
  simp only [X86.step, dec_shift "shl" .shl k rn r (Or.inl ⟨rfl, rfl⟩) hr, h0, h1, and_self, if_true]
  simp [exec, State.getW, State.setW, noFlags, shiftCount]

theorem step_shr (k : Int) (h0 : 0 ≤ k) (h1 : k < 64) (s : State) :
    X86.step ⟨"shr", [.i k, .r "%rax"]⟩ s = some (noFlags (s.set .rax (s.get .rax >>> shiftCount k))) := by
  simp only [X86.step, dec_shift "shr" .shr k "%rax" .rax (Or.inr (Or.inl ⟨rfl, rfl⟩)) (Or.inl ⟨rfl, rfl⟩), h0, h1, and_self, if_true]
  simp [exec, State.getW, State.setW, noFlags, shiftCount]

theorem step_sar (k : Int) (h0 : 0 ≤ k) (h1 : k < 64) (s : State) :
    X86.step ⟨"sar", [.i k, .r "%rax"]⟩ s = some (noFlags (s.set .rax ((s.get .rax).sshiftRight (shiftCount k)))) := by
  simp only [X86.step, dec_shift "sar" .sar k "%rax" .rax (Or.inr (Or.inr ⟨rfl, rfl⟩)) (Or.inl ⟨rfl, rfl⟩), h0, h1, and_self, if_true]
  simp [exec, State.getW, State.setW, noFlags, shiftCount]

theorem dec_and_r9_rdi : decode ⟨"and", [.r "%r9", .r "%rdi"]⟩ = some (.alu .and .w64 (.reg .r9) (.reg .rdi)) := rfl
theorem dec_and_r9_rax : decode ⟨"and", [.r "%r9", .r "%rax"]⟩ = some (.alu .and .w64 (.reg .r9) (.reg .rax)) := rfl
theorem dec_or_rdi_rax : decode ⟨"or", [.r "%rdi", .r "%rax"]⟩ = some (.alu .or .w64 (.reg .rdi) (.reg .rax)) := rfl

theorem step_and_r9_rdi (s : State) :
    X86.step ⟨"and", [.r "%r9", .r "%rdi"]⟩ s =
      some ((s.flags (s.get .rdi &&& s.get .r9) false false).set .rdi (s.get .rdi &&& s.get .r9)) := by
  simp [X86.step, dec_and_r9_rdi, exec, aluExec, Alu.writes, State.src, State.dst, State.getW, State.setW]

theorem step_and_r9_rax (s : State) :
    X86.step ⟨"and", [.r "%r9", .r "%rax"]⟩ s =
      some ((s.flags (s.get .rax &&& s.get .r9) false false).set .rax (s.get .rax &&& s.get .r9)) := by
  simp [X86.step, dec_and_r9_rax, exec, aluExec, Alu.writes, State.src, State.dst, State.getW, State.setW]

theorem step_or_rdi_rax (s : State) :
    X86.step ⟨"or", [.r "%rdi", .r "%rax"]⟩ s =
      some ((s.flags (s.get .rax ||| s.get .rdi) false false).set .rax (s.get .rax ||| s.get .rdi)) := by
  simp [X86.step, dec_or_rdi_rax, exec, aluExec, Alu.writes, State.src, State.dst, State.getW, State.setW]

theorem dec_mov_rsp_rax : decode ⟨"mov", [.m0 "%rsp", .r "%rax"]⟩ = some (.mov .w64 (.mem 0 .rsp) (.reg .rax)) := rfl

theorem step_mov_rsp_rax (s : State) :
    X86.step ⟨"mov", [.m0 "%rsp", .r "%rax"]⟩ s = some (s.set .rax (s.read64 (s.get .rsp))) := by
  simp [X86.step, dec_mov_rsp_rax, exec, State.src, State.dst, State.setW, State.readW, State.ea]

theorem dec_pop_rdi : decode ⟨"pop", [.r "%rdi"]⟩ = some (.pop .rdi) := rfl

theorem step_pop_rdi (s : State) :
    X86.step ⟨"pop", [.r "%rdi"]⟩ s = some ((s.set .rsp (s.get .rsp + 8)).set .rdi (s.read64 (s.get .rsp))) := by
  simp [X86.step, dec_pop_rdi, exec]

/-! ### `load` and `store` of an integer type -/

theorem sw64_32_16 (x : BitVec 16) : BitVec.setWidth 64 (BitVec.setWidth 32 x) = BitVec.setWidth 64 x := by
  apply BitVec.eq_of_getLsbD_eq; intro i hi; simp [BitVec.getLsbD_setWidth]
theorem sw64_32_8 (x : BitVec 8) : BitVec.setWidth 64 (BitVec.setWidth 32 x) = BitVec.setWidth 64 x := by
  apply BitVec.eq_of_getLsbD_eq; intro i hi; simp [BitVec.getLsbD_setWidth]

theorem dec_movsbl : decode ⟨"movsbl", [.m0 "%rax", .r "%eax"]⟩ = some (.movsx .w8 .w32 (.mem 0 .rax) .rax) := rfl
theorem dec_movzbl : decode ⟨"movzbl", [.m0 "%rax", .r "%eax"]⟩ = some (.movzx .w8 .w32 (.mem 0 .rax) .rax) := rfl
theorem dec_movswl : decode ⟨"movswl", [.m0 "%rax", .r "%eax"]⟩ = some (.movsx .w16 .w32 (.mem 0 .rax) .rax) := rfl
theorem dec_movzwl : decode ⟨"movzwl", [.m0 "%rax", .r "%eax"]⟩ = some (.movzx .w16 .w32 (.mem 0 .rax) .rax) := rfl
theorem dec_movsxd : decode ⟨"movsxd", [.m0 "%rax", .r "%rax"]⟩ = some (.movsx .w32 .w64 (.mem 0 .rax) .rax) := rfl
theorem dec_mov_rax_rax : decode ⟨"mov", [.m0 "%rax", .r "%rax"]⟩ = some (.mov .w64 (.mem 0 .rax) (.reg .rax)) := rfl

/-- the line `load` prints for each declared type -/
theorem loadIntLine_cases (t : BfType) :
    loadIntLine t.implSize t.implUnsigned = match t with
      | .uchar => .ins ⟨"movzbl", [.m0 "%rax", .r "%eax"]⟩
      | .bool | .char => .ins ⟨"movsbl", [.m0 "%rax", .r "%eax"]⟩
      | .ushort => .ins ⟨"movzwl", [.m0 "%rax", .r "%eax"]⟩
      | .short => .ins ⟨"movswl", [.m0 "%rax", .r "%eax"]⟩
      | .int | .uint => .ins ⟨"movsxd", [.m0 "%rax", .r "%rax"]⟩
      | .long | .ulong => .ins ⟨"mov", [.m0 "%rax", .r "%rax"]⟩ := by
  cases t <;> rfl

theorem load_step (t : BfType) (s : State) :
    X86.run (insOf [loadIntLine t.implSize t.implUnsigned]) s =
      some (s.set .rax (loadUnit t.usize t.implUnsigned (unitAt s (s.get .rax) t.usize))) := by
  rw [loadIntLine_cases]
  cases t <;>
    simp [insOf, Line.instrs, X86.run, X86.step, dec_movsbl, dec_movzbl, dec_movswl, dec_movzwl, dec_movsxd, dec_mov_rax_rax,
      exec, State.src, State.dst, State.setW, State.readW, State.ea, loadUnit, unitAt, BfType.usize, BfType.implUnsigned,
      BfType.tyName, Gen.Declspec.primInfo, sw64_32_16] <;> rfl

/-! ### memory as a function: what a store of a unit does to it -/

abbrev Mem64 := BitVec 64 → BitVec 8

def wr8 (m : Mem64) (a : BitVec 64) (v : BitVec 8) : Mem64 := fun x => if x = a then v else m x
def wr16 (m : Mem64) (a : BitVec 64) (v : BitVec 16) : Mem64 := wr8 (wr8 m a (v.setWidth 8)) (a + 1) ((v >>> 8).setWidth 8)
def wr32 (m : Mem64) (a : BitVec 64) (v : BitVec 32) : Mem64 := wr16 (wr16 m a (v.setWidth 16)) (a + 2) ((v >>> 16).setWidth 16)
def wr64 (m : Mem64) (a : BitVec 64) (v : BitVec 64) : Mem64 := wr32 (wr32 m a (v.setWidth 32)) (a + 4) ((v >>> 32).setWidth 32)

/-- memory after a little-endian store of a unit at `p` -/
def memSet (m : Mem64) (p : BitVec 64) : (u : BitField.USize) → BitVec u.bits → Mem64
  | .b1, v => wr8 m p v
  | .b2, v => wr16 m p v
  | .b4, v => wr32 m p v
  | .b8, v => wr64 m p v

theorem mem_write8 (s : State) (a : BitVec 64) (v : BitVec 8) : (s.write8 a v).mem = wr8 s.mem a v := rfl
theorem mem_write16 (s : State) (a : BitVec 64) (v : BitVec 16) : (s.write16 a v).mem = wr16 s.mem a v := by
  simp only [State.write16, mem_write8, wr16]
theorem mem_write32 (s : State) (a : BitVec 64) (v : BitVec 32) : (s.write32 a v).mem = wr32 s.mem a v := by
  simp only [State.write32, mem_write16, wr32]
theorem mem_write64 (s : State) (a : BitVec 64) (v : BitVec 64) : (s.write64 a v).mem = wr64 s.mem a v := by
  simp only [State.write64, mem_write32, wr64]

theorem mem_setUnit (s : State) (p : BitVec 64) (u : BitField.USize) (v : BitVec u.bits) :
    (setUnit s p u v).mem = memSet s.mem p u v := by
  cases u <;> simp only [setUnit, memSet, mem_write8, mem_write16, mem_write32, mem_write64]

@[simp] theorem get_setUnit (s : State) (p : BitVec 64) (u : BitField.USize) (v : BitVec u.bits) (x : Reg) :
    (setUnit s p u v).get x = s.get x := by
  cases u <;> simp only [setUnit, get_write8, get_write16, get_write32, get_write64]

/-- reads depend on the memory only -/
theorem read8_mem (s s' : State) (h : s'.mem = s.mem) (a : BitVec 64) : s'.read8 a = s.read8 a := by simp only [State.read8, h]
theorem read16_mem (s s' : State) (h : s'.mem = s.mem) (a : BitVec 64) : s'.read16 a = s.read16 a := by simp only [State.read16, h]
theorem read32_mem (s s' : State) (h : s'.mem = s.mem) (a : BitVec 64) : s'.read32 a = s.read32 a := by
  simp only [State.read32, read16_mem s s' h]
theorem read64_mem (s s' : State) (h : s'.mem = s.mem) (a : BitVec 64) : s'.read64 a = s.read64 a := by
  simp only [State.read64, read32_mem s s' h]
theorem unitAt_mem (s s' : State) (h : s'.mem = s.mem) (p : BitVec 64) (u : BitField.USize) : unitAt s' p u = unitAt s p u := by
  cases u <;> simp only [unitAt, read8_mem s s' h, read16_mem s s' h, read32_mem s s' h, read64_mem s s' h]

/-! ### `store` of an integer type -/

theorem dec_mov_al : decode ⟨"mov", [.r "%al", .m0 "%rdi"]⟩ = some (.mov .w8 (.reg .rax) (.mem 0 .rdi)) := rfl
theorem dec_mov_ax : decode ⟨"mov", [.r "%ax", .m0 "%rdi"]⟩ = some (.mov .w16 (.reg .rax) (.mem 0 .rdi)) := rfl
theorem dec_mov_eax : decode ⟨"mov", [.r "%eax", .m0 "%rdi"]⟩ = some (.mov .w32 (.reg .rax) (.mem 0 .rdi)) := rfl
theorem dec_mov_rax : decode ⟨"mov", [.r "%rax", .m0 "%rdi"]⟩ = some (.mov .w64 (.reg .rax) (.mem 0 .rdi)) := rfl

theorem storeIntLines_cases (t : BfType) :
    storeIntLines t.implSize = [.ins ⟨"pop", [.r "%rdi"]⟩, match t with
      | .bool | .uchar | .char => .ins ⟨"mov", [.r "%al", .m0 "%rdi"]⟩
      | .ushort | .short => .ins ⟨"mov", [.r "%ax", .m0 "%rdi"]⟩
      | .int | .uint => .ins ⟨"mov", [.r "%eax", .m0 "%rdi"]⟩
      | .long | .ulong => .ins ⟨"mov", [.r "%rax", .m0 "%rdi"]⟩] := by
  cases t <;> rfl

/-- `pop %rdi; mov %al|%ax|%eax|%rax, (%rdi)`: the unit at the popped address receives the low bits of %rax -/
theorem store_step (t : BfType) (s : State) :
    X86.run (insOf (storeIntLines t.implSize)) s =
      some (setUnit ((s.set .rsp (s.get .rsp + 8)).set .rdi (s.read64 (s.get .rsp))) (s.read64 (s.get .rsp)) t.usize
        (storeUnit t.usize (s.get .rax))) := by
  rw [storeIntLines_cases]
  cases t <;>
    simp [insOf, Line.instrs, X86.run, X86.step, dec_mov_al, dec_mov_ax, dec_mov_eax, dec_mov_rax,
      exec, State.src, State.dst, State.getW, State.writeW, State.ea, setUnit, storeUnit, BfType.usize] <;> rfl

/-! ### extraction: `shl $(64-w-o), %rax; shr|sar $(64-w), %rax` -/

theorem extract_step (w o : Nat) (hw : 1 ≤ w) (hwo : o + w ≤ 64) (isU isB : Bool) (s : State) :
    X86.run (insOf (bfExtractLines w o isU isB)) s =
      some (noFlags ((noFlags (s.set .rax (s.get .rax <<< shiftCount (bfShlCount w o)))).set .rax (extract w o isU isB (s.get .rax)))) := by
  have h0 : 0 ≤ bfShlCount w o := by unfold bfShlCount; omega
  have h1 : bfShlCount w o < 64 := by unfold bfShlCount; omega
  have h2 : 0 ≤ bfShrCount w := by unfold bfShrCount; omega
  have h3 : bfShrCount w < 64 := by unfold bfShrCount; omega
  unfold extract
  cases hl : bfLogical isU isB <;>
    simp [insOf, bfExtractLines, Line.instrs, X86.run, hl, step_shl "%rax" .rax (Or.inl ⟨rfl, rfl⟩) _ h0 h1, step_shr _ h2 h3,
      step_sar _ h2 h3]

/-! ### the two sequences -/

theorem insOf_cons (l : Line) (ls : List Line) : insOf (l :: ls) = insOf [l] ++ insOf ls := by
  simp [insOf]
theorem insOf_append (a b : List Line) : insOf (a ++ b) = insOf a ++ insOf b := by
  simp [insOf]

theorem get_set (s : State) (r r' : Reg) (v : BitVec 64) : (s.set r v).get r' = if r' = r then v else s.get r' := by
  simp [State.get, State.set]

/-- **reading a bit-field on the machine**: with the unit's address in %rax, `load(mem->ty); shl; shr|sar` leaves the
    value `bfLoadT` computes from the unit's bytes in %rax and changes neither memory nor any other register -/
theorem bf_load_run (t : BfType) (w o : Nat) (hw : 1 ≤ w) (hwo : o + w ≤ t.usize.bits) (s : State) :
    ∃ s', X86.run (insOf (loadSeq t w o)) s = some s' ∧
      s'.get .rax = bfLoadT t w o (unitAt s (s.get .rax) t.usize) ∧ s'.mem = s.mem ∧
      ∀ x, x ≠ .rax → s'.get x = s.get x := by
  have hb := t.usize.bits_le
  unfold loadSeq
  rw [insOf_cons, run_append, load_step]
  simp only
  rw [extract_step w o hw (by omega)]
  refine ⟨_, rfl, ?_, rfl, ?_⟩
  · simp [bfLoadT, bfLoad]
  · intro x hx
    simp [hx]

/-- block A of the assignment: `mov %rax, %rdi; mov $mask, %r9; and %r9, %rdi; shl $o, %rdi` -/
theorem blockA (w o : Nat) (ho : o < 64) (s : State) :
    ∃ s', X86.run [⟨"mov", [.r "%rax", .r "%rdi"]⟩, ⟨"mov", [.i (bfMask w).toInt, .r "%r9"]⟩, ⟨"and", [.r "%r9", .r "%rdi"]⟩,
                   ⟨"shl", [.i (o : Int), .r "%rdi"]⟩] s = some s' ∧
      s'.get .rdi = (s.get .rax &&& bfMask w) <<< shiftCount (o : Int) ∧ s'.mem = s.mem ∧
      ∀ x, x ≠ .rdi → x ≠ .r9 → s'.get x = s.get x := by
  have h0 : (0 : Int) ≤ (o : Int) := by omega
  have h1 : (o : Int) < 64 := by omega
  simp only [X86.run, step_mov_rax_rdi, step_mov_imm_r9, step_and_r9_rdi, step_shl "%rdi" .rdi (Or.inr ⟨rfl, rfl⟩) _ h0 h1]
  refine ⟨_, rfl, ?_, rfl, ?_⟩
  · simp
  · intro x h1 h2
    simp [h1, h2]

/-- block B: `mov $~(mask << o), %r9; and %r9, %rax; or %rdi, %rax` -/
theorem blockB (n : BitVec 64) (s : State) :
    ∃ s', X86.run [⟨"mov", [.i n.toInt, .r "%r9"]⟩, ⟨"and", [.r "%r9", .r "%rax"]⟩, ⟨"or", [.r "%rdi", .r "%rax"]⟩] s = some s' ∧
      s'.get .rax = (s.get .rax &&& n) ||| s.get .rdi ∧ s'.mem = s.mem ∧
      ∀ x, x ≠ .rax → x ≠ .r9 → s'.get x = s.get x := by
  simp only [X86.run, step_mov_imm_r9, step_and_r9_rax, step_or_rdi_rax]
  refine ⟨_, rfl, ?_, rfl, ?_⟩
  · simp
  · intro x h1 h2
    simp [h1, h2]

theorem assign_split (t : BfType) (w o : Nat) :
    insOf (assignSeq t w o) =
      [⟨"mov", [.r "%rax", .r "%rdi"]⟩, ⟨"mov", [.i (bfMask w).toInt, .r "%r9"]⟩, ⟨"and", [.r "%r9", .r "%rdi"]⟩,
       ⟨"shl", [.i (o : Int), .r "%rdi"]⟩] ++
      ([⟨"mov", [.m0 "%rsp", .r "%rax"]⟩] ++
      (insOf [loadIntLine t.implSize t.implUnsigned] ++
      ([⟨"mov", [.i (~~~(bfMask w <<< o)).toInt, .r "%r9"]⟩, ⟨"and", [.r "%r9", .r "%rax"]⟩, ⟨"or", [.r "%rdi", .r "%rax"]⟩] ++
      (insOf (storeIntLines t.implSize) ++
      insOf (bfExtractLines w o t.implUnsigned t.implBool))))) := by
  simp [assignSeq, bfAssignLines, insOf, Line.instrs]

/-- **assigning to a bit-field on the machine**: with the unit's address on top of the stack and the right-hand side in
    %rax, the emitted read-modify-write leaves `bfAssignT …` — the new unit in memory at that address (nothing else
    written), the value of the assignment in %rax — pops the address, and changes only %rax, %rdi, %r9, %rsp -/
theorem bf_assign_run (t : BfType) (w o : Nat) (hw : 1 ≤ w) (hwo : o + w ≤ t.usize.bits) (s : State) :
    ∃ s', X86.run (insOf (assignSeq t w o)) s = some s' ∧
      s'.get .rax = (bfAssignT t w o (unitAt s (s.read64 (s.get .rsp)) t.usize) (s.get .rax)).rax ∧
      s'.mem = memSet s.mem (s.read64 (s.get .rsp)) t.usize
                 (bfAssignT t w o (unitAt s (s.read64 (s.get .rsp)) t.usize) (s.get .rax)).unit ∧
      s'.get .rsp = s.get .rsp + 8 ∧
      ∀ x, x ≠ .rax → x ≠ .rdi → x ≠ .r9 → x ≠ .rsp → s'.get x = s.get x := by
  have hb := t.usize.bits_le
  rw [assign_split]
  obtain ⟨sA, hA, a1, a2, a3⟩ := blockA w o (by omega) s
  rw [run_append, hA]
  simp only
  rw [run_append]
  simp only [X86.run, step_mov_rsp_rax]
  rw [run_append, load_step]
  simp only
  obtain ⟨sB, hB, b1, b2, b3⟩ := blockB (~~~(bfMask w <<< o))
    ((sA.set .rax (sA.read64 (sA.get .rsp))).set .rax
      (loadUnit t.usize t.implUnsigned (unitAt (sA.set .rax (sA.read64 (sA.get .rsp))) ((sA.set .rax (sA.read64 (sA.get .rsp))).get .rax) t.usize)))
  rw [run_append, hB]
  simp only
  rw [run_append, store_step]
  simp only
  rw [extract_step w o hw (by omega)]
  refine ⟨_, rfl, ?_, ?_, ?_, ?_⟩
  · simp only [get_noFlags, State.get_set_same]
    simp only [get_setUnit]
    rw [State.get_set_ne _ _ _ _ (by decide), State.get_set_ne _ _ _ _ (by decide), b1]
    simp only [State.get_set_same]
    rw [State.get_set_ne _ _ _ _ (by decide), State.get_set_ne _ _ _ _ (by decide), a1]
    rw [a3 .rsp (by decide) (by decide)]
    rw [unitAt_mem s _ (by simp [a2]), read64_mem s sA a2]
    rfl
  · simp only [mem_noFlags, mem_set, mem_setUnit]
    rw [b2]
    simp only [mem_set]
    rw [a2, b1]
    simp only [State.get_set_same]
    rw [State.get_set_ne _ _ _ _ (by decide), State.get_set_ne _ _ _ _ (by decide), a1]
    rw [read64_mem sA sB (by rw [b2]; rfl)]
    rw [b3 .rsp (by decide) (by decide)]
    rw [State.get_set_ne _ _ _ _ (by decide), State.get_set_ne _ _ _ _ (by decide)]
    rw [a3 .rsp (by decide) (by decide)]
    rw [unitAt_mem s _ (by simp [a2]), read64_mem s sA a2]
    rfl
  · simp only [get_noFlags]
    rw [State.get_set_ne _ _ _ _ (by decide), get_noFlags, State.get_set_ne _ _ _ _ (by decide), get_setUnit,
      State.get_set_ne _ _ _ _ (by decide), State.get_set_same, b3 .rsp (by decide) (by decide),
      State.get_set_ne _ _ _ _ (by decide), State.get_set_ne _ _ _ _ (by decide), a3 .rsp (by decide) (by decide)]
  · intro x h1 h2 h3 h4
    simp only [get_noFlags]
    rw [State.get_set_ne _ _ _ _ h1, get_noFlags, State.get_set_ne _ _ _ _ h1, get_setUnit,
      State.get_set_ne _ _ _ _ h2, State.get_set_ne _ _ _ _ h4, b3 x h1 h3,
      State.get_set_ne _ _ _ _ h1, State.get_set_ne _ _ _ _ h1, a3 x h2 h3]

/-! ### conversion to `_Bool` -/

theorem dec_cmp_eax : decode ⟨"cmp", [.i 0, .r "%eax"]⟩ = some (.alu .cmp .w32 (.imm 0) (.reg .rax)) := rfl
theorem dec_cmp_rax : decode ⟨"cmp", [.i 0, .r "%rax"]⟩ = some (.alu .cmp .w64 (.imm 0) (.reg .rax)) := rfl
theorem dec_setne_al : decode ⟨"setne", [.r "%al"]⟩ = some (.setcc .ne .rax) := rfl
theorem dec_movzx_al_eax : decode ⟨"movzx", [.r "%al", .r "%eax"]⟩ = some (.movzx .w8 .w32 (.reg .rax) .rax) := rfl

theorem low1 (n : Nat) : BitVec.setWidth 64 (BitVec.ofNat 8 (n / 256 * 256 + 1)) = 1#64 := by
  apply BitVec.eq_of_toNat_eq
  simp only [BitVec.toNat_setWidth, BitVec.toNat_ofNat]
  omega
theorem low0 (n : Nat) : BitVec.setWidth 64 (BitVec.ofNat 8 (n / 256 * 256)) = 0#64 := by
  apply BitVec.eq_of_toNat_eq
  simp only [BitVec.toNat_setWidth, BitVec.toNat_ofNat]
  omega

/-- `cmp $0, %eax|%rax; setne %al; movzx %al, %eax`: %rax becomes 1 if the tested part of it is non-zero, else 0 -/
theorem bool_cast_run (small : Bool) (s : State) :
    ∃ s', X86.run (insOf (boolCastLines small)) s = some s' ∧
      s'.get .rax = (if (if small then (s.get .rax).setWidth 32 = 0#32 else s.get .rax = 0#64) then 0#64 else 1#64) ∧
      s'.mem = s.mem ∧ ∀ x, x ≠ .rax → s'.get x = s.get x := by
  cases small
  · simp only [insOf, boolCastLines, Bool.false_eq_true, if_false, List.flatMap_cons, List.flatMap_nil, Line.instrs, List.append_nil,
      List.cons_append, List.nil_append, X86.run, X86.step, dec_cmp_rax, dec_setne_al, dec_movzx_al_eax, exec, aluExec, Alu.writes,
      State.src, State.getW, State.flags, State.cond]
    refine ⟨_, rfl, ?_, rfl, ?_⟩
    · simp [State.setW, State.get, State.set]
      by_cases h : s.regs Reg.rax = 0#64 <;> simp [h, low1]
    · intro x hx
      simp [State.setW, State.get, State.set, hx]
  · simp only [insOf, boolCastLines, if_true, List.flatMap_cons, List.flatMap_nil, Line.instrs, List.append_nil,
      List.cons_append, List.nil_append, X86.run, X86.step, dec_cmp_eax, dec_setne_al, dec_movzx_al_eax, exec, aluExec, Alu.writes,
      State.src, State.getW, State.flags, State.cond]
    refine ⟨_, rfl, ?_, rfl, ?_⟩
    · simp [State.setW, State.get, State.set]
      by_cases h : BitVec.setWidth 32 (s.regs Reg.rax) = 0#32 <;> simp [h, low1, low0]
    · intro x hx
      simp [State.setW, State.get, State.set, hx]

end ChibiVerif.C04X86
