/-
C06, return values with a floating type on either side: the conversion is C02's (`C02_select`); the epilogue leaves %xmm0, the
x87 stack and the control word alone; the caller adds no instruction for a floating return type.
-/
import ChibiVerif.Lemmas.C06RetLemmas
import ChibiVerif.Lemmas.C06ArgFpLemmas

namespace ChibiVerif.C06Ret
open ChibiVerif.X86 ChibiVerif.Asm ChibiVerif.Fp ChibiVerif.Spec.Fpu ChibiVerif.Spec.FpC11 ChibiVerif.Spec.IntSpec
open ChibiVerif.Gen.CommonType ChibiVerif.Gen.ReturnStmt ChibiVerif.C06Args

/-- return type and expression of arithmetic types: exactly the sequence C02's theorems are about -/
theorem retSeq_arith (frm to : ATy) : retSeq (descrA to) (descrA frm) = Fp.castSeq frm to := by
  have h : ∀ f t : ATy, retSeq (descrA t) (descrA f) = instrsOf (FpCodegen.cast (descrA f) (descrA t)) := by
    intro f t
    have hk : ((descrA t).kind != Kind.TY_STRUCT && (descrA t).kind != Kind.TY_UNION) = true := by
      cases t with
      | int t => cases t <;> rfl
      | f32 => rfl
      | f64 => rfl
      | f80 => rfl
    simp [retSeq, retStep, hk, castChain, instrsOf]
  rw [h, Fp.castSeq, descrA_eq, descrA_eq]

/-- the epilogue on the floating-point machine: only %rsp and %rbp change -/
theorem epilogue_fp (F : FpuSpec) (s : FState) :
    ∃ s', Fp.run F epilogueSeq s = some s' ∧ s'.xmm0 = s.xmm0 ∧ s'.xmm1 = s.xmm1 ∧ s'.st = s.st ∧ s'.cw = s.cw ∧
      s'.x.get .rax = s.x.get .rax := by
  obtain ⟨x, xmm0, xmm1, st, cw⟩ := s
  refine ⟨_, rfl, rfl, rfl, rfl, rfl, ?_⟩
  simp [State.dst, State.src, State.setW, State.getW, State.get, State.set]

/-- no instruction after `call` for a floating return type -/
theorem callerRetSeq_fp :
    callerRetSeq (descrA .f32) = [] ∧ callerRetSeq (descrA .f64) = [] ∧ callerRetSeq (descrA .f80) = [] := ⟨rfl, rfl, rfl⟩

end ChibiVerif.C06Ret
