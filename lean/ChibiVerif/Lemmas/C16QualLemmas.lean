/-
C16: the simulation between chibicc's `is_atomic` bookkeeping (Model/C16Qual.lean) and the C type of declared
identifiers and lvalue expressions (Spec/C16QualSpec.lean).

`refines t T`: chibicc's `Type` object `t` has the shape of the C type `T`, and wherever `T` is atomic, `t->is_atomic`
is set (chibicc may set the flag in more places: on rvalues, where the standard drops qualifiers, and on array /
function types, where the standard forbids them; that is harmless for the property).
-/
import ChibiVerif.Model.C16Qual
import ChibiVerif.Spec.C16QualSpec

namespace ChibiVerif.C16QualLemmas
open ChibiVerif.C16Qual ChibiVerif.C16QualSpec

def refines : Ty → CType → Bool
  | .num p a, .num p' a' => p == p' && (!a' || a)
  | .enum a, .enum a' => !a' || a
  | .void _, .void => true
  | .ptr b a, .ptr b' a' => refines b b' && (!a' || a)
  | .arr b n _, .arr b' n' => refines b b' && n == n'
  | .fn r _, .fn r' => refines r r'
  | .agg u t a, .agg u' t' a' => u == u' && t == t' && (!a' || a)
  | _, _ => false

/-- the qualifier loop of `pointers` on a pointer `Type`: the flag is set iff `_Atomic` is among the qualifiers -/
theorem applyQuals_ptr (qs : List PQual) (b : Ty) (a : Bool) :
    applyQuals qs (.ptr b a) = .ptr b (a || qs.contains .atomic) := by
  induction qs generalizing a with
  | nil => simp [applyQuals]
  | cons q qs ih =>
    cases q <;> simp [applyQuals, PQual.applyTo, Ty.setAtomic, ih]

theorem refines_apply (d : Declr) : ∀ {t : Ty} {T : CType}, refines t T = true → refines (d.apply t) (declType d T) = true := by
  induction d with
  | name => intro t T h; simpa [Declr.apply, declType] using h
  | ptr d qs ih => intro t T h; exact ih (by simp [refines, pointerTo, applyQuals_ptr, h])
  | arr d n ih => intro t T h; exact ih (by simp [refines, arrayOf, h])
  | fn d ih => intro t T h; exact ih (by simp [refines, funcType, h])
  | paren d ih => intro t T h; exact ih h

theorem refines_qualify {t : Ty} {T Q : CType} (h : refines t T = true) (hq : T.qualify = some Q) :
    refines t.setAtomic Q = true := by
  cases T <;> cases t <;> simp_all [refines, CType.qualify, Ty.setAtomic] <;> (subst hq; simp_all [refines])

theorem refines_unqual {t : Ty} {T : CType} (h : refines t T = true) : refines t T.unqual = true := by
  cases T <;> cases t <;> simp_all [refines, CType.unqual]

theorem refines_qualified {t : Ty} {T Q : CType} {kw : Bool} (h : refines t T = true) (hq : qualified T kw = some Q) :
    refines (if kw then t.setAtomic else t) Q = true := by
  cases kw
  · simp [qualified] at hq; subst hq; simpa using h
  · simp [qualified] at hq; simpa using refines_qualify h hq

theorem refines_atomic {t : Ty} {T : CType} (h : refines t T = true) (ha : T.isAtomic = true) : t.isAtomic = true := by
  cases T <;> cases t <;> simp_all [refines, CType.isAtomic, Ty.isAtomic]

theorem refines_setAtomic_self {t : Ty} {T : CType} (h : refines t T = true) : refines t.setAtomic T = true := by
  cases T <;> cases t <;> simp_all [refines, Ty.setAtomic]

/-! ### the tables -/

def relMember (a : Member) (b : SMember) : Prop := a.name = b.name ∧ a.bitfield = b.bitfield ∧ refines a.ty b.ty = true

inductive RelMembers : List Member → List SMember → Prop
  | nil : RelMembers [] []
  | cons {a b as bs} : relMember a b → RelMembers as bs → RelMembers (a :: as) (b :: bs)

structure RelEnv (m : Env) (s : SEnv) : Prop where
  tdefs : ∀ n T, s.typedefs.lookup n = some T → ∃ t, m.typedefs.lookup n = some t ∧ refines t T = true
  vars : ∀ n T, s.vars.lookup n = some T → ∃ t, m.vars.lookup n = some t ∧ refines t T = true
  tags : ∀ tag u MS, s.tags.lookup tag = some (u, MS) →
    ∃ ms, m.tags.lookup tag = some (u, ms) ∧ RelMembers ms MS

theorem RelEnv.empty : RelEnv {} {} :=
  ⟨fun _ _ h => by simp [List.lookup] at h, fun _ _ h => by simp [List.lookup] at h, fun _ _ _ h => by simp [List.lookup] at h⟩

theorem find_member {ms : List Member} {MS : List SMember} (h : RelMembers ms MS) (x : String) {M : SMember}
    (hf : MS.find? (·.name == x) = some M) : ∃ mem, lookupMember ms x = some mem ∧ relMember mem M := by
  induction h with
  | nil => simp at hf
  | @cons a b as bs hab _ ih =>
    unfold lookupMember
    rw [List.find?_cons] at hf ⊢
    rw [hab.1]
    cases hx : (b.name == x)
    · rw [hx] at hf
      exact ih hf
    · rw [hx] at hf
      cases hf
      exact ⟨a, rfl, hab⟩

theorem memberOf_refines {m : Env} {s : SEnv} (h : RelEnv m s) {t : Ty} {T : CType} (hr : refines t T = true) (x : String)
    {M : SMember} (hm : memberType s T x = some M) :
    ∃ mem, memberOf m t x = .ok mem ∧ relMember mem M := by
  cases T <;> simp [memberType] at hm
  rename_i u tag a
  cases t <;> simp [refines] at hr
  rename_i u' tag' a'
  obtain ⟨⟨rfl, rfl⟩, _⟩ := hr
  cases a <;> simp at hm
  cases hl : s.tags.lookup tag' with
  | none => simp [hl] at hm
  | some p =>
    obtain ⟨u2, MS⟩ := p
    simp [hl] at hm
    obtain ⟨ms, hml, hrel⟩ := h.tags tag' u2 MS hl
    obtain ⟨mem, hmem, hrm⟩ := find_member hrel x hm
    exact ⟨mem, by simp [memberOf, hml, hmem], hrm⟩

/-- `*e` / the `*` inside `e->m`, `e[i]`: chibicc's ND_DEREF against the pointee of the converted operand -/
theorem derefTy_refines {t : Ty} {T P : CType} (hr : refines t T = true) (hp : pointee (rvalue T) = some P)
    (hnf : ∀ r, T ≠ .fn r) : ∃ b, derefTy t = .ok b ∧ refines b P = true := by
  cases T with
  | ptr to a =>
    cases t <;> simp [refines] at hr
    rename_i b a'
    cases to <;> cases b <;> simp_all [rvalue, CType.unqual, pointee, derefTy, refines] <;> (subst hp; simp_all [refines])
  | arr el n =>
    cases t <;> simp [refines] at hr
    rename_i b n' a'
    cases el <;> cases b <;> simp_all [rvalue, pointee, derefTy, refines] <;> (subst hp; simp_all [refines])
  | fn r => exact absurd rfl (hnf r)
  | num p a => simp [rvalue, CType.unqual, pointee] at hp
  | enum a => simp [rvalue, CType.unqual, pointee] at hp
  | void => simp [rvalue, CType.unqual, pointee] at hp
  | agg u tg a => simp [rvalue, CType.unqual, pointee] at hp

/-- `e + i`, `e[i]`: `new_add` of a pointer or array and an integer constant -/
theorem addTy_refines {t : Ty} {T to : CType} {a : Bool} (hr : refines t T = true) (hp : rvalue T = .ptr to a)
    (hnf : ∀ r, to ≠ .fn r) :
    ∃ b, addTy t = .ok (pointerTo b) ∧ refines b to = true := by
  cases T with
  | ptr to' a' =>
    cases t <;> simp [refines] at hr
    simp [rvalue, CType.unqual] at hp
    obtain ⟨rfl, _⟩ := hp
    exact ⟨_, rfl, hr.1⟩
  | arr el n =>
    cases t <;> simp [refines] at hr
    simp [rvalue] at hp
    obtain ⟨rfl, _⟩ := hp
    exact ⟨_, rfl, hr.1⟩
  | fn r =>
    cases t <;> simp [refines] at hr
    simp [rvalue] at hp
    obtain ⟨rfl, _⟩ := hp
    exact absurd rfl (hnf r)
  | num p a => simp [rvalue, CType.unqual] at hp
  | enum a => simp [rvalue, CType.unqual] at hp
  | void => simp [rvalue, CType.unqual] at hp
  | agg u tg a => simp [rvalue, CType.unqual] at hp

/-! ### the simulation: specifiers and expressions -/

theorem bind_some {α β : Type} {x : Option α} {f : α → Option β} {b : β} (h : x.bind f = some b) :
    ∃ a, x = some a ∧ f a = some b := by
  cases x with
  | none => simp at h
  | some a => exact ⟨a, rfl, h⟩

mutual
theorem specTy_refines {m : Env} {s : SEnv} (h : RelEnv m s) :
    ∀ (sp : TSpec) (T : CType), specType s sp = some T → ∃ t, specTy m sp = .ok t ∧ refines t T = true
  | .prim p, T, hs => by
    simp only [specType] at hs; cases hs
    exact ⟨.num p false, by simp only [specTy], by simp [refines]⟩
  | .void, T, hs => by
    simp only [specType] at hs; cases hs
    exact ⟨.void false, by simp only [specTy], by simp [refines]⟩
  | .enum, T, hs => by
    simp only [specType] at hs; cases hs
    exact ⟨.enum false, by simp only [specTy], by simp [refines]⟩
  | .tdef n, T, hs => by
    simp only [specType] at hs
    obtain ⟨t, ht, hr⟩ := h.tdefs n T hs
    exact ⟨t, by simp only [specTy, ht], hr⟩
  | .agg u tag, T, hs => by
    simp only [specType] at hs
    cases hl : s.tags.lookup tag with
    | none => simp [hl] at hs
    | some p =>
      simp [hl] at hs
      subst hs
      obtain ⟨ms, hml, _⟩ := h.tags tag p.1 p.2 (by simpa using hl)
      exact ⟨.agg u tag false, by simp only [specTy, hml], by simp [refines]⟩
  | .typeofT sp kw d, T, hs => by
    simp only [specType, bind, Option.bind] at hs
    cases h1 : specType s sp with
    | none => simp [h1] at hs
    | some T1 =>
      simp only [h1] at hs
      cases h2 : qualified T1 kw with
      | none => simp [h2] at hs
      | some Q =>
        simp [h2] at hs
        subst hs
        obtain ⟨t1, ht1, hr1⟩ := specTy_refines h sp T1 h1
        refine ⟨d.apply (if kw then t1.setAtomic else t1), by simp only [specTy, ht1, bind, Except.bind, pure, Except.pure], ?_⟩
        exact refines_apply d (refines_qualified hr1 h2)
  | .typeofE e, T, hs => by
    simp only [specType, bind, Option.bind] at hs
    cases h1 : typeOf s e with
    | none => simp [h1] at hs
    | some R =>
      simp only [h1] at hs
      split at hs
      · cases hs
      · simp at hs
        subst hs
        obtain ⟨r, hr, hrr, _⟩ := exprTy_refines h e R h1
        exact ⟨r.ty, by simp only [specTy, hr, bind, Except.bind, pure, Except.pure], hrr⟩
  | .atomicOf sp kw d, T, hs => by
    simp only [specType, bind, Option.bind] at hs
    cases h1 : specType s sp with
    | none => simp [h1] at hs
    | some T1 =>
      simp only [h1] at hs
      cases h2 : qualified T1 kw with
      | none => simp [h2] at hs
      | some Q =>
        simp only [h2] at hs
        split at hs
        · cases hs
        · obtain ⟨t1, ht1, hr1⟩ := specTy_refines h sp T1 h1
          refine ⟨(d.apply (if kw then t1.setAtomic else t1)).setAtomic,
            by simp only [specTy, ht1, bind, Except.bind, pure, Except.pure], ?_⟩
          exact refines_qualify (refines_apply d (refines_qualified hr1 h2)) hs

theorem exprTy_refines {m : Env} {s : SEnv} (h : RelEnv m s) :
    ∀ (e : Expr) (R : STy), typeOf s e = some R → ∃ r, exprTy m e = .ok r ∧ refines r.ty R.ty = true ∧ r.bf = R.bf
  | .var x, R, hs => by
    simp only [typeOf, bind, Option.bind] at hs
    cases hl : s.vars.lookup x with
    | none => simp [hl] at hs
    | some T =>
      simp [hl] at hs
      subst hs
      obtain ⟨t, ht, hr⟩ := h.vars x T hl
      exact ⟨⟨t, false⟩, by simp only [exprTy, ht], hr, rfl⟩
  | .par e, R, hs => by
    simp only [typeOf] at hs
    obtain ⟨r, hr, hrr, hbf⟩ := exprTy_refines h e R hs
    exact ⟨r, by simp only [exprTy, hr], hrr, hbf⟩
  | .deref e, R, hs => by
    simp only [typeOf, bind, Option.bind] at hs
    cases h1 : typeOf s e with
    | none => simp [h1] at hs
    | some R0 =>
      simp only [h1] at hs
      cases h2 : pointee (rvalue R0.ty) with
      | none => simp [h2] at hs
      | some P =>
        simp [h2] at hs
        subst hs
        obtain ⟨r, hr, hrr, _⟩ := exprTy_refines h e R0 h1
        cases hT : R0.ty with
        | fn ret =>
          rw [hT] at hrr h2
          simp [rvalue, pointee] at h2
          subst h2
          cases hrt : r.ty <;> simp [hrt, refines] at hrr
          rename_i ret' a'
          exact ⟨⟨r.ty, false⟩, by simp [exprTy, hr, hrt, bind, Except.bind, pure, Except.pure], by simp [hrt, refines, hrr], rfl⟩
        | _ =>
          all_goals
            have hnf : ∀ q, R0.ty ≠ .fn q := by intro q hq; rw [hT] at hq; cases hq
            obtain ⟨b, hb, hbr⟩ := derefTy_refines hrr h2 hnf
            rw [hT] at hrr
            cases hrt : r.ty <;> simp [hrt, refines] at hrr <;>
              (rw [hrt] at hb
               exact ⟨⟨b, false⟩, by simp [exprTy, hr, hrt, hb, bind, Except.bind, pure, Except.pure], hbr, rfl⟩)
  | .addr e, R, hs => by
    simp only [typeOf, bind, Option.bind] at hs
    cases h1 : typeOf s e with
    | none => simp [h1] at hs
    | some R0 =>
      simp only [h1] at hs
      obtain ⟨r, hr, hrr, hbf⟩ := exprTy_refines h e R0 h1
      cases hT : R0.ty with
      | arr el n => simp [hT] at hs
      | _ =>
        all_goals
          simp only [hT] at hs
          split at hs
          · rename_i hc
            cases hs
            simp at hc
            have hb : r.bf = false := by rw [hbf]; exact hc.2
            rw [hT] at hrr
            cases hrt : r.ty <;> simp [hrt, refines] at hrr
            exact ⟨⟨pointerTo r.ty, false⟩, by simp [exprTy, hr, hrt, hb, bind, Except.bind, pure, Except.pure],
              by simp [pointerTo, hrt, refines, hrr], rfl⟩
          · cases hs
  | .mem e x, R, hs => by
    simp only [typeOf, bind, Option.bind] at hs
    cases h1 : typeOf s e with
    | none => simp [h1] at hs
    | some R0 =>
      simp only [h1] at hs
      cases h2 : memberType s R0.ty x with
      | none => simp [h2] at hs
      | some M =>
        simp [h2] at hs
        subst hs
        obtain ⟨r, hr, hrr, _⟩ := exprTy_refines h e R0 h1
        obtain ⟨mem, hmem, hrel⟩ := memberOf_refines h hrr x h2
        exact ⟨⟨mem.ty, mem.bitfield⟩, by simp [exprTy, hr, hmem, bind, Except.bind, pure, Except.pure], hrel.2.2, hrel.2.1⟩
  | .arrow e x, R, hs => by
    simp only [typeOf, bind, Option.bind] at hs
    cases h1 : typeOf s e with
    | none => simp [h1] at hs
    | some R0 =>
      simp only [h1] at hs
      cases h2 : pointee (rvalue R0.ty) with
      | none => simp [h2] at hs
      | some P =>
        simp only [h2] at hs
        cases h3 : memberType s P x with
        | none => simp [h3] at hs
        | some M =>
          simp [h3] at hs
          subst hs
          obtain ⟨r, hr, hrr, _⟩ := exprTy_refines h e R0 h1
          have hnf : ∀ q, R0.ty ≠ .fn q := by
            intro q hq
            rw [hq] at h2
            simp [rvalue, pointee] at h2
            subst h2
            simp [memberType] at h3
          obtain ⟨b, hb, hbr⟩ := derefTy_refines hrr h2 hnf
          obtain ⟨mem, hmem, hrel⟩ := memberOf_refines h hbr x h3
          exact ⟨⟨mem.ty, mem.bitfield⟩, by simp [exprTy, hr, hb, hmem, bind, Except.bind, pure, Except.pure], hrel.2.2, hrel.2.1⟩
  | .idx e i, R, hs => by
    simp only [typeOf, bind, Option.bind] at hs
    cases h1 : typeOf s e with
    | none => simp [h1] at hs
    | some R0 =>
      simp only [h1] at hs
      obtain ⟨r, hr, hrr, _⟩ := exprTy_refines h e R0 h1
      cases hrv : rvalue R0.ty with
      | ptr to a =>
        cases to with
        | fn q => simp [hrv] at hs
        | void => simp [hrv, pointee] at hs
        | _ =>
          all_goals
            simp [hrv, pointee] at hs
            subst hs
            obtain ⟨b, hb, hbr⟩ := addTy_refines hrr hrv (by intro q hq; cases hq)
            cases b <;> simp [refines] at hbr
            exact ⟨⟨_, false⟩, by simp [exprTy, hr, hb, pointerTo, derefTy, bind, Except.bind, pure, Except.pure]; rfl,
              by simp [refines, hbr], rfl⟩
      | _ => all_goals simp [hrv, pointee] at hs
  | .add e i, R, hs => by
    simp only [typeOf, bind, Option.bind] at hs
    cases h1 : typeOf s e with
    | none => simp [h1] at hs
    | some R0 =>
      simp only [h1] at hs
      obtain ⟨r, hr, hrr, _⟩ := exprTy_refines h e R0 h1
      cases hrv : rvalue R0.ty with
      | ptr to a =>
        cases to with
        | fn q => simp [hrv] at hs
        | _ =>
          all_goals
            simp [hrv] at hs
            subst hs
            obtain ⟨b, hb, hbr⟩ := addTy_refines hrr hrv (by intro q hq; cases hq)
            exact ⟨⟨pointerTo b, false⟩, by simp [exprTy, hr, hb, bind, Except.bind, pure, Except.pure],
              by simp [pointerTo, refines, hbr], rfl⟩
      | _ => all_goals simp [hrv] at hs
  | .cast sp kw d e, R, hs => by
    simp only [typeOf, bind, Option.bind] at hs
    cases h1 : specType s sp with
    | none => simp [h1] at hs
    | some T1 =>
      simp only [h1] at hs
      cases h2 : qualified T1 kw with
      | none => simp [h2] at hs
      | some Q =>
        simp only [h2] at hs
        cases h3 : typeOf s e with
        | none => simp [h3] at hs
        | some R0 =>
          simp [h3] at hs
          subst hs
          obtain ⟨t1, ht1, hr1⟩ := specTy_refines h sp T1 h1
          obtain ⟨r, hr, _, _⟩ := exprTy_refines h e R0 h3
          exact ⟨⟨d.apply (if kw then t1.setAtomic else t1), false⟩,
            by simp [exprTy, ht1, hr, bind, Except.bind, pure, Except.pure],
            refines_unqual (refines_apply d (refines_qualified hr1 h2)), rfl⟩
  | .call e, R, hs => by
    simp only [typeOf, bind, Option.bind] at hs
    cases h1 : typeOf s e with
    | none => simp [h1] at hs
    | some R0 =>
      simp only [h1] at hs
      obtain ⟨r, hr, hrr, _⟩ := exprTy_refines h e R0 h1
      cases hT : R0.ty with
      | fn ret =>
        simp [hT] at hs
        subst hs
        rw [hT] at hrr
        cases hrt : r.ty <;> simp [hrt, refines] at hrr
        rename_i ret' a'
        exact ⟨⟨ret', false⟩, by simp [exprTy, hr, hrt, bind, Except.bind, pure, Except.pure], refines_unqual hrr, rfl⟩
      | ptr to a =>
        cases to with
        | fn ret =>
          simp [hT] at hs
          subst hs
          rw [hT] at hrr
          cases hrt : r.ty <;> simp [hrt, refines] at hrr
          rename_i b a'
          cases b <;> simp [refines] at hrr
          rename_i ret' a''
          exact ⟨⟨ret', false⟩, by simp [exprTy, hr, hrt, bind, Except.bind, pure, Except.pure], refines_unqual hrr.1, rfl⟩
        | _ => all_goals simp [hT] at hs
      | _ => all_goals simp [hT] at hs
end

/-! ### declarations -/

theorem declTy_refines {m : Env} {s : SEnv} (h : RelEnv m s) {sp : TSpec} {kw : Bool} {d : Declr} {T : CType}
    (hs : declaredType s sp kw d = some T) : ∃ t, declTy m sp kw d = .ok t ∧ refines t T = true := by
  simp only [declaredType, bind, Option.bind] at hs
  cases h1 : specType s sp with
  | none => simp [h1] at hs
  | some T1 =>
    simp only [h1] at hs
    cases h2 : qualified T1 kw with
    | none => simp [h2] at hs
    | some Q =>
      simp [h2] at hs
      subst hs
      obtain ⟨t1, ht1, hr1⟩ := specTy_refines h sp T1 h1
      exact ⟨d.apply (if kw then t1.setAtomic else t1), by simp [declTy, ht1, bind, Except.bind, pure, Except.pure],
        refines_apply d (refines_qualified hr1 h2)⟩

theorem isInteger_refines {t : Ty} {T : CType} (h : refines t T = true) : isIntegerTy t = isInteger T := by
  cases T <;> cases t <;> simp_all [refines, isIntegerTy, isInteger]

/-- one member: if chibicc accepts it, it is the spec's member (chibicc rejects a bit-field whose `Type` carries
    `is_atomic`, which it also does for `typeof` of an atomic rvalue, where the standard has dropped the qualifier) -/
theorem elabMember_rel {m : Env} {s : SEnv} (h : RelEnv m s) {md : MemberDecl} {M : SMember} {mem : Member}
    (hs : specMember s md = some M) (hm : elabMember m md = .ok mem) : relMember mem M := by
  simp only [specMember, bind, Option.bind] at hs
  cases h1 : declaredType s md.spec md.kw md.d with
  | none => simp [h1] at hs
  | some T =>
    simp only [h1] at hs
    obtain ⟨t, ht, hr⟩ := declTy_refines h h1
    split at hs
    · cases hs
    · simp at hs
      subst hs
      simp only [elabMember, ht, bind, Except.bind, pure, Except.pure] at hm
      split at hm
      · cases hm
      · split at hm
        · cases hm
        · cases hm
          exact ⟨rfl, rfl, hr⟩

/-- without a bit-field, chibicc accepts every member the spec accepts -/
theorem elabMember_accepts {m : Env} {s : SEnv} (h : RelEnv m s) {md : MemberDecl} {M : SMember}
    (hs : specMember s md = some M) (hnb : md.bitfield = false) : ∃ mem, elabMember m md = .ok mem := by
  simp only [specMember, bind, Option.bind] at hs
  cases h1 : declaredType s md.spec md.kw md.d with
  | none => simp [h1] at hs
  | some T =>
    obtain ⟨t, ht, _⟩ := declTy_refines h h1
    exact ⟨⟨md.name, t, md.bitfield⟩, by simp [elabMember, ht, hnb, bind, Except.bind, pure, Except.pure]⟩

theorem elabMembers_rel {m : Env} {s : SEnv} (h : RelEnv m s) :
    ∀ (mds : List MemberDecl) (MS : List SMember) (ms : List Member),
      specMembers s mds = some MS → elabMembers m mds = .ok ms → RelMembers ms MS
  | [], MS, ms, hs, hm => by
    simp [specMembers] at hs; simp [elabMembers] at hm
    subst hs; subst hm; exact .nil
  | md :: rest, MS, ms, hs, hm => by
    simp only [specMembers, bind, Option.bind] at hs
    cases h1 : specMember s md with
    | none => simp [h1] at hs
    | some M =>
      simp only [h1] at hs
      cases h2 : specMembers s rest with
      | none => simp [h2] at hs
      | some MS' =>
        simp [h2] at hs
        subst hs
        simp only [elabMembers, bind, Except.bind] at hm
        cases h3 : elabMember m md with
        | error e => simp [h3] at hm
        | ok mem =>
          simp only [h3] at hm
          cases h4 : elabMembers m rest with
          | error e => simp [h4] at hm
          | ok ms' =>
            simp [h4, pure, Except.pure] at hm
            subst hm
            exact .cons (elabMember_rel h h1 h3) (elabMembers_rel h rest MS' ms' h2 h4)

theorem elabMembers_accepts {m : Env} {s : SEnv} (h : RelEnv m s) :
    ∀ (mds : List MemberDecl) (MS : List SMember), specMembers s mds = some MS →
      (∀ md ∈ mds, md.bitfield = false) → ∃ ms, elabMembers m mds = .ok ms
  | [], _, _, _ => ⟨[], by simp [elabMembers]⟩
  | md :: rest, MS, hs, hnb => by
    simp only [specMembers, bind, Option.bind] at hs
    cases h1 : specMember s md with
    | none => simp [h1] at hs
    | some M =>
      simp only [h1] at hs
      cases h2 : specMembers s rest with
      | none => simp [h2] at hs
      | some MS' =>
        obtain ⟨mem, hmem⟩ := elabMember_accepts h h1 (hnb md (by simp))
        obtain ⟨ms', hms'⟩ := elabMembers_accepts h rest MS' h2 (fun x hx => hnb x (by simp [hx]))
        exact ⟨mem :: ms', by simp [elabMembers, hmem, hms', bind, Except.bind, pure, Except.pure]⟩

theorem lookup_cons_rel {α β : Type} [BEq α] [LawfulBEq α] (k : α) (v : β) (l : List (α × β)) (n : α) :
    ((k, v) :: l).lookup n = if n == k then some v else l.lookup n := by
  simp [List.lookup]
  cases h : n == k <;> simp

theorem RelEnv.addTypedef {m : Env} {s : SEnv} (h : RelEnv m s) (n : String) {t : Ty} {T : CType} (hr : refines t T = true) :
    RelEnv { m with typedefs := (n, t) :: m.typedefs } { s with typedefs := (n, T) :: s.typedefs } := by
  refine ⟨?_, h.vars, h.tags⟩
  intro x X hx
  simp only [lookup_cons_rel] at hx ⊢
  split at hx
  · cases hx; rename_i hc; simp [hc, hr]
  · rename_i hc; simp [hc]; exact h.tdefs x X hx

theorem RelEnv.addVar {m : Env} {s : SEnv} (h : RelEnv m s) (n : String) {t : Ty} {T : CType} (hr : refines t T = true) :
    RelEnv { m with vars := (n, t) :: m.vars } { s with vars := (n, T) :: s.vars } := by
  refine ⟨h.tdefs, ?_, h.tags⟩
  intro x X hx
  simp only [lookup_cons_rel] at hx ⊢
  split at hx
  · cases hx; rename_i hc; simp [hc, hr]
  · rename_i hc; simp [hc]; exact h.vars x X hx

theorem RelEnv.addTag {m : Env} {s : SEnv} (h : RelEnv m s) (tag : String) (u : Bool) {ms : List Member} {MS : List SMember}
    (hr : RelMembers ms MS) :
    RelEnv { m with tags := (tag, u, ms) :: m.tags } { s with tags := (tag, u, MS) :: s.tags } := by
  refine ⟨h.tdefs, h.vars, ?_⟩
  intro x u' X hx
  simp only [lookup_cons_rel] at hx ⊢
  split at hx
  · cases hx; rename_i hc; simp [hc]; exact hr
  · rename_i hc; simp [hc]; exact h.tags x u' X hx

theorem paramTy_refines {t : Ty} {T : CType} (h : refines t T = true) : refines (paramTy t) (adjustParam T) = true := by
  cases T <;> cases t <;> simp_all [refines, paramTy, adjustParam, pointerTo]

theorem elabDecl_rel {m : Env} {s s' : SEnv} {m' : Env} (h : RelEnv m s) (d : Decl)
    (hs : specDecl s d = some s') (hm : elabDecl m d = .ok m') : RelEnv m' s' := by
  cases d with
  | typedef_ n sp kw dd =>
    simp only [specDecl, bind, Option.bind] at hs
    cases h1 : declaredType s sp kw dd with
    | none => simp [h1] at hs
    | some T =>
      simp [h1] at hs; subst hs
      obtain ⟨t, ht, hr⟩ := declTy_refines h h1
      simp [elabDecl, ht, bind, Except.bind, pure, Except.pure] at hm; subst hm
      exact h.addTypedef n hr
  | var n sp kw dd =>
    simp only [specDecl, bind, Option.bind] at hs
    cases h1 : declaredType s sp kw dd with
    | none => simp [h1] at hs
    | some T =>
      simp only [h1] at hs
      obtain ⟨t, ht, hr⟩ := declTy_refines h h1
      simp only [elabDecl, ht, bind, Except.bind] at hm
      cases T <;> cases t <;> simp_all [refines, pure, Except.pure] <;>
        (subst hs; subst hm; exact h.addVar n (by simp [refines, *]))
  | param n sp kw dd =>
    simp only [specDecl, bind, Option.bind] at hs
    cases h1 : declaredType s sp kw dd with
    | none => simp [h1] at hs
    | some T =>
      simp [h1] at hs; subst hs
      obtain ⟨t, ht, hr⟩ := declTy_refines h h1
      simp [elabDecl, ht, bind, Except.bind, pure, Except.pure] at hm; subst hm
      exact h.addVar n (paramTy_refines hr)
  | aggDef u tag mds =>
    simp only [specDecl, bind, Option.bind] at hs
    have h' : RelEnv { m with tags := (tag, u, []) :: m.tags } { s with tags := (tag, u, []) :: s.tags } :=
      h.addTag tag u .nil
    cases h1 : specMembers { s with tags := (tag, u, []) :: s.tags } mds with
    | none => simp [h1] at hs
    | some MS =>
      simp [h1] at hs; subst hs
      simp only [elabDecl, bind, Except.bind] at hm
      cases h2 : elabMembers { m with tags := (tag, u, []) :: m.tags } mds with
      | error e => simp [h2] at hm
      | ok ms =>
        simp [h2, pure, Except.pure] at hm; subst hm
        exact h.addTag tag u (elabMembers_rel h' mds MS ms h1 h2)

theorem elabDecls_rel : ∀ (ds : List Decl) {m : Env} {s s' : SEnv} {m' : Env}, RelEnv m s →
    specDecls s ds = some s' → elabDecls m ds = .ok m' → RelEnv m' s'
  | [], m, s, s', m', h, hs, hm => by
    simp [specDecls] at hs; simp [elabDecls] at hm; subst hs; subst hm; exact h
  | d :: rest, m, s, s', m', h, hs, hm => by
    simp only [specDecls, bind, Option.bind] at hs
    cases h1 : specDecl s d with
    | none => simp [h1] at hs
    | some s1 =>
      simp only [h1] at hs
      simp only [elabDecls, bind, Except.bind] at hm
      cases h2 : elabDecl m d with
      | error e => simp [h2] at hm
      | ok m1 =>
        simp only [h2] at hm
        exact elabDecls_rel rest (elabDecl_rel h d h1 h2) hs hm

/-! ### acceptance (no bit-fields) -/

theorem elabDecl_accepts {m : Env} {s s' : SEnv} (h : RelEnv m s) (d : Decl)
    (hs : specDecl s d = some s') (hnb : noBitfield d = true) : ∃ m', elabDecl m d = .ok m' := by
  cases d with
  | typedef_ n sp kw dd =>
    simp only [specDecl, bind, Option.bind] at hs
    cases h1 : declaredType s sp kw dd with
    | none => simp [h1] at hs
    | some T =>
      obtain ⟨t, ht, _⟩ := declTy_refines h h1
      exact ⟨_, by simp [elabDecl, ht, bind, Except.bind, pure, Except.pure]; rfl⟩
  | var n sp kw dd =>
    simp only [specDecl, bind, Option.bind] at hs
    cases h1 : declaredType s sp kw dd with
    | none => simp [h1] at hs
    | some T =>
      simp only [h1] at hs
      obtain ⟨t, ht, hr⟩ := declTy_refines h h1
      cases T <;> cases t <;> simp_all [refines] <;>
        exact ⟨_, by simp [elabDecl, ht, bind, Except.bind, pure, Except.pure]; rfl⟩
  | param n sp kw dd =>
    simp only [specDecl, bind, Option.bind] at hs
    cases h1 : declaredType s sp kw dd with
    | none => simp [h1] at hs
    | some T =>
      obtain ⟨t, ht, _⟩ := declTy_refines h h1
      exact ⟨_, by simp [elabDecl, ht, bind, Except.bind, pure, Except.pure]; rfl⟩
  | aggDef u tag mds =>
    simp only [specDecl, bind, Option.bind] at hs
    have h' : RelEnv { m with tags := (tag, u, []) :: m.tags } { s with tags := (tag, u, []) :: s.tags } :=
      h.addTag tag u .nil
    cases h1 : specMembers { s with tags := (tag, u, []) :: s.tags } mds with
    | none => simp [h1] at hs
    | some MS =>
      have hb : ∀ md ∈ mds, md.bitfield = false := by
        intro md hmd
        have := List.all_eq_true.mp hnb md hmd
        simpa using this
      obtain ⟨ms, hms⟩ := elabMembers_accepts h' mds MS h1 hb
      exact ⟨_, by simp [elabDecl, hms, bind, Except.bind, pure, Except.pure]; rfl⟩

theorem elabDecls_accepts : ∀ (ds : List Decl) {m : Env} {s s' : SEnv}, RelEnv m s →
    specDecls s ds = some s' → (∀ d ∈ ds, noBitfield d = true) → ∃ m', elabDecls m ds = .ok m'
  | [], m, _, _, _, _, _ => ⟨m, by simp [elabDecls]⟩
  | d :: rest, m, s, s', h, hs, hnb => by
    simp only [specDecls, bind, Option.bind] at hs
    cases h1 : specDecl s d with
    | none => simp [h1] at hs
    | some s1 =>
      simp only [h1] at hs
      obtain ⟨m1, hm1⟩ := elabDecl_accepts h d h1 (hnb d (by simp))
      obtain ⟨m', hm'⟩ := elabDecls_accepts rest (elabDecl_rel h d h1 hm1) hs (fun x hx => hnb x (by simp [hx]))
      exact ⟨m', by simp [elabDecls, hm1, hm', bind, Except.bind]⟩

/-! ### a declared atomic pointer -/

theorem specDecls_append (ds : List Decl) (d : Decl) : ∀ env : SEnv,
    specDecls env (ds ++ [d]) = (specDecls env ds).bind (fun e => specDecl e d) := by
  induction ds with
  | nil =>
    intro env
    simp only [List.nil_append, specDecls, bind, Option.bind]
    cases specDecl env d <;> rfl
  | cons d0 ds ih =>
    intro env
    simp only [List.cons_append, specDecls, bind, Option.bind]
    cases specDecl env d0 with
    | none => rfl
    | some e1 => simpa [bind, Option.bind] using ih e1

/-- after any declarations, `[_Atomic] s * Q… x;` with `_Atomic` among the qualifiers `Q…` makes `x` an atomic lvalue of
    pointer type in the C semantics -/
theorem atomicLvalue_declared_pointer (ds : List Decl) (x : String) (s : TSpec) (kw : Bool) (qs : List PQual)
    (hq : PQual.atomic ∈ qs) (senv : SEnv)
    (hspec : specDecls {} (ds ++ [.var x s kw (.ptr .name qs)]) = some senv) :
    ∃ P, atomicLvalue senv (.var x) = some (.ptr P true) := by
  rw [specDecls_append] at hspec
  obtain ⟨e0, _, h1⟩ := bind_some hspec
  simp only [specDecl, bind, Option.bind] at h1
  cases h2 : declaredType e0 s kw (.ptr .name qs) with
  | none => simp [h2] at h1
  | some t =>
    simp only [h2] at h1
    simp only [declaredType, bind, Option.bind] at h2
    cases h3 : specType e0 s with
    | none => simp [h3] at h2
    | some T1 =>
      simp only [h3] at h2
      cases h4 : qualified T1 kw with
      | none => simp [h4] at h2
      | some Q =>
        simp [h4, declType] at h2
        subst h2
        simp [pure] at h1
        subst h1
        exact ⟨Q, by simp [atomicLvalue, typeOf, List.lookup, isObjectLv, CType.isAtomic, bind, Option.bind, pure, hq]⟩

/-! ### the update -/

theorem rmw_refines {t : Ty} {T : CType} (h : refines t T = true) :
    (match t.scalarSize? with
      | some n => if n ≤ 8 then Except.ok (Path.casLoop n) else Except.error Diag.rmwRejected
      | none => Except.error Diag.rmwRejected) =
    (match T.rmwSize? with
      | some n => Except.ok (Path.casLoop n)
      | none => Except.error Diag.rmwRejected) := by
  cases T <;> cases t <;> simp_all [refines, Ty.scalarSize?, CType.rmwSize?]
  rename_i p a p' a'
  obtain ⟨rfl, _⟩ := h
  split <;> simp_all

/-- an lvalue the C semantics makes atomic is updated by the compare-and-swap loop of its width, or rejected with a
    diagnostic when it is not a scalar of at most 8 bytes: never by a plain load-operate-store sequence -/
theorem elabUpdate_atomic {m : Env} {s : SEnv} (h : RelEnv m s) {e : Expr} {T : CType}
    (ha : atomicLvalue s e = some T) (op : UpdOp) :
    elabUpdate m op e = (match T.rmwSize? with
      | some n => .ok (.casLoop n)
      | none => .error .rmwRejected) := by
  unfold atomicLvalue at ha
  cases h1 : typeOf s e with
  | none => simp [h1] at ha
  | some R =>
    simp only [h1] at ha
    split at ha
    · rename_i hc
      cases ha
      simp at hc
      obtain ⟨r, hr, hrr, _⟩ := exprTy_refines h e R h1
      have hat := refines_atomic hrr hc.2
      simp only [elabUpdate, hr, bind, Except.bind, toAssign, hat]
      simp
      exact rmw_refines hrr
    · cases ha

end ChibiVerif.C16QualLemmas
