/-
Helper lemmas for C10: the re-inclusion shortcuts in the include machine with the nesting limit
(Model/IncludeDepth.lean): a file accepted by `detect_include_guard`, processed while its guard is defined,
changes nothing (`runLines_guarded_file`); whenever plain textual inclusion finishes, the machine with the
`include_guards` table finishes in the same state (`runLines_guards_transparent`); `#pragma once`.
-/
import ChibiVerif.Lemmas.IncludeDepthLemmas

namespace ChibiVerif.IncludeDepth
open ChibiVerif.CondIncl ChibiVerif.IncludeSearch ChibiVerif.IncludeOperand
variable {ε β : Type}

/-- every entry of `include_guards` was computed by `detect_include_guard` from the file's content -/
def GuardsOKX (fs : XFS ε β) (guards : List (String × String)) : Prop :=
  ∀ p g, guardOf guards p = some g → ∃ ls, fs.get p = some ls ∧ detectGuard (ls.map XLine.toLine) = some g

theorem GuardsOKX_nil (fs : XFS ε β) : GuardsOKX fs [] := by
  intro p g h; simp [guardOf] at h

theorem GuardsOKX_put (fs : XFS ε β) (guards : List (String × String)) (path g : String) (ls : List (XLine ε β))
    (hok : GuardsOKX fs guards) (hget : fs.get path = some ls) (hd : detectGuard (ls.map XLine.toLine) = some g) :
    GuardsOKX fs (putGuard guards path g) := by
  intro p g' h
  rw [guardOf_putGuard] at h
  by_cases hp : path = p
  · subst hp; simp at h; subst h; exact ⟨ls, hget, hd⟩
  · simp [hp] at h; exact hok p g' h

/-- in a skip mode every line (also #include, #include_next, #pragma once) is only looked at through its
    directive name -/
theorem preStep_skip (ev : ε → Defs β → Except Diag Bool) (xp : Xp β) (fs : XFS ε β) (paths : List String) (b : Bool)
    (file : String) (l : XLine ε β) (d : Nat) (s : IState β) :
    preStep ev xp fs paths b file l (.skip d) s =
      (match stepLine ev l.toLine (.skip d) s.st with
       | .error e => .error e
       | .ok (st', m') => .ok (none, { s with st := st' }, m')) := by
  cases l with
  | base l0 => cases l0 <;> rfl
  | inclMacro n t => rfl

theorem preStep_c (ev : ε → Defs β → Except Diag Bool) (xp : Xp β) (fs : XFS ε β) (paths : List String) (b : Bool)
    (file : String) (l : Line ε β) (m : Mode) (s : IState β) :
    preStep ev xp fs paths b file (.base (.c l)) m s =
      (match stepLine ev l m s.st with
       | .error e => .error e
       | .ok (st', m') => .ok (none, { s with st := st' }, m')) := by
  cases m <;> rfl

/-- `preStep` never touches the `include_guards` table -/
theorem preStep_guards (ev : ε → Defs β → Except Diag Bool) (xp : Xp β) (fs : XFS ε β) (paths : List String) (b : Bool)
    (file : String) (l : XLine ε β) (m m' : Mode) (s s' : IState β) (o : Option String)
    (h : preStep ev xp fs paths b file l m s = .ok (o, s', m')) : s'.guards = s.guards := by
  rcases preStep_shape ev xp fs paths file l m s with ⟨r, hr⟩ | ⟨e, he⟩ | ⟨o', ho⟩ | ⟨hm, dq, name, hi, ht⟩ | ⟨hm, dq, name, hi, ht⟩
  · rw [hr b] at h
    cases r with
    | error e => simp at h
    | ok q => simp only [Except.ok.injEq, Prod.mk.injEq] at h; rw [← h.2.1]
  · rw [he b] at h; simp at h
  · rw [ho b] at h; simp only [Except.ok.injEq, Prod.mk.injEq] at h; rw [← h.2.1]
  · rw [ht b] at h; simp only [mkTarget, Except.ok.injEq, Prod.mk.injEq] at h; rw [← h.2.1]
  · rw [ht b] at h; simp only [mkTarget, Except.ok.injEq, Prod.mk.injEq] at h; rw [← h.2.1]

theorem openFile_guardsOK (fs : XFS ε β) (path : String) (s s' : IState β) (ls : List (XLine ε β))
    (hok : GuardsOKX fs s.guards) (h : openFile fs path s = .ok (ls, s')) : GuardsOKX fs s'.guards := by
  unfold openFile at h
  cases hget : fs.get path with
  | none => simp [hget] at h
  | some fl =>
    simp only [hget, Except.ok.injEq, Prod.mk.injEq] at h
    obtain ⟨h1, h2⟩ := h
    subst h1
    cases hd : detectGuard (fl.map XLine.toLine) with
    | none => rw [hd] at h2; rw [← h2]; exact hok
    | some g => rw [hd] at h2; rw [← h2]; exact GuardsOKX_put fs s.guards path g fl hok hget hd

-- ------------------------------------------------------------------ a guarded file, its guard defined

/-- from inside the skipped #ifndef group the machine reaches the end of the file, pops the #ifndef's record
    and changes nothing else – no file is opened on the way, whatever `sub` is -/
theorem runLines_guardScan (ev : ε → Defs β → Except Diag Bool) (xp : Xp β) (fs : XFS ε β) (paths : List String) (b : Bool)
    (sub : Sub ε β) (file : String) :
    ∀ (ls : List (XLine ε β)) (k i : Nat) (s : IState β) (o : Obs β) (f : Frame) (st : List Frame),
      guardScan (k+1) (ls.map XLine.toLine) = true → s.st = ⟨o, f :: st⟩ →
      runLines ev xp fs paths b sub file i ls (.skip k) s = .ok ({ s with st := ⟨o, st⟩ }, .proc) := by
  intro ls
  induction ls with
  | nil => intro k i s o f st h; simp [guardScan] at h
  | cons l ls ih =>
    intro k i s o f st hscan hst
    simp only [List.map_cons] at hscan
    simp only [runLines, preStep_skip]
    cases hl : l.toLine with
    | plain p =>
      rw [hl] at hscan
      simp only [guardScan] at hscan
      have hstep : stepLine ev (Line.plain p) (.skip k) s.st = .ok (s.st, .skip k) := by cases k <;> rfl
      simp only [hstep]
      exact ih k (i + 1) { s with st := s.st } o f st hscan hst
    | opens hd =>
      rw [hl] at hscan
      simp only [guardScan] at hscan
      have hstep : stepLine ev (Line.opens hd) (.skip k) s.st = .ok (s.st, .skip (k+1)) := by cases k <;> rfl
      simp only [hstep]
      exact ih (k+1) (i + 1) { s with st := s.st } o f st hscan hst
    | part ph =>
      rw [hl] at hscan
      simp only [guardScan] at hscan
      cases k with
      | zero => simp at hscan
      | succ k =>
        simp at hscan
        have hstep : stepLine ev (Line.part ph) (.skip (k+1)) s.st = .ok (s.st, .skip (k+1)) := rfl
        simp only [hstep]
        exact ih (k+1) (i + 1) { s with st := s.st } o f st hscan hst
    | endif x =>
      rw [hl] at hscan
      simp only [guardScan] at hscan
      cases k with
      | zero =>
        simp at hscan
        obtain ⟨hx, hnil⟩ := hscan
        have hls : ls = [] := by simpa using hnil
        subst hls
        have hstep : stepLine ev (Line.endif x) (.skip 0) s.st = .ok (⟨o, st⟩, .proc) := by
          simp [stepLine, procLine, hst, pure, Except.pure]
        simp only [hstep, runLines]
      | succ k =>
        simp at hscan
        have hstep : stepLine ev (Line.endif x) (.skip (k+1)) s.st = .ok (s.st, .skip k) := rfl
        simp only [hstep]
        exact ih k (i + 1) { s with st := s.st } o f st hscan hst

/-- what `detect_include_guard` accepts: `#ifndef g` alone on its line, `#define g …`, and the scan of the rest -/
theorem detectGuard_shape (ls : List (XLine ε β)) (g : String) (hg : detectGuard (ls.map XLine.toLine) = some g) :
    ∃ l1 ls', ls = .base (.c (.opens (.ifndef g false))) :: l1 :: ls' ∧ guardScan 1 ((l1 :: ls').map XLine.toLine) = true := by
  match ls, hg with
  | [], hg => simp [detectGuard] at hg
  | [l0], hg => simp only [List.map_cons, List.map_nil] at hg; cases h0 : l0.toLine <;> simp [detectGuard, h0] at hg
  | l0 :: l1 :: ls', hg =>
    simp only [List.map_cons] at hg
    cases h0 : l0.toLine with
    | plain p => rw [h0] at hg; simp [detectGuard] at hg
    | part h => rw [h0] at hg; simp [detectGuard] at hg
    | endif x => rw [h0] at hg; simp [detectGuard] at hg
    | opens hd =>
      cases hd with
      | ifE c => rw [h0] at hg; simp [detectGuard] at hg
      | ifdef n x => rw [h0] at hg; simp [detectGuard] at hg
      | noName => rw [h0] at hg; simp [detectGuard] at hg
      | ifndef g0 x =>
        cases x with
        | true => rw [h0] at hg; simp [detectGuard] at hg
        | false =>
          have hl0 : l0 = .base (.c (.opens (.ifndef g0 false))) := by
            cases l0 with
            | base l00 => cases l00 <;> simp_all [XLine.toLine, ILine.toLine]
            | inclMacro n t => simp_all [XLine.toLine]
          cases h1 : l1.toLine with
          | opens h => rw [h0, h1] at hg; simp [detectGuard] at hg
          | part h => rw [h0, h1] at hg; simp [detectGuard] at hg
          | endif x => rw [h0, h1] at hg; simp [detectGuard] at hg
          | plain p1 =>
            cases p1 with
            | text t => rw [h0, h1] at hg; simp [detectGuard] at hg
            | undef n x => rw [h0, h1] at hg; simp [detectGuard] at hg
            | error => rw [h0, h1] at hg; simp [detectGuard] at hg
            | bad => rw [h0, h1] at hg; simp [detectGuard] at hg
            | other => rw [h0, h1] at hg; simp [detectGuard] at hg
            | define g' body =>
              rw [h0, h1] at hg
              simp only [detectGuard] at hg
              split at hg
              · rename_i hgg
                split at hg
                · rename_i hscan
                  simp at hg
                  subst hgg; subst hg
                  exact ⟨l1, ls', by rw [hl0], by simpa [h1] using hscan⟩
                · simp at hg
              · simp at hg

/-- **a file accepted by `detect_include_guard`, processed while its guard macro is defined**: the machine is
    back behind the file with nothing changed (no tokens, no state change, nothing opened) -/
theorem runLines_guarded_file (ev : ε → Defs β → Except Diag Bool) (xp : Xp β) (fs : XFS ε β) (paths : List String) (b : Bool)
    (sub : Sub ε β) (file : String) (ls : List (XLine ε β)) (g : String)
    (hg : detectGuard (ls.map XLine.toLine) = some g) (i : Nat) (s : IState β)
    (hdef : s.st.obs.defs.isDef g = true) :
    runLines ev xp fs paths b sub file i ls .proc s = .ok (s, .proc) := by
  obtain ⟨l1, ls', hls, hscan⟩ := detectGuard_shape ls g hg
  subst hls
  obtain ⟨st0, once, guards, cache⟩ := s
  obtain ⟨o, stk⟩ := st0
  simp only at hdef
  simp only [runLines, preStep_c, stepLine, procLine, evalHead, bind, Except.bind, pure, Except.pure, hdef,
    Bool.not_true, Bool.false_eq_true, if_false]
  exact runLines_guardScan ev xp fs paths b sub file (l1 :: ls') 0 (i + 1)
    ⟨⟨o, ⟨.inThen, false⟩ :: stk⟩, once, guards, cache⟩ o ⟨.inThen, false⟩ stk hscan rfl

-- ------------------------------------------------------------------ the shortcut is transparent

/-- where the two machines can differ: the guard shortcut fires -/
theorem shortcutFires_cases (fs : XFS ε β) (path : String) (s : IState β) (hok : GuardsOKX fs s.guards) :
    shortcutFires true path s = shortcutFires false path s ∨
    (shortcutFires true path s = true ∧ shortcutFires false path s = false ∧
      ∃ (ls : List (XLine ε β)) (g : String), fs.get path = some ls ∧ detectGuard (ls.map XLine.toLine) = some g ∧
        s.st.obs.defs.isDef g = true ∧ guardOf s.guards path = some g) := by
  unfold shortcutFires
  cases honce : s.once.contains path with
  | true => left; rfl
  | false =>
    simp only [Bool.false_or, Bool.true_and, Bool.false_and]
    cases hgo : guardOf s.guards path with
    | none => left; rfl
    | some g =>
      simp only
      cases hdef : s.st.obs.defs.isDef g with
      | false => left; rfl
      | true =>
        right
        obtain ⟨ls, hget, hd⟩ := hok path g hgo
        exact ⟨by simp, by simp, ls, g, hget, hd, hdef, rfl⟩

theorem openFile_guarded (fs : XFS ε β) (path : String) (s : IState β) (ls : List (XLine ε β)) (g : String)
    (hget : fs.get path = some ls) (hd : detectGuard (ls.map XLine.toLine) = some g) (hgo : guardOf s.guards path = some g) :
    openFile fs path s = .ok (ls, s) := by
  have hput : putGuard s.guards path g = s.guards := by simp [putGuard, hgo]
  simp [openFile, hget, hd, hput]

/-- the two machines take the same pre-step unless the guard shortcut fires -/
theorem preStep_key (ev : ε → Defs β → Except Diag Bool) (xp : Xp β) (fs : XFS ε β) (paths : List String) (file : String)
    (l : XLine ε β) (m : Mode) (s : IState β) (hok : GuardsOKX fs s.guards) :
    preStep ev xp fs paths true file l m s = preStep ev xp fs paths false file l m s ∨
    ∃ (s1 : IState β) (path : String) (fl : List (XLine ε β)) (g : String),
      preStep ev xp fs paths true file l m s = .ok (none, s1, .proc) ∧
      preStep ev xp fs paths false file l m s = .ok (some path, s1, .proc) ∧
      fs.get path = some fl ∧ detectGuard (fl.map XLine.toLine) = some g ∧
      s1.st.obs.defs.isDef g = true ∧ guardOf s1.guards path = some g := by
  have tgt : ∀ (p : String) (s1 : IState β), GuardsOKX fs s1.guards →
      mkTarget true p s1 = mkTarget false p s1 ∨
      ∃ (fl : List (XLine ε β)) (g : String), mkTarget true p s1 = (none, s1, .proc) ∧ mkTarget false p s1 = (some p, s1, .proc) ∧
        fs.get p = some fl ∧ detectGuard (fl.map XLine.toLine) = some g ∧
        s1.st.obs.defs.isDef g = true ∧ guardOf s1.guards p = some g := by
    intro p s1 hok1
    rcases shortcutFires_cases fs p s1 hok1 with h1 | ⟨h1, h2, fl, g, h3, h4, h5, h6⟩
    · left; simp only [mkTarget, h1]
    · right; exact ⟨fl, g, by simp only [mkTarget, h1, if_true], by simp only [mkTarget, h2]; rfl, h3, h4, h5, h6⟩
  rcases preStep_shape ev xp fs paths file l m s with ⟨r, hr⟩ | ⟨e, he⟩ | ⟨o', ho⟩ | ⟨hm, dq, name, hi, ht⟩ | ⟨hm, dq, name, hi, ht⟩
  · left; rw [hr true, hr false]
  · left; rw [he true, he false]
  · left; rw [ho true, ho false]
  · rcases tgt (resolveInclude fs.has paths s.cache file dq name).1
      ({ s with cache := (resolveInclude fs.has paths s.cache file dq name).2 } : IState β) hok with h1 | ⟨fl, g, h1, h2, h3, h4, h5, h6⟩
    · left; rw [ht true, ht false, h1]
    · right; exact ⟨_, _, fl, g, by rw [ht true, h1], by rw [ht false, h2], h3, h4, h5, h6⟩
  · rcases tgt (resolveIncludeNext fs.has paths file name) s hok with h1 | ⟨fl, g, h1, h2, h3, h4, h5, h6⟩
    · left; rw [ht true, ht false, h1]
    · right; exact ⟨_, _, fl, g, by rw [ht true, h1], by rw [ht false, h2], h3, h4, h5, h6⟩

/-- **the include-guard shortcut is transparent**, for every number of nesting levels: whenever plain textual
    inclusion (machine without the `include_guards` table) finishes, the machine with the table finishes in the
    same state (same emitted text, same macro table, same conditional stack, same mode, same tables) -/
theorem runLines_guards_transparent (ev : ε → Defs β → Except Diag Bool) (xp : Xp β) (fs : XFS ε β) (paths : List String) :
    ∀ (r : Nat) (file : String) (ls : List (XLine ε β)) (i : Nat) (m : Mode) (s : IState β) (res : IState β × Mode),
      GuardsOKX fs s.guards →
      runLines ev xp fs paths false (subOf ev xp fs paths false r) file i ls m s = .ok res →
      runLines ev xp fs paths true (subOf ev xp fs paths true r) file i ls m s = .ok res ∧ GuardsOKX fs res.1.guards := by
  intro r
  induction r with
  | zero =>
    intro file ls
    induction ls with
    | nil =>
      intro i m s res hok h
      simp only [runLines, Except.ok.injEq] at h ⊢
      subst h; exact ⟨rfl, hok⟩
    | cons l ls ih =>
      intro i m s res hok h
      simp only [runLines] at h ⊢
      -- the two machines take the same pre-step unless the shortcut fires
      have key : preStep ev xp fs paths true file l m s = preStep ev xp fs paths false file l m s ∨
          ∃ (s1 : IState β) (path : String), preStep ev xp fs paths true file l m s = .ok (none, s1, .proc) ∧
            preStep ev xp fs paths false file l m s = .ok (some path, s1, .proc) := by
        rcases preStep_key ev xp fs paths file l m s hok with h1 | ⟨s1, path, fl, g, h1, h2, _⟩
        · exact Or.inl h1
        · exact Or.inr ⟨s1, path, h1, h2⟩
      rcases key with heq | ⟨s1, path, ht, hf⟩
      · rw [heq]
        cases hp : preStep ev xp fs paths false file l m s with
        | error e => simp [hp] at h
        | ok p =>
          obtain ⟨o, s', m'⟩ := p
          have hok' : GuardsOKX fs s'.guards := by rw [preStep_guards ev xp fs paths false file l m m' s s' o hp]; exact hok
          cases o with
          | none => simp only [hp] at h ⊢; exact ih (i + 1) m' s' res hok' h
          | some path => simp [hp, subOf] at h
      · simp [hf, subOf] at h
  | succ r ihr =>
    intro file ls
    induction ls with
    | nil =>
      intro i m s res hok h
      simp only [runLines, Except.ok.injEq] at h ⊢
      subst h; exact ⟨rfl, hok⟩
    | cons l ls ih =>
      intro i m s res hok h
      simp only [runLines] at h ⊢
      have key := preStep_key ev xp fs paths file l m s hok
      rcases key with heq | ⟨s1, path, fl, g, ht, hf, hget, hd, hdef, hgo⟩
      · rw [heq]
        cases hp : preStep ev xp fs paths false file l m s with
        | error e => simp [hp] at h
        | ok p =>
          obtain ⟨o, s', m'⟩ := p
          have hok' : GuardsOKX fs s'.guards := by rw [preStep_guards ev xp fs paths false file l m m' s s' o hp]; exact hok
          cases o with
          | none => simp only [hp] at h ⊢; exact ih (i + 1) m' s' res hok' h
          | some path =>
            simp only [hp, subOf] at h ⊢
            cases ho : openFile fs path s' with
            | error e => simp [ho] at h
            | ok q =>
              obtain ⟨fl, s''⟩ := q
              have hok'' : GuardsOKX fs s''.guards := openFile_guardsOK fs path s' s'' fl hok' ho
              simp only [ho] at h ⊢
              cases hr : runAt ev xp fs paths false r path fl m' s'' with
              | error e => simp [hr] at h
              | ok q2 =>
                obtain ⟨s3, m3⟩ := q2
                simp only [hr] at h
                rw [runAt_eq] at hr
                obtain ⟨hr', hok3⟩ := ihr path fl 1 m' s'' (s3, m3) hok'' hr
                rw [runAt_eq, hr']
                exact ih (i + 1) m3 s3 res hok3 h
      · -- the shortcut fires: plain inclusion opens the guarded file and comes back with nothing changed
        have hok1 : GuardsOKX fs s1.guards := by rw [preStep_guards ev xp fs paths false file l m .proc s s1 _ hf]; exact hok
        simp only [hf, subOf, openFile_guarded fs path s1 fl g hget hd hgo, runAt_eq,
          runLines_guarded_file ev xp fs paths false _ path fl g hd 1 s1 hdef] at h
        simp only [ht]
        exact ih (i + 1) .proc s1 res hok1 h

/-- … for the whole input -/
theorem runTop_guards_transparent (ev : ε → Defs β → Except Diag Bool) (xp : Xp β) (fs : XFS ε β) (paths : List String) (limit : Nat) :
    ∀ (files : List (String × List (XLine ε β))) (m : Mode) (s : IState β) (res : IState β × Mode),
      GuardsOKX fs s.guards →
      runTop ev xp fs paths false limit files m s = .ok res →
      runTop ev xp fs paths true limit files m s = .ok res ∧ GuardsOKX fs res.1.guards := by
  intro files
  induction files with
  | nil =>
    intro m s res hok h
    simp only [runTop, Except.ok.injEq] at h ⊢
    subst h; exact ⟨rfl, hok⟩
  | cons x more ih =>
    intro m s res hok h
    obtain ⟨file, ls⟩ := x
    simp only [runTop] at h ⊢
    cases hr : runAt ev xp fs paths false limit file ls m s with
    | error e => simp [hr] at h
    | ok q =>
      obtain ⟨s', m'⟩ := q
      simp only [hr] at h
      rw [runAt_eq] at hr
      obtain ⟨hr', hok'⟩ := runLines_guards_transparent ev xp fs paths limit file ls 1 m s (s', m') hok hr
      rw [runAt_eq, hr']
      exact ih m' s' res hok' h

-- ------------------------------------------------------------------ #pragma once

theorem shortcutFires_once (b : Bool) (path : String) (s : IState β) (h : s.once.contains path = true) :
    shortcutFires b path s = true := by
  unfold shortcutFires
  rw [h]; rfl

theorem openFile_once (fs : XFS ε β) (path : String) (s s' : IState β) (ls : List (XLine ε β))
    (h : openFile fs path s = .ok (ls, s')) : s'.once = s.once := by
  unfold openFile at h
  cases hget : fs.get path with
  | none => simp [hget] at h
  | some fl =>
    simp only [hget, Except.ok.injEq, Prod.mk.injEq] at h
    obtain ⟨_, h2⟩ := h
    cases hd : detectGuard (fl.map XLine.toLine) with
    | none => rw [hd] at h2; rw [← h2]
    | some g => rw [hd] at h2; rw [← h2]

end ChibiVerif.IncludeDepth
