/-
Lemmas about Model/IfParse.lean, part 3: any fuel above the number of tokens gives the same result.  Core Lean only.
-/
import ChibiVerif.Lemmas.IfParseLemmas

namespace ChibiVerif.IfParse
open ChibiVerif.PPExpr ChibiVerif.CondIncl
open ChibiVerif.Gen.C10IfParse

/-- two families of recursive calls agree on every input shorter than `n` -/
def Agree (prev prev' : Mode → List PTok → Res) (n : Nat) : Prop := ∀ m ts, ts.length < n → prev m ts = prev' m ts

section
variable (prev prev' : Mode → List PTok → Res)

theorem primary_congr (ts : List PTok) (ha : Agree prev prev' ts.length) : primary prev ts = primary prev' ts := by
  cases ts with
  | nil => rfl
  | cons t r =>
    cases t with
    | num v u => rfl
    | other => rfl
    | punct s =>
      simp only [primary]
      rw [ha .expr r (Nat.lt_succ_self _)]

theorem postfixP_congr (ts : List PTok) (ha : Agree prev prev' ts.length) : postfixP prev ts = postfixP prev' ts := by
  unfold postfixP; rw [primary_congr prev prev' ts ha]

theorem unary_congr (ts : List PTok) (ha : Agree prev prev' ts.length) : unary prev ts = unary prev' ts := by
  unfold unary
  split
  · next s r => rw [ha (.lvl 0) r (Nat.lt_succ_self _), postfixP_congr prev prev' _ ha]
  · rw [postfixP_congr prev prev' _ ha]

theorem loopAt_congr (d : Nat) (node : PT) (ts : List PTok) (ha : Agree prev prev' ts.length) (hp : PrevOK prev ts.length) :
    loopAt prev d node ts = loopAt prev' d node ts := by
  unfold loopAt
  split
  · next s r =>
    split
    · next op sw _ =>
      have h1 := hp (.lvl (d - 1)) r (Nat.lt_succ_self _)
      rw [← ha (.lvl (d - 1)) r (Nat.lt_succ_self _)]
      generalize prev (.lvl (d - 1)) r = res at h1
      match res, h1 with
      | .error e, _ => rfl
      | .ok (rhs, r'), h1 => exact ha _ r' (Nat.lt_succ_of_le h1)
    · rfl
  · rfl

theorem lvlD_congr (d : Nat) (ts : List PTok) (ha : Agree prev prev' ts.length) (hp : PrevOK prev ts.length) :
    lvlD prev d ts = lvlD prev' d ts := by
  induction d with
  | zero => exact unary_congr prev prev' ts ha
  | succ d ih =>
    unfold lvlD
    rw [← ih]
    have h0 := lvlD_wb prev d ts hp
    generalize lvlD prev d ts = res at h0
    match res, h0 with
    | .error e, _ => rfl
    | .ok (node, r), h0 =>
      exact loopAt_congr prev prev' (d+1) node r (fun m ts' h => ha m ts' (Nat.lt_of_lt_of_le h h0))
        (fun m ts' h => hp m ts' (Nat.lt_of_lt_of_le h h0))

theorem condAt_congr (ts : List PTok) (ha : Agree prev prev' ts.length) (hp : PrevOK prev ts.length) :
    condAt prev ts = condAt prev' ts := by
  unfold condAt
  rw [← lvlD_congr prev prev' top ts ha hp]
  have h0 := lvlD_wb prev top ts hp
  generalize lvlD prev top ts = res at h0
  match res, h0 with
  | .error e, _ => rfl
  | .ok (c, r), h0 =>
    simp only
    split
    · next s r1 =>
      split
      · split
        · rfl
        · simp only [WB, List.length_cons] at h0
          have h1 := hp .expr r1 (by omega)
          rw [← ha .expr r1 (by omega)]
          generalize prev .expr r1 = res1 at h1
          match res1, h1 with
          | .error e, _ => rfl
          | .ok (a, r2), h1 =>
            simp only
            generalize hsk : skipTok ":" r2 = sk
            match sk, hsk with
            | .error e, _ => rfl
            | .ok r3, hsk =>
              have := skipTok_ok hsk
              subst this
              simp only [WB, List.length_cons] at h1
              simp only
              rw [ha .cond r3 (by omega)]
      · rfl
    · rfl

theorem assignAt_congr (ts : List PTok) (ha : Agree prev prev' ts.length) (hp : PrevOK prev ts.length) :
    assignAt prev ts = assignAt prev' ts := by
  unfold assignAt; rw [condAt_congr prev prev' ts ha hp]

theorem exprAt_congr (ts : List PTok) (ha : Agree prev prev' ts.length) (hp : PrevOK prev ts.length) :
    exprAt prev ts = exprAt prev' ts := by
  unfold exprAt
  rw [← assignAt_congr prev prev' ts ha hp]
  have h0 := assignAt_wb prev ts hp
  generalize assignAt prev ts = res at h0
  match res, h0 with
  | .error e, _ => rfl
  | .ok (a, r), h0 =>
    simp only
    split
    · next s r1 =>
      split
      · simp only [WB, List.length_cons] at h0
        rw [ha .expr r1 (by omega)]
      · rfl
    · rfl

theorem step_congr (m : Mode) (ts : List PTok) (ha : Agree prev prev' ts.length) (hp : PrevOK prev ts.length) :
    step prev m ts = step prev' m ts := by
  cases m with
  | expr => exact exprAt_congr prev prev' ts ha hp
  | cond => exact condAt_congr prev prev' ts ha hp
  | lvl d => exact lvlD_congr prev prev' d ts ha hp
  | loop d node => exact loopAt_congr prev prev' d node ts ha hp

end

/-- one more level of unfolding changes nothing once the fuel exceeds the number of tokens -/
theorem parseN_succ (f : Nat) : Agree (parseN f) (parseN (f+1)) f := by
  induction f with
  | zero => intro m ts h; exact absurd h (Nat.not_lt_zero _)
  | succ f ih =>
    intro m ts h
    show step (parseN f) m ts = step (parseN (f+1)) m ts
    exact step_congr (parseN f) (parseN (f+1)) m ts
      (fun m' ts' h' => ih m' ts' (Nat.lt_of_lt_of_le h' (Nat.le_of_lt_succ h)))
      (fun m' ts' h' => parseN_wb f m' ts' (Nat.lt_of_lt_of_le h' (Nat.le_of_lt_succ h)))

/-- any fuel above the number of tokens gives the result of fuel `length + 1` -/
theorem parseN_stable (ts : List PTok) (m : Mode) (f : Nat) (h : ts.length < f) : parseN f m ts = parseN (ts.length + 1) m ts := by
  induction f with
  | zero => exact absurd h (Nat.not_lt_zero _)
  | succ f ih =>
    by_cases hf : ts.length < f
    · rw [← parseN_succ f m ts hf]; exact ih hf
    · have : f = ts.length := by omega
      rw [this]

end ChibiVerif.IfParse
