/-
Lemmas about Model/IfParse.lean, part 4: completeness of the `#if` parser with respect to the C11 grammar of
Spec/IfGrammar.lean – every token list the grammar derives (with tree `t`) is parsed, and parsed to `t`.

Method.  `Ev g res`: from some fuel on, `g (parseN f) = res`.  For every nonterminal the statement is in continuation form over
an arbitrary rest of the line whose first token cannot continue the phrase (`Stop`): for a binary level `d`, "if the loop of
level `d`, entered with the tree `t` at `rest`, ends with `res`, then the function of level `d` on `ts ++ rest` ends with `res`"
(this is what makes the left-recursive rule `binop` go through a loop that runs left to right); for conditional-expression
and expression, "the function on `ts ++ rest` ends with `(t, rest)`".  Induction on the derivation.  Core Lean only.
-/
import ChibiVerif.Lemmas.IfParseGrammar
import ChibiVerif.Lemmas.IfParseFuel

namespace ChibiVerif.IfParse
open ChibiVerif.PPExpr ChibiVerif.CondIncl ChibiVerif.Spec.IfGrammar
open ChibiVerif.Gen.C10IfParse

-- ------------------------------------------------------------------ "eventually" (in the fuel)

/-- from some fuel on, `g` applied to the parser with that fuel is `res` -/
def Ev (g : (Mode → List PTok → Res) → Res) (res : Res) : Prop := ∃ f0, ∀ f, f0 ≤ f → g (parseN f) = res

theorem Ev.const {g : (Mode → List PTok → Res) → Res} {res : Res} (h : ∀ p, g p = res) : Ev g res := ⟨0, fun _ _ => h _⟩

theorem Ev.val {g : (Mode → List PTok → Res) → Res} {res res' : Res} (h : Ev g res) (h' : ∀ p, g p = res') : res = res' := by
  obtain ⟨f0, hf⟩ := h
  rw [← hf f0 (Nat.le_refl _), h']

theorem Ev.imp {g G : (Mode → List PTok → Res) → Res} {r R : Res} (h : Ev g r) (k : ∀ p, g p = r → G p = R) : Ev G R := by
  obtain ⟨f0, hf⟩ := h
  exact ⟨f0, fun f hle => k _ (hf f hle)⟩

theorem Ev.imp2 {g1 g2 G : (Mode → List PTok → Res) → Res} {r1 r2 R : Res} (h1 : Ev g1 r1) (h2 : Ev g2 r2)
    (k : ∀ p, g1 p = r1 → g2 p = r2 → G p = R) : Ev G R := by
  obtain ⟨f1, hf1⟩ := h1
  obtain ⟨f2, hf2⟩ := h2
  exact ⟨max f1 f2, fun f hle => k _ (hf1 f (by omega)) (hf2 f (by omega))⟩

theorem Ev.imp3 {g1 g2 g3 G : (Mode → List PTok → Res) → Res} {r1 r2 r3 R : Res} (h1 : Ev g1 r1) (h2 : Ev g2 r2) (h3 : Ev g3 r3)
    (k : ∀ p, g1 p = r1 → g2 p = r2 → g3 p = r3 → G p = R) : Ev G R := by
  obtain ⟨f1, hf1⟩ := h1
  obtain ⟨f2, hf2⟩ := h2
  obtain ⟨f3, hf3⟩ := h3
  exact ⟨max f1 (max f2 f3), fun f hle => k _ (hf1 f (by omega)) (hf2 f (by omega)) (hf3 f (by omega))⟩

/-- a call through `prev` is one more unfolding -/
theorem Ev.prev {m : Mode} {ts : List PTok} {res : Res} (h : Ev (fun p => step p m ts) res) : Ev (fun p => p m ts) res := by
  obtain ⟨f0, hf⟩ := h
  refine ⟨f0 + 1, fun f hle => ?_⟩
  obtain ⟨f', rfl⟩ : ∃ f', f = f' + 1 := ⟨f - 1, by omega⟩
  exact hf f' (by omega)

-- ------------------------------------------------------------------ what may follow a phrase

/-- the first token of `rest`, if a punctuator, satisfies `P` -/
def Stop (P : String → Prop) (rest : List PTok) : Prop := ∀ s r, rest = .punct s :: r → P s

theorem Stop.cons {P : String → Prop} {s : String} (h : P s) (r : List PTok) : Stop P (.punct s :: r) := by
  intro s' r' he
  cases he
  exact h

theorem Stop.mono {P Q : String → Prop} {rest : List PTok} (h : Stop P rest) (k : ∀ s, P s → Q s) : Stop Q rest :=
  fun s r he => k s (h s r he)

/-- `s` is no postfix operator and no binary operator of a level below `d` -/
def belowS (d : Nat) (s : String) : Prop := postfixOps.contains s = false ∧ ∀ d' ∈ List.range d, lookupOp d' s = none

instance (d : Nat) (s : String) : Decidable (belowS d s) := by unfold belowS; infer_instance

/-- `s` cannot continue a conditional-expression -/
def condS (s : String) : Prop := belowS 11 s ∧ s ≠ "?"

/-- `s` cannot continue an expression -/
def exprS (s : String) : Prop := (belowS 11 s ∧ s ≠ "?") ∧ assignOps.contains s = false ∧ s ≠ ","

instance (s : String) : Decidable (condS s) := by unfold condS; infer_instance
instance (s : String) : Decidable (exprS s) := by unfold exprS; infer_instance

theorem belowS_succ {d : Nat} {s : String} (h : belowS (d+1) s) : belowS d s ∧ lookupOp d s = none :=
  ⟨⟨h.1, fun d' hd' => h.2 d' (by simp only [List.mem_range] at hd' ⊢; omega)⟩, h.2 d (by simp only [List.mem_range]; omega)⟩

theorem sep_facts : exprS ")" ∧ exprS ":" ∧ condS "," ∧ belowS 11 "?" ∧ lookupUn "(" = none ∧ unaryOther.contains "(" = false ∧
    assignOps.contains "," = false := by decide

-- ------------------------------------------------------------------ the tables, in the direction grammar → parser

def lookOK (d : Nat) (e : String × BinOp) : Bool :=
  match lookupOp d e.1 with
  | some (op, sw) => c11of op sw == e.2 && entryOK op sw
  | none => false

theorem table_look : ∀ d ∈ List.range 11, ∀ e ∈ c11Ops d, lookOK d e = true ∧ belowS d e.1 := by decide

theorem unary_look : ∀ e ∈ c11Unary, lookupUn e.1 = some e.2 ∧ e.1 ≠ ":" ∧ e.1 ≠ "{" := by decide

theorem c11Ops_large (d : Nat) (h : 10 < d) : c11Ops d = [] := by
  unfold c11Ops
  split <;> first | omega | rfl

theorem c11Ops_look {d : Nat} {s : String} {op : BinOp} (h : (s, op) ∈ c11Ops d) :
    belowS d s ∧ ∃ op' sw, lookupOp d s = some (op', sw) ∧ ∀ a b, mkNode op' sw a b = binTree op a b := by
  have hd : d ∈ List.range 11 := by
    simp only [List.mem_range]
    by_cases hl : 10 < d
    · rw [c11Ops_large d hl] at h; cases h
    · omega
  obtain ⟨h1, h2⟩ := table_look d hd (s, op) h
  refine ⟨h2, ?_⟩
  unfold lookOK at h1
  simp only at h1
  split at h1
  · rename_i op' sw heq
    simp only [Bool.and_eq_true, beq_iff_eq] at h1
    refine ⟨op', sw, heq, fun a b => ?_⟩
    rw [mkNode_binTree op' sw h1.2, h1.1]
  · cases h1

-- ------------------------------------------------------------------ a phrase starts with a constant, `(` or a unary operator

theorem derives_start {nt : NT} {ts : List PTok} {t : PT} (h : Derives nt ts t) :
    ∃ x r, ts = x :: r ∧ x ≠ .punct ":" ∧ x ≠ .punct "{" := by
  induction h with
  | num v u => refine ⟨_, _, rfl, ?_, ?_⟩ <;> (intro h; cases h)
  | paren _ _ => exact ⟨_, _, rfl, by decide, by decide⟩
  | unop hm _ _ =>
    have := unary_look _ hm
    refine ⟨_, _, rfl, ?_, ?_⟩
    · intro he; cases he; exact this.2.1 rfl
    · intro he; cases he; exact this.2.2 rfl
  | up _ ih => exact ih
  | binop _ _ _ iha _ => obtain ⟨x, r, rfl, h1, h2⟩ := iha; exact ⟨x, _, rfl, h1, h2⟩
  | condUp _ ih => exact ih
  | cond _ _ _ ihc _ _ => obtain ⟨x, r, rfl, h1, h2⟩ := ihc; exact ⟨x, _, rfl, h1, h2⟩
  | exprUp _ ih => exact ih
  | comma _ _ iha _ => obtain ⟨x, r, rfl, h1, h2⟩ := iha; exact ⟨x, _, rfl, h1, h2⟩

-- ------------------------------------------------------------------ the parser functions, one step each

section Step
variable (p : Mode → List PTok → Res)

theorem loopAt_stop (d : Nat) (t : PT) (rest : List PTok) (h : Stop (fun s => lookupOp d s = none) rest) :
    loopAt p d t rest = .ok (t, rest) := by
  unfold loopAt
  match rest, h with
  | [], _ => rfl
  | .num _ _ :: _, _ => rfl
  | .other :: _, _ => rfl
  | .punct s :: r, h => simp only [h s r rfl]

theorem loopAt_zero (t : PT) (rest : List PTok) : loopAt p 0 t rest = .ok (t, rest) :=
  loopAt_stop p 0 t rest (fun _ _ _ => rfl)

theorem loopAt_op {d : Nat} {s : String} {op : BinOp} {sw : Bool} (a b : PT) (r r' : List PTok) (res : Res)
    (hl : lookupOp (d+1) s = some (op, sw)) (h1 : p (.lvl d) r = .ok (b, r')) (h2 : p (.loop (d+1) (mkNode op sw a b)) r' = res) :
    loopAt p (d+1) a (.punct s :: r) = res := by
  unfold loopAt
  simp only [hl, Nat.add_sub_cancel, h1, h2]

theorem postfixP_of_primary {ts : List PTok} {t : PT} {rest : List PTok} (h : primary p ts = .ok (t, rest))
    (hs : Stop (fun s => postfixOps.contains s = false) rest) : postfixP p ts = .ok (t, rest) := by
  unfold postfixP
  rw [h]
  match rest, hs with
  | [], _ => rfl
  | .num _ _ :: _, _ => rfl
  | .other :: _, _ => rfl
  | .punct s :: r, hs => simp only [hs s r rfl]; rfl

theorem primary_paren {x : PTok} {r r2 : List PTok} {t : PT} (hx : x ≠ .punct "{")
    (h : p .expr (x :: r) = .ok (t, .punct ")" :: r2)) : primary p (.punct "(" :: x :: r) = .ok (t, r2) := by
  unfold primary
  simp only [if_true]
  split
  · rename_i heq
    simp only [List.cons.injEq] at heq
    exact absurd heq.1 hx
  · rw [h]; simp [skipTok]

theorem unary_paren {x : PTok} {r r2 : List PTok} {t : PT} (hx : x ≠ .punct "{")
    (h : p .expr (x :: r) = .ok (t, .punct ")" :: r2)) (hs : Stop (fun s => postfixOps.contains s = false) r2) :
    unary p (.punct "(" :: x :: r) = .ok (t, r2) := by
  unfold unary
  simp only [sep_facts.2.2.2.2.1, sep_facts.2.2.2.2.2.1, Bool.false_eq_true, if_false]
  exact postfixP_of_primary p (primary_paren p hx h) hs

theorem unary_num (v : Nat) (u : Bool) (rest : List PTok) (hs : Stop (fun s => postfixOps.contains s = false) rest) :
    unary p (.num v u :: rest) = .ok (.num v u, rest) := by
  unfold unary
  exact postfixP_of_primary p (by unfold primary; rfl) hs

theorem unary_op {s : String} {op : UnOp} {r r' : List PTok} {t : PT} (hl : lookupUn s = some op)
    (h : p (.lvl 0) r = .ok (t, r')) : unary p (.punct s :: r) = .ok (unTree op t, r') := by
  unfold unary
  simp only [hl, h, mkUnary_unTree]

theorem lvlD_succ (d : Nat) (ts : List PTok) (node : PT) (r : List PTok) (res : Res)
    (h1 : lvlD p d ts = .ok (node, r)) (h2 : loopAt p (d+1) node r = res) : lvlD p (d+1) ts = res := by
  simp only [lvlD, h1, h2]

theorem condAt_plain {ts : List PTok} {t : PT} {rest : List PTok} (h : lvlD p 10 ts = .ok (t, rest))
    (hs : Stop (fun s => s ≠ "?") rest) : condAt p ts = .ok (t, rest) := by
  unfold condAt
  rw [table_c11.1, h]
  match rest, hs with
  | [], _ => rfl
  | .num _ _ :: _, _ => rfl
  | .other :: _, _ => rfl
  | .punct s :: r, hs => simp only [if_neg (hs s r rfl)]

theorem condAt_q {ts : List PTok} {c a b : PT} {x : PTok} {r r3 r4 : List PTok}
    (h0 : lvlD p 10 ts = .ok (c, .punct "?" :: x :: r)) (hx : x ≠ .punct ":")
    (h1 : p .expr (x :: r) = .ok (a, .punct ":" :: r3)) (h2 : p .cond r3 = .ok (b, r4)) :
    condAt p ts = .ok (.cond c a b, r4) := by
  unfold condAt
  rw [table_c11.1, h0]
  simp only [if_true]
  split
  · rename_i heq
    simp only [List.cons.injEq] at heq
    exact absurd heq.1 hx
  · rw [h1]; simp [skipTok, h2]

theorem exprAt_plain {ts : List PTok} {t : PT} {rest : List PTok} (h : condAt p ts = .ok (t, rest))
    (hs : Stop (fun s => assignOps.contains s = false ∧ s ≠ ",") rest) : exprAt p ts = .ok (t, rest) := by
  unfold exprAt assignAt
  rw [h]
  match rest, hs with
  | [], _ => rfl
  | .num _ _ :: _, _ => rfl
  | .other :: _, _ => rfl
  | .punct s :: r, hs => simp only [(hs s r rfl).1, Bool.false_eq_true, if_false, if_neg (hs s r rfl).2]

theorem exprAt_comma {ts : List PTok} {a b : PT} {r r2 : List PTok} (h : condAt p ts = .ok (a, .punct "," :: r))
    (h2 : p .expr r = .ok (b, r2)) : exprAt p ts = .ok (.comma a b, r2) := by
  unfold exprAt assignAt
  rw [h]
  simp only [sep_facts.2.2.2.2.2.2, Bool.false_eq_true, if_false, if_true, h2]

end Step

-- ------------------------------------------------------------------ the induction

/-- the statement proved for each nonterminal (see the header) -/
def Goal : NT → List PTok → PT → Prop
  | .lvl d, ts, t => ∀ rest, Stop (belowS d) rest → ∀ res, Ev (fun p => loopAt p d t rest) res → Ev (fun p => lvlD p d (ts ++ rest)) res
  | .cond, ts, t => ∀ rest, Stop condS rest → Ev (fun p => condAt p (ts ++ rest)) (.ok (t, rest))
  | .expr, ts, t => ∀ rest, Stop exprS rest → Ev (fun p => exprAt p (ts ++ rest)) (.ok (t, rest))

theorem goal_lvl_ok {d : Nat} {ts : List PTok} {t : PT} (h : Goal (.lvl d) ts t) (rest : List PTok)
    (hs : Stop (belowS (d+1)) rest) : Ev (fun p => lvlD p d (ts ++ rest)) (.ok (t, rest)) :=
  h rest (hs.mono fun _ hb => (belowS_succ hb).1) _
    (Ev.const fun p => loopAt_stop p d t rest (hs.mono fun _ hb => (belowS_succ hb).2))

theorem goal_num (v : Nat) (u : Bool) : Goal (.lvl 0) [.num v u] (.num v u) := by
  intro rest hs res hres
  have := hres.val (fun p => loopAt_zero p _ rest)
  subst this
  exact Ev.const fun p => unary_num p v u rest (hs.mono fun _ hb => hb.1)

theorem goal_paren {ts : List PTok} {t : PT} (hd : Derives .expr ts t) (ih : Goal .expr ts t) :
    Goal (.lvl 0) (.punct "(" :: ts ++ [.punct ")"]) t := by
  intro rest hs res hres
  have := hres.val (fun p => loopAt_zero p _ rest)
  subst this
  obtain ⟨x, r, rfl, _, hx⟩ := derives_start hd
  have h1 : Ev (fun p => p .expr (x :: r ++ .punct ")" :: rest)) (.ok (t, .punct ")" :: rest)) :=
    Ev.prev (ih (.punct ")" :: rest) (Stop.cons sep_facts.1 _))
  refine h1.imp fun p hp => ?_
  have he : (PTok.punct "(" :: (x :: r) ++ [PTok.punct ")"]) ++ rest = .punct "(" :: x :: (r ++ .punct ")" :: rest) := by simp
  rw [he]
  exact unary_paren p hx hp (hs.mono fun _ hb => hb.1)

theorem goal_unop {s : String} {op : UnOp} {ts : List PTok} {t : PT} (hm : (s, op) ∈ c11Unary) (ih : Goal (.lvl 0) ts t) :
    Goal (.lvl 0) (.punct s :: ts) (unTree op t) := by
  intro rest hs res hres
  have := hres.val (fun p => loopAt_zero p _ rest)
  subst this
  have h1 : Ev (fun p => p (.lvl 0) (ts ++ rest)) (.ok (t, rest)) :=
    Ev.prev (ih rest hs _ (Ev.const fun p => loopAt_zero p t rest))
  exact h1.imp fun p hp => unary_op p (unary_look _ hm).1 hp

theorem goal_up {d : Nat} {ts : List PTok} {t : PT} (ih : Goal (.lvl d) ts t) : Goal (.lvl (d+1)) ts t := by
  intro rest hs res hres
  exact (goal_lvl_ok ih rest hs).imp2 hres fun p h1 h2 => lvlD_succ p d _ t rest res h1 h2

theorem goal_binop {d : Nat} {s : String} {op : BinOp} {as bs : List PTok} {a b : PT} (hm : (s, op) ∈ c11Ops (d+1))
    (iha : Goal (.lvl (d+1)) as a) (ihb : Goal (.lvl d) bs b) :
    Goal (.lvl (d+1)) (as ++ .punct s :: bs) (binTree op a b) := by
  intro rest hs res hres
  obtain ⟨hbel, op', sw, hl, hmk⟩ := c11Ops_look hm
  have hb : Ev (fun p => p (.lvl d) (bs ++ rest)) (.ok (b, rest)) := Ev.prev (goal_lvl_ok ihb rest hs)
  have hloop : Ev (fun p => p (.loop (d+1) (binTree op a b)) rest) res := Ev.prev hres
  have h3 : Ev (fun p => loopAt p (d+1) a (.punct s :: (bs ++ rest))) res :=
    hb.imp2 hloop fun p h1 h2 => loopAt_op p a b _ rest res hl h1 (by rw [hmk]; exact h2)
  have := iha (.punct s :: (bs ++ rest)) (Stop.cons hbel _) res h3
  have he : (as ++ PTok.punct s :: bs) ++ rest = as ++ .punct s :: (bs ++ rest) := by simp
  rw [he]
  exact this

theorem goal_condUp {ts : List PTok} {t : PT} (ih : Goal (.lvl 10) ts t) : Goal .cond ts t := by
  intro rest hs
  exact (goal_lvl_ok ih rest (hs.mono fun _ hc => hc.1)).imp fun p hp => condAt_plain p hp (hs.mono fun _ hc => hc.2)

theorem goal_cond {cs as bs : List PTok} {c a b : PT} (hda : Derives .expr as a) (ihc : Goal (.lvl 10) cs c)
    (iha : Goal .expr as a) (ihb : Goal .cond bs b) :
    Goal .cond (cs ++ .punct "?" :: (as ++ .punct ":" :: bs)) (.cond c a b) := by
  intro rest hs
  obtain ⟨x, r, rfl, hx, _⟩ := derives_start hda
  have h0 : Ev (fun p => lvlD p 10 (cs ++ .punct "?" :: x :: (r ++ .punct ":" :: (bs ++ rest))))
      (.ok (c, .punct "?" :: x :: (r ++ .punct ":" :: (bs ++ rest)))) :=
    goal_lvl_ok ihc _ (Stop.cons sep_facts.2.2.2.1 _)
  have h1 : Ev (fun p => p .expr (x :: r ++ .punct ":" :: (bs ++ rest))) (.ok (a, .punct ":" :: (bs ++ rest))) :=
    Ev.prev (iha _ (Stop.cons sep_facts.2.1 _))
  have h2 : Ev (fun p => p .cond (bs ++ rest)) (.ok (b, rest)) := Ev.prev (ihb rest hs)
  have he : (cs ++ PTok.punct "?" :: (x :: r ++ PTok.punct ":" :: bs)) ++ rest
      = cs ++ .punct "?" :: x :: (r ++ .punct ":" :: (bs ++ rest)) := by simp
  rw [he]
  exact Ev.imp3 h0 h1 h2 fun p g0 g1 g2 => condAt_q p g0 hx g1 g2

theorem goal_exprUp {ts : List PTok} {t : PT} (ih : Goal .cond ts t) : Goal .expr ts t := by
  intro rest hs
  exact (ih rest (hs.mono fun _ he => he.1)).imp fun p hp => exprAt_plain p hp (hs.mono fun _ he => he.2)

theorem goal_comma {as bs : List PTok} {a b : PT} (iha : Goal .cond as a) (ihb : Goal .expr bs b) :
    Goal .expr (as ++ .punct "," :: bs) (.comma a b) := by
  intro rest hs
  have h1 : Ev (fun p => condAt p (as ++ .punct "," :: (bs ++ rest))) (.ok (a, .punct "," :: (bs ++ rest))) :=
    iha _ (Stop.cons sep_facts.2.2.1 _)
  have h2 : Ev (fun p => p .expr (bs ++ rest)) (.ok (b, rest)) := Ev.prev (ihb rest hs)
  have he : (as ++ PTok.punct "," :: bs) ++ rest = as ++ .punct "," :: (bs ++ rest) := by simp
  rw [he]
  exact h1.imp2 h2 fun p g1 g2 => exprAt_comma p g1 g2

/-- completeness for every nonterminal, in continuation form -/
theorem derives_goal {nt : NT} {ts : List PTok} {t : PT} (h : Derives nt ts t) : Goal nt ts t := by
  induction h with
  | num v u => exact goal_num v u
  | paren hd ih => exact goal_paren hd ih
  | unop hm _ ih => exact goal_unop hm ih
  | up _ ih => exact goal_up ih
  | binop hm _ _ iha ihb => exact goal_binop hm iha ihb
  | condUp _ ih => exact goal_condUp ih
  | cond _ hda _ ihc iha ihb => exact goal_cond hda ihc iha ihb
  | exprUp _ ih => exact goal_exprUp ih
  | comma _ _ iha ihb => exact goal_comma iha ihb

/-- a derived conditional-expression is parsed completely, to the derived tree, with the fuel `ifParse` uses -/
theorem derives_parseN {ts : List PTok} {t : PT} (h : Derives .cond ts t) : parseN (ts.length + 1) .cond ts = .ok (t, []) := by
  have hg := derives_goal h [] (fun _ _ he => by cases he)
  rw [List.append_nil] at hg
  obtain ⟨f0, hf⟩ := Ev.prev (m := .cond) hg
  rw [← parseN_stable ts .cond (max f0 (ts.length + 1)) (by omega)]
  exact hf _ (by omega)

/-- the same for an `expression` / a level, followed by a rest that cannot continue it (entry points of the parser) -/
theorem derives_parseN_expr {ts rest : List PTok} {t : PT} (h : Derives .expr ts t) (hs : Stop exprS rest) :
    ∃ f0, ∀ f, f0 ≤ f → parseN f .expr (ts ++ rest) = .ok (t, rest) :=
  Ev.prev (m := .expr) (derives_goal h rest hs)

end ChibiVerif.IfParse
