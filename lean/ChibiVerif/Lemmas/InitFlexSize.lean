/-
C05: the size of an object whose struct type ends in a flexible array member.  `initializer()` copies the type and re-types the
last member with the type of its node - `elem[n]`, `n` the counted length (0 if no initializer reached the member) - and adds
the member's size to the struct's (`resolveTy`).
-/
import ChibiVerif.Lemmas.InitTreeLemmas

namespace ChibiVerif.Init

theorem resolveArr_size (el : Ty) (c : Init) : (resolveArr el c).size = el.size * (flexLen c : Int) := by
  cases c <;> simp [resolveArr, flexLen, Ty.size]

theorem lastMemberSize_resolveLast : ∀ (ms : Members) (cs : List Init) (el : Ty) (n : Nat), flexResolved ms cs = some (el, n) →
    lastMemberSize (resolveLast ms cs) = el.size * (n : Int)
  | [], _, _, _, h => by simp [flexResolved] at h
  | [(mi, t)], cs, el, n, h => by
    cases cs with
    | nil => simp [flexResolved] at h
    | cons c cs =>
      cases cs with
      | cons _ _ => simp [flexResolved] at h
      | nil =>
        simp only [flexResolved, Option.map_eq_some_iff] at h
        obtain ⟨el', hel, heq⟩ := h
        cases heq
        simp only [resolveLast, hel, lastMemberSize]
        exact resolveArr_size el c
  | m0 :: m :: ms, [], _, _, h => by simp [flexResolved] at h
  | m0 :: m :: ms, c :: cs, el, n, h => by
    simp only [flexResolved] at h
    have ih := lastMemberSize_resolveLast (m :: ms) cs el n h
    cases cs with
    | nil => cases ms <;> simp [flexResolved] at h
    | cons c1 cs1 =>
      have : resolveLast (m0 :: m :: ms) (c :: c1 :: cs1) = m0 :: resolveLast (m :: ms) (c1 :: cs1) := by
        simp [resolveLast]
      rw [this]
      cases hr : resolveLast (m :: ms) (c1 :: cs1) with
      | nil =>
        exfalso
        cases ms with
        | nil => cases cs1 <;> simp [resolveLast] at hr; split at hr <;> simp at hr
        | cons m2 ms2 => simp [resolveLast] at hr
      | cons r0 rs => rw [hr] at ih; simpa [lastMemberSize] using ih

/-- **sizeof after the initializer**: `sizeof(struct) + n · sizeof(elem)` -/
theorem resolveTy_flex_size (ms : Members) (sz : Nat) (init : Init) (el : Ty) (n : Nat)
    (h : flexResolved ms init.children = some (el, n)) (hel : 0 ≤ el.size) :
    (resolveTy (.struct ms sz true) init).sz = sz + el.sz * n := by
  have : (el.size * (n : Int)).toNat = el.size.toNat * n := by
    rw [Int.toNat_mul hel (Int.natCast_nonneg n)]; simp
  simp only [resolveTy, Ty.sz, Ty.size, Int.toNat_natCast]
  rw [lastMemberSize_resolveLast ms init.children el n h, this]

end ChibiVerif.Init
