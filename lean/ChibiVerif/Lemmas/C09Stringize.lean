/-
C09 — the region of known finding C09-stringize-backslash-outside-literal is exact at the `#` operator:
`quote_string(join_tokens(arg))` is the string of C11 6.10.3.2p2 **iff** every token of the argument is literal-safe
(`strSafeTok`: a string literal, a character constant, or a token without `\` and `"`).  The "if" is
`stringize_eq_spec` (Lemmas/PPSubst.lean); this file proves the "only if": one token that is not literal-safe makes chibicc's string
strictly longer than the standard's (every `\`/`"` outside a literal is doubled, nothing ever gets shorter).
-/
import ChibiVerif.Model.PP
import ChibiVerif.Spec.PPSpec
import ChibiVerif.Lemmas.PPSubst

namespace ChibiVerif.PP
open ChibiVerif.Spec.PPSpec

theorem escChars_cons (c : Char) (r : List Char) :
    escChars (c :: r) = (if c == '\\' || c == '"' then ['\\', c] else [c]) ++ escChars r := by
  simp [escChars]

theorem escChars_length_le : ∀ (cs : List Char), cs.length ≤ (escChars cs).length := by
  intro cs
  induction cs with
  | nil => simp [escChars]
  | cons c r ih =>
    rw [escChars_cons]
    cases hc : (c == '\\' || c == '"') <;> simp only [Bool.false_eq_true, if_false, if_true, List.length_append,
      List.length_cons, List.length_nil] <;> omega

theorem escChars_length_lt : ∀ (cs : List Char), (cs.any fun c => c == '\\' || c == '"') = true →
    cs.length < (escChars cs).length := by
  intro cs
  induction cs with
  | nil => intro h; simp at h
  | cons c r ih =>
    intro h
    simp only [List.any_cons, Bool.or_eq_true] at h
    have hle := escChars_length_le r
    rw [escChars_cons]
    by_cases hc : (c == '\\' || c == '"') = true
    · simp only [hc, if_true, List.length_append, List.length_cons, List.length_nil]; omega
    · have hr : (r.any fun c => c == '\\' || c == '"') = true := by
        rcases h with h | h
        · simp only [Bool.or_eq_true] at hc; exact absurd h hc
        · exact h
      have := ih hr
      have hc' : (c == '\\' || c == '"') = false := by simpa using hc
      simp only [hc', Bool.false_eq_true, if_false, List.length_append, List.length_cons, List.length_nil]; omega

theorem strPiece_len_le (t : Tok) : (strPiece t).toList.length ≤ (escChars t.text.toList).length := by
  unfold strPiece
  by_cases hk : (t.kind == .str || t.kind == .other) = true
  · simp [hk, escapeLit, escChars, String.toList_ofList]
  · simp only [hk]
    exact escChars_length_le _

theorem strPiece_len_lt (t : Tok) (h : strSafeTok t = false) :
    (strPiece t).toList.length < (escChars t.text.toList).length := by
  unfold strSafeTok at h
  simp only [Bool.or_eq_false_iff, Bool.not_eq_false'] at h
  obtain ⟨⟨h1, h2⟩, h3⟩ := h
  unfold strPiece
  simp only [h1, h2, Bool.or_self, Bool.false_eq_true, if_false]
  exact escChars_length_lt _ h3

theorem esc_space (b : Bool) : escChars (if b then " " else "").toList = (if b then " " else "").toList := by
  cases b <;> simp [escChars]

theorem foldl_len_stringize : ∀ (ts : List Tok) (accJ accS : String),
    accS.toList.length ≤ (escChars accJ.toList).length →
    (ts.foldl (fun acc u => acc ++ (if spaced u then " " else "") ++ strPiece u) accS).toList.length ≤
      (escChars (ts.foldl (fun acc u => acc ++ (if u.hasSpace || u.atBol then " " else "") ++ u.text) accJ).toList).length ∧
    ((accS.toList.length < (escChars accJ.toList).length ∨ ∃ t ∈ ts, strSafeTok t = false) →
      (ts.foldl (fun acc u => acc ++ (if spaced u then " " else "") ++ strPiece u) accS).toList.length <
      (escChars (ts.foldl (fun acc u => acc ++ (if u.hasSpace || u.atBol then " " else "") ++ u.text) accJ).toList).length) := by
  intro ts
  induction ts with
  | nil =>
    intro accJ accS h
    refine ⟨by simpa using h, ?_⟩
    rintro (h' | ⟨t, ht, _⟩)
    · simpa using h'
    · simp at ht
  | cons u r ih =>
    intro accJ accS h
    simp only [List.foldl_cons]
    have hle := strPiece_len_le u
    have hlenS : (accS ++ (if spaced u then " " else "") ++ strPiece u).toList.length =
        accS.toList.length + (if u.hasSpace || u.atBol then 1 else 0) + (strPiece u).toList.length := by
      cases hb : (u.hasSpace || u.atBol) <;> simp [spaced, hb, String.toList_append] <;> omega
    have hlenJ : (escChars (accJ ++ (if u.hasSpace || u.atBol then " " else "") ++ u.text).toList).length =
        (escChars accJ.toList).length + (if u.hasSpace || u.atBol then 1 else 0) + (escChars u.text.toList).length := by
      cases hb : (u.hasSpace || u.atBol) <;>
        simp only [Bool.false_eq_true, if_false, if_true, String.toList_append, escChars_append, List.length_append] <;>
        simp [escChars]
    have hstep : (accS ++ (if spaced u then " " else "") ++ strPiece u).toList.length ≤
        (escChars (accJ ++ (if u.hasSpace || u.atBol then " " else "") ++ u.text).toList).length := by
      rw [hlenS, hlenJ]; omega
    obtain ⟨ih1, ih2⟩ := ih _ _ hstep
    refine ⟨ih1, ?_⟩
    intro hcase
    apply ih2
    rcases hcase with hlt | ⟨t, ht, hun⟩
    · left
      rw [hlenS, hlenJ]; omega
    · simp only [List.mem_cons] at ht
      rcases ht with rfl | ht
      · left
        have := strPiece_len_lt t hun
        rw [hlenS, hlenJ]; omega
      · exact Or.inr ⟨t, ht, hun⟩

/-- one token with a `\` or `"` outside a literal, and chibicc's stringized text is not the standard's -/
theorem stringize_ne_spec (hash : Tok) (arg : List Tok) (h : ∃ t ∈ arg, strSafeTok t = false) :
    (stringize hash arg).text ≠ (stringizeSpec hash arg).text := by
  intro heq
  have hlen : (stringizeText arg).toList.length < (escChars (joinTokens arg).toList).length := by
    cases arg with
    | nil => obtain ⟨t, ht, _⟩ := h; simp at ht
    | cons t ts =>
      simp only [stringizeText, joinTokens]
      apply (foldl_len_stringize ts t.text (strPiece t) (strPiece_len_le t)).2
      obtain ⟨u, hu, hun⟩ := h
      simp only [List.mem_cons] at hu
      rcases hu with rfl | hu
      · exact Or.inl (strPiece_len_lt u hun)
      · exact Or.inr ⟨u, hu, hun⟩
  have h2 := congrArg (fun s : String => s.toList.length) heq
  simp only [stringize, stringizeSpec, quoteString, String.toList_ofList, String.toList_append, List.length_append,
    List.length_cons, List.length_nil] at h2
  have h3 : (escChars (joinTokens arg).toList).length =
      (List.flatMap (fun c => if (c == '\\' || c == '"') = true then ['\\', c] else [c]) (joinTokens arg).toList).length := rfl
  have h4 : ("\"" : String).toList.length = 1 := by decide
  omega

end ChibiVerif.PP
