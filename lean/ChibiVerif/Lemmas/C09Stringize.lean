/-
C09 — the `#` operator.

1. The repaired defect (`fix:` 6fecbd6, former known finding C09-stringize-backslash-outside-literal).  Before the repair
   `stringize` was `quote_string(join_tokens(arg))` (`stringizeOld` below).  That formula gives the string of C11 6.10.3.2p2
   only if every token of the argument is literal-safe (`strSafeTok`: a string literal, a character constant, or a token
   without `\` and `"`): one token that is not makes the old string strictly longer than the standard's (every `\`/`"`
   outside a literal is doubled, nothing ever gets shorter) — `stringizeOld_ne_spec`.  The present `stringize` equals
   the specification for every argument (`stringize_eq_spec`, Lemmas/PPSubst.lean).
2. What the model leaves out of the C function: `stringize` hands its buffer to `tokenize()`.  `stringize_wellformed`:
   if every token of the argument is literal-safe and no spelling contains a new-line character, the buffer is exactly
   one string literal for the lexer (`Lex.lexOne … = .one .str`), so `tokenize` returns precisely the token of the model.
-/
import ChibiVerif.Model.PP
import ChibiVerif.Spec.PPSpec
import ChibiVerif.Lemmas.PPSubst

namespace ChibiVerif.PP
open ChibiVerif.Spec.PPSpec

/-- `stringize` as it was before `fix:` 6fecbd6: `new_str_token(join_tokens(arg, NULL), hash)` -/
def stringizeOld (hash : Tok) (arg : List Tok) : Tok :=
  { kind := .str, text := quoteString (joinTokens arg), hasSpace := hash.hasSpace, atBol := hash.atBol, line := hash.line }

theorem escChars_cons (c : Char) (r : List Char) :
    escChars (c :: r) = (if c == '\\' || c == '"' then ['\\', c] else [c]) ++ escChars r := by
  simp [escChars]

theorem escChars_length_le : ∀ (cs : List Char), cs.length ≤ (escChars cs).length := by
  intro cs
  induction cs with
  | nil => simp [escChars]
  | cons c r ih =>
    rw [escChars_cons]
    cases hc : (c == '\\' || c == '"') <;> simp only [Bool.false_eq_true, if_false, if_true, List.length_append,
      List.length_cons, List.length_nil] <;> omega

theorem escChars_length_lt : ∀ (cs : List Char), (cs.any fun c => c == '\\' || c == '"') = true →
    cs.length < (escChars cs).length := by
  intro cs
  induction cs with
  | nil => intro h; simp at h
  | cons c r ih =>
    intro h
    simp only [List.any_cons, Bool.or_eq_true] at h
    have hle := escChars_length_le r
    rw [escChars_cons]
    by_cases hc : (c == '\\' || c == '"') = true
    · simp only [hc, if_true, List.length_append, List.length_cons, List.length_nil]; omega
    · have hr : (r.any fun c => c == '\\' || c == '"') = true := by
        rcases h with h | h
        · simp only [Bool.or_eq_true] at hc; exact absurd h hc
        · exact h
      have := ih hr
      have hc' : (c == '\\' || c == '"') = false := by simpa using hc
      simp only [hc', Bool.false_eq_true, if_false, List.length_append, List.length_cons, List.length_nil]; omega

theorem strPiece_len_le (t : Tok) : (strPiece t).toList.length ≤ (escChars t.text.toList).length := by
  unfold strPiece
  by_cases hk : (t.kind == .str || t.kind == .other) = true
  · simp [hk, escapeLit, escChars, String.toList_ofList]
  · simp only [hk]
    exact escChars_length_le _

theorem strPiece_len_lt (t : Tok) (h : strSafeTok t = false) :
    (strPiece t).toList.length < (escChars t.text.toList).length := by
  unfold strSafeTok at h
  simp only [Bool.or_eq_false_iff, Bool.not_eq_false'] at h
  obtain ⟨⟨h1, h2⟩, h3⟩ := h
  unfold strPiece
  simp only [h1, h2, Bool.or_self, Bool.false_eq_true, if_false]
  exact escChars_length_lt _ h3

theorem esc_space (b : Bool) : escChars (if b then " " else "").toList = (if b then " " else "").toList := by
  cases b <;> simp [escChars]

theorem foldl_len_stringize : ∀ (ts : List Tok) (accJ accS : String),
    accS.toList.length ≤ (escChars accJ.toList).length →
    (ts.foldl (fun acc u => acc ++ (if spaced u then " " else "") ++ strPiece u) accS).toList.length ≤
      (escChars (ts.foldl (fun acc u => acc ++ (if u.hasSpace || u.atBol then " " else "") ++ u.text) accJ).toList).length ∧
    ((accS.toList.length < (escChars accJ.toList).length ∨ ∃ t ∈ ts, strSafeTok t = false) →
      (ts.foldl (fun acc u => acc ++ (if spaced u then " " else "") ++ strPiece u) accS).toList.length <
      (escChars (ts.foldl (fun acc u => acc ++ (if u.hasSpace || u.atBol then " " else "") ++ u.text) accJ).toList).length) := by
  intro ts
  induction ts with
  | nil =>
    intro accJ accS h
    refine ⟨by simpa using h, ?_⟩
    rintro (h' | ⟨t, ht, _⟩)
    · simpa using h'
    · simp at ht
  | cons u r ih =>
    intro accJ accS h
    simp only [List.foldl_cons]
    have hle := strPiece_len_le u
    have hlenS : (accS ++ (if spaced u then " " else "") ++ strPiece u).toList.length =
        accS.toList.length + (if u.hasSpace || u.atBol then 1 else 0) + (strPiece u).toList.length := by
      cases hb : (u.hasSpace || u.atBol) <;> simp [spaced, hb, String.toList_append] <;> omega
    have hlenJ : (escChars (accJ ++ (if u.hasSpace || u.atBol then " " else "") ++ u.text).toList).length =
        (escChars accJ.toList).length + (if u.hasSpace || u.atBol then 1 else 0) + (escChars u.text.toList).length := by
      cases hb : (u.hasSpace || u.atBol) <;>
        simp only [Bool.false_eq_true, if_false, if_true, String.toList_append, escChars_append, List.length_append] <;>
        simp [escChars]
    have hstep : (accS ++ (if spaced u then " " else "") ++ strPiece u).toList.length ≤
        (escChars (accJ ++ (if u.hasSpace || u.atBol then " " else "") ++ u.text).toList).length := by
      rw [hlenS, hlenJ]; omega
    obtain ⟨ih1, ih2⟩ := ih _ _ hstep
    refine ⟨ih1, ?_⟩
    intro hcase
    apply ih2
    rcases hcase with hlt | ⟨t, ht, hun⟩
    · left
      rw [hlenS, hlenJ]; omega
    · simp only [List.mem_cons] at ht
      rcases ht with rfl | ht
      · left
        have := strPiece_len_lt t hun
        rw [hlenS, hlenJ]; omega
      · exact Or.inr ⟨t, ht, hun⟩

/-- one token with a `\` or `"` outside a literal, and the OLD stringized text is not the standard's -/
theorem stringizeOld_ne_spec (hash : Tok) (arg : List Tok) (h : ∃ t ∈ arg, strSafeTok t = false) :
    (stringizeOld hash arg).text ≠ (stringizeSpec hash arg).text := by
  intro heq
  have hlen : (stringizeText arg).toList.length < (escChars (joinTokens arg).toList).length := by
    cases arg with
    | nil => obtain ⟨t, ht, _⟩ := h; simp at ht
    | cons t ts =>
      simp only [stringizeText, joinTokens]
      apply (foldl_len_stringize ts t.text (strPiece t) (strPiece_len_le t)).2
      obtain ⟨u, hu, hun⟩ := h
      simp only [List.mem_cons] at hu
      rcases hu with rfl | hu
      · exact Or.inl (strPiece_len_lt u hun)
      · exact Or.inr ⟨u, hu, hun⟩
  have h2 := congrArg (fun s : String => s.toList.length) heq
  simp only [stringizeOld, stringizeSpec, quoteString, String.toList_ofList, String.toList_append, List.length_append,
    List.length_cons, List.length_nil] at h2
  have h3 : (escChars (joinTokens arg).toList).length =
      (List.flatMap (fun c => if (c == '\\' || c == '"') = true then ['\\', c] else [c]) (joinTokens arg).toList).length := rfl
  have h4 : ("\"" : String).toList.length = 1 := by decide
  omega

/-! ## the buffer of `stringize` is one string literal -/

/-- character lists in which every `\` starts a complete two-character escape and no `"` or new-line stands outside one:
    `string_literal_end` passes over them and is back at a character boundary -/
inductive Closed : List Char → Prop
  | nil : Closed []
  | plain (c : Char) (r : List Char) : c ≠ '"' → c ≠ '\\' → c ≠ '\n' → Closed r → Closed (c :: r)
  | esc (d : Char) (r : List Char) : Closed r → Closed ('\\' :: d :: r)

theorem Closed.append {a b : List Char} (ha : Closed a) (hb : Closed b) : Closed (a ++ b) := by
  induction ha with
  | nil => simpa using hb
  | plain c r h1 h2 h3 _ ih => exact Closed.plain c _ h1 h2 h3 ih
  | esc d r _ ih => exact Closed.esc d _ ih

/-- `string_literal_end` on closed text followed by the closing quote: it stops exactly at that quote -/
theorem strLitLen_closed {cs : List Char} (h : Closed cs) : Lex.strLitLen (cs ++ ['"']) = some (cs.length + 1) := by
  induction h with
  | nil => simp [Lex.strLitLen]
  | plain c r h1 h2 h3 _ ih =>
    have e1 : (c == '"') = false := by simpa using h1
    have e2 : (c == '\\') = false := by simpa using h2
    have e3 : (c == '\n') = false := by simpa using h3
    rw [List.cons_append, Lex.strLitLen.eq_def]
    simp only [e1, e2, e3, Bool.false_eq_true, if_false, ih, Option.map_some, List.length_cons]
  | esc d r _ ih =>
    have h1 : ('\\' == '"') = false := by decide
    have h2 : ('\\' == '\n') = false := by decide
    simp only [List.cons_append, Lex.strLitLen, h1, h2, Bool.false_eq_true, if_false, beq_self_eq_true, if_true, ih,
      Option.map_some, List.length_cons]

theorem closed_escChars : ∀ (cs : List Char), cs.all (· != '\n') = true → Closed (escChars cs) := by
  intro cs
  induction cs with
  | nil => intro _; exact Closed.nil
  | cons c r ih =>
    intro h
    simp only [List.all_cons, Bool.and_eq_true, bne_iff_ne, ne_eq] at h
    rw [escChars_cons]
    by_cases hc : (c == '\\' || c == '"') = true
    · simp only [hc, if_true, List.cons_append, List.nil_append]
      exact Closed.esc c _ (ih h.2)
    · have hc' : (c == '\\' || c == '"') = false := by simpa using hc
      simp only [hc', Bool.false_eq_true, if_false, List.cons_append, List.nil_append]
      simp only [Bool.or_eq_false_iff, beq_eq_false_iff_ne, ne_eq] at hc'
      exact Closed.plain c _ hc'.2 hc'.1 h.1 (ih h.2)

theorem closed_plain : ∀ (cs : List Char), (cs.any fun c => c == '\\' || c == '"') = false → cs.all (· != '\n') = true →
    Closed cs := by
  intro cs h1 h2
  have := closed_escChars cs h2
  rwa [escChars_id cs h1] at this

/-- a token is literal-safe and its spelling has no new-line character (no token of `tokenize` has one) -/
def strzOkTok (t : Tok) : Bool := strSafeTok t && t.text.toList.all (· != '\n')

theorem closed_strzCopy (t : Tok) (h : strzOkTok t = true) :
    Closed (strzCopy (t.kind == .str || t.kind == .other) t.text.toList) := by
  simp only [strzOkTok, Bool.and_eq_true] at h
  cases hk : (t.kind == .str || t.kind == .other)
  · rw [strzCopy_false]
    have hs := h.1
    simp only [strSafeTok, Bool.or_assoc] at hs
    rw [← Bool.or_assoc, hk, Bool.false_or] at hs
    exact closed_plain _ (by simpa using hs) h.2
  · rw [strzCopy_true]
    exact closed_escChars _ h.2

theorem closed_strzLoop : ∀ (arg : List Tok) (first : Bool), (∀ t ∈ arg, strzOkTok t = true) → Closed (strzLoop first arg) := by
  intro arg
  induction arg with
  | nil => intro _ _; exact Closed.nil
  | cons t ts ih =>
    intro first h
    rw [strzLoop]
    refine Closed.append ?_ (Closed.append (closed_strzCopy t (h t (by simp))) (ih false (fun u hu => h u (by simp [hu]))))
    split
    · exact Closed.plain ' ' [] (by decide) (by decide) (by decide) Closed.nil
    · exact Closed.nil

/-- `tokenize(buf)` inside `stringize` sees exactly one token, a string literal: the model's `stringize` leaves nothing out -/
theorem stringize_wellformed (hash : Tok) (arg : List Tok) (h : ∀ t ∈ arg, strzOkTok t = true) :
    Lex.lexOne (stringize hash arg).text = .one .str := by
  have hlen := strLitLen_closed (closed_strzLoop arg true h)
  have hq : ('"' : Char).isDigit = false := by decide
  simp only [Lex.lexOne, stringize, String.toList_ofList, Lex.lexFirst, Lex.startsWith]
  have h1 : ("//".toList.isPrefixOf ('"' :: (strzLoop true arg ++ ['"']))) = false := by
    show (['/', '/'].isPrefixOf ('"' :: (strzLoop true arg ++ ['"']))) = false
    simp [List.isPrefixOf]
  have h2 : ("/*".toList.isPrefixOf ('"' :: (strzLoop true arg ++ ['"']))) = false := by
    show (['/', '*'].isPrefixOf ('"' :: (strzLoop true arg ++ ['"']))) = false
    simp [List.isPrefixOf]
  simp only [h1, h2, Bool.false_eq_true, if_false, hq, Bool.false_or]
  have h3 : (('"' : Char) == '.') = false := by decide
  simp only [h3, Bool.false_and, Bool.false_eq_true, if_false, beq_self_eq_true, if_true, List.drop_one, List.tail_cons, hlen,
    List.length_cons, List.length_append, List.length_nil]
  have : (1 + (strzLoop true arg).length.succ == (strzLoop true arg).length + (0 + 1) + 1) = true := by
    simp only [beq_iff_eq]; omega
  simp_all

end ChibiVerif.PP
