/-
C20: the parser's labels occur in the generated code at most as often as in the tree.

`userDistinct ls` — the labels of the emitted code that come from the parser (`break`/`continue`/`case`
labels, labelled statements) occur once each — was the one hypothesis of the label-height theorems
about the emitted LINES.  This module derives it from a fact about the TREE:

  `treeDistinct n` (Model/C20Flow.lean): the labels the tree mentions (`labsN n`: every ND_FOR / ND_DO /
  ND_SWITCH / ND_CASE / ND_LABEL node contributes the labels `parse.c` gave it with
  `new_unique_name()`) are pairwise distinct.

The argument is a count: for every label `l`, `labCount l ls` — the number of lines `l:` in the code —
is at most `tcnt l n`, the number of mentions of `l` in the tree, because `gen_expr`/`gen_stmt` print
the code of every operand at most once and a label line `l:` only where the tree has the label
(`UC l m k`: whenever `m` succeeds its code defines `l` at most `k` times; derived like `Dep`,
Lemmas/C20Depth.lean, by peeling the `do` blocks of Model/Codegen).  The labels made up from `count()`
and the numeric local labels are never spelled like a parser label.
-/
import ChibiVerif.Lemmas.C20Depth
import ChibiVerif.Lemmas.C20FlowArms

namespace ChibiVerif.Lemmas.C20
open ChibiVerif ChibiVerif.Codegen ChibiVerif.Effect ChibiVerif.Asm ChibiVerif.Ast ChibiVerif.C20Scope

/-! ### the label a line defines -/

/-- the label a line defines -/
def lineLab : Line → Option String
  | .label n => some n
  | _ => none

theorem labelNames_classifyIns (i : Ins) : labelNames [classifyIns i] = [] := by
  unfold classifyIns
  repeat' split
  all_goals rfl

theorem labelNames_classify (line : Line) : labelNames (classify line) = (lineLab line).toList := by
  cases line with
  | label n => rfl
  | ins i =>
    unfold classify
    split
    · rfl
    · exact labelNames_classifyIns i
  | insA i note => unfold classify; split <;> rfl
  | multi is => unfold classify; split <;> rfl
  | multiT t is => unfold classify; split <;> rfl
  | raw t => unfold classify; split <;> rfl

theorem labelNames_lines : ∀ ls : List Line, labelNames (ls.flatMap classify) = ls.filterMap lineLab
  | [] => rfl
  | line :: r => by
    rw [List.flatMap_cons, labelNames_append', labelNames_classify, labelNames_lines r]
    cases h : lineLab line <;> simp [h]

/-- number of lines `l:` in a piece of code -/
def labCount (l : String) (ls : List Line) : Int := ((labelNames (ls.flatMap classify)).count l : Nat)

theorem labCount_append (l : String) (a b : List Line) : labCount l (a ++ b) = labCount l a + labCount l b := by
  simp [labCount, List.flatMap_append, labelNames_append', List.count_append]

theorem labCount_nil (l : String) : labCount l [] = 0 := rfl

theorem labCount_of_delta {l : String} {ls : List Line} {d : H} (h : delta ls = some d) : labCount l ls = 0 := by
  simp [labCount, labelNames_of_delta h]

/-- no line of the list is a label -/
def noLabelLines (ls : List Line) : Bool := ls.all (fun x => (lineLab x).isNone)

theorem labCount_noLabelLines {l : String} {ls : List Line} (h : noLabelLines ls = true) : labCount l ls = 0 := by
  have : ls.filterMap lineLab = [] := by
    rw [List.filterMap_eq_nil_iff]
    intro x hx
    have := List.all_eq_true.mp h x hx
    simpa using this
  simp [labCount, labelNames_lines, this]

/-- 1 if the label `n` is `l` -/
def isL (l n : String) : Int := ((if n == l then 1 else 0 : Nat) : Int)

theorem isL_nonneg (l n : String) : 0 ≤ isL l n := by unfold isL; omega

theorem labCount_label (l n : String) : labCount l [.label n] = isL l n := by
  simp [labCount, labelNames_classify, lineLab, isL, List.count_cons]

/-! ### mentions of a label in the tree -/

/-- number of mentions of `l` among the parser's labels of a tree -/
def tcnt (l : String) (n : Node) : Int := ((labsN n).count l : Nat)
def tcntL (l : String) (ns : NodeList) : Int := ((labsL ns).count l : Nat)

theorem tcnt_nonneg (l : String) (n : Node) : 0 ≤ tcnt l n := by unfold tcnt; omega
theorem tcntL_nonneg (l : String) (ns : NodeList) : 0 ≤ tcntL l ns := by unfold tcntL; omega

section eqs
variable (l : String) (i : NInfo)

theorem tcnt_null : tcnt l .null = 0 := by simp [tcnt, labsN]
theorem tcnt_nullExpr : tcnt l (.nullExpr i) = 0 := by simp [tcnt, labsN]
theorem tcnt_num (a : Int) (b c d e : Nat) : tcnt l (.num i a b c d e) = 0 := by simp [tcnt, labsN]
theorem tcnt_var (v : Option Var) : tcnt l (.var i v) = 0 := by simp [tcnt, labsN]
theorem tcnt_vlaPtr (v : Option Var) : tcnt l (.vlaPtr i v) = 0 := by simp [tcnt, labsN]
theorem tcnt_memzero (v : Option Var) : tcnt l (.memzero i v) = 0 := by simp [tcnt, labsN]
theorem tcnt_labelVal (a b : Option String) : tcnt l (.labelVal i a b) = 0 := by simp [tcnt, labsN]
theorem tcnt_goto (a b : Option String) : tcnt l (.goto_ i a b) = 0 := by simp [tcnt, labsN]
theorem tcnt_asm (a : Option String) : tcnt l (.asm_ i a) = 0 := by simp [tcnt, labsN]
theorem tcnt_neg (a : Node) : tcnt l (.neg i a) = tcnt l a := by simp [tcnt, labsN]
theorem tcnt_deref (a : Node) : tcnt l (.deref i a) = tcnt l a := by simp [tcnt, labsN]
theorem tcnt_not (a : Node) : tcnt l (.not i a) = tcnt l a := by simp [tcnt, labsN]
theorem tcnt_bitnot (a : Node) : tcnt l (.bitnot i a) = tcnt l a := by simp [tcnt, labsN]
theorem tcnt_cast (a : Node) : tcnt l (.cast i a) = tcnt l a := by simp [tcnt, labsN]
theorem tcnt_member (a : Node) (m : Option Member) : tcnt l (.member i a m) = tcnt l a := by simp [tcnt, labsN]
theorem tcnt_addr (a : Node) : tcnt l (.addr i a) = tcnt l a := by simp [tcnt, labsN]
theorem tcnt_gotoExpr (a : Node) : tcnt l (.gotoExpr i a) = tcnt l a := by simp [tcnt, labsN]
theorem tcnt_exprStmt (a : Node) : tcnt l (.exprStmt i a) = tcnt l a := by simp [tcnt, labsN]
theorem tcnt_ret (a : Node) : tcnt l (.ret i a) = tcnt l a := by simp [tcnt, labsN]
theorem tcnt_assign (a b : Node) : tcnt l (.assign i a b) = tcnt l a + tcnt l b := by
  simp [tcnt, labsN, List.count_append]
theorem tcnt_comma (a b : Node) : tcnt l (.comma i a b) = tcnt l a + tcnt l b := by
  simp [tcnt, labsN, List.count_append]
theorem tcnt_binop (op : BinOp) (a b : Node) : tcnt l (.binop i op a b) = tcnt l a + tcnt l b := by
  simp [tcnt, labsN, List.count_append]
theorem tcnt_logand (a b : Node) : tcnt l (.logand i a b) = tcnt l a + tcnt l b := by
  simp [tcnt, labsN, List.count_append]
theorem tcnt_logor (a b : Node) : tcnt l (.logor i a b) = tcnt l a + tcnt l b := by
  simp [tcnt, labsN, List.count_append]
theorem tcnt_exch (a b : Node) : tcnt l (.exch i a b) = tcnt l a + tcnt l b := by
  simp [tcnt, labsN, List.count_append]
theorem tcnt_cond (a b c : Node) : tcnt l (.cond i a b c) = tcnt l a + (tcnt l b + tcnt l c) := by
  simp [tcnt, labsN, List.count_append]
theorem tcnt_cas (a b c : Node) : tcnt l (.cas i a b c) = tcnt l a + (tcnt l b + tcnt l c) := by
  simp [tcnt, labsN, List.count_append]
theorem tcnt_if (a b c : Node) : tcnt l (.if_ i a b c) = tcnt l a + (tcnt l b + tcnt l c) := by
  simp [tcnt, labsN, List.count_append]
theorem tcnt_funcall (f : Node) (fty : Int) (rb : Option Var) (args : NodeList) :
    tcnt l (.funcall i f fty rb args) = tcnt l f + tcntL l args := by
  simp [tcnt, tcntL, labsN, List.count_append]
theorem tcnt_stmtExpr (body : NodeList) : tcnt l (.stmtExpr i body) = tcntL l body := by simp [tcnt, tcntL, labsN]
theorem tcnt_block (body : NodeList) : tcnt l (.block i body) = tcntL l body := by simp [tcnt, tcntL, labsN]
theorem tcnt_for (init c inc t : Node) (brk cont : Option String) :
    tcnt l (.for_ i init c inc t brk cont) =
      tcnt l init + (tcnt l c + (tcnt l inc + (tcnt l t + (isL l (cstr cont) + isL l (cstr brk))))) := by
  simp [tcnt, labsN, List.count_append, List.count_cons, isL]
  omega
theorem tcnt_do (t c : Node) (brk cont : Option String) :
    tcnt l (.do_ i t c brk cont) = tcnt l t + (tcnt l c + (isL l (cstr cont) + isL l (cstr brk))) := by
  simp [tcnt, labsN, List.count_append, List.count_cons, isL]
  omega
theorem tcnt_switch (c t : Node) (brk : Option String) (cases : List Case) (dflt : Option (Option String)) :
    tcnt l (.switch_ i c t brk cases dflt) = tcnt l c + (tcnt l t + isL l (cstr brk)) := by
  simp [tcnt, labsN, List.count_append, List.count_cons, isL]
theorem tcnt_case (a b : Int) (lbl : Option String) (lhs : Node) :
    tcnt l (.case_ i a b lbl lhs) = isL l (cstr lbl) + tcnt l lhs := by
  simp [tcnt, labsN, List.count_cons, isL]
  omega
theorem tcnt_label (a ul : Option String) (lhs : Node) :
    tcnt l (.label i a ul lhs) = isL l (cstr ul) + tcnt l lhs := by
  simp [tcnt, labsN, List.count_cons, isL]
  omega
theorem tcntL_nil : tcntL l .nil = 0 := by simp [tcntL, labsL]
theorem tcntL_cons (n : Node) (rest : NodeList) : tcntL l (.cons n rest) = tcnt l n + tcntL l rest := by
  simp [tcnt, tcntL, labsL, List.count_append]
end eqs

/-! ### the judgment -/

/-- whenever `m` succeeds, its code has at most `k` lines `l:` -/
def UC (l : String) (m : M α) (k : Int) : Prop :=
  ∀ (s : St) (a : α) (s' : St) (ls : List Line), m s = .ok (a, s', ls) → labCount l ls ≤ k

variable {l : String}

theorem UC.cast {m : M α} {k k' : Int} (h : UC l m k) (hk : k ≤ k') : UC l m k' :=
  fun s a s' ls hm => Int.le_trans (h s a s' ls hm) hk

theorem UC_of_Sem {m : M α} (h : Sem m r x d) : UC l m 0 := by
  intro s a s' ls hm
  have := (h.elim hm).1
  rw [labCount_of_delta this]
  exact Int.le_refl 0

theorem UC_pure (a : α) : UC l (pure a : M α) 0 := UC_of_Sem (Sem_pure a)
theorem UC_fail (msg : String) : UC l (fail msg : M α) k := by
  intro s a s' ls hm; cases hm
theorem UC_nullDeref (w : String) : UC l (nullDeref w : M α) k := UC_fail _

theorem UC_emit_ins (i : Ins) : UC l (emit (.ins i)) 0 := by
  intro s a s' ls hm
  simp only [emit, Except.ok.injEq, Prod.mk.injEq] at hm
  rw [← hm.2.2, labCount_noLabelLines (by rfl)]
  exact Int.le_refl 0

theorem UC_emit_insA (i : Ins) (note : String) : UC l (emit (.insA i note)) 0 := by
  intro s a s' ls hm
  simp only [emit, Except.ok.injEq, Prod.mk.injEq] at hm
  rw [← hm.2.2, labCount_noLabelLines (by rfl)]
  exact Int.le_refl 0

theorem UC_emit_raw (t : String) : UC l (emit (.raw t)) 0 := by
  intro s a s' ls hm
  simp only [emit, Except.ok.injEq, Prod.mk.injEq] at hm
  rw [← hm.2.2, labCount_noLabelLines (by rfl)]
  exact Int.le_refl 0

/-- a label line: one mention if it is `l` -/
theorem UC_emit_label (n : String) : UC l (emit (.label n)) (isL l n) := by
  intro s a s' ls hm
  simp only [emit, Except.ok.injEq, Prod.mk.injEq] at hm
  rw [← hm.2.2, labCount_label]
  exact Int.le_refl _

/-- a label that is not spelled like a parser label is not the parser label `l` -/
theorem UC_emit_label_other (hl : userLabel l = true) (n : String) (hn : userLabel n = false) :
    UC l (emit (.label n)) 0 := by
  refine (UC_emit_label n).cast ?_
  have : (n == l) = false := by
    simp only [beq_eq_false_iff_ne, ne_eq]
    intro e
    rw [e, hl] at hn
    cases hn
  simp [isL, this]

/-- a label made up from `count()` -/
theorem UC_emit_ctr (hl : userLabel l = true) {t : String} (ht : t ∈ ctrTags) (k : Nat) :
    UC l (emit (.label (ctr t k))) 0 :=
  UC_emit_label_other hl _ (by simp [userLabel, isCtr_ctr ht k])

theorem UC_emits {ls : List Line} (h : noLabelLines ls = true) : UC l (emits ls) 0 := by
  intro s a s' ls' hm
  simp only [emits, Except.ok.injEq, Prod.mk.injEq] at hm
  rw [← hm.2.2, labCount_noLabelLines h]
  exact Int.le_refl 0

theorem UC_bind {m : M α} {f : α → M β} {k1 k2 : Int} (h1 : UC l m k1) (h2 : ∀ a, UC l (f a) k2) :
    UC l (m >>= f) (k1 + k2) := by
  intro s b s' ls h
  simp only [bind, M.bind] at h
  split at h
  · cases h
  · rename_i a s1 l1 hm
    split at h
    · cases h
    · rename_i b' s2 l2 hf
      simp only [Except.ok.injEq, Prod.mk.injEq] at h
      obtain ⟨_, _, rfl⟩ := h
      rw [labCount_append]
      have e1 := h1 _ _ _ _ hm
      have e2 := h2 a _ _ _ _ hf
      omega

theorem UC_bind_td {m : M α} {f : α → M β} {k k1 : Int} (h1 : UC l m k1) (h2 : ∀ a, UC l (f a) (k - k1)) :
    UC l (m >>= f) k :=
  (UC_bind h1 h2).cast (by omega)

theorem UC_bind_ret {m : M α} {f : α → M β} {P : α → Prop} {k1 k2 : Int} (h1 : UC l m k1) (hr : Ret m P)
    (h2 : ∀ a, P a → UC l (f a) k2) : UC l (m >>= f) (k1 + k2) := by
  intro s b s' ls h
  simp only [bind, M.bind] at h
  split at h
  · cases h
  · rename_i a s1 l1 hm
    split at h
    · cases h
    · rename_i b' s2 l2 hf
      simp only [Except.ok.injEq, Prod.mk.injEq] at h
      obtain ⟨_, _, rfl⟩ := h
      rw [labCount_append]
      have e1 := h1 _ _ _ _ hm
      have e2 := h2 a (hr _ _ _ _ hm) _ _ _ _ hf
      omega

attribute [irreducible] UC isL

/-- a leaf of the derivation: an action whose code has no label line, or one label line -/
syntax "uc_leaf" : tactic
macro_rules
  | `(tactic| uc_leaf) => `(tactic| first
      | assumption
      | exact UC_pure _
      | exact UC_emit_ins _
      | exact UC_emit_insA _ _
      | exact UC_emit_raw _
      | exact UC_emit_ctr (by assumption) (t := ".L.else.") (by decide) _
      | exact UC_emit_ctr (by assumption) (t := ".L.end.") (by decide) _
      | exact UC_emit_ctr (by assumption) (t := ".L.false.") (by decide) _
      | exact UC_emit_ctr (by assumption) (t := ".L.true.") (by decide) _
      | exact UC_emit_ctr (by assumption) (t := ".L.begin.") (by decide) _
      | exact UC_emit_label_other (by assumption) _ (by decide)
      | exact UC_emit_label _
      | exact UC_of_Sem (Sem_addDepth _)
      | exact UC_of_Sem Sem_getDepth
      | exact UC_of_Sem Sem_count
      | exact UC_of_Sem (Sem_needTy _ _)
      | exact UC_of_Sem (Sem_needVar _ _)
      | exact UC_of_Sem (Sem_liftE _)
      | exact UC_of_Sem (Sem_regAx _)
      | exact UC_of_Sem (Sem_regDx _)
      | exact UC_of_Sem Sem_push
      | exact UC_of_Sem Sem_pushf
      | exact UC_of_Sem (Sem_popf _)
      | exact UC_of_Sem (Sem_pop _ (by decide))
      | exact UC_of_Sem (Sem_discard _)
      | exact UC_of_Sem (Sem_loc _)
      | exact UC_of_Sem (Sem_load _)
      | exact UC_of_Sem (Sem_store _)
      | exact UC_of_Sem (Sem_cmpZero _)
      | exact UC_of_Sem (Sem_cast _ _)
      | exact UC_of_Sem (Sem_copyBytes _ _ _ (by decide) _ _)
      | exact UC_of_Sem (Sem_addrVar _ _ _)
      | exact UC_of_Sem (Sem_bitfieldExtract _ _)
      | exact UC_of_Sem (Sem_memzeroArm _ _)
      | exact UC_of_Sem (Sem_numArm _ _ _ _ _ _)
      | apply_assumption)

/-- derive `UC l m k`: peel the `do` block action by action, split every `if`/`match` -/
syntax "uc" : tactic
macro_rules
  | `(tactic| uc) => `(tactic| repeat' (first
      | exact UC_fail _
      | exact UC_nullDeref _
      | (refine UC.cast (by assumption) ?_ <;> omega)
      | (refine UC_bind_td (by uc_leaf) (fun _ => ?_))
      | (refine UC.cast (by uc_leaf) ?_ <;> omega)
      | dsimp only
      | split))

/-! ### arms -/

theorem noLabelLines_append (a b : List Line) : noLabelLines (a ++ b) = (noLabelLines a && noLabelLines b) := by
  simp [noLabelLines, List.all_append]

theorem noLabelLines_caseLadder (wide : Bool) (c : Case) : noLabelLines (caseLadder wide c) = true := by
  unfold caseLadder
  dsimp only
  split <;> cases wide <;> (repeat' split) <;> rfl

theorem noLabelLines_ladder (wide : Bool) : ∀ cases : List Case, noLabelLines (cases.flatMap (caseLadder wide)) = true
  | [] => rfl
  | c :: rest => by
    rw [List.flatMap_cons, noLabelLines_append, noLabelLines_caseLadder, noLabelLines_ladder wide rest]
    rfl


section arms
set_option linter.unusedSectionVars false
variable (hl : userLabel l = true)
include hl

theorem UC_addrMember {a : M Unit} {k : Int} (h : UC l a k) (mem : Option Member) : UC l (addrMember a mem) k := by
  unfold addrMember; uc

theorem UC_negArm (i : NInfo) {lhs : M Unit} {k : Int} (h : UC l lhs k) : UC l (negArm i lhs) k := by
  unfold negArm; uc

theorem UC_memberArm (i : NInfo) {a : M Unit} {k : Int} (h : UC l a k) (mem : Option Member) (env : Env) :
    UC l (memberArm i a mem env) k := by
  unfold memberArm
  have := UC_addrMember hl h mem
  uc

theorem UC_assignArm (env : Env) (i : NInfo) (bf : Option Member) {a r : M Unit} {ka kr : Int}
    (ha : UC l a ka) (hr : UC l r kr) : UC l (assignArm env i bf a r) (ka + kr) := by
  unfold assignArm; uc

theorem UC_condArm {c t e : M Unit} (cty : Option Ty) {kc kt ke : Int} (hc : UC l c kc) (ht : UC l t kt)
    (he : UC l e ke) : UC l (condArm c cty t e) (kc + (kt + ke)) := by
  unfold condArm; uc

theorem UC_notArm {lhs : M Unit} (lty : Option Ty) {k : Int} (h : UC l lhs k) : UC l (notArm lhs lty) k := by
  unfold notArm; uc

theorem UC_logandArm {lhs rhs : M Unit} (lty rty : Option Ty) {k1 k2 : Int} (h1 : UC l lhs k1) (h2 : UC l rhs k2) :
    UC l (logandArm lhs lty rhs rty) (k1 + k2) := by
  unfold logandArm; uc

theorem UC_logorArm {lhs rhs : M Unit} (lty rty : Option Ty) {k1 k2 : Int} (h1 : UC l lhs k1) (h2 : UC l rhs k2) :
    UC l (logorArm lhs lty rhs rty) (k1 + k2) := by
  unfold logorArm; uc

set_option maxHeartbeats 1000000 in
theorem UC_casArm (env : Env) {addr old new : M Unit} (aty oty nty : Option Ty) {ka ko kn : Int}
    (ha : UC l addr ka) (ho : UC l old ko) (hn : UC l new kn) :
    UC l (casArm env addr aty old oty new nty) (ka + (ko + kn)) := by
  unfold casArm; uc

theorem UC_exchArm (env : Env) {lhs rhs : M Unit} (lty : Option Ty) {k1 k2 : Int} (h1 : UC l lhs k1) (h2 : UC l rhs k2) :
    UC l (exchArm env lhs lty rhs) (k1 + k2) := by
  unfold exchArm; uc

set_option maxHeartbeats 2000000 in
theorem UC_binopArm (i : NInfo) (op : BinOp) {lhs rhs : M Unit} (lty : Option Ty) {k1 k2 : Int}
    (h1 : UC l lhs k1) (h2 : UC l rhs k2) : UC l (binopArm i op lhs lty rhs) (k1 + k2) := by
  unfold binopArm
  refine UC_bind_td (k1 := 0) (by uc_leaf) (fun lty' => ?_)
  have g1 : ∀ sz, UC l (binopFlo sz op lhs rhs) (k1 + k2) := by
    intro sz; unfold binopFlo; cases op <;> uc
  have g2 : UC l (binopLd op lhs rhs) (k1 + k2) := by
    unfold binopLd; cases op <;> uc
  have g3 : UC l (binopInt i op lty' lhs rhs) (k1 + k2) := by
    unfold binopInt; cases op <;> uc
  split <;> first | exact (g1 _).cast (by omega) | exact g2.cast (by omega) | exact g3.cast (by omega)

theorem UC_ifArm {c t : M Unit} (cty : Option Ty) (e : Option (M Unit)) {kc kt ke : Int} (hc : UC l c kc)
    (ht : UC l t kt) (he : ∀ x, e = some x → UC l x ke) (hke : 0 ≤ ke) :
    UC l (ifArm c cty t e) (kc + (kt + ke)) := by
  unfold ifArm
  cases e with
  | none => uc
  | some x => have := he x rfl; uc

theorem UC_forArm {t : M Unit} (init : Option (M Unit)) (c inc : Option (M Unit × Option Ty)) (brk cont : Option String)
    {ki kc kinc kt : Int}
    (hi : ∀ x, init = some x → UC l x ki) (hc : ∀ x, c = some x → UC l x.1 kc) (ht : UC l t kt)
    (hinc : ∀ x, inc = some x → UC l x.1 kinc) (h0 : 0 ≤ ki ∧ 0 ≤ kc ∧ 0 ≤ kinc) :
    UC l (forArm init c t inc brk cont) (ki + (kc + (kinc + (kt + (isL l (cstr cont) + isL l (cstr brk)))))) := by
  unfold forArm
  cases init with
  | none =>
    cases c with
    | none =>
      cases inc with
      | none => uc
      | some z => obtain ⟨z1, z2⟩ := z; have := hinc _ rfl; uc
    | some y =>
      obtain ⟨y1, y2⟩ := y
      have := hc _ rfl
      cases inc with
      | none => uc
      | some z => obtain ⟨z1, z2⟩ := z; have := hinc _ rfl; uc
  | some x =>
    have := hi x rfl
    cases c with
    | none =>
      cases inc with
      | none => uc
      | some z => obtain ⟨z1, z2⟩ := z; have := hinc _ rfl; uc
    | some y =>
      obtain ⟨y1, y2⟩ := y
      have := hc _ rfl
      cases inc with
      | none => uc
      | some z => obtain ⟨z1, z2⟩ := z; have := hinc _ rfl; uc

theorem UC_doArm {t c : M Unit} (cty : Option Ty) (brk cont : Option String) {kt kc : Int} (ht : UC l t kt)
    (hc : UC l c kc) : UC l (doArm t c cty brk cont) (kt + (kc + (isL l (cstr cont) + isL l (cstr brk)))) := by
  unfold doArm; uc

theorem UC_switchArm {c t : M Unit} (cty : Option Ty) (brk : Option String) (cases : List Case)
    (dflt : Option (Option String)) {kc kt : Int} (hc : UC l c kc) (ht : UC l t kt) :
    UC l (switchArm c cty t brk cases dflt) (kc + (kt + isL l (cstr brk))) := by
  unfold switchArm
  have hlad : ∀ w, UC l (emits (cases.flatMap (caseLadder w))) 0 := fun w => UC_emits (noLabelLines_ladder w cases)
  uc

theorem UC_returnArm (env : Env) (lhs : Option (M Unit × Option Ty)) {k : Int} (h : ∀ x, lhs = some x → UC l x.1 k)
    (h0 : 0 ≤ k) : UC l (returnArm env lhs) k := by
  unfold returnArm
  have h1 : UC l (copyStructReg env) 0 := UC_of_Sem (Sem_copyStructReg env)
  have h2 : UC l (copyStructMem env) 0 := UC_of_Sem (Sem_copyStructMem env)
  cases lhs with
  | none => uc
  | some x => obtain ⟨x1, x2⟩ := x; have := h _ rfl; uc

theorem UC_builtinAlloca (env : Env) : UC l (builtinAlloca env) 0 := by
  unfold builtinAlloca; uc

end arms

/-! ### calls -/

/-- the code of every argument defines `l` at most as often as its bound says -/
def UCs (l : String) : List Arg → List Int → Prop
  | [], [] => True
  | a :: as, k :: ks => UC l a.gen k ∧ 0 ≤ k ∧ UCs l as ks
  | _, _ => False

/-- the bounds of the arguments evaluated in pass `p` -/
def selK : List Int → List Bool → Bool → Int
  | k :: ks, b :: bs, p => selK ks bs p + (if b == p then k else 0)
  | _, _, _ => 0

def sumK : List Int → Int
  | [] => 0
  | k :: ks => k + sumK ks

theorem selK_nonneg : ∀ (args : List Arg) (ks : List Int) (flags : List Bool) (p : Bool), UCs l args ks →
    0 ≤ selK ks flags p ∧ 0 ≤ sumK ks
  | [], [], _, _, _ => by simp [selK, sumK]
  | [], _ :: _, _, _, h => by cases h
  | _ :: _, [], _, _, h => by cases h
  | a :: as, k :: ks, [], _, h => by
    have := (selK_nonneg as ks [] true h.2.2).2
    have := h.2.1
    simp only [selK, sumK]; omega
  | a :: as, k :: ks, b :: bs, p, h => by
    have := selK_nonneg as ks bs p h.2.2
    have := h.2.1
    simp only [selK, sumK]
    split <;> omega

/-- every argument is evaluated in one of the two passes -/
theorem selK_sum : ∀ (args : List Arg) (ks : List Int) (flags : List Bool), UCs l args ks →
    selK ks flags true + selK ks flags false ≤ sumK ks
  | [], [], _, _ => by simp [selK, sumK]
  | [], _ :: _, _, h => by cases h
  | _ :: _, [], _, h => by cases h
  | a :: as, k :: ks, [], h => by
    have := (selK_nonneg as ks [] true h.2.2).2
    have := h.2.1
    simp only [selK, sumK]; omega
  | a :: as, k :: ks, b :: bs, h => by
    have := selK_sum as ks bs h.2.2
    have := h.2.1
    simp only [selK, sumK]
    cases b <;> simp <;> omega

section calls
set_option linter.unusedSectionVars false
variable (hl : userLabel l = true)
include hl

theorem UC_pushArgs2 : ∀ (args : List Arg) (ks : List Int) (flags : List Bool) (p : Bool), UCs l args ks →
    UC l (pushArgs2 (args.zip flags) p) (selK ks flags p)
  | [], [], flags, p, _ => by
    simp only [List.zip_nil_left]
    unfold pushArgs2 selK
    exact UC_pure ()
  | [], _ :: _, _, _, h => by cases h
  | _ :: _, [], _, _, h => by cases h
  | a :: as, k :: ks, [], p, h => by
    simp only [List.zip_nil_right]
    unfold pushArgs2 selK
    exact UC_pure ()
  | arg :: as, k :: ks, b :: bs, p, h => by
    simp only [List.zip_cons_cons]
    unfold pushArgs2
    have ih := UC_pushArgs2 as ks bs p h.2.2
    have hg := h.1
    have hk := h.2.1
    simp only [selK]
    refine UC_bind_td ih (fun _ => ?_)
    by_cases hbp : b = p
    · subst hbp
      have hskip : ((b && !b) || (!b && b)) = false := by cases b <;> rfl
      simp only [hskip, Bool.false_eq_true, if_false, beq_self_eq_true, if_true]
      have hps : ∀ ty, UC l (pushStruct ty) 0 := fun ty => UC_of_Sem (Sem_pushStruct ty)
      uc
    · have hskip : ((p && !b) || (!p && b)) = true := by cases b <;> cases p <;> simp_all
      have hbp' : (b == p) = false := by simpa using hbp
      simp only [hskip, if_true, hbp', Bool.false_eq_true, if_false]
      exact (UC_pure ()).cast (by omega)

theorem UC_callRest (env : Env) (i : NInfo) {fn : M Unit} (rb : Option Var) (args : List Arg) (st : Int) {kf : Int}
    (hfn : UC l fn kf)
    (hpop : UC l (popArgs env args (if bigV i rb = true then 1 else 0) 0) 0) :
    UC l (callRest env i fn rb args st) kf := by
  unfold callRest
  refine UC_bind_td hfn (fun _ => ?_)
  refine (UC_bind_ret (UC_of_Sem (Sem_bigRet i rb)) (Ret_bigRet i rb) (fun big hbig => ?_)).cast (k := 0 + 0)
    (by omega)
  subst hbig
  have key : ∀ (gf : Int × Int), UC l (do
      emit (ins2 "mov" rax (.r "%r10"))
      emit (ins2 "mov" (.i gf.2) rax)
      let ty ← needTy "node->ty" i.ty
      callTail env rb ty st) 0 := by
    intro gf
    refine UC_bind_td (UC_emit_ins _) (fun _ => ?_)
    refine UC_bind_td (UC_emit_ins _) (fun _ => ?_)
    refine UC_bind_td (k1 := 0) (UC_of_Sem (Sem_needTy _ _)) (fun ty => ?_)
    exact (UC_of_Sem (Sem_callTail env rb ty st)).cast (by omega)
  cases hb : bigV i rb <;> simp only [hb, Bool.false_eq_true, if_false, if_true] at hpop ⊢ <;>
    simp only [M_bind_assoc, M_pure_bind]
  · exact (UC_bind hpop key).cast (by omega)
  · exact (UC_bind (UC_of_Sem (Sem_popGp 0)) (fun _ => UC_bind hpop key)).cast (by omega)

/-- the code of a call defines `l` at most as often as the callee expression and the arguments do -/
theorem UC_funcallArm (env : Env) (i : NInfo) {isAlloca : M Bool} {fn : M Unit} (rb : Option Var)
    (args : List Arg) (ks : List Int) {kf : Int} (hia : UC l isAlloca 0) (hfn : UC l fn kf) (h0 : 0 ≤ kf)
    (hargs : UCs l args ks)
    (hs : StructArgsOK (args.map (·.ty))) : UC l (funcallArm env i isAlloca fn rb args) (kf + sumK ks) := by
  unfold funcallArm
  refine UC_bind_td hia (fun b => ?_)
  cases b with
  | true =>
    simp only [if_true]
    have hba := UC_builtinAlloca hl env
    cases args with
    | nil => uc
    | cons a rest =>
      cases ks with
      | nil => cases hargs
      | cons k ks' =>
        have := hargs.1
        have := hargs.2.1
        have := (selK_nonneg rest ks' [] true hargs.2.2).2
        simp only [sumK]
        uc
  | false =>
    simp only [Bool.false_eq_true, if_false]
    unfold pushArgs
    simp only [M_bind_assoc]
    refine (UC_bind_ret (UC_of_Sem (Sem_bigRet i rb)) (Ret_bigRet i rb) (fun big hbig => ?_)).cast
      (k := 0 + (kf + sumK ks)) (by omega)
    subst hbig
    unfold classifyArgs
    refine (UC_bind_ret (UC_of_Sem (Sem_liftE _)) (Ret_liftE _) (fun fs hfs => ?_)).cast (k := 0 + (kf + sumK ks))
      (by omega)
    obtain ⟨flags, stack⟩ := fs
    simp only
    have heqv : Eqv (if bigV i rb = true then 1 else 0) 0 (if bigV i rb = true then 1 else 0) 0 := by
      cases bigV i rb <;> exact ⟨by decide, by decide, by decide, by decide⟩
    obtain ⟨_, hst, hpop⟩ := popArgs_spec (K := Straight) env args _ 0 _ 0 0 flags stack heqv hs hfs
    have hp1 := UC_pushArgs2 hl args ks flags true hargs
    have hp2 := UC_pushArgs2 hl args ks flags false hargs
    have hsum := selK_sum args ks flags hargs
    have hrest := fun st => UC_callRest hl env i rb args st hfn (UC_of_Sem hpop)
    refine UC_bind_td (k1 := 0) (UC_of_Sem Sem_getDepth) (fun depth => ?_)
    have h1 := hrest (stack + 1)
    have h0' := hrest stack
    cases hb : bigV i rb <;> simp only [Bool.false_eq_true, if_false, if_true] at h0' h1 ⊢ <;>
      split <;> simp only [M_bind_assoc, M_pure_bind]
    · exact (UC_bind (UC_emit_ins _) fun _ => UC_bind (UC_of_Sem (Sem_addDepth 1)) fun _ => UC_bind hp1 fun _ =>
        UC_bind hp2 fun _ => h1).cast (by omega)
    · exact (UC_bind hp1 fun _ => UC_bind hp2 fun _ => h0').cast (by omega)
    · exact (UC_bind (UC_emit_ins _) fun _ => UC_bind (UC_of_Sem (Sem_addDepth 1)) fun _ => UC_bind hp1 fun _ =>
        UC_bind hp2 fun _ => UC_bind (UC_of_Sem (Sem_needVar _ _)) fun _ => UC_bind (UC_emit_ins _) fun _ =>
        UC_bind (UC_of_Sem Sem_push) fun _ => h1).cast (by omega)
    · exact (UC_bind hp1 fun _ => UC_bind hp2 fun _ => UC_bind (UC_of_Sem (Sem_needVar _ _)) fun _ =>
        UC_bind (UC_emit_ins _) fun _ => UC_bind (UC_of_Sem Sem_push) fun _ => h0').cast (by omega)

end calls

/-! ### every node kind -/

/-- the bounds of an argument list -/
def cntsL (l : String) : NodeList → List Int
  | .nil => []
  | .cons n rest => tcnt l n :: cntsL l rest

theorem sumK_cntsL (l : String) : ∀ args : NodeList, sumK (cntsL l args) = tcntL l args
  | .nil => by simp [cntsL, sumK, tcntL_nil]
  | .cons n rest => by simp [cntsL, sumK, tcntL_cons, sumK_cntsL l rest]

section nodes
set_option linter.unusedSectionVars false
variable (hl : userLabel l = true)
include hl

theorem optGen_uc {n : Node} {g : M Unit} (h : UC l g (tcnt l n)) : ∀ x, optGen n g = some x → UC l x (tcnt l n) := by
  intro x hx
  cases n <;> simp only [optGen, Option.some.injEq, reduceCtorEq] at hx <;> (subst hx; exact h)

theorem optGenMap_uc {n : Node} {g : M Unit} {t : Option Ty} (h : UC l g (tcnt l n)) :
    ∀ x, (optGen n g).map (·, t) = some x → UC l x.1 (tcnt l n) := by
  intro x hx
  cases hg : optGen n g with
  | none => simp [hg] at hx
  | some y =>
    simp only [hg, Option.map_some, Option.some.injEq] at hx
    subst hx
    exact optGen_uc hl h y hg

set_option maxHeartbeats 2000000 in
mutual
theorem uexpr (env : Env) : (n : Node) → okN n = true → UC l (genExpr env n) (tcnt l n)
  | .null, _ => by rw [genExpr]; exact UC_nullDeref _
  | .nullExpr i, _ => by rw [genExpr, tcnt_nullExpr]; uc
  | .num i a b c d e, _ => by rw [genExpr, tcnt_num]; uc
  | .neg i lhs, h => by
    rw [genExpr, tcnt_neg]; simp only [okN] at h
    have := UC_negArm hl i (uexpr env lhs h); uc
  | .var i v, _ => by rw [genExpr, tcnt_var]; uc
  | .member i lhs mem, h => by
    rw [genExpr, tcnt_member]; simp only [okN] at h
    have := UC_memberArm hl i (uaddr env lhs h) mem env; uc
  | .deref i lhs, h => by
    rw [genExpr, tcnt_deref]; simp only [okN] at h
    have := uexpr env lhs h; uc
  | .addr i lhs, h => by
    rw [genExpr, tcnt_addr]; simp only [okN] at h
    have := uaddr env lhs h; uc
  | .assign i lhs rhs, h => by
    rw [genExpr, tcnt_assign]; simp only [okN, Bool.and_eq_true] at h
    have := UC_assignArm hl env i (bitfieldOf lhs) (uaddr env lhs h.1) (uexpr env rhs h.2); uc
  | .stmtExpr i body, h => by
    rw [genExpr, tcnt_stmtExpr]; simp only [okN] at h
    have := ubody env body h; uc
  | .comma i lhs rhs, h => by
    rw [genExpr, tcnt_comma]; simp only [okN, Bool.and_eq_true] at h
    have h1 := uexpr env lhs h.1
    have h2 := uexpr env rhs h.2
    uc
  | .cast i lhs, h => by
    rw [genExpr, tcnt_cast]; simp only [okN] at h
    have := uexpr env lhs h
    exact UC_bind_td (UC_of_Sem (Sem_loc _)) fun _ => UC_bind_td this fun _ =>
      (UC_of_Sem (Sem_cast _ _)).cast (by omega)
  | .memzero i v, _ => by rw [genExpr, tcnt_memzero]; uc
  | .cond i c t e, h => by
    rw [genExpr, tcnt_cond]; simp only [okN, Bool.and_eq_true] at h
    have := UC_condArm hl c.ty? (uexpr env c h.1.1) (uexpr env t h.1.2) (uexpr env e h.2); uc
  | .not i lhs, h => by
    rw [genExpr, tcnt_not]; simp only [okN] at h
    have := UC_notArm hl lhs.ty? (uexpr env lhs h); uc
  | .bitnot i lhs, h => by
    rw [genExpr, tcnt_bitnot]; simp only [okN] at h
    have := uexpr env lhs h; uc
  | .logand i lhs rhs, h => by
    rw [genExpr, tcnt_logand]; simp only [okN, Bool.and_eq_true] at h
    have := UC_logandArm hl lhs.ty? rhs.ty? (uexpr env lhs h.1) (uexpr env rhs h.2); uc
  | .logor i lhs rhs, h => by
    rw [genExpr, tcnt_logor]; simp only [okN, Bool.and_eq_true] at h
    have := UC_logorArm hl lhs.ty? rhs.ty? (uexpr env lhs h.1) (uexpr env rhs h.2); uc
  | .funcall i lhs fty rb args, h => by
    rw [genExpr, tcnt_funcall, ← sumK_cntsL]; simp only [okN, Bool.and_eq_true] at h
    have hs : StructArgsOK ((genArgs env args).map (·.ty)) := by
      rw [genArgs_tys]; exact structArgsOK_of_b args h.2
    have := UC_funcallArm hl env i rb (genArgs env args) (cntsL l args) (UC_of_Sem (Sem_isAllocaCall lhs))
      (uexpr env lhs h.1.1) (tcnt_nonneg l lhs) (uargs env args h.1.2) hs
    uc
  | .labelVal i a b, _ => by rw [genExpr, tcnt_labelVal]; uc
  | .cas i addr old new, h => by
    rw [genExpr, tcnt_cas]; simp only [okN, Bool.and_eq_true] at h
    have := UC_casArm hl env addr.ty? old.ty? new.ty? (uexpr env addr h.1.1) (uexpr env old h.1.2) (uexpr env new h.2)
    uc
  | .exch i lhs rhs, h => by
    rw [genExpr, tcnt_exch]; simp only [okN, Bool.and_eq_true] at h
    have := UC_exchArm hl env lhs.ty? (uexpr env lhs h.1) (uexpr env rhs h.2); uc
  | .binop i op lhs rhs, h => by
    simp only [okN, Bool.and_eq_true] at h
    have := UC_binopArm hl i op lhs.ty? (uexpr env lhs h.1) (uexpr env rhs h.2)
    rw [tcnt_binop]
    cases lhs <;> (rw [genExpr] <;> first | (intro hh; cases hh) | uc)
  | .vlaPtr i _, _ | .ret i _, _ | .if_ i _ _ _, _ | .for_ i _ _ _ _ _ _, _ | .do_ i _ _ _ _, _
  | .switch_ i _ _ _ _ _, _ | .case_ i _ _ _ _, _ | .block i _, _ | .goto_ i _ _, _ | .gotoExpr i _, _
  | .label i _ _ _, _ | .exprStmt i _, _ | .asm_ i _, _ => by rw [genExpr]; uc
theorem uaddr (env : Env) : (n : Node) → okN n = true → UC l (genAddr env n) (tcnt l n)
  | .null, _ => by rw [genAddr]; exact UC_nullDeref _
  | .var i v, _ => by rw [genAddr, tcnt_var]; uc
  | .deref i lhs, h => by
    rw [genAddr, tcnt_deref]; simp only [okN] at h
    exact uexpr env lhs h
  | .comma i lhs rhs, h => by
    rw [genAddr, tcnt_comma]; simp only [okN, Bool.and_eq_true] at h
    have h1 := uexpr env lhs h.1
    have h2 := uaddr env rhs h.2
    uc
  | .member i lhs mem, h => by
    rw [genAddr, tcnt_member]; simp only [okN] at h
    exact UC_addrMember hl (uaddr env lhs h) mem
  | .funcall i lhs fty rb args, h => by
    simp only [okN, Bool.and_eq_true] at h
    have hs : StructArgsOK ((genArgs env args).map (·.ty)) := by
      rw [genArgs_tys]; exact structArgsOK_of_b args h.2
    have := UC_funcallArm hl env i rb (genArgs env args) (cntsL l args) (UC_of_Sem (Sem_isAllocaCall lhs))
      (uexpr env lhs h.1.1) (tcnt_nonneg l lhs) (uargs env args h.1.2) hs
    rw [tcnt_funcall, ← sumK_cntsL]
    cases rb with
    | none => rw [genAddr]; exact UC_fail _
    | some v => rw [genAddr]; uc
  | .assign i lhs rhs, h => by
    rw [genAddr, tcnt_assign]; simp only [okN, Bool.and_eq_true] at h
    have := UC_assignArm hl env i (bitfieldOf lhs) (uaddr env lhs h.1) (uexpr env rhs h.2); uc
  | .cond i c t e, h => by
    rw [genAddr, tcnt_cond]; simp only [okN, Bool.and_eq_true] at h
    have := UC_condArm hl c.ty? (uexpr env c h.1.1) (uexpr env t h.1.2) (uexpr env e h.2); uc
  | .vlaPtr i v, _ => by rw [genAddr, tcnt_vlaPtr]; uc
  | .nullExpr .., _ | .num .., _ | .neg .., _ | .addr .., _ | .binop .., _ | .not .., _ | .bitnot .., _
  | .logand .., _ | .logor .., _ | .ret .., _ | .if_ .., _ | .for_ .., _ | .do_ .., _ | .switch_ .., _
  | .case_ .., _ | .block .., _ | .goto_ .., _ | .gotoExpr .., _ | .label .., _ | .labelVal .., _
  | .exprStmt .., _ | .stmtExpr .., _ | .cast .., _ | .memzero .., _ | .asm_ .., _ | .cas .., _
  | .exch .., _ => by simp only [genAddr]; exact UC_fail _
theorem ustmt (env : Env) : (n : Node) → okN n = true → UC l (genStmt env n) (tcnt l n)
  | .null, _ => by rw [genStmt]; exact UC_nullDeref _
  | .if_ i c t e, h => by
    rw [genStmt, tcnt_if]; simp only [okN, Bool.and_eq_true] at h
    have := UC_ifArm hl c.ty? (optGen e (genStmt env e)) (uexpr env c h.1.1) (ustmt env t h.1.2)
      (optGen_uc hl (ustmt env e h.2)) (tcnt_nonneg l e)
    uc
  | .for_ i init c inc t brk cont, h => by
    rw [genStmt, tcnt_for]; simp only [okN, Bool.and_eq_true] at h
    have := UC_forArm hl (t := genStmt env t) (optGen init (genStmt env init))
      ((optGen c (genExpr env c)).map (·, c.ty?)) ((optGen inc (genExpr env inc)).map (·, inc.ty?)) brk cont
      (optGen_uc hl (ustmt env init h.1.1.1)) (optGenMap_uc hl (uexpr env c h.1.1.2)) (ustmt env t h.2)
      (optGenMap_uc hl (uexpr env inc h.1.2)) ⟨tcnt_nonneg l init, tcnt_nonneg l c, tcnt_nonneg l inc⟩
    uc
  | .do_ i t c brk cont, h => by
    rw [genStmt, tcnt_do]; simp only [okN, Bool.and_eq_true] at h
    have := UC_doArm hl c.ty? brk cont (ustmt env t h.1) (uexpr env c h.2); uc
  | .switch_ i c t brk cases dflt, h => by
    rw [genStmt, tcnt_switch]; simp only [okN, Bool.and_eq_true] at h
    have := UC_switchArm hl c.ty? brk cases dflt (uexpr env c h.1) (ustmt env t h.2); uc
  | .case_ i _ _ lbl lhs, h => by
    rw [genStmt, tcnt_case]; simp only [okN] at h
    have := ustmt env lhs h; uc
  | .block i body, h => by
    rw [genStmt, tcnt_block]; simp only [okN] at h
    have := ustmts env body h; uc
  | .goto_ i _ ul, _ => by rw [genStmt, tcnt_goto]; uc
  | .gotoExpr i lhs, h => by
    rw [genStmt, tcnt_gotoExpr]; simp only [okN] at h
    have := uexpr env lhs h; uc
  | .label i _ ul lhs, h => by
    rw [genStmt, tcnt_label]; simp only [okN] at h
    have := ustmt env lhs h; uc
  | .ret i lhs, h => by
    rw [genStmt, tcnt_ret]; simp only [okN] at h
    have := UC_returnArm hl env ((optGen lhs (genExpr env lhs)).map (·, lhs.ty?)) (optGenMap_uc hl (uexpr env lhs h))
      (tcnt_nonneg l lhs)
    uc
  | .exprStmt i lhs, h => by
    rw [genStmt, tcnt_exprStmt]; simp only [okN] at h
    have := uexpr env lhs h; uc
  | .asm_ i s, _ => by rw [genStmt, tcnt_asm]; uc
  | .nullExpr i, _ | .binop i _ _ _, _ | .neg i _, _ | .assign i _ _, _ | .cond i _ _ _, _ | .comma i _ _, _
  | .member i _ _, _ | .addr i _, _ | .deref i _, _ | .not i _, _ | .bitnot i _, _ | .logand i _ _, _
  | .logor i _ _, _ | .labelVal i _ _, _ | .funcall i _ _ _ _, _ | .stmtExpr i _, _ | .var i _, _
  | .vlaPtr i _, _ | .num i _ _ _ _ _, _ | .cast i _, _ | .memzero i _, _ | .cas i _ _ _, _
  | .exch i _ _, _ => by rw [genStmt]; uc
theorem ustmts (env : Env) : (ns : NodeList) → okL ns = true → UC l (genStmts env ns) (tcntL l ns)
  | .nil, _ => by rw [genStmts, tcntL_nil]; exact UC_pure ()
  | .cons n rest, h => by
    rw [genStmts, tcntL_cons]; simp only [okL, Bool.and_eq_true] at h
    have h1 := ustmt env n h.1
    have h2 := ustmts env rest h.2
    uc
theorem ubody (env : Env) : (ns : NodeList) → okL ns = true → UC l (genStmtExprBody env ns) (tcntL l ns)
  | .nil, _ => by rw [genStmtExprBody, tcntL_nil]; exact UC_pure ()
  | .cons n rest, h => by
    simp only [okL, Bool.and_eq_true] at h
    have h2 := ubody env rest h.2
    have h1 := ustmt env n h.1
    rw [tcntL_cons]
    cases rest with
    | cons m rest' =>
      rw [genStmtExprBody] <;> first | (intro _ _ ha hb; cases hb) | uc
    | nil =>
      cases n with
      | exprStmt i lhs =>
        rw [genStmtExprBody, tcnt_exprStmt, tcntL_nil]
        simp only [okN] at h
        have := uexpr env lhs h.1
        uc
      | _ => rw [genStmtExprBody] <;> first | (intro _ _ ha hb; cases ha) | uc
theorem uargs (env : Env) : (ns : NodeList) → okL ns = true → UCs l (genArgs env ns) (cntsL l ns)
  | .nil, _ => by
    rw [genArgs]; exact True.intro
  | .cons n rest, h => by
    rw [genArgs]
    simp only [okL, Bool.and_eq_true] at h
    exact ⟨uexpr env n h.1, tcnt_nonneg l n, uargs env rest h.2⟩
end

end nodes

theorem UC.elim {m : M α} {k : Int} (h : UC l m k) {s : St} {a : α} {s' : St} {ls : List Line}
    (hm : m s = .ok (a, s', ls)) : labCount l ls ≤ k := by
  unfold UC at h
  exact h s a s' ls hm

/-! ### from the tree to the code -/

/-- if the code defines every parser label at most as often as the tree mentions it and the tree
    mentions each at most once, the parser labels of the code are pairwise distinct -/
theorem userDistinct_of_counts {n : Node} {ls : List Line} (hd : treeDistinct n = true)
    (hc : ∀ l, userLabel l = true → labCount l ls ≤ tcnt l n) : userDistinct ls = true := by
  simp only [treeDistinct, decide_eq_true_eq] at hd
  simp only [userDistinct, decide_eq_true_eq]
  rw [List.nodup_iff_count] at hd ⊢
  intro a
  by_cases ha : userLabel a = true
  · have h1 := hc a ha
    have h2 := hd a
    rw [List.count_filter ha] at h2 ⊢
    unfold labCount tcnt at h1
    omega
  · have : a ∉ (labelNames (ls.flatMap classify)).filter userLabel := by
      intro hm
      exact ha (List.mem_filter.mp hm).2
    rw [List.count_eq_zero_of_not_mem this]
    omega

/-! ### the scope of the label-height theorems implies the side condition `okN` -/

mutual
theorem okN_of_flowE : (n : Node) → flowE n = true → okN n = true
  | .nullExpr _, _ | .num .., _ | .var .., _ | .memzero .., _ | .labelVal .., _ => by simp [okN]
  | .neg _ a, h | .deref _ a, h | .not _ a, h | .bitnot _ a, h | .cast _ a, h => by
    simp only [flowE] at h; simp only [okN]; exact okN_of_flowE a h
  | .member _ a _, h | .addr _ a, h => by
    simp only [flowE] at h; simp only [okN]; exact okN_of_flowA a h
  | .assign _ a b, h => by
    simp only [flowE, Bool.and_eq_true] at h; simp only [okN, Bool.and_eq_true]
    exact ⟨okN_of_flowA a h.1, okN_of_flowE b h.2⟩
  | .comma _ a b, h | .binop _ _ a b, h | .logand _ a b, h | .logor _ a b, h | .exch _ a b, h => by
    simp only [flowE, Bool.and_eq_true] at h; simp only [okN, Bool.and_eq_true]
    exact ⟨okN_of_flowE a h.1, okN_of_flowE b h.2⟩
  | .cond _ a b c, h | .cas _ a b c, h => by
    simp only [flowE, Bool.and_eq_true] at h; simp only [okN, Bool.and_eq_true]
    exact ⟨⟨okN_of_flowE a h.1.1, okN_of_flowE b h.1.2⟩, okN_of_flowE c h.2⟩
  | .funcall i f _ _ args, h => by
    simp only [flowE, Bool.and_eq_true] at h; simp only [okN, Bool.and_eq_true]
    exact ⟨⟨okN_of_flowE f h.1.1.1, okL_of_flowArgs args h.1.1.2⟩, h.1.2⟩
  | .stmtExpr _ body, h => by
    simp only [flowE] at h; simp only [okN]; exact okL_of_flowBody _ body h
  | .null, h | .ret .., h | .if_ .., h | .for_ .., h | .do_ .., h | .switch_ .., h | .case_ .., h | .block .., h
  | .goto_ .., h | .gotoExpr .., h | .label .., h | .exprStmt .., h | .vlaPtr .., h | .asm_ .., h => by
    simp [flowE] at h
theorem okN_of_flowA : (n : Node) → flowA n = true → okN n = true
  | .var .., _ | .vlaPtr .., _ => by simp [okN]
  | .deref _ a, h => by simp only [flowA] at h; simp only [okN]; exact okN_of_flowE a h
  | .comma _ a b, h => by
    simp only [flowA, Bool.and_eq_true] at h; simp only [okN, Bool.and_eq_true]
    exact ⟨okN_of_flowE a h.1, okN_of_flowA b h.2⟩
  | .member _ a _, h => by simp only [flowA] at h; simp only [okN]; exact okN_of_flowA a h
  | .assign _ a b, h => by
    simp only [flowA, Bool.and_eq_true] at h; simp only [okN, Bool.and_eq_true]
    exact ⟨okN_of_flowA a h.1, okN_of_flowE b h.2⟩
  | .cond _ a b c, h => by
    simp only [flowA, Bool.and_eq_true] at h; simp only [okN, Bool.and_eq_true]
    exact ⟨⟨okN_of_flowE a h.1.1, okN_of_flowE b h.1.2⟩, okN_of_flowE c h.2⟩
  | .funcall i f _ _ args, h => by
    simp only [flowA, Bool.and_eq_true] at h; simp only [okN, Bool.and_eq_true]
    exact ⟨⟨okN_of_flowE f h.1.1.1.1, okL_of_flowArgs args h.1.1.1.2⟩, h.1.1.2⟩
  | .null, h | .nullExpr .., h | .num .., h | .neg .., h | .addr .., h | .binop .., h | .not .., h | .bitnot .., h
  | .logand .., h | .logor .., h | .ret .., h | .if_ .., h | .for_ .., h | .do_ .., h | .switch_ .., h
  | .case_ .., h | .block .., h | .goto_ .., h | .gotoExpr .., h | .label .., h | .labelVal .., h
  | .exprStmt .., h | .stmtExpr .., h | .cast .., h | .memzero .., h | .asm_ .., h | .cas .., h
  | .exch .., h => by simp [flowA] at h
theorem okL_of_flowArgs : (ns : NodeList) → flowArgs ns = true → okL ns = true
  | .nil, _ => by simp [okL]
  | .cons a rest, h => by
    simp only [flowArgs, Bool.and_eq_true] at h; simp only [okL, Bool.and_eq_true]
    exact ⟨okN_of_flowE a h.1, okL_of_flowArgs rest h.2⟩
theorem okN_of_flowS (R : List String) (rl : Option Bool) : (n : Node) → flowS R rl n = true → okN n = true
  | .if_ _ c t e, h => by
    simp only [flowS, Bool.and_eq_true, Bool.or_eq_true] at h; simp only [okN, Bool.and_eq_true]
    refine ⟨⟨okN_of_flowE c h.1.1, okN_of_flowS R rl t h.1.2⟩, ?_⟩
    rcases h.2 with h2 | h2
    · cases e <;> simp [isNull] at h2; simp [okN]
    · exact okN_of_flowS R rl e h2
  | .for_ _ init c inc t brk cont, h => by
    simp only [flowS, Bool.and_eq_true, Bool.or_eq_true] at h; simp only [okN, Bool.and_eq_true]
    obtain ⟨⟨⟨⟨⟨⟨h1, h2⟩, h3⟩, h4⟩, _⟩, _⟩, _⟩ := h
    refine ⟨⟨⟨?_, ?_⟩, ?_⟩, okN_of_flowS R rl t h4⟩
    · rcases h1 with h1 | h1
      · cases init <;> simp [isNull] at h1; simp [okN]
      · exact okN_of_flowS R rl init h1
    · rcases h2 with h2 | h2
      · cases c <;> simp [isNull] at h2; simp [okN]
      · exact okN_of_flowE c h2
    · rcases h3 with h3 | h3
      · cases inc <;> simp [isNull] at h3; simp [okN]
      · exact okN_of_flowE inc h3
  | .do_ _ t c brk cont, h => by
    simp only [flowS, Bool.and_eq_true] at h; simp only [okN, Bool.and_eq_true]
    exact ⟨okN_of_flowS R rl t h.1.1.1, okN_of_flowE c h.1.1.2⟩
  | .switch_ _ c t brk cases dflt, h => by
    simp only [flowS, Bool.and_eq_true] at h; simp only [okN, Bool.and_eq_true]
    exact ⟨okN_of_flowE c h.1.1.1.1, okN_of_flowS R rl t h.1.1.1.2⟩
  | .case_ _ _ _ lbl lhs, h => by
    simp only [flowS, Bool.and_eq_true] at h; simp only [okN]; exact okN_of_flowS R rl lhs h.2
  | .block _ body, h => by
    simp only [flowS] at h; simp only [okN]; exact okL_of_flowSs R rl body h
  | .goto_ .., _ | .asm_ .., _ => by simp [okN]
  | .gotoExpr _ lhs, h => by simp only [flowS] at h; simp only [okN]; exact okN_of_flowE lhs h
  | .label _ _ ul lhs, h => by
    simp only [flowS, Bool.and_eq_true] at h; simp only [okN]; exact okN_of_flowS R rl lhs h.2
  | .ret _ lhs, h => by
    simp only [flowS, Bool.and_eq_true, Bool.or_eq_true] at h; simp only [okN]
    rcases h.2 with h2 | h2
    · cases lhs <;> simp [isNull] at h2; simp [okN]
    · exact okN_of_flowE lhs h2
  | .exprStmt _ lhs, h => by simp only [flowS] at h; simp only [okN]; exact okN_of_flowE lhs h
  | .null, h | .nullExpr .., h | .binop .., h | .neg .., h | .assign .., h | .cond .., h | .comma .., h
  | .member .., h | .addr .., h | .deref .., h | .not .., h | .bitnot .., h | .logand .., h | .logor .., h
  | .labelVal .., h | .funcall .., h | .stmtExpr .., h | .var .., h | .vlaPtr .., h | .num .., h | .cast .., h
  | .memzero .., h | .cas .., h | .exch .., h => by simp [flowS] at h
theorem okL_of_flowSs (R : List String) (rl : Option Bool) : (ns : NodeList) → flowSs R rl ns = true → okL ns = true
  | .nil, _ => by simp [okL]
  | .cons n rest, h => by
    simp only [flowSs, Bool.and_eq_true] at h; simp only [okL, Bool.and_eq_true]
    exact ⟨okN_of_flowS R rl n h.1, okL_of_flowSs R rl rest h.2⟩
theorem okL_of_flowBody (R : List String) : (ns : NodeList) → flowBody R ns = true → okL ns = true
  | .nil, _ => by simp [okL]
  | .cons n rest, h => by
    simp only [okL, Bool.and_eq_true]
    cases rest with
    | cons m rest' =>
      rw [flowBody] at h
      · simp only [Bool.and_eq_true] at h
        exact ⟨okN_of_flowS R none n h.1, okL_of_flowBody R _ h.2⟩
      · intro _ _ ha hb; cases hb
    | nil =>
      cases n with
      | exprStmt i lhs =>
        rw [flowBody] at h
        exact ⟨by simp only [okN]; exact okN_of_flowE lhs h, by simp [okL]⟩
      | _ =>
        rw [flowBody] at h
        · simp only [Bool.and_eq_true] at h
          exact ⟨okN_of_flowS R none _ h.1, by simp [okL]⟩
        · intro _ _ ha hb; cases ha
end

/-! ### the parser's labels of generated code are pairwise distinct -/

theorem userDistinct_of_tree_expr {env : Env} {n : Node} (hok : okN n = true) (hd : treeDistinct n = true)
    {s s' : St} {ls : List Line} (hg : genExpr env n s = .ok ((), s', ls)) : userDistinct ls = true :=
  userDistinct_of_counts hd (fun _ hl => (uexpr hl env n hok).elim hg)

theorem userDistinct_of_tree_addr {env : Env} {n : Node} (hok : okN n = true) (hd : treeDistinct n = true)
    {s s' : St} {ls : List Line} (hg : genAddr env n s = .ok ((), s', ls)) : userDistinct ls = true :=
  userDistinct_of_counts hd (fun _ hl => (uaddr hl env n hok).elim hg)

theorem userDistinct_of_tree_stmt {env : Env} {n : Node} (hok : okN n = true) (hd : treeDistinct n = true)
    {s s' : St} {ls : List Line} (hg : genStmt env n s = .ok ((), s', ls)) : userDistinct ls = true :=
  userDistinct_of_counts hd (fun _ hl => (ustmt hl env n hok).elim hg)

end ChibiVerif.Lemmas.C20
