/-
Helper lemmas for C18: `convert_universal_chars` (Model/LineNo.lean `convertUCNAux`) keeps the line of every byte it keeps,
(it leaves `\\u000a` alone, so every '\\n' it writes is a copy of one it read).
-/
import ChibiVerif.Model.LineNo
import ChibiVerif.Lemmas.LineNoLemmas

namespace ChibiVerif.LineNo

/-- a successful read saw `n` hexadecimal digits, none of which is a newline -/
theorem readUniversalChar_ne_zero (r : List Nat) (n c : Nat) (h : readUniversalChar r n c ≠ 0) :
    n ≤ r.length ∧ countLF (r.take n) = 0 := by
  induction n generalizing r c with
  | zero => simp
  | succ n ih =>
    cases r with
    | nil => simp [readUniversalChar] at h
    | cons b t =>
      simp only [readUniversalChar] at h
      by_cases hb : isXDigit b = true
      · simp only [hb, if_true] at h
        have := ih t _ h
        have hne : b ≠ LF := by intro e; subst e; exact absurd hb (by decide)
        simp [hne, this.2]; omega
      · simp [hb] at h

theorem convertUCNAux_ge (f : Nat) : ∀ (T : List Nat) (s : Nat) (e : Nat × Nat), e ∈ convertUCNAux f T s → s ≤ e.2 := by
  induction f with
  | zero => intro T s e h; simp [convertUCNAux] at h
  | succ f ih =>
    intro T s e h
    cases T with
    | nil => simp [convertUCNAux] at h
    | cons a rest =>
      simp only [convertUCNAux] at h
      split at h
      · split at h
        · simp at h; subst h; simp
        · rename_i b rest'
          split at h
          · split at h
            · rcases List.mem_append.1 h with h | h
              · simp at h; obtain ⟨_, _, rfl⟩ := h; simp
              · have := ih _ _ _ h; omega
            · rcases List.mem_cons.1 h with rfl | h
              · simp
              · have := ih _ _ _ h; omega
          · split at h
            · split at h
              · rcases List.mem_append.1 h with h | h
                · simp at h; obtain ⟨_, _, rfl⟩ := h; simp
                · have := ih _ _ _ h; omega
              · rcases List.mem_cons.1 h with rfl | h
                · simp
                · have := ih _ _ _ h; omega
            · rcases List.mem_cons.1 h with rfl | h
              · simp
              · rcases List.mem_cons.1 h with rfl | h
                · simp
                · have := ih _ _ _ h; omega
      · rcases List.mem_cons.1 h with rfl | h
        · simp
        · have := ih _ _ _ h; omega

/-- every output element `(b, i)` at index `k`: `s ≤ i`, and the output before it holds as many '\n' as the input before `i - s` -/
def LinesKept (out : List (Nat × Nat)) (T : List Nat) (s : Nat) : Prop :=
  ∀ (k : Nat) (e : Nat × Nat), out[k]? = some e →
    s ≤ e.2 ∧ countLF ((out.map (·.1)).take k) = countLF (T.take (e.2 - s))

theorem linesKept_cons (a : Nat) (out : List (Nat × Nat)) (rest : List Nat) (s : Nat)
    (h : LinesKept out rest (s + 1)) : LinesKept ((a, s) :: out) (a :: rest) s := by
  intro k e hk
  cases k with
  | zero => simp at hk; subst hk; simp
  | succ k =>
    simp at hk
    obtain ⟨h1, h2⟩ := h k e hk
    obtain ⟨d, hd⟩ : ∃ d, e.2 = s + 1 + d := ⟨e.2 - (s + 1), by omega⟩
    have e1 : e.2 - s = d + 1 := by omega
    have e2 : e.2 - (s + 1) = d := by omega
    rw [e2] at h2
    refine ⟨by omega, ?_⟩
    rw [e1]
    simp only [List.map_cons, List.take_succ_cons, countLF_cons, h2]

theorem countLF_zero_of_no_LF (l : List Nat) (h : ∀ b ∈ l, b ≠ LF) : countLF l = 0 := by
  induction l with
  | nil => rfl
  | cons a r ih =>
    have ha : a ≠ LF := h a (by simp)
    simp [ha, ih (fun b hb => h b (by simp [hb]))]

theorem countLF_take_le_zero (l : List Nat) (k : Nat) (h : countLF l = 0) : countLF (l.take k) = 0 := by
  induction l generalizing k with
  | nil => simp
  | cons a r ih =>
    cases k with
    | zero => simp
    | succ k =>
      simp only [countLF_cons, List.take_succ_cons] at h ⊢
      have h1 : (if a = LF then 1 else 0) = 0 := by omega
      have h2 : countLF r = 0 := by omega
      rw [h1, ih k h2]

theorem linesKept_ucn (enc : List Nat) (out : List (Nat × Nat)) (T : List Nat) (s n : Nat)
    (henc : ∀ b ∈ enc, b ≠ LF) (hT : countLF (T.take n) = 0)
    (h : LinesKept out (T.drop n) (s + n)) : LinesKept (enc.map (·, s) ++ out) T s := by
  intro k e hk
  have hmap : (enc.map (·, s) ++ out).map (·.1) = enc ++ out.map (·.1) := by simp [Function.comp_def]
  rw [hmap]
  by_cases hlt : k < enc.length
  · rw [List.getElem?_append_left (by simpa using hlt)] at hk
    simp at hk
    obtain ⟨b, _, rfl⟩ := hk
    refine ⟨Nat.le_refl _, ?_⟩
    rw [List.take_append_of_le_length (Nat.le_of_lt hlt)]
    simp [countLF_take_le_zero _ _ (countLF_zero_of_no_LF enc henc)]
  · have hge : enc.length ≤ k := Nat.le_of_not_lt hlt
    rw [List.getElem?_append_right (by simpa using hge)] at hk
    simp only [List.length_map] at hk
    obtain ⟨h1, h2⟩ := h _ e hk
    refine ⟨by omega, ?_⟩
    rw [List.take_append, countLF_append, List.take_of_length_le hge, countLF_zero_of_no_LF enc henc, h2]
    have e1 : e.2 - s = n + (e.2 - (s + n)) := by omega
    rw [e1, List.take_add, countLF_append, hT]

theorem convertUCNAux_lines (f : Nat) : ∀ (T : List Nat) (s : Nat),
    (∀ e ∈ convertUCNAux f T s, e.1 = LF → T[e.2 - s]? = some LF) → LinesKept (convertUCNAux f T s) T s := by
  induction f with
  | zero => intro T s _ k e h; simp [convertUCNAux] at h
  | succ f ih =>
    intro T s hLF
    cases T with
    | nil => intro k e h; simp [convertUCNAux] at h
    | cons a rest =>
      -- transfer of the hypothesis to the rest of the scan
      have sub : ∀ (n : Nat) (T' : List Nat) (out : List (Nat × Nat)), T' = (a :: rest).drop n →
          (∀ e ∈ out, e ∈ convertUCNAux (f + 1) (a :: rest) s) → out = convertUCNAux f T' (s + n) →
          ∀ e ∈ convertUCNAux f T' (s + n), e.1 = LF → T'[e.2 - (s + n)]? = some LF := by
        intro n T' out hT' hmem hout e he hl
        have hge := convertUCNAux_ge f T' (s + n) e he
        have := hLF e (hmem e (hout ▸ he)) hl
        rw [hT', List.getElem?_drop]
        have : n + (e.2 - (s + n)) = e.2 - s := by omega
        rw [this]; assumption
      by_cases ha : a = BSL
      · cases rest with
        | nil =>
          have : convertUCNAux (f + 1) [a] s = [(a, s)] := by simp [convertUCNAux, ha]
          rw [this]
          intro k e hk
          cases k with
          | zero => simp at hk; subst hk; simp
          | succ k => simp at hk
        | cons b rest' =>
          by_cases hu : b = 117
          · by_cases hc : readUniversalChar rest' 4 0 ≠ 0 ∧ readUniversalChar rest' 4 0 ≠ LF
            · have hout : convertUCNAux (f + 1) (a :: b :: rest') s
                  = (encodeUtf8 (readUniversalChar rest' 4 0)).map (·, s) ++ convertUCNAux f (rest'.drop 4) (s + 6) := by
                simp [convertUCNAux, ha, hu, hc]
              have hr := readUniversalChar_ne_zero rest' 4 0 hc.1
              rw [hout]
              apply linesKept_ucn _ _ _ _ 6
              · intro x hx hxl
                have := hLF (x, s) (by rw [hout]; simp [hx]) hxl
                simp [ha] at this; subst hxl; exact absurd this (by decide)
              · subst ha hu; simp [hr.2, LF, BSL]
              · apply ih
                exact sub 6 _ _ (by simp) (fun e he => by rw [hout]; simp [he]) rfl
            · have hout : convertUCNAux (f + 1) (a :: b :: rest') s = (a, s) :: convertUCNAux f (b :: rest') (s + 1) := by
                simp [convertUCNAux, ha, hu, hc]
              rw [hout]
              apply linesKept_cons
              apply ih
              exact sub 1 _ _ (by simp) (fun e he => by rw [hout]; simp [he]) rfl
          · by_cases hU : b = 85
            · by_cases hc : readUniversalChar rest' 8 0 ≠ 0 ∧ readUniversalChar rest' 8 0 ≠ LF
              · have hout : convertUCNAux (f + 1) (a :: b :: rest') s
                    = (encodeUtf8 (readUniversalChar rest' 8 0)).map (·, s) ++ convertUCNAux f (rest'.drop 8) (s + 10) := by
                  simp [convertUCNAux, ha, hU, hc]
                have hr := readUniversalChar_ne_zero rest' 8 0 hc.1
                rw [hout]
                apply linesKept_ucn _ _ _ _ 10
                · intro x hx hxl
                  have := hLF (x, s) (by rw [hout]; simp [hx]) hxl
                  simp [ha] at this; subst hxl; exact absurd this (by decide)
                · subst ha hU; simp [hr.2, LF, BSL]
                · apply ih
                  exact sub 10 _ _ (by simp) (fun e he => by rw [hout]; simp [he]) rfl
              · have hout : convertUCNAux (f + 1) (a :: b :: rest') s = (a, s) :: convertUCNAux f (b :: rest') (s + 1) := by
                  simp [convertUCNAux, ha, hU, hc]
                rw [hout]
                apply linesKept_cons
                apply ih
                exact sub 1 _ _ (by simp) (fun e he => by rw [hout]; simp [he]) rfl
            · have hout : convertUCNAux (f + 1) (a :: b :: rest') s
                  = (a, s) :: (b, s + 1) :: convertUCNAux f rest' (s + 2) := by
                simp [convertUCNAux, ha, hu, hU]
              rw [hout]
              apply linesKept_cons
              apply linesKept_cons
              apply ih
              exact sub 2 _ _ (by simp) (fun e he => by rw [hout]; simp [he]) rfl
      · have hout : convertUCNAux (f + 1) (a :: rest) s = (a, s) :: convertUCNAux f rest (s + 1) := by
          simp [convertUCNAux, ha]
        rw [hout]
        apply linesKept_cons
        apply ih
        exact sub 1 _ _ (by simp) (fun e he => by rw [hout]; simp [he]) rfl

theorem encodeUtf8_no_LF (c : Nat) (hc : c ≠ LF) : ∀ b ∈ encodeUtf8 c, b ≠ LF := by
  intro b hb
  unfold encodeUtf8 at hb
  have h80 : ∀ x : Nat, 0x80 ||| x ≠ LF := fun x => by have := @Nat.left_le_or 0x80 x; simp only [LF]; omega
  split at hb
  · simp at hb; subst hb; exact hc
  · split at hb
    · simp at hb
      rcases hb with rfl | rfl
      · have := @Nat.left_le_or 0xC0 (c >>> 6); simp only [LF]; omega
      · exact h80 _
    · split at hb
      · simp at hb
        rcases hb with rfl | rfl | rfl
        · have := @Nat.left_le_or 0xE0 (c >>> 12); simp only [LF]; omega
        · exact h80 _
        · exact h80 _
      · simp at hb
        rcases hb with rfl | rfl | rfl | rfl
        · have h1 : (0xF0 ||| (c >>> 18)) % 256 = 0xF0 % 256 ||| (c >>> 18) % 256 := Nat.or_mod_two_pow (n := 8)
          have h2 := @Nat.left_le_or (0xF0 % 256) ((c >>> 18) % 256)
          simp only [LF]; omega
        · exact h80 _
        · exact h80 _
        · exact h80 _

/-- every '\n' the pass writes is a copy of a '\n' it read -/
theorem convertUCNAux_copies (f : Nat) : ∀ (T : List Nat) (s : Nat) (e : Nat × Nat),
    e ∈ convertUCNAux f T s → e.1 = LF → T[e.2 - s]? = some LF := by
  induction f with
  | zero => intro T s e h; simp [convertUCNAux] at h
  | succ f ih =>
    intro T s e h hl
    cases T with
    | nil => simp [convertUCNAux] at h
    | cons a rest =>
      have recur : ∀ (n : Nat), e ∈ convertUCNAux f ((a :: rest).drop n) (s + n) → (a :: rest)[e.2 - s]? = some LF := by
        intro n he
        have hge := convertUCNAux_ge f _ _ e he
        have := ih _ _ e he hl
        rw [List.getElem?_drop] at this
        have e1 : n + (e.2 - (s + n)) = e.2 - s := by omega
        rw [e1] at this; exact this
      have here : e = (a, s) → (a :: rest)[e.2 - s]? = some LF := by
        intro he; subst he; simp at hl ⊢; exact hl
      simp only [convertUCNAux] at h
      split at h
      · split at h
        · simp at h; exact here h
        · rename_i b rest'
          have here2 : e = (b, s + 1) → (a :: b :: rest')[e.2 - s]? = some LF := by
            intro he; subst he; simp at hl ⊢; exact hl
          split at h
          · split at h
            · rename_i hc
              rcases List.mem_append.1 h with h | h
              · simp at h; obtain ⟨x, hx, rfl⟩ := h
                exact absurd hl (encodeUtf8_no_LF _ hc.2 x hx)
              · exact recur 6 (by simpa using h)
            · rcases List.mem_cons.1 h with h | h
              · exact here h
              · exact recur 1 (by simpa using h)
          · split at h
            · split at h
              · rename_i hc
                rcases List.mem_append.1 h with h | h
                · simp at h; obtain ⟨x, hx, rfl⟩ := h
                  exact absurd hl (encodeUtf8_no_LF _ hc.2 x hx)
                · exact recur 10 (by simpa using h)
              · rcases List.mem_cons.1 h with h | h
                · exact here h
                · exact recur 1 (by simpa using h)
            · rcases List.mem_cons.1 h with h | h
              · exact here h
              · rcases List.mem_cons.1 h with h | h
                · exact here2 h
                · exact recur 2 (by simpa using h)
      · rcases List.mem_cons.1 h with h | h
        · exact here h
        · exact recur 1 (by simpa using h)

theorem noNewlineUCN_always (T : List Nat) : noNewlineUCN T = true := by
  unfold noNewlineUCN convertUCN
  apply List.all_eq_true.2
  intro e he
  by_cases hl : e.1 = LF
  · have := convertUCNAux_copies _ _ _ e he hl
    simp at this
    simp [this]
  · simp [hl]

/-- `convert_universal_chars`: the byte at output offset `k`, which came from input offset `e.2`, has as many '\n' before it
    in the output as its source had in the input -/
theorem convertUCN_lines (T : List Nat) (k : Nat) (e : Nat × Nat)
    (hk : (convertUCN T)[k]? = some e) :
    countLF ((convertUniversalChars T).take k) = countLF (T.take e.2) := by
  have hLF : ∀ e ∈ convertUCNAux (T.length + 1) T 0, e.1 = LF → T[e.2 - 0]? = some LF :=
    fun e he hl => convertUCNAux_copies _ _ _ e he hl
  have := (convertUCNAux_lines (T.length + 1) T 0 hLF k e hk).2
  simpa [convertUniversalChars, convertUCN] using this

end ChibiVerif.LineNo
