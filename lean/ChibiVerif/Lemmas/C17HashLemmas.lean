/-
C17 — fixed-width conversion lemmas for `Props/C17Hash.lean`.
-/
namespace ChibiVerif.C17Hash

/-- for a negative `char` the zero extension of its byte differs from its sign extension -/
theorem toUInt8_toUInt64_ne_sext (c : Int8) (hc : c < 0) :
    c.toUInt8.toUInt64 ≠ c.toInt64.toUInt64 := by
  intro e
  have h1 : c.toUInt8.toUInt64.toNat < 256 := by
    rw [UInt8.toNat_toUInt64]; exact c.toUInt8.toNat_lt
  have hm : c.toBitVec.msb = true := by
    rw [BitVec.msb_eq_toInt]
    have := Int8.lt_iff_toInt_lt.1 hc
    simpa using this
  have h2 : c.toInt64.toUInt64.toNat ≥ 2 ^ 64 - 256 := by
    rw [← UInt64.toNat_toBitVec, Int64.toBitVec_toUInt64, Int8.toBitVec_toInt64,
      BitVec.toNat_signExtend]
    simp [hm]
  rw [e] at h1
  omega

/-- a non-negative `int` converted to `unsigned long` keeps its value -/
theorem int32_nat_roundtrip (n : Nat) (hn : n < 2 ^ 31) :
    (Int32.ofNat n).toInt64.toUInt64.toNat = n := by
  have h1 : (Int32.ofNat n).toInt64.toUInt64.toNat =
      (BitVec.signExtend 64 (BitVec.ofNat 32 n)).toNat := by
    rw [← UInt64.toNat_toBitVec, Int64.toBitVec_toUInt64, Int32.toBitVec_toInt64]
    rfl
  rw [h1, BitVec.toNat_signExtend]
  have hm : (BitVec.ofNat 32 n).msb = false := by
    rw [BitVec.msb_eq_false_iff_two_mul_lt]
    simp [BitVec.toNat_ofNat]
    omega
  simp [hm, BitVec.toNat_setWidth, BitVec.toNat_ofNat]
  omega

end ChibiVerif.C17Hash
