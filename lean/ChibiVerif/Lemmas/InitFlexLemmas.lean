/-
C05, parser = specification: a declared struct whose last member is a flexible array member (GNU: static initialization of a
flexible array member; the property names it).

The parser (`new_initializer(ty, true)`) gives the member the node `.flex`; the first initializer that reaches it sizes it with
`count_array_init_elements` - over its own brace-enclosed list (`array_initializer1`) or, with elided braces, over the rest of
the struct's list (`array_initializer2`) - or with the length of a string literal, and from then on the node is an ordinary
array.  The specification lets the array grow with every initializer (`growable`), as gcc does.  They agree as long as the
member is initialised once (`Flags.reinit`, region `FlexReinit`): the brace-enclosed case is `incLoop` (Lemmas/InitIncLemmas.lean),
the elided case is `flexLoop` below (parser loop, counting loop and the specification's list in lockstep), and the struct's
own list is `flex_struct1loop`: `sim_struct1loop` again, with the two new cases for the flexible member.
-/
import ChibiVerif.Lemmas.InitIncLemmas

namespace ChibiVerif.InitSpec
open ChibiVerif.Init

/-- `ms` are the members of a struct with flexible array member `ms[k]` of type `e[n]` (`n` = 0 in C) -/
structure FlexTy (ms : Members) (k : Nat) (mik : MemInfo) (e : Ty) (n : Nat) : Prop where
  ok : flexOkMs ms = true
  last : k + 1 = ms.length
  mem : ms[k]? = some (mik, .array e n)
  elem : subOk e = true

theorem flexOkMs_last : ∀ (ms : Members), flexOkMs ms = true → ∃ k mik e n, FlexTy ms k mik e n
  | [], h => by simp [flexOkMs] at h
  | [(mi, t)], h => by
    cases t <;> first | (simp [flexOkMs] at h) | skip
    rename_i e n
    exact ⟨0, mi, e, n, h, rfl, rfl, by simpa [flexOkMs] using h⟩
  | (mi, t) :: m :: r, h => by
    have h' := h
    simp only [flexOkMs, Bool.and_eq_true] at h'
    obtain ⟨k, mik, e, n, hF⟩ := flexOkMs_last (m :: r) h'.2
    exact ⟨k + 1, mik, e, n, h, by have := hF.last; simp only [List.length_cons] at this ⊢; omega, by simpa using hF.mem, hF.elem⟩

section
variable {ms : Members} {sz : Nat} {k : Nat} {mik : MemInfo} {e : Ty} {n : Nat}

theorem FlexTy.tyOk (hF : FlexTy ms k mik e n) : tyOk (.struct ms sz true) = true := hF.ok

theorem FlexTy.sub_mem (hF : FlexTy ms k mik e n) : subTy (.struct ms sz true) [k] = some (.array e n) := by
  rw [subTy_one]; simp [childTy, hF.mem]

theorem FlexTy.sub_elem (hF : FlexTy ms k mik e n) (i : Nat) : subTy (.struct ms sz true) [k, i] = some e := by
  have := subTy_append [k] [i] (.struct ms sz true) _ (hF.sub_mem (sz := sz))
  simp only [List.cons_append, List.nil_append] at this
  rw [this, subTy_one]; rfl

theorem FlexTy.grow (hF : FlexTy ms k mik e n) : growable (.struct ms sz true) true [k] = true := by
  simp [growable, hF.last]

theorem FlexTy.flexIdx (hF : FlexTy ms k mik e n) : flexIdx (.struct ms sz true) true = some k := by
  have hne : ms.isEmpty = false := by
    cases ms with
    | nil => have := hF.last; simp at this
    | cons _ _ => rfl
  have : ms.length - 1 = k := by have := hF.last; omega
  simp [InitSpec.flexIdx, hne, this]

theorem FlexTy.cursor_elem (hF : FlexTy ms k mik e n) (i : Nat) : cursorIn (.struct ms sz true) true [k] i = some [k, i] := by
  simp [cursorIn, hF.sub_mem, hF.grow]

theorem FlexTy.next_mem (hF : FlexTy ms k mik e n) (top : Bool) : next (.struct ms sz true) top [k] = none := by
  have h := next_snoc (.struct ms sz true) top [] k
  simp only [List.reverse_nil] at h
  rw [h]
  have hp : ms[k + 1]? = none := List.getElem?_eq_none (by have := hF.last; omega)
  rw [cursorIn_struct_none rfl (nextNamed_past hp)]
  exact next_nil _ _

theorem FlexTy.next_elem (hF : FlexTy ms k mik e n) (i : Nat) : next (.struct ms sz true) true [i, k] = some [k, i + 1] := by
  have h := next_snoc (.struct ms sz true) true [k] i
  simp only [List.reverse_cons, List.reverse_nil, List.nil_append] at h
  rw [h, hF.cursor_elem]

theorem FlexTy.mem_ok (hF : FlexTy ms k mik e n) {j : Nat} {mi : MemInfo} {t : Ty} (h : ms[j]? = some (mi, t)) : subOk t = true :=
  flexOkMs_get ms j mi t hF.ok h

/-- the parser's node of an ordinary member -/
theorem At.flexMem (hF : FlexTy ms k mik e n) {cs : List Init} {eo : Option Expr} (hs : shapedFlexMs ms cs = true) {j : Nat} {mi : MemInfo}
    {t : Ty} {cj : Init} (hm : ms[j]? = some (mi, t)) (hc : cs[j]? = some cj) (hj : j ≠ k) :
    At (.struct ms sz true) true (.struct eo cs) [j] t cj where
  rootOk := hF.ok
  topOk := fun _ => rfl
  pok := by
    have := hF.last
    simp only [pathOk, bne_iff_ne, ne_eq]; omega
  shp := hs
  sub := by rw [subTy_one]; simp [childTy, hm]
  get := getAt_one (by simpa [Init.children] using hc)
  ok := hF.mem_ok hm

/-- the parser's node of an element of the flexible array -/
theorem At.flexElem (hF : FlexTy ms k mik e n) {cs : List Init} {eo : Option Expr} (hs : shapedFlexMs ms cs = true) {xs : List Init}
    (hk : cs[k]? = some (.arr xs)) {i : Nat} {xi : Init} (hi : xs[i]? = some xi) :
    At (.struct ms sz true) true (.struct eo cs) [k, i] e xi where
  rootOk := hF.ok
  topOk := fun _ => rfl
  pok := rfl
  shp := hs
  sub := hF.sub_elem i
  get := by
    rw [getAt_cons_of_some _ (show (Init.struct eo cs).children[k]? = some (.arr xs) by simpa [Init.children] using hk)]
    exact getAt_one (by simpa [Init.children] using hi)
  ok := hF.elem

end

/-! ### the parser at a `.name` designator -/

/-- before a `.name` designator `initializer2` consumes nothing and changes nothing (it succeeds for arrays only) -/
theorem init2_dot_nothing {f : Nat} {ty : Ty} {nm : String} {r : List ITok} {c c' : Init} {t : List ITok} (hs : shaped ty c = true)
    (ho : subOk ty = true) (h : initializer2 f ty (.dot nm :: r) c = .ok (c', t)) : c' = c ∧ t = .dot nm :: r := by
  cases f with
  | zero => cases h
  | succ f =>
    cases ty with
    | inc => simp [subOk] at ho
    | scalar sz k =>
      rw [initializer2] at h
      · simp [parseAssign] at h
        cases h
      · intro r' hr; cases hr
    | struct ms sz fl0 =>
      rw [initializer2] at h
      simp [startsBrace, parseAssign] at h
      cases h
    | union ms sz fl0 =>
      rw [initializer2] at h
      simp [startsBrace, parseAssign] at h
      cases h
    | array elem len =>
      obtain ⟨cs, rfl, hlen, hall⟩ := arr_of_shaped hs
      have h2 : arrayInit2 f elem (.dot nm :: r) (.arr cs) 0 = .ok (c', t) := by
        rw [initializer2] at h
        · exact h
        · intro _ _ _ _ hh; cases hh
        · intro _ hh; cases hh
      cases f with
      | zero => cases h2
      | succ f =>
        rw [arrayInit2] at h2
        · simp only [pure_bind'] at h2
          cases f with
          | zero => cases h2
          | succ f =>
            rw [arrayInit2Loop] at h2
            split at h2
            · simp [isDesg] at h2
              cases h2; exact ⟨rfl, rfl⟩
            · cases h2; exact ⟨rfl, rfl⟩
        · intro hh; cases hh

theorem countLoop_dot_error (f : Nat) (elem : Ty) (nm : String) (r : List ITok) (d : Init) (i mx : Int) :
    ∃ err, countLoop f elem (.dot nm :: r) d i mx false = .error err := by
  cases f with
  | zero => exact ⟨_, rfl⟩
  | succ f => rw [countLoop]; exact ⟨_, rfl⟩

/-! ### growing the specification's flexible array in advance changes nothing -/

/-- the elements of the flexible member's node -/
def elemsOf : Init → List Init
  | .arr ys => ys
  | _ => []

theorem flex_tests (ck : Init) (hck : ck = .flex ∨ ∃ ys, ck = .arr ys) (i : Nat) (z : Init) (hz : hasExpr z = false) (s : List Nat) :
    touched ck (i :: s) = touched (.arr (padI (elemsOf ck) i z)) (i :: s) ∧
    switchesUnion ck (i :: s) = switchesUnion (.arr (padI (elemsOf ck) i z)) (i :: s) ∧
    exprAbove ck (i :: s) = exprAbove (.arr (padI (elemsOf ck) i z)) (i :: s) := by
  rcases hck with rfl | ⟨ys, rfl⟩
  · have h := pad_tests [] i z hz s
    have h1 : touched .flex (i :: s) = touched (.arr []) (i :: s) := by
      rw [touched, touched]
      · simp [Init.children]
      · intro e m cs h; cases h
      · intro e m cs h; cases h
    have h2 : switchesUnion .flex (i :: s) = switchesUnion (.arr []) (i :: s) := by
      rw [switchesUnion, switchesUnion]
      · simp [Init.children]
      · intro e m cs h; cases h
      · intro e m cs h; cases h
    have h3 : exprAbove .flex (i :: s) = exprAbove (.arr []) (i :: s) := by
      rw [exprAbove, exprAbove]; simp [Init.children, hasAggExpr]
    simp only [elemsOf]
    exact ⟨h1.trans h.1, h2.trans h.2.1, h3.trans h.2.2⟩
  · exact pad_tests ys i z hz s

section
variable {ms : Members} {sz : Nat} {k : Nat} {mik : MemInfo} {e : Ty} {n : Nat}

theorem struct_tests {eo : Option Expr} {cs : List Init} {ck : Init} (hk : cs[k]? = some ck) (X : Init) (q : List Nat)
    (h1 : touched ck q = touched X q) (h2 : switchesUnion ck q = switchesUnion X q) (h3 : exprAbove ck q = exprAbove X q) :
    touched (.struct eo cs) (k :: q) = touched (.struct eo (cs.set k X)) (k :: q) ∧
    switchesUnion (.struct eo cs) (k :: q) = switchesUnion (.struct eo (cs.set k X)) (k :: q) ∧
    exprAbove (.struct eo cs) (k :: q) = exprAbove (.struct eo (cs.set k X)) (k :: q) := by
  have hlt : k < cs.length := (List.getElem?_eq_some_iff.mp hk).1
  have hk1 : (Init.struct eo cs).children[k]? = some ck := by simpa [Init.children] using hk
  have hk2 : (Init.struct eo (cs.set k X)).children[k]? = some X := by simp [Init.children, hlt]
  have hn1 : ∀ e' m cs', Init.struct eo cs ≠ .union e' (some m) cs' := by intro _ _ _ h; cases h
  have hn2 : ∀ e' m cs', Init.struct eo (cs.set k X) ≠ .union e' (some m) cs' := by intro _ _ _ h; cases h
  refine ⟨?_, ?_, ?_⟩
  · rw [touched_other q hk1 hn1, touched_other q hk2 hn2, h1]
  · rw [switchesUnion_other q hk1 hn1, switchesUnion_other q hk2 hn2, h2]
  · rw [exprAbove_cons q hk1, exprAbove_cons q hk2, h3]; cases eo <;> rfl

theorem modifyAt_flex_pad (hF : FlexTy ms k mik e n) (f : Ty → Init → Except Fail Init) {eo : Option Expr} {cs : List Init} {ck : Init}
    (hk : cs[k]? = some ck) (hck : ck = .flex ∨ ∃ ys, ck = .arr ys) (i : Nat) (s : List Nat) :
    modifyAt (.struct ms sz true) true f (.struct ms sz true) [] (k :: i :: s) (.struct eo cs) =
      modifyAt (.struct ms sz true) true f (.struct ms sz true) [] (k :: i :: s)
        (.struct eo (cs.set k (.arr (padI (elemsOf ck) i (zeroOf e))))) := by
  have hlt : k < cs.length := (List.getElem?_eq_some_iff.mp hk).1
  have hgr : growable (.struct ms sz true) true ([] ++ [k]) = true := hF.grow
  have h1 : ∀ ys : List Init, (if i < ys.length then ys else ys ++ List.replicate (i + 1 - ys.length) (zeroOf e))
      = padI ys i (zeroOf e) := fun _ => rfl
  have h2 : ∀ ys : List Init, (if i < (padI ys i (zeroOf e)).length then padI ys i (zeroOf e)
      else padI ys i (zeroOf e) ++ List.replicate (i + 1 - (padI ys i (zeroOf e)).length) (zeroOf e))
      = padI ys i (zeroOf e) := fun ys => padI_idem ys i _
  rcases hck with rfl | ⟨ys, rfl⟩
  · simp only [elemsOf]
    conv => lhs; unfold modifyAt
    conv => rhs; unfold modifyAt
    simp only [hF.mem, getD_of_getElem? hk, getD_set_same _ _ _ _ hlt, set_set_same]
    congr 1
    conv => lhs; unfold modifyAt
    conv => rhs; unfold modifyAt
    simp only [hgr, ↓reduceIte]
    rw [h1, h2]
  · simp only [elemsOf]
    conv => lhs; unfold modifyAt
    conv => rhs; unfold modifyAt
    simp only [hF.mem, getD_of_getElem? hk, getD_set_same _ _ _ _ hlt, set_set_same]
    congr 1
    conv => lhs; unfold modifyAt
    conv => rhs; unfold modifyAt
    simp only [hgr, ↓reduceIte]
    rw [h1, h2]

theorem FlexTy.ng_elem (hF : FlexTy ms k mik e n) (i : Nat) (s : List Nat) : growable (.struct ms sz true) true (k :: i :: s) = false := by
  simp [growable]

/-- one initializer for (a subobject of) element `i` of the flexible array: the array may be grown first -/
theorem pregrow_flex_item (hF : FlexTy ms k mik e n) (g : Nat) {eo : Option Expr} {cs : List Init} {ck : Init}
    (hk : cs[k]? = some ck) (hck : ck = .flex ∨ ∃ ys, ck = .arr ys) (i : Nat) (toks : List ITok) (fl : Flags) :
    initItem g (.struct ms sz true) true (.struct eo cs) [[k, i]] toks fl =
      initItem g (.struct ms sz true) true (.struct eo (cs.set k (.arr (padI (elemsOf ck) i (zeroOf e))))) [[k, i]] toks fl := by
  have hz := hasExpr_zeroOf e
  have tests : ∀ s, _ := fun s => struct_tests (eo := eo) hk (.arr (padI (elemsOf ck) i (zeroOf e))) (i :: s)
    (flex_tests ck hck i (zeroOf e) hz s).1 (flex_tests ck hck i (zeroOf e) hz s).2.1 (flex_tests ck hck i (zeroOf e) hz s).2.2
  have nob : ∀ (tok : ITok) (r : List ITok), tok ≠ .lbrace →
      initItem g (.struct ms sz true) true (.struct eo cs) [[k, i]] (tok :: r) fl =
        initItem g (.struct ms sz true) true (.struct eo (cs.set k (.arr (padI (elemsOf ck) i (zeroOf e))))) [[k, i]] (tok :: r) fl := by
    intro tok r hb
    rw [initItem_tok _ _ _ _ _ _ _ _ hb, initItem_tok _ _ _ _ _ _ _ _ hb]
    cases hd : descend (.struct ms sz true) true tok ([k, i].length + (Ty.struct ms sz true).nodes + 2) [k, i] with
    | error err => rfl
    | ok q =>
      obtain ⟨s, rfl⟩ := descend_prefix _ _ _ _ _ _ hd
      simp only [ok_bind, List.cons_append, List.nil_append]
      have hfl : tokFlags (.struct ms sz true) (.struct eo cs) tok (k :: i :: s) =
          tokFlags (.struct ms sz true) (.struct eo (cs.set k (.arr (padI (elemsOf ck) i (zeroOf e))))) tok (k :: i :: s) := by
        simp only [tokFlags]
        rw [← (tests s).1, ← (tests s).2.1, ← (tests s).2.2]
      rw [hfl, modifyAt_flex_pad hF _ hk hck i s]
  cases toks with
  | nil => rfl
  | cons tok r =>
    by_cases hb : tok = .lbrace
    · subst hb
      cases hbl : bracedLit e r with
      | some tr =>
        obtain ⟨tok1, r1⟩ := tr
        rw [initItem_bracedLit _ _ _ _ _ _ _ _ (hF.sub_elem i) (hF.ng_elem i []) hbl,
          initItem_bracedLit _ _ _ _ _ _ _ _ (hF.sub_elem i) (hF.ng_elem i []) hbl]
        exact nob tok1 r1 (bracedLit_stops hbl).2
      | none =>
      rw [initItem_brace _ _ _ _ _ _ _ (hF.sub_elem i) (hF.ng_elem i []) hbl, initItem_brace _ _ _ _ _ _ _ (hF.sub_elem i) (hF.ng_elem i []) hbl]
      rw [← (tests []).1, ← (tests []).2.2]
      congr 1
      funext sub
      rw [modifyAt_flex_pad hF _ hk hck i []]
    · exact nob tok r hb

/-! ### elided braces: parser loop, counting loop and the specification's list in lockstep -/

theorem FlexTy.k_lt (hF : FlexTy ms k mik e n) {cs : List Init} (hcs : shapedFlexMs ms cs = true) : k < cs.length := by
  have := shapedFlexMs_length ms cs hcs
  have := hF.last
  omega

theorem FlexTy.shaped_set (hF : FlexTy ms k mik e n) {cs : List Init} (hcs : shapedFlexMs ms cs = true) {ys : List Init}
    (hys : shapedAll e ys = true) : shapedFlexMs ms (cs.set k (.arr ys)) = true :=
  shapedFlexMs_set ms cs k mik _ _ hcs hF.mem (Or.inr ⟨hF.last, e, n, rfl, Or.inr ⟨ys, rfl, hys⟩⟩)

theorem setAtM_flexElem {eo : Option Expr} {cs : List Init} {ys : List Init} (hk : k < cs.length) (i : Nat) (v : Init) :
    setAtM (.struct eo (cs.set k (.arr ys))) [k, i] v = .struct none (cs.set k (.arr (ys.set i v))) := by
  simp [setAtM, hk]

theorem isEnd_consumeEnd {toks : List ITok} (h : isEnd toks = true) : ∃ r, consumeEnd toks = some r := by
  rcases isEnd_cases h with ⟨r, rfl⟩ | ⟨r, rfl⟩ <;> exact ⟨_, rfl⟩

theorem flexLoop (hF : FlexTy ms k mik e n) {cs : List Init} (hcs : shapedFlexMs ms cs = true) :
    ∀ (f f2 : Nat) (xs : List Init) (toks : List ITok) (i : Nat) (c' : Init) (toks' : List ITok) (d : Init) (N : Int) (g : Nat)
      (fl : Flags) (res : Result), 0 < i →
      arrayInit2Loop f e toks (.arr xs) i = .ok (c', toks') →
      countLoop f2 e toks d (i : Int) (i : Int) false = .ok N →
      shaped e d = true → shapedAll e xs = true → N = (xs.length : Int) → i ≤ xs.length →
      (∀ j, i ≤ j → j < xs.length → xs[j]? = some (zeroOf e)) →
      initList g (.struct ms sz true) true (.struct none (cs.set k (.arr (xs.take i)))) (some [k, i]) toks false fl = .ok res →
      res.fl.clean = true →
      ∃ xs', c' = .arr xs' ∧ shapedAll e xs' = true ∧
        ∃ g', initList g' (.struct ms sz true) true (.struct none (cs.set k (.arr xs'))) none toks' false fl = .ok res
  | 0, _, _, _, _, _, _, _, _, _, _, _, _, h, _, _, _, _, _, _, _, _ => by cases h
  | f+1, f2, xs, toks, i, c', toks', d, N, g, fl, res, hi, h, hcnt, hd, hall, hN, hiL, hzero, hres, hcl => by
    have hklt := hF.k_lt hcs
    cases f2 with
    | zero => cases hcnt
    | succ f2 =>
    cases g with
    | zero => cases hres
    | succ g =>
    rw [arrayInit2Loop] at h
    split at h
    · rename_i hcond
      simp only [hi, ↓reduceIte] at h
      simp only [Init.children, Bool.and_eq_true, decide_eq_true_eq, Bool.not_eq_true'] at hcond
      obtain ⟨toks1, hcomma, h⟩ := bind_eq_ok h
      have htoks := skipTok_ok hcomma
      subst htoks
      have hce : consumeEnd (ITok.comma :: toks1) = none := consumeEnd_none_of_isEnd hcond.2
      have hfirst : (if false = true then pure (ITok.comma :: toks1) else skipTok ITok.comma "," (ITok.comma :: toks1)) = .ok toks1 := by
        simpa using hcomma
      replace hres := initList_item_imp _ _ _ _ _ _ _ _ hce hres hcl
      rw [hfirst, ok_bind] at hres
      have hcs' := countLoop_step hce hfirst hcnt
      by_cases hdg : isDesg toks1 = true
      · exfalso
        rcases isDesg_cases hdg with hb | ⟨nm, r, rfl⟩
        · simp only [pathsOf, hdg, ↓reduceIte] at hres
          obtain ⟨err, he⟩ := desigPaths_bracket_struct ms sz true true (toks1.length + 1) toks1 hb
          rw [he] at hres; cases hres
        · rcases hcs' with ⟨a, r', d', t, heq, _, _⟩ | ⟨a, b, r', d', t, heq, _, _⟩ | ⟨_, d', t, h3, h4⟩
          · cases heq
          · cases heq
          · obtain ⟨_, rfl⟩ := init2_dot_nothing hd hF.elem h3
            obtain ⟨err, he⟩ := countLoop_dot_error f2 e nm r d' ((i : Int) + 1) (max (i : Int) ((i : Int) + 1))
            rw [he] at h4; cases h4
      · simp only [hdg, Bool.false_eq_true, ↓reduceIte] at h
        obtain ⟨xi, hxi, h⟩ := bind_eq_ok h
        obtain ⟨⟨xi', toks2⟩, hinit, h⟩ := bind_eq_ok h
        simp only at h
        have hk : xs[i]? = some xi := by simpa [Init.children] using getChild_ok hxi
        have hil : i < xs.length := of_decide_eq_true hcond.1
        obtain ⟨d', t, hdd, hc⟩ : ∃ d' t, initializer2 f2 e toks1 d = .ok (d', t) ∧
            countLoop f2 e t d' ((i : Int) + 1) (max (i : Int) ((i : Int) + 1)) false = .ok N := by
          rcases hcs' with ⟨a, r', d', t, heq, _, _⟩ | ⟨a, b, r', d', t, heq, _, _⟩ | ⟨_, d', t, h3, h4⟩
          · subst heq; simp [isDesg] at hdg
          · subst heq; simp [isDesg] at hdg
          · exact ⟨d', t, h3, h4⟩
        simp only [pathsOf, hdg, Bool.false_eq_true, ↓reduceIte, pure_bind'] at hres
        have hkk : (cs.set k (.arr (xs.take i)))[k]? = some (.arr (xs.take i)) := by simp [hklt]
        rw [pregrow_flex_item hF g hkk (Or.inr ⟨_, rfl⟩) i toks1 fl] at hres
        simp only [elemsOf, set_set_same] at hres
        rw [take_pad hiL (of_decide_eq_true hcond.1) hzero] at hres
        have hmax : max i (i + 1) = i + 1 := by omega
        rw [hmax] at hres
        have hcs1 : shapedFlexMs ms (cs.set k (.arr (xs.take (i + 1)))) = true :=
          hF.shaped_set hcs (shapedAll_take e xs (i + 1) hall)
        have hAt := At.flexElem (sz := sz) (eo := none) hF hcs1 (xs := xs.take (i + 1)) (by simp [hklt]) (i := i) (xi := xi)
          (by simp [List.getElem?_take, hk])
        obtain ⟨hsi, himp⟩ := (sim_all f).init2 hAt hinit
        obtain ⟨g1, h1'⟩ := himp g fl
        have hsp := h1' res hres hcl
        simp only [After, List.reverse_cons, List.reverse_nil, List.nil_append, List.cons_append] at hsp
        rw [setAtM_flexElem hklt, hF.next_elem, take_set_comm] at hsp
        obtain ⟨htt, _⟩ := consume_indep_init2 (sm_of_shaped hF.elem hd hAt.shapedc) hdd hinit
        subst htt
        have hsd' : shaped e d' = true := ((sim_all f2).init2 (top := true) (At.root hF.elem hd) hdd).1
        have e1 : ((i + 1 : Nat) : Int) = (i : Int) + 1 := by omega
        have e2 : max (i : Int) ((i : Int) + 1) = (i : Int) + 1 := Int.max_eq_right (by omega)
        rw [e2, ← e1] at hc
        exact flexLoop hF hcs f f2 (xs.set i xi') t (i + 1) c' toks' d' N g1 fl res (Nat.succ_pos i) h hc hsd'
          (shapedAll_set e xs i xi' hall hsi) (by simpa using hN) (by simp only [List.length_set]; omega)
          (fun j hj hjl => by
            simp only [List.length_set] at hjl
            rw [List.getElem?_set_ne (by omega)]
            exact hzero j (by omega) hjl)
          hsp hcl
    · rename_i hcond
      cases h
      simp only [Init.children, Bool.and_eq_true, decide_eq_true_eq, Bool.not_eq_true', not_and, Bool.not_eq_false] at hcond
      by_cases hend : isEnd toks = true
      · obtain ⟨r', hce⟩ := isEnd_consumeEnd hend
        rw [countLoop] at hcnt
        simp only [hce] at hcnt
        cases hcnt
        have hlen : xs.length = i := by omega
        refine ⟨xs, rfl, hall, g + 1, ?_⟩
        rw [← hlen, List.take_length] at hres
        rw [← initList_stopped _ _ _ _ (some [k, xs.length]) none _ _ (Or.inl hend)]
        exact hres
      · exfalso
        have hce : consumeEnd toks = none := consumeEnd_none_of_isEnd (by simpa using hend)
        have hilen : ¬ i < xs.length := fun hlt => hend (hcond (decide_eq_true hlt))
        replace hres := initList_item_imp _ _ _ _ _ _ _ _ hce hres hcl
        obtain ⟨toks1, hfirst, hres⟩ := bind_eq_ok hres
        have hcs' := countLoop_step hce hfirst hcnt
        rcases hcs' with ⟨a, r', d', t, heq, _, _⟩ | ⟨a, b, r', d', t, heq, _, _⟩ | ⟨_, d', t, _, h4⟩
        · subst heq
          obtain ⟨err, he⟩ := desigPaths_bracket_struct ms sz true true ((ITok.idx a :: r').length + 1) (.idx a :: r') rfl
          simp only [pathsOf, isDesg, ↓reduceIte] at hres
          rw [he] at hres; cases hres
        · subst heq
          obtain ⟨err, he⟩ := desigPaths_bracket_struct ms sz true true ((ITok.range a b :: r').length + 1) (.range a b :: r') rfl
          simp only [pathsOf, isDesg, ↓reduceIte] at hres
          rw [he] at hres; cases hres
        · have := countLoop_ge e _ _ _ _ _ _ _ h4
          omega

/-! ### the first initializer of the flexible member -/

theorem shapedAll_replicate_zero (e : Ty) (hoe : subOk e = true) (m : Nat) : shapedAll e (List.replicate m (newInit e false)) = true := by
  rw [shapedAll_iff]; intro c hcm; rw [List.eq_of_mem_replicate hcm]; exact shaped_newInit e hoe

theorem init2_array_unfold (f : Nat) (e : Ty) (n : Nat) (toks : List ITok) (c : Init) :
    initializer2 (f+1) (.array e n) toks c =
      (match toks with
        | .str _ bytes esz :: r => if e.isInteger then stringInitializer e bytes esz r c else arrayInit2 f e toks c 0
        | .lbrace :: r => (match bracedStr e r with
          | some (_, bytes, esz, rest) => stringInitializer e bytes esz rest c
          | none => arrayInit1 f e toks c)
        | _ => arrayInit2 f e toks c 0) := by
  cases toks with
  | nil => rw [initializer2] <;> intros <;> simp_all
  | cons tok r =>
    cases tok <;> rw [initializer2] <;> intros <;> try simp_all
    cases hbs : bracedStr e r with
    | none => rfl
    | some x => rfl

theorem init2_array_len (f : Nat) (e : Ty) (n m : Nat) (toks : List ITok) (c : Init) :
    initializer2 f (.array e n) toks c = initializer2 f (.array e m) toks c := by
  cases f with
  | zero => rfl
  | succ f => rw [init2_array_unfold, init2_array_unfold]

/-- the parser never looks at the declared length of an array type, only at the node -/
theorem designation_array_len (f : Nat) (e : Ty) (n m : Nat) (toks : List ITok) (c : Init) :
    designation f (.array e n) toks c = designation f (.array e m) toks c := by
  cases f with
  | zero => rfl
  | succ f =>
    cases toks with
    | nil => simp only [designation]; exact init2_array_len ..
    | cons tok r =>
      cases tok <;> simp only [designation, Ty.elem?] <;> first | exact init2_array_len .. | rfl

theorem arr2loop_shape (hoe : subOk e = true) : ∀ (f : Nat) (toks : List ITok) (xs : List Init) (i : Nat) (c' : Init) (toks' : List ITok),
    shapedAll e xs = true → arrayInit2Loop f e toks (.arr xs) i = .ok (c', toks') →
    ∃ xs', c' = .arr xs' ∧ xs'.length = xs.length ∧ shapedAll e xs' = true
  | 0, _, _, _, _, _, _, h => by cases h
  | f+1, toks, xs, i, c', toks', hall, h => by
    rw [arrayInit2Loop] at h
    split at h
    · have key : ∀ toks1, (if isDesg toks1 = true then pure (Init.arr xs, toks) else
            getChild (Init.arr xs).children i >>= fun c => initializer2 f e toks1 c >>= fun x =>
              arrayInit2Loop f e x.2 ((Init.arr xs).setChild i x.1) (i + 1)) = .ok (c', toks') →
          ∃ xs', c' = .arr xs' ∧ xs'.length = xs.length ∧ shapedAll e xs' = true := by
        intro toks1 h
        split at h
        · cases h; exact ⟨xs, rfl, rfl, hall⟩
        · obtain ⟨xi, hxi, h⟩ := bind_eq_ok h
          obtain ⟨⟨xi', toks2⟩, hinit, h⟩ := bind_eq_ok h
          simp only at h
          have hk : xs[i]? = some xi := by simpa [Init.children] using getChild_ok hxi
          have hsi : shaped e xi' = true :=
            ((sim_all f).init2 (top := false) (At.root hoe (shapedAll_get e xs i xi hall hk)) hinit).1
          simp only [Init.setChild, Init.withChildren, Init.children] at h
          obtain ⟨xs', h1, h2, h3⟩ := arr2loop_shape hoe f toks2 (xs.set i xi') (i + 1) c' toks' (shapedAll_set e xs i xi' hall hsi) h
          exact ⟨xs', h1, by simpa using h2, h3⟩
      by_cases hi : i > 0
      · simp only [hi, ↓reduceIte] at h
        obtain ⟨toks1, _, h⟩ := bind_eq_ok h
        exact key toks1 h
      · simp only [hi, ↓reduceIte, pure_bind'] at h
        exact key toks h
    · cases h; exact ⟨xs, rfl, rfl, hall⟩


/-- the node the parser makes of `.flex` is an array of elements of the right shape -/
theorem flex_init2_shape (hoe : subOk e = true) {f : Nat} {toks : List ITok} {c' : Init} {toks' : List ITok}
    (h : initializer2 f (.array e n) toks .flex = .ok (c', toks')) : ∃ xs, c' = .arr xs ∧ shapedAll e xs = true := by
  have arr2 : ∀ f1, arrayInit2 f1 e toks .flex 0 = .ok (c', toks') → ∃ xs, c' = .arr xs ∧ shapedAll e xs = true := by
    intro f1 h2
    cases f1 with
    | zero => cases h2
    | succ f1 =>
      rw [arrayInit2] at h2
      obtain ⟨c0, hcount, hloop⟩ := bind_eq_ok h2
      obtain ⟨len, hlen, hc0⟩ := bind_eq_ok hcount
      cases hc0
      simp only [newInit] at hloop
      obtain ⟨xs, h1, _, h3⟩ := arr2loop_shape hoe f1 toks _ 0 c' toks' (shapedAll_replicate_zero e hoe len) hloop
      exact ⟨xs, h1, h3⟩
  have strc : ∀ (bytes : List Nat) (esz : Nat) (r : List ITok), e.isInteger = true →
      stringInitializer e bytes esz r .flex = .ok (c', toks') → ∃ xs, c' = .arr xs ∧ shapedAll e xs = true := by
    intro bytes esz r hint h
    have hp' : stringInitializer e bytes esz r (newInit (.array e (bytes.length / esz)) false) = .ok (c', toks') := by
      unfold stringInitializer at h ⊢
      simpa [newInit] using h
    have hz : shaped (.array e (bytes.length / esz)) (newInit (.array e (bytes.length / esz)) false) = true :=
      shaped_newInit _ (by simpa [subOk] using hoe)
    obtain ⟨_, _, _, h4⟩ := stringInitializer_spec hz (hasExpr_newInit _ false) hint hp'
    obtain ⟨xs, rfl, _, hx⟩ := arr_of_shaped h4
    exact ⟨xs, rfl, hx⟩
  cases f with
  | zero => cases h
  | succ f =>
    rw [init2_array_unfold] at h
    split at h
    · rename_i id bytes esz r
      split at h
      · rename_i hint
        exact strc bytes esz r hint h
      · exact arr2 f h
    · rename_i r
      split at h
      · rename_i id bytes esz rest hbs
        obtain ⟨_, _, _, hi, _⟩ := bracedStr_some hbs
        exact strc bytes esz rest (isIntNotBool_isInteger hi) h
      cases f with
      | zero => cases h
      | succ f1 =>
        rw [arrayInit1] at h
        simp only [skipTok, ↓reduceIte, ok_bind] at h
        obtain ⟨c0, hcount, hloop⟩ := bind_eq_ok h
        obtain ⟨len, hlen, hc0⟩ := bind_eq_ok hcount
        cases hc0
        have hz : shaped (.array e len) (newInit (.array e len) false) = true := shaped_newInit _ (by simpa [subOk] using hoe)
        obtain ⟨hs', _⟩ := (sim_all f1).arr1loop (by simpa [subOk] using hoe) hz hloop
        obtain ⟨xs, rfl, _, hx⟩ := arr_of_shaped hs'
        exact ⟨xs, rfl, hx⟩
    · exact arr2 f h

/-- `modifyAt` at the flexible member itself -/
theorem modifyAt_flex_mem (hF : FlexTy ms k mik e n) (f : Ty → Init → Except Fail Init) {eo : Option Expr} {cs : List Init} {ck : Init}
    (hk : cs[k]? = some ck) :
    modifyAt (.struct ms sz true) true f (.struct ms sz true) [] [k] (.struct eo cs) =
      (f (.array e n) ck >>= fun v => pure (.struct none (cs.set k v))) := by
  unfold modifyAt
  simp only [hF.mem, getD_of_getElem? hk]
  unfold modifyAt
  rfl

/-- the region tests at the untouched flexible member -/
theorem flex_untouched {eo : Option Expr} {cs : List Init} (hk : cs[k]? = some .flex) :
    touched (.struct eo cs) [k] = false ∧ switchesUnion (.struct eo cs) [k] = false ∧
      exprAbove (.struct eo cs) [k] = hasAggExpr (.struct eo cs) := by
  have hk1 : (Init.struct eo cs).children[k]? = some .flex := by simpa [Init.children] using hk
  have hn1 : ∀ e' m cs', Init.struct eo cs ≠ .union e' (some m) cs' := by intro _ _ _ h; cases h
  refine ⟨?_, ?_, ?_⟩
  · rw [touched_other [] hk1 hn1, touched]; rfl
  · rw [switchesUnion_other [] hk1 hn1, switchesUnion]
  · rw [exprAbove_cons [] hk1, exprAbove]; simp

/-- `{ … }` for the flexible member: the list of an array of unknown bound -/
theorem initItem_brace_flex (hF : FlexTy ms k mik e n) (g : Nat) (obj : Init) (inner : List ITok) (fl : Flags)
    (hbl : bracedLit (.inc e) inner = none) :
    initItem g (.struct ms sz true) true obj [[k]] (.lbrace :: inner) fl =
      (initList g (.inc e) false (.arr []) (some [0]) inner true Flags.none >>= fun sub =>
        modifyAt (.struct ms sz true) true (fun _ _ => pure (unflex sub.obj)) (.struct ms sz true) [] [k] obj >>= fun obj' =>
          initList g (.struct ms sz true) true obj' (next (.struct ms sz true) true [k]) sub.rest false
            ((fl.join ⟨touched obj [k], exprAbove obj [k], false, false⟩).join sub.fl)) := by
  unfold initItem initItemWith
  simp only [hF.sub_mem, hF.grow, ↓reduceIte, pure_bind', hbl]
  have h1 : braceStart (.inc e) = .arr [] := rfl
  have h2 : firstCursor (.inc e) = some [0] := rfl
  rw [h1, h2]
  cases initList g (.inc e) false (.arr []) (some [0]) inner true Flags.none with
  | error err => rfl
  | ok sub =>
    simp only [ok_bind, List.any_cons, List.any_nil, Bool.or_false, List.length_singleton, Nat.lt_irrefl, decide_false,
      List.foldlM_cons, List.foldlM_nil, defaultMember]
    cases modifyAt (.struct ms sz true) true (fun _ _ => pure (unflex sub.obj)) (.struct ms sz true) [] [k] obj <;> rfl

/-- p14/p15 for the flexible member: `{ "…" }` is the literal alone -/
theorem initItem_bracedLit_flex (hF : FlexTy ms k mik e n) (g : Nat) (obj : Init) (inner : List ITok) (fl : Flags)
    {tok : ITok} {r : List ITok} (hbl : bracedLit (.inc e) inner = some (tok, r)) :
    initItem g (.struct ms sz true) true obj [[k]] (.lbrace :: inner) fl =
      initItem g (.struct ms sz true) true obj [[k]] (tok :: r) fl := by
  obtain ⟨id, bytes, esz, rfl⟩ := bracedLit_str hbl
  unfold initItem initItemWith
  simp only [hF.sub_mem, hF.grow, ↓reduceIte, pure_bind', hbl]

theorem flags_untouched {eo : Option Expr} {cs : List Init} (hk : cs[k]? = some .flex) (he : eo = none) (fl : Flags) (b : Bool)
    (hb : b = false) :
    fl.join ⟨b || touched (.struct eo cs) [k], exprAbove (.struct eo cs) [k], false, false⟩ = fl := by
  obtain ⟨h1, _, h3⟩ := flex_untouched (eo := eo) hk
  subst he hb
  rw [h1, h3]
  exact Flags.join_false fl

/-- elided braces: the rest of the struct's list belongs to the flexible array -/
theorem flex_elided (hF : FlexTy ms k mik e n) {cs : List Init} (hcs : shapedFlexMs ms cs = true) (hk : cs[k]? = some .flex)
    {f : Nat} {toks : List ITok} {c' : Init} {toks' : List ITok} (h : arrayInit2 f e toks .flex 0 = .ok (c', toks'))
    (hne : ∀ tok r, toks = tok :: r → tok ≠ .lbrace ∧ stopsAt (.array e n) tok = false) :
    ∀ g fl res, initItem g (.struct ms sz true) true (.struct none cs) [[k]] toks fl = .ok res → res.fl.clean = true →
      ∃ g', initList g' (.struct ms sz true) true (.struct none (cs.set k c')) none toks' false fl = .ok res := by
  intro g fl res hres hcl
  have hklt := hF.k_lt hcs
  cases toks with
  | nil => rw [initItem_nil] at hres; cases hres
  | cons tok r =>
  obtain ⟨hb, hst⟩ := hne tok r rfl
  by_cases hsa : startable tok = false
  · obtain ⟨err, he⟩ := initItem_not_startable g (.struct ms sz true) true (.struct none cs) [k] tok r fl hsa
    rw [he] at hres; cases hres
  have hsa' : startable tok = true := by simpa using hsa
  have hnd : isDesg (tok :: r) = false := startable_not_isDesg hsa'
  have hnend : isEnd (tok :: r) = false := startable_not_isEnd hsa'
  have hnbr : isBracket (tok :: r) = false := by cases tok <;> simp_all [startable, isBracket]
  cases f with
  | zero => cases h
  | succ f1 =>
  rw [arrayInit2] at h
  obtain ⟨c0, hcount, hloop⟩ := bind_eq_ok h
  obtain ⟨len, hlen, hc0⟩ := bind_eq_ok hcount
  cases hc0
  cases f1 with
  | zero => cases hlen
  | succ f2 =>
  rw [countArrayInit] at hlen
  obtain ⟨N, hN, hlen⟩ := bind_eq_ok hlen
  cases hlen
  have hN0 : 0 ≤ N := countLoop_ge e _ _ _ _ _ _ _ hN
  have hd0 : shaped e (newInit e true) = true := by rw [newInit_true_eq e hF.elem]; exact shaped_newInit e hF.elem
  -- the first element
  cases f2 with
  | zero => cases hN
  | succ f3 =>
  have hce : consumeEnd (tok :: r) = none := consumeEnd_none_of_isEnd hnend
  have hcs' := countLoop_step (i := 0) (mx := 0) hce (show (if true = true then pure (tok :: r) else skipTok ITok.comma "," (tok :: r)) = .ok (tok :: r) from rfl) hN
  obtain ⟨d', t, hdd, hc⟩ : ∃ d' t, initializer2 f3 e (tok :: r) (newInit e true) = .ok (d', t) ∧
      countLoop f3 e t d' ((0 : Int) + 1) (max (0 : Int) ((0 : Int) + 1)) false = .ok N := by
    rcases hcs' with ⟨a, r', d', t, heq, _, _⟩ | ⟨a, b, r', d', t, heq, _, _⟩ | ⟨_, d', t, h3, h4⟩
    · cases heq; simp [isBracket] at hnbr
    · cases heq; simp [isBracket] at hnbr
    · exact ⟨d', t, h3, h4⟩
  have hN1 : (1 : Int) ≤ N := by
    have := countLoop_ge e _ _ _ _ _ _ _ hc
    have e2 : max (0 : Int) ((0 : Int) + 1) = 1 := rfl
    omega
  simp only [newInit] at hloop
  have hxl : (List.replicate N.toNat (newInit e false)).length = N.toNat := List.length_replicate
  have hall := shapedAll_replicate_zero e hF.elem N.toNat
  generalize hxs : List.replicate N.toNat (newInit e false) = xs at hloop hxl hall
  have hzero : ∀ j, j < xs.length → xs[j]? = some (zeroOf e) := by
    intro j hj; subst hxs; simp only [List.length_replicate] at hj; simp [hj, zeroOf]
  rw [arrayInit2Loop] at hloop
  have hpos : 0 < xs.length := by omega
  simp only [Init.children, hpos, decide_true, hnend, Bool.not_false, Bool.and_self, ↓reduceIte, Nat.lt_irrefl, pure_bind', hnd,
    Bool.false_eq_true, gt_iff_lt] at hloop
  obtain ⟨x0, hx0, hloop⟩ := bind_eq_ok hloop
  obtain ⟨⟨x0', toks2⟩, hinit, hloop⟩ := bind_eq_ok hloop
  simp only [Init.setChild, Init.withChildren, Init.children] at hloop
  have hk0 : xs[0]? = some x0 := getChild_ok hx0
  have hx0z : x0 = zeroOf e := by have := hzero 0 hpos; rw [hk0] at this; cases this; rfl
  -- the specification: descend to element 0, grow, one element
  have hfs : firstSub (.struct ms sz true) true [k] (.array e n) = some 0 := by simp [firstSub, hF.grow]
  have h0 := initItem_descend_step (g := g) (obj := .struct none cs) (r := r) (fl := fl) hb (hF.sub_mem (sz := sz)) hst hfs
  have hres1 := h0 res hres hcl
  simp only [List.cons_append, List.nil_append] at hres1
  rw [pregrow_flex_item hF g hk (Or.inl rfl) 0 (tok :: r) fl] at hres1
  have hpad : padI (elemsOf Init.flex) 0 (zeroOf e) = [zeroOf e] := rfl
  rw [hpad] at hres1
  have hcs1 : shapedFlexMs ms (cs.set k (.arr [zeroOf e])) = true :=
    hF.shaped_set hcs (by simp [shapedAll, zeroOf, shaped_newInit e hF.elem])
  have hAt := At.flexElem (sz := sz) (eo := none) hF hcs1 (xs := [zeroOf e]) (by simp [hklt]) (i := 0) (xi := x0) (by simp [hx0z])
  obtain ⟨hsi, himp⟩ := (sim_all (f3 + 1)).init2 hAt hinit
  obtain ⟨g1, h1'⟩ := himp g fl
  have hsp := h1' res hres1 hcl
  simp only [After, List.reverse_cons, List.reverse_nil, List.nil_append, List.cons_append] at hsp
  rw [setAtM_flexElem hklt, hF.next_elem] at hsp
  obtain ⟨htt, _⟩ := consume_indep_init2 (sm_of_shaped hF.elem hd0 hAt.shapedc) hdd hinit
  subst htt
  have hsd' : shaped e d' = true := ((sim_all f3).init2 (top := true) (At.root hF.elem hd0) hdd).1
  have e2 : max (0 : Int) ((0 : Int) + 1) = ((1 : Nat) : Int) := rfl
  have e1 : (0 : Int) + 1 = ((1 : Nat) : Int) := rfl
  rw [e2, e1] at hc
  have htk : (xs.set 0 x0').take 1 = [x0'] := by
    cases xs with
    | nil => simp at hpos
    | cons a as => simp
  have hset : [zeroOf e].set 0 x0' = [x0'] := rfl
  rw [hset, ← htk] at hsp
  obtain ⟨xs', h1, h2, g', h3⟩ := flexLoop hF hcs (f3 + 1) f3 (xs.set 0 x0') t 1 c' toks' d' N g1 fl res Nat.one_pos hloop hc hsd'
    (shapedAll_set e xs 0 x0' hall hsi) (by simp only [List.length_set]; omega) (by simp only [List.length_set]; omega)
    (fun j hj hjl => by
      simp only [List.length_set] at hjl
      rw [List.getElem?_set_ne (by omega)]
      exact hzero j hjl)
    hsp hcl
  subst h1
  exact ⟨g', h3⟩

/-- **the first initializer of the flexible member** (`initializer2` on the node `.flex`): a string literal, a brace-enclosed
    list (sized by `count_array_init_elements` over the list: `incLoop`), or elided braces (sized over the rest of the struct's
    list: `flexLoop`) -/
theorem flex_init2 (hF : FlexTy ms k mik e n) {cs : List Init} (hcs : shapedFlexMs ms cs = true) (hk : cs[k]? = some .flex)
    {f : Nat} {toks : List ITok} {c' : Init} {toks' : List ITok} (h : initializer2 f (.array e n) toks .flex = .ok (c', toks')) :
    ∀ g fl res, initItem g (.struct ms sz true) true (.struct none cs) [[k]] toks fl = .ok res → res.fl.clean = true →
      ∃ g', initList g' (.struct ms sz true) true (.struct none (cs.set k c')) none toks' false fl = .ok res := by
  intro g fl res hres hcl
  cases f with
  | zero => cases h
  | succ f =>
  have strc : ∀ (id : Nat) (bytes : List Nat) (esz : Nat) (r : List ITok), e.isInteger = true →
      stringInitializer e bytes esz r .flex = .ok (c', toks') →
      initItem g (.struct ms sz true) true (.struct none cs) [[k]] (.str id bytes esz :: r) fl = .ok res →
      ∃ g', initList g' (.struct ms sz true) true (.struct none (cs.set k c')) none toks' false fl = .ok res := by
    intro id bytes esz r hint h hres
    · have hp' : stringInitializer e bytes esz r (newInit (.array e (bytes.length / esz)) false) = .ok (c', toks') := by
        unfold stringInitializer at h ⊢
        simpa [newInit] using h
      have hz : shaped (.array e (bytes.length / esz)) (newInit (.array e (bytes.length / esz)) false) = true :=
        shaped_newInit _ (by simpa [subOk] using hF.elem)
      obtain ⟨h1, h2, h3, _⟩ := stringInitializer_spec hz (hasExpr_newInit _ false) hint hp'
      subst h1
      rw [initItem_stop (by intro hh; cases hh) (hF.sub_mem (sz := sz)) (show stopsAt (.array e n) (.str id bytes esz) = true from h2),
        modifyAt_flex_mem hF _ hk] at hres
      have hst : storeTok (.struct ms sz true) true (.str id bytes esz) [k] (.array e n) .flex = .ok c' := by
        simp only [storeTok, hF.grow, ↓reduceIte]
        rw [stringValue_none_eq]; exact h3
      rw [hst] at hres
      simp only [ok_bind, pure_bind', tokFlags, isStrTok, hF.sub_mem, Bool.true_and, List.reverse_cons, List.reverse_nil,
        List.nil_append] at hres
      obtain ⟨t1, t2, t3⟩ := flex_untouched (eo := none) hk
      rw [t1, t2, t3, hF.next_mem] at hres
      have : fl.join ⟨false || false, hasAggExpr (.struct none cs), false, false⟩ = fl := Flags.join_false fl
      rw [this] at hres
      exact ⟨g, hres⟩
  rw [init2_array_unfold] at h
  split at h
  · rename_i id bytes esz r
    split at h
    · -- a string literal for an array of character type
      rename_i hint
      exact strc id bytes esz r hint h hres
    · -- a string literal for an array of another type: an expression for its first scalar
      rename_i hint
      refine flex_elided hF hcs hk h (fun tok r' heq => ?_) g fl res hres hcl
      cases heq
      exact ⟨(by intro hh; cases hh), (by simp [stopsAt, strFits, hint])⟩
  · -- `{ … }`
    rename_i inner
    split at h
    · -- p14/p15: a string literal in braces: the literal alone
      rename_i id bytes esz rest hbs
      obtain ⟨_, _, _, hi, _⟩ := bracedStr_some hbs
      have hbl := bracedLit_of_bracedStr (t := .inc e) rfl hbs
      rw [initItem_bracedLit_flex hF _ _ _ _ hbl] at hres
      exact strc id bytes esz rest (isIntNotBool_isInteger hi) h hres
    rename_i hbs
    have hbl := bracedLit_none_of_bracedStr (t := .inc e) rfl hbs
    cases f with
    | zero => cases h
    | succ f1 =>
    rw [arrayInit1] at h
    simp only [skipTok, ↓reduceIte, ok_bind] at h
    obtain ⟨c0, hcount, hloop⟩ := bind_eq_ok h
    obtain ⟨len, hlen, hc0⟩ := bind_eq_ok hcount
    cases hc0
    cases f1 with
    | zero => cases hlen
    | succ f2 =>
    rw [countArrayInit] at hlen
    obtain ⟨N, hN, hlen⟩ := bind_eq_ok hlen
    cases hlen
    have hN0 : 0 ≤ N := countLoop_ge e _ _ _ _ _ _ _ hN
    rw [initItem_brace_flex hF _ _ _ _ hbl] at hres
    obtain ⟨sub, hsub, hres⟩ := bind_eq_ok hres
    obtain ⟨obj', hmod, hfin⟩ := bind_eq_ok hres
    have hfl := initList_clean _ _ _ _ _ _ _ _ _ hfin hcl
    obtain ⟨_, hsubcl⟩ := Flags.clean_join hfl
    have hd : shaped e (newInit e true) = true := by rw [newInit_true_eq e hF.elem]; exact shaped_newInit e hF.elem
    simp only [newInit] at hloop
    obtain ⟨cs', h1, h2, h3, h4, h5⟩ := incLoop e hF.elem false (f2+1) f2 (List.replicate N.toNat (newInit e false)) inner 0 true c' toks'
      (newInit e true) 0 N 0 _ Flags.none sub hloop (by simpa using hN) hd (shapedAll_replicate_zero e hF.elem N.toNat)
      (by simp; omega) rfl (Nat.zero_le _)
      (fun j _ hj => by simp only [List.length_replicate] at hj; simp [hj, zeroOf])
      (by simpa using hsub) hsubcl
    simp only [List.length_replicate] at h2
    subst h1
    rw [h3, ← h2, List.take_length] at hmod
    rw [modifyAt_flex_mem hF _ hk] at hmod
    simp only [unflex, pure_bind'] at hmod
    cases hmod
    obtain ⟨t1, _, t3⟩ := flex_untouched (eo := none) hk
    rw [h4, h5, t1, t3, hF.next_mem, Flags.join_none] at hfin
    have : fl.join ⟨false, hasAggExpr (.struct none cs), false, false⟩ = fl := Flags.join_false fl
    rw [this] at hfin
    exact ⟨g, hfin⟩
  · -- elided braces
    rename_i hn1 hn2
    refine flex_elided hF hcs hk h (fun tok r' heq => ?_) g fl res hres hcl
    subst heq
    refine ⟨fun hh => ?_, ?_⟩
    · subst hh; exact hn2 _ rfl
    · cases tok <;> first | rfl | exact absurd rfl (hn1 _ _ _ _)

/-! ### region `FlexReinit` -/

theorem reinitAt_first (hF : FlexTy ms k mik e n) {eo : Option Expr} {cs : List Init} (hk : cs[k]? = some .flex) (d : Bool)
    (ps : List (List Nat)) : reinitAt (.struct ms sz true) true (.struct eo cs) d ps = false := by
  unfold reinitAt
  rw [hF.flexIdx]
  cases ps with
  | nil => rfl
  | cons p ps =>
    cases p with
    | nil => rfl
    | cons j q => simp [Init.children, hk]

theorem reinitAt_other (hF : FlexTy ms k mik e n) (obj : Init) (d : Bool) {j : Nat} (hj : j ≠ k) (q : List Nat) (ps : List (List Nat)) :
    reinitAt (.struct ms sz true) true obj d ((j :: q) :: ps) = false := by
  unfold reinitAt
  rw [hF.flexIdx]
  simp [hj]

theorem reinitAt_again (hF : FlexTy ms k mik e n) {eo : Option Expr} {cs : List Init} {xs : List Init} (hk : cs[k]? = some (.arr xs))
    (d : Bool) (q : List Nat) (ps : List (List Nat)) (hd : d = true ∨ q = []) :
    reinitAt (.struct ms sz true) true (.struct eo cs) d ((k :: q) :: ps) = true := by
  unfold reinitAt
  rw [hF.flexIdx]
  rcases hd with rfl | rfl <;> simp [Init.children, hk]

/-- a run whose next initializer re-initialises the flexible member lies in the region -/
theorem reinit_dirty {g : Nat} {root : Ty} {top : Bool} {obj : Init} {ps : List (List Nat)} {toks : List ITok} {fl : Flags} {d : Bool}
    {res : Result} (hr : reinitAt root top obj d ps = true)
    (h : initItem g root top obj ps toks (fl.join (reinitFl root top obj d ps)) = .ok res) : res.fl.clean = false := by
  cases hc : res.fl.clean with
  | false => rfl
  | true =>
    have := (Flags.clean_join (initItem_clean h hc)).2
    simp [reinitFl, hr, Flags.clean] at this

theorem reinit_clean_none {root : Ty} {top : Bool} {obj : Init} {ps : List (List Nat)} {d : Bool} (fl : Flags)
    (hr : reinitAt root top obj d ps = false) : fl.join (reinitFl root top obj d ps) = fl := by
  rw [reinitFl_none_of hr, Flags.join_none]

/-- `designation` on the unresolved flexible member: only `=`? followed by the initializer is accepted -/
theorem designation_flex {f : Nat} {r : List ITok} {c' : Init} {t : List ITok}
    (h : designation f (.array e n) r .flex = .ok (c', t)) :
    ∃ f' r', initializer2 f' (.array e n) r' .flex = .ok (c', t) ∧
      (r = .eq :: r' ∨ (r = r' ∧ isDesg r = false ∧ ∀ r'', r ≠ .eq :: r'')) := by
  cases f with
  | zero => cases h
  | succ f =>
    cases r with
    | nil => rw [designation] at h <;> first | exact ⟨f, [], h, Or.inr ⟨rfl, rfl, fun _ hh => by cases hh⟩⟩ | (intros; simp_all)
    | cons tok r0 =>
      cases tok with
      | idx a => rw [designation] at h; simp [Ty.elem?] at h
      | range a b => rw [designation] at h; simp [Ty.elem?] at h
      | dot nm => rw [designation] at h <;> first | cases h | (intros; simp_all)
      | eq => rw [designation] at h; exact ⟨f, r0, h, Or.inl rfl⟩
      | lbrace => rw [designation] at h <;> first | exact ⟨f, _, h, Or.inr ⟨rfl, rfl, fun _ hh => by cases hh⟩⟩ | (intros; simp_all)
      | rbrace => rw [designation] at h <;> first | exact ⟨f, _, h, Or.inr ⟨rfl, rfl, fun _ hh => by cases hh⟩⟩ | (intros; simp_all)
      | comma => rw [designation] at h <;> first | exact ⟨f, _, h, Or.inr ⟨rfl, rfl, fun _ hh => by cases hh⟩⟩ | (intros; simp_all)
      | expr ex => rw [designation] at h <;> first | exact ⟨f, _, h, Or.inr ⟨rfl, rfl, fun _ hh => by cases hh⟩⟩ | (intros; simp_all)
      | str id bytes esz => rw [designation] at h <;> first | exact ⟨f, _, h, Or.inr ⟨rfl, rfl, fun _ hh => by cases hh⟩⟩ | (intros; simp_all)

/-! ### the struct's own list -/

theorem FlexTy.findMember_root (hF : FlexTy ms k mik e n) {name : String} {mp : List Nat} (h : findMemberMs ms name 0 = some mp) :
    findMember (.struct ms sz true) name = some mp := by rw [findMember]; exact h

/-- the first `.name =`-designated initializer of the flexible member -/
theorem flex_desg (hF : FlexTy ms k mik e n) {cs : List Init} (hcs : shapedFlexMs ms cs = true) (hk : cs[k]? = some .flex)
    {f : Nat} {r : List ITok} {c' : Init} {toks' : List ITok} (h : designation f (.array e n) r .flex = .ok (c', toks')) :
    (∃ xs, c' = .arr xs ∧ shapedAll e xs = true) ∧
    ∀ g d fl res, (desigPaths (.struct ms sz true) true (d + 1) [[k]] r >>= fun pt =>
        initItem g (.struct ms sz true) true (.struct none cs) pt.1 pt.2
          (fl.join (reinitFl (.struct ms sz true) true (.struct none cs) true pt.1))) = .ok res → res.fl.clean = true →
      ∃ g', initList g' (.struct ms sz true) true (.struct none (cs.set k c')) none toks' false fl = .ok res := by
  obtain ⟨f', r', hinit, hr⟩ := designation_flex h
  refine ⟨flex_init2_shape hF.elem hinit, fun g d fl res hres hcl => ?_⟩
  have key : (initItem g (.struct ms sz true) true (.struct none cs) [[k]] r'
      (fl.join (reinitFl (.struct ms sz true) true (.struct none cs) true [[k]]))) = .ok res := by
    rcases hr with rfl | ⟨rfl, hnd, hne⟩
    · rw [desigPaths_eq] at hres; exact hres
    · rw [desigPaths_plain _ _ _ _ _ hnd hne] at hres; exact hres
  rw [reinit_clean_none fl (reinitAt_first hF hk true _)] at key
  exact flex_init2 hF hcs hk hinit g fl res key hcl

theorem flex_struct1loop (hF : FlexTy ms k mik e n) : ∀ (f : Nat) (cs : List Init) (toks : List ITok) (mem : Nat) (first : Bool)
    (c' : Init) (rest : List ITok), shapedFlexMs ms cs = true →
    structInit1Loop f ms toks (.struct none cs) mem first = .ok (c', rest) →
    (∃ cs', c' = .struct none cs' ∧ shapedFlexMs ms cs' = true) ∧
    ∀ g fl res, initList g (.struct ms sz true) true (.struct none cs) (cursorIn (.struct ms sz true) true [] mem) toks first fl
        = .ok res → res.fl.clean = true → res.obj = c' ∧ res.rest = rest ∧ res.fl = fl
  | 0, _, _, _, _, _, _, _, h => by cases h
  | f+1, cs, toks, mem, first, c', rest, hcs, h => by
    have hklt := hF.k_lt hcs
    have hlen := shapedFlexMs_length ms cs hcs
    rw [structInit1Loop] at h
    cases hce : consumeEnd toks with
    | some rest0 =>
      simp only [hce] at h
      cases h
      refine ⟨⟨cs, rfl, hcs⟩, fun g fl res hres _ => ?_⟩
      cases g with
      | zero => cases hres
      | succ g => rw [initList_end _ _ _ _ _ _ _ _ _ hce] at hres; cases hres; exact ⟨rfl, rfl, rfl⟩
    | none =>
      simp only [hce] at h
      rw [ite_bind_pull] at h
      obtain ⟨toks1, hfirst, h⟩ := bind_eq_ok h
      split at h
      · -- `.name` designator
        rename_i name r
        obtain ⟨⟨j, anon⟩, hsd, h⟩ := bind_eq_ok h
        obtain ⟨mty, hmty, h⟩ := bind_eq_ok h
        obtain ⟨cj, hcj, h⟩ := bind_eq_ok h
        obtain ⟨⟨cj', tok2⟩, hd, h⟩ := bind_eq_ok h
        simp only at hmty hcj hd h
        obtain ⟨mi, hm⟩ := memTy_ok hmty
        have hkj : cs[j]? = some cj := by simpa [Init.children] using getChild_ok hcj
        obtain ⟨j', mi', t', hjj, hmj, hcase⟩ := structDesignator_spec name ms 0 j anon hsd
        have hjj' : j = j' := by omega
        subst hjj'
        rw [hm] at hmj
        cases hmj
        simp only [Init.setChild, Init.withChildren, Init.children] at h
        by_cases hjk : j = k
        · -- the flexible member
          have hjk' := hjk.symm
          subst hjk'
          have hty : mty = .array e n := by have := hF.mem; rw [hm] at this; cases this; rfl
          subst hty
          have hanon : anon = false ∧ findMemberMs ms name 0 = some [k] := by
            rcases hcase with ⟨ha, hfm⟩ | ⟨_, hagg, _⟩
            · exact ⟨ha, hfm⟩
            · simp [Ty.isAgg] at hagg
          obtain ⟨ha, hfm⟩ := hanon
          subst ha
          simp only [Bool.false_eq_true, ↓reduceIte] at hd
          have hspec : ∀ g fl res, initList (g+1) (.struct ms sz true) true (.struct none cs)
              (cursorIn (.struct ms sz true) true [] mem) toks first fl = .ok res →
              (desigPaths (.struct ms sz true) true (r.length + 1) [[k]] r >>= fun pt =>
                initItem g (.struct ms sz true) true (.struct none cs) pt.1 pt.2
                  (fl.join (reinitFl (.struct ms sz true) true (.struct none cs) true pt.1))) = .ok res := by
            intro g fl res hres
            rw [initList_item _ _ _ _ _ _ _ _ hce, hfirst, ok_bind] at hres
            simp only [pathsOf, isDesg, ↓reduceIte, List.length_cons] at hres
            rw [desigPaths_dot (p := []) (t := .struct ms sz true) _ r rfl (hF.findMember_root hfm) rfl] at hres
            exact hres
          rcases shapedFlexMs_get ms cs k mi _ cj hcs hm hkj with ⟨h1, _⟩ | ⟨_, e', n', heq, hnode⟩
          · exact absurd hF.last h1
          · cases heq
            rcases hnode with rfl | ⟨xs, rfl, hx⟩
            · -- its first initializer
              obtain ⟨⟨xs', hx1, hx2⟩, himp1⟩ := flex_desg (sz := sz) hF hcs hkj hd
              subst hx1
              have hcs1 : shapedFlexMs ms (cs.set k (.arr xs')) = true := hF.shaped_set hcs hx2
              obtain ⟨hshape, himp2⟩ := flex_struct1loop hF f (cs.set k (.arr xs')) tok2 (k + 1) false c' rest hcs1 h
              refine ⟨hshape, fun g fl res hres hcl => ?_⟩
              cases g with
              | zero => cases hres
              | succ g =>
                obtain ⟨g', h1⟩ := himp1 g r.length fl res (hspec g fl res hres) hcl
                have hcur : cursorIn (.struct ms sz true) true [] (k + 1) = none := by
                  rw [← next_snoc (.struct ms sz true) true [] k]; exact hF.next_mem true
                rw [← hcur] at h1
                exact himp2 g' fl res h1 hcl
            · -- initialised before: region FlexReinit
              rw [designation_array_len f e n xs.length] at hd
              obtain ⟨hs', _⟩ := (sim_all f).desg (top := false) (At.root (by simpa [subOk] using hF.elem)
                (show shaped (.array e xs.length) (.arr xs) = true by simp [shaped, hx])) hd
              obtain ⟨xs', hx1, _, hx2⟩ := arr_of_shaped hs'
              subst hx1
              have hcs1 : shapedFlexMs ms (cs.set k (.arr xs')) = true := hF.shaped_set hcs hx2
              obtain ⟨hshape, _⟩ := flex_struct1loop hF f (cs.set k (.arr xs')) tok2 (k + 1) false c' rest hcs1 h
              refine ⟨hshape, fun g fl res hres hcl => ?_⟩
              exfalso
              cases g with
              | zero => cases hres
              | succ g =>
                have h2 := hspec g fl res hres
                obtain ⟨⟨ps, t⟩, hdp, hitem⟩ := bind_eq_ok h2
                obtain ⟨hl, hpre⟩ := desigPaths_inv _ _ _ _ _ _ _ hdp
                cases ps with
                | nil => simp at hl
                | cons p0 ps =>
                  obtain ⟨p, hp, q, rfl⟩ := hpre p0 (by simp)
                  simp only [List.mem_singleton] at hp
                  subst hp
                  have := reinit_dirty (reinitAt_again hF hkj true q ps (Or.inl rfl)) hitem
                  rw [hcl] at this; cases this
        · -- an ordinary member
          have hAj := At.flexMem (sz := sz) (eo := none) hF hcs hm hkj hjk
          obtain ⟨hsj, himp1⟩ := (sim_all f).desg hAj hd
          have hj1 : j + 1 ≠ ms.length := by have := hF.last; omega
          have hcs1 : shapedFlexMs ms (cs.set j cj') = true := shapedFlexMs_set ms cs j mi mty cj' hcs hm (Or.inl ⟨hj1, hsj⟩)
          obtain ⟨hshape, himp2⟩ := flex_struct1loop hF f (cs.set j cj') tok2 (j + 1) false c' rest hcs1 h
          refine ⟨hshape, fun g fl res hres hcl => ?_⟩
          cases g with
          | zero => cases hres
          | succ g =>
            replace hres := initList_item_imp _ _ _ _ _ _ _ _ hce hres hcl
            rw [hfirst, ok_bind] at hres
            simp only [pathsOf, isDesg, ↓reduceIte, List.length_cons] at hres
            have fin : ∀ g1, After (.struct ms sz true) true (.struct none cs) [j] cj' tok2 fl g1 = .ok res →
                res.obj = c' ∧ res.rest = rest ∧ res.fl = fl := by
              intro g1 hh
              simp only [After, List.reverse_cons, List.reverse_nil, List.nil_append] at hh
              have hnx := next_snoc (.struct ms sz true) true [] j
              simp only [List.reverse_nil] at hnx
              rw [hnx, setAtM_one_struct] at hh
              exact himp2 g1 fl res hh hcl
            rcases hcase with ⟨ha, hfm⟩ | ⟨ha, hagg, mp, hfm1, hfm⟩
            · subst ha
              rw [desigPaths_dot (p := []) (t := .struct ms sz true) _ r rfl (hF.findMember_root hfm) rfl] at hres
              obtain ⟨g1, h1⟩ := himp1 g (r.length + 1) fl
              simp only [Bool.false_eq_true, ↓reduceIte] at h1
              exact fin g1 (h1 res hres hcl)
            · subst ha
              rw [desigPaths_dot (p := []) (t := .struct ms sz true) _ r rfl (hF.findMember_root hfm) rfl] at hres
              obtain ⟨g1, h1⟩ := himp1 g ((r.length + 1) + 1) fl
              simp only [↓reduceIte] at h1
              rw [desigPaths_dot (p := [j]) _ r hAj.sub hfm1 hagg] at h1
              simp only [List.nil_append, List.cons_append] at h1 hres
              exact fin g1 (h1 res hres hcl)
      · -- positional
        rename_i hnd
        split at h
        · rename_i hlt
          obtain ⟨mty, hmty, h⟩ := bind_eq_ok h
          obtain ⟨cm, hcm, h⟩ := bind_eq_ok h
          obtain ⟨⟨cm', toks2⟩, hinit, h⟩ := bind_eq_ok h
          simp only at h
          obtain ⟨mi, hm⟩ := memTy_ok hmty
          generalize hj : skipUnnamedBf ms ms.length mem = j at *
          have hkj : cs[j]? = some cm := by simpa [Init.children] using getChild_ok hcm
          simp only [Init.setChild, Init.withChildren, Init.children] at h
          have hnn : nextNamed ms ms.length mem = some j := by
            have := skipUnnamedBf_spec ms ms.length mem (by omega)
            rw [hj] at this
            simpa [hlt] using this
          have hcur : cursorIn (.struct ms sz true) true [] mem = some [j] := by
            rw [cursorIn_struct_root, hnn]; rfl
          have hbr : ∀ (g : Nat) (fl : Flags), isDesg toks1 = true → ∃ err, (pathsOf (.struct ms sz true) true (some [j]) toks1 >>= fun pt =>
              initItem g (.struct ms sz true) true (.struct none cs) pt.1 pt.2
                (fl.join (reinitFl (.struct ms sz true) true (.struct none cs) (isDesg toks1) pt.1))) = .error err := by
            intro g fl hdg
            obtain ⟨e', he'⟩ := desigPaths_bracket_struct ms sz true true (toks1.length + 1) toks1 (isDesg_not_dot hdg hnd)
            exact ⟨e', by simp only [pathsOf, hdg, ↓reduceIte, he']; rfl⟩
          have hspec : ∀ g fl res, initList (g+1) (.struct ms sz true) true (.struct none cs)
              (cursorIn (.struct ms sz true) true [] mem) toks first fl = .ok res →
              initItem g (.struct ms sz true) true (.struct none cs) [[j]] toks1
                (fl.join (reinitFl (.struct ms sz true) true (.struct none cs) false [[j]])) = .ok res := by
            intro g fl res hres
            rw [initList_item _ _ _ _ _ _ _ _ hce, hfirst, ok_bind, hcur] at hres
            by_cases hdg : isDesg toks1 = true
            · obtain ⟨err, he⟩ := hbr g fl hdg
              rw [he] at hres; cases hres
            · have hdg' : isDesg toks1 = false := by simpa using hdg
              simp only [pathsOf, hdg', Bool.false_eq_true, ↓reduceIte, pure_bind'] at hres
              exact hres
          by_cases hjk : j = k
          · have hjk' := hjk.symm
            subst hjk'
            have hty : mty = .array e n := by have := hF.mem; rw [hm] at this; cases this; rfl
            subst hty
            rcases shapedFlexMs_get ms cs k mi _ cm hcs hm hkj with ⟨h1, _⟩ | ⟨_, e', n', heq, hnode⟩
            · exact absurd hF.last h1
            · cases heq
              rcases hnode with rfl | ⟨xs, rfl, hx⟩
              · -- its first initializer
                obtain ⟨xs', hx1, hx2⟩ := flex_init2_shape hF.elem hinit
                subst hx1
                have hcs1 : shapedFlexMs ms (cs.set k (.arr xs')) = true := hF.shaped_set hcs hx2
                obtain ⟨hshape, himp2⟩ := flex_struct1loop hF f (cs.set k (.arr xs')) toks2 (k + 1) false c' rest hcs1 h
                refine ⟨hshape, fun g fl res hres hcl => ?_⟩
                cases g with
                | zero => cases hres
                | succ g =>
                  have h2 := hspec g fl res hres
                  rw [reinit_clean_none fl (reinitAt_first hF hkj false _)] at h2
                  obtain ⟨g', h1⟩ := flex_init2 hF hcs hkj hinit g fl res h2 hcl
                  have hcur' : cursorIn (.struct ms sz true) true [] (k + 1) = none := by
                    rw [← next_snoc (.struct ms sz true) true [] k]; exact hF.next_mem true
                  rw [← hcur'] at h1
                  exact himp2 g' fl res h1 hcl
              · -- initialised before: region FlexReinit
                rw [init2_array_len f e n xs.length] at hinit
                obtain ⟨hs', _⟩ := (sim_all f).init2 (top := false) (At.root (by simpa [subOk] using hF.elem)
                  (show shaped (.array e xs.length) (.arr xs) = true by simp [shaped, hx])) hinit
                obtain ⟨xs', hx1, _, hx2⟩ := arr_of_shaped hs'
                subst hx1
                have hcs1 : shapedFlexMs ms (cs.set k (.arr xs')) = true := hF.shaped_set hcs hx2
                obtain ⟨hshape, _⟩ := flex_struct1loop hF f (cs.set k (.arr xs')) toks2 (k + 1) false c' rest hcs1 h
                refine ⟨hshape, fun g fl res hres hcl => ?_⟩
                exfalso
                cases g with
                | zero => cases hres
                | succ g =>
                  have := reinit_dirty (reinitAt_again hF hkj false [] [] (Or.inr rfl)) (hspec g fl res hres)
                  rw [hcl] at this; cases this
          · -- an ordinary member
            have hAj := At.flexMem (sz := sz) (eo := none) hF hcs hm hkj hjk
            obtain ⟨hsj, himp1⟩ := (sim_all f).init2 hAj hinit
            have hj1 : j + 1 ≠ ms.length := by have := hF.last; omega
            have hcs1 : shapedFlexMs ms (cs.set j cm') = true := shapedFlexMs_set ms cs j mi mty cm' hcs hm (Or.inl ⟨hj1, hsj⟩)
            obtain ⟨hshape, himp2⟩ := flex_struct1loop hF f (cs.set j cm') toks2 (j + 1) false c' rest hcs1 h
            refine ⟨hshape, fun g fl res hres hcl => ?_⟩
            cases g with
            | zero => cases hres
            | succ g =>
              have h2 := hspec g fl res hres
              rw [reinit_clean_none fl (reinitAt_other hF _ false hjk [] [])] at h2
              obtain ⟨g1, h1⟩ := himp1 g fl
              have hh := h1 res h2 hcl
              simp only [After, List.reverse_cons, List.reverse_nil, List.nil_append] at hh
              have hnx := next_snoc (.struct ms sz true) true [] j
              simp only [List.reverse_nil] at hnx
              rw [hnx, setAtM_one_struct] at hh
              exact himp2 g1 fl res hh hcl
        · -- excess
          rename_i hlt
          obtain ⟨toks2, hskip, h⟩ := bind_eq_ok h
          obtain ⟨hshape, himp2⟩ := flex_struct1loop hF f cs toks2 (skipUnnamedBf ms ms.length mem) false c' rest hcs h
          refine ⟨hshape, fun g fl res hres hcl => ?_⟩
          cases g with
          | zero => cases hres
          | succ g =>
            replace hres := initList_item_imp _ _ _ _ _ _ _ _ hce hres hcl
            rw [hfirst, ok_bind] at hres
            by_cases hdg : isDesg toks1 = true
            · simp only [pathsOf, hdg, ↓reduceIte] at hres
              obtain ⟨e', he'⟩ := desigPaths_bracket_struct ms sz true true (toks1.length + 1) toks1 (isDesg_not_dot hdg hnd)
              rw [he'] at hres; cases hres
            · have hnn := skipUnnamedBf_spec ms ms.length mem (by omega)
              simp only [hlt, ↓reduceIte] at hnn
              simp only [pathsOf, hdg, Bool.false_eq_true, ↓reduceIte, cursorIn_struct_root, hnn, Option.map_none, pure_bind'] at hres
              rw [initItem_excess] at hres
              obtain ⟨r', hr', hres⟩ := bind_eq_ok hres
              have := skipExcess_fuel hskip hr'
              subst this
              have hc2 : cursorIn (.struct ms sz true) true [] (skipUnnamedBf ms ms.length mem) = none := by
                have hp : ms[skipUnnamedBf ms ms.length mem]? = none := List.getElem?_eq_none (by omega)
                rw [cursorIn_struct_root, nextNamed_past hp]; rfl
              have := himp2 g fl res
              rw [hc2] at this
              exact this hres hcl

/-! ### the declared object -/

theorem shapedFlexMs_newInitMs : ∀ (ms : Members), flexOkMs ms = true → shapedFlexMs ms (newInitMs ms true) = true
  | [], h => by simp [flexOkMs] at h
  | [(mi, t)], h => by
    cases t <;> first | (simp [flexOkMs] at h) | skip
    simp [newInitMs, shapedFlexMs]
  | (mi, t) :: m :: r, h => by
    simp only [flexOkMs, Bool.and_eq_true] at h
    simp only [newInitMs, shapedFlexMs, Bool.and_eq_true]
    exact ⟨shaped_newInit t h.1, shapedFlexMs_newInitMs (m :: r) h.2⟩

end

/-- **parser = 6.7.9 for a declared struct with a flexible array member** -/
theorem parse_spec_flex {f : Nat} {ms : Members} {sz : Nat} {toks : List ITok} {p : Init × List ITok} {r : Result}
    (ho : flexOkMs ms = true)
    (hp : initializer2 f (.struct ms sz true) toks (newInit (.struct ms sz true) true) = .ok p)
    (hs : initFull (.struct ms sz true) toks = .ok r) (hc : r.fl.clean = true) : p.1 = r.obj ∧ p.2 = r.rest := by
  obtain ⟨c', rest⟩ := p
  obtain ⟨k, mik, e, n, hF⟩ := flexOkMs_last ms ho
  have hinit : newInit (.struct ms sz true) true = .struct none (newInitMs ms true) := by simp [newInit]
  rw [hinit] at hp
  have hcs := shapedFlexMs_newInitMs ms ho
  cases toks with
  | nil => cases hs
  | cons tok r0 =>
    cases f with
    | zero => cases hp
    | succ f =>
    by_cases hb : tok = .lbrace
    · subst hb
      rw [initializer2] at hp
      simp only [startsBrace, ↓reduceIte] at hp
      cases f with
      | zero => cases hp
      | succ f1 =>
      rw [structInit1] at hp
      simp only [skipTok, ↓reduceIte, ok_bind] at hp
      obtain ⟨_, himp⟩ := flex_struct1loop (sz := sz) hF f1 (newInitMs ms true) r0 0 true c' rest hcs hp
      unfold initFull at hs
      simp only at hs
      obtain ⟨res, hres, hs⟩ := bind_eq_ok hs
      cases hs
      rw [hinit] at hres
      have hcur : firstCursor (.struct ms sz true) = cursorIn (.struct ms sz true) true [] 0 := by
        rw [cursorIn_struct_root]; rfl
      simp only [unflex] at hres
      rw [hcur] at hres
      obtain ⟨h1, h2, _⟩ := himp _ _ res hres hc
      refine ⟨?_, h2.symm⟩
      simp only
      rw [h1]
      obtain ⟨⟨cs', hc', _⟩, _⟩ := flex_struct1loop (sz := sz) hF f1 (newInitMs ms true) r0 0 true c' rest hcs hp
      subst hc'
      rfl
    · rw [initializer2] at hp
      have hsb : startsBrace (tok :: r0) = false := by cases tok <;> first | exact absurd rfl hb | rfl
      simp only [hsb, Bool.false_eq_true, ↓reduceIte] at hp
      obtain ⟨⟨ex, rest'⟩, hpa, hp⟩ := bind_eq_ok hp
      obtain ⟨tok', htoks, hte, _, _, hkind⟩ := parseAssign_ok hpa
      cases htoks
      unfold initFull at hs
      cases tok with
      | expr e0 =>
        simp only at hs
        rcases hkind with ⟨e', he', rfl⟩ | ⟨hstr, _, _⟩
        · cases he'
          split at hs
          · rename_i hisS
            simp only [hisS, ↓reduceIte] at hp
            cases hs; cases hp
            rw [hinit]
            exact ⟨rfl, rfl⟩
          · cases hs
        · simp [isStrTok] at hstr
      | _ => first | exact absurd rfl hb | cases hs

/-- **parser = 6.7.9** for every covered declared type (`tyOk`): scalars, arrays, arrays of unknown bound, structs (the declared
    struct may end in a flexible array member), unions, bit-fields, anonymous members, to any depth -/
theorem parse_spec_tyOk {f : Nat} {ty : Ty} {toks : List ITok} {p : Init × List ITok} {r : Result} (ho : tyOk ty = true)
    (hp : initializer2 f ty toks (newInit ty true) = .ok p) (hs : initFull ty toks = .ok r) (hc : r.fl.clean = true) :
    p.1 = r.obj ∧ p.2 = r.rest := by
  cases hfr : isFlexRoot ty with
  | false => exact parse_spec_tyOk_noflex ho hfr hp hs hc
  | true =>
    cases ty with
    | struct ms sz fl =>
      cases fl with
      | false => simp [isFlexRoot] at hfr
      | true => exact parse_spec_flex (by simpa [tyOk] using ho) hp hs hc
    | _ => simp [isFlexRoot] at hfr

/-! ### the region `FlexReinit` is empty for types without flexible array member -/

theorem flexIdx_none {ty : Ty} {top : Bool} (h : top = false ∨ isFlexRoot ty = false) : flexIdx ty top = none := by
  cases ty with
  | struct ms sz fl =>
    cases fl with
    | false => rfl
    | true =>
      rcases h with rfl | h
      · simp [flexIdx]
      · simp [isFlexRoot] at h
  | _ => rfl

theorem initList_reinit : ∀ (g : Nat) (ty : Ty) (top : Bool) (obj : Init) (cur : Option (List Nat)) (toks : List ITok)
    (first : Bool) (fl : Flags) (r : Result), (top = false ∨ isFlexRoot ty = false) →
    initList g ty top obj cur toks first fl = .ok r → r.fl.reinit = fl.reinit
  | 0, _, _, _, _, _, _, _, _, _, h => by cases h
  | g+1, ty, top, obj, cur, toks, first, fl, r, hty, h => by
    cases he : consumeEnd toks with
    | some rest =>
      rw [initList_end _ _ _ _ _ _ _ _ _ he] at h
      cases h; rfl
    | none =>
      rw [initList_item _ _ _ _ _ _ _ _ he] at h
      obtain ⟨toks1, _, h⟩ := bind_eq_ok h
      obtain ⟨⟨ps, t⟩, _, h⟩ := bind_eq_ok h
      have hr0 : (fl.join (reinitFl ty top obj (isDesg toks1) ps)).reinit = fl.reinit := by
        have : reinitAt ty top obj (isDesg toks1) ps = false := by
          unfold reinitAt
          rw [flexIdx_none hty]
        simp [Flags.join, reinitFl, this]
      simp only at h
      rw [← hr0]
      generalize fl.join (reinitFl ty top obj (isDesg toks1) ps) = fl' at h ⊢
      have tokc : ∀ (ps : List (List Nat)) (tok : ITok) (r0 : List ITok),
          initTokWith (initList g) ty top obj ps tok r0 fl' = .ok r → r.fl.reinit = fl'.reinit := by
        intro ps tok r0 h
        unfold initTokWith at h
        obtain ⟨_, _, h⟩ := bind_eq_ok h
        obtain ⟨_, _, h⟩ := bind_eq_ok h
        have h2 := initList_reinit g _ _ _ _ _ _ _ _ hty h
        rw [h2]
        simp only [Flags.join, Bool.or_false]
      unfold initItem initItemWith at h
      split at h
      · obtain ⟨_, _, h⟩ := bind_eq_ok h
        exact initList_reinit g _ _ _ _ _ _ _ _ hty h
      · split at h
        · obtain ⟨t0, _, h⟩ := bind_eq_ok h
          try simp only at h
          split at h
          · exact tokc _ _ _ h
          · obtain ⟨sub, hsub, h⟩ := bind_eq_ok h
            obtain ⟨_, _, h⟩ := bind_eq_ok h
            have h1 := initList_reinit g _ _ _ _ _ _ _ _ (Or.inl rfl) hsub
            have h2 := initList_reinit g _ _ _ _ _ _ _ _ hty h
            rw [h2]
            simp only [Flags.join, h1, Flags.none, Bool.or_false]
        · exact tokc _ _ _ h
        · cases h

/-- for a declared type without flexible array member the fourth region is empty: `clean` is what it was before the region
    `FlexReinit` was introduced -/
theorem initFull_reinit_noflex {ty : Ty} {toks : List ITok} {r : Result} (hnf : isFlexRoot ty = false)
    (hs : initFull ty toks = .ok r) : r.fl.reinit = false := by
  unfold initFull at hs
  split at hs
  · split at hs
    · obtain ⟨_, _, hs⟩ := bind_eq_ok hs; cases hs; rfl
    · obtain ⟨res, hres, hs⟩ := bind_eq_ok hs
      cases hs
      exact initList_reinit _ _ _ _ _ _ _ _ _ (Or.inr hnf) hres
  · split at hs
    all_goals first
      | (obtain ⟨_, _, hs⟩ := bind_eq_ok hs; cases hs; rfl)
      | (split at hs <;> first | (obtain ⟨_, _, hs⟩ := bind_eq_ok hs; cases hs; rfl) | (cases hs; rfl) | cases hs)
      | cases hs
  · cases hs

end ChibiVerif.InitSpec
