/-
C02: chains of conversions.  One link = one `cast(from, to)`:
  * a link with a floating side is `select` (Lemmas/FpCastLemmas = `C02_select`);
  * an integer-only link is C01's `C01_cast` (its proof terms: `castSeq_classified`, `classify_sound`, `CastKind.effect`,
    `cast_arith` of Lemmas/C01Lemmas), transported to the floating machine: the C02 model of `cast()` prints for two
    integer types exactly the sequence the C01 model prints (`castSeq_int`), `Fp.run` hands those instructions to
    `X86.run` (`run_castKind`), they leave %rsp alone (`castKind_rsp`), and the representation invariants `RInt` /
    `C01.Represents` are the same proposition.
Links compose because `Fp.run` of `a ++ b` is `Fp.run b` after `Fp.run a` whenever `a` terminates (`run_append`: the forward
local labels `1:` of one cast-table string never capture a jump of another, since a completed run has no jump in flight).
-/
import ChibiVerif.Lemmas.FpCastLemmas
import ChibiVerif.Lemmas.FpToy
import ChibiVerif.Lemmas.C01Lemmas
import ChibiVerif.Model.FpChain
import ChibiVerif.Spec.FpChainSpec

namespace ChibiVerif.Fp
open ChibiVerif.Asm ChibiVerif.X86 ChibiVerif.Spec.Fpu ChibiVerif.FpCodegen ChibiVerif.Spec.FpC11
open ChibiVerif.Spec.IntSpec ChibiVerif.Gen.CommonType ChibiVerif.FpChain

/-! ### sequencing -/

theorem runFrom_append_done (F : FpuSpec) (a b : List Ins) :
    ∀ (sk : Option String) (s s1 : FState), runFrom F a sk s = some s1 → runFrom F (a ++ b) sk s = runFrom F b none s1 := by
  induction a with
  | nil =>
    intro sk s s1 h
    cases sk with
    | none => simp only [runFrom, Option.some.injEq] at h; subst h; rfl
    | some l => simp [runFrom] at h
  | cons i is ih =>
    intro sk s s1 h
    cases sk with
    | some l =>
      simp only [List.cons_append, runFrom] at h ⊢
      split
      · rename_i hc; rw [if_pos hc] at h; exact ih _ _ _ h
      · rename_i hc; rw [if_neg hc] at h; exact ih _ _ _ h
    | none =>
      simp only [List.cons_append, runFrom] at h ⊢
      split
      · rename_i hc; rw [if_pos hc] at h; exact ih _ _ _ h
      · rename_i hc
        rw [if_neg hc] at h
        cases hj : jumpOf i s with
        | some j =>
          obtain ⟨nf, tk, l⟩ := j
          simp only [hj] at h ⊢
          split
          · rename_i hf; rw [if_pos hf] at h; exact absurd h (by simp)
          · rename_i hf
            rw [if_neg hf] at h
            cases tk with
            | true =>
              simp only [if_true] at h ⊢
              cases hl : labelOfRef l with
              | none => simp [hl] at h
              | some t => simp only [hl] at h ⊢; exact ih _ _ _ h
            | false =>
              simp only [Bool.false_eq_true, if_false] at h ⊢
              exact ih _ _ _ h
        | none =>
          simp only [hj] at h ⊢
          cases hs : step F i s with
          | none => simp [hs] at h
          | some s' => simp only [hs] at h ⊢; exact ih _ _ _ h

/-- a terminated run is a prefix of the run of any continuation -/
theorem run_append (F : FpuSpec) (a b : List Ins) (s s1 : FState) (h : run F a s = some s1) :
    run F (a ++ b) s = run F b s1 :=
  runFrom_append_done F a b none s s1 h

theorem instrsOf_append (a b : List Line) : instrsOf (a ++ b) = instrsOf a ++ instrsOf b := by
  simp [instrsOf]

/-! ### an integer-only link is `C01_cast` -/

/-- for two integer types the C02 model of `cast()` prints what the C01 model prints (same generated table, same `_Bool`
    sequence) -/
theorem castSeq_int (a b : ITy) : castSeq (.int a) (.int b) = C01.castSeq a b := by
  cases a <;> cases b <;> rfl

/-- the integer conversion sequences are executed by the integer machine; the SSE/x87 part of the state is untouched -/
theorem run_castKind (F : FpuSpec) (k : C01.CastKind) (s : FState) :
    run F k.seq s = (X86.run k.seq s.x).map fun x' => { s with x := x' } := by
  cases k <;> rfl

theorem castKind_rsp (k : C01.CastKind) (x : State) : ∃ x', X86.run k.seq x = some x' ∧ x'.get .rsp = x.get .rsp := by
  cases k <;> exact ⟨_, rfl, rfl⟩

theorem rint_iff (t : ITy) (r : BitVec 64) (v : Int) : RInt t r v ↔ C01.Represents t r v := Iff.rfl

/-- **C01_cast on the floating machine**: integer → integer -/
theorem sel_int_int (F : FpuSpec) (a b : ITy) (s : FState) (v : Int) (h : RInt a (s.x.get .rax) v) :
    ∃ s', run F (castSeq (.int a) (.int b)) s = some s' ∧ RInt b (s'.x.get .rax) (ChibiVerif.Spec.IntSpec.convert b v) ∧
      s'.cw = s.cw ∧ s'.st = s.st ∧ s'.xmm0 = s.xmm0 ∧ s'.x.get .rsp = s.x.get .rsp := by
  -- the proof of Props.C01.C01_cast, verbatim
  obtain ⟨k, hk⟩ := C01.castSeq_classified a b
  rw [castSeq_int, C01.classify_sound hk, run_castKind]
  obtain ⟨x', h1, h2⟩ := k.effect s.x
  have hv : C01.Represents b (x'.get .rax) (ChibiVerif.Spec.IntSpec.convert b v) := h2 ▸ C01.cast_arith a b k hk _ _ ((rint_iff _ _ _).1 h)
  obtain ⟨x'', h3, h4⟩ := castKind_rsp k s.x
  have hx : x'' = x' := by rw [h1] at h3; exact (Option.some.inj h3).symm
  subst hx
  exact ⟨{ s with x := x'' }, by rw [h1]; rfl, (rint_iff _ _ _).2 hv, rfl, rfl, rfl, h4⟩

/-! ### one link, any of the 144 pairs -/

/-- `cast(from, to)` implements the C11 conversion for **every** pair of arithmetic types -/
theorem link (F : FpuSpec) (frm to : ATy) (s : FState) (x y : AVal)
    (hh : Holds frm s x) (hc : convert F s.cw to x = some y) (hpc : usesX87Arith frm to = true → pc s.cw = 3#2) :
    ∃ s', run F (castSeq frm to) s = some s' ∧ Holds to s' y ∧ s'.cw = s.cw ∧ stBelow to s' = stBelow frm s ∧
      s'.x.get .rsp = s.x.get .rsp := by
  by_cases hfp : frm.isFp = true ∨ to.isFp = true
  · exact select F frm to s x y hfp hh hc hpc
  · cases frm with
    | int a =>
      cases to with
      | int b =>
        cases x with
        | int v =>
          simp only [ChibiVerif.Spec.FpC11.convert, Option.some.injEq] at hc
          subst hc
          obtain ⟨s', h1, h2, h3, h4, _, h6⟩ := sel_int_int F a b s v hh
          exact ⟨s', h1, h2, h3, by simp [stBelow, h4], h6⟩
        | f32 _ => exact absurd hh (by simp [Holds])
        | f64 _ => exact absurd hh (by simp [Holds])
        | f80 _ => exact absurd hh (by simp [Holds])
      | f32 => simp [ATy.isFp] at hfp
      | f64 => simp [ATy.isFp] at hfp
      | f80 => simp [ATy.isFp] at hfp
    | f32 => simp [ATy.isFp] at hfp
    | f64 => simp [ATy.isFp] at hfp
    | f80 => simp [ATy.isFp] at hfp

/-! ### chains -/

/-- the instructions of the conversions `t0 → t1 → … → tn`, one `cast()` per link -/
def chainSeq (t0 : ATy) : List ATy → List Ins
  | [] => []
  | t :: ts => castSeq t0 t ++ chainSeq t ts

/-- does some link do x87 arithmetic (unsigned long ↔ long double)? -/
def chainUsesX87Arith (t0 : ATy) : List ATy → Bool
  | [] => false
  | t :: ts => usesX87Arith t0 t || chainUsesX87Arith t ts

theorem chain (F : FpuSpec) (ts : List ATy) :
    ∀ (t0 : ATy) (s : FState) (x y : AVal), Holds t0 s x → convertChain F s.cw ts x = some y →
      (chainUsesX87Arith t0 ts = true → pc s.cw = 3#2) →
      ∃ s', run F (chainSeq t0 ts) s = some s' ∧ Holds (chainType t0 ts) s' y ∧ s'.cw = s.cw ∧
        stBelow (chainType t0 ts) s' = stBelow t0 s ∧ s'.x.get .rsp = s.x.get .rsp := by
  induction ts with
  | nil =>
    intro t0 s x y hh hc _
    simp only [convertChain, Option.some.injEq] at hc
    subst hc
    exact ⟨s, rfl, hh, rfl, rfl, rfl⟩
  | cons t ts ih =>
    intro t0 s x y hh hc hpc
    simp only [convertChain] at hc
    cases h1 : convert F s.cw t x with
    | none => simp [h1] at hc
    | some z =>
      simp only [h1, Option.bind_some] at hc
      obtain ⟨s1, r1, hz, hcw1, hst1, hrsp1⟩ := link F t0 t s x z hh h1
        (fun h => hpc (by simp [chainUsesX87Arith, h]))
      obtain ⟨s2, r2, hy, hcw2, hst2, hrsp2⟩ := ih t s1 z y hz (by rw [hcw1]; exact hc)
        (fun h => by rw [hcw1]; exact hpc (by simp [chainUsesX87Arith, h]))
      refine ⟨s2, ?_, hy, by rw [hcw2, hcw1], by rw [show chainType t0 (t :: ts) = chainType t ts from rfl, hst2, hst1],
        by rw [hrsp2, hrsp1]⟩
      show run F (castSeq t0 t ++ chainSeq t ts) s = some s2
      rw [run_append F _ _ s s1 r1, r2]

/-! ### the nest of `ND_CAST` nodes `gen_expr` walks -/

/-- `(tn)…(t1)e` where `e : t0` is any operand with code `code` -/
def nest (t0 : ATy) (code : List Line) (ts : List ATy) : CastE := (CastE.leaf (descr t0) code).wrap (ts.map descr)

theorem gen_wrap (ts : List ATy) : ∀ (e : CastE) (t0 : ATy), e.ty = descr t0 →
    instrsOf (e.wrap (ts.map descr)).gen = instrsOf e.gen ++ chainSeq t0 ts ∧
    (e.wrap (ts.map descr)).ty = descr (chainType t0 ts) := by
  induction ts with
  | nil => intro e t0 h; simp [CastE.wrap, chainSeq, chainType, h]
  | cons t ts ih =>
    intro e t0 h
    obtain ⟨h1, h2⟩ := ih (CastE.cast (descr t) e) t rfl
    simp only [List.map_cons, CastE.wrap]
    refine ⟨?_, h2⟩
    rw [h1]
    simp only [CastE.gen, instrsOf_append, h, chainSeq, castSeq, List.append_assoc]

theorem nest_gen (t0 : ATy) (code : List Line) (ts : List ATy) :
    instrsOf (nest t0 code ts).gen = instrsOf code ++ chainSeq t0 ts :=
  (gen_wrap ts (CastE.leaf (descr t0) code) t0 rfl).1

theorem nest_ty (t0 : ATy) (code : List Line) (ts : List ATy) : (nest t0 code ts).ty = descr (chainType t0 ts) :=
  (gen_wrap ts (CastE.leaf (descr t0) code) t0 rfl).2

/-! ### values through float / double -/

/-- integer → float → integer is the integer rounded to 24 significant bits (when that is in range) -/
theorem via_f32 (F : FpuSpec) (cw : BitVec 16) (t : ITy) (ht : t ≠ .bool) (v : Int) (hv : v.natAbs ≤ 2 ^ 64)
    (hr : t.inRange (roundInt 24 v)) :
    convertChain F cw [.f32, .int t] (.int v) = some (.int (roundInt 24 v)) := by
  have h := Toy.trunc_of_toInt _ _ (F.ofInt32_val v hv)
  cases t <;> simp_all [convertChain, ChibiVerif.Spec.FpC11.convert, fpToInt]

theorem via_f64 (F : FpuSpec) (cw : BitVec 16) (t : ITy) (ht : t ≠ .bool) (v : Int) (hv : v.natAbs ≤ 2 ^ 64)
    (hr : t.inRange (roundInt 53 v)) :
    convertChain F cw [.f64, .int t] (.int v) = some (.int (roundInt 53 v)) := by
  have h := Toy.trunc_of_toInt _ _ (F.ofInt64_val v hv)
  cases t <;> simp_all [convertChain, ChibiVerif.Spec.FpC11.convert, fpToInt]

end ChibiVerif.Fp
