/-
Helper lemmas for C15_tentative: how many definitions of one object name `emit_data` prints after
`scan_globals`, and from which declaration the printed one comes.
-/
import ChibiVerif.Lemmas.LinkageScan

namespace ChibiVerif.Linkage

variable [Rules]

/-- an object (not a function) that is a definition of the name `s` -/
def dataDefOf (s : Sym) (o : Obj) : Bool := !o.isFunction && o.isDefinition && o.sym == s

omit [Rules] in
theorem tyBlind_dataDefOf (s : Sym) : TyBlind (dataDefOf s) := fun _ _ => rfl

omit [Rules] in
theorem emitDataVar_sym {fc : Bool} {o : Obj} {e : SymEntry} (h : emitDataVar fc o = some e) : e.sym = o.sym := by
  unfold emitDataVar at h
  split at h
  · cases h
  · split at h
    · cases h; rfl
    · split at h
      · cases h; rfl
      · cases h; rfl

omit [Rules] in
theorem emitDataVar_isSome (fc : Bool) (o : Obj) : (emitDataVar fc o).isSome = (!o.isFunction && o.isDefinition) := by
  unfold emitDataVar
  cases hf : o.isFunction <;> cases hd : o.isDefinition <;> simp
  all_goals (split <;> try split) <;> rfl

omit [Rules] in
/-- the entries `emit_data` prints for `s` are as many as there are definitions of `s` in the list it walks -/
theorem emitDataVar_count (fc : Bool) (s : Sym) : ∀ l : List Obj,
    ((l.filterMap (emitDataVar fc)).filter (fun e => e.sym == s)).length = (l.filter (dataDefOf s)).length
  | [] => rfl
  | a :: as => by
    have ih := emitDataVar_count fc s as
    simp only [List.filterMap_cons]
    cases he : emitDataVar fc a with
    | none =>
      have : (!a.isFunction && a.isDefinition) = false := by
        rw [← emitDataVar_isSome fc a, he]; rfl
      have hd : dataDefOf s a = false := by simp [dataDefOf, this]
      simp only [List.filter, hd]
      exact ih
    | some e =>
      have hsome : (!a.isFunction && a.isDefinition) = true := by
        rw [← emitDataVar_isSome fc a, he]; rfl
      have hsym := emitDataVar_sym he
      have hd : dataDefOf s a = (e.sym == s) := by simp [dataDefOf, hsome, hsym]
      simp only [List.filter, hd]
      split <;> simp [ih]

omit [Rules] in
/-- an object without owner is never skipped by the repaired `emit_data` -/
theorem ownerLive_of_noOwner (gs : List Obj) {o : Obj} (h : o.owner = none) : ownerLive gs o = true := by
  simp [ownerLive, h]

omit [Rules] in
/-- the definitions of a name whose objects have no owner (file-scope objects) all reach the printing loop -/
theorem filter_ownerLive_dataDefOf (gs : List Obj) {s : Sym} : ∀ (l : List Obj), (∀ o, o ∈ l → o.sym = s → o.owner = none) →
    (l.filter (ownerLive gs)).filter (dataDefOf s) = l.filter (dataDefOf s)
  | [], _ => rfl
  | a :: as, h => by
    have ih := filter_ownerLive_dataDefOf gs as (fun o ho => h o (List.mem_cons_of_mem _ ho))
    cases hd : dataDefOf s a
    · cases ho : ownerLive gs a <;> simp [List.filter, hd, ho, ih]
    · have hs : a.sym = s := by
        simp only [dataDefOf, Bool.and_eq_true, beq_iff_eq] at hd
        exact hd.2
      have ho := ownerLive_of_noOwner gs (h a List.mem_cons_self hs)
      simp [List.filter, hd, ho, ih]

omit [Rules] in
theorem emitData_count (fc : Bool) (s : Sym) (l : List Obj) (h : ∀ o, o ∈ l → o.sym = s → o.owner = none) :
    ((emitData fc l).filter (fun e => e.sym == s)).length = (l.filter (dataDefOf s)).length := by
  unfold emitData
  rw [emitDataVar_count, filter_ownerLive_dataDefOf l l h]

omit [Rules] in
theorem length_filter_split (p q : Obj → Bool) : ∀ l : List Obj,
    (l.filter p).length = (l.filter (fun o => p o && q o)).length + (l.filter (fun o => p o && !q o)).length
  | [] => rfl
  | a :: as => by
    have ih := length_filter_split p q as
    cases hp : p a <;> cases hq : q a <;> simp [List.filter, hp, hq, ih] <;> omega

omit [Rules] in
theorem length_filter_le_of_imp {p q : Obj → Bool} (h : ∀ o, p o = true → q o = true) : ∀ l : List Obj,
    (l.filter p).length ≤ (l.filter q).length
  | [] => Nat.le_refl _
  | a :: as => by
    have ih := length_filter_le_of_imp h as
    cases hp : p a
    · cases hq : q a <;> simp [List.filter, hp, hq] <;> omega
    · have hq := h a hp
      simp [List.filter, hp, hq, ih]

omit [Rules] in
theorem filter_filter' (p q : Obj → Bool) : ∀ l : List Obj, (l.filter q).filter p = l.filter (fun o => p o && q o)
  | [] => rfl
  | a :: as => by
    have ih := filter_filter' p q as
    cases hp : p a <;> cases hq : q a <;> simp [List.filter, hp, hq, ih]

omit [Rules] in
theorem scanPure_sub (all : List Obj) : ∀ (l : List Obj) (x : Obj), x ∈ scanPure all l → x ∈ l := by
  intro l
  induction l with
  | nil => intro x hx; simp [scanPure] at hx
  | cons a as ih =>
    intro x hx
    unfold scanPure at hx
    split at hx
    · rcases List.mem_cons.mp hx with rfl | hx
      · exact List.mem_cons_self
      · exact List.mem_cons_of_mem _ (ih x hx)
    · split at hx
      · exact List.mem_cons_of_mem _ (ih x hx)
      · split at hx
        · exact List.mem_cons_of_mem _ (ih x hx)
        · rcases List.mem_cons.mp hx with rfl | hx
          · exact List.mem_cons_self
          · exact List.mem_cons_of_mem _ (ih x hx)

/-- hypotheses of C15_tentative about the name `s` in the list `gs` -/
structure NameOK (gs : List Obj) (s : Sym) : Prop where
  /-- `s` names objects only -/
  noFn : ∀ o, o ∈ gs → o.sym = s → o.isFunction = false
  /-- at most one declaration of `s` is a definition that is not tentative (C11 6.9p5) -/
  oneReal : (gs.filter (realDefOf s)).length ≤ 1
  /-- a tentative definition is a definition (parse.c: `is_definition = !extern`, `is_tentative` only if `!extern`) -/
  tentDef : ∀ o, o ∈ gs → o.isTentative = true → o.isDefinition = true

omit [Rules] in
/-- number of definitions of `s` that `scanPure` keeps -/
theorem scanPure_count_le_one {gs : List Obj} {s : Sym} (h : NameOK gs s) :
    ((scanPure gs gs).filter (dataDefOf s)).length ≤ 1 := by
  rw [length_filter_split (dataDefOf s) (fun o => o.isTentative)]
  -- tentative part
  have ht : ((scanPure gs gs).filter (fun o => dataDefOf s o && o.isTentative)).length ≤
      ((scanPure gs gs).filter (isTentOf s)).length :=
    length_filter_le_of_imp (fun o ho => by
      simp only [dataDefOf, Bool.and_eq_true, beq_iff_eq] at ho
      simp [isTentOf, ho.2, ho.1.2]) _
  -- non-tentative part
  have hn : ((scanPure gs gs).filter (fun o => dataDefOf s o && !o.isTentative)).length ≤ (gs.filter (realDefOf s)).length := by
    rw [← filter_filter' (dataDefOf s) (fun o => !o.isTentative), scanPure_notTent, filter_filter']
    exact length_filter_le_of_imp (fun o ho => by
      simp only [dataDefOf, Bool.and_eq_true, beq_iff_eq, Bool.not_eq_true'] at ho
      simp [realDefOf, ho.1.1.2, ho.1.2, ho.2]) _
  cases hreal : gs.any (realDefOf s)
  · -- no real definition: the non-tentative part is empty
    have : (gs.filter (realDefOf s)).length = 0 := by
      rw [List.length_eq_zero_iff, List.filter_eq_nil_iff]
      rw [List.any_eq_false] at hreal
      exact fun x hx => hreal x hx
    have := scanPure_tent_le_one gs s gs
    omega
  · -- a real definition: every tentative one is dropped
    have hnone := scanPure_tent_none gs s hreal gs
    rw [hnone] at ht
    have ht' : ((scanPure gs gs).filter (fun o => dataDefOf s o && o.isTentative)).length ≤ 0 := ht
    have := h.oneReal
    omega

omit [Rules] in
theorem scanPure_count_pos {gs : List Obj} {s : Sym} (h : NameOK gs s) (hex : gs.any (dataDefOf s) = true) :
    1 ≤ ((scanPure gs gs).filter (dataDefOf s)).length := by
  cases hreal : gs.any (realDefOf s)
  · -- all definitions are tentative: one of them survives
    rw [List.any_eq_true] at hex
    obtain ⟨d, hd, hdd⟩ := hex
    rw [List.any_eq_false] at hreal
    have hdt : isTentOf s d = true := by
      have hnr := hreal d hd
      simp only [dataDefOf, Bool.and_eq_true, beq_iff_eq] at hdd
      simp only [realDefOf, hdd.1.2, hdd.2, Bool.true_and, beq_self_eq_true, Bool.and_true, Bool.not_eq_true] at hnr
      have : d.isTentative = true := by
        cases hh : d.isTentative
        · simp [hh] at hnr
        · rfl
      simp [isTentOf, this, hdd.2]
    have hany : gs.any (isTentOf s) = true := List.any_eq_true.mpr ⟨d, hd, hdt⟩
    have hs := scanPure_tent_some gs s (List.any_eq_false.mpr hreal) gs hany
    rw [List.any_eq_true] at hs
    obtain ⟨x, hx, hxt⟩ := hs
    have hxg : x ∈ gs := scanPure_sub gs gs x hx
    have hxd : dataDefOf s x = true := by
      have hsym := isTentOf_sym hxt
      simp [dataDefOf, h.noFn x hxg hsym, h.tentDef x hxg (isTentOf_tent hxt), hsym]
    have : x ∈ (scanPure gs gs).filter (dataDefOf s) := List.mem_filter.mpr ⟨hx, hxd⟩
    exact List.length_pos_of_mem this
  · -- a real definition is never dropped
    rw [List.any_eq_true] at hreal
    obtain ⟨d, hd, hdr⟩ := hreal
    simp only [realDefOf, Bool.and_eq_true, beq_iff_eq, Bool.not_eq_true'] at hdr
    have hnt : d ∈ gs.filter (fun o => !o.isTentative) := List.mem_filter.mpr ⟨hd, by simp [hdr.1.2]⟩
    rw [← scanPure_notTent gs gs] at hnt
    have hx := (List.mem_filter.mp hnt).1
    have hxd : dataDefOf s d = true := by simp [dataDefOf, h.noFn d hd hdr.2, hdr.1.1, hdr.2]
    have : d ∈ (scanPure gs gs).filter (dataDefOf s) := List.mem_filter.mpr ⟨hx, hxd⟩
    exact List.length_pos_of_mem this

omit [Rules] in
/-- the kept definition is tentative exactly when every definition of the name was -/
theorem scanPure_kept_tent {gs : List Obj} {s : Sym} {x : Obj} (hx : x ∈ scanPure gs gs) (hs : x.sym = s)
    (hd : x.isDefinition = true) : x.isTentative = true ↔ gs.any (realDefOf s) = false := by
  constructor
  · intro ht
    cases hreal : gs.any (realDefOf s)
    · rfl
    · exfalso
      have := scanPure_tent_none gs s hreal gs
      have hm : x ∈ (scanPure gs gs).filter (isTentOf s) := List.mem_filter.mpr ⟨hx, by simp [isTentOf, ht, hs]⟩
      rw [this] at hm
      cases hm
  · intro hreal
    cases ht : x.isTentative
    · exfalso
      have hxg := scanPure_sub gs gs x hx
      rw [List.any_eq_false] at hreal
      have := hreal x hxg
      simp [realDefOf, hd, ht, hs] at this
    · rfl

end ChibiVerif.Linkage
