/-
`join_adjacent_string_literals` as translated from preprocess.c (Gen/StrJoinGen.lean: `getStringKind`, `tokenize_string_literal`,
the first pass `joinPass1` and the second pass `joinPass2` on one run of adjacent string literals) against the hand model of
Model/Literals.lean (`getStringKind`, `resolveKind`, `retokenize`, `joinStrings`), and the byte-level meaning of the second pass:
the `calloc` / `memcpy` arithmetic writes the code units of all tokens one after the other followed by exactly one zero unit,
and no `memcpy` leaves the allocation.
-/
import ChibiVerif.Model.StrJoin
import ChibiVerif.Lemmas.C11Readers
import ChibiVerif.Lemmas.LiteralsReaderLemmas

set_option linter.unusedSimpArgs false
set_option linter.unusedVariables false

namespace ChibiVerif.Lemmas.Join
open ChibiVerif.Gen.Literals
open ChibiVerif.Gen.StrJoin
open ChibiVerif.StrJoin
open ChibiVerif.Literals
open ChibiVerif.LitReaders
open ChibiVerif.Spec.Literals (StrPrefix joinPrefix joinPrefixFrom)

-- ------------------------------------------------------------------ bytes of code units

theorem unitBytes_length (sz u : Nat) : (unitBytes sz u).length = sz := by simp [unitBytes]

theorem unitsBytes_length (sz : Nat) (us : List Nat) : (us.flatMap (unitBytes sz)).length = sz * us.length := by
  induction us with
  | nil => simp
  | cons u us ih =>
    rw [List.flatMap_cons, List.length_append, unitBytes_length, ih, List.length_cons, Nat.mul_succ]; omega

theorem strBytes_length (sz : Nat) (us : List Nat) : (strBytes sz us).length = sz * (us.length + 1) := by
  rw [strBytes, List.length_append, unitsBytes_length, List.length_replicate, Nat.mul_succ]

/-- total number of code units of a list of tokens -/
def totalUnits (hs : List StrTok) : Nat := ((hs.map (·.units)).flatten).length

theorem totalUnits_cons (h : StrTok) (hs : List StrTok) : totalUnits (h :: hs) = h.units.length + totalUnits hs := by
  simp [totalUnits]

-- ------------------------------------------------------------------ memcpy into a zero-filled allocation

theorem memcpyAt_mid (pre mid post src : List (BitVec 8)) (h : mid.length = src.length) :
    memcpyAt (pre ++ (mid ++ post)) (pre.length : Int) src (src.length : Int) = some (pre ++ (src ++ post)) := by
  unfold memcpyAt
  have c : (0 : Int) ≤ (pre.length : Int) ∧ (0 : Int) ≤ (src.length : Int) ∧ (src.length : Int).toNat ≤ src.length ∧
      (pre.length : Int).toNat + (src.length : Int).toNat ≤ (pre ++ (mid ++ post)).length := by
    simp only [List.length_append, Int.toNat_natCast]; omega
  rw [if_pos c]
  simp only [Int.toNat_natCast, List.take_left', List.take_length]
  congr 2
  rw [← List.append_assoc, ← h, show pre.length + mid.length = (pre ++ mid).length by simp, List.drop_left']
  rfl

theorem replicate_split (m n : Nat) (h : n ≤ m) (x : BitVec 8) :
    List.replicate m x = List.replicate n x ++ List.replicate (m - n) x := by
  rw [List.replicate_append_replicate]; congr; omega

-- ------------------------------------------------------------------ second pass

/-- the `len` loop: `len + Σ (array_len − 1)` -/
theorem pass2_len : ∀ (ts : List Tok) (hs : List StrTok), AllPairs Rep ts hs → ∀ len : Int,
    joinPass2_loop1 ts len = .ok (len + (totalUnits hs : Int)) := by
  intro ts hs h
  induction h with
  | nil => intro len; simp [joinPass2_loop1, totalUnits]
  | @cons t h ts hs hr _ ih =>
    intro len
    simp only [joinPass2_loop1]
    rw [ih, hr.2.2.1, totalUnits_cons]
    congr 1
    push_cast
    omega

/-- the `memcpy` loop on a zero-filled allocation with room for the remaining units and one terminator: the units of every token are
    written one after the other (each copy's terminator is overwritten by the next copy), no copy leaves the allocation -/
theorem pass2_copy (sz : Nat) : ∀ (ts : List Tok) (hs : List StrTok), AllPairs Rep ts hs → (∀ h ∈ hs, h.elem.size = sz) →
    ∀ (pre : List (BitVec 8)) (m : Nat), sz * (totalUnits hs + 1) ≤ m →
    joinPass2_loop2 ts (pre ++ List.replicate m 0#8) (pre.length : Int) =
      .ok (pre ++ (((hs.map (·.units)).flatten).flatMap (unitBytes sz) ++ List.replicate (m - sz * totalUnits hs) 0#8),
           ((pre.length + sz * totalUnits hs : Nat) : Int)) := by
  intro ts hs h
  induction h with
  | nil => intro _ pre m _; simp [joinPass2_loop2, totalUnits]
  | @cons t h ts hs hr _ ih =>
    intro hsz pre m hm
    have hsz1 : h.elem.size = sz := hsz h (by simp)
    have hsz2 : ∀ h' ∈ hs, h'.elem.size = sz := fun h' hh => hsz h' (by simp [hh])
    obtain ⟨_, hb, hal, hstr⟩ := hr
    rw [totalUnits_cons] at hm
    have hts : t.tySize = ((strBytes sz h.units).length : Int) := by
      simp only [Tok.tySize, arrayOfSize, hb, hal, hsz1, strBytes_length]; push_cast; rfl
    have hle : sz * (h.units.length + 1) ≤ m := by
      have : sz * (h.units.length + 1) ≤ sz * (h.units.length + totalUnits hs + 1) := Nat.mul_le_mul_left _ (by omega)
      omega
    simp only [joinPass2_loop2]
    rw [hts, hstr, hsz1, replicate_split m (sz * (h.units.length + 1)) hle,
      memcpyAt_mid pre _ _ (strBytes sz h.units) (by simp [strBytes_length])]
    simp only
    -- the buffer now: pre ++ units ++ (terminator ++ remaining zeros) = (pre ++ units) ++ zeros
    have hbuf : pre ++ (strBytes sz h.units ++ List.replicate (m - sz * (h.units.length + 1)) 0#8) =
        (pre ++ h.units.flatMap (unitBytes sz)) ++ List.replicate (m - sz * h.units.length) 0#8 := by
      simp only [strBytes, List.append_assoc]
      congr 2
      rw [List.replicate_append_replicate]; congr 1
      have : sz * (h.units.length + 1) = sz * h.units.length + sz := Nat.mul_succ _ _
      omega
    have hi : ((pre.length : Int) + ((strBytes sz h.units).length : Int)) - (t.base.size : Int) =
        ((pre ++ h.units.flatMap (unitBytes sz)).length : Int) := by
      rw [hb, hsz1, strBytes_length, List.length_append, unitsBytes_length, Nat.mul_succ]; push_cast; omega
    rw [hbuf, hi, ih hsz2 _ _ (by
      have h1 : sz * (h.units.length + totalUnits hs + 1) = sz * h.units.length + sz * (totalUnits hs + 1) := by
        rw [show h.units.length + totalUnits hs + 1 = h.units.length + (totalUnits hs + 1) by omega, Nat.mul_add]
      omega)]
    simp only [List.map_cons, List.flatten_cons, List.flatMap_append, List.append_assoc, List.length_append, unitsBytes_length,
      totalUnits_cons, Nat.mul_add]
    rw [Nat.sub_sub, Nat.add_assoc]

/-- **second pass on a run of tokens of one element size**: `array_len` = Σ units + 1, `str` = all units followed by one zero unit;
    in particular no `memcpy` leaves the allocation -/
theorem pass2_run (sz : Nat) (a : Tok) (as : List Tok) (h : StrTok) (hs : List StrTok)
    (hr : AllPairs Rep (a :: as) (h :: hs)) (hsz : ∀ x ∈ h :: hs, x.elem.size = sz) :
    joinPass2 a as = .ok { a with arrayLen := (totalUnits (h :: hs) : Int) + 1,
                                   str := strBytes sz (((h :: hs).map (·.units)).flatten) } := by
  cases hr with
  | cons hra hras =>
    have hb : a.base.size = sz := by rw [hra.2.1]; exact hsz h (by simp)
    unfold joinPass2
    simp only []
    rw [pass2_len as hs hras, hra.2.2.1]
    have hc : calloc (a.base.size : Int) ((h.units.length : Int) + 1 + (totalUnits hs : Int)) =
        [] ++ List.replicate (sz * (totalUnits (h :: hs) + 1)) 0#8 := by
      unfold calloc
      rw [hb, totalUnits_cons, List.nil_append]
      congr 1
      have : (sz : Int) * ((h.units.length : Int) + 1 + (totalUnits hs : Int)) = ((sz * (h.units.length + totalUnits hs + 1) : Nat) : Int) := by
        push_cast; rw [show ((h.units.length : Int) + (totalUnits hs : Int) + 1) = ((h.units.length : Int) + 1 + (totalUnits hs : Int)) by omega]
      rw [this, Int.toNat_natCast]
    have hcopy := pass2_copy sz (a :: as) (h :: hs) (.cons hra hras) hsz [] (sz * (totalUnits (h :: hs) + 1)) (Nat.le_refl _)
    simp only []
    rw [hc, show (0 : Int) = (([] : List (BitVec 8)).length : Int) by rfl, hcopy]
    simp only [List.nil_append]
    congr 2
    · rw [totalUnits_cons]; push_cast; omega
    · rw [strBytes]; congr 2; rw [Nat.mul_succ]; omega

-- ------------------------------------------------------------------ getStringKind, tokenize_string_literal

theorem kindToGen_inj (a b : StrKind) : kindToGen a = kindToGen b ↔ a = b := by
  cases a <;> cases b <;> simp [kindToGen]

theorem kindToGen_none (a : StrKind) : kindToGen a = .STR_NONE ↔ a = .none := by
  cases a <;> simp [kindToGen]

theorem rep_toTok (t : StrTok) : Rep (toTok t) t := ⟨rfl, rfl, rfl, rfl⟩

theorem getStringKind_eq (t : StrTok) :
    RelE (fun k k' => k = kindToGen k') (ChibiVerif.Gen.StrJoin.getStringKind (toTok t)) (ChibiVerif.Literals.getStringKind t) := by
  unfold ChibiVerif.Gen.StrJoin.getStringKind ChibiVerif.Literals.getStringKind
  simp only [toTok, readerTok]
  by_cases h1 : byteAt t.src 0 = 117#8 ∧ byteAt t.src 1 = 56#8
  · simp [h1, RelE, kindToGen]
  · by_cases h2 : byteAt t.src 0 = 34#8
    · simp [h2, RelE, kindToGen]
    · by_cases h3 : byteAt t.src 0 = 117#8
      · have h1' : ¬ byteAt t.src 1 = 56#8 := fun h => h1 ⟨h3, h⟩
        simp [h3, h1', RelE, kindToGen]
      · by_cases h4 : byteAt t.src 0 = 85#8
        · simp [h4, RelE, kindToGen]
        · by_cases h5 : byteAt t.src 0 = 76#8
          · simp [h5, RelE, kindToGen]
          · simp [h2, h3, h4, h5, RelE, ofJoinErr]

theorem relE_ok {α β : Type} {R : α → β → Prop} {x : Except JoinErr α} {b : β} (h : RelE R x (.ok b)) :
    ∃ a, x = .ok a ∧ R a b := by
  cases x with
  | error e => exact h.elim
  | ok a => exact ⟨a, rfl, h⟩

theorem relE_error {α β : Type} {R : α → β → Prop} {x : Except JoinErr α} {e : LitErr} (h : RelE R x (.error e)) :
    ∃ e', x = .error e' ∧ ofJoinErr e' = e := by
  cases x with
  | error e' => exact ⟨e', rfl, h⟩
  | ok a => exact h.elim

/-- `tokenize_string_literal`: hand model = translation (the new token is compared as `Rep`: element type, length, bytes) -/
theorem retokenize_eq (t : StrTok) (basety : Ty) :
    RelE Rep (tokenizeStringLiteral (toTok t) basety) (retokenize t basety) := by
  unfold tokenizeStringLiteral retokenize
  simp only [toTok, readerTok]
  by_cases h2 : basety.size = 2
  · have h2' : ((basety.size : Int) = 2) := by omega
    rw [if_pos h2, if_pos h2', ChibiVerif.Lemmas.ReadersT.readString_eq]
    simp only [ChibiVerif.Lemmas.ReadersT.readerT]
    cases ChibiVerif.Gen.LitReaders.readUtf16StringLiteral t.src 0 with
    | error e => simp [RelE, Except.mapError, Except.map, ofJoinErr]
    | ok r => obtain ⟨u, n⟩ := r; exact ⟨rfl, rfl, rfl, rfl⟩
  · have h2' : ¬ ((basety.size : Int) = 2) := by omega
    rw [if_neg h2, if_neg h2', ChibiVerif.Lemmas.ReadersT.readString_eq]
    simp only [ChibiVerif.Lemmas.ReadersT.readerT]
    cases ChibiVerif.Gen.LitReaders.readUtf32StringLiteral t.src 0 with
    | error e => simp [RelE, Except.mapError, Except.map, ofJoinErr]
    | ok r => obtain ⟨u, n⟩ := r; exact ⟨rfl, rfl, rfl, rfl⟩

-- ------------------------------------------------------------------ first pass

/-- the kind-resolution loop: hand model = translation -/
theorem pass1_resolve : ∀ (ts : List StrTok) (kind : StrKind) (basety : Ty),
    RelE (fun r r' => r.1 = kindToGen r'.1 ∧ r.2 = r'.2)
      (joinPass1_loop1 (ts.map toTok) (kindToGen kind) basety) (resolveKind kind basety ts)
  | [], kind, basety => by simp [joinPass1_loop1, resolveKind, RelE]
  | t :: ts, kind, basety => by
    simp only [List.map_cons, joinPass1_loop1, resolveKind]
    have hk := getStringKind_eq t
    cases hh : ChibiVerif.Literals.getStringKind t with
    | error e =>
      rw [hh] at hk
      obtain ⟨e', he', hoe⟩ := relE_error hk
      rw [he']
      simp [bind, Except.bind, RelE, hoe]
    | ok k =>
      rw [hh] at hk
      obtain ⟨k', hk', hkk⟩ := relE_ok hk
      rw [hk']
      subst hkk
      simp only [bind, Except.bind]
      by_cases hn : kind = .none
      · subst hn
        simp only [kindToGen, if_true]
        exact pass1_resolve ts k t.elem
      · have hn' : ¬ kindToGen kind = .STR_NONE := fun h => hn ((kindToGen_none _).mp h)
        rw [if_neg hn, if_neg hn']
        by_cases hc : k ≠ .none ∧ kind ≠ k
        · have hc' : kindToGen k ≠ .STR_NONE ∧ kindToGen kind ≠ kindToGen k :=
            ⟨fun h => hc.1 ((kindToGen_none _).mp h), fun h => hc.2 ((kindToGen_inj _ _).mp h)⟩
          rw [if_pos hc, if_pos hc']
          rfl
        · have hc' : ¬ (kindToGen k ≠ .STR_NONE ∧ kindToGen kind ≠ kindToGen k) := by
            rintro ⟨h1, h2⟩
            exact hc ⟨fun h => h1 ((kindToGen_none _).mpr h), fun h => h2 (by rw [h])⟩
          rw [if_neg hc, if_neg hc']
          exact pass1_resolve ts kind basety

/-- the conversion loop (taken when `basety->size > 1`): hand model = translation, token by token -/
theorem pass1_convert (basety : Ty) (hb : basety.size > 1) : ∀ ts : List StrTok,
    RelE (AllPairs Rep) (joinPass1_loop2 basety (ts.map toTok))
      (ts.mapM (fun t => if basety.size > 1 ∧ t.elem.size = 1 then retokenize t basety else pure t))
  | [] => by simp [joinPass1_loop2, RelE, pure, Except.pure]; exact .nil
  | t :: ts => by
    have ih := pass1_convert basety hb ts
    simp only [List.map_cons, joinPass1_loop2, List.mapM_cons]
    have hbase : ((toTok t).base.size : Int) = 1 ↔ t.elem.size = 1 := by
      show ((t.elem.size : Nat) : Int) = 1 ↔ t.elem.size = 1
      omega
    by_cases h1 : t.elem.size = 1
    · rw [if_pos (hbase.mpr h1), if_pos ⟨hb, h1⟩]
      have hr := retokenize_eq t basety
      cases hh : retokenize t basety with
      | error e =>
        rw [hh] at hr
        obtain ⟨e', he', hoe⟩ := relE_error hr
        rw [he']
        simp [bind, Except.bind, RelE, hoe]
      | ok t' =>
        rw [hh] at hr
        obtain ⟨g, hg, hgr⟩ := relE_ok hr
        rw [hg]
        simp only [bind, Except.bind]
        cases hm : ts.mapM (fun t => if basety.size > 1 ∧ t.elem.size = 1 then retokenize t basety else pure t) with
        | error e =>
          rw [hm] at ih
          obtain ⟨e', he', hoe⟩ := relE_error ih
          rw [he']
          simp [RelE, hoe]
        | ok ts' =>
          rw [hm] at ih
          obtain ⟨gs, hgs, hgsr⟩ := relE_ok ih
          rw [hgs]
          simp only [pure, Except.pure, RelE]
          exact .cons hgr hgsr
    · rw [if_neg (fun h => h1 (hbase.mp h)), if_neg (fun h => h1 h.2)]
      cases hm : ts.mapM (fun t => if basety.size > 1 ∧ t.elem.size = 1 then retokenize t basety else pure t) with
      | error e =>
        rw [hm] at ih
        obtain ⟨e', he', hoe⟩ := relE_error ih
        rw [he']
        simp [RelE, hoe, bind, Except.bind, pure, Except.pure]
      | ok ts' =>
        rw [hm] at ih
        obtain ⟨gs, hgs, hgsr⟩ := relE_ok ih
        rw [hgs]
        simp only [RelE, bind, Except.bind, pure, Except.pure]
        exact .cons (rep_toTok t) hgsr

/-- without conversion (`basety->size ≤ 1`) the hand model's `mapM` is the identity -/
theorem mapM_id (basety : Ty) (hb : ¬ basety.size > 1) : ∀ ts : List StrTok,
    ts.mapM (fun t => if basety.size > 1 ∧ t.elem.size = 1 then retokenize t basety else pure t) = .ok ts
  | [] => rfl
  | t :: ts => by
    rw [List.mapM_cons, if_neg (fun h => hb h.1), mapM_id basety hb ts]
    rfl

theorem allPairs_rep_toTok : ∀ ts : List StrTok, AllPairs Rep (ts.map toTok) ts
  | [] => .nil
  | t :: ts => .cons (rep_toTok t) (allPairs_rep_toTok ts)

open ChibiVerif.Lemmas.Readers in
/-- after the first pass every token of a run with a common prefix has the element size of that prefix -/
theorem uniform_sizes (P : StrPrefix) (basety : Ty) (hbs : basety.size = P.elemSize) :
    ∀ (ts : List StrTok) (ps : List StrPrefix), AllPairs TokHasPrefix ts ps → ∀ (toks : List StrTok), (∀ p ∈ ps, p = .none ∨ p = P) →
      AllPairs (fun a b => (if basety.size > 1 ∧ a.elem.size = 1 then retokenize a basety else pure a) = Except.ok b) ts toks →
      ∀ x ∈ toks, x.elem.size = P.elemSize := by
  intro ts ps h1
  induction h1 with
  | nil => intro toks _ h2; cases h2; simp
  | @cons t p ts ps htp _ ih =>
    intro toks hp h2
    cases h2 with
    | @cons _ b _ toks' hab hrest =>
      intro x hx
      rcases List.mem_cons.mp hx with hxb | hx
      · subst hxb
        by_cases hc : basety.size > 1 ∧ t.elem.size = 1
        · rw [if_pos hc] at hab
          rw [retokenize_elem _ _ _ hab, hbs]
        · rw [if_neg hc] at hab
          simp only [pure, Except.pure, Except.ok.injEq] at hab
          subst hab
          rcases hp p (by simp) with h | h
          · have h1s : t.elem.size = 1 := by rw [htp.2, h]; rfl
            have := elemSize_cases P
            omega
          · rw [htp.2, h]
      · exact ih toks' (fun p hp' => hp p (by simp [hp'])) hrest x hx

open ChibiVerif.Lemmas.Readers in
/-- **`join_adjacent_string_literals` on one run: translation = hand model.**  For a run of at least two string-literal tokens as the
    tokenizer makes them (`TokHasPrefix`: the element size belongs to the prefix the text starts with), the translated first pass
    followed by the translated second pass ends in the diagnostic `joinStrings` ends in, or returns a token with the element type of
    `joinStrings`' result, `array_len` = its units + 1 and `str` = its units in memory order followed by one zero unit. -/
theorem joinRun_eq (t1 t2 : StrTok) (rest : List StrTok) (ps : List StrPrefix) (h : AllPairs TokHasPrefix (t1 :: t2 :: rest) ps) :
    RelE (fun r hd => r.base = hd.elem ∧ r.arrayLen = (hd.units.length : Int) + 1 ∧ r.str = strBytes hd.elem.size hd.units)
      (joinRun (toTok t1) ((t2 :: rest).map toTok)) (joinStrings (t1 :: t2 :: rest)) := by
  cases h with
  | @cons _ p1 _ ps' h1 hrest =>
    have hk1 := getStringKind_eq t1
    rw [h1.1] at hk1
    obtain ⟨k1, hk1e, hk1k⟩ := relE_ok hk1
    subst hk1k
    have hres := pass1_resolve (t2 :: rest) (kindOf p1) t1.elem
    unfold joinRun joinPass1
    simp only [joinStrings, h1.1, bind, Except.bind, hk1e]
    rw [show (toTok t1).base = t1.elem from rfl]
    cases hj : joinPrefixFrom p1 ps' with
    | none =>
      have hr := (resolveKind_spec _ _ hrest p1 t1.elem h1.2).1 hj
      rw [hr] at hres ⊢
      obtain ⟨e', he', hoe⟩ := relE_error hres
      rw [he']
      exact hoe
    | some P =>
      obtain ⟨basety, hr, hsz⟩ := (resolveKind_spec _ _ hrest p1 t1.elem h1.2).2 P hj
      rw [hr] at hres ⊢
      obtain ⟨⟨k', b'⟩, hg, hgk, hgb⟩ := relE_ok hres
      simp only at hgk hgb
      subst hgb
      rw [hg]
      simp only []
      have hall : ∀ p ∈ p1 :: ps', p = .none ∨ p = P :=
        ((joinPrefix_spec (p1 :: ps') P).mp (by simpa [joinPrefix, joinPrefixFrom] using hj)).1
      -- both branches end in the second pass on a run related token by token to the hand model's tokens
      have finish : ∀ (run : List Tok) (toks : List StrTok), AllPairs Rep run toks →
          (t1 :: t2 :: rest).mapM (fun t => if b'.size > 1 ∧ t.elem.size = 1 then retokenize t b' else pure t) = .ok toks →
          RelE (fun (r : Tok) (hd : StrTok) => r.base = hd.elem ∧ r.arrayLen = (hd.units.length : Int) + 1 ∧ r.str = strBytes hd.elem.size hd.units)
            (match (Except.ok run : Except JoinErr (List Tok)) with
              | .error e => .error e
              | .ok [] => .error .unreachable
              | .ok (a :: as) => joinPass2 a as)
            (match toks with
              | [] => .error .notALiteral
              | f :: _ => (pure (⟨f.elem, (toks.map (·.units)).flatten, t1.len, t1.src⟩ : StrTok) : Except LitErr StrTok)) := by
        intro run toks hrep hm
        have hu := uniform_sizes P b' hsz _ _ (.cons h1 hrest) toks hall (mapM_ok _ _ _ hm)
        cases hrep with
        | nil => have := mapM_ok _ _ _ hm; cases this
        | @cons a f as toks' haf hrest' =>
          simp only []
          rw [pass2_run P.elemSize a as f toks' (.cons haf hrest') hu]
          simp only [RelE, pure, Except.pure]
          refine ⟨haf.2.1, ?_, ?_⟩
          · simp [totalUnits]
          · rw [hu f (by simp)]
      by_cases hb : b'.size > 1
      · have hb' : ((b'.size : Int) > 1) := by omega
        rw [if_pos hb']
        have hc := pass1_convert b' hb (t1 :: t2 :: rest)
        cases hm : (t1 :: t2 :: rest).mapM (fun t => if b'.size > 1 ∧ t.elem.size = 1 then retokenize t b' else pure t) with
        | error e =>
          rw [hm] at hc
          obtain ⟨e', he', hoe⟩ := relE_error hc
          simp only [List.map_cons] at he'
          simp only [List.map_cons, he']
          exact hoe
        | ok toks =>
          rw [hm] at hc
          obtain ⟨run, hrun, hrep⟩ := relE_ok hc
          simp only [List.map_cons] at hrun
          simp only [List.map_cons, hrun]
          exact finish run toks hrep hm
      · have hb' : ¬ ((b'.size : Int) > 1) := by omega
        rw [if_neg hb', mapM_id b' hb]
        exact finish _ _ (allPairs_rep_toTok (t1 :: t2 :: rest)) (mapM_id b' hb _)

end ChibiVerif.Lemmas.Join
