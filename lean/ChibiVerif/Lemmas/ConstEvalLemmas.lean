/- Lemmas for C07: unfolding of the generated folder arm by arm, the int64 image of a C11 value,
   the wrapper of eval2 as the C11 conversion, one lemma per operator arm. -/
import ChibiVerif.Model.ConstElab
set_option linter.unusedSimpArgs false
set_option linter.unusedVariables false

namespace ChibiVerif.ConstEvalLemmas
open ChibiVerif.Host ChibiVerif.Gen.ConstEval ChibiVerif.Spec.Const ChibiVerif.ConstElab

/-! ## The generated `eval2`, arm by arm -/

/-- the wrapper at the end of `eval2`: reduce the host value to the width and signedness of the node's type -/
def wrapTy (ty : CTy) (v : BitVec 64) : BitVec 64 :=
  if isInteger ty then
    if ty.size == 1#32 then (if ty.isUnsigned then castU 64 (castS 8 v) else castS 64 (castS 8 v))
    else if ty.size == 2#32 then (if ty.isUnsigned then castU 64 (castS 16 v) else castS 64 (castS 16 v))
    else if ty.size == 4#32 then (if ty.isUnsigned then castU 64 (castS 32 v) else castS 64 (castS 32 v))
    else v
  else v

/-- `eval_truth` as inlined at its call sites -/
def truth (h : HostMode) (fp : FpEnv) (n : CNode) : Except Fail Bool :=
  (CNode.tyOf n) >>= fun t => if (isFlonum t) then (fp.neZero n) else ((eval2 h fp n false) >>= fun v => pure (v != (0#64)))

theorem truth_eq_evalTruth (h : HostMode) (fp : FpEnv) (n : CNode) : truth h fp n = evalTruth h fp n := rfl

/-- the wrapper exactly as generated -/
def wrapM (ty : CTy) (v_val : BitVec 64) : Except Fail (BitVec 64) :=
    if (isInteger ty) then
      if ty.size == (1#32) then
        pure (if ty.isUnsigned then (castU 64 (castS 8 v_val)) else (castS 64 (castS 8 v_val)))
      else if ty.size == (2#32) then
        pure (if ty.isUnsigned then (castU 64 (castS 16 v_val)) else (castS 64 (castS 16 v_val)))
      else if ty.size == (4#32) then
        pure (if ty.isUnsigned then (castU 64 (castS 32 v_val)) else (castS 64 (castS 32 v_val)))
      else pure v_val
    else
      pure v_val

theorem wrapM_eq (ty : CTy) (v : BitVec 64) : wrapM ty v = pure (wrapTy ty v) := by
  unfold wrapM wrapTy; (repeat' split) <;> rfl

theorem wrapK (ty : CTy) : wrapM ty = fun v => pure (wrapTy ty v) := funext (wrapM_eq ty)

/-- unfolds `eval2 (mk K ..)` to `raw >>= fun v => pure (wrapTy ty v)` -/
macro "arm" : tactic =>
  `(tactic| (rw [eval2]; simp only [*, Bool.false_eq_true, ite_false]; change (_ >>= wrapM _) = _; rw [wrapK]))

variable (h : HostMode) (fp : FpEnv) (ty : CTy) (nv : BitVec 64) (l r c t e : CNode) (label : Bool)

theorem eval2_null : eval2 h fp .null label = .error (.crash "NULL node dereferenced") := by rw [eval2]

theorem eval2_ADD (hf : isFlonum ty = false) :
    eval2 h fp (.mk .ND_ADD ty nv l r c t e) label
      = ((eval2 h fp l label >>= fun a => eval2 h fp r false >>= fun b => addS h a b) >>= fun v => pure (wrapTy ty v)) := by arm

theorem eval2_SUB (hf : isFlonum ty = false) :
    eval2 h fp (.mk .ND_SUB ty nv l r c t e) label
      = ((eval2 h fp l label >>= fun a => eval2 h fp r false >>= fun b => subS h a b) >>= fun v => pure (wrapTy ty v)) := by arm

theorem eval2_MUL (hf : isFlonum ty = false) :
    eval2 h fp (.mk .ND_MUL ty nv l r c t e) label
      = ((eval2 h fp l false >>= fun a => eval2 h fp r false >>= fun b => mulS h a b) >>= fun v => pure (wrapTy ty v)) := by arm

/-- the `ND_DIV`/`ND_MOD` arm after both operands are evaluated -/
def divmod (h : HostMode) (isDiv : Bool) (ty : CTy) (a b : BitVec 64) : Except Fail (BitVec 64) :=
  if b == 0#64 then .error (.diag "division by zero in a constant expression")
  else if ty.isUnsigned then (if isDiv then divU h a b else modU h a b)
  else if b == 18446744073709551615#64 then pure (if isDiv then -a else 0#64)
  else (if isDiv then divS h a b else modS h a b)

theorem eval2_DIV (hf : isFlonum ty = false) :
    eval2 h fp (.mk .ND_DIV ty nv l r c t e) label
      = ((eval2 h fp l false >>= fun a => eval2 h fp r false >>= fun b => divmod h true ty a b) >>= fun v => pure (wrapTy ty v)) := by
  arm; simp only [divmod, beq_self_eq_true, ite_true]

theorem eval2_MOD (hf : isFlonum ty = false) :
    eval2 h fp (.mk .ND_MOD ty nv l r c t e) label
      = ((eval2 h fp l false >>= fun a => eval2 h fp r false >>= fun b => divmod h false ty a b) >>= fun v => pure (wrapTy ty v)) := by
  arm; simp only [divmod, show (NodeKind.ND_MOD == NodeKind.ND_DIV) = false from rfl, Bool.false_eq_true, ite_false]

theorem eval2_NEG (hf : isFlonum ty = false) :
    eval2 h fp (.mk .ND_NEG ty nv l r c t e) label
      = ((eval2 h fp l false >>= fun a => negS h a) >>= fun v => pure (wrapTy ty v)) := by arm

theorem eval2_BITAND (hf : isFlonum ty = false) :
    eval2 h fp (.mk .ND_BITAND ty nv l r c t e) label
      = ((eval2 h fp l false >>= fun a => eval2 h fp r false >>= fun b => pure (a &&& b)) >>= fun v => pure (wrapTy ty v)) := by arm

theorem eval2_BITOR (hf : isFlonum ty = false) :
    eval2 h fp (.mk .ND_BITOR ty nv l r c t e) label
      = ((eval2 h fp l false >>= fun a => eval2 h fp r false >>= fun b => pure (a ||| b)) >>= fun v => pure (wrapTy ty v)) := by arm

theorem eval2_BITXOR (hf : isFlonum ty = false) :
    eval2 h fp (.mk .ND_BITXOR ty nv l r c t e) label
      = ((eval2 h fp l false >>= fun a => eval2 h fp r false >>= fun b => pure (a ^^^ b)) >>= fun v => pure (wrapTy ty v)) := by arm

theorem eval2_SHL (hf : isFlonum ty = false) :
    eval2 h fp (.mk .ND_SHL ty nv l r c t e) label
      = ((eval2 h fp l false >>= fun a => eval2 h fp r false >>= fun b => shlS h a b.toInt) >>= fun v => pure (wrapTy ty v)) := by arm

theorem eval2_SHR (hf : isFlonum ty = false) :
    eval2 h fp (.mk .ND_SHR ty nv l r c t e) label
      = ((eval2 h fp l false >>= fun a => eval2 h fp r false >>= fun b =>
            if (ty.isUnsigned && (ty.size == (8#32))) then shrU h a b.toInt else shrS h a b.toInt) >>= fun v => pure (wrapTy ty v)) := by
  arm; split <;> rfl

/-- comparison arms: `cmpU`/`cmpS` are the unsigned / signed host comparisons; EQ and NE do not look at signedness -/
def cmpArm (h : HostMode) (fp : FpEnv) (op : String) (cu cs : BitVec 64 → BitVec 64 → Bool) (l r : CNode) : Except Fail (BitVec 64) :=
  (CNode.tyOf l) >>= fun tl =>
    if isFlonum tl then (fp.cmp op l r >>= fun b => pure (castS 64 (b2i b)))
    else if tl.isUnsigned then (eval2 h fp l false >>= fun a => eval2 h fp r false >>= fun b => pure (castS 64 (b2i (cu a b))))
    else (eval2 h fp l false >>= fun a => eval2 h fp r false >>= fun b => pure (castS 64 (b2i (cs a b))))

theorem eval2_EQ (hf : isFlonum ty = false) :
    eval2 h fp (.mk .ND_EQ ty nv l r c t e) label
      = (cmpArm h fp "==" (· == ·) (· == ·) l r >>= fun v => pure (wrapTy ty v)) := by
  arm; simp only [cmpArm]; congr 1; congr 1; funext tl; split <;> simp

theorem eval2_NE (hf : isFlonum ty = false) :
    eval2 h fp (.mk .ND_NE ty nv l r c t e) label
      = (cmpArm h fp "!=" (· != ·) (· != ·) l r >>= fun v => pure (wrapTy ty v)) := by
  arm; simp only [cmpArm]; congr 1; congr 1; funext tl; split <;> simp

theorem eval2_LT (hf : isFlonum ty = false) :
    eval2 h fp (.mk .ND_LT ty nv l r c t e) label
      = (cmpArm h fp "<" BitVec.ult BitVec.slt l r >>= fun v => pure (wrapTy ty v)) := by
  arm; simp only [cmpArm]; congr 1
  cases l with
  | null => rfl
  | mk k2 t2 v2 a2 b2 c2 d2 e2 =>
    simp only [CNode.tyOf, bind, Except.bind]

theorem eval2_LE (hf : isFlonum ty = false) :
    eval2 h fp (.mk .ND_LE ty nv l r c t e) label
      = (cmpArm h fp "<=" BitVec.ule BitVec.sle l r >>= fun v => pure (wrapTy ty v)) := by
  arm; simp only [cmpArm]; congr 1
  cases l with
  | null => rfl
  | mk k2 t2 v2 a2 b2 c2 d2 e2 =>
    simp only [CNode.tyOf, bind, Except.bind]

theorem eval2_COND (hf : isFlonum ty = false) :
    eval2 h fp (.mk .ND_COND ty nv l r c t e) label
      = ((truth h fp c >>= fun b => if b then eval2 h fp t label else eval2 h fp e label) >>= fun v => pure (wrapTy ty v)) := by
  arm; rfl

theorem eval2_COMMA (hf : isFlonum ty = false) :
    eval2 h fp (.mk .ND_COMMA ty nv l r c t e) label
      = (eval2 h fp r label >>= fun v => pure (wrapTy ty v)) := by arm

theorem eval2_NOT (hf : isFlonum ty = false) :
    eval2 h fp (.mk .ND_NOT ty nv l r c t e) label
      = ((truth h fp l >>= fun b => pure (castS 64 (b2i (!b)))) >>= fun v => pure (wrapTy ty v)) := by
  arm; rfl

theorem eval2_BITNOT (hf : isFlonum ty = false) :
    eval2 h fp (.mk .ND_BITNOT ty nv l r c t e) label
      = ((eval2 h fp l false >>= fun a => pure (~~~a)) >>= fun v => pure (wrapTy ty v)) := by arm

theorem eval2_LOGAND (hf : isFlonum ty = false) :
    eval2 h fp (.mk .ND_LOGAND ty nv l r c t e) label
      = ((truth h fp l >>= fun a => (if a then truth h fp r else pure false) >>= fun b => pure (castS 64 (b2i b))) >>= fun v => pure (wrapTy ty v)) := by
  arm; rfl

theorem eval2_LOGOR (hf : isFlonum ty = false) :
    eval2 h fp (.mk .ND_LOGOR ty nv l r c t e) label
      = ((truth h fp l >>= fun a => (if a then pure true else truth h fp r) >>= fun b => pure (castS 64 (b2i b))) >>= fun v => pure (wrapTy ty v)) := by
  arm; rfl

theorem eval2_CAST (hf : isFlonum ty = false) :
    eval2 h fp (.mk .ND_CAST ty nv l r c t e) label
      = ((if ty.kind == TypeKind.TY_BOOL then
            (CNode.tyOf l) >>= fun tl =>
              if isFlonum tl then (fp.neZero l >>= fun b => pure (castS 64 (b2i b)))
              else (eval2 h fp l label >>= fun a => pure (castS 64 (b2i (a != (0#64)))))
          else eval2 h fp l label) >>= fun v => pure (wrapTy ty v)) := by
  arm

theorem eval2_NUM (hf : isFlonum ty = false) :
    eval2 h fp (.mk .ND_NUM ty nv l r c t e) label = pure (wrapTy ty nv) := by
  arm; rfl

/-! ## The int64 image of a mathematical value, and the wrapper as the C11 conversion -/

/-- the `int64_t` the folder holds for the C11 value `x` (two's complement, also for `unsigned long` values ≥ 2^63) -/
abbrev img (x : Int) : BitVec 64 := BitVec.ofInt 64 x

theorem wrapS8 (x : Int) : castS 64 (castS 8 (img x)) = img ((x + 128) % 256 - 128) := by
  apply BitVec.eq_of_toInt_eq
  simp only [castS, img]
  rw [BitVec.toInt_signExtend_of_le (by decide), BitVec.signExtend_eq_setWidth_of_le _ (by decide),
    BitVec.toInt_setWidth, BitVec.toNat_ofInt, BitVec.toInt_ofInt]
  simp only [Int.bmod_def]
  omega

theorem wrapS16 (x : Int) : castS 64 (castS 16 (img x)) = img ((x + 32768) % 65536 - 32768) := by
  apply BitVec.eq_of_toInt_eq
  simp only [castS, img]
  rw [BitVec.toInt_signExtend_of_le (by decide), BitVec.signExtend_eq_setWidth_of_le _ (by decide),
    BitVec.toInt_setWidth, BitVec.toNat_ofInt, BitVec.toInt_ofInt]
  simp only [Int.bmod_def]
  omega

theorem wrapS32 (x : Int) : castS 64 (castS 32 (img x)) = img ((x + 2147483648) % 4294967296 - 2147483648) := by
  apply BitVec.eq_of_toInt_eq
  simp only [castS, img]
  rw [BitVec.toInt_signExtend_of_le (by decide), BitVec.signExtend_eq_setWidth_of_le _ (by decide),
    BitVec.toInt_setWidth, BitVec.toNat_ofInt, BitVec.toInt_ofInt]
  simp only [Int.bmod_def]
  omega

theorem wrapU8 (x : Int) : castU 64 (castS 8 (img x)) = img (x % 256) := by
  apply BitVec.eq_of_toNat_eq
  simp only [castS, castU, img]
  rw [BitVec.signExtend_eq_setWidth_of_le _ (by decide), BitVec.toNat_setWidth, BitVec.toNat_setWidth,
    BitVec.toNat_ofInt, BitVec.toNat_ofInt]
  omega

theorem wrapU16 (x : Int) : castU 64 (castS 16 (img x)) = img (x % 65536) := by
  apply BitVec.eq_of_toNat_eq
  simp only [castS, castU, img]
  rw [BitVec.signExtend_eq_setWidth_of_le _ (by decide), BitVec.toNat_setWidth, BitVec.toNat_setWidth,
    BitVec.toNat_ofInt, BitVec.toNat_ofInt]
  omega

theorem wrapU32 (x : Int) : castU 64 (castS 32 (img x)) = img (x % 4294967296) := by
  apply BitVec.eq_of_toNat_eq
  simp only [castS, castU, img]
  rw [BitVec.signExtend_eq_setWidth_of_le _ (by decide), BitVec.toNat_setWidth, BitVec.toNat_setWidth,
    BitVec.toNat_ofInt, BitVec.toNat_ofInt]
  omega

/-- images agree iff the values are congruent modulo 2^64 -/
theorem img_congr (x y : Int) (hxy : x % 18446744073709551616 = y % 18446744073709551616) : img x = img y := by
  apply BitVec.eq_of_toNat_eq
  simp only [img, BitVec.toNat_ofInt]
  have : ((2 ^ 64 : Nat) : Int) = 18446744073709551616 := by decide
  rw [this, hxy]

/-- **the wrapper of `eval2` is the C11 conversion to the node's type** (every type but `_Bool`, whose conversion is a test) -/
theorem wrap_convert (t : ITy) (ht : t ≠ .bool) (x : Int) : wrapTy (descr t) (img x) = img (t.convert x) := by
  cases t with
  | bool => exact absurd rfl ht
  | i8 => simpa [wrapTy, descr, isInteger, ITy.convert, ITy.signed, ITy.bits] using wrapS8 x
  | u8 => simpa [wrapTy, descr, isInteger, ITy.convert, ITy.signed, ITy.bits] using wrapU8 x
  | i16 => simpa [wrapTy, descr, isInteger, ITy.convert, ITy.signed, ITy.bits] using wrapS16 x
  | u16 => simpa [wrapTy, descr, isInteger, ITy.convert, ITy.signed, ITy.bits] using wrapU16 x
  | i32 => simpa [wrapTy, descr, isInteger, ITy.convert, ITy.signed, ITy.bits] using wrapS32 x
  | u32 => simpa [wrapTy, descr, isInteger, ITy.convert, ITy.signed, ITy.bits] using wrapU32 x
  | i64 =>
    simp [wrapTy, descr, isInteger, ITy.convert, ITy.signed, ITy.bits]
    apply img_congr; omega
  | u64 =>
    simp [wrapTy, descr, isInteger, ITy.convert, ITy.signed, ITy.bits]
    apply img_congr; omega

/-! ## Ranges -/

theorem inRange_iff (t : ITy) (v : Int) : t.inRange v = true ↔ (t.minV ≤ v ∧ v ≤ t.maxV) := by
  simp [ITy.inRange]

/-- unfold a range hypothesis / goal to numerals -/
macro "rng" : tactic => `(tactic| simp only [inRange_iff, ITy.minV, ITy.maxV, ITy.signed, ITy.bits, ite_true, ite_false,
   Bool.false_eq_true, Nat.reduceSub, Int.reducePow, Int.reduceNeg, Int.reduceSub, Nat.reducePow] at *)

theorem convert_inRange (t : ITy) (x : Int) : t.inRange (t.convert x) = true := by
  cases t <;> simp only [ITy.convert] <;> rng <;> (try split) <;> omega

theorem convert_id (t : ITy) (x : Int) (h : t.inRange x = true) : t.convert x = x := by
  cases t <;> simp only [ITy.convert] <;> rng <;> (try split) <;> omega

theorem inRange_wide (t : ITy) (x : Int) (h : t.inRange x = true) :
    -9223372036854775808 ≤ x ∧ x ≤ 18446744073709551615 := by
  cases t <;> rng <;> omega

theorem img_toInt (x : Int) (h1 : -9223372036854775808 ≤ x) (h2 : x ≤ 9223372036854775807) : (img x).toInt = x := by
  apply BitVec.toInt_ofInt_eq_self (by decide) <;> simp <;> omega

theorem img_toNat (x : Int) (h1 : 0 ≤ x) (h2 : x ≤ 18446744073709551615) : ((img x).toNat : Int) = x := by
  simp only [img, BitVec.toNat_ofInt]
  have : ((2 ^ 64 : Nat) : Int) = 18446744073709551616 := by decide
  rw [this]; omega

theorem img_eq_zero_iff (x : Int) (h1 : -9223372036854775808 ≤ x) (h2 : x ≤ 18446744073709551615) :
    img x = 0#64 ↔ x = 0 := by
  constructor
  · intro h
    have := congrArg BitVec.toNat h
    simp only [img, BitVec.toNat_ofInt, BitVec.toNat_ofNat] at this
    have e : ((2 ^ 64 : Nat) : Int) = 18446744073709551616 := by decide
    rw [e] at this
    omega
  · intro h; subst h; rfl

/-! ## Typing of the elaborated tree -/

theorem descr_not_flonum (t : ITy) : isFlonum (descr t) = false := by cases t <;> rfl
theorem descr_integer (t : ITy) : isInteger (descr t) = true := by cases t <;> rfl

theorem gct_descr (a b : ITy) : getCommonType (descr a) (descr b) = descr (ITy.common a b) := by
  cases a <;> cases b <;> rfl

theorem gct_int (a : ITy) : getCommonType tyInt (descr a) = descr a.promote := by
  cases a <;> rfl

theorem common_promote (a : ITy) : ITy.common .i32 a = a.promote := by cases a <;> rfl

@[simp] theorem nodeTy_mk (k : NodeKind) (ty : CTy) (v : BitVec 64) (a b c d e : CNode) : nodeTy (.mk k ty v a b c d e) = ty := rfl

theorem elab_ty (e : CExpr) : nodeTy (elabE e) = descr (typeOf e) := by
  induction e with
  | lit t v => rfl
  | un op e ih =>
    cases op with
    | neg => simp only [elabE, mkPromoted, nodeTy_mk, typeOf, ih, gct_int]
    | bitnot => simp only [elabE, mkPromoted, nodeTy_mk, typeOf, ih, gct_int]
    | lognot => rfl
    | plus =>
      simp only [elabE, typeOf]
      generalize elabE e = n at ih ⊢
      generalize typeOf e = t at ih ⊢
      cases t <;> simp [ih, descr, isInteger, mkCast, un, tyInt, ITy.promote]
  | bin op a b iha ihb =>
    cases op <;> simp only [elabE, mkArith, mkCompare, mkPromoted, bin, mkCast, un, nodeTy_mk, typeOf, iha, ihb, gct_descr, gct_int] <;> rfl
  | land a b _ _ => rfl
  | lor a b _ _ => rfl
  | cond c a b _ iha ihb => simp only [elabE, nodeTy_mk, typeOf, iha, ihb, gct_descr]
  | cast t e _ => rfl

/-! ## Casts -/

/-- a node that evaluates is not NULL, so `node->ty` succeeds -/
theorem tyOf_of_eval {h : HostMode} {fp : FpEnv} {n : CNode} {l : Bool} {v : BitVec 64}
    (hn : eval2 h fp n l = .ok v) : CNode.tyOf n = .ok (nodeTy n) := by
  cases n with
  | null => rw [eval2_null] at hn; cases hn
  | mk => rfl

theorem b2i_castS (b : Bool) : castS 64 (b2i b) = img (b2z b) := by cases b <;> decide

theorem wrap_bool01 (b : Bool) : wrapTy (descr .bool) (img (b2z b)) = img (b2z b) := by cases b <;> decide

theorem wrap_int01 (b : Bool) : wrapTy tyInt (img (b2z b)) = img (b2z b) := by cases b <;> decide

/-- **ND_CAST**: casting a node whose value is the image of `x` yields the image of the C11 conversion -/
theorem eval2_mkCast (fp : FpEnv) (n : CNode) (t : ITy) (x : Int) (label : Bool)
    (hn : eval2 .wrapping fp n label = .ok (img x))
    (hx : -9223372036854775808 ≤ x ∧ x ≤ 18446744073709551615)
    (hnf : isFlonum (nodeTy n) = false) :
    eval2 .wrapping fp (mkCast n (descr t)) label = .ok (img (t.convert x)) := by
  simp only [mkCast, un]
  rw [eval2_CAST _ _ _ _ _ _ _ _ _ _ (descr_not_flonum t)]
  by_cases hb : t = .bool
  · subst hb
    have hz := img_eq_zero_iff x hx.1 hx.2
    simp only [descr, tyOf_of_eval hn, hnf, hn, bind, Except.bind, pure, Except.pure]
    simp only [show (TypeKind.TY_BOOL == TypeKind.TY_BOOL) = true from rfl, ite_true, Bool.false_eq_true, ite_false]
    have : (img x != 0#64) = (x != 0) := by
      rw [Bool.eq_iff_iff]; simp only [bne_iff_ne, ne_eq]; exact not_congr hz
    rw [this, b2i_castS]
    have : ITy.convert .bool x = b2z (x != 0) := by
      simp only [ITy.convert, b2z]; by_cases h0 : x = 0 <;> simp [h0]
    rw [this]
    exact congrArg Except.ok (wrap_bool01 _)
  · have hk : ((descr t).kind == TypeKind.TY_BOOL) = false := by cases t <;> first | rfl | exact absurd rfl hb
    simp only [hk, Bool.false_eq_true, ite_false, hn, bind, Except.bind, pure, Except.pure]
    exact congrArg Except.ok (wrap_convert t hb x)

/-! ## Host operators on images -/

theorem img_add (x y : Int) : img x + img y = img (x + y) := (BitVec.ofInt_add x y).symm
theorem img_mul (x y : Int) : img x * img y = img (x * y) := (BitVec.ofInt_mul x y).symm
theorem img_neg (x : Int) : - img x = img (-x) := BitVec.ofInt_neg.symm
theorem img_sub (x y : Int) : img x - img y = img (x - y) := by
  rw [BitVec.sub_eq_add_neg, img_neg, img_add, Int.sub_eq_add_neg]

/-- a 64-bit vector is the image of its signed value -/
theorem img_of_toInt (b : BitVec 64) : b = img b.toInt := BitVec.ofInt_toInt.symm

theorem img_bmod (x : Int) : img (x.bmod (2 ^ 64)) = img x := by
  apply img_congr
  have := @Int.bmod_emod x (2 ^ 64)
  have e : ((2 ^ 64 : Nat) : Int) = 18446744073709551616 := by decide
  rw [e] at this; exact this

theorem img_sdiv (x y : Int) (hx : -9223372036854775808 ≤ x ∧ x ≤ 9223372036854775807)
    (hy : -9223372036854775808 ≤ y ∧ y ≤ 9223372036854775807) :
    (img x).sdiv (img y) = img (x.tdiv y) := by
  rw [img_of_toInt ((img x).sdiv (img y)), BitVec.toInt_sdiv, img_toInt x hx.1 hx.2, img_toInt y hy.1 hy.2]
  exact img_bmod _

theorem img_srem (x y : Int) (hx : -9223372036854775808 ≤ x ∧ x ≤ 9223372036854775807)
    (hy : -9223372036854775808 ≤ y ∧ y ≤ 9223372036854775807) :
    (img x).srem (img y) = img (x.tmod y) := by
  rw [img_of_toInt ((img x).srem (img y)), BitVec.toInt_srem, img_toInt x hx.1 hx.2, img_toInt y hy.1 hy.2]

theorem img_nat (n : Nat) (hn : n ≤ 18446744073709551615) : (img (n : Int)).toNat = n := by
  have := img_toNat (n : Int) (by omega) (by omega)
  omega

theorem img_udiv (x y : Int) (hx : 0 ≤ x ∧ x ≤ 18446744073709551615) (hy : 0 ≤ y ∧ y ≤ 18446744073709551615) :
    img x / img y = img (x.tdiv y) := by
  obtain ⟨nx, rfl⟩ := Int.eq_ofNat_of_zero_le hx.1
  obtain ⟨ny, rfl⟩ := Int.eq_ofNat_of_zero_le hy.1
  apply BitVec.eq_of_toNat_eq
  rw [BitVec.toNat_udiv, ← Int.ofNat_tdiv, img_nat nx (by omega), img_nat ny (by omega), img_nat]
  have : nx / ny ≤ nx := Nat.div_le_self _ _
  omega

theorem img_umod (x y : Int) (hx : 0 ≤ x ∧ x ≤ 18446744073709551615) (hy : 0 ≤ y ∧ y ≤ 18446744073709551615) :
    img x % img y = img (x.tmod y) := by
  obtain ⟨nx, rfl⟩ := Int.eq_ofNat_of_zero_le hx.1
  obtain ⟨ny, rfl⟩ := Int.eq_ofNat_of_zero_le hy.1
  apply BitVec.eq_of_toNat_eq
  have e : ((nx : Int) % (ny : Int)) = ((nx % ny : Nat) : Int) := by norm_cast
  rw [BitVec.toNat_umod, Int.tmod_eq_emod_of_nonneg (by omega), e, img_nat nx (by omega), img_nat ny (by omega), img_nat]
  have : nx % ny ≤ nx := Nat.mod_le _ _
  omega

theorem img_shl (x : Int) (n : Nat) (hn : n < 64) : img x <<< n = img (x * 2 ^ n) := by
  rw [BitVec.shiftLeft_eq_mul_twoPow, ← img_mul]
  congr 1
  apply BitVec.eq_of_toNat_eq
  rw [BitVec.toNat_twoPow]
  have : ((2 : Int) ^ n) = ((2 ^ n : Nat) : Int) := by simp
  have lt : 2 ^ n < 2 ^ 64 := Nat.pow_lt_pow_right (by decide) hn
  rw [this, img_nat _ (by have : (2:Nat) ^ 64 = 18446744073709551616 := by decide
                          omega)]
  exact Nat.mod_eq_of_lt lt

theorem img_ushr (x : Int) (n : Nat) (hx : 0 ≤ x ∧ x ≤ 18446744073709551615) : img x >>> n = img (x / 2 ^ n) := by
  obtain ⟨nx, rfl⟩ := Int.eq_ofNat_of_zero_le hx.1
  apply BitVec.eq_of_toNat_eq
  have : ((nx : Int) / 2 ^ n) = ((nx / 2 ^ n : Nat) : Int) := by simp
  rw [BitVec.toNat_ushiftRight, Nat.shiftRight_eq_div_pow, this, img_nat nx (by omega), img_nat]
  have : nx / 2 ^ n ≤ nx := Nat.div_le_self _ _
  omega

theorem img_sshr (x : Int) (n : Nat) (hx : -9223372036854775808 ≤ x ∧ x ≤ 9223372036854775807) :
    (img x).sshiftRight n = img (x / 2 ^ n) := by
  rw [img_of_toInt ((img x).sshiftRight n), BitVec.toInt_sshiftRight, img_toInt x hx.1 hx.2, Int.shiftRight_eq_div_pow]
  simp


/-! ## One lemma per operator arm -/

/-- the types that survive promotion: results of the usual arithmetic conversions -/
def Wide (t : ITy) : Prop := t = .i32 ∨ t = .u32 ∨ t = .i64 ∨ t = .u64

theorem common_wide (a b : ITy) : Wide (ITy.common a b) := by cases a <;> cases b <;> simp [Wide, ITy.common, ITy.promote]
theorem promote_wide (a : ITy) : Wide a.promote := by cases a <;> simp [Wide, ITy.promote]
theorem Wide.ne_bool {t : ITy} (h : Wide t) : t ≠ .bool := by rcases h with h | h | h | h <;> subst h <;> decide

theorem arith_convert (t : ITy) (ht : t ≠ .bool) (r v : Int) (h : Spec.Const.arith t r = some v) : v = t.convert r := by
  unfold Spec.Const.arith at h
  split at h
  · split at h
    · cases h; exact (convert_id t r ‹_›).symm
    · cases h
  · cases h
    cases t <;> simp_all [ITy.convert, ITy.signed, ITy.bits]

/-- the common last step: the raw host result is the image of the mathematical result `r` -/
theorem arm_result (t : ITy) (ht : t ≠ .bool) (raw : BitVec 64) (r v : Int) (hraw : raw = img r)
    (hv : Spec.Const.arith t r = some v) : wrapTy (descr t) raw = img v ∧ t.inRange v = true := by
  have := arith_convert t ht r v hv
  subst this hraw
  exact ⟨wrap_convert t ht r, convert_inRange t r⟩

variable (fp : FpEnv) (t : ITy) (l r : CNode) (x y v : Int) (label : Bool)

theorem fold_add (ht : t ≠ .bool)
    (hl : ∀ lab, eval2 .wrapping fp l lab = .ok (img x)) (hr : ∀ lab, eval2 .wrapping fp r lab = .ok (img y))
    (hv : binop .add t x y = some v) :
    eval2 .wrapping fp (bin .ND_ADD (descr t) l r) label = .ok (img v) ∧ t.inRange v = true := by
  have ⟨h1, h2⟩ := arm_result t ht (img x + img y) (x + y) v (img_add x y) hv
  refine ⟨?_, h2⟩
  simp only [bin]; rw [eval2_ADD _ _ _ _ _ _ _ _ _ _ (descr_not_flonum t)]
  simp only [hl, hr, bind, Except.bind, pure, Except.pure, addS, ovf, h1]

theorem fold_sub (ht : t ≠ .bool)
    (hl : ∀ lab, eval2 .wrapping fp l lab = .ok (img x)) (hr : ∀ lab, eval2 .wrapping fp r lab = .ok (img y))
    (hv : binop .sub t x y = some v) :
    eval2 .wrapping fp (bin .ND_SUB (descr t) l r) label = .ok (img v) ∧ t.inRange v = true := by
  have ⟨h1, h2⟩ := arm_result t ht (img x - img y) (x - y) v (img_sub x y) hv
  refine ⟨?_, h2⟩
  simp only [bin]; rw [eval2_SUB _ _ _ _ _ _ _ _ _ _ (descr_not_flonum t)]
  simp only [hl, hr, bind, Except.bind, pure, Except.pure, subS, ovf, h1]

theorem fold_mul (ht : t ≠ .bool)
    (hl : ∀ lab, eval2 .wrapping fp l lab = .ok (img x)) (hr : ∀ lab, eval2 .wrapping fp r lab = .ok (img y))
    (hv : binop .mul t x y = some v) :
    eval2 .wrapping fp (bin .ND_MUL (descr t) l r) label = .ok (img v) ∧ t.inRange v = true := by
  have ⟨h1, h2⟩ := arm_result t ht (img x * img y) (x * y) v (img_mul x y) hv
  refine ⟨?_, h2⟩
  simp only [bin]; rw [eval2_MUL _ _ _ _ _ _ _ _ _ _ (descr_not_flonum t)]
  simp only [hl, hr, bind, Except.bind, pure, Except.pure, mulS, ovf, h1]


theorem img_eq_negOne_iff (y : Int) (hy : -9223372036854775808 ≤ y ∧ y ≤ 9223372036854775807) :
    img y = 18446744073709551615#64 ↔ y = -1 := by
  constructor
  · intro h
    have := congrArg BitVec.toInt h
    rw [img_toInt y hy.1 hy.2] at this
    rw [this]; decide
  · intro h; subst h; decide

theorem beq_false_of_ne {α} [BEq α] [LawfulBEq α] {a b : α} (h : a ≠ b) : (a == b) = false := by
  simpa using h

variable (t : ITy) (x y : Int)

theorem divmod_div (hw : Wide t) (hx : t.inRange x = true) (hy : t.inRange y = true) (hy0 : y ≠ 0) :
    divmod .wrapping true (descr t) (img x) (img y) = .ok (img (x.tdiv y)) := by
  have hyw := inRange_wide t y hy
  have hz : img y ≠ 0#64 := fun h => hy0 ((img_eq_zero_iff y hyw.1 hyw.2).1 h)
  have hz' : ¬ (img y = 0) := hz
  unfold divmod
  rw [beq_false_of_ne hz]
  rcases hw with h | h | h | h <;> subst h <;> rng
  · -- i32
    simp only [descr, Bool.false_eq_true, ite_false, ite_true]
    by_cases h1 : y = -1
    · subst h1
      simp only [show (img (-1) == 18446744073709551615#64) = true from by decide, ite_true, pure, Except.pure,
        img_neg, Int.tdiv_neg, Int.tdiv_one]
    · have hn : img y ≠ 18446744073709551615#64 := fun h => h1 ((img_eq_negOne_iff y (by omega)).1 h)
      have hn' : img y ≠ -1 := hn
      rw [beq_false_of_ne hn]
      simp only [Bool.false_eq_true, ite_false, divS, hz', hn', ↓reduceIte, and_false, img_sdiv x y (by omega) (by omega)]
  · -- u32
    simp only [descr, ite_true, divU, hz', ↓reduceIte, img_udiv x y (by omega) (by omega)]
  · -- i64
    simp only [descr, Bool.false_eq_true, ite_false, ite_true]
    by_cases h1 : y = -1
    · subst h1
      simp only [show (img (-1) == 18446744073709551615#64) = true from by decide, ite_true, pure, Except.pure,
        img_neg, Int.tdiv_neg, Int.tdiv_one]
    · have hn : img y ≠ 18446744073709551615#64 := fun h => h1 ((img_eq_negOne_iff y (by omega)).1 h)
      have hn' : img y ≠ -1 := hn
      rw [beq_false_of_ne hn]
      simp only [Bool.false_eq_true, ite_false, divS, hz', hn', ↓reduceIte, and_false, img_sdiv x y (by omega) (by omega)]
  · -- u64
    simp only [descr, ite_true, divU, hz', ↓reduceIte, img_udiv x y (by omega) (by omega)]

theorem divmod_mod (hw : Wide t) (hx : t.inRange x = true) (hy : t.inRange y = true) (hy0 : y ≠ 0) :
    divmod .wrapping false (descr t) (img x) (img y) = .ok (img (x.tmod y)) := by
  have hyw := inRange_wide t y hy
  have hz : img y ≠ 0#64 := fun h => hy0 ((img_eq_zero_iff y hyw.1 hyw.2).1 h)
  have hz' : ¬ (img y = 0) := hz
  unfold divmod
  rw [beq_false_of_ne hz]
  rcases hw with h | h | h | h <;> subst h <;> rng
  · simp only [descr, Bool.false_eq_true, ite_false, ite_true]
    by_cases h1 : y = -1
    · subst h1
      simp only [show (img (-1) == 18446744073709551615#64) = true from by decide, ite_true, pure, Except.pure,
        Int.tmod_neg, Int.tmod_one]; rfl
    · have hn : img y ≠ 18446744073709551615#64 := fun h => h1 ((img_eq_negOne_iff y (by omega)).1 h)
      have hn' : img y ≠ -1 := hn
      rw [beq_false_of_ne hn]
      simp only [Bool.false_eq_true, ite_false, modS, hz', hn', ↓reduceIte, and_false, img_srem x y (by omega) (by omega)]
  · simp only [descr, ite_true, modU, hz', ↓reduceIte, Bool.false_eq_true, img_umod x y (by omega) (by omega)]
  · simp only [descr, Bool.false_eq_true, ite_false, ite_true]
    by_cases h1 : y = -1
    · subst h1
      simp only [show (img (-1) == 18446744073709551615#64) = true from by decide, ite_true, pure, Except.pure,
        Int.tmod_neg, Int.tmod_one]; rfl
    · have hn : img y ≠ 18446744073709551615#64 := fun h => h1 ((img_eq_negOne_iff y (by omega)).1 h)
      have hn' : img y ≠ -1 := hn
      rw [beq_false_of_ne hn]
      simp only [Bool.false_eq_true, ite_false, modS, hz', hn', ↓reduceIte, and_false, img_srem x y (by omega) (by omega)]
  · simp only [descr, ite_true, modU, hz', ↓reduceIte, Bool.false_eq_true, img_umod x y (by omega) (by omega)]

section arms2
variable (fp : FpEnv) (t : ITy) (l r : CNode) (x y v : Int) (label : Bool)

theorem fold_div (hw : Wide t)
    (hl : ∀ lab, eval2 .wrapping fp l lab = .ok (img x)) (hr : ∀ lab, eval2 .wrapping fp r lab = .ok (img y))
    (hx : t.inRange x = true) (hy : t.inRange y = true) (hv : binop .div t x y = some v) :
    eval2 .wrapping fp (bin .ND_DIV (descr t) l r) label = .ok (img v) ∧ t.inRange v = true := by
  simp only [binop] at hv
  split at hv
  · cases hv
  · rename_i hy0
    have ⟨h1, h2⟩ := arm_result t hw.ne_bool (img (x.tdiv y)) (x.tdiv y) v rfl hv
    refine ⟨?_, h2⟩
    simp only [bin]; rw [eval2_DIV _ _ _ _ _ _ _ _ _ _ (descr_not_flonum t)]
    simp only [hl, hr, bind, Except.bind, pure, Except.pure, divmod_div t x y hw hx hy hy0, h1]

theorem tmod_inRange (hw : Wide t) (hx : t.inRange x = true) (hy : t.inRange y = true) : t.inRange (x.tmod y) = true := by
  have h1 := Int.natAbs_tmod x y
  have h2 : x.natAbs % y.natAbs ≤ x.natAbs := Nat.mod_le _ _
  have h3 : 0 ≤ x → 0 ≤ x.tmod y := Int.tmod_nonneg y
  have h4 : x ≤ 0 → x.tmod y ≤ 0 := by
    intro hx0
    have := Int.tmod_nonneg y (show 0 ≤ -x by omega)
    rw [Int.neg_tmod] at this; omega
  rcases hw with h | h | h | h <;> subst h <;> rng <;> omega

theorem fold_mod (hw : Wide t)
    (hl : ∀ lab, eval2 .wrapping fp l lab = .ok (img x)) (hr : ∀ lab, eval2 .wrapping fp r lab = .ok (img y))
    (hx : t.inRange x = true) (hy : t.inRange y = true) (hv : binop .mod t x y = some v) :
    eval2 .wrapping fp (bin .ND_MOD (descr t) l r) label = .ok (img v) ∧ t.inRange v = true := by
  simp only [binop] at hv
  split at hv
  · cases hv
  · rename_i hy0
    split at hv
    · cases hv
    · cases hv
      have hr' := tmod_inRange t x y hw hx hy
      refine ⟨?_, hr'⟩
      simp only [bin]; rw [eval2_MOD _ _ _ _ _ _ _ _ _ _ (descr_not_flonum t)]
      simp only [hl, hr, bind, Except.bind, pure, Except.pure, divmod_mod t x y hw hx hy hy0,
        wrap_convert t hw.ne_bool, convert_id t _ hr']

/-- bitwise operators: the raw result is the image of its own signed value, which is what the Spec converts -/
theorem fold_bitwise (f : BitVec 64 → BitVec 64 → BitVec 64) (ht : t ≠ .bool) :
    wrapTy (descr t) (f (img x) (img y)) = img (bitwise f t x y) ∧ t.inRange (bitwise f t x y) = true := by
  unfold bitwise
  refine ⟨?_, convert_inRange t _⟩
  rw [← wrap_convert t ht, ← img_of_toInt]

theorem fold_band (ht : t ≠ .bool)
    (hl : ∀ lab, eval2 .wrapping fp l lab = .ok (img x)) (hr : ∀ lab, eval2 .wrapping fp r lab = .ok (img y))
    (hv : binop .band t x y = some v) :
    eval2 .wrapping fp (bin .ND_BITAND (descr t) l r) label = .ok (img v) ∧ t.inRange v = true := by
  simp only [binop] at hv; cases hv
  have ⟨h1, h2⟩ := fold_bitwise t x y (· &&& ·) ht
  refine ⟨?_, h2⟩
  simp only [bin]; rw [eval2_BITAND _ _ _ _ _ _ _ _ _ _ (descr_not_flonum t)]
  simp only [hl, hr, bind, Except.bind, pure, Except.pure, h1]

theorem fold_bor (ht : t ≠ .bool)
    (hl : ∀ lab, eval2 .wrapping fp l lab = .ok (img x)) (hr : ∀ lab, eval2 .wrapping fp r lab = .ok (img y))
    (hv : binop .bor t x y = some v) :
    eval2 .wrapping fp (bin .ND_BITOR (descr t) l r) label = .ok (img v) ∧ t.inRange v = true := by
  simp only [binop] at hv; cases hv
  have ⟨h1, h2⟩ := fold_bitwise t x y (· ||| ·) ht
  refine ⟨?_, h2⟩
  simp only [bin]; rw [eval2_BITOR _ _ _ _ _ _ _ _ _ _ (descr_not_flonum t)]
  simp only [hl, hr, bind, Except.bind, pure, Except.pure, h1]

theorem fold_bxor (ht : t ≠ .bool)
    (hl : ∀ lab, eval2 .wrapping fp l lab = .ok (img x)) (hr : ∀ lab, eval2 .wrapping fp r lab = .ok (img y))
    (hv : binop .bxor t x y = some v) :
    eval2 .wrapping fp (bin .ND_BITXOR (descr t) l r) label = .ok (img v) ∧ t.inRange v = true := by
  simp only [binop] at hv; cases hv
  have ⟨h1, h2⟩ := fold_bitwise t x y (· ^^^ ·) ht
  refine ⟨?_, h2⟩
  simp only [bin]; rw [eval2_BITXOR _ _ _ _ _ _ _ _ _ _ (descr_not_flonum t)]
  simp only [hl, hr, bind, Except.bind, pure, Except.pure, h1]


end arms2

section arms3
theorem ediv_pow_bounds (x : Int) (n : Nat) :
    (0 ≤ x → 0 ≤ x / 2 ^ n ∧ x / 2 ^ n ≤ x) ∧ (x < 0 → x ≤ x / 2 ^ n ∧ x / 2 ^ n < 0) := by
  have hd : (0 : Int) < 2 ^ n := Int.pow_pos (by decide)
  constructor
  · intro hx
    exact ⟨Int.ediv_nonneg hx (Int.le_of_lt hd), Int.ediv_le_self _ hx⟩
  · intro hx
    constructor
    · apply Int.le_ediv_of_mul_le hd
      have h1 : (1 : Int) ≤ 2 ^ n := hd
      have := Int.mul_le_mul_of_nonpos_left (a := x) (b := 2 ^ n) (c := 1) (Int.le_of_lt hx) h1
      simpa using this
    · exact Int.ediv_neg_of_neg_of_pos hx hd

theorem shift_inRange (t : ITy) (hw : Wide t) (x : Int) (n : Nat) (hx : t.inRange x = true) : t.inRange (x / 2 ^ n) = true := by
  have ⟨h1, h2⟩ := ediv_pow_bounds x n
  rcases hw with h | h | h | h <;> subst h <;> rng <;> omega

variable (fp : FpEnv) (t : ITy) (l r : CNode) (x y v : Int) (label : Bool)

theorem fold_shl (hw : Wide t)
    (hl : ∀ lab, eval2 .wrapping fp l lab = .ok (img x)) (hr : ∀ lab, eval2 .wrapping fp r lab = .ok (img y))
    (hx : t.inRange x = true) (hv : binop .shl t x y = some v) :
    eval2 .wrapping fp (.mk .ND_SHL (descr t) 0 l r .null .null .null) label = .ok (img v) ∧ t.inRange v = true := by
  simp only [binop] at hv
  split at hv
  · cases hv
  · rename_i hc
    have hy : 0 ≤ y ∧ y < 64 := by
      rcases hw with h | h | h | h <;> subst h <;> simp [ITy.bits] at hc <;> omega
    have hcnt : (img y).toInt = y := img_toInt y (by omega) (by omega)
    have hraw : shlS .wrapping (img x) (img y).toInt = .ok (img (x * 2 ^ y.toNat)) := by
      rw [hcnt]
      simp only [shlS, ovf]
      rw [if_neg (by omega), img_shl x y.toNat (by omega)]
    have hres : wrapTy (descr t) (img (x * 2 ^ y.toNat)) = img v ∧ t.inRange v = true := by
      rw [wrap_convert t hw.ne_bool]
      split at hv
      · split at hv
        · cases hv
        · split at hv
          · cases hv; rename_i hin; exact ⟨by rw [convert_id t _ hin], hin⟩
          · cases hv
      · cases hv
        refine ⟨?_, ?_⟩
        · rcases hw with h | h | h | h <;> subst h <;> simp_all [ITy.convert, ITy.signed, ITy.bits]
        · have := convert_inRange t (x * 2 ^ y.toNat)
          rcases hw with h | h | h | h <;> subst h <;> simp_all [ITy.convert, ITy.signed, ITy.bits]
    refine ⟨?_, hres.2⟩
    rw [eval2_SHL _ _ _ _ _ _ _ _ _ _ (descr_not_flonum t)]
    simp only [hl, hr, bind, Except.bind, pure, Except.pure, hraw, hres.1]

theorem fold_shr (hw : Wide t)
    (hl : ∀ lab, eval2 .wrapping fp l lab = .ok (img x)) (hr : ∀ lab, eval2 .wrapping fp r lab = .ok (img y))
    (hx : t.inRange x = true) (hv : binop .shr t x y = some v) :
    eval2 .wrapping fp (.mk .ND_SHR (descr t) 0 l r .null .null .null) label = .ok (img v) ∧ t.inRange v = true := by
  simp only [binop] at hv
  split at hv
  · cases hv
  · rename_i hc
    cases hv
    have hy : 0 ≤ y ∧ y < 64 := by
      rcases hw with h | h | h | h <;> subst h <;> simp [ITy.bits] at hc <;> omega
    have hcnt : (img y).toInt = y := img_toInt y (by omega) (by omega)
    have hin := shift_inRange t hw x y.toNat hx
    refine ⟨?_, hin⟩
    rw [eval2_SHR _ _ _ _ _ _ _ _ _ _ (descr_not_flonum t)]
    simp only [hl, hr, bind, Except.bind, pure, Except.pure, hcnt]
    have hwr := wrap_convert t hw.ne_bool (x / 2 ^ y.toNat)
    rw [convert_id t _ hin] at hwr
    rcases hw with h | h | h | h <;> subst h <;> rng
    · simp only [descr, Bool.false_and, Bool.false_eq_true, ite_false, shrS]
      rw [if_neg (by omega), img_sshr x y.toNat (by omega)]; exact congrArg Except.ok hwr
    · simp only [descr, show ((4#32 : BitVec 32) == 8#32) = false from by decide, Bool.and_false, Bool.false_eq_true, ite_false, shrS]
      rw [if_neg (by omega), img_sshr x y.toNat (by omega)]; exact congrArg Except.ok hwr
    · simp only [descr, Bool.false_and, Bool.false_eq_true, ite_false, shrS]
      rw [if_neg (by omega), img_sshr x y.toNat (by omega)]; exact congrArg Except.ok hwr
    · simp only [descr, show ((8#32 : BitVec 32) == 8#32) = true from by decide, Bool.and_self, ite_true, shrU]
      rw [if_neg (by omega), img_ushr x y.toNat (by omega)]; exact congrArg Except.ok hwr


end arms3

section arms4
variable (fp : FpEnv) (t : ITy) (l r : CNode) (x y v : Int) (label : Bool)

theorem img_inj (hw : Wide t) (hx : t.inRange x = true) (hy : t.inRange y = true) : img x = img y ↔ x = y := by
  constructor
  · intro h
    rcases hw with h' | h' | h' | h' <;> subst h' <;> rng
    · have := congrArg BitVec.toInt h; rw [img_toInt x (by omega) (by omega), img_toInt y (by omega) (by omega)] at this; exact this
    · have := congrArg (fun b => (b.toNat : Int)) h
      rw [img_toNat x (by omega) (by omega), img_toNat y (by omega) (by omega)] at this; exact this
    · have := congrArg BitVec.toInt h; rw [img_toInt x (by omega) (by omega), img_toInt y (by omega) (by omega)] at this; exact this
    · have := congrArg (fun b => (b.toNat : Int)) h
      rw [img_toNat x (by omega) (by omega), img_toNat y (by omega) (by omega)] at this; exact this
  · intro h; rw [h]

/-- host comparison of two images at a wide type = comparison of the values -/
theorem cmp_images (hw : Wide t) (hx : t.inRange x = true) (hy : t.inRange y = true) :
    (if (descr t).isUnsigned then BitVec.ult (img x) (img y) else BitVec.slt (img x) (img y)) = decide (x < y)
    ∧ (if (descr t).isUnsigned then BitVec.ule (img x) (img y) else BitVec.sle (img x) (img y)) = decide (x ≤ y) := by
  rcases hw with h' | h' | h' | h' <;> subst h' <;> rng <;>
    simp only [descr, Bool.false_eq_true, ite_false, ite_true, BitVec.slt_eq_decide, BitVec.sle_eq_decide,
      BitVec.ult_eq_decide, BitVec.ule_eq_decide]
  · rw [img_toInt x (by omega) (by omega), img_toInt y (by omega) (by omega)]; exact ⟨rfl, rfl⟩
  · have hx' := img_toNat x (by omega) (by omega); have hy' := img_toNat y (by omega) (by omega)
    constructor <;> apply decide_eq_decide.2 <;> omega
  · rw [img_toInt x (by omega) (by omega), img_toInt y (by omega) (by omega)]; exact ⟨rfl, rfl⟩
  · have hx' := img_toNat x (by omega) (by omega); have hy' := img_toNat y (by omega) (by omega)
    constructor <;> apply decide_eq_decide.2 <;> omega

/-- the comparison arm on two operands cast to the wide type `t` -/
theorem cmpArm_ok (op : String) (cu cs : BitVec 64 → BitVec 64 → Bool) (b : Bool)
    (hlt : CNode.tyOf l = .ok (descr t))
    (hl : ∀ lab, eval2 .wrapping fp l lab = .ok (img x)) (hr : ∀ lab, eval2 .wrapping fp r lab = .ok (img y))
    (hb : (if (descr t).isUnsigned then cu (img x) (img y) else cs (img x) (img y)) = b) :
    cmpArm .wrapping fp op cu cs l r = .ok (img (b2z b)) := by
  unfold cmpArm
  simp only [hlt, descr_not_flonum, bind, Except.bind, pure, Except.pure, Bool.false_eq_true, ite_false, hl, hr]
  subst hb
  split <;> simp only [b2i_castS] <;> rfl

theorem fold_cmp_node (b : Bool) (raw : Except Fail (BitVec 64)) (hraw : raw = .ok (img (b2z b))) :
    (raw >>= fun v => pure (wrapTy tyInt v)) = (.ok (img (b2z b)) : Except Fail (BitVec 64)) := by
  subst hraw
  simp only [bind, Except.bind, pure, Except.pure, wrap_int01]

/-- `eval_truth` on an integer node -/
theorem truth_ok (n : CNode) (hn : ∀ lab, eval2 .wrapping fp n lab = .ok (img x))
    (hx : -9223372036854775808 ≤ x ∧ x ≤ 18446744073709551615) (hnf : isFlonum (nodeTy n) = false) :
    truth .wrapping fp n = .ok (x != 0) := by
  unfold truth
  have hz := img_eq_zero_iff x hx.1 hx.2
  have : (img x != 0#64) = (x != 0) := by
    rw [Bool.eq_iff_iff]; simp only [bne_iff_ne, ne_eq]; exact not_congr hz
  simp only [tyOf_of_eval (hn false), hnf, hn, bind, Except.bind, pure, Except.pure, Bool.false_eq_true, ite_false, this]


end arms4

/-! ## The induction -/

section induction
/-- the value of an expression, as the folder holds it: the image of `x`, which lies in the range of the C11 type -/
def Folds (fp : FpEnv) (e : CExpr) (x : Int) : Prop :=
  (typeOf e).inRange x = true ∧ ∀ label, eval2 .wrapping fp (elabE e) label = .ok (img x)

theorem promote_inRange (t : ITy) (x : Int) (h : t.inRange x = true) : t.promote.inRange x = true := by
  cases t <;> simp only [ITy.promote] <;> rng <;> omega

theorem common_comm (a b : ITy) : ITy.common a b = ITy.common b a := by cases a <;> cases b <;> rfl

variable (fp : FpEnv)

theorem cast_ok {e : CExpr} {x : Int} (t : ITy) (h : Folds fp e x) :
    ∀ lab, eval2 .wrapping fp (mkCast (elabE e) (descr t)) lab = .ok (img (t.convert x)) := by
  intro lab
  have hw := inRange_wide _ x h.1
  exact eval2_mkCast fp (elabE e) t x lab (h.2 lab) hw (by rw [elab_ty]; exact descr_not_flonum _)

theorem fold_lit (t : ITy) (v x : Int) (h : Spec.Const.eval (.lit t v) = some x) : Folds fp (.lit t v) x := by
  simp only [Spec.Const.eval] at h
  split at h
  · cases h; rename_i hin
    refine ⟨hin, fun lab => ?_⟩
    simp only [elabE]
    rw [eval2_NUM _ _ _ _ _ _ _ _ _ _ (descr_not_flonum t)]
    by_cases hb : t = .bool
    · subst hb; rng
      have : v = 0 ∨ v = 1 := by omega
      rcases this with h | h <;> subst h <;> rfl
    · simp only [pure, Except.pure, wrap_convert t hb, convert_id t _ hin]
  · cases h

theorem fold_neg {e : CExpr} {x v : Int} (h : Folds fp e x) (hv : Spec.Const.arith (typeOf e).promote (-x) = some v) :
    Folds fp (.un .neg e) v := by
  have hp := promote_inRange _ x h.1
  have hw := promote_wide (typeOf e)
  have ⟨h1, h2⟩ := arm_result _ hw.ne_bool (-(img x)) (-x) v (img_neg x) hv
  refine ⟨h2, fun lab => ?_⟩
  simp only [elabE, mkPromoted, elab_ty, gct_int]
  rw [eval2_NEG _ _ _ _ _ _ _ _ _ _ (descr_not_flonum _)]
  simp only [cast_ok fp _ h, convert_id _ _ hp, bind, Except.bind, pure, Except.pure, negS, ovf, h1]

theorem fold_bitnot {e : CExpr} {x : Int} (h : Folds fp e x) :
    Folds fp (.un .bitnot e) ((typeOf e).promote.convert ((~~~ (BitVec.ofInt 64 x)).toInt)) := by
  have hp := promote_inRange _ x h.1
  have hw := promote_wide (typeOf e)
  refine ⟨convert_inRange _ _, fun lab => ?_⟩
  simp only [elabE, mkPromoted, elab_ty, gct_int]
  rw [eval2_BITNOT _ _ _ _ _ _ _ _ _ _ (descr_not_flonum _)]
  simp only [cast_ok fp _ h, convert_id _ _ hp, bind, Except.bind, pure, Except.pure]
  rw [← wrap_convert _ hw.ne_bool, ← img_of_toInt]

theorem fold_lognot {e : CExpr} {x : Int} (h : Folds fp e x) : Folds fp (.un .lognot e) (b2z (x == 0)) := by
  refine ⟨by cases (x == 0) <;> rfl, fun lab => ?_⟩
  simp only [elabE, un]
  rw [eval2_NOT _ _ _ _ _ _ _ _ _ _ (show isFlonum tyInt = false from rfl)]
  rw [truth_ok fp x (elabE e) h.2 (inRange_wide _ x h.1) (by rw [elab_ty]; exact descr_not_flonum _)]
  simp only [bind, Except.bind, pure, Except.pure, b2i_castS]
  have : (!(x != 0)) = (x == 0) := by cases hx : (x == 0) <;> simp_all [bne]
  rw [this]; exact congrArg Except.ok (wrap_int01 _)

theorem fold_plus {e : CExpr} {x : Int} (h : Folds fp e x) : Folds fp (.un .plus e) x := by
  have hp := promote_inRange _ x h.1
  refine ⟨hp, fun lab => ?_⟩
  simp only [elabE, elab_ty]
  split
  · rename_i hc
    have ht : (typeOf e).promote = .i32 := by
      generalize typeOf e = t at hc ⊢; cases t <;> simp_all [descr, isInteger] <;> rfl
    have := cast_ok fp .i32 h lab
    rw [ht] at hp
    rw [convert_id _ _ hp] at this; exact this
  · exact h.2 lab


end induction

end ChibiVerif.ConstEvalLemmas
