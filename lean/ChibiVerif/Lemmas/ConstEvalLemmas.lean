/- Lemmas for C07: unfolding of the generated folder arm by arm, the int64 image of a C11 value,
   the wrapper of eval2 as the C11 conversion, one lemma per operator arm. -/
import ChibiVerif.Model.ConstElab
set_option linter.unusedSimpArgs false
set_option linter.unusedVariables false

namespace ChibiVerif.ConstEvalLemmas
open ChibiVerif.Host ChibiVerif.Gen.ConstEval ChibiVerif.Spec.Const ChibiVerif.ConstElab

/-! ## The generated `eval2`, arm by arm -/

/-- the wrapper at the end of `eval2`: reduce the host value to the width and signedness of the node's type -/
def wrapTy (ty : CTy) (v : BitVec 64) : BitVec 64 :=
  if isInteger ty then
    if ty.size == 1#32 then (if ty.isUnsigned then castU 64 (castS 8 v) else castS 64 (castS 8 v))
    else if ty.size == 2#32 then (if ty.isUnsigned then castU 64 (castS 16 v) else castS 64 (castS 16 v))
    else if ty.size == 4#32 then (if ty.isUnsigned then castU 64 (castS 32 v) else castS 64 (castS 32 v))
    else v
  else v

/-- `eval_double(n) != 0` as inlined (the truth value of a floating operand) -/
def fpTruth (h : HostMode) (fp : FpEnv) (n : CNode) : Except Fail Bool :=
  (evalDouble h fp n) >>= fun d => pure (!(fp.eq80 d (fp.i32to80 (0#32))))

/-- `eval_truth` as inlined at its call sites -/
def truth (h : HostMode) (fp : FpEnv) (n : CNode) : Except Fail Bool :=
  (CNode.tyOf n) >>= fun t => if (isFlonum t) then (fpTruth h fp n) else ((eval2 h fp n false) >>= fun v => pure (v != (0#64)))

theorem truth_eq_evalTruth (h : HostMode) (fp : FpEnv) (n : CNode) : truth h fp n = evalTruth h fp n := rfl

/-- the wrapper exactly as generated -/
def wrapM (ty : CTy) (v_val : BitVec 64) : Except Fail (BitVec 64) :=
    if (isInteger ty) then
      if ty.size == (1#32) then
        pure (if ty.isUnsigned then (castU 64 (castS 8 v_val)) else (castS 64 (castS 8 v_val)))
      else if ty.size == (2#32) then
        pure (if ty.isUnsigned then (castU 64 (castS 16 v_val)) else (castS 64 (castS 16 v_val)))
      else if ty.size == (4#32) then
        pure (if ty.isUnsigned then (castU 64 (castS 32 v_val)) else (castS 64 (castS 32 v_val)))
      else pure v_val
    else
      pure v_val

theorem wrapM_eq (ty : CTy) (v : BitVec 64) : wrapM ty v = pure (wrapTy ty v) := by
  unfold wrapM wrapTy; (repeat' split) <;> rfl

theorem wrapK (ty : CTy) : wrapM ty = fun v => pure (wrapTy ty v) := funext (wrapM_eq ty)

/-- unfolds `eval2 (mk K ..)` (K a constructor, `hf : isFlonum ty = false` in the context) to
    `raw >>= fun v => pure (wrapTy ty v)` -/
macro "arm" : tactic =>
  `(tactic| (rw [eval2.eq_def]; simp only [*, Bool.false_eq_true, ite_false]; change (_ >>= wrapM _) = _; rw [wrapK]))

variable (h : HostMode) (fp : FpEnv) (ty : CTy) (nv : BitVec 64) (fv : BitVec 80) (l r c t e : CNode) (label : Bool)

theorem eval2_null : eval2 h fp .null label = .error (.crash "NULL node dereferenced") := by rw [eval2.eq_def]

theorem eval2_ADD (hf : isFlonum ty = false) :
    eval2 h fp (.mk .ND_ADD ty nv fv l r c t e) label
      = ((eval2 h fp l label >>= fun a => eval2 h fp r false >>= fun b => addS h a b) >>= fun v => pure (wrapTy ty v)) := by arm

theorem eval2_SUB (hf : isFlonum ty = false) :
    eval2 h fp (.mk .ND_SUB ty nv fv l r c t e) label
      = ((eval2 h fp l label >>= fun a => eval2 h fp r false >>= fun b => subS h a b) >>= fun v => pure (wrapTy ty v)) := by arm

theorem eval2_MUL (hf : isFlonum ty = false) :
    eval2 h fp (.mk .ND_MUL ty nv fv l r c t e) label
      = ((eval2 h fp l false >>= fun a => eval2 h fp r false >>= fun b => mulS h a b) >>= fun v => pure (wrapTy ty v)) := by arm

/-- the `ND_DIV`/`ND_MOD` arm after both operands are evaluated -/
def divmod (h : HostMode) (isDiv : Bool) (ty : CTy) (a b : BitVec 64) : Except Fail (BitVec 64) :=
  if b == 0#64 then .error (.diag "division by zero in a constant expression")
  else if ty.isUnsigned then (if isDiv then divU h a b else modU h a b)
  else if b == 18446744073709551615#64 then pure (if isDiv then -a else 0#64)
  else (if isDiv then divS h a b else modS h a b)

theorem eval2_DIV (hf : isFlonum ty = false) :
    eval2 h fp (.mk .ND_DIV ty nv fv l r c t e) label
      = ((eval2 h fp l false >>= fun a => eval2 h fp r false >>= fun b => divmod h true ty a b) >>= fun v => pure (wrapTy ty v)) := by
  arm; simp only [divmod, beq_self_eq_true, ite_true]

theorem eval2_MOD (hf : isFlonum ty = false) :
    eval2 h fp (.mk .ND_MOD ty nv fv l r c t e) label
      = ((eval2 h fp l false >>= fun a => eval2 h fp r false >>= fun b => divmod h false ty a b) >>= fun v => pure (wrapTy ty v)) := by
  arm; simp only [divmod, show (NodeKind.ND_MOD == NodeKind.ND_DIV) = false from rfl, Bool.false_eq_true, ite_false]

theorem eval2_NEG (hf : isFlonum ty = false) :
    eval2 h fp (.mk .ND_NEG ty nv fv l r c t e) label
      = ((eval2 h fp l false >>= fun a => negS h a) >>= fun v => pure (wrapTy ty v)) := by arm

theorem eval2_BITAND (hf : isFlonum ty = false) :
    eval2 h fp (.mk .ND_BITAND ty nv fv l r c t e) label
      = ((eval2 h fp l false >>= fun a => eval2 h fp r false >>= fun b => pure (a &&& b)) >>= fun v => pure (wrapTy ty v)) := by arm

theorem eval2_BITOR (hf : isFlonum ty = false) :
    eval2 h fp (.mk .ND_BITOR ty nv fv l r c t e) label
      = ((eval2 h fp l false >>= fun a => eval2 h fp r false >>= fun b => pure (a ||| b)) >>= fun v => pure (wrapTy ty v)) := by arm

theorem eval2_BITXOR (hf : isFlonum ty = false) :
    eval2 h fp (.mk .ND_BITXOR ty nv fv l r c t e) label
      = ((eval2 h fp l false >>= fun a => eval2 h fp r false >>= fun b => pure (a ^^^ b)) >>= fun v => pure (wrapTy ty v)) := by arm

theorem eval2_SHL (hf : isFlonum ty = false) :
    eval2 h fp (.mk .ND_SHL ty nv fv l r c t e) label
      = ((eval2 h fp l false >>= fun a => eval2 h fp r false >>= fun b => shlS h a b.toInt) >>= fun v => pure (wrapTy ty v)) := by arm

theorem eval2_SHR (hf : isFlonum ty = false) :
    eval2 h fp (.mk .ND_SHR ty nv fv l r c t e) label
      = ((eval2 h fp l false >>= fun a => eval2 h fp r false >>= fun b =>
            if (ty.isUnsigned && (ty.size == (8#32))) then shrU h a b.toInt else shrS h a b.toInt) >>= fun v => pure (wrapTy ty v)) := by
  arm; split <;> rfl

/-- comparison arms: `cf` is the host comparison of two long doubles (floating operands), `cu`/`cs` are the unsigned / signed
    host comparisons of two `int64_t`; EQ and NE do not look at signedness.  The left operand is evaluated first. -/
def cmpArm (h : HostMode) (fp : FpEnv) (cf : BitVec 80 → BitVec 80 → Bool) (cu cs : BitVec 64 → BitVec 64 → Bool) (l r : CNode) : Except Fail (BitVec 64) :=
  (CNode.tyOf l) >>= fun tl =>
    if isFlonum tl then (evalDouble h fp l >>= fun a => evalDouble h fp r >>= fun b => pure (castS 64 (b2i (cf a b))))
    else if tl.isUnsigned then (eval2 h fp l false >>= fun a => eval2 h fp r false >>= fun b => pure (castS 64 (b2i (cu a b))))
    else (eval2 h fp l false >>= fun a => eval2 h fp r false >>= fun b => pure (castS 64 (b2i (cs a b))))

theorem eval2_EQ (hf : isFlonum ty = false) :
    eval2 h fp (.mk .ND_EQ ty nv fv l r c t e) label
      = (cmpArm h fp fp.eq80 (· == ·) (· == ·) l r >>= fun v => pure (wrapTy ty v)) := by
  arm; simp only [cmpArm]; congr 1; congr 1; funext tl; split <;> simp

theorem eval2_NE (hf : isFlonum ty = false) :
    eval2 h fp (.mk .ND_NE ty nv fv l r c t e) label
      = (cmpArm h fp (fun a b => !(fp.eq80 a b)) (· != ·) (· != ·) l r >>= fun v => pure (wrapTy ty v)) := by
  arm; simp only [cmpArm]; congr 1; congr 1; funext tl; split <;> simp

theorem eval2_LT (hf : isFlonum ty = false) :
    eval2 h fp (.mk .ND_LT ty nv fv l r c t e) label
      = (cmpArm h fp fp.lt80 BitVec.ult BitVec.slt l r >>= fun v => pure (wrapTy ty v)) := by
  arm; simp only [cmpArm]; congr 1
  cases l with
  | null => rfl
  | mk k2 t2 v2 f2 a2 b2 c2 d2 e2 =>
    simp only [CNode.tyOf, bind, Except.bind]
    split
    · rfl
    · cases eval2 h fp (CNode.mk k2 t2 v2 f2 a2 b2 c2 d2 e2) false <;> (cases t2.isUnsigned <;> rfl)

theorem eval2_LE (hf : isFlonum ty = false) :
    eval2 h fp (.mk .ND_LE ty nv fv l r c t e) label
      = (cmpArm h fp fp.le80 BitVec.ule BitVec.sle l r >>= fun v => pure (wrapTy ty v)) := by
  arm; simp only [cmpArm]; congr 1
  cases l with
  | null => rfl
  | mk k2 t2 v2 f2 a2 b2 c2 d2 e2 =>
    simp only [CNode.tyOf, bind, Except.bind]
    split
    · rfl
    · cases eval2 h fp (CNode.mk k2 t2 v2 f2 a2 b2 c2 d2 e2) false <;> (cases t2.isUnsigned <;> rfl)

theorem eval2_COND (hf : isFlonum ty = false) :
    eval2 h fp (.mk .ND_COND ty nv fv l r c t e) label
      = ((truth h fp c >>= fun b => if b then eval2 h fp t label else eval2 h fp e label) >>= fun v => pure (wrapTy ty v)) := by
  arm; rfl

theorem eval2_COMMA (hf : isFlonum ty = false) :
    eval2 h fp (.mk .ND_COMMA ty nv fv l r c t e) label
      = (eval2 h fp r label >>= fun v => pure (wrapTy ty v)) := by arm

theorem eval2_NOT (hf : isFlonum ty = false) :
    eval2 h fp (.mk .ND_NOT ty nv fv l r c t e) label
      = ((truth h fp l >>= fun b => pure (castS 64 (b2i (!b)))) >>= fun v => pure (wrapTy ty v)) := by
  arm; rfl

theorem eval2_BITNOT (hf : isFlonum ty = false) :
    eval2 h fp (.mk .ND_BITNOT ty nv fv l r c t e) label
      = ((eval2 h fp l false >>= fun a => pure (~~~a)) >>= fun v => pure (wrapTy ty v)) := by arm

theorem eval2_LOGAND (hf : isFlonum ty = false) :
    eval2 h fp (.mk .ND_LOGAND ty nv fv l r c t e) label
      = ((truth h fp l >>= fun a => (if a then truth h fp r else pure false) >>= fun b => pure (castS 64 (b2i b))) >>= fun v => pure (wrapTy ty v)) := by
  arm; rfl

theorem eval2_LOGOR (hf : isFlonum ty = false) :
    eval2 h fp (.mk .ND_LOGOR ty nv fv l r c t e) label
      = ((truth h fp l >>= fun a => (if a then pure true else truth h fp r) >>= fun b => pure (castS 64 (b2i b))) >>= fun v => pure (wrapTy ty v)) := by
  arm; rfl

theorem eval2_CAST (hf : isFlonum ty = false) :
    eval2 h fp (.mk .ND_CAST ty nv fv l r c t e) label
      = ((if ty.kind == TypeKind.TY_BOOL then
            (CNode.tyOf l) >>= fun tl =>
              if isFlonum tl then (fpTruth h fp l >>= fun b => pure (castS 64 (b2i b)))
              else (eval2 h fp l label >>= fun a => pure (castS 64 (b2i (a != (0#64)))))
          else
            (CNode.tyOf l) >>= fun tl =>
              if (isFlonum tl && ty.isUnsigned) && (ty.size == (8#32)) then (evalDouble h fp l >>= fun d => cvtU64 h fp d)
              else eval2 h fp l label) >>= fun v => pure (wrapTy ty v)) := by
  arm; simp only [fpTruth, bind_assoc, pure_bind]

theorem eval2_NUM (hf : isFlonum ty = false) :
    eval2 h fp (.mk .ND_NUM ty nv fv l r c t e) label = pure (wrapTy ty nv) := by
  arm; rfl

/-! ## The generated `evalDouble`, arm by arm -/

theorem flonum_not_integer (ty : CTy) (hf : isFlonum ty = true) : isInteger ty = false := by
  obtain ⟨k, s, u⟩ := ty
  cases k <;> simp_all [isFlonum, isInteger]

theorem integer_not_flonum (ty : CTy) (hi : isInteger ty = true) : isFlonum ty = false := by
  cases hf : isFlonum ty
  · rfl
  · rw [flonum_not_integer ty hf] at hi; cases hi

/-- `eval_double`'s final conversion of the folded `long double` to the format of the node's type -/
def roundTy (fp : FpEnv) (ty : CTy) (v : BitVec 80) : BitVec 80 :=
  if ty.kind == TypeKind.TY_FLOAT then fp.f32to80 (fp.f80to32 v)
  else if ty.kind == TypeKind.TY_DOUBLE then fp.f64to80 (fp.f80to64 v)
  else v

/-- the rounding exactly as generated -/
def roundM (fp : FpEnv) (ty : CTy) (v_val : BitVec 80) : Except Fail (BitVec 80) :=
    if (ty.kind == TypeKind.TY_FLOAT) then
      pure (fp.f32to80 (fp.f80to32 v_val))
    else
      if (ty.kind == TypeKind.TY_DOUBLE) then
      pure (fp.f64to80 (fp.f80to64 v_val))
    else
      pure v_val

theorem roundM_eq (fp : FpEnv) (ty : CTy) (v : BitVec 80) : roundM fp ty v = pure (roundTy fp ty v) := by
  unfold roundM roundTy; (repeat' split) <;> rfl

theorem roundK (fp : FpEnv) (ty : CTy) : roundM fp ty = fun v => pure (roundTy fp ty v) := funext (roundM_eq fp ty)

/-- `FOLD_FLONUM(op)`: the operation carried out in the format of the node's type -/
def foldFlonum (fp : FpEnv) (ty : CTy) (o32 : BitVec 32 → BitVec 32 → BitVec 32) (o64 : BitVec 64 → BitVec 64 → BitVec 64)
    (o80 : BitVec 80 → BitVec 80 → BitVec 80) (a b : BitVec 80) : BitVec 80 :=
  if ty.kind == TypeKind.TY_FLOAT then fp.f32to80 (o32 (fp.f80to32 a) (fp.f80to32 b))
  else if ty.kind == TypeKind.TY_DOUBLE then fp.f64to80 (o64 (fp.f80to64 a) (fp.f80to64 b))
  else o80 a b

/-- a node of integer type: `eval_double` is the conversion of `eval(node)` to `long double` -/
theorem evalDouble_integer (k : NodeKind) (hi : isInteger ty = true) :
    evalDouble h fp (.mk k ty nv fv l r c t e)
      = (eval2 h fp (.mk k ty nv fv l r c t e) false >>= fun v => pure (if ty.isUnsigned then fp.u64to80 v else fp.i64to80 v)) := by
  have hf := integer_not_flonum ty hi
  rw [evalDouble.eq_def, eval2.eq_def]
  simp only [hi, hf, ite_true, Bool.false_eq_true, ite_false]
  split <;> rfl

/-- a node of floating type: `eval2` is the conversion of `eval_double(node)` to `int64_t` -/
theorem eval2_flonum (k : NodeKind) (hf : isFlonum ty = true) :
    eval2 h fp (.mk k ty nv fv l r c t e) label = (evalDouble h fp (.mk k ty nv fv l r c t e) >>= fun d => cvtI64 h fp d) := by
  have hi := flonum_not_integer ty hf
  rw [eval2.eq_def, evalDouble.eq_def]
  simp only [hf, hi, ite_true, Bool.false_eq_true, ite_false]
  exact bind_pure _

/-- unfolds `evalDouble (mk K ..)` (K a constructor, `hi : isInteger ty = false` in the context) to
    `raw >>= fun v => pure (roundTy fp ty v)` -/
macro "darm" : tactic =>
  `(tactic| (rw [evalDouble.eq_def]; simp only [*, Bool.false_eq_true, ite_false]; change (_ >>= roundM _ _) = _; rw [roundK]))

theorem evalDouble_null : evalDouble h fp .null = .error (.crash "NULL node dereferenced") := by rw [evalDouble.eq_def]

theorem evalDouble_ADD (hi : isInteger ty = false) :
    evalDouble h fp (.mk .ND_ADD ty nv fv l r c t e)
      = ((evalDouble h fp l >>= fun a => evalDouble h fp r >>= fun b => pure (foldFlonum fp ty fp.add32 fp.add64 fp.add80 a b))
          >>= fun v => pure (roundTy fp ty v)) := by darm; rfl

theorem evalDouble_SUB (hi : isInteger ty = false) :
    evalDouble h fp (.mk .ND_SUB ty nv fv l r c t e)
      = ((evalDouble h fp l >>= fun a => evalDouble h fp r >>= fun b => pure (foldFlonum fp ty fp.sub32 fp.sub64 fp.sub80 a b))
          >>= fun v => pure (roundTy fp ty v)) := by darm; rfl

theorem evalDouble_MUL (hi : isInteger ty = false) :
    evalDouble h fp (.mk .ND_MUL ty nv fv l r c t e)
      = ((evalDouble h fp l >>= fun a => evalDouble h fp r >>= fun b => pure (foldFlonum fp ty fp.mul32 fp.mul64 fp.mul80 a b))
          >>= fun v => pure (roundTy fp ty v)) := by darm; rfl

theorem evalDouble_DIV (hi : isInteger ty = false) :
    evalDouble h fp (.mk .ND_DIV ty nv fv l r c t e)
      = ((evalDouble h fp l >>= fun a => evalDouble h fp r >>= fun b => pure (foldFlonum fp ty fp.div32 fp.div64 fp.div80 a b))
          >>= fun v => pure (roundTy fp ty v)) := by darm; rfl

theorem evalDouble_NEG (hi : isInteger ty = false) :
    evalDouble h fp (.mk .ND_NEG ty nv fv l r c t e)
      = ((evalDouble h fp l >>= fun a => pure (fp.neg80 a)) >>= fun v => pure (roundTy fp ty v)) := by darm

theorem evalDouble_COND (hi : isInteger ty = false) :
    evalDouble h fp (.mk .ND_COND ty nv fv l r c t e)
      = ((fpTruth h fp c >>= fun b => if b then evalDouble h fp t else evalDouble h fp e) >>= fun v => pure (roundTy fp ty v)) := by
  darm; simp only [fpTruth, bind_assoc, pure_bind]

theorem evalDouble_COMMA (hi : isInteger ty = false) :
    evalDouble h fp (.mk .ND_COMMA ty nv fv l r c t e) = (evalDouble h fp r >>= fun v => pure (roundTy fp ty v)) := by darm

theorem evalDouble_CAST (hi : isInteger ty = false) :
    evalDouble h fp (.mk .ND_CAST ty nv fv l r c t e) = (evalDouble h fp l >>= fun v => pure (roundTy fp ty v)) := by darm

theorem evalDouble_NUM (hi : isInteger ty = false) :
    evalDouble h fp (.mk .ND_NUM ty nv fv l r c t e) = pure (roundTy fp ty fv) := by darm; rfl

/-- the kinds `eval_double2` folds -/
def fkinds : List NodeKind := [.ND_ADD, .ND_SUB, .ND_MUL, .ND_DIV, .ND_NEG, .ND_COND, .ND_COMMA, .ND_CAST, .ND_NUM]

/-- every other kind of a node of non-integer type is "not a compile-time constant" -/
theorem evalDouble_other (k : NodeKind) (hk : k ∉ fkinds) (hi : isInteger ty = false) :
    evalDouble h fp (.mk k ty nv fv l r c t e) = .error (.diag "not a compile-time constant") := by
  cases k <;> first | (exfalso; exact hk (by decide)) | (darm; rfl)

/-! ## The int64 image of a mathematical value, and the wrapper as the C11 conversion -/

/-- the `int64_t` the folder holds for the C11 value `x` (two's complement, also for `unsigned long` values ≥ 2^63) -/
abbrev img (x : Int) : BitVec 64 := BitVec.ofInt 64 x

theorem wrapS8 (x : Int) : castS 64 (castS 8 (img x)) = img ((x + 128) % 256 - 128) := by
  apply BitVec.eq_of_toInt_eq
  simp only [castS, img]
  rw [BitVec.toInt_signExtend_of_le (by decide), BitVec.signExtend_eq_setWidth_of_le _ (by decide),
    BitVec.toInt_setWidth, BitVec.toNat_ofInt, BitVec.toInt_ofInt]
  simp only [Int.bmod_def]
  omega

theorem wrapS16 (x : Int) : castS 64 (castS 16 (img x)) = img ((x + 32768) % 65536 - 32768) := by
  apply BitVec.eq_of_toInt_eq
  simp only [castS, img]
  rw [BitVec.toInt_signExtend_of_le (by decide), BitVec.signExtend_eq_setWidth_of_le _ (by decide),
    BitVec.toInt_setWidth, BitVec.toNat_ofInt, BitVec.toInt_ofInt]
  simp only [Int.bmod_def]
  omega

theorem wrapS32 (x : Int) : castS 64 (castS 32 (img x)) = img ((x + 2147483648) % 4294967296 - 2147483648) := by
  apply BitVec.eq_of_toInt_eq
  simp only [castS, img]
  rw [BitVec.toInt_signExtend_of_le (by decide), BitVec.signExtend_eq_setWidth_of_le _ (by decide),
    BitVec.toInt_setWidth, BitVec.toNat_ofInt, BitVec.toInt_ofInt]
  simp only [Int.bmod_def]
  omega

theorem wrapU8 (x : Int) : castU 64 (castS 8 (img x)) = img (x % 256) := by
  apply BitVec.eq_of_toNat_eq
  simp only [castS, castU, img]
  rw [BitVec.signExtend_eq_setWidth_of_le _ (by decide), BitVec.toNat_setWidth, BitVec.toNat_setWidth,
    BitVec.toNat_ofInt, BitVec.toNat_ofInt]
  omega

theorem wrapU16 (x : Int) : castU 64 (castS 16 (img x)) = img (x % 65536) := by
  apply BitVec.eq_of_toNat_eq
  simp only [castS, castU, img]
  rw [BitVec.signExtend_eq_setWidth_of_le _ (by decide), BitVec.toNat_setWidth, BitVec.toNat_setWidth,
    BitVec.toNat_ofInt, BitVec.toNat_ofInt]
  omega

theorem wrapU32 (x : Int) : castU 64 (castS 32 (img x)) = img (x % 4294967296) := by
  apply BitVec.eq_of_toNat_eq
  simp only [castS, castU, img]
  rw [BitVec.signExtend_eq_setWidth_of_le _ (by decide), BitVec.toNat_setWidth, BitVec.toNat_setWidth,
    BitVec.toNat_ofInt, BitVec.toNat_ofInt]
  omega

/-- images agree iff the values are congruent modulo 2^64 -/
theorem img_congr (x y : Int) (hxy : x % 18446744073709551616 = y % 18446744073709551616) : img x = img y := by
  apply BitVec.eq_of_toNat_eq
  simp only [img, BitVec.toNat_ofInt]
  have : ((2 ^ 64 : Nat) : Int) = 18446744073709551616 := by decide
  rw [this, hxy]

/-- **the wrapper of `eval2` is the C11 conversion to the node's type** (every type but `_Bool`, whose conversion is a test) -/
theorem wrap_convert (t : ITy) (ht : t ≠ .bool) (x : Int) : wrapTy (descr t) (img x) = img (t.convert x) := by
  cases t with
  | bool => exact absurd rfl ht
  | i8 => simpa [wrapTy, descr, isInteger, ITy.convert, ITy.signed, ITy.bits] using wrapS8 x
  | u8 => simpa [wrapTy, descr, isInteger, ITy.convert, ITy.signed, ITy.bits] using wrapU8 x
  | i16 => simpa [wrapTy, descr, isInteger, ITy.convert, ITy.signed, ITy.bits] using wrapS16 x
  | u16 => simpa [wrapTy, descr, isInteger, ITy.convert, ITy.signed, ITy.bits] using wrapU16 x
  | i32 => simpa [wrapTy, descr, isInteger, ITy.convert, ITy.signed, ITy.bits] using wrapS32 x
  | u32 => simpa [wrapTy, descr, isInteger, ITy.convert, ITy.signed, ITy.bits] using wrapU32 x
  | i64 =>
    simp [wrapTy, descr, isInteger, ITy.convert, ITy.signed, ITy.bits]
    apply img_congr; omega
  | u64 =>
    simp [wrapTy, descr, isInteger, ITy.convert, ITy.signed, ITy.bits]
    apply img_congr; omega

/-! ## Ranges -/

theorem inRange_iff (t : ITy) (v : Int) : t.inRange v = true ↔ (t.minV ≤ v ∧ v ≤ t.maxV) := by
  simp [ITy.inRange]

/-- unfold a range hypothesis / goal to numerals -/
macro "rng" : tactic => `(tactic| simp only [inRange_iff, ITy.minV, ITy.maxV, ITy.signed, ITy.bits, ite_true, ite_false,
   Bool.false_eq_true, Nat.reduceSub, Int.reducePow, Int.reduceNeg, Int.reduceSub, Nat.reducePow] at *)

theorem convert_inRange (t : ITy) (x : Int) : t.inRange (t.convert x) = true := by
  cases t <;> simp only [ITy.convert] <;> rng <;> (try split) <;> omega

theorem convert_id (t : ITy) (x : Int) (h : t.inRange x = true) : t.convert x = x := by
  cases t <;> simp only [ITy.convert] <;> rng <;> (try split) <;> omega

theorem inRange_wide (t : ITy) (x : Int) (h : t.inRange x = true) :
    -9223372036854775808 ≤ x ∧ x ≤ 18446744073709551615 := by
  cases t <;> rng <;> omega

theorem img_toInt (x : Int) (h1 : -9223372036854775808 ≤ x) (h2 : x ≤ 9223372036854775807) : (img x).toInt = x := by
  apply BitVec.toInt_ofInt_eq_self (by decide) <;> simp <;> omega

theorem img_toNat (x : Int) (h1 : 0 ≤ x) (h2 : x ≤ 18446744073709551615) : ((img x).toNat : Int) = x := by
  simp only [img, BitVec.toNat_ofInt]
  have : ((2 ^ 64 : Nat) : Int) = 18446744073709551616 := by decide
  rw [this]; omega

theorem img_eq_zero_iff (x : Int) (h1 : -9223372036854775808 ≤ x) (h2 : x ≤ 18446744073709551615) :
    img x = 0#64 ↔ x = 0 := by
  constructor
  · intro h
    have := congrArg BitVec.toNat h
    simp only [img, BitVec.toNat_ofInt, BitVec.toNat_ofNat] at this
    have e : ((2 ^ 64 : Nat) : Int) = 18446744073709551616 := by decide
    rw [e] at this
    omega
  · intro h; subst h; rfl

/-! ## Typing of the elaborated tree -/

theorem descr_not_flonum (t : ITy) : isFlonum (descr t) = false := by cases t <;> rfl
theorem descr_integer (t : ITy) : isInteger (descr t) = true := by cases t <;> rfl

theorem gct_descr (a b : ITy) : getCommonType (descr a) (descr b) = descr (ITy.common a b) := by
  cases a <;> cases b <;> rfl

theorem gct_int (a : ITy) : getCommonType tyInt (descr a) = descr a.promote := by
  cases a <;> rfl

theorem common_promote (a : ITy) : ITy.common .i32 a = a.promote := by cases a <;> rfl

@[simp] theorem nodeTy_mk (k : NodeKind) (ty : CTy) (v : BitVec 64) (fv : BitVec 80) (a b c d e : CNode) : nodeTy (.mk k ty v fv a b c d e) = ty := rfl

theorem elab_ty (e : CExpr) : nodeTy (elabE e) = descr (typeOf e) := by
  induction e with
  | lit t v => rfl
  | un op e ih =>
    cases op with
    | neg => simp only [elabE, mkPromoted, nodeTy_mk, typeOf, ih, gct_int]
    | bitnot => simp only [elabE, mkPromoted, nodeTy_mk, typeOf, ih, gct_int]
    | lognot => rfl
    | plus =>
      simp only [elabE, typeOf]
      generalize elabE e = n at ih ⊢
      generalize typeOf e = t at ih ⊢
      cases t <;> simp [ih, descr, isInteger, mkCast, un, tyInt, ITy.promote]
  | bin op a b iha ihb =>
    cases op <;> simp only [elabE, mkArith, mkCompare, mkPromoted, bin, mkCast, un, nodeTy_mk, typeOf, iha, ihb, gct_descr, gct_int] <;> rfl
  | land a b _ _ => rfl
  | lor a b _ _ => rfl
  | cond c a b _ iha ihb => simp only [elabE, nodeTy_mk, typeOf, iha, ihb, gct_descr]
  | cast t e _ => rfl

/-! ## Casts -/

/-- a node that evaluates is not NULL, so `node->ty` succeeds -/
theorem tyOf_of_eval {h : HostMode} {fp : FpEnv} {n : CNode} {l : Bool} {v : BitVec 64}
    (hn : eval2 h fp n l = .ok v) : CNode.tyOf n = .ok (nodeTy n) := by
  cases n with
  | null => rw [eval2_null] at hn; cases hn
  | mk => rfl

theorem b2i_castS (b : Bool) : castS 64 (b2i b) = img (b2z b) := by cases b <;> decide

theorem wrap_bool01 (b : Bool) : wrapTy (descr .bool) (img (b2z b)) = img (b2z b) := by cases b <;> decide

theorem wrap_int01 (b : Bool) : wrapTy tyInt (img (b2z b)) = img (b2z b) := by cases b <;> decide

/-- **ND_CAST**: casting a node whose value is the image of `x` yields the image of the C11 conversion -/
theorem eval2_mkCast (fp : FpEnv) (n : CNode) (t : ITy) (x : Int) (label : Bool)
    (hn : eval2 .wrapping fp n label = .ok (img x))
    (hx : -9223372036854775808 ≤ x ∧ x ≤ 18446744073709551615)
    (hnf : isFlonum (nodeTy n) = false) :
    eval2 .wrapping fp (mkCast n (descr t)) label = .ok (img (t.convert x)) := by
  simp only [mkCast, un]
  rw [eval2_CAST _ _ _ _ _ _ _ _ _ _ _ (descr_not_flonum t)]
  by_cases hb : t = .bool
  · subst hb
    have hz := img_eq_zero_iff x hx.1 hx.2
    simp only [descr, tyOf_of_eval hn, hnf, hn, bind, Except.bind, pure, Except.pure]
    simp only [show (TypeKind.TY_BOOL == TypeKind.TY_BOOL) = true from rfl, ite_true, Bool.false_eq_true, ite_false]
    have : (img x != 0#64) = (x != 0) := by
      rw [Bool.eq_iff_iff]; simp only [bne_iff_ne, ne_eq]; exact not_congr hz
    rw [this, b2i_castS]
    have : ITy.convert .bool x = b2z (x != 0) := by
      simp only [ITy.convert, b2z]; by_cases h0 : x = 0 <;> simp [h0]
    rw [this]
    exact congrArg Except.ok (wrap_bool01 _)
  · have hk : ((descr t).kind == TypeKind.TY_BOOL) = false := by cases t <;> first | rfl | exact absurd rfl hb
    simp only [hk, Bool.false_eq_true, ite_false, tyOf_of_eval hn, hnf, Bool.false_and, hn, bind, Except.bind, pure, Except.pure]
    exact congrArg Except.ok (wrap_convert t hb x)

/-! ## Host operators on images -/

theorem img_add (x y : Int) : img x + img y = img (x + y) := (BitVec.ofInt_add x y).symm
theorem img_mul (x y : Int) : img x * img y = img (x * y) := (BitVec.ofInt_mul x y).symm
theorem img_neg (x : Int) : - img x = img (-x) := BitVec.ofInt_neg.symm
theorem img_sub (x y : Int) : img x - img y = img (x - y) := by
  rw [BitVec.sub_eq_add_neg, img_neg, img_add, Int.sub_eq_add_neg]

/-- a 64-bit vector is the image of its signed value -/
theorem img_of_toInt (b : BitVec 64) : b = img b.toInt := BitVec.ofInt_toInt.symm

theorem img_bmod (x : Int) : img (x.bmod (2 ^ 64)) = img x := by
  apply img_congr
  have := @Int.bmod_emod x (2 ^ 64)
  have e : ((2 ^ 64 : Nat) : Int) = 18446744073709551616 := by decide
  rw [e] at this; exact this

theorem img_sdiv (x y : Int) (hx : -9223372036854775808 ≤ x ∧ x ≤ 9223372036854775807)
    (hy : -9223372036854775808 ≤ y ∧ y ≤ 9223372036854775807) :
    (img x).sdiv (img y) = img (x.tdiv y) := by
  rw [img_of_toInt ((img x).sdiv (img y)), BitVec.toInt_sdiv, img_toInt x hx.1 hx.2, img_toInt y hy.1 hy.2]
  exact img_bmod _

theorem img_srem (x y : Int) (hx : -9223372036854775808 ≤ x ∧ x ≤ 9223372036854775807)
    (hy : -9223372036854775808 ≤ y ∧ y ≤ 9223372036854775807) :
    (img x).srem (img y) = img (x.tmod y) := by
  rw [img_of_toInt ((img x).srem (img y)), BitVec.toInt_srem, img_toInt x hx.1 hx.2, img_toInt y hy.1 hy.2]

theorem img_nat (n : Nat) (hn : n ≤ 18446744073709551615) : (img (n : Int)).toNat = n := by
  have := img_toNat (n : Int) (by omega) (by omega)
  omega

theorem img_udiv (x y : Int) (hx : 0 ≤ x ∧ x ≤ 18446744073709551615) (hy : 0 ≤ y ∧ y ≤ 18446744073709551615) :
    img x / img y = img (x.tdiv y) := by
  obtain ⟨nx, rfl⟩ := Int.eq_ofNat_of_zero_le hx.1
  obtain ⟨ny, rfl⟩ := Int.eq_ofNat_of_zero_le hy.1
  apply BitVec.eq_of_toNat_eq
  rw [BitVec.toNat_udiv, ← Int.ofNat_tdiv, img_nat nx (by omega), img_nat ny (by omega), img_nat]
  have : nx / ny ≤ nx := Nat.div_le_self _ _
  omega

theorem img_umod (x y : Int) (hx : 0 ≤ x ∧ x ≤ 18446744073709551615) (hy : 0 ≤ y ∧ y ≤ 18446744073709551615) :
    img x % img y = img (x.tmod y) := by
  obtain ⟨nx, rfl⟩ := Int.eq_ofNat_of_zero_le hx.1
  obtain ⟨ny, rfl⟩ := Int.eq_ofNat_of_zero_le hy.1
  apply BitVec.eq_of_toNat_eq
  have e : ((nx : Int) % (ny : Int)) = ((nx % ny : Nat) : Int) := by norm_cast
  rw [BitVec.toNat_umod, Int.tmod_eq_emod_of_nonneg (by omega), e, img_nat nx (by omega), img_nat ny (by omega), img_nat]
  have : nx % ny ≤ nx := Nat.mod_le _ _
  omega

theorem img_shl (x : Int) (n : Nat) (hn : n < 64) : img x <<< n = img (x * 2 ^ n) := by
  rw [BitVec.shiftLeft_eq_mul_twoPow, ← img_mul]
  congr 1
  apply BitVec.eq_of_toNat_eq
  rw [BitVec.toNat_twoPow]
  have : ((2 : Int) ^ n) = ((2 ^ n : Nat) : Int) := by simp
  have lt : 2 ^ n < 2 ^ 64 := Nat.pow_lt_pow_right (by decide) hn
  rw [this, img_nat _ (by have : (2:Nat) ^ 64 = 18446744073709551616 := by decide
                          omega)]
  exact Nat.mod_eq_of_lt lt

theorem img_ushr (x : Int) (n : Nat) (hx : 0 ≤ x ∧ x ≤ 18446744073709551615) : img x >>> n = img (x / 2 ^ n) := by
  obtain ⟨nx, rfl⟩ := Int.eq_ofNat_of_zero_le hx.1
  apply BitVec.eq_of_toNat_eq
  have : ((nx : Int) / 2 ^ n) = ((nx / 2 ^ n : Nat) : Int) := by simp
  rw [BitVec.toNat_ushiftRight, Nat.shiftRight_eq_div_pow, this, img_nat nx (by omega), img_nat]
  have : nx / 2 ^ n ≤ nx := Nat.div_le_self _ _
  omega

theorem img_sshr (x : Int) (n : Nat) (hx : -9223372036854775808 ≤ x ∧ x ≤ 9223372036854775807) :
    (img x).sshiftRight n = img (x / 2 ^ n) := by
  rw [img_of_toInt ((img x).sshiftRight n), BitVec.toInt_sshiftRight, img_toInt x hx.1 hx.2, Int.shiftRight_eq_div_pow]
  simp


/-! ## One lemma per operator arm -/

/-- the types that survive promotion: results of the usual arithmetic conversions -/
def Wide (t : ITy) : Prop := t = .i32 ∨ t = .u32 ∨ t = .i64 ∨ t = .u64

theorem common_wide (a b : ITy) : Wide (ITy.common a b) := by cases a <;> cases b <;> simp [Wide, ITy.common, ITy.promote]
theorem promote_wide (a : ITy) : Wide a.promote := by cases a <;> simp [Wide, ITy.promote]
theorem Wide.ne_bool {t : ITy} (h : Wide t) : t ≠ .bool := by rcases h with h | h | h | h <;> subst h <;> decide

theorem arith_convert (t : ITy) (ht : t ≠ .bool) (r v : Int) (h : Spec.Const.arith t r = some v) : v = t.convert r := by
  unfold Spec.Const.arith at h
  split at h
  · split at h
    · cases h; exact (convert_id t r ‹_›).symm
    · cases h
  · cases h
    cases t <;> simp_all [ITy.convert, ITy.signed, ITy.bits]

/-- the common last step: the raw host result is the image of the mathematical result `r` -/
theorem arm_result (t : ITy) (ht : t ≠ .bool) (raw : BitVec 64) (r v : Int) (hraw : raw = img r)
    (hv : Spec.Const.arith t r = some v) : wrapTy (descr t) raw = img v ∧ t.inRange v = true := by
  have := arith_convert t ht r v hv
  subst this hraw
  exact ⟨wrap_convert t ht r, convert_inRange t r⟩

variable (fp : FpEnv) (t : ITy) (l r : CNode) (x y v : Int) (label : Bool)

theorem fold_add (ht : t ≠ .bool)
    (hl : ∀ lab, eval2 .wrapping fp l lab = .ok (img x)) (hr : ∀ lab, eval2 .wrapping fp r lab = .ok (img y))
    (hv : binop .add t x y = some v) :
    eval2 .wrapping fp (bin .ND_ADD (descr t) l r) label = .ok (img v) ∧ t.inRange v = true := by
  have ⟨h1, h2⟩ := arm_result t ht (img x + img y) (x + y) v (img_add x y) hv
  refine ⟨?_, h2⟩
  simp only [bin]; rw [eval2_ADD _ _ _ _ _ _ _ _ _ _ _ (descr_not_flonum t)]
  simp only [hl, hr, bind, Except.bind, pure, Except.pure, addS, ovf, h1]

theorem fold_sub (ht : t ≠ .bool)
    (hl : ∀ lab, eval2 .wrapping fp l lab = .ok (img x)) (hr : ∀ lab, eval2 .wrapping fp r lab = .ok (img y))
    (hv : binop .sub t x y = some v) :
    eval2 .wrapping fp (bin .ND_SUB (descr t) l r) label = .ok (img v) ∧ t.inRange v = true := by
  have ⟨h1, h2⟩ := arm_result t ht (img x - img y) (x - y) v (img_sub x y) hv
  refine ⟨?_, h2⟩
  simp only [bin]; rw [eval2_SUB _ _ _ _ _ _ _ _ _ _ _ (descr_not_flonum t)]
  simp only [hl, hr, bind, Except.bind, pure, Except.pure, subS, ovf, h1]

theorem fold_mul (ht : t ≠ .bool)
    (hl : ∀ lab, eval2 .wrapping fp l lab = .ok (img x)) (hr : ∀ lab, eval2 .wrapping fp r lab = .ok (img y))
    (hv : binop .mul t x y = some v) :
    eval2 .wrapping fp (bin .ND_MUL (descr t) l r) label = .ok (img v) ∧ t.inRange v = true := by
  have ⟨h1, h2⟩ := arm_result t ht (img x * img y) (x * y) v (img_mul x y) hv
  refine ⟨?_, h2⟩
  simp only [bin]; rw [eval2_MUL _ _ _ _ _ _ _ _ _ _ _ (descr_not_flonum t)]
  simp only [hl, hr, bind, Except.bind, pure, Except.pure, mulS, ovf, h1]


theorem img_eq_negOne_iff (y : Int) (hy : -9223372036854775808 ≤ y ∧ y ≤ 9223372036854775807) :
    img y = 18446744073709551615#64 ↔ y = -1 := by
  constructor
  · intro h
    have := congrArg BitVec.toInt h
    rw [img_toInt y hy.1 hy.2] at this
    rw [this]; decide
  · intro h; subst h; decide

theorem beq_false_of_ne {α} [BEq α] [LawfulBEq α] {a b : α} (h : a ≠ b) : (a == b) = false := by
  simpa using h

variable (t : ITy) (x y : Int)

theorem divmod_div (hw : Wide t) (hx : t.inRange x = true) (hy : t.inRange y = true) (hy0 : y ≠ 0) :
    divmod .wrapping true (descr t) (img x) (img y) = .ok (img (x.tdiv y)) := by
  have hyw := inRange_wide t y hy
  have hz : img y ≠ 0#64 := fun h => hy0 ((img_eq_zero_iff y hyw.1 hyw.2).1 h)
  have hz' : ¬ (img y = 0) := hz
  unfold divmod
  rw [beq_false_of_ne hz]
  rcases hw with h | h | h | h <;> subst h <;> rng
  · -- i32
    simp only [descr, Bool.false_eq_true, ite_false, ite_true]
    by_cases h1 : y = -1
    · subst h1
      simp only [show (img (-1) == 18446744073709551615#64) = true from by decide, ite_true, pure, Except.pure,
        img_neg, Int.tdiv_neg, Int.tdiv_one]
    · have hn : img y ≠ 18446744073709551615#64 := fun h => h1 ((img_eq_negOne_iff y (by omega)).1 h)
      have hn' : img y ≠ -1 := hn
      rw [beq_false_of_ne hn]
      simp only [Bool.false_eq_true, ite_false, divS, hz', hn', ↓reduceIte, and_false, img_sdiv x y (by omega) (by omega)]
  · -- u32
    simp only [descr, ite_true, divU, hz', ↓reduceIte, img_udiv x y (by omega) (by omega)]
  · -- i64
    simp only [descr, Bool.false_eq_true, ite_false, ite_true]
    by_cases h1 : y = -1
    · subst h1
      simp only [show (img (-1) == 18446744073709551615#64) = true from by decide, ite_true, pure, Except.pure,
        img_neg, Int.tdiv_neg, Int.tdiv_one]
    · have hn : img y ≠ 18446744073709551615#64 := fun h => h1 ((img_eq_negOne_iff y (by omega)).1 h)
      have hn' : img y ≠ -1 := hn
      rw [beq_false_of_ne hn]
      simp only [Bool.false_eq_true, ite_false, divS, hz', hn', ↓reduceIte, and_false, img_sdiv x y (by omega) (by omega)]
  · -- u64
    simp only [descr, ite_true, divU, hz', ↓reduceIte, img_udiv x y (by omega) (by omega)]

theorem divmod_mod (hw : Wide t) (hx : t.inRange x = true) (hy : t.inRange y = true) (hy0 : y ≠ 0) :
    divmod .wrapping false (descr t) (img x) (img y) = .ok (img (x.tmod y)) := by
  have hyw := inRange_wide t y hy
  have hz : img y ≠ 0#64 := fun h => hy0 ((img_eq_zero_iff y hyw.1 hyw.2).1 h)
  have hz' : ¬ (img y = 0) := hz
  unfold divmod
  rw [beq_false_of_ne hz]
  rcases hw with h | h | h | h <;> subst h <;> rng
  · simp only [descr, Bool.false_eq_true, ite_false, ite_true]
    by_cases h1 : y = -1
    · subst h1
      simp only [show (img (-1) == 18446744073709551615#64) = true from by decide, ite_true, pure, Except.pure,
        Int.tmod_neg, Int.tmod_one]; rfl
    · have hn : img y ≠ 18446744073709551615#64 := fun h => h1 ((img_eq_negOne_iff y (by omega)).1 h)
      have hn' : img y ≠ -1 := hn
      rw [beq_false_of_ne hn]
      simp only [Bool.false_eq_true, ite_false, modS, hz', hn', ↓reduceIte, and_false, img_srem x y (by omega) (by omega)]
  · simp only [descr, ite_true, modU, hz', ↓reduceIte, Bool.false_eq_true, img_umod x y (by omega) (by omega)]
  · simp only [descr, Bool.false_eq_true, ite_false, ite_true]
    by_cases h1 : y = -1
    · subst h1
      simp only [show (img (-1) == 18446744073709551615#64) = true from by decide, ite_true, pure, Except.pure,
        Int.tmod_neg, Int.tmod_one]; rfl
    · have hn : img y ≠ 18446744073709551615#64 := fun h => h1 ((img_eq_negOne_iff y (by omega)).1 h)
      have hn' : img y ≠ -1 := hn
      rw [beq_false_of_ne hn]
      simp only [Bool.false_eq_true, ite_false, modS, hz', hn', ↓reduceIte, and_false, img_srem x y (by omega) (by omega)]
  · simp only [descr, ite_true, modU, hz', ↓reduceIte, Bool.false_eq_true, img_umod x y (by omega) (by omega)]

section arms2
variable (fp : FpEnv) (t : ITy) (l r : CNode) (x y v : Int) (label : Bool)

theorem fold_div (hw : Wide t)
    (hl : ∀ lab, eval2 .wrapping fp l lab = .ok (img x)) (hr : ∀ lab, eval2 .wrapping fp r lab = .ok (img y))
    (hx : t.inRange x = true) (hy : t.inRange y = true) (hv : binop .div t x y = some v) :
    eval2 .wrapping fp (bin .ND_DIV (descr t) l r) label = .ok (img v) ∧ t.inRange v = true := by
  simp only [binop] at hv
  split at hv
  · cases hv
  · rename_i hy0
    have ⟨h1, h2⟩ := arm_result t hw.ne_bool (img (x.tdiv y)) (x.tdiv y) v rfl hv
    refine ⟨?_, h2⟩
    simp only [bin]; rw [eval2_DIV _ _ _ _ _ _ _ _ _ _ _ (descr_not_flonum t)]
    simp only [hl, hr, bind, Except.bind, pure, Except.pure, divmod_div t x y hw hx hy hy0, h1]

theorem tmod_inRange (hw : Wide t) (hx : t.inRange x = true) (hy : t.inRange y = true) : t.inRange (x.tmod y) = true := by
  have h1 := Int.natAbs_tmod x y
  have h2 : x.natAbs % y.natAbs ≤ x.natAbs := Nat.mod_le _ _
  have h3 : 0 ≤ x → 0 ≤ x.tmod y := Int.tmod_nonneg y
  have h4 : x ≤ 0 → x.tmod y ≤ 0 := by
    intro hx0
    have := Int.tmod_nonneg y (show 0 ≤ -x by omega)
    rw [Int.neg_tmod] at this; omega
  rcases hw with h | h | h | h <;> subst h <;> rng <;> omega

theorem fold_mod (hw : Wide t)
    (hl : ∀ lab, eval2 .wrapping fp l lab = .ok (img x)) (hr : ∀ lab, eval2 .wrapping fp r lab = .ok (img y))
    (hx : t.inRange x = true) (hy : t.inRange y = true) (hv : binop .mod t x y = some v) :
    eval2 .wrapping fp (bin .ND_MOD (descr t) l r) label = .ok (img v) ∧ t.inRange v = true := by
  simp only [binop] at hv
  split at hv
  · cases hv
  · rename_i hy0
    split at hv
    · cases hv
    · cases hv
      have hr' := tmod_inRange t x y hw hx hy
      refine ⟨?_, hr'⟩
      simp only [bin]; rw [eval2_MOD _ _ _ _ _ _ _ _ _ _ _ (descr_not_flonum t)]
      simp only [hl, hr, bind, Except.bind, pure, Except.pure, divmod_mod t x y hw hx hy hy0,
        wrap_convert t hw.ne_bool, convert_id t _ hr']

/-- bitwise operators: the raw result is the image of its own signed value, which is what the Spec converts -/
theorem fold_bitwise (f : BitVec 64 → BitVec 64 → BitVec 64) (ht : t ≠ .bool) :
    wrapTy (descr t) (f (img x) (img y)) = img (bitwise f t x y) ∧ t.inRange (bitwise f t x y) = true := by
  unfold bitwise
  refine ⟨?_, convert_inRange t _⟩
  rw [← wrap_convert t ht, ← img_of_toInt]

theorem fold_band (ht : t ≠ .bool)
    (hl : ∀ lab, eval2 .wrapping fp l lab = .ok (img x)) (hr : ∀ lab, eval2 .wrapping fp r lab = .ok (img y))
    (hv : binop .band t x y = some v) :
    eval2 .wrapping fp (bin .ND_BITAND (descr t) l r) label = .ok (img v) ∧ t.inRange v = true := by
  simp only [binop] at hv; cases hv
  have ⟨h1, h2⟩ := fold_bitwise t x y (· &&& ·) ht
  refine ⟨?_, h2⟩
  simp only [bin]; rw [eval2_BITAND _ _ _ _ _ _ _ _ _ _ _ (descr_not_flonum t)]
  simp only [hl, hr, bind, Except.bind, pure, Except.pure, h1]

theorem fold_bor (ht : t ≠ .bool)
    (hl : ∀ lab, eval2 .wrapping fp l lab = .ok (img x)) (hr : ∀ lab, eval2 .wrapping fp r lab = .ok (img y))
    (hv : binop .bor t x y = some v) :
    eval2 .wrapping fp (bin .ND_BITOR (descr t) l r) label = .ok (img v) ∧ t.inRange v = true := by
  simp only [binop] at hv; cases hv
  have ⟨h1, h2⟩ := fold_bitwise t x y (· ||| ·) ht
  refine ⟨?_, h2⟩
  simp only [bin]; rw [eval2_BITOR _ _ _ _ _ _ _ _ _ _ _ (descr_not_flonum t)]
  simp only [hl, hr, bind, Except.bind, pure, Except.pure, h1]

theorem fold_bxor (ht : t ≠ .bool)
    (hl : ∀ lab, eval2 .wrapping fp l lab = .ok (img x)) (hr : ∀ lab, eval2 .wrapping fp r lab = .ok (img y))
    (hv : binop .bxor t x y = some v) :
    eval2 .wrapping fp (bin .ND_BITXOR (descr t) l r) label = .ok (img v) ∧ t.inRange v = true := by
  simp only [binop] at hv; cases hv
  have ⟨h1, h2⟩ := fold_bitwise t x y (· ^^^ ·) ht
  refine ⟨?_, h2⟩
  simp only [bin]; rw [eval2_BITXOR _ _ _ _ _ _ _ _ _ _ _ (descr_not_flonum t)]
  simp only [hl, hr, bind, Except.bind, pure, Except.pure, h1]


end arms2

section arms3
theorem ediv_pow_bounds (x : Int) (n : Nat) :
    (0 ≤ x → 0 ≤ x / 2 ^ n ∧ x / 2 ^ n ≤ x) ∧ (x < 0 → x ≤ x / 2 ^ n ∧ x / 2 ^ n < 0) := by
  have hd : (0 : Int) < 2 ^ n := Int.pow_pos (by decide)
  constructor
  · intro hx
    exact ⟨Int.ediv_nonneg hx (Int.le_of_lt hd), Int.ediv_le_self _ hx⟩
  · intro hx
    constructor
    · apply Int.le_ediv_of_mul_le hd
      have h1 : (1 : Int) ≤ 2 ^ n := hd
      have := Int.mul_le_mul_of_nonpos_left (a := x) (b := 2 ^ n) (c := 1) (Int.le_of_lt hx) h1
      simpa using this
    · exact Int.ediv_neg_of_neg_of_pos hx hd

theorem shift_inRange (t : ITy) (hw : Wide t) (x : Int) (n : Nat) (hx : t.inRange x = true) : t.inRange (x / 2 ^ n) = true := by
  have ⟨h1, h2⟩ := ediv_pow_bounds x n
  rcases hw with h | h | h | h <;> subst h <;> rng <;> omega

variable (fp : FpEnv) (t : ITy) (l r : CNode) (x y v : Int) (label : Bool)

theorem fold_shl (hw : Wide t)
    (hl : ∀ lab, eval2 .wrapping fp l lab = .ok (img x)) (hr : ∀ lab, eval2 .wrapping fp r lab = .ok (img y))
    (hx : t.inRange x = true) (hv : binop .shl t x y = some v) :
    eval2 .wrapping fp (.mk .ND_SHL (descr t) 0 0 l r .null .null .null) label = .ok (img v) ∧ t.inRange v = true := by
  simp only [binop] at hv
  split at hv
  · cases hv
  · rename_i hc
    have hy : 0 ≤ y ∧ y < 64 := by
      rcases hw with h | h | h | h <;> subst h <;> simp [ITy.bits] at hc <;> omega
    have hcnt : (img y).toInt = y := img_toInt y (by omega) (by omega)
    have hraw : shlS .wrapping (img x) (img y).toInt = .ok (img (x * 2 ^ y.toNat)) := by
      rw [hcnt]
      simp only [shlS, ovf]
      rw [if_neg (by omega), img_shl x y.toNat (by omega)]
    have hres : wrapTy (descr t) (img (x * 2 ^ y.toNat)) = img v ∧ t.inRange v = true := by
      rw [wrap_convert t hw.ne_bool]
      split at hv
      · split at hv
        · cases hv
        · split at hv
          · cases hv; rename_i hin; exact ⟨by rw [convert_id t _ hin], hin⟩
          · cases hv
      · cases hv
        refine ⟨?_, ?_⟩
        · rcases hw with h | h | h | h <;> subst h <;> simp_all [ITy.convert, ITy.signed, ITy.bits]
        · have := convert_inRange t (x * 2 ^ y.toNat)
          rcases hw with h | h | h | h <;> subst h <;> simp_all [ITy.convert, ITy.signed, ITy.bits]
    refine ⟨?_, hres.2⟩
    rw [eval2_SHL _ _ _ _ _ _ _ _ _ _ _ (descr_not_flonum t)]
    simp only [hl, hr, bind, Except.bind, pure, Except.pure, hraw, hres.1]

theorem fold_shr (hw : Wide t)
    (hl : ∀ lab, eval2 .wrapping fp l lab = .ok (img x)) (hr : ∀ lab, eval2 .wrapping fp r lab = .ok (img y))
    (hx : t.inRange x = true) (hv : binop .shr t x y = some v) :
    eval2 .wrapping fp (.mk .ND_SHR (descr t) 0 0 l r .null .null .null) label = .ok (img v) ∧ t.inRange v = true := by
  simp only [binop] at hv
  split at hv
  · cases hv
  · rename_i hc
    cases hv
    have hy : 0 ≤ y ∧ y < 64 := by
      rcases hw with h | h | h | h <;> subst h <;> simp [ITy.bits] at hc <;> omega
    have hcnt : (img y).toInt = y := img_toInt y (by omega) (by omega)
    have hin := shift_inRange t hw x y.toNat hx
    refine ⟨?_, hin⟩
    rw [eval2_SHR _ _ _ _ _ _ _ _ _ _ _ (descr_not_flonum t)]
    simp only [hl, hr, bind, Except.bind, pure, Except.pure, hcnt]
    have hwr := wrap_convert t hw.ne_bool (x / 2 ^ y.toNat)
    rw [convert_id t _ hin] at hwr
    rcases hw with h | h | h | h <;> subst h <;> rng
    · simp only [descr, Bool.false_and, Bool.false_eq_true, ite_false, shrS]
      rw [if_neg (by omega), img_sshr x y.toNat (by omega)]; exact congrArg Except.ok hwr
    · simp only [descr, show ((4#32 : BitVec 32) == 8#32) = false from by decide, Bool.and_false, Bool.false_eq_true, ite_false, shrS]
      rw [if_neg (by omega), img_sshr x y.toNat (by omega)]; exact congrArg Except.ok hwr
    · simp only [descr, Bool.false_and, Bool.false_eq_true, ite_false, shrS]
      rw [if_neg (by omega), img_sshr x y.toNat (by omega)]; exact congrArg Except.ok hwr
    · simp only [descr, show ((8#32 : BitVec 32) == 8#32) = true from by decide, Bool.and_self, ite_true, shrU]
      rw [if_neg (by omega), img_ushr x y.toNat (by omega)]; exact congrArg Except.ok hwr


end arms3

section arms4
variable (fp : FpEnv) (t : ITy) (l r : CNode) (x y v : Int) (label : Bool)

theorem img_inj (hw : Wide t) (hx : t.inRange x = true) (hy : t.inRange y = true) : img x = img y ↔ x = y := by
  constructor
  · intro h
    rcases hw with h' | h' | h' | h' <;> subst h' <;> rng
    · have := congrArg BitVec.toInt h; rw [img_toInt x (by omega) (by omega), img_toInt y (by omega) (by omega)] at this; exact this
    · have := congrArg (fun b => (b.toNat : Int)) h
      rw [img_toNat x (by omega) (by omega), img_toNat y (by omega) (by omega)] at this; exact this
    · have := congrArg BitVec.toInt h; rw [img_toInt x (by omega) (by omega), img_toInt y (by omega) (by omega)] at this; exact this
    · have := congrArg (fun b => (b.toNat : Int)) h
      rw [img_toNat x (by omega) (by omega), img_toNat y (by omega) (by omega)] at this; exact this
  · intro h; rw [h]

/-- host comparison of two images at a wide type = comparison of the values -/
theorem cmp_images (hw : Wide t) (hx : t.inRange x = true) (hy : t.inRange y = true) :
    (if (descr t).isUnsigned then BitVec.ult (img x) (img y) else BitVec.slt (img x) (img y)) = decide (x < y)
    ∧ (if (descr t).isUnsigned then BitVec.ule (img x) (img y) else BitVec.sle (img x) (img y)) = decide (x ≤ y) := by
  rcases hw with h' | h' | h' | h' <;> subst h' <;> rng <;>
    simp only [descr, Bool.false_eq_true, ite_false, ite_true, BitVec.slt_eq_decide, BitVec.sle_eq_decide,
      BitVec.ult_eq_decide, BitVec.ule_eq_decide]
  · rw [img_toInt x (by omega) (by omega), img_toInt y (by omega) (by omega)]; exact ⟨rfl, rfl⟩
  · have hx' := img_toNat x (by omega) (by omega); have hy' := img_toNat y (by omega) (by omega)
    constructor <;> apply decide_eq_decide.2 <;> omega
  · rw [img_toInt x (by omega) (by omega), img_toInt y (by omega) (by omega)]; exact ⟨rfl, rfl⟩
  · have hx' := img_toNat x (by omega) (by omega); have hy' := img_toNat y (by omega) (by omega)
    constructor <;> apply decide_eq_decide.2 <;> omega

/-- the comparison arm on two operands cast to the wide type `t` -/
theorem cmpArm_ok (op : BitVec 80 → BitVec 80 → Bool) (cu cs : BitVec 64 → BitVec 64 → Bool) (b : Bool)
    (hlt : CNode.tyOf l = .ok (descr t))
    (hl : ∀ lab, eval2 .wrapping fp l lab = .ok (img x)) (hr : ∀ lab, eval2 .wrapping fp r lab = .ok (img y))
    (hb : (if (descr t).isUnsigned then cu (img x) (img y) else cs (img x) (img y)) = b) :
    cmpArm .wrapping fp op cu cs l r = .ok (img (b2z b)) := by
  unfold cmpArm
  simp only [hlt, descr_not_flonum, bind, Except.bind, pure, Except.pure, Bool.false_eq_true, ite_false, hl, hr]
  subst hb
  split <;> simp only [b2i_castS] <;> rfl

theorem fold_cmp_node (b : Bool) (raw : Except Fail (BitVec 64)) (hraw : raw = .ok (img (b2z b))) :
    (raw >>= fun v => pure (wrapTy tyInt v)) = (.ok (img (b2z b)) : Except Fail (BitVec 64)) := by
  subst hraw
  simp only [bind, Except.bind, pure, Except.pure, wrap_int01]

/-- `eval_truth` on an integer node -/
theorem truth_ok (n : CNode) (hn : ∀ lab, eval2 .wrapping fp n lab = .ok (img x))
    (hx : -9223372036854775808 ≤ x ∧ x ≤ 18446744073709551615) (hnf : isFlonum (nodeTy n) = false) :
    truth .wrapping fp n = .ok (x != 0) := by
  unfold truth
  have hz := img_eq_zero_iff x hx.1 hx.2
  have : (img x != 0#64) = (x != 0) := by
    rw [Bool.eq_iff_iff]; simp only [bne_iff_ne, ne_eq]; exact not_congr hz
  simp only [tyOf_of_eval (hn false), hnf, hn, bind, Except.bind, pure, Except.pure, Bool.false_eq_true, ite_false, this]


end arms4

/-! ## The induction -/

section induction
/-- the value of an expression, as the folder holds it: the image of `x`, which lies in the range of the C11 type -/
def Folds (fp : FpEnv) (e : CExpr) (x : Int) : Prop :=
  (typeOf e).inRange x = true ∧ ∀ label, eval2 .wrapping fp (elabE e) label = .ok (img x)

theorem promote_inRange (t : ITy) (x : Int) (h : t.inRange x = true) : t.promote.inRange x = true := by
  cases t <;> simp only [ITy.promote] <;> rng <;> omega

theorem common_comm (a b : ITy) : ITy.common a b = ITy.common b a := by cases a <;> cases b <;> rfl

variable (fp : FpEnv)

theorem cast_ok {e : CExpr} {x : Int} (t : ITy) (h : Folds fp e x) :
    ∀ lab, eval2 .wrapping fp (mkCast (elabE e) (descr t)) lab = .ok (img (t.convert x)) := by
  intro lab
  have hw := inRange_wide _ x h.1
  exact eval2_mkCast fp (elabE e) t x lab (h.2 lab) hw (by rw [elab_ty]; exact descr_not_flonum _)

theorem fold_lit (t : ITy) (v x : Int) (h : Spec.Const.eval (.lit t v) = some x) : Folds fp (.lit t v) x := by
  simp only [Spec.Const.eval] at h
  split at h
  · cases h; rename_i hin
    refine ⟨hin, fun lab => ?_⟩
    simp only [elabE]
    rw [eval2_NUM _ _ _ _ _ _ _ _ _ _ _ (descr_not_flonum t)]
    by_cases hb : t = .bool
    · subst hb; rng
      have : v = 0 ∨ v = 1 := by omega
      rcases this with h | h <;> subst h <;> rfl
    · simp only [pure, Except.pure, wrap_convert t hb, convert_id t _ hin]
  · cases h

theorem fold_neg {e : CExpr} {x v : Int} (h : Folds fp e x) (hv : Spec.Const.arith (typeOf e).promote (-x) = some v) :
    Folds fp (.un .neg e) v := by
  have hp := promote_inRange _ x h.1
  have hw := promote_wide (typeOf e)
  have ⟨h1, h2⟩ := arm_result _ hw.ne_bool (-(img x)) (-x) v (img_neg x) hv
  refine ⟨h2, fun lab => ?_⟩
  simp only [elabE, mkPromoted, elab_ty, gct_int]
  rw [eval2_NEG _ _ _ _ _ _ _ _ _ _ _ (descr_not_flonum _)]
  simp only [cast_ok fp _ h, convert_id _ _ hp, bind, Except.bind, pure, Except.pure, negS, ovf, h1]

theorem fold_bitnot {e : CExpr} {x : Int} (h : Folds fp e x) :
    Folds fp (.un .bitnot e) ((typeOf e).promote.convert ((~~~ (BitVec.ofInt 64 x)).toInt)) := by
  have hp := promote_inRange _ x h.1
  have hw := promote_wide (typeOf e)
  refine ⟨convert_inRange _ _, fun lab => ?_⟩
  simp only [elabE, mkPromoted, elab_ty, gct_int]
  rw [eval2_BITNOT _ _ _ _ _ _ _ _ _ _ _ (descr_not_flonum _)]
  simp only [cast_ok fp _ h, convert_id _ _ hp, bind, Except.bind, pure, Except.pure]
  rw [← wrap_convert _ hw.ne_bool, ← img_of_toInt]

theorem fold_lognot {e : CExpr} {x : Int} (h : Folds fp e x) : Folds fp (.un .lognot e) (b2z (x == 0)) := by
  refine ⟨by cases (x == 0) <;> rfl, fun lab => ?_⟩
  simp only [elabE, un]
  rw [eval2_NOT _ _ _ _ _ _ _ _ _ _ _ (show isFlonum tyInt = false from rfl)]
  rw [truth_ok fp x (elabE e) h.2 (inRange_wide _ x h.1) (by rw [elab_ty]; exact descr_not_flonum _)]
  simp only [bind, Except.bind, pure, Except.pure, b2i_castS]
  have : (!(x != 0)) = (x == 0) := by cases hx : (x == 0) <;> simp_all [bne]
  rw [this]; exact congrArg Except.ok (wrap_int01 _)

theorem fold_plus {e : CExpr} {x : Int} (h : Folds fp e x) : Folds fp (.un .plus e) x := by
  have hp := promote_inRange _ x h.1
  refine ⟨hp, fun lab => ?_⟩
  simp only [elabE, elab_ty]
  split
  · rename_i hc
    have ht : (typeOf e).promote = .i32 := by
      generalize typeOf e = t at hc ⊢; cases t <;> simp_all [descr, isInteger] <;> rfl
    have := cast_ok fp .i32 h lab
    rw [ht] at hp
    rw [convert_id _ _ hp] at this; exact this
  · exact h.2 lab


end induction

section induction2
variable (fp : FpEnv)

/-- arithmetic and bitwise operators: both operands converted to the common type -/
theorem fold_bin_arith {a b : CExpr} {x y v : Int} (op : BinOp) (k : NodeKind)
    (hop : (op, k) ∈ [(BinOp.add, NodeKind.ND_ADD), (.sub, .ND_SUB), (.mul, .ND_MUL), (.div, .ND_DIV), (.mod, .ND_MOD),
                     (.band, .ND_BITAND), (.bor, .ND_BITOR), (.bxor, .ND_BITXOR)])
    (ha : Folds fp a x) (hb : Folds fp b y)
    (hv : binop op (ITy.common (typeOf a) (typeOf b)) ((ITy.common (typeOf a) (typeOf b)).convert x)
            ((ITy.common (typeOf a) (typeOf b)).convert y) = some v) :
    (ITy.common (typeOf a) (typeOf b)).inRange v = true ∧
      ∀ lab, eval2 .wrapping fp (mkArith k (elabE a) (elabE b)) lab = .ok (img v) := by
  have hw := common_wide (typeOf a) (typeOf b)
  have e : mkArith k (elabE a) (elabE b) = bin k (descr (ITy.common (typeOf a) (typeOf b)))
      (mkCast (elabE a) (descr (ITy.common (typeOf a) (typeOf b)))) (mkCast (elabE b) (descr (ITy.common (typeOf a) (typeOf b)))) := by
    simp only [mkArith, elab_ty, gct_descr]
  rw [e]
  generalize ITy.common (typeOf a) (typeOf b) = t at hv hw ⊢
  have hl := cast_ok fp t ha
  have hr := cast_ok fp t hb
  have hx := convert_inRange t x
  have hy := convert_inRange t y
  simp only [List.mem_cons, Prod.mk.injEq, List.mem_nil_iff, or_false] at hop
  have key : ∀ lab, eval2 .wrapping fp (bin k (descr t) (mkCast (elabE a) (descr t)) (mkCast (elabE b) (descr t))) lab = .ok (img v)
      ∧ t.inRange v = true := by
    intro lab
    rcases hop with ⟨h1, h2⟩ | ⟨h1, h2⟩ | ⟨h1, h2⟩ | ⟨h1, h2⟩ | ⟨h1, h2⟩ | ⟨h1, h2⟩ | ⟨h1, h2⟩ | ⟨h1, h2⟩ <;> subst h1 h2
    · exact fold_add fp t _ _ _ _ v lab hw.ne_bool hl hr hv
    · exact fold_sub fp t _ _ _ _ v lab hw.ne_bool hl hr hv
    · exact fold_mul fp t _ _ _ _ v lab hw.ne_bool hl hr hv
    · exact fold_div fp t _ _ _ _ v lab hw hl hr hx hy hv
    · exact fold_mod fp t _ _ _ _ v lab hw hl hr hx hy hv
    · exact fold_band fp t _ _ _ _ v lab hw.ne_bool hl hr hv
    · exact fold_bor fp t _ _ _ _ v lab hw.ne_bool hl hr hv
    · exact fold_bxor fp t _ _ _ _ v lab hw.ne_bool hl hr hv
  exact ⟨(key false).2, fun lab => (key lab).1⟩

theorem fold_bin_shift {a b : CExpr} {x y v : Int} (op : BinOp) (k : NodeKind)
    (hop : (op, k) ∈ [(BinOp.shl, NodeKind.ND_SHL), (.shr, .ND_SHR)])
    (ha : Folds fp a x) (hb : Folds fp b y)
    (hv : binop op (typeOf a).promote x y = some v) :
    (typeOf a).promote.inRange v = true ∧ ∀ lab, eval2 .wrapping fp (mkPromoted k (elabE a) (elabE b)) lab = .ok (img v) := by
  have hw := promote_wide (typeOf a)
  have hp := promote_inRange _ x ha.1
  have e : mkPromoted k (elabE a) (elabE b) = .mk k (descr (typeOf a).promote) 0 0 (mkCast (elabE a) (descr (typeOf a).promote))
      (elabE b) .null .null .null := by simp only [mkPromoted, elab_ty, gct_int]
  rw [e]
  have hl := cast_ok fp (typeOf a).promote ha
  rw [convert_id _ _ hp] at hl
  simp only [List.mem_cons, Prod.mk.injEq, List.mem_nil_iff, or_false] at hop
  have key : ∀ lab, eval2 .wrapping fp (.mk k (descr (typeOf a).promote) 0 0 (mkCast (elabE a) (descr (typeOf a).promote))
      (elabE b) .null .null .null) lab = .ok (img v) ∧ (typeOf a).promote.inRange v = true := fun lab => by
    rcases hop with ⟨h1, h2⟩ | ⟨h1, h2⟩ <;> subst h1 h2
    · exact fold_shl fp _ _ _ x y v lab hw hl hb.2 hp hv
    · exact fold_shr fp _ _ _ x y v lab hw hl hb.2 hp hv
  exact ⟨(key false).2, fun lab => (key lab).1⟩

/-- a comparison node over two expressions: both converted to the common type `t`, result `int` -/
theorem fold_cmp_gen {a b : CExpr} {x y : Int} (k : NodeKind) (op : BitVec 80 → BitVec 80 → Bool) (cu cs : BitVec 64 → BitVec 64 → Bool) (res : Bool)
    (ha : Folds fp a x) (hb : Folds fp b y)
    (harm : ∀ (ty : CTy) (nv : BitVec 64) (fv : BitVec 80) (l r c t e : CNode) (label : Bool), isFlonum ty = false →
        eval2 .wrapping fp (.mk k ty nv fv l r c t e) label = (cmpArm .wrapping fp op cu cs l r >>= fun v => pure (wrapTy ty v)))
    (hres : (if (descr (ITy.common (typeOf a) (typeOf b))).isUnsigned
              then cu (img ((ITy.common (typeOf a) (typeOf b)).convert x)) (img ((ITy.common (typeOf a) (typeOf b)).convert y))
              else cs (img ((ITy.common (typeOf a) (typeOf b)).convert x)) (img ((ITy.common (typeOf a) (typeOf b)).convert y))) = res) :
    ∀ lab, eval2 .wrapping fp (mkCompare k (elabE a) (elabE b)) lab = .ok (img (b2z res)) := by
  intro lab
  have e : mkCompare k (elabE a) (elabE b) = bin k tyInt (mkCast (elabE a) (descr (ITy.common (typeOf a) (typeOf b))))
      (mkCast (elabE b) (descr (ITy.common (typeOf a) (typeOf b)))) := by simp only [mkCompare, elab_ty, gct_descr]
  rw [e]; simp only [bin]
  rw [harm _ _ _ _ _ _ _ _ _ (show isFlonum tyInt = false from rfl)]
  apply fold_cmp_node
  exact cmpArm_ok fp _ _ _ _ _ op cu cs res rfl (cast_ok fp _ ha) (cast_ok fp _ hb) hres


theorem b2z_inRange (b : Bool) : ITy.inRange .i32 (b2z b) = true := by cases b <;> rfl

theorem fold_bin {a b : CExpr} {x y v : Int} (op : BinOp) (ha : Folds fp a x) (hb : Folds fp b y)
    (hv : (if op.isShift then binop op (typeOf a).promote x y
           else binop op (ITy.common (typeOf a) (typeOf b)) ((ITy.common (typeOf a) (typeOf b)).convert x)
                  ((ITy.common (typeOf a) (typeOf b)).convert y)) = some v) :
    Folds fp (.bin op a b) v := by
  have hw := common_wide (typeOf a) (typeOf b)
  have hx' := convert_inRange (ITy.common (typeOf a) (typeOf b)) x
  have hy' := convert_inRange (ITy.common (typeOf a) (typeOf b)) y
  cases op <;> simp only [BinOp.isShift, Bool.false_eq_true, ite_false, ite_true] at hv <;> simp only [Folds, typeOf, elabE]
  case add => exact fold_bin_arith fp .add .ND_ADD (by simp) ha hb hv
  case sub => exact fold_bin_arith fp .sub .ND_SUB (by simp) ha hb hv
  case mul => exact fold_bin_arith fp .mul .ND_MUL (by simp) ha hb hv
  case div => exact fold_bin_arith fp .div .ND_DIV (by simp) ha hb hv
  case mod => exact fold_bin_arith fp .mod .ND_MOD (by simp) ha hb hv
  case band => exact fold_bin_arith fp .band .ND_BITAND (by simp) ha hb hv
  case bor => exact fold_bin_arith fp .bor .ND_BITOR (by simp) ha hb hv
  case bxor => exact fold_bin_arith fp .bxor .ND_BITXOR (by simp) ha hb hv
  case shl => exact fold_bin_shift fp .shl .ND_SHL (by simp) ha hb hv
  case shr => exact fold_bin_shift fp .shr .ND_SHR (by simp) ha hb hv
  case eq =>
    simp only [binop] at hv; cases hv
    refine ⟨b2z_inRange _, fold_cmp_gen fp .ND_EQ fp.eq80 _ _ _ ha hb (fun ty nv fv l r c t e lab hf => eval2_EQ _ _ _ _ _ _ _ _ _ _ _ hf) ?_⟩
    have := img_inj _ _ _ hw hx' hy'
    simp only [ite_self]
    rw [Bool.eq_iff_iff]; simpa using this
  case ne =>
    simp only [binop] at hv; cases hv
    refine ⟨b2z_inRange _, fold_cmp_gen fp .ND_NE (fun a b => !(fp.eq80 a b)) _ _ _ ha hb (fun ty nv fv l r c t e lab hf => eval2_NE _ _ _ _ _ _ _ _ _ _ _ hf) ?_⟩
    have := img_inj _ _ _ hw hx' hy'
    simp only [ite_self]
    rw [Bool.eq_iff_iff]; simpa using not_congr this
  case lt =>
    simp only [binop] at hv; cases hv
    exact ⟨b2z_inRange _, fold_cmp_gen fp .ND_LT fp.lt80 _ _ _ ha hb (fun ty nv fv l r c t e lab hf => eval2_LT _ _ _ _ _ _ _ _ _ _ _ hf)
      (cmp_images _ _ _ hw hx' hy').1⟩
  case le =>
    simp only [binop] at hv; cases hv
    exact ⟨b2z_inRange _, fold_cmp_gen fp .ND_LE fp.le80 _ _ _ ha hb (fun ty nv fv l r c t e lab hf => eval2_LE _ _ _ _ _ _ _ _ _ _ _ hf)
      (cmp_images _ _ _ hw hx' hy').2⟩
  case gt =>
    simp only [binop] at hv; cases hv
    refine ⟨b2z_inRange _, ?_⟩
    have := fold_cmp_gen fp .ND_LT fp.lt80 BitVec.ult BitVec.slt (decide ((ITy.common (typeOf a) (typeOf b)).convert x > (ITy.common (typeOf a) (typeOf b)).convert y))
      hb ha (fun ty nv fv l r c t e lab hf => eval2_LT _ _ _ _ _ _ _ _ _ _ _ hf)
      (by rw [common_comm (typeOf b) (typeOf a)]; exact (cmp_images _ _ _ hw hy' hx').1)
    exact this
  case ge =>
    simp only [binop] at hv; cases hv
    refine ⟨b2z_inRange _, ?_⟩
    have := fold_cmp_gen fp .ND_LE fp.le80 BitVec.ule BitVec.sle (decide ((ITy.common (typeOf a) (typeOf b)).convert x ≥ (ITy.common (typeOf a) (typeOf b)).convert y))
      hb ha (fun ty nv fv l r c t e lab hf => eval2_LE _ _ _ _ _ _ _ _ _ _ _ hf)
      (by rw [common_comm (typeOf b) (typeOf a)]; exact (cmp_images _ _ _ hw hy' hx').2)
    exact this

theorem truth_of_folds {e : CExpr} {x : Int} (h : Folds fp e x) : truth .wrapping fp (elabE e) = .ok (x != 0) :=
  truth_ok fp x (elabE e) h.2 (inRange_wide _ x h.1) (by rw [elab_ty]; exact descr_not_flonum _)

theorem fold_land {a b : CExpr} {x : Int} (ha : Folds fp a x) (res : Bool)
    (hb : x ≠ 0 → ∃ y, Folds fp b y ∧ res = (y != 0)) (h0 : x = 0 → res = false) :
    Folds fp (.land a b) (b2z res) := by
  refine ⟨b2z_inRange _, fun lab => ?_⟩
  simp only [elabE, bin]
  rw [eval2_LOGAND _ _ _ _ _ _ _ _ _ _ _ (show isFlonum tyInt = false from rfl), truth_of_folds fp ha]
  by_cases hx : x = 0
  · subst hx
    simp only [bind, Except.bind, pure, Except.pure, h0 rfl, b2i_castS]
    exact congrArg Except.ok (wrap_int01 false)
  · obtain ⟨y, hy, hr⟩ := hb hx
    have : (x != 0) = true := by simpa using hx
    simp only [this, ite_true, bind, Except.bind, pure, Except.pure, truth_of_folds fp hy, b2i_castS, hr]
    exact congrArg Except.ok (wrap_int01 _)

theorem fold_lor {a b : CExpr} {x : Int} (ha : Folds fp a x) (res : Bool)
    (hb : x = 0 → ∃ y, Folds fp b y ∧ res = (y != 0)) (h0 : x ≠ 0 → res = true) :
    Folds fp (.lor a b) (b2z res) := by
  refine ⟨b2z_inRange _, fun lab => ?_⟩
  simp only [elabE, bin]
  rw [eval2_LOGOR _ _ _ _ _ _ _ _ _ _ _ (show isFlonum tyInt = false from rfl), truth_of_folds fp ha]
  by_cases hx : x = 0
  · obtain ⟨y, hy, hr⟩ := hb hx
    subst hx
    simp only [show ((0:Int) != 0) = false from rfl, Bool.false_eq_true, ite_false, bind, Except.bind, pure, Except.pure,
      truth_of_folds fp hy, b2i_castS, hr]
    exact congrArg Except.ok (wrap_int01 _)
  · have : (x != 0) = true := by simpa using hx
    simp only [this, ite_true, bind, Except.bind, pure, Except.pure, h0 hx, b2i_castS]
    exact congrArg Except.ok (wrap_int01 true)

theorem fold_cond {c a b : CExpr} {x : Int} (hc : Folds fp c x) (v : Int)
    (hsel : ∃ s y, (if x ≠ 0 then s = a else s = b) ∧ Folds fp s y ∧ v = (ITy.common (typeOf a) (typeOf b)).convert y) :
    Folds fp (.cond c a b) v := by
  obtain ⟨s, y, hs, hy, hv⟩ := hsel
  subst hv
  have hw := common_wide (typeOf a) (typeOf b)
  refine ⟨convert_inRange _ _, fun lab => ?_⟩
  simp only [elabE, elab_ty, gct_descr]
  rw [eval2_COND _ _ _ _ _ _ _ _ _ _ _ (descr_not_flonum _), truth_of_folds fp hc]
  have hwr := wrap_convert _ hw.ne_bool ((ITy.common (typeOf a) (typeOf b)).convert y)
  rw [convert_id _ _ (convert_inRange _ _)] at hwr
  by_cases hx : x = 0
  · have : (x != 0) = false := by simpa using hx
    simp only [hx, ne_eq, not_true_eq_false, ite_false] at hs
    subst hs
    simp only [this, Bool.false_eq_true, ite_false, bind, Except.bind, pure, Except.pure, cast_ok fp _ hy, hwr]
  · have : (x != 0) = true := by simpa using hx
    simp only [hx, ne_eq, not_false_eq_true, ite_true] at hs
    subst hs
    simp only [this, ite_true, bind, Except.bind, pure, Except.pure, cast_ok fp _ hy, hwr]

theorem fold_cast {e : CExpr} {x : Int} (t : ITy) (h : Folds fp e x) : Folds fp (.cast t e) (t.convert x) :=
  ⟨convert_inRange t x, cast_ok fp t h⟩

/-- **every integer constant expression that has a C11 value folds to the image of exactly that value** -/
theorem fold_main : ∀ (e : CExpr) (v : Int), Spec.Const.eval e = some v → Folds fp e v := by
  intro e
  induction e with
  | lit t v0 => intro v h; exact fold_lit fp t v0 v h
  | un op e ih =>
    intro v h
    simp only [Spec.Const.eval] at h
    split at h
    · cases h
    · rename_i x hx
      have hf := ih x hx
      cases op <;> simp only [unop] at h
      · exact fold_neg fp hf h
      · cases h; exact fold_bitnot fp hf
      · cases h; exact fold_lognot fp hf
      · cases h; exact fold_plus fp hf
  | bin op a b iha ihb =>
    intro v h
    simp only [Spec.Const.eval] at h
    split at h
    · rename_i x y hx hy
      exact fold_bin fp op (iha x hx) (ihb y hy) h
    · cases h
  | land a b iha ihb =>
    intro v h
    simp only [Spec.Const.eval] at h
    split at h
    · cases h
    · rename_i x hx
      split at h
      · rename_i h0; cases h
        exact fold_land fp (iha x hx) false (fun hne => absurd h0 hne) (fun _ => rfl)
      · rename_i hne
        split at h
        · cases h
        · rename_i y hy; cases h
          exact fold_land fp (iha x hx) (y != 0) (fun _ => ⟨y, ihb y hy, rfl⟩) (fun h0 => absurd h0 hne)
  | lor a b iha ihb =>
    intro v h
    simp only [Spec.Const.eval] at h
    split at h
    · cases h
    · rename_i x hx
      split at h
      · rename_i hne; cases h
        exact fold_lor fp (iha x hx) true (fun h0 => absurd h0 hne) (fun _ => rfl)
      · rename_i h0
        have h0 : x = 0 := by simpa using h0
        split at h
        · cases h
        · rename_i y hy; cases h
          exact fold_lor fp (iha x hx) (y != 0) (fun _ => ⟨y, ihb y hy, rfl⟩) (fun hne => absurd h0 hne)
  | cond c a b ihc iha ihb =>
    intro v h
    simp only [Spec.Const.eval] at h
    split at h
    · cases h
    · rename_i x hx
      split at h
      · rename_i hne
        cases ha : Spec.Const.eval a with
        | none => simp [ha] at h
        | some y =>
          simp only [ha, Option.map] at h; cases h
          exact fold_cond fp (ihc x hx) _ ⟨a, y, by simp [hne], iha y ha, rfl⟩
      · rename_i h0
        cases hb : Spec.Const.eval b with
        | none => simp [hb] at h
        | some y =>
          simp only [hb, Option.map] at h; cases h
          exact fold_cond fp (ihc x hx) _ ⟨b, y, by simp [h0], ihb y hb, rfl⟩
  | cast t e ih =>
    intro v h
    simp only [Spec.Const.eval] at h
    cases he : Spec.Const.eval e with
    | none => simp [he] at h
    | some x =>
      simp only [he, Option.map] at h; cases h
      exact fold_cast fp t (ih x he)


end induction2

/-! ## No operand ever reaches a host trap -/

section notrap
/-- failures that are not a crash of the compiler: a diagnostic, or (for a C11-undefined shift count, which
    x86 masks) the host's undefined shift -/
def Benign : Fail → Prop
  | .diag _ => True
  | .hostUB w => w = "shift count out of range"
  | _ => False

/-- the computation does not trap (SIGFPE), dereference NULL or leave the model -/
def NoTrap {α : Type} (r : Except Fail α) : Prop := ∀ f, r = .error f → Benign f

theorem noTrap_ok {α : Type} (a : α) : NoTrap (.ok a : Except Fail α) := fun _ h => by cases h
theorem noTrap_pure {α : Type} (a : α) : NoTrap (pure a : Except Fail α) := fun _ h => by cases h
theorem noTrap_diag {α : Type} (m : String) : NoTrap (.error (.diag m) : Except Fail α) := fun f h => by cases h; trivial
theorem noTrap_bind {α β : Type} {m : Except Fail α} {f : α → Except Fail β} (hm : NoTrap m) (hf : ∀ a, NoTrap (f a)) :
    NoTrap (m >>= f) := by
  cases m with
  | error e => intro g h; exact hm g (by simpa [Bind.bind, Except.bind] using h)
  | ok a => exact hf a
theorem noTrap_ite {α : Type} {c : Prop} [Decidable c] {a b : Except Fail α} (ha : NoTrap a) (hb : NoTrap b) :
    NoTrap (if c then a else b) := by split <;> assumption

theorem noTrap_divmod (isDiv : Bool) (ty : CTy) (a b : BitVec 64) : NoTrap (divmod .wrapping isDiv ty a b) := by
  unfold divmod
  by_cases hb : b = 0#64
  · subst hb; exact noTrap_diag _
  · have hb' : ¬ (b = 0) := hb
    rw [beq_false_of_ne hb]
    simp only [Bool.false_eq_true, ite_false]
    split
    · cases isDiv <;> simp only [Bool.false_eq_true, ite_false, ite_true, divU, modU, hb', ↓reduceIte] <;> exact noTrap_ok _
    · by_cases h1 : b = 18446744073709551615#64
      · subst h1; exact noTrap_pure _
      · have h1' : ¬ (b = -1) := h1
        rw [beq_false_of_ne h1]
        cases isDiv <;> simp only [Bool.false_eq_true, ite_false, ite_true, divS, modS, hb', h1', and_false, ↓reduceIte] <;>
          exact noTrap_ok _

theorem noTrap_shlS (a : BitVec 64) (c : Int) : NoTrap (shlS .wrapping a c) := by
  unfold shlS; split
  · intro f h; cases h; rfl
  · exact noTrap_ok _
theorem noTrap_shrS (a : BitVec 64) (c : Int) : NoTrap (shrS .wrapping a c) := by
  unfold shrS; split
  · intro f h; cases h; rfl
  · exact noTrap_ok _
theorem noTrap_shrU (a : BitVec 64) (c : Int) : NoTrap (shrU .wrapping a c) := by
  unfold shrU; split
  · intro f h; cases h; rfl
  · exact noTrap_ok _

variable (fp : FpEnv)

theorem elab_ne_null (e : CExpr) : elabE e ≠ .null := by
  induction e with
  | lit t v => simp [elabE]
  | un op e ih =>
    cases op <;> simp only [elabE, mkPromoted, un, mkCast, ne_eq, reduceCtorEq, not_false_eq_true]
    split
    · simp
    · exact ih
  | bin op a b _ _ => cases op <;> simp [elabE, mkPromoted, mkArith, mkCompare, bin]
  | land a b _ _ => simp [elabE, bin]
  | lor a b _ _ => simp [elabE, bin]
  | cond c a b _ _ _ => simp [elabE]
  | cast t e _ => simp [elabE, mkCast, un]

theorem tyOf_elab (e : CExpr) : CNode.tyOf (elabE e) = .ok (descr (typeOf e)) := by
  have h := elab_ty e
  cases he : elabE e with
  | null => exact absurd he (elab_ne_null e)
  | mk k ty v a b c d e' => rw [he] at h; simp only [nodeTy_mk] at h; simp only [CNode.tyOf, h]

/-- no trap in an integer-typed node: what must be shown about the part before the wrapper -/
abbrev NT (n : CNode) : Prop := ∀ label, NoTrap (eval2 .wrapping fp n label)

theorem noTrap_wrap {raw : Except Fail (BitVec 64)} (ty : CTy) (h : NoTrap raw) : NoTrap (raw >>= fun v => pure (wrapTy ty v)) :=
  noTrap_bind h (fun _ => noTrap_pure _)

theorem nt_cast (n : CNode) (ty : ITy) (tn : ITy) (hty : CNode.tyOf n = .ok (descr tn)) (hn : NT fp n) : NT fp (mkCast n (descr ty)) := by
  intro label
  simp only [mkCast, un]
  rw [eval2_CAST _ _ _ _ _ _ _ _ _ _ _ (descr_not_flonum ty)]
  apply noTrap_wrap
  apply noTrap_ite
  · simp only [hty, bind, Except.bind, descr_not_flonum, Bool.false_eq_true, ite_false]
    exact noTrap_bind (hn label) (fun _ => noTrap_pure _)
  · simp only [hty, bind, Except.bind, descr_not_flonum, Bool.false_and, Bool.false_eq_true, ite_false]
    exact hn label

theorem nt_truth (n : CNode) (tn : ITy) (hty : CNode.tyOf n = .ok (descr tn)) (hn : NT fp n) : NoTrap (truth .wrapping fp n) := by
  unfold truth
  simp only [hty, bind, Except.bind, descr_not_flonum, Bool.false_eq_true, ite_false]
  exact noTrap_bind (hn false) (fun _ => noTrap_pure _)

theorem tyOf_mkCast (n : CNode) (ty : CTy) : CNode.tyOf (mkCast n ty) = .ok ty := rfl

theorem nt_cmpArm (op : BitVec 80 → BitVec 80 → Bool) (cu cs : BitVec 64 → BitVec 64 → Bool) (l r : CNode) (t : ITy)
    (hty : CNode.tyOf l = .ok (descr t)) (hl : NT fp l) (hr : NT fp r) : NoTrap (cmpArm .wrapping fp op cu cs l r) := by
  unfold cmpArm
  simp only [hty, bind, Except.bind, descr_not_flonum, Bool.false_eq_true, ite_false]
  apply noTrap_ite <;> exact noTrap_bind (hl false) (fun _ => noTrap_bind (hr false) (fun _ => noTrap_pure _))

/-- **the folder never traps**: on every integer expression tree, whatever its operands (defined in C11 or not), evaluation
    ends in a value, a diagnostic, or the host's undefined shift count — never SIGFPE, never a NULL dereference -/
theorem no_trap (e : CExpr) : NT fp (elabE e) := by
  induction e with
  | lit t v =>
    intro label; simp only [elabE]; rw [eval2_NUM _ _ _ _ _ _ _ _ _ _ _ (descr_not_flonum t)]; exact noTrap_pure _
  | un op e ih =>
    have hc := nt_cast fp (elabE e) (typeOf e).promote _ (tyOf_elab e) ih
    intro label
    cases op <;> simp only [elabE, mkPromoted, un, elab_ty, gct_int]
    · rw [eval2_NEG _ _ _ _ _ _ _ _ _ _ _ (descr_not_flonum _)]
      exact noTrap_wrap _ (noTrap_bind (hc false) (fun _ => noTrap_ok _))
    · rw [eval2_BITNOT _ _ _ _ _ _ _ _ _ _ _ (descr_not_flonum _)]
      exact noTrap_wrap _ (noTrap_bind (hc false) (fun _ => noTrap_pure _))
    · rw [eval2_NOT _ _ _ _ _ _ _ _ _ _ _ (show isFlonum tyInt = false from rfl)]
      exact noTrap_wrap _ (noTrap_bind (nt_truth fp _ _ (tyOf_elab e) ih) (fun _ => noTrap_pure _))
    · split
      · exact nt_cast fp (elabE e) .i32 _ (tyOf_elab e) ih label
      · exact ih label
  | bin op a b iha ihb =>
    have hca := fun t => nt_cast fp (elabE a) t _ (tyOf_elab a) iha
    have hcb := fun t => nt_cast fp (elabE b) t _ (tyOf_elab b) ihb
    intro label
    cases op <;> simp only [elabE, mkPromoted, mkArith, mkCompare, bin, elab_ty, gct_descr, gct_int]
    · rw [eval2_ADD _ _ _ _ _ _ _ _ _ _ _ (descr_not_flonum _)]
      exact noTrap_wrap _ (noTrap_bind (hca _ _) (fun _ => noTrap_bind (hcb _ _) (fun _ => noTrap_ok _)))
    · rw [eval2_SUB _ _ _ _ _ _ _ _ _ _ _ (descr_not_flonum _)]
      exact noTrap_wrap _ (noTrap_bind (hca _ _) (fun _ => noTrap_bind (hcb _ _) (fun _ => noTrap_ok _)))
    · rw [eval2_MUL _ _ _ _ _ _ _ _ _ _ _ (descr_not_flonum _)]
      exact noTrap_wrap _ (noTrap_bind (hca _ _) (fun _ => noTrap_bind (hcb _ _) (fun _ => noTrap_ok _)))
    · rw [eval2_DIV _ _ _ _ _ _ _ _ _ _ _ (descr_not_flonum _)]
      exact noTrap_wrap _ (noTrap_bind (hca _ _) (fun _ => noTrap_bind (hcb _ _) (fun _ => noTrap_divmod _ _ _ _)))
    · rw [eval2_MOD _ _ _ _ _ _ _ _ _ _ _ (descr_not_flonum _)]
      exact noTrap_wrap _ (noTrap_bind (hca _ _) (fun _ => noTrap_bind (hcb _ _) (fun _ => noTrap_divmod _ _ _ _)))
    · rw [eval2_BITAND _ _ _ _ _ _ _ _ _ _ _ (descr_not_flonum _)]
      exact noTrap_wrap _ (noTrap_bind (hca _ _) (fun _ => noTrap_bind (hcb _ _) (fun _ => noTrap_pure _)))
    · rw [eval2_BITOR _ _ _ _ _ _ _ _ _ _ _ (descr_not_flonum _)]
      exact noTrap_wrap _ (noTrap_bind (hca _ _) (fun _ => noTrap_bind (hcb _ _) (fun _ => noTrap_pure _)))
    · rw [eval2_BITXOR _ _ _ _ _ _ _ _ _ _ _ (descr_not_flonum _)]
      exact noTrap_wrap _ (noTrap_bind (hca _ _) (fun _ => noTrap_bind (hcb _ _) (fun _ => noTrap_pure _)))
    · rw [eval2_SHL _ _ _ _ _ _ _ _ _ _ _ (descr_not_flonum _)]
      exact noTrap_wrap _ (noTrap_bind (hca _ _) (fun _ => noTrap_bind (ihb _) (fun _ => noTrap_shlS _ _)))
    · rw [eval2_SHR _ _ _ _ _ _ _ _ _ _ _ (descr_not_flonum _)]
      exact noTrap_wrap _ (noTrap_bind (hca _ _) (fun _ => noTrap_bind (ihb _) (fun _ => noTrap_ite (noTrap_shrU _ _) (noTrap_shrS _ _))))
    · rw [eval2_EQ _ _ _ _ _ _ _ _ _ _ _ (show isFlonum tyInt = false from rfl)]
      exact noTrap_wrap _ (nt_cmpArm fp _ _ _ _ _ _ (tyOf_mkCast _ _) (hca _) (hcb _))
    · rw [eval2_NE _ _ _ _ _ _ _ _ _ _ _ (show isFlonum tyInt = false from rfl)]
      exact noTrap_wrap _ (nt_cmpArm fp _ _ _ _ _ _ (tyOf_mkCast _ _) (hca _) (hcb _))
    · rw [eval2_LT _ _ _ _ _ _ _ _ _ _ _ (show isFlonum tyInt = false from rfl)]
      exact noTrap_wrap _ (nt_cmpArm fp _ _ _ _ _ _ (tyOf_mkCast _ _) (hca _) (hcb _))
    · rw [eval2_LE _ _ _ _ _ _ _ _ _ _ _ (show isFlonum tyInt = false from rfl)]
      exact noTrap_wrap _ (nt_cmpArm fp _ _ _ _ _ _ (tyOf_mkCast _ _) (hca _) (hcb _))
    · rw [eval2_LT _ _ _ _ _ _ _ _ _ _ _ (show isFlonum tyInt = false from rfl)]
      exact noTrap_wrap _ (nt_cmpArm fp _ _ _ _ _ _ (tyOf_mkCast _ _) (hcb _) (hca _))
    · rw [eval2_LE _ _ _ _ _ _ _ _ _ _ _ (show isFlonum tyInt = false from rfl)]
      exact noTrap_wrap _ (nt_cmpArm fp _ _ _ _ _ _ (tyOf_mkCast _ _) (hcb _) (hca _))
  | land a b iha ihb =>
    intro label; simp only [elabE, bin]
    rw [eval2_LOGAND _ _ _ _ _ _ _ _ _ _ _ (show isFlonum tyInt = false from rfl)]
    exact noTrap_wrap _ (noTrap_bind (nt_truth fp _ _ (tyOf_elab a) iha) (fun _ =>
      noTrap_bind (noTrap_ite (nt_truth fp _ _ (tyOf_elab b) ihb) (noTrap_pure _)) (fun _ => noTrap_pure _)))
  | lor a b iha ihb =>
    intro label; simp only [elabE, bin]
    rw [eval2_LOGOR _ _ _ _ _ _ _ _ _ _ _ (show isFlonum tyInt = false from rfl)]
    exact noTrap_wrap _ (noTrap_bind (nt_truth fp _ _ (tyOf_elab a) iha) (fun _ =>
      noTrap_bind (noTrap_ite (noTrap_pure _) (nt_truth fp _ _ (tyOf_elab b) ihb)) (fun _ => noTrap_pure _)))
  | cond c a b ihc iha ihb =>
    intro label; simp only [elabE, elab_ty, gct_descr]
    rw [eval2_COND _ _ _ _ _ _ _ _ _ _ _ (descr_not_flonum _)]
    exact noTrap_wrap _ (noTrap_bind (nt_truth fp _ _ (tyOf_elab c) ihc) (fun _ =>
      noTrap_ite (nt_cast fp _ _ _ (tyOf_elab a) iha _) (nt_cast fp _ _ _ (tyOf_elab b) ihb _)))
  | cast t e ih => exact nt_cast fp _ t _ (tyOf_elab e) ih

end notrap

section constness
variable (fp : FpEnv)

/-! ## is_const_expr -/

theorem isConst_null : isConstExpr .wrapping fp .null = .error (.crash "NULL node dereferenced") := by rw [isConstExpr]

section
variable (ty : CTy) (nv : BitVec 64) (fv : BitVec 80) (l r c t e : CNode)

/-- binary operator kinds of `is_const_expr` -/
def constBin : List NodeKind := [.ND_ADD, .ND_SUB, .ND_MUL, .ND_DIV, .ND_MOD, .ND_BITAND, .ND_BITOR, .ND_BITXOR, .ND_SHL, .ND_SHR,
  .ND_EQ, .ND_NE, .ND_LT, .ND_LE]
def constUn : List NodeKind := [.ND_NEG, .ND_NOT, .ND_BITNOT, .ND_CAST]

theorem isConst_bin (k : NodeKind) (hk : k ∈ constBin) :
    isConstExpr .wrapping fp (.mk k ty nv fv l r c t e)
      = (isConstExpr .wrapping fp l >>= fun x => if x then isConstExpr .wrapping fp r else pure false) := by
  simp only [constBin, List.mem_cons, List.mem_nil_iff, or_false] at hk
  rcases hk with h | h | h | h | h | h | h | h | h | h | h | h | h | h <;> subst h <;> rw [isConstExpr]

theorem isConst_un (k : NodeKind) (hk : k ∈ constUn) :
    isConstExpr .wrapping fp (.mk k ty nv fv l r c t e) = isConstExpr .wrapping fp l := by
  simp only [constUn, List.mem_cons, List.mem_nil_iff, or_false] at hk
  rcases hk with h | h | h | h <;> subst h <;> rw [isConstExpr]

theorem isConst_num : isConstExpr .wrapping fp (.mk .ND_NUM ty nv fv l r c t e) = .ok true := by rw [isConstExpr]; rfl

theorem isConst_comma : isConstExpr .wrapping fp (.mk .ND_COMMA ty nv fv l r c t e) = isConstExpr .wrapping fp r := by rw [isConstExpr]

theorem isConst_cond :
    isConstExpr .wrapping fp (.mk .ND_COND ty nv fv l r c t e)
      = (isConstExpr .wrapping fp c >>= fun x => if !x then pure false else
          (truth .wrapping fp c >>= fun b => if b then isConstExpr .wrapping fp t else isConstExpr .wrapping fp e)) := by
  rw [isConstExpr]; rfl

/-- `&&`: the right operand is looked at only when the left one is true (it is not evaluated otherwise, C11 6.6p3) -/
theorem isConst_logand :
    isConstExpr .wrapping fp (.mk .ND_LOGAND ty nv fv l r c t e)
      = (isConstExpr .wrapping fp l >>= fun x => if !x then pure false else
          (truth .wrapping fp l >>= fun b => if !b then pure true else isConstExpr .wrapping fp r)) := by
  rw [isConstExpr]; rfl

theorem isConst_logor :
    isConstExpr .wrapping fp (.mk .ND_LOGOR ty nv fv l r c t e)
      = (isConstExpr .wrapping fp l >>= fun x => if !x then pure false else
          (truth .wrapping fp l >>= fun b => if b then pure true else isConstExpr .wrapping fp r)) := by
  rw [isConstExpr]; rfl
end

theorem isConst_cast (n : CNode) (ty : CTy) : isConstExpr .wrapping fp (mkCast n ty) = isConstExpr .wrapping fp n :=
  isConst_un fp _ _ _ _ _ _ _ _ .ND_CAST (by simp [constUn])

/-- **every integer constant expression that has a value is accepted by `is_const_expr`** -/
theorem isConst_elab : ∀ (e : CExpr) (v : Int), Spec.Const.eval e = some v → isConstExpr .wrapping fp (elabE e) = .ok true := by
  intro e
  induction e with
  | lit t v0 => intro v _; simp only [elabE]; exact isConst_num fp _ _ _ _ _ _ _ _
  | un op e ih =>
    intro v h
    simp only [Spec.Const.eval] at h
    split at h
    · cases h
    · rename_i x hx
      have ih := ih x hx
      cases op <;> simp only [elabE, mkPromoted, un]
      · rw [isConst_un fp _ _ _ _ _ _ _ _ .ND_NEG (by simp [constUn]), isConst_cast, ih]
      · rw [isConst_un fp _ _ _ _ _ _ _ _ .ND_BITNOT (by simp [constUn]), isConst_cast, ih]
      · rw [isConst_un fp _ _ _ _ _ _ _ _ .ND_NOT (by simp [constUn]), ih]
      · split
        · rw [isConst_cast, ih]
        · exact ih
  | bin op a b iha ihb =>
    intro v h
    simp only [Spec.Const.eval] at h
    split at h
    · rename_i x y hx hy
      have iha := iha x hx; have ihb := ihb y hy
      cases op <;> simp only [elabE, mkPromoted, mkArith, mkCompare, bin] <;>
        rw [isConst_bin fp _ _ _ _ _ _ _ _ _ (by simp [constBin])] <;>
        simp only [isConst_cast, iha, ihb, bind, Except.bind, ite_true]
    · cases h
  | land a b iha ihb =>
    intro v h
    simp only [Spec.Const.eval] at h
    split at h
    · cases h
    · rename_i x hx
      simp only [elabE, bin]; rw [isConst_logand]
      simp only [iha x hx, bind, Except.bind, Bool.not_true, Bool.false_eq_true, ite_false,
        truth_of_folds fp (fold_main fp a x hx)]
      split at h
      · rename_i h0; subst h0; rfl
      · rename_i hne
        split at h
        · cases h
        · rename_i y hy
          have : (x != 0) = true := by simpa using hne
          simp only [this, Bool.not_true, Bool.false_eq_true, ite_false, ihb y hy]
  | lor a b iha ihb =>
    intro v h
    simp only [Spec.Const.eval] at h
    split at h
    · cases h
    · rename_i x hx
      simp only [elabE, bin]; rw [isConst_logor]
      simp only [iha x hx, bind, Except.bind, Bool.not_true, Bool.false_eq_true, ite_false,
        truth_of_folds fp (fold_main fp a x hx)]
      split at h
      · rename_i hne
        have : (x != 0) = true := by simpa using hne
        simp only [this, ite_true]; rfl
      · rename_i h0
        have h0 : x = 0 := by simpa using h0
        subst h0
        split at h
        · cases h
        · rename_i y hy
          simp only [show ((0 : Int) != 0) = false from rfl, Bool.false_eq_true, ite_false, ihb y hy]
  | cond c a b ihc iha ihb =>
    intro v h
    simp only [Spec.Const.eval] at h
    split at h
    · cases h
    · rename_i x hx
      simp only [elabE]; rw [isConst_cond]
      simp only [ihc x hx, bind, Except.bind, Bool.not_true, Bool.false_eq_true, ite_false,
        truth_of_folds fp (fold_main fp c x hx), isConst_cast]
      split at h
      · rename_i hne
        have : (x != 0) = true := by simpa using hne
        cases ha : Spec.Const.eval a with
        | none => simp [ha] at h
        | some y => simp only [this, ite_true, iha y ha]
      · rename_i h0
        have h0 : x = 0 := by simpa using h0
        subst h0
        cases hb : Spec.Const.eval b with
        | none => simp [hb] at h
        | some y => simp only [show ((0 : Int) != 0) = false from rfl, Bool.false_eq_true, ite_false, ihb y hb]
  | cast t e ih =>
    intro v h
    simp only [Spec.Const.eval] at h
    cases he : Spec.Const.eval e with
    | none => simp [he] at h
    | some x => simp only [elabE]; rw [isConst_cast]; exact ih x he
end constness

section ncc
/-- the diagnostic of the default arm of `eval3` -/
def ncc : String := "not a compile-time constant"

def NotNcc {α : Type} (r : Except Fail α) : Prop := r ≠ .error (.diag ncc)

theorem notNcc_ok {α : Type} (a : α) : NotNcc (.ok a : Except Fail α) := fun h => by cases h
theorem notNcc_pure {α : Type} (a : α) : NotNcc (pure a : Except Fail α) := fun h => by cases h
theorem notNcc_bind {α β : Type} {m : Except Fail α} {f : α → Except Fail β} (hm : NotNcc m) (hf : ∀ a, NotNcc (f a)) :
    NotNcc (m >>= f) := by
  cases m with
  | error e => intro h; exact hm (by simpa [Bind.bind, Except.bind] using h)
  | ok a => exact hf a
theorem notNcc_ite {α : Type} {c : Prop} [Decidable c] {a b : Except Fail α} (ha : NotNcc a) (hb : NotNcc b) :
    NotNcc (if c then a else b) := by split <;> assumption
theorem notNcc_wrap {raw : Except Fail (BitVec 64)} (ty : CTy) (h : NotNcc raw) : NotNcc (raw >>= fun v => pure (wrapTy ty v)) :=
  notNcc_bind h (fun _ => notNcc_pure _)
theorem notNcc_of_noTrap_host {r : Except Fail (BitVec 64)} (h : ∀ f, r = .error f → f ≠ .diag ncc) : NotNcc r :=
  fun he => h _ he rfl

theorem divmod_cases (isDiv : Bool) (ty : CTy) (a b : BitVec 64) :
    (∃ v, divmod .wrapping isDiv ty a b = .ok v) ∨
      divmod .wrapping isDiv ty a b = .error (.diag "division by zero in a constant expression") := by
  unfold divmod
  by_cases hb : b = 0#64
  · subst hb; right; rfl
  · have hb' : ¬ (b = 0) := hb
    left
    rw [beq_false_of_ne hb]
    simp only [Bool.false_eq_true, ite_false]
    split
    · cases isDiv <;> simp only [Bool.false_eq_true, ite_false, ite_true, divU, modU, hb', ↓reduceIte] <;> exact ⟨_, rfl⟩
    · by_cases h1 : b = 18446744073709551615#64
      · subst h1; exact ⟨_, rfl⟩
      · have h1' : ¬ (b = -1) := h1
        rw [beq_false_of_ne h1]
        cases isDiv <;> simp only [Bool.false_eq_true, ite_false, ite_true, divS, modS, hb', h1', and_false, ↓reduceIte] <;>
          exact ⟨_, rfl⟩

theorem notNcc_divmod (isDiv : Bool) (ty : CTy) (a b : BitVec 64) : NotNcc (divmod .wrapping isDiv ty a b) := by
  rcases divmod_cases isDiv ty a b with ⟨v, h⟩ | h <;> rw [h]
  · exact notNcc_ok _
  · unfold NotNcc ncc; decide

theorem notNcc_shlS (a : BitVec 64) (c : Int) : NotNcc (shlS .wrapping a c) := by
  unfold shlS; split
  · intro h; cases h
  · exact notNcc_ok _
theorem notNcc_shrS (a : BitVec 64) (c : Int) : NotNcc (shrS .wrapping a c) := by
  unfold shrS; split
  · intro h; cases h
  · exact notNcc_ok _
theorem notNcc_shrU (a : BitVec 64) (c : Int) : NotNcc (shrU .wrapping a c) := by
  unfold shrU; split
  · intro h; cases h
  · exact notNcc_ok _

/-- what the folder needs of the host so that `eval_double(cond) ? …` (eval_double2) and `eval_truth(cond)` (is_const_expr)
    select the same operand when `cond` has integer type: the `long double` made from an `int64_t` / `uint64_t` compares
    equal to zero exactly when the integer is zero -/
structure FpZeroExact (fp : FpEnv) : Prop where
  i64zero : ∀ v, fp.eq80 (fp.i64to80 v) (fp.i32to80 (0#32)) = (v == 0#64)
  u64zero : ∀ v, fp.eq80 (fp.u64to80 v) (fp.i32to80 (0#32)) = (v == 0#64)

/-- every node has arithmetic type, and a node of floating type is built by an operator that yields a floating result
    (`+ - * /`, unary `-`, `?:`, `,`, a cast, a constant): what `add_type` guarantees for an arithmetic expression -/
def ArithTyped : CNode → Bool
  | .null => true
  | .mk k ty _ _ l r c t e =>
    (isInteger ty || (isFlonum ty && fkinds.contains k)) && ArithTyped l && ArithTyped r && ArithTyped c && ArithTyped t && ArithTyped e

theorem notNcc_tyOf (n : CNode) : NotNcc (CNode.tyOf n) := by
  cases n <;> intro h <;> cases h

theorem notNcc_cvtI64 (fp : FpEnv) (x : BitVec 80) : NotNcc (cvtI64 .wrapping fp x) := notNcc_ok _
theorem notNcc_cvtU64 (fp : FpEnv) (x : BitVec 80) : NotNcc (cvtU64 .wrapping fp x) := notNcc_ok _

variable (fp : FpEnv)

theorem notNcc_fpTruth (n : CNode) (hd : NotNcc (evalDouble .wrapping fp n)) : NotNcc (fpTruth .wrapping fp n) :=
  notNcc_bind hd (fun _ => notNcc_pure _)

theorem notNcc_truth (n : CNode) (hn : ∀ label, NotNcc (eval2 .wrapping fp n label)) (hd : NotNcc (evalDouble .wrapping fp n)) :
    NotNcc (truth .wrapping fp n) := by
  unfold truth
  exact notNcc_bind (notNcc_tyOf n) (fun _ => notNcc_ite (notNcc_fpTruth fp n hd) (notNcc_bind (hn false) (fun _ => notNcc_pure _)))

theorem notNcc_cmpArm (op : BitVec 80 → BitVec 80 → Bool) (cu cs : BitVec 64 → BitVec 64 → Bool) (l r : CNode)
    (hl : ∀ label, NotNcc (eval2 .wrapping fp l label)) (hr : ∀ label, NotNcc (eval2 .wrapping fp r label))
    (hld : NotNcc (evalDouble .wrapping fp l)) (hrd : NotNcc (evalDouble .wrapping fp r)) :
    NotNcc (cmpArm .wrapping fp op cu cs l r) := by
  unfold cmpArm
  refine notNcc_bind (notNcc_tyOf l) (fun _ => notNcc_ite (notNcc_bind hld (fun _ => notNcc_bind hrd (fun _ => notNcc_pure _)))
    (notNcc_ite ?_ ?_)) <;>
    exact notNcc_bind (hl false) (fun _ => notNcc_bind (hr false) (fun _ => notNcc_pure _))

/-- `eval_truth(c)` and `eval_double(c) != 0` agree on a node of arithmetic type (and on NULL) -/
theorem truth_eq_fpTruth (hfp : FpZeroExact fp) (c : CNode) (hc : ArithTyped c = true) :
    truth .wrapping fp c = fpTruth .wrapping fp c := by
  cases c with
  | null => rw [truth, fpTruth, evalDouble_null]; rfl
  | mk k ty nv fv l r c2 t e =>
    simp only [ArithTyped, Bool.and_eq_true, Bool.or_eq_true] at hc
    unfold truth
    simp only [CNode.tyOf, bind, Except.bind]
    rcases hc.1.1.1.1.1 with hi | hf
    · have hf := integer_not_flonum ty hi
      simp only [hf, Bool.false_eq_true, ite_false]
      unfold fpTruth
      rw [evalDouble_integer _ _ _ _ _ _ _ _ _ _ _ hi]
      cases eval2 .wrapping fp (.mk k ty nv fv l r c2 t e) false with
      | error x => rfl
      | ok v =>
        simp only [bind, Except.bind, pure, Except.pure]
        cases ty.isUnsigned
        · simp only [Bool.false_eq_true, ite_false, hfp.i64zero]; rfl
        · simp only [ite_true, hfp.u64zero]; rfl
    · simp only [hf.1, ite_true]

end ncc

section ncc2
variable (fp : FpEnv) (hfp : FpZeroExact fp)
include hfp

omit hfp in
/-- children accepted by `is_const_expr`, as needed by one arm -/
theorem ok_true_of_bind {m : Except Fail Bool} {f : Except Fail Bool}
    (h : (m >>= fun x => if x then f else pure false) = .ok true) : m = .ok true ∧ f = .ok true := by
  cases m with
  | error e => cases h
  | ok b => cases b <;> simp_all [bind, Except.bind, pure, Except.pure]

omit hfp in
theorem notNcc_round {raw : Except Fail (BitVec 80)} (ty : CTy) (h : NotNcc raw) : NotNcc (raw >>= fun v => pure (roundTy fp ty v)) :=
  notNcc_bind h (fun _ => notNcc_pure _)

/-- the result of folding a node: neither `eval2` nor `eval_double` answers "not a compile-time constant" -/
def Clean (n : CNode) : Prop := (∀ label, NotNcc (eval2 .wrapping fp n label)) ∧ NotNcc (evalDouble .wrapping fp n)

/-- **a tree of arithmetic type accepted by `is_const_expr` never makes the folder answer "not a compile-time constant"**
    (neither through `eval2` nor through `eval_double`) -/
theorem const_clean : ∀ (n : CNode), ArithTyped n = true → isConstExpr .wrapping fp n = .ok true → Clean fp n := by
  intro n
  induction n with
  | null => intro _ h; rw [isConst_null] at h; cases h
  | mk k ty nv fv l r c t e ihl ihr ihc iht ihe =>
    intro hty h
    simp only [ArithTyped, Bool.and_eq_true, Bool.or_eq_true] at hty
    obtain ⟨⟨⟨⟨⟨hroot, htl⟩, htr⟩, htc⟩, htt⟩, hte⟩ := hty
    have ihl := ihl htl; have ihr := ihr htr; have ihc := ihc htc; have iht := iht htt; have ihe := ihe hte
    have bin2 : ∀ (hk : k ∈ constBin), Clean fp l ∧ Clean fp r := by
      intro hk
      rw [isConst_bin fp _ _ _ _ _ _ _ _ k hk] at h
      have := ok_true_of_bind h
      exact ⟨ihl this.1, ihr this.2⟩
    have un1 : ∀ (hk : k ∈ constUn), Clean fp l := by
      intro hk
      rw [isConst_un fp _ _ _ _ _ _ _ _ k hk] at h
      exact ihl h
    -- the operand `?:` selects is accepted, whichever of `eval_truth` / `eval_double != 0` selects it
    have condSel : k = .ND_COND → Clean fp c ∧ ∀ b, truth .wrapping fp c = .ok b → Clean fp (if b then t else e) := by
      intro hk; subst hk
      rw [isConst_cond] at h
      cases hc : isConstExpr .wrapping fp c with
      | error err => rw [hc] at h; cases h
      | ok bc =>
        rw [hc] at h
        cases bc with
        | false => simp [bind, Except.bind, pure, Except.pure] at h
        | true =>
          simp only [bind, Except.bind, Bool.not_true, Bool.false_eq_true, ite_false] at h
          refine ⟨ihc hc, fun b hb => ?_⟩
          rw [hb] at h
          cases b with
          | true => simp only [ite_true] at h ⊢; exact iht h
          | false => simp only [Bool.false_eq_true, ite_false] at h ⊢; exact ihe h
    rcases hroot with hi | hfk
    · -- a node of integer type: `eval2` arm by arm, `eval_double` through `eval2`
      have hf := integer_not_flonum ty hi
      suffices h2 : ∀ label, NotNcc (eval2 .wrapping fp (.mk k ty nv fv l r c t e) label) by
        refine ⟨h2, ?_⟩
        rw [evalDouble_integer _ _ _ _ _ _ _ _ _ _ _ hi]
        exact notNcc_bind (h2 false) (fun _ => notNcc_pure _)
      intro label
      cases k
      case ND_ADD =>
        have ⟨h1, h2⟩ := bin2 (by simp [constBin])
        rw [eval2_ADD _ _ _ _ _ _ _ _ _ _ _ hf]
        exact notNcc_wrap _ (notNcc_bind (h1.1 _) (fun _ => notNcc_bind (h2.1 _) (fun _ => notNcc_ok _)))
      case ND_SUB =>
        have ⟨h1, h2⟩ := bin2 (by simp [constBin])
        rw [eval2_SUB _ _ _ _ _ _ _ _ _ _ _ hf]
        exact notNcc_wrap _ (notNcc_bind (h1.1 _) (fun _ => notNcc_bind (h2.1 _) (fun _ => notNcc_ok _)))
      case ND_MUL =>
        have ⟨h1, h2⟩ := bin2 (by simp [constBin])
        rw [eval2_MUL _ _ _ _ _ _ _ _ _ _ _ hf]
        exact notNcc_wrap _ (notNcc_bind (h1.1 _) (fun _ => notNcc_bind (h2.1 _) (fun _ => notNcc_ok _)))
      case ND_DIV =>
        have ⟨h1, h2⟩ := bin2 (by simp [constBin])
        rw [eval2_DIV _ _ _ _ _ _ _ _ _ _ _ hf]
        exact notNcc_wrap _ (notNcc_bind (h1.1 _) (fun _ => notNcc_bind (h2.1 _) (fun _ => notNcc_divmod _ _ _ _)))
      case ND_MOD =>
        have ⟨h1, h2⟩ := bin2 (by simp [constBin])
        rw [eval2_MOD _ _ _ _ _ _ _ _ _ _ _ hf]
        exact notNcc_wrap _ (notNcc_bind (h1.1 _) (fun _ => notNcc_bind (h2.1 _) (fun _ => notNcc_divmod _ _ _ _)))
      case ND_BITAND =>
        have ⟨h1, h2⟩ := bin2 (by simp [constBin])
        rw [eval2_BITAND _ _ _ _ _ _ _ _ _ _ _ hf]
        exact notNcc_wrap _ (notNcc_bind (h1.1 _) (fun _ => notNcc_bind (h2.1 _) (fun _ => notNcc_pure _)))
      case ND_BITOR =>
        have ⟨h1, h2⟩ := bin2 (by simp [constBin])
        rw [eval2_BITOR _ _ _ _ _ _ _ _ _ _ _ hf]
        exact notNcc_wrap _ (notNcc_bind (h1.1 _) (fun _ => notNcc_bind (h2.1 _) (fun _ => notNcc_pure _)))
      case ND_BITXOR =>
        have ⟨h1, h2⟩ := bin2 (by simp [constBin])
        rw [eval2_BITXOR _ _ _ _ _ _ _ _ _ _ _ hf]
        exact notNcc_wrap _ (notNcc_bind (h1.1 _) (fun _ => notNcc_bind (h2.1 _) (fun _ => notNcc_pure _)))
      case ND_SHL =>
        have ⟨h1, h2⟩ := bin2 (by simp [constBin])
        rw [eval2_SHL _ _ _ _ _ _ _ _ _ _ _ hf]
        exact notNcc_wrap _ (notNcc_bind (h1.1 _) (fun _ => notNcc_bind (h2.1 _) (fun _ => notNcc_shlS _ _)))
      case ND_SHR =>
        have ⟨h1, h2⟩ := bin2 (by simp [constBin])
        rw [eval2_SHR _ _ _ _ _ _ _ _ _ _ _ hf]
        exact notNcc_wrap _ (notNcc_bind (h1.1 _) (fun _ => notNcc_bind (h2.1 _) (fun _ => notNcc_ite (notNcc_shrU _ _) (notNcc_shrS _ _))))
      case ND_EQ =>
        have ⟨h1, h2⟩ := bin2 (by simp [constBin])
        rw [eval2_EQ _ _ _ _ _ _ _ _ _ _ _ hf]; exact notNcc_wrap _ (notNcc_cmpArm fp _ _ _ _ _ h1.1 h2.1 h1.2 h2.2)
      case ND_NE =>
        have ⟨h1, h2⟩ := bin2 (by simp [constBin])
        rw [eval2_NE _ _ _ _ _ _ _ _ _ _ _ hf]; exact notNcc_wrap _ (notNcc_cmpArm fp _ _ _ _ _ h1.1 h2.1 h1.2 h2.2)
      case ND_LT =>
        have ⟨h1, h2⟩ := bin2 (by simp [constBin])
        rw [eval2_LT _ _ _ _ _ _ _ _ _ _ _ hf]; exact notNcc_wrap _ (notNcc_cmpArm fp _ _ _ _ _ h1.1 h2.1 h1.2 h2.2)
      case ND_LE =>
        have ⟨h1, h2⟩ := bin2 (by simp [constBin])
        rw [eval2_LE _ _ _ _ _ _ _ _ _ _ _ hf]; exact notNcc_wrap _ (notNcc_cmpArm fp _ _ _ _ _ h1.1 h2.1 h1.2 h2.2)
      case ND_LOGAND =>
        rw [isConst_logand] at h
        rw [eval2_LOGAND _ _ _ _ _ _ _ _ _ _ _ hf]
        cases hc : isConstExpr .wrapping fp l with
        | error err => rw [hc] at h; cases h
        | ok bc =>
          rw [hc] at h
          cases bc with
          | false => simp [bind, Except.bind, pure, Except.pure] at h
          | true =>
            simp only [bind, Except.bind, Bool.not_true, Bool.false_eq_true, ite_false] at h
            have hl := ihl hc
            refine notNcc_wrap _ ?_
            cases htr : truth .wrapping fp l with
            | error err =>
              have := notNcc_truth fp l hl.1 hl.2
              rw [htr] at this
              intro hh; exact this (by simpa [bind, Except.bind] using hh)
            | ok b =>
              rw [htr] at h
              cases b with
              | true =>
                simp only [Bool.not_true, Bool.false_eq_true, ite_false] at h
                simp only [bind, Except.bind, ite_true]
                exact notNcc_bind (notNcc_truth fp r (ihr h).1 (ihr h).2) (fun _ => notNcc_pure _)
              | false =>
                simp only [bind, Except.bind, Bool.false_eq_true, ite_false]
                exact notNcc_pure _
      case ND_LOGOR =>
        rw [isConst_logor] at h
        rw [eval2_LOGOR _ _ _ _ _ _ _ _ _ _ _ hf]
        cases hc : isConstExpr .wrapping fp l with
        | error err => rw [hc] at h; cases h
        | ok bc =>
          rw [hc] at h
          cases bc with
          | false => simp [bind, Except.bind, pure, Except.pure] at h
          | true =>
            simp only [bind, Except.bind, Bool.not_true, Bool.false_eq_true, ite_false] at h
            have hl := ihl hc
            refine notNcc_wrap _ ?_
            cases htr : truth .wrapping fp l with
            | error err =>
              have := notNcc_truth fp l hl.1 hl.2
              rw [htr] at this
              intro hh; exact this (by simpa [bind, Except.bind] using hh)
            | ok b =>
              rw [htr] at h
              cases b with
              | false =>
                simp only [Bool.false_eq_true, ite_false] at h
                simp only [bind, Except.bind, Bool.false_eq_true, ite_false]
                exact notNcc_bind (notNcc_truth fp r (ihr h).1 (ihr h).2) (fun _ => notNcc_pure _)
              | true =>
                simp only [bind, Except.bind, ite_true]
                exact notNcc_pure _
      case ND_NEG =>
        have h1 := un1 (by simp [constUn])
        rw [eval2_NEG _ _ _ _ _ _ _ _ _ _ _ hf]; exact notNcc_wrap _ (notNcc_bind (h1.1 _) (fun _ => notNcc_ok _))
      case ND_NOT =>
        have h1 := un1 (by simp [constUn])
        rw [eval2_NOT _ _ _ _ _ _ _ _ _ _ _ hf]; exact notNcc_wrap _ (notNcc_bind (notNcc_truth fp _ h1.1 h1.2) (fun _ => notNcc_pure _))
      case ND_BITNOT =>
        have h1 := un1 (by simp [constUn])
        rw [eval2_BITNOT _ _ _ _ _ _ _ _ _ _ _ hf]; exact notNcc_wrap _ (notNcc_bind (h1.1 _) (fun _ => notNcc_pure _))
      case ND_CAST =>
        have h1 := un1 (by simp [constUn])
        rw [eval2_CAST _ _ _ _ _ _ _ _ _ _ _ hf]
        refine notNcc_wrap _ (notNcc_ite ?_ ?_)
        · exact notNcc_bind (notNcc_tyOf l) (fun _ => notNcc_ite (notNcc_bind (notNcc_fpTruth fp _ h1.2) (fun _ => notNcc_pure _))
            (notNcc_bind (h1.1 _) (fun _ => notNcc_pure _)))
        · exact notNcc_bind (notNcc_tyOf l) (fun _ => notNcc_ite (notNcc_bind h1.2 (fun _ => notNcc_cvtU64 _ _)) (h1.1 _))
      case ND_NUM => rw [eval2_NUM _ _ _ _ _ _ _ _ _ _ _ hf]; exact notNcc_pure _
      case ND_COMMA =>
        rw [isConst_comma] at h
        rw [eval2_COMMA _ _ _ _ _ _ _ _ _ _ _ hf]; exact notNcc_wrap _ ((ihr h).1 _)
      case ND_COND =>
        have ⟨hcn, hsel⟩ := condSel rfl
        rw [eval2_COND _ _ _ _ _ _ _ _ _ _ _ hf]
        refine notNcc_wrap _ ?_
        cases htr : truth .wrapping fp c with
        | error err =>
          have := notNcc_truth fp c hcn.1 hcn.2
          rw [htr] at this
          intro hh; exact this (by simpa [bind, Except.bind] using hh)
        | ok b =>
          have := hsel b htr
          cases b with
          | true => simp only [bind, Except.bind, ite_true] at this ⊢; exact this.1 _
          | false => simp only [bind, Except.bind, Bool.false_eq_true, ite_false] at this ⊢; exact this.1 _
      all_goals (exfalso; unfold isConstExpr at h; dsimp only at h; revert h; decide)
    · -- a node of floating type: `eval_double` arm by arm over the kinds eval_double2 folds, `eval2` through `eval_double`
      obtain ⟨hf, hk⟩ := hfk
      have hi := flonum_not_integer ty hf
      suffices hd : NotNcc (evalDouble .wrapping fp (.mk k ty nv fv l r c t e)) by
        refine ⟨fun label => ?_, hd⟩
        rw [eval2_flonum _ _ _ _ _ _ _ _ _ _ _ _ hf]
        exact notNcc_bind hd (fun _ => notNcc_cvtI64 _ _)
      cases k
      case ND_ADD =>
        have ⟨h1, h2⟩ := bin2 (by simp [constBin])
        rw [evalDouble_ADD _ _ _ _ _ _ _ _ _ _ hi]
        exact notNcc_round fp _ (notNcc_bind h1.2 (fun _ => notNcc_bind h2.2 (fun _ => notNcc_pure _)))
      case ND_SUB =>
        have ⟨h1, h2⟩ := bin2 (by simp [constBin])
        rw [evalDouble_SUB _ _ _ _ _ _ _ _ _ _ hi]
        exact notNcc_round fp _ (notNcc_bind h1.2 (fun _ => notNcc_bind h2.2 (fun _ => notNcc_pure _)))
      case ND_MUL =>
        have ⟨h1, h2⟩ := bin2 (by simp [constBin])
        rw [evalDouble_MUL _ _ _ _ _ _ _ _ _ _ hi]
        exact notNcc_round fp _ (notNcc_bind h1.2 (fun _ => notNcc_bind h2.2 (fun _ => notNcc_pure _)))
      case ND_DIV =>
        have ⟨h1, h2⟩ := bin2 (by simp [constBin])
        rw [evalDouble_DIV _ _ _ _ _ _ _ _ _ _ hi]
        exact notNcc_round fp _ (notNcc_bind h1.2 (fun _ => notNcc_bind h2.2 (fun _ => notNcc_pure _)))
      case ND_NEG =>
        have h1 := un1 (by simp [constUn])
        rw [evalDouble_NEG _ _ _ _ _ _ _ _ _ _ hi]
        exact notNcc_round fp _ (notNcc_bind h1.2 (fun _ => notNcc_pure _))
      case ND_CAST =>
        have h1 := un1 (by simp [constUn])
        rw [evalDouble_CAST _ _ _ _ _ _ _ _ _ _ hi]
        exact notNcc_round fp _ h1.2
      case ND_NUM => rw [evalDouble_NUM _ _ _ _ _ _ _ _ _ _ hi]; exact notNcc_pure _
      case ND_COMMA =>
        rw [isConst_comma] at h
        rw [evalDouble_COMMA _ _ _ _ _ _ _ _ _ _ hi]; exact notNcc_round fp _ (ihr h).2
      case ND_COND =>
        have ⟨hcn, hsel⟩ := condSel rfl
        rw [evalDouble_COND _ _ _ _ _ _ _ _ _ _ hi, ← truth_eq_fpTruth fp hfp c htc]
        refine notNcc_round fp _ ?_
        cases htr : truth .wrapping fp c with
        | error err =>
          have := notNcc_truth fp c hcn.1 hcn.2
          rw [htr] at this
          intro hh; exact this (by simpa [bind, Except.bind] using hh)
        | ok b =>
          have := hsel b htr
          cases b with
          | true => simp only [bind, Except.bind, ite_true] at this ⊢; exact this.2
          | false => simp only [bind, Except.bind, Bool.false_eq_true, ite_false] at this ⊢; exact this.2
      all_goals (exfalso; revert hk; decide)

omit hfp in
/-- the hypothesis is satisfiable: `noFp` embeds integers as themselves -/
theorem noFp_zeroExact : FpZeroExact noFp := by
  have key : ∀ v : BitVec 64, (BitVec.setWidth 80 v == BitVec.setWidth 80 (0#32)) = (v == 0#64) := by
    intro v
    rw [Bool.eq_iff_iff]; simp only [beq_iff_eq]
    constructor
    · intro h
      apply BitVec.eq_of_toNat_eq
      have := congrArg BitVec.toNat h
      simp only [BitVec.toNat_setWidth, BitVec.toNat_ofNat] at this ⊢
      omega
    · intro h; subst h; rfl
  constructor <;> intro v <;> exact key v

end ncc2

/-! ## Order of evaluation -/

section order
/-- the kinds whose arm is `lhs = eval…(node->lhs); return lhs OP eval(node->rhs)` on two `int64_t` -/
def arithKinds : List NodeKind :=
  [.ND_ADD, .ND_SUB, .ND_MUL, .ND_DIV, .ND_MOD, .ND_BITAND, .ND_BITOR, .ND_BITXOR, .ND_SHL, .ND_SHR]
/-- the comparison kinds (integer or floating operands, result `int`) -/
def cmpKinds : List NodeKind := [.ND_EQ, .ND_NE, .ND_LT, .ND_LE]
/-- the kinds `eval_double2` folds with two operands -/
def farithKinds : List NodeKind := [.ND_ADD, .ND_SUB, .ND_MUL, .ND_DIV]

/-- only `+` and `-` hand the relocation label to their left operand (`eval2(node->lhs, label)`) -/
def leftLabel (k : NodeKind) (label : Bool) : Bool := if k = .ND_ADD ∨ k = .ND_SUB then label else false

/-- **left first**: a failure of the left operand `L` is the failure of the node `N` whatever the right operand `R` is;
    a failure of the right operand is the node's only when the left operand has a value -/
def LeftFirst {α β γ : Type} (L : Except Fail α) (R : Except Fail β) (N : Except Fail γ) : Prop :=
  (∀ f, L = .error f → N = .error f) ∧ (∀ a f, L = .ok a → R = .error f → N = .error f)

theorem leftFirst_bind {α β γ δ : Type} (L : Except Fail α) (R : Except Fail β) (g : α → β → Except Fail γ) (w : γ → Except Fail δ) :
    LeftFirst L R ((L >>= fun a => R >>= fun b => g a b) >>= w) := by
  constructor
  · intro f h; rw [h]; rfl
  · intro a f h1 h2; rw [h1, h2]; rfl

variable (fp : FpEnv) (ty : CTy) (nv : BitVec 64) (fv : BitVec 80) (l r c t e : CNode) (label : Bool)

theorem order_arith (hf : isFlonum ty = false) (k : NodeKind) (hk : k ∈ arithKinds) :
    LeftFirst (eval2 .wrapping fp l (leftLabel k label)) (eval2 .wrapping fp r false)
      (eval2 .wrapping fp (.mk k ty nv fv l r c t e) label) := by
  simp only [arithKinds, List.mem_cons, List.mem_nil_iff, or_false] at hk
  rcases hk with h | h | h | h | h | h | h | h | h | h <;> subst h <;> simp only [leftLabel, reduceCtorEq, or_self, or_true, true_or, or_false, ite_true, ite_false]
  · rw [eval2_ADD _ _ _ _ _ _ _ _ _ _ _ hf]; exact leftFirst_bind _ _ _ _
  · rw [eval2_SUB _ _ _ _ _ _ _ _ _ _ _ hf]; exact leftFirst_bind _ _ _ _
  · rw [eval2_MUL _ _ _ _ _ _ _ _ _ _ _ hf]; exact leftFirst_bind _ _ _ _
  · rw [eval2_DIV _ _ _ _ _ _ _ _ _ _ _ hf]; exact leftFirst_bind _ _ _ _
  · rw [eval2_MOD _ _ _ _ _ _ _ _ _ _ _ hf]; exact leftFirst_bind _ _ _ _
  · rw [eval2_BITAND _ _ _ _ _ _ _ _ _ _ _ hf]; exact leftFirst_bind _ _ _ _
  · rw [eval2_BITOR _ _ _ _ _ _ _ _ _ _ _ hf]; exact leftFirst_bind _ _ _ _
  · rw [eval2_BITXOR _ _ _ _ _ _ _ _ _ _ _ hf]; exact leftFirst_bind _ _ _ _
  · rw [eval2_SHL _ _ _ _ _ _ _ _ _ _ _ hf]; exact leftFirst_bind _ _ _ _
  · rw [eval2_SHR _ _ _ _ _ _ _ _ _ _ _ hf]; exact leftFirst_bind _ _ _ _

theorem cmpArm_order (cf : BitVec 80 → BitVec 80 → Bool) (cu cs : BitVec 64 → BitVec 64 → Bool) (tl : CTy)
    (htl : CNode.tyOf l = .ok tl) (w : BitVec 64 → Except Fail (BitVec 64)) :
    (isFlonum tl = false → LeftFirst (eval2 .wrapping fp l false) (eval2 .wrapping fp r false) (cmpArm .wrapping fp cf cu cs l r >>= w)) ∧
    (isFlonum tl = true → LeftFirst (evalDouble .wrapping fp l) (evalDouble .wrapping fp r) (cmpArm .wrapping fp cf cu cs l r >>= w)) := by
  unfold cmpArm
  simp only [htl, bind, Except.bind]
  constructor
  · intro hfl
    simp only [hfl, Bool.false_eq_true, ite_false]
    cases tl.isUnsigned <;> simp only [Bool.false_eq_true, ite_false, ite_true] <;> exact leftFirst_bind _ _ _ _
  · intro hfl
    simp only [hfl, ite_true]
    exact leftFirst_bind _ _ _ _

theorem order_cmp (hf : isFlonum ty = false) (k : NodeKind) (hk : k ∈ cmpKinds) (tl : CTy) (htl : CNode.tyOf l = .ok tl) :
    (isFlonum tl = false → LeftFirst (eval2 .wrapping fp l false) (eval2 .wrapping fp r false)
        (eval2 .wrapping fp (.mk k ty nv fv l r c t e) label)) ∧
    (isFlonum tl = true → LeftFirst (evalDouble .wrapping fp l) (evalDouble .wrapping fp r)
        (eval2 .wrapping fp (.mk k ty nv fv l r c t e) label)) := by
  simp only [cmpKinds, List.mem_cons, List.mem_nil_iff, or_false] at hk
  rcases hk with h | h | h | h <;> subst h
  · rw [eval2_EQ _ _ _ _ _ _ _ _ _ _ _ hf]; exact cmpArm_order fp l r _ _ _ tl htl _
  · rw [eval2_NE _ _ _ _ _ _ _ _ _ _ _ hf]; exact cmpArm_order fp l r _ _ _ tl htl _
  · rw [eval2_LT _ _ _ _ _ _ _ _ _ _ _ hf]; exact cmpArm_order fp l r _ _ _ tl htl _
  · rw [eval2_LE _ _ _ _ _ _ _ _ _ _ _ hf]; exact cmpArm_order fp l r _ _ _ tl htl _

theorem order_farith (hi : isInteger ty = false) (k : NodeKind) (hk : k ∈ farithKinds) :
    LeftFirst (evalDouble .wrapping fp l) (evalDouble .wrapping fp r) (evalDouble .wrapping fp (.mk k ty nv fv l r c t e)) := by
  simp only [farithKinds, List.mem_cons, List.mem_nil_iff, or_false] at hk
  rcases hk with h | h | h | h <;> subst h
  · rw [evalDouble_ADD _ _ _ _ _ _ _ _ _ _ hi]; exact leftFirst_bind _ _ _ _
  · rw [evalDouble_SUB _ _ _ _ _ _ _ _ _ _ hi]; exact leftFirst_bind _ _ _ _
  · rw [evalDouble_MUL _ _ _ _ _ _ _ _ _ _ hi]; exact leftFirst_bind _ _ _ _
  · rw [evalDouble_DIV _ _ _ _ _ _ _ _ _ _ hi]; exact leftFirst_bind _ _ _ _

end order

/-! ## Consumers -/

section consumers
/-- conversion of the folded `int64_t` to `int` keeps every value an `int` can hold -/
theorem store_int (v : Int) (h : ITy.inRange .i32 v = true) : (castS 32 (img v)).toInt = v := by
  rng
  simp only [castS, img]
  rw [BitVec.signExtend_eq_setWidth_of_le _ (by decide), BitVec.toInt_setWidth, BitVec.toNat_ofInt]
  simp only [Int.bmod_def]
  omega

theorem store_long (v : Int) (h : ITy.inRange .i64 v = true) : (img v).toInt = v := by
  rng; exact img_toInt v h.1 h.2

/-! ### `_Alignas(n)` / `aligned(n)`: the folded `int64_t` is validated, then stored in an `int` -/

theorem shl28 : shlS .wrapping (1#32) (28#32).toInt = .ok 268435456#32 := by decide

/-- the condition of the two alignment checks, evaluated -/
def alignBad (v : BitVec 64) : Bool := BitVec.slt v 0#64 || BitVec.slt 268435456#64 v || (v &&& (v - 1#64)) != 0

/-- the `_Alignas` check: rejected iff negative, above 2^28, or neither 0 nor a power of two -/
theorem reject_declspec_eq (v : BitVec 64) : reject_declspec_align .wrapping v = .ok (alignBad v) := by
  unfold reject_declspec_align alignBad
  rw [shl28]
  simp only [subS, ovf, bind, Except.bind, pure, Except.pure]
  cases h1 : BitVec.slt v 0#64 <;> simp
  cases h2 : BitVec.slt (castS 64 268435456#32) v <;> simp_all [castS]

/-- the `aligned(n)` check -/
theorem reject_attribute_eq (v : BitVec 64) : reject_attribute_list_ty_align .wrapping v = .ok (alignBad v) := by
  unfold reject_attribute_list_ty_align alignBad
  rw [shl28]
  simp only [subS, ovf, bind, Except.bind, pure, Except.pure]
  cases h1 : BitVec.slt v 0#64 <;> simp
  cases h2 : BitVec.slt (castS 64 268435456#32) v <;> simp_all [castS]

theorem align_exact (v : BitVec 64) (h1 : BitVec.slt v 0#64 = false) (h2 : BitVec.slt 268435456#64 v = false) :
    (castS 32 v).toInt = v.toInt ∧ 0 ≤ v.toInt ∧ v.toInt ≤ 268435456 := by
  simp only [BitVec.slt, decide_eq_false_iff_not, Int.not_lt] at h1 h2
  have e1 : (0#64).toInt = 0 := by decide
  have e2 : (268435456#64).toInt = 268435456 := by decide
  rw [e1] at h1; rw [e2] at h2
  refine ⟨?_, h1, h2⟩
  simp only [castS]
  rw [BitVec.signExtend_eq_setWidth_of_le _ (by decide), BitVec.toInt_setWidth]
  have := BitVec.toInt_eq_toNat_of_lt (x := v) (by have := BitVec.toInt_eq_toNat_cond v; omega)
  simp only [Int.bmod_def]
  omega

/-- what an alignment store answers: the diagnostic, or the `int` holding exactly the folded value (which then lies in 0 .. 2^28) -/
def AlignStored (v : BitVec 64) (r : Except Fail (BitVec 32)) : Prop :=
  r = .error (.diag "alignment must be a power of two no larger than 2^28") ∨
    ∃ w, r = .ok w ∧ w.toInt = v.toInt ∧ 0 ≤ v.toInt ∧ v.toInt ≤ 268435456

theorem store_declspec_exact (v : BitVec 64) : AlignStored v (store_declspec_align .wrapping v) := by
  unfold store_declspec_align AlignStored
  rw [reject_declspec_eq]
  simp only [bind, Except.bind]
  cases hb : alignBad v
  · right
    simp only [alignBad, Bool.or_eq_false_iff] at hb
    exact ⟨_, rfl, align_exact v hb.1.1 hb.1.2⟩
  · left; rfl

theorem store_attribute_exact (v : BitVec 64) : AlignStored v (store_attribute_list_ty_align .wrapping v) := by
  unfold store_attribute_list_ty_align AlignStored
  rw [reject_attribute_eq]
  simp only [bind, Except.bind]
  cases hb : alignBad v
  · right
    simp only [alignBad, Bool.or_eq_false_iff] at hb
    exact ⟨_, rfl, align_exact v hb.1.1 hb.1.2⟩
  · left; rfl

/-- every power of two up to 2^28 (and 0, which requests nothing) passes both checks and is stored exactly -/
theorem store_align_pow2 : ∀ k ∈ List.range 29,
    store_declspec_align .wrapping (BitVec.ofNat 64 (2 ^ k)) = .ok (BitVec.ofNat 32 (2 ^ k)) ∧
    store_attribute_list_ty_align .wrapping (BitVec.ofNat 64 (2 ^ k)) = .ok (BitVec.ofNat 32 (2 ^ k)) := by decide

/-- object representation of the value `x` in an object of type `t`, zero-extended to 64 bits -/
def objBits (t : ITy) (x : Int) : BitVec 64 := BitVec.ofInt 64 (x % 2 ^ (8 * t.size))

theorem writeBuf_descr (t : ITy) (x : Int) : writeBuf (img x) (descr t).size = .ok (objBits t x) := by
  cases t <;> simp [writeBuf, descr, objBits, ITy.size] <;>
    (apply BitVec.eq_of_toNat_eq; simp only [castU, img, BitVec.toNat_setWidth, BitVec.toNat_ofInt]; omega)

/-- **static initializer** (node level): an integer-typed initializer whose folded value is the image of `v`: the object
    holds the C11 conversion of `v` to the object's type -/
theorem store_gvar_node (fp : FpEnv) (t s : ITy) (n : CNode) (v : Int) (hty : CNode.tyOf n = .ok (descr s))
    (hv : s.inRange v = true) :
    storeGvar .wrapping fp (descr t) n (img v) = .ok (objBits t (t.convert v)) := by
  unfold storeGvar
  by_cases hb : t = .bool
  · subst hb
    have hw := inRange_wide _ v hv
    have hz := img_eq_zero_iff v hw.1 hw.2
    have e1 : (img v != 0#64) = (v != 0) := by
      rw [Bool.eq_iff_iff]; simp only [bne_iff_ne, ne_eq]; exact not_congr hz
    have e2 : ITy.convert .bool v = b2z (v != 0) := by
      simp only [ITy.convert, b2z]; by_cases h0 : v = 0 <;> simp [h0]
    simp only [show ((descr .bool).kind == TypeKind.TY_BOOL) = true from rfl, ite_true, hty, bind, Except.bind,
      descr_not_flonum, Bool.false_eq_true, ite_false, pure, Except.pure, e1, e2]
    cases (v != 0) <;> rfl
  · have hk : ((descr t).kind == TypeKind.TY_BOOL) = false := by cases t <;> first | rfl | exact absurd rfl hb
    simp only [hk, Bool.false_eq_true, ite_false, bind, Except.bind, pure, Except.pure, writeBuf_descr]
    congr 1
    cases t <;> simp only [objBits, ITy.convert, ITy.signed, ITy.bits, ITy.size, ite_true, ite_false, Bool.false_eq_true] <;>
      first | exact absurd rfl hb | (apply img_congr; omega)

/-- **static initializer**: the object holds the C11 conversion of the value to the object's type -/
theorem store_gvar (fp : FpEnv) (t : ITy) (e : CExpr) (v : Int) (h : Folds fp e v) :
    storeGvar .wrapping fp (descr t) (elabE e) (img v) = .ok (objBits t (t.convert v)) :=
  store_gvar_node fp t (typeOf e) (elabE e) v (tyOf_elab e) h.1

/-- **static initializer, the whole scalar path** (`eval2(init->expr, &label)` included): an integer constant expression is
    never taken for a floating initializer, and the object holds the C11 conversion of its value -/
theorem store_gvar_scalar (fp : FpEnv) (t : ITy) (e : CExpr) (v : Int) (h : Folds fp e v) :
    storeGvarScalar .wrapping fp (descr t) (elabE e) = .ok (objBits t (t.convert v)) := by
  unfold storeGvarScalar
  simp only [tyOf_elab, bind, Except.bind, descr_not_flonum, Bool.false_and, Bool.false_eq_true, ite_false, h.2 true]
  exact store_gvar fp t e v h

end consumers

end ChibiVerif.ConstEvalLemmas
