/- Lemmas for C07: unfolding of the generated folder arm by arm, the int64 image of a C11 value,
   the wrapper of eval2 as the C11 conversion, one lemma per operator arm. -/
import ChibiVerif.Model.ConstElab

namespace ChibiVerif.ConstEvalLemmas
open ChibiVerif.Host ChibiVerif.Gen.ConstEval ChibiVerif.Spec.Const ChibiVerif.ConstElab

/-! ## The generated `eval2`, arm by arm -/

/-- the wrapper at the end of `eval2`: reduce the host value to the width and signedness of the node's type -/
def wrapTy (ty : CTy) (v : BitVec 64) : BitVec 64 :=
  if isInteger ty then
    if ty.size == 1#32 then (if ty.isUnsigned then castU 64 (castS 8 v) else castS 64 (castS 8 v))
    else if ty.size == 2#32 then (if ty.isUnsigned then castU 64 (castS 16 v) else castS 64 (castS 16 v))
    else if ty.size == 4#32 then (if ty.isUnsigned then castU 64 (castS 32 v) else castS 64 (castS 32 v))
    else v
  else v

/-- `eval_truth` as inlined at its call sites -/
def truth (h : HostMode) (fp : FpEnv) (n : CNode) : Except Fail Bool :=
  (CNode.tyOf n) >>= fun t => if (isFlonum t) then (fp.neZero n) else ((eval2 h fp n false) >>= fun v => pure (v != (0#64)))

theorem truth_eq_evalTruth (h : HostMode) (fp : FpEnv) (n : CNode) : truth h fp n = evalTruth h fp n := rfl

/-- the wrapper exactly as generated -/
def wrapM (ty : CTy) (v_val : BitVec 64) : Except Fail (BitVec 64) :=
    if (isInteger ty) then
      if ty.size == (1#32) then
        pure (if ty.isUnsigned then (castU 64 (castS 8 v_val)) else (castS 64 (castS 8 v_val)))
      else if ty.size == (2#32) then
        pure (if ty.isUnsigned then (castU 64 (castS 16 v_val)) else (castS 64 (castS 16 v_val)))
      else if ty.size == (4#32) then
        pure (if ty.isUnsigned then (castU 64 (castS 32 v_val)) else (castS 64 (castS 32 v_val)))
      else pure v_val
    else
      pure v_val

theorem wrapM_eq (ty : CTy) (v : BitVec 64) : wrapM ty v = pure (wrapTy ty v) := by
  unfold wrapM wrapTy; (repeat' split) <;> rfl

theorem wrapK (ty : CTy) : wrapM ty = fun v => pure (wrapTy ty v) := funext (wrapM_eq ty)

/-- unfolds `eval2 (mk K ..)` to `raw >>= fun v => pure (wrapTy ty v)` -/
macro "arm" : tactic =>
  `(tactic| (rw [eval2]; simp only [*, Bool.false_eq_true, ite_false]; change (_ >>= wrapM _) = _; rw [wrapK]))

variable (h : HostMode) (fp : FpEnv) (ty : CTy) (nv : BitVec 64) (l r c t e : CNode) (label : Bool)

theorem eval2_null : eval2 h fp .null label = .error (.crash "NULL node dereferenced") := by rw [eval2]

theorem eval2_ADD (hf : isFlonum ty = false) :
    eval2 h fp (.mk .ND_ADD ty nv l r c t e) label
      = ((eval2 h fp l label >>= fun a => eval2 h fp r false >>= fun b => addS h a b) >>= fun v => pure (wrapTy ty v)) := by arm

theorem eval2_SUB (hf : isFlonum ty = false) :
    eval2 h fp (.mk .ND_SUB ty nv l r c t e) label
      = ((eval2 h fp l label >>= fun a => eval2 h fp r false >>= fun b => subS h a b) >>= fun v => pure (wrapTy ty v)) := by arm

theorem eval2_MUL (hf : isFlonum ty = false) :
    eval2 h fp (.mk .ND_MUL ty nv l r c t e) label
      = ((eval2 h fp l false >>= fun a => eval2 h fp r false >>= fun b => mulS h a b) >>= fun v => pure (wrapTy ty v)) := by arm

/-- the `ND_DIV`/`ND_MOD` arm after both operands are evaluated -/
def divmod (h : HostMode) (isDiv : Bool) (ty : CTy) (a b : BitVec 64) : Except Fail (BitVec 64) :=
  if b == 0#64 then .error (.diag "division by zero in a constant expression")
  else if ty.isUnsigned then (if isDiv then divU h a b else modU h a b)
  else if b == 18446744073709551615#64 then pure (if isDiv then -a else 0#64)
  else (if isDiv then divS h a b else modS h a b)

theorem eval2_DIV (hf : isFlonum ty = false) :
    eval2 h fp (.mk .ND_DIV ty nv l r c t e) label
      = ((eval2 h fp l false >>= fun a => eval2 h fp r false >>= fun b => divmod h true ty a b) >>= fun v => pure (wrapTy ty v)) := by
  arm; simp only [divmod, beq_self_eq_true, ite_true]

theorem eval2_MOD (hf : isFlonum ty = false) :
    eval2 h fp (.mk .ND_MOD ty nv l r c t e) label
      = ((eval2 h fp l false >>= fun a => eval2 h fp r false >>= fun b => divmod h false ty a b) >>= fun v => pure (wrapTy ty v)) := by
  arm; simp only [divmod, show (NodeKind.ND_MOD == NodeKind.ND_DIV) = false from rfl, Bool.false_eq_true, ite_false]

theorem eval2_NEG (hf : isFlonum ty = false) :
    eval2 h fp (.mk .ND_NEG ty nv l r c t e) label
      = ((eval2 h fp l false >>= fun a => negS h a) >>= fun v => pure (wrapTy ty v)) := by arm

theorem eval2_BITAND (hf : isFlonum ty = false) :
    eval2 h fp (.mk .ND_BITAND ty nv l r c t e) label
      = ((eval2 h fp l false >>= fun a => eval2 h fp r false >>= fun b => pure (a &&& b)) >>= fun v => pure (wrapTy ty v)) := by arm

theorem eval2_BITOR (hf : isFlonum ty = false) :
    eval2 h fp (.mk .ND_BITOR ty nv l r c t e) label
      = ((eval2 h fp l false >>= fun a => eval2 h fp r false >>= fun b => pure (a ||| b)) >>= fun v => pure (wrapTy ty v)) := by arm

theorem eval2_BITXOR (hf : isFlonum ty = false) :
    eval2 h fp (.mk .ND_BITXOR ty nv l r c t e) label
      = ((eval2 h fp l false >>= fun a => eval2 h fp r false >>= fun b => pure (a ^^^ b)) >>= fun v => pure (wrapTy ty v)) := by arm

theorem eval2_SHL (hf : isFlonum ty = false) :
    eval2 h fp (.mk .ND_SHL ty nv l r c t e) label
      = ((eval2 h fp l false >>= fun a => eval2 h fp r false >>= fun b => shlS h a b.toInt) >>= fun v => pure (wrapTy ty v)) := by arm

theorem eval2_SHR (hf : isFlonum ty = false) :
    eval2 h fp (.mk .ND_SHR ty nv l r c t e) label
      = ((eval2 h fp l false >>= fun a => eval2 h fp r false >>= fun b =>
            if (ty.isUnsigned && (ty.size == (8#32))) then shrU h a b.toInt else shrS h a b.toInt) >>= fun v => pure (wrapTy ty v)) := by
  arm; split <;> rfl

/-- comparison arms: `cmpU`/`cmpS` are the unsigned / signed host comparisons; EQ and NE do not look at signedness -/
def cmpArm (h : HostMode) (fp : FpEnv) (op : String) (cu cs : BitVec 64 → BitVec 64 → Bool) (l r : CNode) : Except Fail (BitVec 64) :=
  (CNode.tyOf l) >>= fun tl =>
    if isFlonum tl then (fp.cmp op l r >>= fun b => pure (castS 64 (b2i b)))
    else if tl.isUnsigned then (eval2 h fp l false >>= fun a => eval2 h fp r false >>= fun b => pure (castS 64 (b2i (cu a b))))
    else (eval2 h fp l false >>= fun a => eval2 h fp r false >>= fun b => pure (castS 64 (b2i (cs a b))))

theorem eval2_EQ (hf : isFlonum ty = false) :
    eval2 h fp (.mk .ND_EQ ty nv l r c t e) label
      = (cmpArm h fp "==" (· == ·) (· == ·) l r >>= fun v => pure (wrapTy ty v)) := by
  arm; simp only [cmpArm]; congr 1; congr 1; funext tl; split <;> simp

theorem eval2_NE (hf : isFlonum ty = false) :
    eval2 h fp (.mk .ND_NE ty nv l r c t e) label
      = (cmpArm h fp "!=" (· != ·) (· != ·) l r >>= fun v => pure (wrapTy ty v)) := by
  arm; simp only [cmpArm]; congr 1; congr 1; funext tl; split <;> simp

theorem eval2_LT (hf : isFlonum ty = false) :
    eval2 h fp (.mk .ND_LT ty nv l r c t e) label
      = (cmpArm h fp "<" BitVec.ult BitVec.slt l r >>= fun v => pure (wrapTy ty v)) := by
  arm; simp only [cmpArm]; congr 1
  cases l with
  | null => rfl
  | mk k2 t2 v2 a2 b2 c2 d2 e2 =>
    simp only [CNode.tyOf, bind, Except.bind]

theorem eval2_LE (hf : isFlonum ty = false) :
    eval2 h fp (.mk .ND_LE ty nv l r c t e) label
      = (cmpArm h fp "<=" BitVec.ule BitVec.sle l r >>= fun v => pure (wrapTy ty v)) := by
  arm; simp only [cmpArm]; congr 1
  cases l with
  | null => rfl
  | mk k2 t2 v2 a2 b2 c2 d2 e2 =>
    simp only [CNode.tyOf, bind, Except.bind]

theorem eval2_COND (hf : isFlonum ty = false) :
    eval2 h fp (.mk .ND_COND ty nv l r c t e) label
      = ((truth h fp c >>= fun b => if b then eval2 h fp t label else eval2 h fp e label) >>= fun v => pure (wrapTy ty v)) := by
  arm; rfl

theorem eval2_COMMA (hf : isFlonum ty = false) :
    eval2 h fp (.mk .ND_COMMA ty nv l r c t e) label
      = (eval2 h fp r label >>= fun v => pure (wrapTy ty v)) := by arm

theorem eval2_NOT (hf : isFlonum ty = false) :
    eval2 h fp (.mk .ND_NOT ty nv l r c t e) label
      = ((truth h fp l >>= fun b => pure (castS 64 (b2i (!b)))) >>= fun v => pure (wrapTy ty v)) := by
  arm; rfl

theorem eval2_BITNOT (hf : isFlonum ty = false) :
    eval2 h fp (.mk .ND_BITNOT ty nv l r c t e) label
      = ((eval2 h fp l false >>= fun a => pure (~~~a)) >>= fun v => pure (wrapTy ty v)) := by arm

theorem eval2_LOGAND (hf : isFlonum ty = false) :
    eval2 h fp (.mk .ND_LOGAND ty nv l r c t e) label
      = ((truth h fp l >>= fun a => (if a then truth h fp r else pure false) >>= fun b => pure (castS 64 (b2i b))) >>= fun v => pure (wrapTy ty v)) := by
  arm; rfl

theorem eval2_LOGOR (hf : isFlonum ty = false) :
    eval2 h fp (.mk .ND_LOGOR ty nv l r c t e) label
      = ((truth h fp l >>= fun a => (if a then pure true else truth h fp r) >>= fun b => pure (castS 64 (b2i b))) >>= fun v => pure (wrapTy ty v)) := by
  arm; rfl

theorem eval2_CAST (hf : isFlonum ty = false) :
    eval2 h fp (.mk .ND_CAST ty nv l r c t e) label
      = ((if ty.kind == TypeKind.TY_BOOL then
            (CNode.tyOf l) >>= fun tl =>
              if isFlonum tl then (fp.neZero l >>= fun b => pure (castS 64 (b2i b)))
              else (eval2 h fp l label >>= fun a => pure (castS 64 (b2i (a != (0#64)))))
          else eval2 h fp l label) >>= fun v => pure (wrapTy ty v)) := by
  arm

theorem eval2_NUM (hf : isFlonum ty = false) :
    eval2 h fp (.mk .ND_NUM ty nv l r c t e) label = pure (wrapTy ty nv) := by
  arm; rfl

/-! ## The int64 image of a mathematical value, and the wrapper as the C11 conversion -/

/-- the `int64_t` the folder holds for the C11 value `x` (two's complement, also for `unsigned long` values ≥ 2^63) -/
abbrev img (x : Int) : BitVec 64 := BitVec.ofInt 64 x

theorem wrapS8 (x : Int) : castS 64 (castS 8 (img x)) = img ((x + 128) % 256 - 128) := by
  apply BitVec.eq_of_toInt_eq
  simp only [castS, img]
  rw [BitVec.toInt_signExtend_of_le (by decide), BitVec.signExtend_eq_setWidth_of_le _ (by decide),
    BitVec.toInt_setWidth, BitVec.toNat_ofInt, BitVec.toInt_ofInt]
  simp only [Int.bmod_def]
  omega

theorem wrapS16 (x : Int) : castS 64 (castS 16 (img x)) = img ((x + 32768) % 65536 - 32768) := by
  apply BitVec.eq_of_toInt_eq
  simp only [castS, img]
  rw [BitVec.toInt_signExtend_of_le (by decide), BitVec.signExtend_eq_setWidth_of_le _ (by decide),
    BitVec.toInt_setWidth, BitVec.toNat_ofInt, BitVec.toInt_ofInt]
  simp only [Int.bmod_def]
  omega

theorem wrapS32 (x : Int) : castS 64 (castS 32 (img x)) = img ((x + 2147483648) % 4294967296 - 2147483648) := by
  apply BitVec.eq_of_toInt_eq
  simp only [castS, img]
  rw [BitVec.toInt_signExtend_of_le (by decide), BitVec.signExtend_eq_setWidth_of_le _ (by decide),
    BitVec.toInt_setWidth, BitVec.toNat_ofInt, BitVec.toInt_ofInt]
  simp only [Int.bmod_def]
  omega

theorem wrapU8 (x : Int) : castU 64 (castS 8 (img x)) = img (x % 256) := by
  apply BitVec.eq_of_toNat_eq
  simp only [castS, castU, img]
  rw [BitVec.signExtend_eq_setWidth_of_le _ (by decide), BitVec.toNat_setWidth, BitVec.toNat_setWidth,
    BitVec.toNat_ofInt, BitVec.toNat_ofInt]
  omega

theorem wrapU16 (x : Int) : castU 64 (castS 16 (img x)) = img (x % 65536) := by
  apply BitVec.eq_of_toNat_eq
  simp only [castS, castU, img]
  rw [BitVec.signExtend_eq_setWidth_of_le _ (by decide), BitVec.toNat_setWidth, BitVec.toNat_setWidth,
    BitVec.toNat_ofInt, BitVec.toNat_ofInt]
  omega

theorem wrapU32 (x : Int) : castU 64 (castS 32 (img x)) = img (x % 4294967296) := by
  apply BitVec.eq_of_toNat_eq
  simp only [castS, castU, img]
  rw [BitVec.signExtend_eq_setWidth_of_le _ (by decide), BitVec.toNat_setWidth, BitVec.toNat_setWidth,
    BitVec.toNat_ofInt, BitVec.toNat_ofInt]
  omega

/-- images agree iff the values are congruent modulo 2^64 -/
theorem img_congr (x y : Int) (hxy : x % 18446744073709551616 = y % 18446744073709551616) : img x = img y := by
  apply BitVec.eq_of_toNat_eq
  simp only [img, BitVec.toNat_ofInt]
  have : ((2 ^ 64 : Nat) : Int) = 18446744073709551616 := by decide
  rw [this, hxy]

/-- **the wrapper of `eval2` is the C11 conversion to the node's type** (every type but `_Bool`, whose conversion is a test) -/
theorem wrap_convert (t : ITy) (ht : t ≠ .bool) (x : Int) : wrapTy (descr t) (img x) = img (t.convert x) := by
  cases t with
  | bool => exact absurd rfl ht
  | i8 => simpa [wrapTy, descr, isInteger, ITy.convert, ITy.signed, ITy.bits] using wrapS8 x
  | u8 => simpa [wrapTy, descr, isInteger, ITy.convert, ITy.signed, ITy.bits] using wrapU8 x
  | i16 => simpa [wrapTy, descr, isInteger, ITy.convert, ITy.signed, ITy.bits] using wrapS16 x
  | u16 => simpa [wrapTy, descr, isInteger, ITy.convert, ITy.signed, ITy.bits] using wrapU16 x
  | i32 => simpa [wrapTy, descr, isInteger, ITy.convert, ITy.signed, ITy.bits] using wrapS32 x
  | u32 => simpa [wrapTy, descr, isInteger, ITy.convert, ITy.signed, ITy.bits] using wrapU32 x
  | i64 =>
    simp [wrapTy, descr, isInteger, ITy.convert, ITy.signed, ITy.bits]
    apply img_congr; omega
  | u64 =>
    simp [wrapTy, descr, isInteger, ITy.convert, ITy.signed, ITy.bits]
    apply img_congr; omega

/-! ## Ranges -/

theorem inRange_iff (t : ITy) (v : Int) : t.inRange v = true ↔ (t.minV ≤ v ∧ v ≤ t.maxV) := by
  simp [ITy.inRange]

/-- unfold a range hypothesis / goal to numerals -/
macro "rng" : tactic => `(tactic| simp only [inRange_iff, ITy.minV, ITy.maxV, ITy.signed, ITy.bits, ite_true, ite_false,
   Bool.false_eq_true, Nat.reduceSub, Int.reducePow, Int.reduceNeg, Int.reduceSub, Nat.reducePow] at *)

theorem convert_inRange (t : ITy) (x : Int) : t.inRange (t.convert x) = true := by
  cases t <;> simp only [ITy.convert] <;> rng <;> (try split) <;> omega

theorem convert_id (t : ITy) (x : Int) (h : t.inRange x = true) : t.convert x = x := by
  cases t <;> simp only [ITy.convert] <;> rng <;> (try split) <;> omega

theorem inRange_wide (t : ITy) (x : Int) (h : t.inRange x = true) :
    -9223372036854775808 ≤ x ∧ x ≤ 18446744073709551615 := by
  cases t <;> rng <;> omega

theorem img_toInt (x : Int) (h1 : -9223372036854775808 ≤ x) (h2 : x ≤ 9223372036854775807) : (img x).toInt = x := by
  apply BitVec.toInt_ofInt_eq_self (by decide) <;> simp <;> omega

theorem img_toNat (x : Int) (h1 : 0 ≤ x) (h2 : x ≤ 18446744073709551615) : ((img x).toNat : Int) = x := by
  simp only [img, BitVec.toNat_ofInt]
  have : ((2 ^ 64 : Nat) : Int) = 18446744073709551616 := by decide
  rw [this]; omega

theorem img_eq_zero_iff (x : Int) (h1 : -9223372036854775808 ≤ x) (h2 : x ≤ 18446744073709551615) :
    img x = 0#64 ↔ x = 0 := by
  constructor
  · intro h
    have := congrArg BitVec.toNat h
    simp only [img, BitVec.toNat_ofInt, BitVec.toNat_ofNat] at this
    have e : ((2 ^ 64 : Nat) : Int) = 18446744073709551616 := by decide
    rw [e] at this
    omega
  · intro h; subst h; rfl

/-! ## Typing of the elaborated tree -/

theorem descr_not_flonum (t : ITy) : isFlonum (descr t) = false := by cases t <;> rfl
theorem descr_integer (t : ITy) : isInteger (descr t) = true := by cases t <;> rfl

theorem gct_descr (a b : ITy) : getCommonType (descr a) (descr b) = descr (ITy.common a b) := by
  cases a <;> cases b <;> rfl

theorem gct_int (a : ITy) : getCommonType tyInt (descr a) = descr a.promote := by
  cases a <;> rfl

theorem common_promote (a : ITy) : ITy.common .i32 a = a.promote := by cases a <;> rfl

@[simp] theorem nodeTy_mk (k : NodeKind) (ty : CTy) (v : BitVec 64) (a b c d e : CNode) : nodeTy (.mk k ty v a b c d e) = ty := rfl

theorem elab_ty (e : CExpr) : nodeTy (elabE e) = descr (typeOf e) := by
  induction e with
  | lit t v => rfl
  | un op e ih =>
    cases op with
    | neg => simp only [elabE, mkPromoted, nodeTy_mk, typeOf, ih, gct_int]
    | bitnot => simp only [elabE, mkPromoted, nodeTy_mk, typeOf, ih, gct_int]
    | lognot => rfl
    | plus =>
      simp only [elabE, typeOf]
      generalize elabE e = n at ih ⊢
      generalize typeOf e = t at ih ⊢
      cases t <;> simp [ih, descr, isInteger, mkCast, un, tyInt, ITy.promote]
  | bin op a b iha ihb =>
    cases op <;> simp only [elabE, mkArith, mkCompare, mkPromoted, bin, mkCast, un, nodeTy_mk, typeOf, iha, ihb, gct_descr, gct_int] <;> rfl
  | land a b _ _ => rfl
  | lor a b _ _ => rfl
  | cond c a b _ iha ihb => simp only [elabE, nodeTy_mk, typeOf, iha, ihb, gct_descr]
  | cast t e _ => rfl

/-! ## Casts -/

/-- a node that evaluates is not NULL, so `node->ty` succeeds -/
theorem tyOf_of_eval {h : HostMode} {fp : FpEnv} {n : CNode} {l : Bool} {v : BitVec 64}
    (hn : eval2 h fp n l = .ok v) : CNode.tyOf n = .ok (nodeTy n) := by
  cases n with
  | null => rw [eval2_null] at hn; cases hn
  | mk => rfl

theorem b2i_castS (b : Bool) : castS 64 (b2i b) = img (b2z b) := by cases b <;> decide

theorem wrap_bool01 (b : Bool) : wrapTy (descr .bool) (img (b2z b)) = img (b2z b) := by cases b <;> decide

theorem wrap_int01 (b : Bool) : wrapTy tyInt (img (b2z b)) = img (b2z b) := by cases b <;> decide

/-- **ND_CAST**: casting a node whose value is the image of `x` yields the image of the C11 conversion -/
theorem eval2_mkCast (fp : FpEnv) (n : CNode) (t : ITy) (x : Int) (label : Bool)
    (hn : eval2 .wrapping fp n label = .ok (img x))
    (hx : -9223372036854775808 ≤ x ∧ x ≤ 18446744073709551615)
    (hnf : isFlonum (nodeTy n) = false) :
    eval2 .wrapping fp (mkCast n (descr t)) label = .ok (img (t.convert x)) := by
  simp only [mkCast, un]
  rw [eval2_CAST _ _ _ _ _ _ _ _ _ _ (descr_not_flonum t)]
  by_cases hb : t = .bool
  · subst hb
    have hz := img_eq_zero_iff x hx.1 hx.2
    simp only [descr, tyOf_of_eval hn, hnf, hn, bind, Except.bind, pure, Except.pure]
    simp only [show (TypeKind.TY_BOOL == TypeKind.TY_BOOL) = true from rfl, ite_true, Bool.false_eq_true, ite_false]
    have : (img x != 0#64) = (x != 0) := by
      rw [Bool.eq_iff_iff]; simp only [bne_iff_ne, ne_eq]; exact not_congr hz
    rw [this, b2i_castS]
    have : ITy.convert .bool x = b2z (x != 0) := by
      simp only [ITy.convert, b2z]; by_cases h0 : x = 0 <;> simp [h0]
    rw [this]
    exact congrArg Except.ok (wrap_bool01 _)
  · have hk : ((descr t).kind == TypeKind.TY_BOOL) = false := by cases t <;> first | rfl | exact absurd rfl hb
    simp only [hk, Bool.false_eq_true, ite_false, hn, bind, Except.bind, pure, Except.pure]
    exact congrArg Except.ok (wrap_convert t hb x)

end ChibiVerif.ConstEvalLemmas
