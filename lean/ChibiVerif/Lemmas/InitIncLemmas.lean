/-
C05, parser = specification: arrays of unknown bound.

The parser sizes the array before it parses it (`count_array_init_elements`, a dry run on a dummy tree), the
specification lets the array grow with every initializer.  `incLoop` runs `array_initializer1`'s loop, the counting loop and the
specification's list in lockstep: the specification's array is always a prefix of the parser's, everything behind it is still
zero, its length is the running maximum of the count - so at the end of the list the two arrays are equal and the count is
exactly the largest index written plus one (6.7.9p22).
-/
import ChibiVerif.Lemmas.InitTopLemmas
import ChibiVerif.Lemmas.InitEraseLemmas

namespace ChibiVerif.InitSpec
open ChibiVerif.Init

/-! ### trees of one type have one skeleton -/

mutual
  theorem erase_shaped : ∀ (t : Ty) (c : Init), subOk t = true → shaped t c = true → erase c = newInit t false
    | .scalar _ _, .leaf e, _, _ => by simp [erase, newInit]
    | .array e n, .arr cs, ho, hs => by
      simp only [shaped, Bool.and_eq_true, beq_iff_eq] at hs
      simp only [subOk] at ho
      have := eraseL_shaped e cs ho hs.2
      rw [erase, this, newInit, hs.1]
    | .struct ms _ fl, .struct e cs, ho, hs => by
      simp only [shaped] at hs
      simp only [subOk, Bool.and_eq_true] at ho
      rw [erase, eraseMs_shaped ms cs ho.2 hs]
      simp [newInit]
    | .union ms _ fl, .union e m cs, ho, hs => by
      simp only [shaped, Bool.and_eq_true] at hs
      simp only [subOk, Bool.and_eq_true] at ho
      rw [erase, eraseMs_shaped ms cs ho.1.2 hs.1]
      simp [newInit]
    | .inc _, _, ho, _ => by simp [subOk] at ho
    | .scalar _ _, .arr _, _, hs => by simp [shaped] at hs
    | .scalar _ _, .flex, _, hs => by simp [shaped] at hs
    | .scalar _ _, .struct _ _, _, hs => by simp [shaped] at hs
    | .scalar _ _, .union _ _ _, _, hs => by simp [shaped] at hs
    | .array _ _, .leaf _, _, hs => by simp [shaped] at hs
    | .array _ _, .flex, _, hs => by simp [shaped] at hs
    | .array _ _, .struct _ _, _, hs => by simp [shaped] at hs
    | .array _ _, .union _ _ _, _, hs => by simp [shaped] at hs
    | .struct _ _ _, .leaf _, _, hs => by simp [shaped] at hs
    | .struct _ _ _, .flex, _, hs => by simp [shaped] at hs
    | .struct _ _ _, .arr _, _, hs => by simp [shaped] at hs
    | .struct _ _ _, .union _ _ _, _, hs => by simp [shaped] at hs
    | .union _ _ _, .leaf _, _, hs => by simp [shaped] at hs
    | .union _ _ _, .flex, _, hs => by simp [shaped] at hs
    | .union _ _ _, .arr _, _, hs => by simp [shaped] at hs
    | .union _ _ _, .struct _ _, _, hs => by simp [shaped] at hs
  theorem eraseL_shaped : ∀ (e : Ty) (cs : List Init), subOk e = true → shapedAll e cs = true →
      eraseL cs = List.replicate cs.length (newInit e false)
    | _, [], _, _ => rfl
    | e, c :: cs, ho, hs => by
      simp only [shapedAll, Bool.and_eq_true] at hs
      rw [eraseL, erase_shaped e c ho hs.1, eraseL_shaped e cs ho hs.2]
      rfl
  theorem eraseMs_shaped : ∀ (ms : Members) (cs : List Init), subOkMs ms = true → shapedMs ms cs = true →
      eraseL cs = newInitMs ms false
    | [], [], _, _ => rfl
    | [], _ :: _, _, hs => by simp [shapedMs] at hs
    | _ :: _, [], _, hs => by simp [shapedMs] at hs
    | (mi, t) :: ms, c :: cs, ho, hs => by
      simp only [shapedMs, Bool.and_eq_true] at hs
      simp only [subOkMs, Bool.and_eq_true] at ho
      rw [eraseL, erase_shaped t c ho.1 hs.1, eraseMs_shaped ms cs ho.2 hs.2, newInitMs_cons_false]
end

theorem sm_of_shaped {t : Ty} {c1 c2 : Init} (ho : subOk t = true) (h1 : shaped t c1 = true) (h2 : shaped t c2 = true) :
    Sm c1 c2 := by
  rw [Sm, erase_shaped t c1 ho h1, erase_shaped t c2 ho h2]

/-! ### a subobject without any expression is invisible to the region tests -/

theorem pristine : ∀ (q : List Nat) (c : Init), hasExpr c = false →
    touched c q = false ∧ switchesUnion c q = false ∧ exprAbove c q = false
  | [], c, h => by
    refine ⟨by rw [touched]; exact h, by rw [switchesUnion], by rw [exprAbove]⟩
  | k :: q, c, h => by
    have hagg : hasAggExpr c = false := by
      cases c with
      | struct e cs => cases e <;> simp_all [hasExpr, hasAggExpr]
      | union e m cs => cases e <;> simp_all [hasExpr, hasAggExpr]
      | _ => rfl
    have hnu : ∀ e m cs, c ≠ .union e (some m) cs := by
      intro e m cs hc; subst hc; simp [hasExpr] at h
    cases hk : c.children[k]? with
    | none =>
      refine ⟨?_, ?_, ?_⟩
      · rw [touched]
        · simp [hk]
        · intro e m cs hc; exact hnu e m cs hc
      · rw [switchesUnion]
        · simp [hk]
        · intro e m cs hc; exact hnu e m cs hc
      · rw [exprAbove]; simp [hk, hagg]
    | some ck =>
      have hck : hasExpr ck = false := by
        have hl : hasExprList c.children = false := by
          cases c <;> simp_all [hasExpr, Init.children, hasExprList]
        exact (hasExprList_false_iff _).mp hl ck (List.mem_of_getElem? hk)
      obtain ⟨h1, h2, h3⟩ := pristine q ck hck
      exact ⟨by rw [touched_other q hk hnu]; exact h1, by rw [switchesUnion_other q hk hnu]; exact h2,
        by rw [exprAbove_cons q hk, hagg, h3]; rfl⟩


/-! ### growing the specification's array in advance changes nothing -/

/-- what `modifyAt` makes of the children of an array of unknown bound before it writes element `i` -/
def padI (xs : List Init) (i : Nat) (z : Init) : List Init :=
  if i < xs.length then xs else xs ++ List.replicate (i + 1 - xs.length) z

theorem padI_length_gt (xs : List Init) (i : Nat) (z : Init) : i < (padI xs i z).length := by
  unfold padI; split
  · assumption
  · simp; omega

theorem padI_idem (xs : List Init) (i : Nat) (z : Init) : padI (padI xs i z) i z = padI xs i z := by
  have := padI_length_gt xs i z
  generalize padI xs i z = ys at this ⊢
  simp [padI, this]

theorem padI_getElem? (xs : List Init) (i : Nat) (z : Init) (j : Nat) :
    (padI xs i z)[j]? = if j < xs.length then xs[j]? else if j ≤ i then some z else none := by
  unfold padI
  split
  · rename_i h
    split
    · rfl
    · rename_i h2
      have : ¬ j ≤ i := by omega
      simp [this]; omega
  · rename_i h
    split
    · rename_i h2; rw [List.getElem?_append_left h2]
    · rename_i h2
      rw [List.getElem?_append_right (by omega)]
      split
      · rw [List.getElem?_replicate]; simp; omega
      · rw [List.getElem?_replicate]; simp; omega

/-- the region tests do not see the padding -/
theorem pad_tests (xs : List Init) (i : Nat) (z : Init) (hz : hasExpr z = false) (s : List Nat) :
    touched (.arr xs) (i :: s) = touched (.arr (padI xs i z)) (i :: s) ∧
    switchesUnion (.arr xs) (i :: s) = switchesUnion (.arr (padI xs i z)) (i :: s) ∧
    exprAbove (.arr xs) (i :: s) = exprAbove (.arr (padI xs i z)) (i :: s) := by
  have hnu1 : ∀ e m cs, Init.arr xs ≠ .union e (some m) cs := by intro e m cs h; cases h
  have hnu2 : ∀ e m cs, Init.arr (padI xs i z) ≠ .union e (some m) cs := by intro e m cs h; cases h
  by_cases hi : i < xs.length
  · have : padI xs i z = xs := by simp [padI, hi]
    rw [this]; exact ⟨rfl, rfl, rfl⟩
  · have h1 : (Init.arr xs).children[i]? = none := by simp [Init.children]; omega
    have h2 : (Init.arr (padI xs i z)).children[i]? = some z := by
      simp only [Init.children, padI_getElem?, hi, ↓reduceIte, Nat.le_refl]
    obtain ⟨p1, p2, p3⟩ := pristine s z hz
    refine ⟨?_, ?_, ?_⟩
    · rw [touched_other s h2 hnu2, p1, touched]
      · simp [h1]
      · intro e m cs h; cases h
    · rw [switchesUnion_other s h2 hnu2, p2, switchesUnion]
      · simp [h1]
      · intro e m cs h; cases h
    · rw [exprAbove_cons s h2, p3, exprAbove]; simp [h1, hasAggExpr]

theorem modifyAt_pad (root : Ty) (top : Bool) (f : Ty → Init → Except Fail Init) (e : Ty) (done : List Nat) (i : Nat) (s : List Nat)
    (xs : List Init) :
    modifyAt root top f (.inc e) done (i :: s) (.arr xs) =
      modifyAt root top f (.inc e) done (i :: s) (.arr (padI xs i (zeroOf e))) := by
  conv => lhs; unfold modifyAt
  conv => rhs; unfold modifyAt
  simp only
  have h1 : (if i < xs.length then xs else xs ++ List.replicate (i + 1 - xs.length) (zeroOf e)) = padI xs i (zeroOf e) := rfl
  have h2 : (if i < (padI xs i (zeroOf e)).length then padI xs i (zeroOf e)
      else padI xs i (zeroOf e) ++ List.replicate (i + 1 - (padI xs i (zeroOf e)).length) (zeroOf e)) = padI xs i (zeroOf e) :=
    padI_idem xs i (zeroOf e)
  rw [h1, h2]


theorem hasExpr_zeroOf (t : Ty) : hasExpr (zeroOf t) = false := hasExpr_newInit t false

theorem growable_inc_cons (e : Ty) (top : Bool) (i : Nat) (s : List Nat) : growable (.inc e) top (i :: s) = false := by
  simp [growable]

theorem any_congr' {α : Type} {l : List α} {f g : α → Bool} (h : ∀ a ∈ l, f a = g a) : l.any f = l.any g := by
  induction l with
  | nil => rfl
  | cons a l ih =>
    simp only [List.any_cons]
    rw [h a (by simp), ih (fun b hb => h b (by simp [hb]))]

/-- one initializer for subobjects of element `i` of an array of unknown bound: the array may be grown first -/
theorem pregrow_item (g : Nat) (e : Ty) (top : Bool) (xs : List Init) (i : Nat) (paths : List (List Nat))
    (hne : paths ≠ []) (hp : ∀ q ∈ paths, ∃ s, q = i :: s) (toks : List ITok) (fl : Flags) :
    initItem g (.inc e) top (.arr xs) paths toks fl =
      initItem g (.inc e) top (.arr (padI xs i (zeroOf e))) paths toks fl := by
  have hz := hasExpr_zeroOf e
  cases paths with
  | nil => exact absurd rfl hne
  | cons p0 rest =>
  obtain ⟨q0, rfl⟩ := hp p0 (by simp)
  have hfold : ∀ (f : List Nat → Ty → Init → Except Fail Init) (ps : List (List Nat)), (∀ q ∈ ps, ∃ s, q = i :: s) → ps ≠ [] →
      ps.foldlM (fun o P => modifyAt (.inc e) top (f P) (.inc e) [] P o) (.arr xs) =
      ps.foldlM (fun o P => modifyAt (.inc e) top (f P) (.inc e) [] P o) (.arr (padI xs i (zeroOf e))) := by
    intro f ps hps hne'
    cases ps with
    | nil => exact absurd rfl hne'
    | cons P ps' =>
      obtain ⟨s, rfl⟩ := hps P (by simp)
      rw [List.foldlM_cons, List.foldlM_cons, modifyAt_pad]
  have nob : ∀ (tok : ITok) (r : List ITok), tok ≠ .lbrace →
      initItem g (.inc e) top (.arr xs) ((i :: q0) :: rest) (tok :: r) fl =
        initItem g (.inc e) top (.arr (padI xs i (zeroOf e))) ((i :: q0) :: rest) (tok :: r) fl := by
    intro tok r hb
    rw [initItem_tok_multi _ _ _ _ _ _ _ _ _ hb, initItem_tok_multi _ _ _ _ _ _ _ _ _ hb]
    cases hd : ((i :: q0) :: rest).mapM (fun p => descend (.inc e) top tok (p.length + (Ty.inc e).nodes + 2) p) with
    | error err => rfl
    | ok targets =>
      have htg : ∀ q ∈ targets, ∃ s, q = i :: s := by
        have key : ∀ (ps ts : List (List Nat)), (∀ q ∈ ps, ∃ s, q = i :: s) →
            ps.mapM (fun p => descend (.inc e) top tok (p.length + (Ty.inc e).nodes + 2) p) = .ok ts → ∀ q ∈ ts, ∃ s, q = i :: s := by
          intro ps
          induction ps with
          | nil => intro ts _ h; simp [List.mapM_nil, pure, Except.pure] at h; subst h; simp
          | cons P ps' ih =>
            intro ts hps h
            obtain ⟨t0, ts', h0, h1, rfl⟩ := mapM_cons_ok h
            obtain ⟨s, rfl⟩ := hps P (by simp)
            obtain ⟨s', rfl⟩ := descend_prefix _ _ _ _ _ _ h0
            intro q hq
            simp only [List.mem_cons] at hq
            rcases hq with rfl | hq
            · exact ⟨s ++ s', rfl⟩
            · exact ih ts' (fun q' hq' => hps q' (by simp [hq'])) h1 q hq
        exact key _ _ hp hd
      have htne : targets ≠ [] := by
        obtain ⟨t0, ts', _, _, rfl⟩ := mapM_cons_ok hd
        simp
      simp only [ok_bind]
      have h1 : targets.any (nonScalarTouched (.inc e) (.arr xs)) =
          targets.any (nonScalarTouched (.inc e) (.arr (padI xs i (zeroOf e)))) :=
        any_congr' (fun q hq => by
          obtain ⟨s, rfl⟩ := htg q hq
          simp only [nonScalarTouched]
          rw [(pad_tests xs i (zeroOf e) hz s).1])
      have h2 : targets.any (switchesUnion (.arr xs)) = targets.any (switchesUnion (.arr (padI xs i (zeroOf e)))) :=
        any_congr' (fun q hq => by obtain ⟨s, rfl⟩ := htg q hq; exact (pad_tests xs i (zeroOf e) hz s).2.1)
      have h3 : targets.any (exprAbove (.arr xs)) = targets.any (exprAbove (.arr (padI xs i (zeroOf e)))) :=
        any_congr' (fun q hq => by obtain ⟨s, rfl⟩ := htg q hq; exact (pad_tests xs i (zeroOf e) hz s).2.2)
      rw [← h1, ← h2, ← h3, hfold (fun P => storeTok (.inc e) top tok P) _ htg htne]
  cases toks with
  | nil => rfl
  | cons tok r =>
    by_cases hb : tok = .lbrace
    · subst hb
      cases hsub : subTy (.inc e) (i :: q0) with
      | none => unfold initItem initItemWith initTokWith; simp only [hsub]; rfl
      | some t =>
        cases hbl : bracedLit t r with
        | some tr =>
          obtain ⟨tok1, r1⟩ := tr
          rw [initItem_bracedLit _ _ _ _ _ _ _ _ hsub (growable_inc_cons e top i q0) hbl,
            initItem_bracedLit _ _ _ _ _ _ _ _ hsub (growable_inc_cons e top i q0) hbl]
          exact nob tok1 r1 (bracedLit_stops hbl).2
        | none =>
        rw [initItem_brace_multi _ _ _ _ _ _ _ _ hsub (growable_inc_cons e top i q0) hbl,
          initItem_brace_multi _ _ _ _ _ _ _ _ hsub (growable_inc_cons e top i q0) hbl]
        have h1 : ((i :: q0) :: rest).any (touched (.arr xs)) = ((i :: q0) :: rest).any (touched (.arr (padI xs i (zeroOf e)))) :=
          any_congr' (fun q hq => by obtain ⟨s, rfl⟩ := hp q hq; exact (pad_tests xs i (zeroOf e) hz s).1)
        have h3 : ((i :: q0) :: rest).any (exprAbove (.arr xs)) = ((i :: q0) :: rest).any (exprAbove (.arr (padI xs i (zeroOf e)))) :=
          any_congr' (fun q hq => by obtain ⟨s, rfl⟩ := hp q hq; exact (pad_tests xs i (zeroOf e) hz s).2.2)
        rw [← h1, ← h3]
        congr 1
        funext sub
        rw [hfold (fun _ _ _ => pure (defaultMember t (unflex sub.obj))) _ hp (by simp)]
    · exact nob tok r hb

/-- … and likewise when a designator list starting with `[i]` comes first -/
theorem pregrow_desg (g : Nat) (e : Ty) (top : Bool) (xs : List Init) (i : Nat) (d : Nat) (toks : List ITok) (fl : Flags) :
    afterDesg g (.inc e) top (.arr xs) fl (desigPaths (.inc e) top d [[i]] toks) =
      afterDesg g (.inc e) top (.arr (padI xs i (zeroOf e))) fl (desigPaths (.inc e) top d [[i]] toks) := by
  unfold afterDesg
  cases hd : desigPaths (.inc e) top d [[i]] toks with
  | error err => rfl
  | ok pt =>
    obtain ⟨ps, t⟩ := pt
    simp only [ok_bind]
    obtain ⟨h1, h2⟩ := desigPaths_inv _ _ _ _ _ _ _ hd
    exact pregrow_item g e top xs i ps (by intro h; simp [h] at h1)
      (fun q hq => by
        obtain ⟨p, hp, s, hs⟩ := h2 q hq
        simp only [List.mem_singleton] at hp
        subst hp
        exact ⟨s, by simpa using hs⟩) t fl

/-! ### lists -/

theorem take_pad {cs : List Init} {n i : Nat} {z : Init} (hn : n ≤ cs.length) (hi : i < cs.length)
    (hz : ∀ j, n ≤ j → j < cs.length → cs[j]? = some z) : padI (cs.take n) i z = cs.take (max n (i+1)) := by
  apply List.ext_getElem?
  intro j
  rw [padI_getElem?, List.getElem?_take, List.getElem?_take, List.length_take, Nat.min_eq_left hn]
  by_cases h1 : j < n
  · have : j < max n (i+1) := by omega
    simp only [h1, ↓reduceIte, this]
  · by_cases h2 : j ≤ i
    · have : j < max n (i+1) := by omega
      simp only [h1, ↓reduceIte, h2, this]
      exact (hz j (by omega) (by omega)).symm
    · have : ¬ j < max n (i+1) := by omega
      simp only [h1, ↓reduceIte, h2, this]

theorem take_set_comm (cs : List Init) (m i : Nat) (v : Init) : (cs.take m).set i v = (cs.set i v).take m :=
  List.take_set.symm

/-! ### the count -/

theorem countLoop_ge (elem : Ty) : ∀ (f : Nat) (toks : List ITok) (d : Init) (i mx : Int) (first : Bool) (N : Int),
    countLoop f elem toks d i mx first = .ok N → mx ≤ N
  | 0, _, _, _, _, _, _, h => by cases h
  | f+1, toks, d, i, mx, first, N, h => by
    rw [countLoop] at h
    cases hce : consumeEnd toks with
    | some r => simp only [hce] at h; cases h; exact Int.le_refl _
    | none =>
      simp only [hce] at h
      have key : ∀ (x : Except Fail (List ITok)), (x >>= fun toks1 =>
          ((match toks1 with
            | .idx a :: r => do
              let (d', t) ← Init.designation f elem r d
              pure (d', t, a)
            | .range _ b :: r => do
              let (d', t) ← Init.designation f elem r d
              pure (d', t, b)
            | _ => do
              let (d', t) ← Init.initializer2 f elem toks1 d
              pure (d', t, i) : Except Fail (Init × List ITok × Int)) >>= fun y =>
            countLoop f elem y.2.1 y.1 (y.2.2 + 1) (max mx (y.2.2 + 1)) false)) = .ok N → mx ≤ N := by
        intro x hx
        obtain ⟨toks1, _, hx⟩ := bind_eq_ok hx
        obtain ⟨y, _, hx⟩ := bind_eq_ok hx
        have := countLoop_ge elem f _ _ _ _ _ _ hx
        omega
      cases first
      · exact key (skipTok ITok.comma "," toks) h
      · exact key (pure toks) h


/-- one iteration of the counting loop -/
theorem countLoop_step {f2 : Nat} {elem : Ty} {toks toks1 : List ITok} {d : Init} {i mx N : Int} {first : Bool}
    (hce : consumeEnd toks = none) (hfirst : (if first = true then pure toks else skipTok ITok.comma "," toks) = .ok toks1)
    (h : countLoop (f2+1) elem toks d i mx first = .ok N) :
    (∃ a r d' t, toks1 = .idx a :: r ∧ Init.designation f2 elem r d = .ok (d', t) ∧
        countLoop f2 elem t d' (a + 1) (max mx (a + 1)) false = .ok N) ∨
    (∃ a b r d' t, toks1 = .range a b :: r ∧ Init.designation f2 elem r d = .ok (d', t) ∧
        countLoop f2 elem t d' (b + 1) (max mx (b + 1)) false = .ok N) ∨
    (isBracket toks1 = false ∧ ∃ d' t, Init.initializer2 f2 elem toks1 d = .ok (d', t) ∧
        countLoop f2 elem t d' (i + 1) (max mx (i + 1)) false = .ok N) := by
  rw [countLoop] at h
  simp only [hce] at h
  rw [ite_bind_pull, hfirst, ok_bind] at h
  obtain ⟨⟨d', t, k⟩, h1, h2⟩ := bind_eq_ok h
  simp only at h2
  split at h1
  · obtain ⟨⟨d'', t''⟩, h3, h4⟩ := bind_eq_ok h1
    cases h4
    exact Or.inl ⟨_, _, _, _, rfl, h3, h2⟩
  · obtain ⟨⟨d'', t''⟩, h3, h4⟩ := bind_eq_ok h1
    cases h4
    exact Or.inr (Or.inl ⟨_, _, _, _, _, rfl, h3, h2⟩)
  · rename_i hn1 hn2
    obtain ⟨⟨d'', t''⟩, h3, h4⟩ := bind_eq_ok h1
    cases h4
    refine Or.inr (Or.inr ⟨?_, _, _, h3, h2⟩)
    cases toks1 with
    | nil => rfl
    | cons tk r => cases tk <;> first | rfl | exact absurd rfl (hn1 _ _) | exact absurd rfl (hn2 _ _ _)

/-! ### a range over elements of an array of unknown bound -/

theorem modifyAt_inc_root (root : Ty) (top : Bool) (f : Ty → Init → Except Fail Init) (e : Ty) (j : Nat) (xs : List Init) :
    modifyAt root top f (.inc e) [] [j] (.arr xs) =
      (f e ((padI xs j (zeroOf e)).getD j (zeroOf e)) >>= fun v => pure (.arr ((padI xs j (zeroOf e)).set j v))) := by
  unfold modifyAt
  simp only
  have h1 : (if j < xs.length then xs else xs ++ List.replicate (j + 1 - xs.length) (zeroOf e)) = padI xs j (zeroOf e) := rfl
  rw [h1]
  unfold modifyAt
  rfl

theorem range_fold_inc {f : Nat} (elem : Ty) (top : Bool) (tok tokR : List ITok) (fP : List Nat → Ty → Init → Except Fail Init) :
    ∀ (js : List Nat) (cs : List Init) (n : Nat) (t0 : List ITok) (c1 : Init) (tok2 : List ITok),
    js.Nodup → (∀ j ∈ js, j < cs.length) → n ≤ cs.length →
    (∀ j, n ≤ j → j < cs.length → cs[j]? = some (zeroOf elem)) →
    (∀ j ∈ js, ∀ c v t, cs[j]? = some c → designation f elem tok c = .ok (v, t) →
      fP ([] ++ [j]) elem c = .ok v ∧ t = tokR ∧ shaped elem v = true) →
    shapedAll elem cs = true →
    js.foldlM (fun (acc : Init × List ITok) j => getChild acc.1.children j >>= fun c => designation f elem tok c >>= fun y =>
        (pure (acc.1.setChild j y.1, y.2) : Except Fail (Init × List ITok))) (.arr cs, t0) = .ok (c1, tok2) →
    ∃ csF, c1 = .arr csF ∧ csF.length = cs.length ∧
      (js.map (fun j => ([] : List Nat) ++ [j])).foldlM (fun o P => modifyAt (.inc elem) top (fP P) (.inc elem) [] P o) (.arr (cs.take n))
        = .ok (.arr (csF.take (js.foldl (fun m j => max m (j+1)) n))) ∧
      (∀ j, js.foldl (fun m j => max m (j+1)) n ≤ j → j < csF.length → csF[j]? = some (zeroOf elem)) ∧
      shapedAll elem csF = true ∧ (js ≠ [] → tok2 = tokR) ∧ (js = [] → tok2 = t0)
  | [], cs, n, t0, c1, tok2, _, _, _, hz, _, hall, hfold => by
    simp only [List.foldlM_nil, pure, Except.pure, Except.ok.injEq, Prod.mk.injEq] at hfold
    obtain ⟨rfl, rfl⟩ := hfold
    exact ⟨cs, rfl, rfl, rfl, hz, hall, by simp, fun _ => rfl⟩
  | j0 :: js', cs, n, t0, c1, tok2, hnd, hlt, hn, hz, hrel, hall, hfold => by
    rw [List.foldlM_cons] at hfold
    obtain ⟨⟨c1', t1⟩, hstep, hfold⟩ := bind_eq_ok hfold
    obtain ⟨c, hc, hstep⟩ := bind_eq_ok hstep
    obtain ⟨⟨v, t⟩, hd, hstep⟩ := bind_eq_ok hstep
    cases hstep
    have hk : cs[j0]? = some c := by have := getChild_ok hc; simpa [Init.children] using this
    obtain ⟨hf, ht, hsv⟩ := hrel j0 (by simp) c v t hk hd
    have hj0L : j0 < cs.length := hlt j0 (by simp)
    have hnd' : js'.Nodup := (List.nodup_cons.mp hnd).2
    have hj0 : j0 ∉ js' := (List.nodup_cons.mp hnd).1
    simp only [Init.setChild, Init.withChildren, Init.children] at hfold
    obtain ⟨csF, h1, h2, h3, h4, h5, h6, h7⟩ := range_fold_inc elem top tok tokR fP js' (cs.set j0 v) (max n (j0+1)) t c1 tok2 hnd'
      (fun j hj => by simp only [List.length_set]; exact hlt j (by simp [hj]))
      (by simp only [List.length_set]; omega)
      (fun j hj hjl => by
        simp only [List.length_set] at hjl
        rw [List.getElem?_set_ne (by omega)]
        exact hz j (by omega) hjl)
      (fun j hj c' v' t' hc' hd' => by
        have hne : j0 ≠ j := fun h => hj0 (h ▸ hj)
        rw [List.getElem?_set_ne hne] at hc'
        exact hrel j (by simp [hj]) c' v' t' hc' hd')
      (shapedAll_set elem cs j0 v hall hsv) hfold
    refine ⟨csF, h1, by rw [h2, List.length_set], ?_, h4, h5, fun _ => ?_, fun h => absurd h (List.cons_ne_nil _ _)⟩
    · simp only [List.nil_append] at hf h3 ⊢
      rw [List.map_cons, List.foldlM_cons, modifyAt_inc_root, take_pad hn hj0L hz]
      have hget : (cs.take (max n (j0+1))).getD j0 (zeroOf elem) = c := by
        rw [List.getD_eq_getElem?_getD, List.getElem?_take]
        have : j0 < max n (j0+1) := by omega
        simp [this, hk]
      rw [hget, hf, ok_bind]
      simp only [pure_bind', take_set_comm, List.foldl_cons]
      exact h3
    · by_cases hjs : js' = []
      · rw [h7 hjs]; exact ht
      · exact h6 hjs

theorem foldl_max_range : ∀ (m b n : Nat), (List.range' b m).foldl (fun k j => max k (j+1)) n = if m = 0 then n else max n (b + m)
  | 0, _, _ => rfl
  | m+1, b, n => by
    rw [List.range'_succ, List.foldl_cons, foldl_max_range m (b+1) (max n (b+1))]
    split
    · rename_i h; subst h; simp
    · simp; omega

/-- all per-element calls of a range loop stop where a call on any other tree of the element type stops -/
theorem rangeLoop_tok {f f2 : Nat} {elem : Ty} (hoe : subOk elem = true) (tok : List ITok) {d d' : Init} {t : List ITok}
    (hd : shaped elem d = true) (hdd : Init.designation f2 elem tok d = .ok (d', t)) :
    ∀ (js : List Nat) (cs : List Init) (t0 : List ITok) (c1 : Init) (tok2 : List ITok), js ≠ [] → shapedAll elem cs = true →
    js.foldlM (fun (acc : Init × List ITok) j => getChild acc.1.children j >>= fun c => designation f elem tok c >>= fun y =>
        (pure (acc.1.setChild j y.1, y.2) : Except Fail (Init × List ITok))) (.arr cs, t0) = .ok (c1, tok2) → t = tok2
  | [], _, _, _, _, h, _, _ => absurd rfl h
  | j0 :: js', cs, t0, c1, tok2, _, hall, hfold => by
    rw [List.foldlM_cons] at hfold
    obtain ⟨⟨c1', t1⟩, hstep, hfold⟩ := bind_eq_ok hfold
    obtain ⟨c, hc, hstep⟩ := bind_eq_ok hstep
    obtain ⟨⟨v, t'⟩, hdc, hstep⟩ := bind_eq_ok hstep
    cases hstep
    have hk : cs[j0]? = some c := by have := getChild_ok hc; simpa [Init.children] using this
    have hsc : shaped elem c = true := shapedAll_get elem cs j0 c hall hk
    obtain ⟨htt, _⟩ := consume_indep_desg (sm_of_shaped hoe hd hsc) hdd hdc
    subst htt
    have hsv : shaped elem v = true := ((sim_all f).desg (top := false) (At.root hoe hsc) hdc).1
    simp only [Init.setChild, Init.withChildren, Init.children] at hfold
    by_cases hjs : js' = []
    · subst hjs
      simp only [List.foldlM_nil, pure, Except.pure, Except.ok.injEq, Prod.mk.injEq] at hfold
      exact hfold.2
    · exact rangeLoop_tok hoe tok hd hdd js' (cs.set j0 v) t c1 tok2 hjs (shapedAll_set elem cs j0 v hall hsv) hfold

/-! ### the lockstep -/

theorem cursorIn_inc (e : Ty) (top : Bool) (i : Nat) : cursorIn (.inc e) top [] i = some [i] := by
  simp [cursorIn, subTy]

theorem desigPaths_dot_inc (e : Ty) (top : Bool) (d : Nat) (n : String) (r : List ITok) :
    ∃ err, desigPaths (.inc e) top d [[]] (.dot n :: r) = .error err := by
  cases d with
  | zero => exact ⟨_, rfl⟩
  | succ d => rw [desigPaths]; simp [headTy, subTy, findMember, Ty.isAgg]

theorem shapedAll_take (e : Ty) (cs : List Init) (n : Nat) (h : shapedAll e cs = true) : shapedAll e (cs.take n) = true := by
  rw [shapedAll_iff] at h ⊢
  intro c hc
  exact h c (List.mem_of_mem_take hc)

/-- the specification's object (a prefix of the parser's array) with element `i` materialised -/
theorem At.inc {e : Ty} {top : Bool} {cs : List Init} {m i : Nat} {ci : Init} (hoe : subOk e = true) (hall : shapedAll e cs = true)
    (hi : i < m) (hci : cs[i]? = some ci) : At (.inc e) top (.arr (cs.take m)) [i] e ci where
  rootOk := hoe
  topOk := fun h => by simp [isFlexRoot] at h
  pok := rfl
  shp := by simpa [shapedR, shaped] using shapedAll_take e cs m hall
  sub := by simp [subTy_one, childTy]
  get := by
    apply getAt_one
    simp only [Init.children, List.getElem?_take, hi, ↓reduceIte, hci]
  ok := hoe

theorem incLoop (elem : Ty) (hoe : subOk elem = true) (top : Bool) : ∀ (f f2 : Nat) (cs : List Init) (toks : List ITok) (i : Nat)
    (first : Bool) (c' : Init) (rest : List ITok) (d : Init) (mx N : Int) (n g : Nat) (fl : Flags) (res : Result),
    arrayInit1Loop f elem toks (.arr cs) i first = .ok (c', rest) →
    countLoop f2 elem toks d (i : Int) mx first = .ok N →
    shaped elem d = true → shapedAll elem cs = true →
    N ≤ (cs.length : Int) → mx = (n : Int) → n ≤ cs.length →
    (∀ j, n ≤ j → j < cs.length → cs[j]? = some (zeroOf elem)) →
    initList g (.inc elem) top (.arr (cs.take n)) (some [i]) toks first fl = .ok res → res.fl.clean = true →
    ∃ cs', c' = .arr cs' ∧ cs'.length = cs.length ∧ res.obj = .arr (cs'.take N.toNat) ∧ res.rest = rest ∧ res.fl = fl
  | 0, _, _, _, _, _, _, _, _, _, _, _, _, _, _, h, _, _, _, _, _, _, _, _, _ => by cases h
  | f+1, f2, cs, toks, i, first, c', rest, d, mx, N, n, g, fl, res, h, hcnt, hd, hall, hNL, hmx, hnL, hzero, hres, hcl => by
    have ih := sim_all f
    cases f2 with
    | zero => cases hcnt
    | succ f2 =>
    cases g with
    | zero => cases hres
    | succ g =>
    rw [arrayInit1Loop] at h
    cases hce : consumeEnd toks with
    | some rest0 =>
      rw [countLoop] at hcnt
      simp only [hce] at h hcnt
      cases h; cases hcnt
      rw [initList_end _ _ _ _ _ _ _ _ _ hce] at hres
      cases hres
      refine ⟨cs, rfl, rfl, ?_, rfl, rfl⟩
      subst hmx
      simp
    | none =>
      simp only [hce] at h
      rw [ite_bind_pull] at h
      obtain ⟨toks1, hfirst, h⟩ := bind_eq_ok h
      replace hres := initList_item_imp _ _ _ _ _ _ _ _ hce hres hcl
      rw [hfirst, ok_bind] at hres
      have hcs := countLoop_step hce hfirst hcnt
      clear hcnt
      -- one element, common to the positional and the designated case
      have step : ∀ (a : Nat) (ca ca' d' : Init) (t2 : List ITok) (g1 : Nat), a < cs.length → cs[a]? = some ca →
          shaped elem ca' = true → shaped elem d' = true →
          arrayInit1Loop f elem t2 ((Init.arr cs).setChild a ca') (a + 1) false = .ok (c', rest) →
          countLoop f2 elem t2 d' ((a : Int) + 1) (max mx ((a : Int) + 1)) false = .ok N →
          initList g1 (.inc elem) top (setAtM (.arr (cs.take (max n (a + 1)))) [a] ca') (next (.inc elem) top [a]) t2 false fl
            = .ok res →
          ∃ cs', c' = .arr cs' ∧ cs'.length = cs.length ∧ res.obj = .arr (cs'.take N.toNat) ∧ res.rest = rest ∧ res.fl = fl := by
        intro a ca ca' d' t2 g1 ha hca hsa hsd hloop hc hsp
        rw [setAtM_one_arr] at hsp
        simp only [Init.setChild, Init.withChildren, Init.children] at hsp hloop
        rw [take_set_comm] at hsp
        have hnx : next (.inc elem) top [a] = some [a + 1] := by
          have := next_snoc (.inc elem) top [] a
          simp only [List.reverse_nil] at this
          rw [this, cursorIn_inc]
        rw [hnx] at hsp
        have hcast : (max mx ((a : Int) + 1)) = ((max n (a + 1) : Nat) : Int) := by subst hmx; omega
        have := incLoop elem hoe top f f2 (cs.set a ca') t2 (a + 1) false c' rest d' (max mx ((a : Int) + 1)) N (max n (a + 1)) g1 fl res
          hloop (by simpa using hc) hsd (shapedAll_set elem cs a ca' hall hsa) (by simpa using hNL) hcast (by simp; omega)
          (fun j hj hjl => by
            simp only [List.length_set] at hjl
            rw [List.getElem?_set_ne (by omega)]
            exact hzero j (by omega) hjl)
          hsp hcl
        simpa using this
      split at h
      · -- `[a] …` / `[a ... b] …`
        rename_i hbr
        obtain ⟨⟨b, e, tok⟩, had, h⟩ := bind_eq_ok h
        obtain ⟨⟨c1, tok2⟩, hfold, h⟩ := bind_eq_ok h
        simp only at hfold h
        simp only [Init.children] at had
        have hdg : isDesg toks1 = true := by
          cases toks1 with
          | nil => simp [isBracket] at hbr
          | cons t r => cases t <;> simp [isBracket] at hbr <;> rfl
        simp only [pathsOf, hdg, ↓reduceIte] at hres
        have single : ∀ (a : Int) (d' : Init) (t : List ITok), 0 ≤ a → a < cs.length → b = a.toNat → e = a.toNat →
            Init.designation f2 elem tok d = .ok (d', t) →
            countLoop f2 elem t d' (a + 1) (max mx (a + 1)) false = .ok N →
            afterDesg g (.inc elem) top (.arr (cs.take n)) fl (desigPaths (.inc elem) top (tok.length + 1) [[a.toNat]] tok) = .ok res →
            ∃ cs', c' = .arr cs' ∧ cs'.length = cs.length ∧ res.obj = .arr (cs'.take N.toNat) ∧ res.rest = rest ∧ res.fl = fl := by
          intro a d' t h0 h1 hb he hdd hc hsp
          subst hb he
          rw [range'_one _ _ rfl] at hfold
          have hstep := foldlM_single hfold
          obtain ⟨ca, hca, hstep⟩ := bind_eq_ok hstep
          obtain ⟨⟨ca', t2⟩, hdsg, hstep⟩ := bind_eq_ok hstep
          cases hstep
          have hk : cs[a.toNat]? = some ca := getChild_ok hca
          have hlt : a.toNat < cs.length := by omega
          have hsp2 := hsp
          rw [pregrow_desg] at hsp2
          rw [take_pad hnL hlt hzero] at hsp2
          have hAt := At.inc (top := top) (m := max n (a.toNat + 1)) hoe hall (by omega) hk
          obtain ⟨hsa, himp⟩ := ih.desg (top := top) hAt hdsg
          obtain ⟨g1, h1'⟩ := himp g (tok.length + 1) fl
          have hsp3 := h1' res hsp2 hcl
          obtain ⟨htt, hsm⟩ := consume_indep_desg (sm_of_shaped hoe hd (hAt.shapedc)) hdd hdsg
          subst htt
          have hsd' : shaped elem d' = true := by
            have := (ind_all f2).designation elem tok d d (Sm.refl d)
            exact (sim_all f2).desg (top := top) (At.root hoe hd) hdd |>.1
          have ha' : ((a.toNat : Nat) : Int) = a := Int.toNat_of_nonneg h0
          exact step a.toNat ca ca' d' t g1 hlt hk hsa hsd' h (by rw [ha']; exact hc) hsp3
        rcases arrayDesignator_ok had with ⟨a, rfl, h0, h1, hb, he⟩ | ⟨a, a2, rfl, h0, h1, h2, hb, he⟩
        · obtain ⟨d', t, hdd, hc⟩ : ∃ d' t, Init.designation f2 elem tok d = .ok (d', t) ∧
              countLoop f2 elem t d' (a + 1) (max mx (a + 1)) false = .ok N := by
            rcases hcs with ⟨a', r, d', t, heq, h3, h4⟩ | ⟨a', b', r, d', t, heq, _, _⟩ | ⟨hnb, _⟩
            · cases heq; exact ⟨d', t, h3, h4⟩
            · cases heq
            · simp [isBracket] at hnb
          simp only [List.length_cons] at hres
          rw [desigPaths_idx_inc (p := []) _ _ rfl h0] at hres
          exact single a d' t h0 h1 hb he hdd hc hres
        · obtain ⟨d', t, hdd, hc⟩ : ∃ d' t, Init.designation f2 elem tok d = .ok (d', t) ∧
              countLoop f2 elem t d' (a2 + 1) (max mx (a2 + 1)) false = .ok N := by
            rcases hcs with ⟨a', r, d', t, heq, _, _⟩ | ⟨a', b', r, d', t, heq, h3, h4⟩ | ⟨hnb, _⟩
            · cases heq
            · cases heq; exact ⟨d', t, h3, h4⟩
            · simp [isBracket] at hnb
          simp only [List.length_cons] at hres
          rw [desigPaths_range_inc (p := []) _ _ rfl h0 h1] at hres
          by_cases heq : a2 = a
          · subst heq
            have : a2.toNat + 1 - a2.toNat = 1 := by omega
            simp only [this, List.range'_one, List.map_cons, List.map_nil, List.nil_append] at hres
            exact single a2 d' t h0 h2 hb he hdd hc hres
          · -- several elements: the initializer must initialise each of them as a whole
            subst hb he
            obtain ⟨m, hm⟩ : ∃ m, a2.toNat + 1 - a.toNat = m + 1 := ⟨a2.toNat - a.toNat, by omega⟩
            rw [hm] at hfold hres
            have hm1 : 1 ≤ m := by omega
            have hjs : ∀ j ∈ List.range' a.toNat (m+1), j < cs.length := by
              intro j hj; simp only [List.mem_range'] at hj; obtain ⟨i, hi, rfl⟩ := hj; omega
            have hz : hasExpr (zeroOf elem) = false := hasExpr_zeroOf elem
            have hchild : ∀ j ∈ List.range' a.toNat (m+1), ∃ c, cs[j]? = some c :=
              fun j hj => ⟨cs[j]'(hjs j hj), List.getElem?_eq_getElem _⟩
            have hnu : ∀ e m' cs', Init.arr (cs.take n) ≠ .union e (some m') cs' := by intro e m' cs' h; cases h
            obtain ⟨objF, hlist, csF, hc1, hlenF, hobjF, hzF, hallF⟩ := range_core (sim_all f) (root := .inc elem) (top := top)
              (obj := .arr (cs.take n)) (p := []) (cs := cs) hoe a.toNat m hm1
              (fun j _ => by simp [subTy_one, childTy])
              (fun j _ => by simp [growable])
              hchild
              (fun j hj c hc => shapedAll_get elem cs j c hall hc)
              (fun j hj c hc ht => by
                by_cases hjn : j < n
                · have hk : (Init.arr (cs.take n)).children[j]? = some c := by
                    simp only [Init.children, List.getElem?_take, hjn, ↓reduceIte, hc]
                  rw [List.nil_append, touched_other [] hk hnu, touched] at ht
                  exact ht
                · have := hzero j (by omega) (hjs j hj)
                  rw [hc] at this; cases this; exact hz)
              (fun j hj _ => by
                rw [List.nil_append]
                cases hk : (Init.arr (cs.take n)).children[j]? with
                | none => exact switchesUnion_nochild [] hk hnu
                | some ck => rw [switchesUnion_other [] hk hnu, switchesUnion])
              (some [a.toNat + m + 1])
              (by
                have := next_snoc (.inc elem) top [] (a.toNat + m)
                simp only [List.reverse_nil] at this
                rw [List.nil_append, List.reverse_singleton, this, cursorIn_inc])
              tok c1 tok2 hfold
              (fun objF => ∃ csF, c1 = .arr csF ∧ csF.length = cs.length ∧ objF = .arr (csF.take (max n (a.toNat + m + 1))) ∧
                (∀ j, max n (a.toNat + m + 1) ≤ j → j < csF.length → csF[j]? = some (zeroOf elem)) ∧ shapedAll elem csF = true)
              (fun fP tokR hrel hsw => by
                obtain ⟨csF, e1, e2, e3, e4, e5, e6, _⟩ := range_fold_inc elem top tok tokR fP (List.range' a.toNat (m+1)) cs n tok c1 tok2
                  (range'_nodup _ _) hjs hnL hzero hrel hall hfold
                rw [foldl_max_range] at e3 e4
                simp only [Nat.add_one_ne_zero, ↓reduceIte] at e3 e4
                exact ⟨_, e3, e6 (by simp), csF, e1, e2, by rw [Nat.add_assoc], by rwa [Nat.add_assoc], e5⟩)
              g (tok.length + 1) fl res hres hcl
            subst hc1
            have ht2 : t = tok2 := rangeLoop_tok hoe tok hd hdd _ cs tok _ tok2 (by simp) hall hfold
            subst ht2
            have hsd' : shaped elem d' = true := ((sim_all f2).desg (top := top) (At.root hoe hd) hdd).1
            have ha2 : ((a2.toNat : Nat) : Int) = a2 := Int.toNat_of_nonneg (by omega)
            have hidx : a.toNat + m + 1 = a2.toNat + 1 := by omega
            rw [hidx] at hlist hobjF hzF
            rw [hobjF] at hlist
            have hcast : (max mx (a2 + 1)) = ((max n (a2.toNat + 1) : Nat) : Int) := by subst hmx; omega
            have := incLoop elem hoe top f f2 csF t (a2.toNat + 1) false c' rest d' (max mx (a2 + 1)) N (max n (a2.toNat + 1)) g fl res
              h (by
                have hi : ((a2.toNat + 1 : Nat) : Int) = a2 + 1 := by omega
                rw [hi]; exact hc) hsd' hallF (by rw [hlenF]; exact hNL) hcast (by rw [hlenF]; omega) hzF hlist hcl
            obtain ⟨cs', g1, g2, g3, g4, g5⟩ := this
            exact ⟨cs', g1, by rw [g2, hlenF], g3, g4, g5⟩
      · rename_i hbr
        by_cases hdg : isDesg toks1 = true
        · exfalso
          rcases isDesg_cases hdg with hb | ⟨nm, r, rfl⟩
          · rw [hb] at hbr; exact hbr rfl
          · simp only [pathsOf, hdg, ↓reduceIte] at hres
            obtain ⟨err, he⟩ := desigPaths_dot_inc elem top ((ITok.dot nm :: r).length + 1) nm r
            rw [he] at hres; cases hres
        · -- positional: the count takes the same element
          obtain ⟨d', t, hdd, hc⟩ : ∃ d' t, Init.initializer2 f2 elem toks1 d = .ok (d', t) ∧
              countLoop f2 elem t d' ((i : Int) + 1) (max mx ((i : Int) + 1)) false = .ok N := by
            rcases hcs with ⟨a', r, d', t, heq, _, _⟩ | ⟨a', b', r, d', t, heq, _, _⟩ | ⟨_, d', t, h3, h4⟩
            · subst heq; simp [isBracket] at hbr
            · subst heq; simp [isBracket] at hbr
            · exact ⟨d', t, h3, h4⟩
          have hge := countLoop_ge elem _ _ _ _ _ _ _ hc
          have hil : i < cs.length := by omega
          simp only [Init.children, hil, ↓reduceIte] at h
          obtain ⟨ci, hci, h⟩ := bind_eq_ok h
          obtain ⟨⟨ci', toks2⟩, hinit, h⟩ := bind_eq_ok h
          simp only at h
          have hk : cs[i]? = some ci := getChild_ok hci
          simp only [pathsOf, hdg, Bool.false_eq_true, ↓reduceIte, pure_bind'] at hres
          rw [pregrow_item _ _ _ _ i [[i]] (by simp) (by intro q hq; simp at hq; exact ⟨[], hq⟩), take_pad hnL hil hzero] at hres
          have hAt := At.inc (top := top) (m := max n (i + 1)) hoe hall (by omega) hk
          obtain ⟨hsi, himp⟩ := ih.init2 (top := top) hAt hinit
          obtain ⟨g1, h1'⟩ := himp g fl
          have hsp3 := h1' res hres hcl
          obtain ⟨htt, _⟩ := consume_indep_init2 (sm_of_shaped hoe hd (hAt.shapedc)) hdd hinit
          subst htt
          have hsd' : shaped elem d' = true := ((sim_all f2).init2 (top := top) (At.root hoe hd) hdd).1
          exact step i ci ci' d' t g1 hil hk hsi hsd' h hc hsp3


/-! ### the declared object -/

theorem stringValue_none_eq (elem : Ty) (bytes : List Nat) (esz : Nat) :
    stringValue elem none bytes esz = stringValue elem (some (bytes.length / esz)) bytes esz := rfl

/-- `parse_spec_inc` for an initializer that does not start with `{` (p14: a string literal) -/
theorem parse_spec_inc_str {f : Nat} {elem : Ty} {tok : ITok} {r0 : List ITok} {c' : Init} {rest : List ITok} {r : Result}
    (hoe : subOk elem = true) (hb : tok ≠ .lbrace)
    (hp : initializer2 (f+1) (.inc elem) (tok :: r0) (newInit (.inc elem) true) = .ok (c', rest))
    (hs : initFull (.inc elem) (tok :: r0) = .ok r) : (c', rest).1 = r.obj ∧ (c', rest).2 = r.rest := by
  have hflex : newInit (.inc elem) true = .flex := rfl
  rw [hflex] at hp
  cases tok with
  | lbrace => exact absurd rfl hb
  | str id bytes esz =>
    unfold initFull at hs
    simp only at hs
    split at hs
    · rename_i hfit
      obtain ⟨v, hv, hs⟩ := bind_eq_ok hs
      cases hs
      have hint : elem.isInteger = true := by
        simp only [strFits, Bool.and_eq_true] at hfit; exact hfit.1
      rw [initializer2] at hp
      simp only [hint, ↓reduceIte] at hp
      have hp' : stringInitializer elem bytes esz r0 (newInit (.array elem (bytes.length / esz)) false) = .ok (c', rest) := by
        unfold stringInitializer at hp ⊢
        simpa [newInit] using hp
      have hz : shaped (.array elem (bytes.length / esz)) (newInit (.array elem (bytes.length / esz)) false) = true :=
        shaped_newInit _ (by simpa [subOk] using hoe)
      obtain ⟨h1, _, h3, _⟩ := stringInitializer_spec hz (hasExpr_newInit _ false) hint hp'
      simp only [storeTok] at hv
      rw [stringValue_none_eq, h3] at hv
      cases hv
      exact ⟨rfl, h1⟩
    · cases hs
  | _ => cases hs

/-- **parser = 6.7.9 for an array of unknown bound**; in particular the bound `count_array_init_elements` computes is the
    specification's (largest index with an initializer, plus one) -/
theorem parse_spec_inc {f : Nat} {elem : Ty} {toks : List ITok} {p : Init × List ITok} {r : Result} (hoe : subOk elem = true)
    (hp : initializer2 f (.inc elem) toks (newInit (.inc elem) true) = .ok p) (hs : initFull (.inc elem) toks = .ok r)
    (hc : r.fl.clean = true) : p.1 = r.obj ∧ p.2 = r.rest := by
  obtain ⟨c', rest⟩ := p
  have hflex : newInit (.inc elem) true = .flex := rfl
  rw [hflex] at hp
  cases f with
  | zero => cases hp
  | succ f =>
  cases toks with
  | nil => cases hs
  | cons tok r0 =>
    cases tok with
    | lbrace =>
      cases hbl : bracedLit (.inc elem) r0 with
      | some tr =>
        -- p14/p15: `char s[] = { "…" }` is `char s[] = "…"`
        obtain ⟨tok1, r1⟩ := tr
        rw [← hflex, init2_bracedLit_eq _ hbl] at hp
        rw [initFull_bracedLit hbl] at hs
        exact parse_spec_inc_str hoe (bracedLit_stops hbl).2 hp hs
      | none =>
      rw [initializer2_inc_brace_none _ (bracedStr_none_of_bracedLit rfl hbl)] at hp
      cases f with
      | zero => cases hp
      | succ f1 =>
      rw [arrayInit1] at hp
      simp only [skipTok, ↓reduceIte, ok_bind] at hp
      obtain ⟨c0, hcount, hloop⟩ := bind_eq_ok hp
      obtain ⟨len, hlen, hc0⟩ := bind_eq_ok hcount
      cases hc0
      cases f1 with
      | zero => cases hlen
      | succ f2 =>
      rw [countArrayInit] at hlen
      obtain ⟨N, hN, hlen⟩ := bind_eq_ok hlen
      cases hlen
      have hN0 : 0 ≤ N := countLoop_ge elem _ _ _ _ _ _ _ hN
      unfold initFull at hs
      simp only [hbl] at hs
      obtain ⟨res, hres, hs⟩ := bind_eq_ok hs
      cases hs
      have hstart : unflex (newInit (.inc elem) true) = .arr [] := rfl
      have hcur : firstCursor (.inc elem) = some [0] := rfl
      rw [hstart, hcur] at hres
      have hd : shaped elem (newInit elem true) = true := by rw [newInit_true_eq elem hoe]; exact shaped_newInit elem hoe
      have hall : shapedAll elem (List.replicate N.toNat (newInit elem false)) = true := by
        rw [shapedAll_iff]; intro c hcm; rw [List.eq_of_mem_replicate hcm]; exact shaped_newInit elem hoe
      simp only [newInit] at hloop
      obtain ⟨cs', h1, h2, h3, h4, h5⟩ := incLoop elem hoe true (f2+1) f2 (List.replicate N.toNat (newInit elem false)) r0 0 true c' rest
        (newInit elem true) 0 N 0 _ Flags.none res hloop (by simpa using hN) hd hall
        (by simp; omega) rfl (Nat.zero_le _)
        (fun j _ hj => by simp only [List.length_replicate] at hj; simp [hj, zeroOf])
        (by simpa using hres) hc
      simp only [List.length_replicate] at h2
      subst h1
      simp only
      rw [h3, ← h2, List.take_length]
      exact ⟨rfl, h4.symm⟩
    | str id bytes esz => exact parse_spec_inc_str hoe (by simp) (by rw [hflex]; exact hp) hs
    | _ => cases hs

/-- **parser = 6.7.9** for every covered declared type (`tyOk`) without flexible array member (with: Lemmas/InitFlexLemmas.lean) -/
theorem parse_spec_tyOk_noflex {f : Nat} {ty : Ty} {toks : List ITok} {p : Init × List ITok} {r : Result} (ho : tyOk ty = true)
    (hnf : isFlexRoot ty = false)
    (hp : initializer2 f ty toks (newInit ty true) = .ok p) (hs : initFull ty toks = .ok r) (hc : r.fl.clean = true) :
    p.1 = r.obj ∧ p.2 = r.rest := by
  cases ty with
  | inc e => exact parse_spec_inc (by simpa [tyOk] using ho) hp hs hc
  | scalar sz k => exact parse_spec_subOk (by simpa [tyOk] using ho) hp hs hc
  | array e n => exact parse_spec_subOk (by simpa [tyOk] using ho) hp hs hc
  | struct ms sz fl =>
    cases fl with
    | false => exact parse_spec_subOk (by simpa [tyOk] using ho) hp hs hc
    | true => simp [isFlexRoot] at hnf
  | union ms sz fl => exact parse_spec_subOk (by simpa [tyOk] using ho) hp hs hc


/-! ### `Init.beq` -/

mutual
  theorem beq_refl' : ∀ (a : Init), Init.beq a a = true
    | .leaf e => by simp [Init.beq]
    | .arr cs => by rw [Init.beq]; exact beqList_refl' cs
    | .flex => by simp [Init.beq]
    | .struct e cs => by rw [Init.beq]; simp [beqList_refl' cs]
    | .union e m cs => by rw [Init.beq]; simp [beqList_refl' cs]
  theorem beqList_refl' : ∀ (cs : List Init), Init.beqList cs cs = true
    | [] => by simp [Init.beqList]
    | c :: cs => by rw [Init.beqList]; simp [beq_refl' c, beqList_refl' cs]
end

end ChibiVerif.InitSpec
