/-
C03 × C01: the fuel of the abstract machine `execF` only bounds the recursion depth — an answer `done o σ'` obtained with some
fuel is the answer with any larger fuel (`execF_mono`, `execF_le`), so "terminates with outcome `o` and store `σ'`" does not
depend on the fuel and the outcome is unique (`execF_unique`).
-/
import ChibiVerif.Model.C03Fun

namespace ChibiVerif.C03Fun
open ChibiVerif.Spec.IntSpec

theorem execF_mono (R : ITy) : ∀ (n : Nat) (s : FStmt) (σ : Env) (o : Out) (σ' : Env),
    execF R n s σ = .done o σ' → execF R (n + 1) s σ = .done o σ' := by
  intro n
  induction n with
  | zero => intro s σ o σ' h; simp [execF] at h
  | succ n ih =>
    intro s σ o σ' h
    cases s with
    | skip => simpa [execF] using h
    | expr e => simpa [execF] using h
    | brk => simpa [execF] using h
    | cont => simpa [execF] using h
    | case_ lo hi s => rw [execF] at h ⊢; exact ih s σ o σ' h
    | default_ s => rw [execF] at h ⊢; exact ih s σ o σ' h
    | switch_ e body =>
      rw [execF] at h ⊢
      simp only at h ⊢
      cases ht : typeOf σ e with
      | none => simp [ht] at h
      | some t =>
        cases hv : evalE σ e with
        | none => simp [ht, hv] at h
        | some r =>
          obtain ⟨v, σ1⟩ := r
          simp only [ht, hv] at h ⊢
          by_cases hok : switchOK (promote t) body = true
          · simp only [hok, if_true] at h ⊢
            have run : ∀ rest : FStmt,
                (match execF R n rest σ1 with
                  | .done .brk σ2 => FRes.done .normal σ2
                  | r => r) = .done o σ' →
                (match execF R (n + 1) rest σ1 with
                  | .done .brk σ2 => FRes.done .normal σ2
                  | r => r) = .done o σ' := by
              intro rest hr
              cases hb : execF R n rest σ1 with
              | timeout => simp [hb] at hr
              | undef => simp [hb] at hr
              | unsupported => simp [hb] at hr
              | done ob σ2 =>
                rw [ih rest σ1 ob σ2 hb]
                simpa [hb] using hr
            cases hs : selectCase (promote t) v body with
            | some rest => simp only [hs] at h ⊢; exact run rest h
            | none =>
              simp only [hs] at h ⊢
              cases hd : selectDefault body with
              | some rest => simp only [hd] at h ⊢; exact run rest h
              | none => simpa [hd] using h
          · simp [hok] at h
    | ret e => simpa [execF] using h
    | seq a b =>
      rw [execF] at h ⊢
      cases ha : execF R n a σ with
      | timeout => simp [ha] at h
      | undef => simp [ha] at h
      | unsupported => simp [ha] at h
      | done oa σ1 =>
        rw [ih a σ oa σ1 ha]
        cases oa with
        | normal => simp only [ha] at h ⊢; exact ih b σ1 o σ' h
        | brk => simpa [ha] using h
        | cont => simpa [ha] using h
        | ret v => simpa [ha] using h
    | ifte c t f =>
      rw [execF] at h ⊢
      cases hv : evalE σ c with
      | none => simp [hv] at h
      | some r =>
        obtain ⟨v, σ1⟩ := r
        simp only [hv] at h ⊢
        by_cases hv0 : v = 0
        · simp only [hv0, ne_eq, not_true_eq_false, if_false] at h ⊢; exact ih f σ1 o σ' h
        · simp only [ne_eq, hv0, not_false_eq_true, if_true] at h ⊢; exact ih t σ1 o σ' h
    | for_ init c inc body =>
      cases init with
      | some i =>
        rw [execF] at h ⊢
        cases hv : evalE σ i with
        | none => simp [hv] at h
        | some r =>
          obtain ⟨v, σ0⟩ := r
          simp only [hv] at h ⊢
          exact ih _ σ0 o σ' h
      | none =>
        rw [execF] at h ⊢
        simp only at h ⊢
        cases hv : evalE σ c with
        | none => simp [hv] at h
        | some r =>
          obtain ⟨v, σ1⟩ := r
          simp only [hv] at h ⊢
          by_cases hv0 : v = 0
          · simpa [hv0] using h
          · simp only [hv0, if_false] at h ⊢
            cases hb : execF R n body σ1 with
            | timeout => simp [hb] at h
            | undef => simp [hb] at h
            | unsupported => simp [hb] at h
            | done ob σ2 =>
              rw [ih body σ1 ob σ2 hb]
              cases ob with
              | normal =>
                simp only [hb] at h ⊢
                cases hi : evalOpt σ2 inc with
                | none => simp [hi] at h
                | some σ3 => simp only [hi] at h ⊢; exact ih _ σ3 o σ' h
              | cont =>
                simp only [hb] at h ⊢
                cases hi : evalOpt σ2 inc with
                | none => simp [hi] at h
                | some σ3 => simp only [hi] at h ⊢; exact ih _ σ3 o σ' h
              | brk => simpa [hb] using h
              | ret w => simpa [hb] using h
    | doWhile body c =>
      rw [execF] at h ⊢
      simp only at h ⊢
      cases hb : execF R n body σ with
      | timeout => simp [hb] at h
      | undef => simp [hb] at h
      | unsupported => simp [hb] at h
      | done ob σ2 =>
        rw [ih body σ ob σ2 hb]
        cases ob with
        | normal =>
          simp only [hb] at h ⊢
          cases hv : evalE σ2 c with
          | none => simp [hv] at h
          | some r =>
            obtain ⟨v, σ3⟩ := r
            simp only [hv] at h ⊢
            by_cases hv0 : v = 0
            · simpa [hv0] using h
            · simp only [ne_eq, hv0, not_false_eq_true, if_true] at h ⊢; exact ih _ σ3 o σ' h
        | cont =>
          simp only [hb] at h ⊢
          cases hv : evalE σ2 c with
          | none => simp [hv] at h
          | some r =>
            obtain ⟨v, σ3⟩ := r
            simp only [hv] at h ⊢
            by_cases hv0 : v = 0
            · simpa [hv0] using h
            · simp only [ne_eq, hv0, not_false_eq_true, if_true] at h ⊢; exact ih _ σ3 o σ' h
        | brk => simpa [hb] using h
        | ret w => simpa [hb] using h

theorem execF_le (R : ITy) {n n' : Nat} (hn : n ≤ n') {s : FStmt} {σ σ' : Env} {o : Out}
    (h : execF R n s σ = .done o σ') : execF R n' s σ = .done o σ' := by
  induction hn with
  | refl => exact h
  | step _ ih => exact execF_mono R _ s σ o σ' ih

theorem execF_unique (R : ITy) {n1 n2 : Nat} {s : FStmt} {σ σ1 σ2 : Env} {o1 o2 : Out}
    (h1 : execF R n1 s σ = .done o1 σ1) (h2 : execF R n2 s σ = .done o2 σ2) : o1 = o2 ∧ σ1.vals = σ2.vals ∧ σ1.tys = σ2.tys := by
  have a := execF_le R (Nat.le_max_left n1 n2) h1
  have b := execF_le R (Nat.le_max_right n1 n2) h2
  rw [a] at b
  simp only [FRes.done.injEq] at b
  obtain ⟨rfl, rfl⟩ := b
  exact ⟨rfl, rfl, rfl⟩

end ChibiVerif.C03Fun
