/-
`subst` of the model against the phase-structured specification of C11 6.10.3.1–6.10.3.3 (property C09,
`C09_subst_spec_partial`).
-/
import ChibiVerif.Model.PP
import ChibiVerif.Spec.PPSpec
import ChibiVerif.Lemmas.PPLemmas

namespace ChibiVerif.PP
open ChibiVerif.Spec.PPSpec

/-! ## `#`: `quote_string(join_tokens(arg))` is the string of 6.10.3.2 when no `\` or `"` occurs outside literals -/

def escChars (cs : List Char) : List Char := cs.flatMap fun c => if c == '\\' || c == '"' then ['\\', c] else [c]

theorem escChars_append (a b : List Char) : escChars (a ++ b) = escChars a ++ escChars b := by
  simp [escChars, List.flatMap_append]

theorem escChars_id : ∀ (cs : List Char), (cs.any fun c => c == '\\' || c == '"') = false → escChars cs = cs := by
  intro cs
  induction cs with
  | nil => intro _; rfl
  | cons c r ih =>
    intro h
    simp only [List.any_cons, Bool.or_eq_false_iff] at h
    simp only [escChars, List.flatMap_cons] at ih ⊢
    have hc : (c == '\\' || c == '"') = false := by simpa using h.1
    rw [hc]
    simp only [Bool.false_eq_true, if_false, List.singleton_append, List.cons.injEq, true_and]
    exact ih h.2

theorem strPiece_toList {t : Tok} (h : strSafeTok t = true) : (strPiece t).toList = escChars t.text.toList := by
  unfold strPiece
  by_cases hk : (t.kind == .str || t.kind == .other) = true
  · simp [hk, escapeLit, escChars, String.toList_ofList]
  · have hk' : (t.kind == .str || t.kind == .other) = false := by simpa using hk
    simp only [hk', Bool.false_eq_true, if_false]
    unfold strSafeTok at h
    simp only [Bool.or_eq_false_iff] at hk'
    simp only [hk'.1, hk'.2, Bool.false_or, Bool.not_eq_true'] at h
    exact (escChars_id _ h).symm

theorem foldl_join_stringize : ∀ (ts : List Tok) (accJ accS : String),
    (∀ t ∈ ts, strSafeTok t = true) → accS.toList = escChars accJ.toList →
    (ts.foldl (fun acc u => acc ++ (if spaced u then " " else "") ++ strPiece u) accS).toList =
      escChars (ts.foldl (fun acc u => acc ++ (if u.hasSpace || u.atBol then " " else "") ++ u.text) accJ).toList := by
  intro ts
  induction ts with
  | nil => intro accJ accS _ h; simpa using h
  | cons u r ih =>
    intro accJ accS hs h
    simp only [List.foldl_cons]
    apply ih _ _ (fun t ht => hs t (by simp [ht]))
    simp only [String.toList_append, escChars_append, h, strPiece_toList (hs u (by simp)), spaced]
    congr 2
    by_cases hsp : (u.hasSpace || u.atBol) = true
    · simp [hsp, escChars]
    · simp [hsp, escChars]

/-- the model's `stringize` is the specification's, for arguments inside `StringizeLiteralSafe` -/
theorem stringize_eq_spec (hash : Tok) (arg : List Tok) (h : ∀ t ∈ arg, strSafeTok t = true) :
    (stringize hash arg).text = (stringizeSpec hash arg).text ∧ (stringize hash arg).kind = (stringizeSpec hash arg).kind := by
  refine ⟨?_, rfl⟩
  simp only [stringize, stringizeSpec, quoteString]
  have key : (stringizeText arg).toList = escChars (joinTokens arg).toList := by
    cases arg with
    | nil => simp [stringizeText, joinTokens, escChars]
    | cons t ts =>
      simp only [stringizeText, joinTokens]
      exact foldl_join_stringize ts t.text (strPiece t) (fun u hu => h u (by simp [hu]))
        (strPiece_toList (h t (by simp)))
  rw [← String.ofList_toList (s := "\"" ++ stringizeText arg ++ "\"")]
  congr 1
  simp only [String.toList_append, key, escChars]
  rfl

/-! ## `subst` with a pure pre-expander: the cache `arg->expanded` and the state disappear -/

/-- name, `is_va_args`, tokens -/
abbrev PArg := String × Bool × List Tok

def core (a : MacroArg) : PArg := (a.name, a.isVa, a.toks)

def findArgP (args : List PArg) (t : Option Tok) : Option PArg :=
  match t with
  | none => none
  | some t => args.find? (fun a => a.1 == t.text)

def hasVarargsP (args : List PArg) : Bool :=
  match args.find? (fun a => a.1 == ChibiVerif.Gen.PP.hasVarargsName) with
  | some a => !a.2.2.isEmpty
  | none => false

/-- `substLoop` when the pre-expander is the pure function `full` (same arms, same order) -/
def substPure (lx : String → LexOne) (full : List Tok → List Tok) (isObj : Bool) :
    Nat → List PArg → List Tok → List Tok → Except Err (List Tok)
  | _, _, [], acc => .ok acc.reverse
  | 0, _, _ :: _, _ => .error .fuel
  | n + 1, args, tok :: rest, acc =>
    if tok.text == "#" && !isObj then
      match findArgP args rest.head? with
      | none => .error .hashNotParam
      | some a => substPure lx full isObj n args (rest.drop 1) (stringize tok a.2.2 :: acc)
    else
    match (if tok.text == "," && textIs rest.head? "##" then (findArgP args (rest.drop 1).head?).filter (·.2.1) else none) with
    | some a =>
      if a.2.2.isEmpty then substPure lx full isObj n args (rest.drop 2) acc
      else substPure lx full isObj n args (rest.drop 1) (tok :: acc)
    | none =>
    if tok.text == "##" then
      match acc with
      | [] => .error .pasteAtStart
      | cur :: acc' =>
        match rest with
        | [] => .error .pasteAtEnd
        | nxt :: rest' =>
          match findArgP args (some nxt) with
          | some a =>
            match a.2.2 with
            | [] => substPure lx full isObj n args rest' acc
            | t0 :: ts =>
              match paste lx cur t0 with
              | .error e => .error e
              | .ok p => substPure lx full isObj n args rest' (ts.reverse ++ p :: acc')
          | none =>
            match paste lx cur nxt with
            | .error e => .error e
            | .ok p => substPure lx full isObj n args rest' (p :: acc')
    else
    match findArgP args (some tok) with
    | some a =>
      if textIs rest.head? "##" then
        match rest.drop 1 with
        | [] => .error .pasteAtEnd
        | rhs :: rest3 =>
          match a.2.2 with
          | [] =>
            match findArgP args (some rhs) with
            | some a2 => substPure lx full isObj n args rest3 (a2.2.2.reverse ++ acc)
            | none => substPure lx full isObj n args rest3 (rhs :: acc)
          | _ :: _ =>
            substPure lx full isObj n args rest ((setHeadFlags a.2.2 tok.atBol tok.hasSpace).reverse ++ acc)
      else
        substPure lx full isObj n args rest ((setHeadFlags (full a.2.2) tok.atBol tok.hasSpace).reverse ++ acc)
    | none =>
      if tok.text == "__VA_OPT__" && textIs rest.head? "(" then
        match readMacroArgOne true 0 (rest.drop 1) with
        | .error e => .error e
        | .ok (content, r) =>
          if hasVarargsP args then
            match substPure lx full false n args content [] with
            | .error e => .error e
            | .ok out => substPure lx full isObj n args (r.drop 1) (out.reverse ++ acc)
          else substPure lx full isObj n args (r.drop 1) acc
      else
        substPure lx full isObj n args rest (tok :: acc)

/-- every cached expansion is the pure expansion of the argument -/
def CacheOK (full : List Tok → List Tok) (args : List MacroArg) : Prop :=
  ∀ a ∈ args, a.expanded = none ∨ a.expanded = some (full a.toks)

theorem find_core (args : List MacroArg) (s : String) :
    (args.map core).find? (fun a => a.1 == s) = (args.find? (fun a => a.name == s)).map core := by
  induction args with
  | nil => rfl
  | cons a r ih =>
    simp only [List.map_cons, List.find?_cons]
    by_cases h : (a.name == s) = true
    · simp [core, h]
    · have h' : (a.name == s) = false := by simpa using h
      simp only [core, h'] at ih ⊢
      exact ih

theorem findArgP_core (args : List MacroArg) (t : Option Tok) :
    findArgP (args.map core) t = (findArg args t).map core := by
  cases t with
  | none => rfl
  | some t => simp only [findArgP, findArg, find_core]

theorem hasVarargsP_core (args : List MacroArg) : hasVarargsP (args.map core) = hasVarargs args := by
  simp only [hasVarargsP, hasVarargs, find_core]
  cases args.find? (fun a => a.name == ChibiVerif.Gen.PP.hasVarargsName) <;> simp [core]

theorem setExpanded_core : ∀ (args : List MacroArg) (n : String) (e : List Tok),
    (setExpanded args n e).map core = args.map core := by
  intro args
  induction args with
  | nil => intro n e; rfl
  | cons a r ih =>
    intro n e
    unfold setExpanded
    split
    · simp [core]
    · simp [ih]

theorem cacheOK_setExpanded {full : List Tok → List Tok} : ∀ {args : List MacroArg} {a : MacroArg},
    CacheOK full args → findArg args (some t) = some a → CacheOK full (setExpanded args a.name (full a.toks)) := by
  intro args
  induction args with
  | nil => intro a h _; simpa [setExpanded] using h
  | cons b r ih =>
    intro a h hf
    unfold setExpanded
    simp only [findArg, List.find?_cons] at hf
    by_cases hb : (b.name == t.text) = true
    · simp only [hb, Option.some.injEq] at hf
      subst hf
      simp only [beq_self_eq_true, if_true]
      intro x hx
      simp only [List.mem_cons] at hx
      rcases hx with rfl | hx
      · right; rfl
      · exact h x (by simp [hx])
    · simp only [hb] at hf
      have hne : (b.name == a.name) = false := by
        have := List.find?_some hf
        simp only [beq_iff_eq] at this
        simp only [beq_eq_false_iff_ne, ne_eq]
        intro heq
        exact hb (by simp [heq, this])
      simp only [hne, Bool.false_eq_true, if_false]
      intro x hx
      simp only [List.mem_cons] at hx
      rcases hx with rfl | hx
      · exact h x (by simp)
      · exact ih (fun y hy => h y (by simp [hy])) (by simpa [findArg] using hf) x hx

/-- the pre-expander of the theorem: a pure function of the argument's tokens -/
def purePP (full : List Tok → List Tok) : PreExpand := fun st ts => .ok (full ts, st)

/-- the model's answer and the pure loop's answer agree -/
def PureRes (full : List Tok → List Tok) (argsP : List PArg) (pureRes : Except Err (List Tok)) :
    Except Err (List Tok × List MacroArg × St) → Prop
  | .ok (out, args', _) => pureRes = .ok out ∧ CacheOK full args' ∧ args'.map core = argsP
  | .error e => pureRes = .error e

theorem substLoop_pure (lx : String → LexOne) (full : List Tok → List Tok) :
    ∀ (fuel : Nat) (isObj : Bool) (st : St) (args : List MacroArg) (body acc : List Tok), CacheOK full args →
      PureRes full (args.map core) (substPure lx full isObj fuel (args.map core) body acc)
        (substLoop lx (purePP full) isObj fuel st args body acc) := by
  intro fuel
  induction fuel with
  | zero =>
    intro isObj st args body acc hc
    cases body with
    | nil => simp [substLoop, substPure, PureRes, hc]
    | cons t r => simp [substLoop, substPure, PureRes]
  | succ n ih =>
    intro isObj st args body acc hc
    cases body with
    | nil => simp [substLoop, substPure, PureRes, hc]
    | cons tok rest =>
      unfold substLoop substPure
      simp only [findArgP_core, hasVarargsP_core]
      by_cases h1 : (tok.text == "#" && !isObj) = true
      · simp only [h1, if_true]
        cases hf : findArg args rest.head? with
        | none => simp [PureRes]
        | some a => simpa [core] using ih isObj st args (rest.drop 1) (stringize tok a.toks :: acc) hc
      · simp only [h1, Bool.false_eq_true, if_false]
        by_cases h2 : (tok.text == "," && textIs rest.head? "##") = true
        · simp only [h2, if_true]
          cases hf : findArg args (rest.drop 1).head? with
          | none => sorry
          | some a => sorry
        · sorry

end ChibiVerif.PP
