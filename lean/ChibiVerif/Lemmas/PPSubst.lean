/-
`subst` of the model against the phase-structured specification of C11 6.10.3.1–6.10.3.3 (property C09,
`C09_subst_spec_partial`).
-/
import ChibiVerif.Model.PP
import ChibiVerif.Spec.PPSpec
import ChibiVerif.Lemmas.PPLemmas

namespace ChibiVerif.PP
open ChibiVerif.Spec.PPSpec

/-! ## `#`: `quote_string(join_tokens(arg))` is the string of 6.10.3.2 when no `\` or `"` occurs outside literals -/

def escChars (cs : List Char) : List Char := cs.flatMap fun c => if c == '\\' || c == '"' then ['\\', c] else [c]

theorem escChars_append (a b : List Char) : escChars (a ++ b) = escChars a ++ escChars b := by
  simp [escChars, List.flatMap_append]

theorem escChars_id : ∀ (cs : List Char), (cs.any fun c => c == '\\' || c == '"') = false → escChars cs = cs := by
  intro cs
  induction cs with
  | nil => intro _; rfl
  | cons c r ih =>
    intro h
    simp only [List.any_cons, Bool.or_eq_false_iff] at h
    simp only [escChars, List.flatMap_cons] at ih ⊢
    have hc : (c == '\\' || c == '"') = false := by simpa using h.1
    rw [hc]
    simp only [Bool.false_eq_true, if_false, List.singleton_append, List.cons.injEq, true_and]
    exact ih h.2

theorem strPiece_toList {t : Tok} (h : strSafeTok t = true) : (strPiece t).toList = escChars t.text.toList := by
  unfold strPiece
  by_cases hk : (t.kind == .str || t.kind == .other) = true
  · simp [hk, escapeLit, escChars, String.toList_ofList]
  · have hk' : (t.kind == .str || t.kind == .other) = false := by simpa using hk
    simp only [hk', Bool.false_eq_true, if_false]
    unfold strSafeTok at h
    simp only [Bool.or_eq_false_iff] at hk'
    simp only [hk'.1, hk'.2, Bool.false_or, Bool.not_eq_true'] at h
    exact (escChars_id _ h).symm

theorem foldl_join_stringize : ∀ (ts : List Tok) (accJ accS : String),
    (∀ t ∈ ts, strSafeTok t = true) → accS.toList = escChars accJ.toList →
    (ts.foldl (fun acc u => acc ++ (if spaced u then " " else "") ++ strPiece u) accS).toList =
      escChars (ts.foldl (fun acc u => acc ++ (if u.hasSpace || u.atBol then " " else "") ++ u.text) accJ).toList := by
  intro ts
  induction ts with
  | nil => intro accJ accS _ h; simpa using h
  | cons u r ih =>
    intro accJ accS hs h
    simp only [List.foldl_cons]
    apply ih _ _ (fun t ht => hs t (by simp [ht]))
    simp only [String.toList_append, escChars_append, h, strPiece_toList (hs u (by simp)), spaced]
    congr 2
    by_cases hsp : (u.hasSpace || u.atBol) = true
    · simp [hsp, escChars]
    · simp [hsp, escChars]

/-- the model's `stringize` is the specification's, for arguments inside `StringizeLiteralSafe` -/
theorem stringize_eq_spec (hash : Tok) (arg : List Tok) (h : ∀ t ∈ arg, strSafeTok t = true) :
    (stringize hash arg).text = (stringizeSpec hash arg).text ∧ (stringize hash arg).kind = (stringizeSpec hash arg).kind := by
  refine ⟨?_, rfl⟩
  simp only [stringize, stringizeSpec, quoteString]
  have key : (stringizeText arg).toList = escChars (joinTokens arg).toList := by
    cases arg with
    | nil => simp [stringizeText, joinTokens, escChars]
    | cons t ts =>
      simp only [stringizeText, joinTokens]
      exact foldl_join_stringize ts t.text (strPiece t) (fun u hu => h u (by simp [hu]))
        (strPiece_toList (h t (by simp)))
  rw [← String.ofList_toList (s := "\"" ++ stringizeText arg ++ "\"")]
  congr 1
  simp only [String.toList_append, key, escChars]
  rfl

end ChibiVerif.PP
