/-
`subst` of the model against the phase-structured specification of C11 6.10.3.1–6.10.3.3 (property C09,
`C09_subst_spec_partial`).
-/
import ChibiVerif.Model.PP
import ChibiVerif.Spec.PPSpec
import ChibiVerif.Lemmas.PPLemmas

namespace ChibiVerif.PP
open ChibiVerif.Spec.PPSpec

/-! ## `#`: `quote_string(join_tokens(arg))` is the string of 6.10.3.2 when no `\` or `"` occurs outside literals -/

def escChars (cs : List Char) : List Char := cs.flatMap fun c => if c == '\\' || c == '"' then ['\\', c] else [c]

theorem escChars_append (a b : List Char) : escChars (a ++ b) = escChars a ++ escChars b := by
  simp [escChars, List.flatMap_append]

theorem escChars_id : ∀ (cs : List Char), (cs.any fun c => c == '\\' || c == '"') = false → escChars cs = cs := by
  intro cs
  induction cs with
  | nil => intro _; rfl
  | cons c r ih =>
    intro h
    simp only [List.any_cons, Bool.or_eq_false_iff] at h
    simp only [escChars, List.flatMap_cons] at ih ⊢
    have hc : (c == '\\' || c == '"') = false := by simpa using h.1
    rw [hc]
    simp only [Bool.false_eq_true, if_false, List.singleton_append, List.cons.injEq, true_and]
    exact ih h.2

theorem strPiece_toList {t : Tok} (h : strSafeTok t = true) : (strPiece t).toList = escChars t.text.toList := by
  unfold strPiece
  by_cases hk : (t.kind == .str || t.kind == .other) = true
  · simp [hk, escapeLit, escChars, String.toList_ofList]
  · have hk' : (t.kind == .str || t.kind == .other) = false := by simpa using hk
    simp only [hk', Bool.false_eq_true, if_false]
    unfold strSafeTok at h
    simp only [Bool.or_eq_false_iff] at hk'
    simp only [hk'.1, hk'.2, Bool.false_or, Bool.not_eq_true'] at h
    exact (escChars_id _ h).symm

theorem foldl_join_stringize : ∀ (ts : List Tok) (accJ accS : String),
    (∀ t ∈ ts, strSafeTok t = true) → accS.toList = escChars accJ.toList →
    (ts.foldl (fun acc u => acc ++ (if spaced u then " " else "") ++ strPiece u) accS).toList =
      escChars (ts.foldl (fun acc u => acc ++ (if u.hasSpace || u.atBol then " " else "") ++ u.text) accJ).toList := by
  intro ts
  induction ts with
  | nil => intro accJ accS _ h; simpa using h
  | cons u r ih =>
    intro accJ accS hs h
    simp only [List.foldl_cons]
    apply ih _ _ (fun t ht => hs t (by simp [ht]))
    simp only [String.toList_append, escChars_append, h, strPiece_toList (hs u (by simp)), spaced]
    congr 2
    by_cases hsp : (u.hasSpace || u.atBol) = true
    · simp [hsp, escChars]
    · simp [hsp, escChars]

/-- the model's `stringize` is the specification's, for arguments inside `StringizeLiteralSafe` -/
theorem stringize_eq_spec (hash : Tok) (arg : List Tok) (h : ∀ t ∈ arg, strSafeTok t = true) :
    (stringize hash arg).text = (stringizeSpec hash arg).text ∧ (stringize hash arg).kind = (stringizeSpec hash arg).kind := by
  refine ⟨?_, rfl⟩
  simp only [stringize, stringizeSpec, quoteString]
  have key : (stringizeText arg).toList = escChars (joinTokens arg).toList := by
    cases arg with
    | nil => simp [stringizeText, joinTokens, escChars]
    | cons t ts =>
      simp only [stringizeText, joinTokens]
      exact foldl_join_stringize ts t.text (strPiece t) (fun u hu => h u (by simp [hu]))
        (strPiece_toList (h t (by simp)))
  rw [← String.ofList_toList (s := "\"" ++ stringizeText arg ++ "\"")]
  congr 1
  simp only [String.toList_append, key, escChars]
  rfl

/-! ## `subst` with a pure pre-expander: the cache `arg->expanded` only ever holds `full toks` -/

/-- name, `is_va_args`, tokens -/
abbrev PArg := String × Bool × List Tok

def core (a : MacroArg) : PArg := (a.name, a.isVa, a.toks)

/-- every cached expansion is the pure expansion of the argument -/
def CacheOK (full : List Tok → List Tok) (args : List MacroArg) : Prop :=
  ∀ a ∈ args, a.expanded = none ∨ a.expanded = some (full a.toks)

theorem find_core (args : List MacroArg) (s : String) :
    (args.map core).find? (fun a => a.1 == s) = (args.find? (fun a => a.name == s)).map core := by
  induction args with
  | nil => rfl
  | cons a r ih =>
    simp only [List.map_cons, List.find?_cons]
    by_cases h : (a.name == s) = true
    · simp [core, h]
    · have h' : (a.name == s) = false := by simpa using h
      simp only [core, h'] at ih ⊢
      exact ih

theorem setExpanded_core : ∀ (args : List MacroArg) (n : String) (e : List Tok),
    (setExpanded args n e).map core = args.map core := by
  intro args
  induction args with
  | nil => intro n e; rfl
  | cons a r ih =>
    intro n e
    unfold setExpanded
    split
    · simp [core]
    · simp [ih]

theorem cacheOK_setExpanded {full : List Tok → List Tok} : ∀ {args : List MacroArg} {a : MacroArg},
    CacheOK full args → findArg args (some t) = some a → CacheOK full (setExpanded args a.name (full a.toks)) := by
  intro args
  induction args with
  | nil => intro a h _; simpa [setExpanded] using h
  | cons b r ih =>
    intro a h hf
    unfold setExpanded
    simp only [findArg, List.find?_cons] at hf
    by_cases hb : (b.name == t.text) = true
    · simp only [hb, Option.some.injEq] at hf
      subst hf
      simp only [beq_self_eq_true, if_true]
      intro x hx
      simp only [List.mem_cons] at hx
      rcases hx with rfl | hx
      · right; rfl
      · exact h x (by simp [hx])
    · simp only [hb] at hf
      have hne : (b.name == a.name) = false := by
        have := List.find?_some hf
        simp only [beq_iff_eq] at this
        simp only [beq_eq_false_iff_ne, ne_eq]
        intro heq
        exact hb (by simp [heq, this])
      simp only [hne, Bool.false_eq_true, if_false]
      intro x hx
      simp only [List.mem_cons] at hx
      rcases hx with rfl | hx
      · exact h x (by simp)
      · exact ih (fun y hy => h y (by simp [hy])) (by simpa [findArg] using hf) x hx

/-- the pre-expander of the theorem: a pure function of the argument's tokens -/
def purePP (full : List Tok → List Tok) : PreExpand := fun st ts => .ok (full ts, st)

end ChibiVerif.PP
