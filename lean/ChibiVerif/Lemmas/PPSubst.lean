/-
`subst` of the model against the phase-structured specification of C11 6.10.3.1–6.10.3.3 (property C09,
`C09_subst_spec_partial`).
-/
import ChibiVerif.Model.PP
import ChibiVerif.Spec.PPSpec
import ChibiVerif.Lemmas.PPLemmas
import ChibiVerif.Lemmas.C09Skip

namespace ChibiVerif.PP
open ChibiVerif.Spec.PPSpec

/-! ## `#`: the copy loops of `stringize` build the string of 6.10.3.2 — for every argument -/

def escChars (cs : List Char) : List Char := cs.flatMap fun c => if c == '\\' || c == '"' then ['\\', c] else [c]

theorem escChars_append (a b : List Char) : escChars (a ++ b) = escChars a ++ escChars b := by
  simp [escChars, List.flatMap_append]

theorem escChars_id : ∀ (cs : List Char), (cs.any fun c => c == '\\' || c == '"') = false → escChars cs = cs := by
  intro cs
  induction cs with
  | nil => intro _; rfl
  | cons c r ih =>
    intro h
    simp only [List.any_cons, Bool.or_eq_false_iff] at h
    simp only [escChars, List.flatMap_cons] at ih ⊢
    have hc : (c == '\\' || c == '"') = false := by simpa using h.1
    rw [hc]
    simp only [Bool.false_eq_true, if_false, List.singleton_append, List.cons.injEq, true_and]
    exact ih h.2

/-- the inner loop of `stringize` on a literal token escapes every `\` and `"` … -/
theorem strzCopy_true : ∀ (cs : List Char), strzCopy true cs = escChars cs := by
  intro cs
  induction cs with
  | nil => rfl
  | cons c r ih =>
    have hcons : escChars (c :: r) = (if (c == '\\' || c == '"') = true then ['\\', c] else [c]) ++ escChars r := by
      simp [escChars]
    rw [hcons, strzCopy, ih]
    cases hc : (c == '\\' || c == '"') <;> simp

/-- … and copies the spelling of any other token unchanged -/
theorem strzCopy_false : ∀ (cs : List Char), strzCopy false cs = cs := by
  intro cs
  induction cs with
  | nil => rfl
  | cons c r ih => simp [strzCopy, ih]

/-- one token: the model's inner loop writes the specification's `strPiece` -/
theorem strzCopy_piece (t : Tok) : strzCopy (t.kind == .str || t.kind == .other) t.text.toList = (strPiece t).toList := by
  unfold strPiece
  cases hk : (t.kind == .str || t.kind == .other)
  · simp [strzCopy_false]
  · simp [strzCopy_true, escapeLit, escChars, String.toList_ofList]

/-- the outer loop after the first token: the specification's left fold, started from any accumulator -/
theorem foldl_strzLoop : ∀ (ts : List Tok) (acc : String),
    (ts.foldl (fun acc u => acc ++ (if spaced u then " " else "") ++ strPiece u) acc).toList =
      acc.toList ++ strzLoop false ts := by
  intro ts
  induction ts with
  | nil => intro acc; simp [strzLoop]
  | cons u r ih =>
    intro acc
    simp only [List.foldl_cons]
    rw [ih, strzLoop, strzCopy_piece]
    cases hsp : (u.hasSpace || u.atBol) <;> simp [spaced, hsp, String.toList_append]

/-- the characters between the quotes -/
theorem strzLoop_eq_spec (arg : List Tok) : strzLoop true arg = (stringizeText arg).toList := by
  cases arg with
  | nil => simp [strzLoop, stringizeText]
  | cons t ts =>
    simp only [stringizeText]
    rw [foldl_strzLoop, strzLoop, strzCopy_piece]
    simp

/-- the model's `stringize` is the specification's — for **every** argument (since `fix:` 6fecbd6) -/
theorem stringize_eq_spec (hash : Tok) (arg : List Tok) :
    (stringize hash arg).text = (stringizeSpec hash arg).text ∧ (stringize hash arg).kind = (stringizeSpec hash arg).kind := by
  refine ⟨?_, rfl⟩
  simp only [stringize, stringizeSpec]
  rw [← String.ofList_toList (s := "\"" ++ stringizeText arg ++ "\"")]
  congr 1
  simp only [String.toList_append, strzLoop_eq_spec]
  rfl

/-! ## `subst` with a pure pre-expander: the cache `arg->expanded` only ever holds `full toks` -/

/-- name, `is_va_args`, tokens -/
abbrev PArg := String × Bool × List Tok

def core (a : MacroArg) : PArg := (a.name, a.isVa, a.toks)

/-- every cached expansion is the pure expansion of the argument -/
def CacheOK (full : List Tok → List Tok) (args : List MacroArg) : Prop :=
  ∀ a ∈ args, a.expanded = none ∨ a.expanded = some (full a.toks)

theorem find_core (args : List MacroArg) (s : String) :
    (args.map core).find? (fun a => a.1 == s) = (args.find? (fun a => a.name == s)).map core := by
  induction args with
  | nil => rfl
  | cons a r ih =>
    simp only [List.map_cons, List.find?_cons]
    by_cases h : (a.name == s) = true
    · simp [core, h]
    · have h' : (a.name == s) = false := by simpa using h
      simp only [core, h'] at ih ⊢
      exact ih

theorem setExpanded_core : ∀ (args : List MacroArg) (n : String) (e : List Tok),
    (setExpanded args n e).map core = args.map core := by
  intro args
  induction args with
  | nil => intro n e; rfl
  | cons a r ih =>
    intro n e
    unfold setExpanded
    split
    · simp [core]
    · simp [ih]

theorem cacheOK_setExpanded {full : List Tok → List Tok} : ∀ {args : List MacroArg} {a : MacroArg},
    CacheOK full args → findArg args (some t) = some a → CacheOK full (setExpanded args a.name (full a.toks)) := by
  intro args
  induction args with
  | nil => intro a h _; simpa [setExpanded] using h
  | cons b r ih =>
    intro a h hf
    unfold setExpanded
    simp only [findArg, List.find?_cons] at hf
    by_cases hb : (b.name == t.text) = true
    · simp only [hb, Option.some.injEq] at hf
      subst hf
      simp only [beq_self_eq_true, if_true]
      intro x hx
      simp only [List.mem_cons] at hx
      rcases hx with rfl | hx
      · right; rfl
      · exact h x (by simp [hx])
    · simp only [hb] at hf
      have hne : (b.name == a.name) = false := by
        have := List.find?_some hf
        simp only [beq_iff_eq] at this
        simp only [beq_eq_false_iff_ne, ne_eq]
        intro heq
        exact hb (by simp [heq, this])
      simp only [hne, Bool.false_eq_true, if_false]
      intro x hx
      simp only [List.mem_cons] at hx
      rcases hx with rfl | hx
      · exact h x (by simp)
      · exact ih (fun y hy => h y (by simp [hy])) (by simpa [findArg] using hf) x hx

/-- the pre-expander of the theorem: a pure function of the argument's tokens -/
def purePP (full : List Tok → List Tok) : PreExpand := fun st ts => .ok (full ts, st)

end ChibiVerif.PP

/-! ## the simulation: `subst` of the model against `pasteAll ∘ substItems ∘ parseBody` of the specification -/

namespace ChibiVerif.PP
open ChibiVerif.Spec.PPSpec

def spell1 (t : Tok) : Kind × String := (t.kind, t.text)
def spell (ts : List Tok) : List (Kind × String) := ts.map spell1

def PmTop : List Elem → Bool
  | .pm :: _ => true
  | _ => false

theorem pasteAll_toks (lx : String → LexOne) : ∀ (ts : List Tok) (more done : List Elem),
    pasteAll lx (ts.map Elem.tok ++ more) done = pasteAll lx more ((ts.map Elem.tok).reverse ++ done) := by
  intro ts
  induction ts with
  | nil => intro more done; rfl
  | cons t r ih =>
    intro more done
    simp only [List.map_cons, List.cons_append, pasteAll, List.reverse_cons, List.append_assoc]
    rw [ih]; rfl

theorem pasteAll_pm (lx : String → LexOne) (more done : List Elem) :
    pasteAll lx (.pm :: more) done = pasteAll lx more (.pm :: done) := by simp [pasteAll]

theorem pasteAll_op_ok (lx : String → LexOne) {r : Elem} (more : List Elem) {l : Elem} (done : List Elem) {x : Elem}
    (h : combine lx l r = .ok x) : pasteAll lx (.op :: r :: more) (l :: done) = pasteAll lx more (x :: done) := by
  simp [pasteAll, h]

theorem pasteAll_op_err (lx : String → LexOne) {r : Elem} (more : List Elem) {l : Elem} (done : List Elem) {e : Err}
    (h : combine lx l r = .error e) : pasteAll lx (.op :: r :: more) (l :: done) = .error e := by
  simp [pasteAll, h]

theorem dropPlacemarkers_reverse (es : List Elem) : dropPlacemarkers es.reverse = (dropPlacemarkers es).reverse := by
  simp [dropPlacemarkers, List.filterMap_reverse]

theorem dropPlacemarkers_toks (ts : List Tok) : dropPlacemarkers (ts.map Elem.tok) = ts := by
  induction ts with
  | nil => rfl
  | cons t r ih => simpa [dropPlacemarkers] using ih

theorem dropPlacemarkers_append (a b : List Elem) : dropPlacemarkers (a ++ b) = dropPlacemarkers a ++ dropPlacemarkers b := by
  simp [dropPlacemarkers, List.filterMap_append]

end ChibiVerif.PP

namespace ChibiVerif.PP
open ChibiVerif.Spec.PPSpec

/-! the constructs outside C11 (`NoExtension`) -/

def badHead (isFn : Bool) (args : List MacroArg) : List Tok → Bool
  | [] => false
  | t :: r =>
    (t.text == "," && textIs r.head? "##" && ((findArg args (r.drop 1).head?).filter (·.isVa)).isSome) ||
    (t.text == "__VA_OPT__" && textIs r.head? "(") ||
    (t.text == "##" && isFn && textIs r.head? "#")

def anyBad (isFn : Bool) (args : List MacroArg) : List Tok → Bool
  | [] => false
  | t :: r => badHead isFn args (t :: r) || anyBad isFn args r

theorem findArg_core {args args0 : List MacroArg} (h : args.map core = args0.map core) (t : Option Tok) :
    (findArg args t).map core = (findArg args0 t).map core := by
  cases t with
  | none => rfl
  | some t =>
    simp only [findArg]
    rw [← find_core, ← find_core, h]

theorem findArg_some_core {args args0 : List MacroArg} (h : args.map core = args0.map core) {t : Option Tok} {a : MacroArg}
    (hf : findArg args t = some a) : ∃ a0, findArg args0 t = some a0 ∧ a0.name = a.name ∧ a0.isVa = a.isVa ∧ a0.toks = a.toks := by
  have := findArg_core h t
  rw [hf] at this
  cases h0 : findArg args0 t with
  | none => rw [h0] at this; simp at this
  | some a0 =>
    rw [h0] at this
    simp only [Option.map_some, Option.some.injEq, core, Prod.mk.injEq] at this
    exact ⟨a0, rfl, this.1.symm, this.2.1.symm, this.2.2.symm⟩

theorem findArg_none_core {args args0 : List MacroArg} (h : args.map core = args0.map core) {t : Option Tok}
    (hf : findArg args t = none) : findArg args0 t = none := by
  have := findArg_core h t
  rw [hf] at this
  cases h0 : findArg args0 t with
  | none => rfl
  | some a0 => rw [h0] at this; simp at this

theorem isParam_iff (args0 : List MacroArg) (t : Tok) : isParam args0 t = (findArg args0 (some t)).isSome := by
  simp only [isParam, findArg]
  induction args0 with
  | nil => rfl
  | cons a r ih =>
    simp only [List.any_cons, List.find?_cons]
    by_cases h : (a.name == t.text) = true
    · simp [h]
    · have h' : (a.name == t.text) = false := by simpa using h
      simp [h', ih]

theorem argToks_of_findArg {args0 : List MacroArg} {t : Tok} {a0 : MacroArg} (h : findArg args0 (some t) = some a0) :
    argToks args0 t.text = a0.toks := by
  simp only [findArg] at h
  simp [argToks, h]

theorem isVaParam_eq (args0 : List MacroArg) (v : Tok) :
    isVaParam args0 v = ((findArg args0 (some v)).filter (·.isVa)).isSome := by
  simp only [isVaParam, findArg]
  cases args0.find? (fun a => a.name == v.text) with
  | none => rfl
  | some a => cases h : a.isVa <;> simp [Option.filter, h]

end ChibiVerif.PP

namespace ChibiVerif.PP
open ChibiVerif.Spec.PPSpec

theorem spell_reverse (ts : List Tok) : spell ts.reverse = (spell ts).reverse := by simp [spell]
theorem spell_append (a b : List Tok) : spell (a ++ b) = spell a ++ spell b := by simp [spell]
theorem spell_setHeadFlags (ts : List Tok) (b s : Bool) : spell (setHeadFlags ts b s) = spell ts := by
  cases ts <;> simp [setHeadFlags, spell, spell1]

theorem anyBad_tail {isFn : Bool} {args : List MacroArg} {t : Tok} {r : List Tok}
    (h : anyBad isFn args (t :: r) = false) : badHead isFn args (t :: r) = false ∧ anyBad isFn args r = false := by
  simpa [anyBad, Bool.or_eq_false_iff] using h

theorem chain_tail {args : List MacroArg} {t : Tok} {r : List Tok}
    (h : hasPlacemarkerChain args (t :: r) = false) : hasPlacemarkerChain args r = false := by
  simp only [hasPlacemarkerChain, Bool.or_eq_false_iff] at h; exact h.2

theorem unsafe_tail {args : List MacroArg} {t : Tok} {r : List Tok}
    (h : hasUnsafeStringize args (t :: r) = false) : hasUnsafeStringize args r = false := by
  simp only [hasUnsafeStringize, Bool.or_eq_false_iff] at h; exact h.2

/-- same spelling of the left operand: `paste` behaves the same -/
theorem paste_congr (lx : String → LexOne) {a a' b : Tok} (h : spell1 a = spell1 a') :
    (∀ p, paste lx a b = .ok p → ∃ p', paste lx a' b = .ok p' ∧ spell1 p' = spell1 p) := by
  intro p hp
  simp only [spell1, Prod.mk.injEq] at h
  unfold paste at hp ⊢
  dsimp only at hp ⊢
  rw [← h.2]
  split at hp
  · rename_i k hk
    simp only [Except.ok.injEq] at hp
    subst hp
    simp [hk, spell1]
  all_goals simp at hp

theorem substItems_cons_ok {args : List MacroArg} {vaP : Bool} {fa : String → List Tok} {inner : List Tok → Except Err (List Tok)}
    {p : Bool} {it : Item} {rest : List Item} {elems : List Elem}
    (h : substItems args vaP fa inner p (it :: rest) = .ok elems) (hv : ∀ c, it ≠ .vaopt c) :
    ∃ e1 e2, elems = e1 ++ e2 ∧ substItems args vaP fa inner (isOp it) rest = .ok e2 ∧
      e1 = (match it with
        | .lit t => [Elem.tok t]
        | .op => [Elem.op]
        | .strz hh a => [Elem.tok (stringizeSpec hh (argToks args a))]
        | .par q a =>
          if p || (rest.head?.map isOp).getD false then
            rawOrPlacemarker (if (rest.head?.map isOp).getD false then withSpacingOf q (argToks args a) else argToks args a)
          else (withSpacingOf q (fa a)).map Elem.tok
        | .gnuComma c a => if (argToks args a).isEmpty then [] else Elem.tok c :: (argToks args a).map Elem.tok
        | .vaopt _ => []) := by
  unfold substItems at h
  cases it with
  | vaopt c => exact absurd rfl (hv c)
  | lit t =>
    simp only [Except.map] at h
    split at h
    · simp at h
    · rename_i e2 he2; simp only [Except.ok.injEq] at h; exact ⟨_, e2, h.symm, he2, rfl⟩
  | op =>
    simp only [Except.map] at h
    split at h
    · simp at h
    · rename_i e2 he2; simp only [Except.ok.injEq] at h; exact ⟨_, e2, h.symm, he2, rfl⟩
  | strz hh a =>
    simp only [Except.map] at h
    split at h
    · simp at h
    · rename_i e2 he2; simp only [Except.ok.injEq] at h; exact ⟨_, e2, h.symm, he2, rfl⟩
  | gnuComma c a =>
    simp only [Except.map] at h
    split at h
    · simp at h
    · rename_i e2 he2; simp only [Except.ok.injEq] at h; exact ⟨_, e2, h.symm, he2, rfl⟩
  | par q a =>
    simp only [Except.map] at h
    by_cases hc : (p || (rest.head?.map isOp).getD false) = true
    · simp only [hc, if_true] at h ⊢
      split at h
      · simp at h
      · rename_i e2 he2; simp only [Except.ok.injEq] at h; exact ⟨_, e2, h.symm, he2, rfl⟩
    · simp only [hc, Bool.false_eq_true, if_false] at h ⊢
      split at h
      · simp at h
      · rename_i e2 he2; simp only [Except.ok.injEq] at h; exact ⟨_, e2, h.symm, he2, rfl⟩

end ChibiVerif.PP

namespace ChibiVerif.PP
open ChibiVerif.Spec.PPSpec

theorem gnuCond_eq (args : List MacroArg) (r : List Tok) :
    (((r.drop 1).head?.map (isVaParam args)).getD false) = ((findArg args (r.drop 1).head?).filter (·.isVa)).isSome := by
  cases (r.drop 1).head? with
  | none => simp [findArg]
  | some v => simp [isVaParam_eq]

/-- the four ways `parseBody` can step under the region hypotheses -/
theorem parse_step {isFn : Bool} {args : List MacroArg} {n : Nat} {tok : Tok} {rest : List Tok} {items : List Item}
    (hbad : badHead isFn args (tok :: rest) = false)
    (h : parseBody isFn args (n + 1) (tok :: rest) = .ok items) :
    (tok.text = "#" ∧ isFn = true ∧ ∃ p rest' items', rest = p :: rest' ∧ isParam args p = true ∧
        items = .strz tok p.text :: items' ∧ parseBody isFn args n rest' = .ok items') ∨
    (¬(tok.text = "#" ∧ isFn = true) ∧ tok.text = "##" ∧ ∃ items', items = .op :: items' ∧ parseBody isFn args n rest = .ok items') ∨
    (¬(tok.text = "#" ∧ isFn = true) ∧ tok.text ≠ "##" ∧ isParam args tok = true ∧
        ∃ items', items = .par tok tok.text :: items' ∧ parseBody isFn args n rest = .ok items') ∨
    (¬(tok.text = "#" ∧ isFn = true) ∧ tok.text ≠ "##" ∧ isParam args tok = false ∧
        ∃ items', items = .lit tok :: items' ∧ parseBody isFn args n rest = .ok items') := by
  simp only [badHead, Bool.or_eq_false_iff] at hbad
  obtain ⟨⟨hg, hv⟩, _⟩ := hbad
  simp only [parseBody] at h
  by_cases h1 : (tok.text == "#" && isFn) = true
  · left
    simp only [h1, if_true] at h
    simp only [Bool.and_eq_true, beq_iff_eq] at h1
    refine ⟨h1.1, h1.2, ?_⟩
    cases rest with
    | nil => simp at h
    | cons p rest' =>
      simp only at h
      split at h
      · rename_i hp
        simp only [Except.map] at h
        split at h
        · simp at h
        · rename_i items' hi
          simp only [Except.ok.injEq] at h
          exact ⟨p, rest', items', rfl, hp, h.symm, hi⟩
      · simp at h
  · right
    have h1' : ¬(tok.text = "#" ∧ isFn = true) := by simpa using h1
    simp only [h1, Bool.false_eq_true, if_false] at h
    have hg' : (tok.text == "," && textIs rest.head? "##" && ((rest.drop 1).head?.map (isVaParam args)).getD false) = false := by
      rw [gnuCond_eq]; exact hg
    simp only [hg', Bool.false_eq_true, if_false] at h
    by_cases h3 : (tok.text == "##") = true
    · left
      simp only [h3, if_true, Except.map] at h
      split at h
      · simp at h
      · rename_i items' hi
        simp only [Except.ok.injEq] at h
        exact ⟨h1', by simpa using h3, items', h.symm, hi⟩
    · right
      have h3' : tok.text ≠ "##" := by simpa using h3
      simp only [h3, Bool.false_eq_true, if_false] at h
      by_cases h4 : isParam args tok = true
      · left
        simp only [h4, if_true, Except.map] at h
        split at h
        · simp at h
        · rename_i items' hi
          simp only [Except.ok.injEq] at h
          exact ⟨h1', h3', h4, items', h.symm, hi⟩
      · right
        have h4' : isParam args tok = false := by simpa using h4
        simp only [h4', Bool.false_eq_true, if_false, hv, Except.map] at h
        split at h
        · simp at h
        · rename_i items' hi
          simp only [Except.ok.injEq] at h
          exact ⟨h1', h3', h4', items', h.symm, hi⟩

end ChibiVerif.PP

namespace ChibiVerif.PP
open ChibiVerif.Spec.PPSpec

theorem findArg_of_core_symm {args args0 : List MacroArg} (h : args.map core = args0.map core) {t : Option Tok} {a0 : MacroArg}
    (hf : findArg args0 t = some a0) : ∃ a, findArg args t = some a ∧ a.name = a0.name ∧ a.isVa = a0.isVa ∧ a.toks = a0.toks :=
  findArg_some_core h.symm hf

theorem spell_cons (t : Tok) (ts : List Tok) : spell (t :: ts) = spell1 t :: spell ts := rfl

theorem dropPM_cons_tok (t : Tok) (es : List Elem) : dropPlacemarkers (.tok t :: es) = t :: dropPlacemarkers es := by
  simp [dropPlacemarkers]
theorem dropPM_cons_pm (es : List Elem) : dropPlacemarkers (.pm :: es) = dropPlacemarkers es := by
  simp [dropPlacemarkers]

/-- the head of `done` when it is not a placemarker and `acc` is not empty -/
theorem top_of_R {acc : List Tok} {done : List Elem} {cur : Tok} {acc' : List Tok}
    (hR : spell (cur :: acc') = spell (dropPlacemarkers done)) (hpm : PmTop done = false) (hop : ∀ d', done ≠ .op :: d') :
    ∃ lt done', done = .tok lt :: done' ∧ spell1 lt = spell1 cur ∧ spell acc' = spell (dropPlacemarkers done') := by
  cases done with
  | nil => simp [spell, dropPlacemarkers] at hR
  | cons d done' =>
    cases d with
    | pm => simp [PmTop] at hpm
    | op => exact absurd rfl (hop done')
    | tok lt =>
      rw [dropPM_cons_tok, spell_cons, spell_cons] at hR
      simp only [List.cons.injEq] at hR
      exact ⟨lt, done', rfl, hR.1.symm, hR.2⟩

/-- `done` never holds a `##` -/
def NoOp (done : List Elem) : Prop := ∀ e ∈ done, e ≠ Elem.op

end ChibiVerif.PP

namespace ChibiVerif.PP
open ChibiVerif.Spec.PPSpec

theorem paste_congr2 (lx : String → LexOne) {a a' b b' : Tok} (h : spell1 a = spell1 a') (hb : b.text = b'.text) :
    (∀ p, paste lx a b = .ok p → ∃ p', paste lx a' b' = .ok p' ∧ spell1 p' = spell1 p) := by
  intro p hp
  simp only [spell1, Prod.mk.injEq] at h
  unfold paste at hp ⊢
  dsimp only at hp ⊢
  rw [← h.2, ← hb]
  split at hp
  · rename_i k hk
    simp only [Except.ok.injEq] at hp
    subst hp
    simp [hk, spell1]
  all_goals simp at hp

theorem dropPM_push (ts : List Tok) (done : List Elem) :
    dropPlacemarkers ((ts.map Elem.tok).reverse ++ done) = ts.reverse ++ dropPlacemarkers done := by
  rw [dropPlacemarkers_append, ← List.map_reverse, dropPlacemarkers_toks]

theorem spell_withSpacingOf (p : Tok) (ts : List Tok) : spell (withSpacingOf p ts) = spell ts := by
  simp [withSpacingOf, spell_setHeadFlags]

theorem withSpacingOf_nil_iff (p : Tok) (ts : List Tok) : withSpacingOf p ts = [] ↔ ts = [] := by
  cases ts <;> simp [withSpacingOf, setHeadFlags]

/-- the next item is `##` exactly when the next token is -/
theorem parse_head_isOp {isFn : Bool} {args : List MacroArg} {n : Nat} {rest : List Tok} {items : List Item}
    (hlen : rest.length < n) (hbad : anyBad isFn args rest = false) (h : parseBody isFn args n rest = .ok items) :
    (items.head?.map isOp).getD false = textIs rest.head? "##" := by
  cases rest with
  | nil =>
    cases n <;> simp [parseBody] at h <;> subst h <;> simp [textIs]
  | cons t r =>
    obtain ⟨k, rfl⟩ : ∃ k, n = k + 1 := ⟨n - 1, by simp only [List.length_cons] at hlen; omega⟩
    rcases parse_step (anyBad_tail hbad).1 h with
      ⟨h1, _, p, rest', items', _, _, rfl, _⟩ | ⟨_, h2, items', rfl, _⟩ | ⟨_, h2, _, items', rfl, _⟩ | ⟨_, h2, _, items', rfl, _⟩
    · simp [isOp, textIs, h1]
    · simp [isOp, textIs, h2]
    · simp [isOp, textIs, h2]
    · simp [isOp, textIs, h2]

theorem substItems_op_cons {args : List MacroArg} {vaP : Bool} {fa : String → List Tok} {inner : List Tok → Except Err (List Tok)}
    {p : Bool} {items2 : List Item} {e : List Elem} (h : substItems args vaP fa inner p (.op :: items2) = .ok e) :
    ∃ e2, e = .op :: e2 ∧ substItems args vaP fa inner true items2 = .ok e2 := by
  obtain ⟨e1, e2, rfl, hs, he1⟩ := substItems_cons_ok h (by intro c h; cases h)
  simp only at he1
  subst he1
  exact ⟨e2, rfl, hs⟩

/-- the item to the right of a `##`, under the region hypotheses: a parameter (raw argument or placemarker) or a
    plain token -/
theorem rhs_step {isFn : Bool} {args0 : List MacroArg} {vaP : Bool} {fa : String → List Tok} {inner : List Tok → Except Err (List Tok)}
    {n : Nat} {hh rhs : Tok} {rest3 : List Tok} {items1 : List Item} {elems1 : List Elem}
    (hhh : hh.text = "##")
    (hb1 : badHead isFn args0 (hh :: rhs :: rest3) = false)
    (hb2 : anyBad isFn args0 (rhs :: rest3) = false)
    (hparse : parseBody isFn args0 (n + 1) (rhs :: rest3) = .ok items1)
    (hsub : substItems args0 vaP fa inner true items1 = .ok elems1) :
    (∃ e, elems1 = Elem.op :: e) ∨
    ∃ items3 e3, parseBody isFn args0 n rest3 = .ok items3 ∧ substItems args0 vaP fa inner false items3 = .ok e3 ∧
      ((∃ a2, findArg args0 (some rhs) = some a2 ∧ ∃ W, spell W = spell a2.toks ∧ (W = [] ↔ a2.toks = []) ∧
          elems1 = rawOrPlacemarker W ++ e3)
       ∨ (findArg args0 (some rhs) = none ∧ elems1 = [Elem.tok rhs] ++ e3)) := by
  simp only [badHead, Bool.or_eq_false_iff, hhh, beq_self_eq_true, Bool.true_and, List.head?_cons, textIs] at hb1
  obtain ⟨_, hx2⟩ := hb1
  rcases parse_step (anyBad_tail hb2).1 hparse with
    ⟨h1, hfn, p, rest', items', _, _, _, _⟩ | ⟨_, h2, items', rfl, _⟩ | ⟨_, _, hip, items3, rfl, hp3⟩ | ⟨_, _, hip, items3, rfl, hp3⟩
  · simp [h1, hfn] at hx2
  · -- `## ##`: the right operand of the first `##` is a `##`; no paste stack accepts that (`pasteAll_op_op`)
    obtain ⟨e, rfl, _⟩ := substItems_op_cons hsub
    exact Or.inl ⟨e, rfl⟩
  · right
    obtain ⟨e1, e3, rfl, hsub3, he1⟩ := substItems_cons_ok hsub (by intro c h; cases h)
    simp only [Bool.true_or, if_true] at he1
    have hsome : (findArg args0 (some rhs)).isSome = true := by rw [← isParam_iff]; exact hip
    obtain ⟨a2, ha2⟩ := Option.isSome_iff_exists.1 hsome
    refine ⟨items3, e3, hp3, hsub3, Or.inl ⟨a2, ha2, ?_⟩⟩
    rw [argToks_of_findArg ha2] at he1
    by_cases hn : (items3.head?.map isOp).getD false = true
    · simp only [hn, if_true] at he1
      exact ⟨_, spell_withSpacingOf _ _, withSpacingOf_nil_iff _ _, by rw [he1]⟩
    · simp only [hn, Bool.false_eq_true, if_false] at he1
      exact ⟨_, rfl, Iff.rfl, by rw [he1]⟩
  · right
    obtain ⟨e1, e3, rfl, hsub3, he1⟩ := substItems_cons_ok hsub (by intro c h; cases h)
    simp only at he1
    have : findArg args0 (some rhs) = none := by
      have := isParam_iff args0 rhs
      rw [hip] at this
      cases h : findArg args0 (some rhs) with
      | none => rfl
      | some a => rw [h] at this; simp at this
    exact ⟨items3, e3, hp3, hsub3, Or.inr ⟨this, by rw [he1]⟩⟩

theorem pasteAll_op_last (lx : String → LexOne) (d es : List Elem) : pasteAll lx [.op] d ≠ .ok es := by
  cases d <;> simp [pasteAll]

/-- `## ##`: a `##` is never accepted as the right operand of a `##` (6.10.3.3: the result would not be a token) -/
theorem pasteAll_op_op (lx : String → LexOne) (e d es : List Elem) : pasteAll lx (.op :: .op :: e) d ≠ .ok es := by
  cases d with
  | nil => simp [pasteAll]
  | cons l d' => cases l <;> simp [pasteAll, combine]

theorem parse_op_cons {isFn : Bool} {args : List MacroArg} {k : Nat} {hh : Tok} {r : List Tok} {items : List Item}
    (hhh : hh.text = "##") (hb : badHead isFn args (hh :: r) = false)
    (h : parseBody isFn args (k + 1) (hh :: r) = .ok items) :
    ∃ items2, items = .op :: items2 ∧ parseBody isFn args k r = .ok items2 := by
  rcases parse_step hb h with ⟨h1, _, _⟩ | ⟨_, _, items2, rfl, hp⟩ | ⟨_, h2, _⟩ | ⟨_, h2, _⟩
  · rw [hhh] at h1; simp at h1
  · exact ⟨items2, rfl, hp⟩
  · exact absurd hhh h2
  · exact absurd hhh h2

theorem parse_nil {isFn : Bool} {args : List MacroArg} {k : Nat} {items : List Item}
    (h : parseBody isFn args k [] = .ok items) : items = [] := by
  cases k <;> simp [parseBody] at h <;> exact h

/-- a placemarker on the left of `##`: the right operand is pushed as it is -/
theorem pasteAll_pm_raw (lx : String → LexOne) (W : List Tok) (e3 done : List Elem) :
    pasteAll lx (.op :: (rawOrPlacemarker W ++ e3)) (.pm :: done) = pasteAll lx e3 ((rawOrPlacemarker W).reverse ++ done) := by
  cases W with
  | nil => simp [rawOrPlacemarker, pasteAll, combine]
  | cons w0 ws =>
    simp only [rawOrPlacemarker, List.isEmpty_cons, Bool.false_eq_true, if_false, List.map_cons, List.cons_append]
    rw [pasteAll_op_ok lx _ _ (x := .tok w0) (by simp [combine]), pasteAll_toks]
    simp

theorem dropPM_raw (W : List Tok) (done : List Elem) :
    dropPlacemarkers ((rawOrPlacemarker W).reverse ++ done) = W.reverse ++ dropPlacemarkers done := by
  cases W with
  | nil => simp [rawOrPlacemarker, dropPlacemarkers]
  | cons w0 ws =>
    simp only [rawOrPlacemarker, List.isEmpty_cons, Bool.false_eq_true, if_false]
    exact dropPM_push (w0 :: ws) done

theorem pmTop_raw (W : List Tok) (done : List Elem) (h : PmTop ((rawOrPlacemarker W).reverse ++ done) = true) : W = [] := by
  cases W with
  | nil => rfl
  | cons w0 ws =>
    exfalso
    simp only [rawOrPlacemarker, List.isEmpty_cons, Bool.false_eq_true, if_false, List.map_cons, List.reverse_cons,
      List.append_assoc] at h
    cases hr : (ws.map Elem.tok).reverse with
    | nil => rw [hr] at h; simp [PmTop] at h
    | cons y ys =>
      rw [hr] at h
      have : y ∈ (ws.map Elem.tok).reverse := by rw [hr]; simp
      simp only [List.mem_reverse, List.mem_map] at this
      obtain ⟨z, _, rfl⟩ := this
      simp [PmTop] at h

theorem pmTop_push_tok (ws : List Tok) (x : Tok) (d : List Elem) :
    PmTop ((ws.map Elem.tok).reverse ++ Elem.tok x :: d) = false := by
  cases hr : (ws.map Elem.tok).reverse with
  | nil => simp [PmTop]
  | cons y ys =>
    have : y ∈ (ws.map Elem.tok).reverse := by rw [hr]; simp
    simp only [List.mem_reverse, List.mem_map] at this
    obtain ⟨z, _, rfl⟩ := this
    simp [PmTop]

theorem combine_op_left (lx : String → LexOne) (r : Elem) : ∃ e, combine lx .op r = .error e := by
  cases r <;> exact ⟨_, rfl⟩

theorem model_gnu_none {args args0 : List MacroArg} (hcore : args.map core = args0.map core) {tok : Tok} {rest : List Tok}
    (hb : (tok.text == "," && textIs rest.head? "##" && ((findArg args0 (rest.drop 1).head?).filter (·.isVa)).isSome) = false) :
    (if (tok.text == "," && textIs rest.head? "##") = true then
        (findArg args (rest.drop 1).head?).filter (·.isVa) else none) = none := by
  by_cases hc : (tok.text == "," && textIs rest.head? "##") = true
  · simp only [hc, if_true]
    simp only [hc, Bool.true_and] at hb
    cases hf : findArg args (rest.drop 1).head? with
    | none => rfl
    | some a =>
      obtain ⟨a0, hf0, _, hva, _⟩ := findArg_some_core hcore hf
      rw [hf0] at hb
      cases hv : a.isVa with
      | false => simp [Option.filter, hv]
      | true => simp [Option.filter, hva, hv] at hb
  · simp [hc]

theorem emptyParam_core {args args0 : List MacroArg} (h : args.map core = args0.map core) (t : Tok) :
    emptyParam args t = emptyParam args0 t := by
  unfold emptyParam
  cases hf : findArg args (some t) with
  | none => rw [findArg_none_core h hf]
  | some a =>
    obtain ⟨a0, hf0, _, _, ht⟩ := findArg_some_core h hf
    rw [hf0]; simp only [ht]

/-- `… ##` as the whole rest of a replacement list: the specification rejects it whatever lies to the left -/
theorem paste_single_op_absurd (lx : String → LexOne) {isFn : Bool} {args0 : List MacroArg} {vaP : Bool} {fa : String → List Tok}
    {inner : List Tok → Except Err (List Tok)} {k : Nat} {h : Tok} {items3 : List Item} {e3 d es : List Elem}
    (hh : h.text = "##") (hb : badHead isFn args0 [h] = false)
    (hp : parseBody isFn args0 (k + 1) [h] = .ok items3) (hs : substItems args0 vaP fa inner false items3 = .ok e3)
    (hpaste : pasteAll lx e3 d = .ok es) : False := by
  obtain ⟨items', rfl, hp'⟩ := parse_op_cons hh hb hp
  obtain ⟨e', rfl, hs'⟩ := substItems_op_cons hs
  rw [parse_nil hp'] at hs'
  simp only [substItems, Except.ok.injEq] at hs'
  subst hs'
  exact pasteAll_op_last lx _ _ hpaste

/-- **the placemarker loop against 6.10.3.3p3.**  A placemarker is on top of the paste stack and the specification is about
    to apply `## rhs …`.  Every turn of the loop of `subst` (`rhs` an empty argument, then `##`, then a further operand) is
    one `placemarker ## placemarker = placemarker` of the specification: afterwards the placemarker is on top again and the
    specification is about to apply `## rhs' …` for the operand `rhs'` the loop stops at.  The loop stops at an empty
    argument followed by `##` only when that `##` is the last token of the replacement list. -/
theorem skip_sim (lx : String → LexOne) {isFn : Bool} {args0 : List MacroArg} {vaP : Bool} {fa : String → List Tok}
    {inner : List Tok → Except Err (List Tok)} (done es : List Elem) :
    ∀ (rest3 : List Tok) (rhs hh : Tok) (k : Nat) (items2 : List Item) (e2 : List Elem),
      hh.text = "##" →
      badHead isFn args0 (hh :: rhs :: rest3) = false →
      anyBad isFn args0 (rhs :: rest3) = false →
      rest3.length < k →
      parseBody isFn args0 (k + 1) (rhs :: rest3) = .ok items2 →
      substItems args0 vaP fa inner true items2 = .ok e2 →
      pasteAll lx (.op :: e2) (.pm :: done) = .ok es →
      ∃ (hh' : Tok) (j : Nat) (items2' : List Item) (e2' : List Elem),
        hh'.text = "##" ∧
        badHead isFn args0 (hh' :: (skipEmptyOperands args0 rhs rest3).1 :: (skipEmptyOperands args0 rhs rest3).2) = false ∧
        anyBad isFn args0 ((skipEmptyOperands args0 rhs rest3).1 :: (skipEmptyOperands args0 rhs rest3).2) = false ∧
        (skipEmptyOperands args0 rhs rest3).2.length < j ∧
        parseBody isFn args0 (j + 1) ((skipEmptyOperands args0 rhs rest3).1 :: (skipEmptyOperands args0 rhs rest3).2) = .ok items2' ∧
        substItems args0 vaP fa inner true items2' = .ok e2' ∧
        pasteAll lx (.op :: e2') (.pm :: done) = .ok es ∧
        (emptyParam args0 (skipEmptyOperands args0 rhs rest3).1 = true →
          textIs (skipEmptyOperands args0 rhs rest3).2.head? "##" = true → (skipEmptyOperands args0 rhs rest3).2.length = 1) := by
  intro rest3 rhs
  fun_induction skipEmptyOperands args0 rhs rest3 with
  | case1 rhs h q rest hc ih =>
    intro hh k items2 e2 hhh hb1 hb2 hk hparse hsub hpaste
    simp only [Bool.and_eq_true, beq_iff_eq] at hc
    obtain ⟨hemp, hht⟩ := hc
    rcases rhs_step hhh hb1 hb2 hparse hsub with ⟨e, rfl⟩ | ⟨items3, e3, hp3, hsub3, hcase⟩
    · exact absurd hpaste (pasteAll_op_op lx _ _ _)
    obtain ⟨hbh2, hbt2⟩ := anyBad_tail hb2
    obtain ⟨hbh3, hbt3⟩ := anyBad_tail hbt2
    obtain ⟨k1, rfl⟩ : ∃ k1, k = k1 + 1 := ⟨k - 1, by simp only [List.length_cons] at hk; omega⟩
    obtain ⟨k2, rfl⟩ : ∃ k2, k1 = k2 + 1 := ⟨k1 - 1, by simp only [List.length_cons] at hk; omega⟩
    obtain ⟨items4, rfl, hp4⟩ := parse_op_cons hht hbh3 hp3
    obtain ⟨e4, rfl, hsub4⟩ := substItems_op_cons hsub3
    have hpaste' : pasteAll lx (.op :: e4) (.pm :: done) = .ok es := by
      rcases hcase with ⟨a2, ha2, W, _, hWnil, rfl⟩ | ⟨hnone, _⟩
      · have ha2e : a2.toks = [] := by simpa [emptyParam, ha2] using hemp
        have hW : W = [] := hWnil.2 ha2e
        subst hW
        rw [pasteAll_pm_raw] at hpaste
        simpa [rawOrPlacemarker] using hpaste
      · simp [emptyParam, hnone] at hemp
    exact ih h k2 items4 e4 hht hbh3 hbt3 (by simp only [List.length_cons] at hk; omega) hp4 hsub4 hpaste'
  | case2 rhs h q rest hc =>
    intro hh k items2 e2 hhh hb1 hb2 hk hparse hsub hpaste
    refine ⟨hh, k, items2, e2, hhh, hb1, hb2, hk, hparse, hsub, hpaste, ?_⟩
    intro hemp hx
    exfalso
    apply hc
    simp only [List.head?_cons, textIs, beq_iff_eq] at hx
    simp [hemp, hx]
  | case3 rhs rest hne =>
    intro hh k items2 e2 hhh hb1 hb2 hk hparse hsub hpaste
    refine ⟨hh, k, items2, e2, hhh, hb1, hb2, hk, hparse, hsub, hpaste, ?_⟩
    intro _ hx
    match rest, hne, hx with
    | [], _, hx => simp [textIs] at hx
    | [_], _, _ => rfl
    | x :: y :: r, hne, _ => exact absurd rfl (hne x y r)

/-- **the simulation.**  `acc` (output of `subst` so far, newest first) against `done` (the paste stack of the
    specification, newest first, placemarkers included): same spellings once the placemarkers are dropped (`hR`), and when a
    placemarker is on top of the stack the next token of the replacement list is not `##` (`hpm`) — the model has no
    placemarker, so it must never be asked to paste onto one.  The arm "parameter with an empty argument before `##`" keeps
    this by consuming the whole run `p ## q ## … ## r` of empty operands in ONE step (`skip_sim`): the specification
    computes placemarker ## placemarker = placemarker for every turn of the C loop.  (Before `fix:` 5a15c0f this needed
    the hypothesis `hasPlacemarkerChain args0 body = false`.) -/
theorem subst_sim (lx : String → LexOne) (full : List Tok → List Tok) (isObj : Bool) (args0 : List MacroArg) (vaP : Bool)
    (inner : List Tok → Except Err (List Tok)) :
    ∀ (fuel : Nat) (st : St) (args : List MacroArg) (body acc : List Tok) (done : List Elem) (pf : Nat)
      (items : List Item) (elems es : List Elem),
      body.length < fuel → body.length < pf →
      args.map core = args0.map core → CacheOK full args →
      anyBad (!isObj) args0 body = false →
      (PmTop done = true → textIs body.head? "##" = false) →
      spell acc = spell (dropPlacemarkers done) →
      parseBody (!isObj) args0 pf body = .ok items →
      substItems args0 vaP (fun a => full (argToks args0 a)) inner false items = .ok elems →
      pasteAll lx elems done = .ok es →
      ∃ out args' st', substLoop lx (purePP full) isObj fuel st args body acc = .ok (out, args', st') ∧
        spell out = spell (dropPlacemarkers es) := by
  intro fuel
  induction fuel with
  | zero => intro st args body acc done pf items elems es h; omega
  | succ n ih =>
    intro st args body acc done pf items elems es hfuel hpf hcore hcache hbad hpm hR hparse hsub hpaste
    cases body with
    | nil =>
      cases pf with
      | zero => simp at hpf
      | succ pf' =>
        simp only [parseBody, Except.ok.injEq] at hparse
        subst hparse
        simp only [substItems, Except.ok.injEq] at hsub
        subst hsub
        simp only [pasteAll, Except.ok.injEq] at hpaste
        subst hpaste
        refine ⟨acc.reverse, args, st, by simp [substLoop], ?_⟩
        rw [spell_reverse, hR, dropPlacemarkers_reverse, spell_reverse]
    | cons tok rest =>
      obtain ⟨pf', rfl⟩ : ∃ k, pf = k + 1 := ⟨pf - 1, by simp only [List.length_cons] at hpf; omega⟩
      obtain ⟨hbh, hbt⟩ := anyBad_tail hbad
      simp only [List.length_cons] at hfuel hpf
      rcases parse_step hbh hparse with
        ⟨h1, hfn, p, rest', items', rfl, hip, rfl, hp'⟩ | ⟨h1, h2, items', rfl, hp'⟩ |
        ⟨h1, h2, hip, items', rfl, hp'⟩ | ⟨h1, h2, hip, items', rfl, hp'⟩
      · -- "#" parameter
        obtain ⟨e1, e2, rfl, hsub', he1⟩ := substItems_cons_ok hsub (by intro c h; cases h)
        simp only at he1
        subst he1
        have hsome : (findArg args0 (some p)).isSome = true := by rw [← isParam_iff]; exact hip
        obtain ⟨a0, ha0⟩ := Option.isSome_iff_exists.1 hsome
        obtain ⟨a, ha, _, _, htoks⟩ := findArg_of_core_symm hcore ha0
        obtain ⟨hst, hsk⟩ := stringize_eq_spec tok a0.toks
        have hpaste' : pasteAll lx e2 (.tok (stringizeSpec tok (argToks args0 p.text)) :: done) = .ok es := by
          simpa [pasteAll] using hpaste
        have hobj : isObj = false := by simpa using hfn
        obtain ⟨hbh2, hbt2⟩ := anyBad_tail hbt
        obtain ⟨out, args', st', hm, hs⟩ := ih st args rest' (stringize tok a.toks :: acc)
          (.tok (stringizeSpec tok (argToks args0 p.text)) :: done) pf' items' e2 es
          (by simp only [List.length_cons] at hfuel; omega) (by simp only [List.length_cons] at hpf; omega)
          hcore hcache hbt2 (by simp [PmTop])
          (by rw [spell_cons, dropPM_cons_tok, spell_cons, hR, argToks_of_findArg ha0, htoks]
              simp [spell1, hst, hsk]) hp' hsub' hpaste'
        refine ⟨out, args', st', ?_, hs⟩
        unfold substLoop
        simp only [h1, hobj, beq_self_eq_true, Bool.not_false, Bool.and_self, if_true, List.head?_cons, ha,
          List.drop_succ_cons, List.drop_zero]
        rw [hobj] at hm
        exact hm
      · -- "##"
        obtain ⟨e2, rfl, hsub2⟩ := substItems_op_cons hsub
        have hpmf : PmTop done = false := by
          cases hpt : PmTop done with
          | false => rfl
          | true => have := hpm hpt; simp [textIs, h2] at this
        have hh : (tok.text == "#" && !isObj) = false := by simp [h2]
        have h2' : (tok.text == "##") = true := by simp [h2]
        have hbh' := hbh
        simp only [badHead, Bool.or_eq_false_iff] at hbh'
        have hg := model_gnu_none hcore (tok := tok) (rest := rest) hbh'.1.1
        -- the left operand: the newest element of `done` is a token spelled like `cur`
        have hdone : ∀ (cur : Tok) (acc' : List Tok), acc = cur :: acc' →
            ∃ lt done', done = Elem.tok lt :: done' ∧ spell1 lt = spell1 cur ∧ spell acc' = spell (dropPlacemarkers done') := by
          intro cur acc' hacc
          subst hacc
          cases done with
          | nil => simp [spell, dropPlacemarkers] at hR
          | cons d done' =>
            cases d with
            | pm => simp [PmTop] at hpmf
            | tok lt =>
              rw [dropPM_cons_tok, spell_cons, spell_cons] at hR
              simp only [List.cons.injEq] at hR
              exact ⟨lt, done', rfl, hR.1.symm, hR.2⟩
            | op =>
              exfalso
              cases e2 with
              | nil => exact pasteAll_op_last lx _ _ hpaste
              | cons r e2' =>
                obtain ⟨e, he⟩ := combine_op_left lx r
                rw [pasteAll_op_err lx _ _ he] at hpaste
                cases hpaste
        cases acc with
        | nil =>
          exfalso
          cases done with
          | nil => simp [pasteAll] at hpaste
          | cons d done' =>
            cases d with
            | pm => simp [PmTop] at hpmf
            | tok lt => simp [spell, dropPlacemarkers] at hR
            | op =>
              cases e2 with
              | nil => exact pasteAll_op_last lx _ _ hpaste
              | cons r e2' =>
                obtain ⟨e, he⟩ := combine_op_left lx r
                rw [pasteAll_op_err lx _ _ he] at hpaste
                cases hpaste
        | cons cur acc' =>
          obtain ⟨lt, done', rfl, hlt, hR'⟩ := hdone cur acc' rfl
          cases rest with
          | nil =>
            exfalso
            rw [parse_nil hp'] at hsub2
            simp only [substItems, Except.ok.injEq] at hsub2
            subst hsub2
            exact pasteAll_op_last lx _ _ hpaste
          | cons nxt rest' =>
            obtain ⟨k, rfl⟩ : ∃ k, pf' = k + 1 := ⟨pf' - 1, by simp only [List.length_cons] at hpf; omega⟩
            obtain ⟨hbh2, hbt2⟩ := anyBad_tail hbt
            rcases rhs_step h2 hbh hbt hp' hsub2 with ⟨e, rfl⟩ | ⟨items3, e3, hp3, hsub3, hcase⟩
            · exact absurd hpaste (pasteAll_op_op lx _ _ _)
            have hmodel : ∀ (out : List Tok) (args' : List MacroArg) (st' : St),
                (match findArg args (some nxt) with
                  | some a =>
                    match a.toks with
                    | [] => substLoop lx (purePP full) isObj n st args rest' (cur :: acc')
                    | t0 :: ts =>
                      match paste lx cur t0 with
                      | .error e => .error e
                      | .ok p => substLoop lx (purePP full) isObj n st args rest' (ts.reverse ++ p :: acc')
                  | none =>
                    match paste lx cur nxt with
                    | .error e => .error e
                    | .ok p => substLoop lx (purePP full) isObj n st args rest' (p :: acc')) = .ok (out, args', st') →
                substLoop lx (purePP full) isObj (n + 1) st args (tok :: nxt :: rest') (cur :: acc') = .ok (out, args', st') := by
              intro out args' st' hm
              unfold substLoop
              simp only [hh, Bool.false_eq_true, if_false]
              rw [hg]
              simp only [h2', if_true]
              exact hm
            rcases hcase with ⟨a2_0, ha2_0, W, hW, hWnil, rfl⟩ | ⟨hnone, rfl⟩
            · obtain ⟨a2, ha2, _, _, htoks2⟩ := findArg_of_core_symm hcore ha2_0
              cases hWc : W with
              | nil =>
                have ha2e : a2.toks = [] := by rw [htoks2]; exact hWnil.1 hWc
                rw [hWc] at hpaste
                have hpaste2 : pasteAll lx e3 (Elem.tok lt :: done') = .ok es := by
                  simpa [rawOrPlacemarker, pasteAll, combine] using hpaste
                obtain ⟨out, args', st', hm, hs⟩ := ih st args rest' (cur :: acc') (Elem.tok lt :: done') k items3 e3 es
                  (by simp only [List.length_cons] at hfuel; omega) (by simp only [List.length_cons] at hpf; omega)
                  hcore hcache hbt2 (by simp [PmTop])
                  (by rw [spell_cons, dropPM_cons_tok, spell_cons, hlt, hR']) hp3 hsub3 hpaste2
                exact ⟨out, args', st', hmodel out args' st' (by rw [ha2]; simp only [ha2e]; exact hm), hs⟩
              | cons w0 ws =>
                obtain ⟨t0, ts, hts⟩ : ∃ t0 ts, a2.toks = t0 :: ts := by
                  cases h : a2.toks with
                  | nil => rw [htoks2] at h; have := hWnil.2 h; rw [hWc] at this; cases this
                  | cons t0 ts => exact ⟨t0, ts, rfl⟩
                have hsp : spell1 w0 = spell1 t0 ∧ spell ws = spell ts := by
                  rw [hWc, ← htoks2, hts, spell_cons, spell_cons] at hW
                  simpa using hW
                rw [hWc] at hpaste
                simp only [rawOrPlacemarker, List.isEmpty_cons, Bool.false_eq_true, if_false, List.map_cons,
                  List.cons_append] at hpaste
                cases hcomb : paste lx lt w0 with
                | error e =>
                  rw [pasteAll_op_err lx _ _ (by simp [combine, hcomb, Except.map] : combine lx (Elem.tok lt) (Elem.tok w0) = .error e)] at hpaste
                  cases hpaste
                | ok x =>
                  rw [pasteAll_op_ok lx _ _ (by simp [combine, hcomb, Except.map] : combine lx (Elem.tok lt) (Elem.tok w0) = .ok (Elem.tok x)),
                    pasteAll_toks] at hpaste
                  obtain ⟨p', hp'ok, hp'sp⟩ := paste_congr2 lx hlt (by simpa [spell1] using congrArg Prod.snd hsp.1) x hcomb
                  obtain ⟨out, args', st', hm, hs⟩ := ih st args rest' (ts.reverse ++ p' :: acc')
                    ((ws.map Elem.tok).reverse ++ Elem.tok x :: done') k items3 e3 es
                    (by simp only [List.length_cons] at hfuel; omega) (by simp only [List.length_cons] at hpf; omega)
                    hcore hcache hbt2
                    (by rw [pmTop_push_tok]; intro h; cases h)
                    (by rw [spell_append, spell_reverse, spell_cons, dropPM_push, dropPM_cons_tok, spell_append,
                          spell_reverse, spell_cons, hsp.2, hp'sp, hR']) hp3 hsub3 hpaste
                  exact ⟨out, args', st', hmodel out args' st' (by rw [ha2]; simp only [hts, hp'ok]; exact hm), hs⟩
            · have hnone' : findArg args (some nxt) = none := findArg_none_core hcore.symm hnone
              simp only [List.singleton_append] at hpaste
              cases hcomb : paste lx lt nxt with
              | error e =>
                rw [pasteAll_op_err lx _ _ (by simp [combine, hcomb, Except.map] : combine lx (Elem.tok lt) (Elem.tok nxt) = .error e)] at hpaste
                cases hpaste
              | ok x =>
                rw [pasteAll_op_ok lx _ _ (by simp [combine, hcomb, Except.map] : combine lx (Elem.tok lt) (Elem.tok nxt) = .ok (Elem.tok x))] at hpaste
                obtain ⟨p', hp'ok, hp'sp⟩ := paste_congr2 lx hlt rfl x hcomb
                obtain ⟨out, args', st', hm, hs⟩ := ih st args rest' (p' :: acc') (Elem.tok x :: done') k items3 e3 es
                  (by simp only [List.length_cons] at hfuel; omega) (by simp only [List.length_cons] at hpf; omega)
                  hcore hcache hbt2 (by simp [PmTop])
                  (by rw [spell_cons, dropPM_cons_tok, spell_cons, hp'sp, hR']) hp3 hsub3 hpaste
                exact ⟨out, args', st', hmodel out args' st' (by rw [hnone']; simp only [hp'ok]; exact hm), hs⟩
      · -- parameter
        obtain ⟨e1, e2, rfl, hsub', he1⟩ := substItems_cons_ok hsub (by intro c h; cases h)
        simp only [Bool.false_or] at he1
        have hsome : (findArg args0 (some tok)).isSome = true := by rw [← isParam_iff]; exact hip
        obtain ⟨a0, ha0⟩ := Option.isSome_iff_exists.1 hsome
        obtain ⟨a, ha, hname, _, htoks⟩ := findArg_of_core_symm hcore ha0
        have hnext := parse_head_isOp (n := pf') (by omega : rest.length < pf') hbt hp'
        rw [hnext, argToks_of_findArg ha0] at he1
        simp only [badHead, Bool.or_eq_false_iff] at hbh
        have hh : (tok.text == "#" && !isObj) = false := by
          cases hc : (tok.text == "#" && !isObj) with
          | false => rfl
          | true => simp only [Bool.and_eq_true, beq_iff_eq] at hc; exact absurd ⟨hc.1, by simpa using hc.2⟩ h1
        have h2' : (tok.text == "##") = false := by simpa using h2
        have hg := model_gnu_none hcore (tok := tok) (rest := rest) hbh.1.1
        by_cases hnx : textIs rest.head? "##" = true
        · -- followed by "##": the argument is copied without macro replacement
          simp only [hnx, if_true] at he1
          cases htk : a0.toks with
          | cons t0 ts =>
            -- non-empty: copy it and go on at the "##"
            have hw : withSpacingOf tok a0.toks ≠ [] := by
              intro hnil; rw [withSpacingOf_nil_iff, htk] at hnil; cases hnil
            have he1' : e1 = (withSpacingOf tok a0.toks).map Elem.tok := by
              rw [he1, rawOrPlacemarker]
              cases hw' : withSpacingOf tok a0.toks with
              | nil => exact absurd hw' hw
              | cons x xs => simp
            subst he1'
            rw [pasteAll_toks] at hpaste
            have hpmf : PmTop (((withSpacingOf tok a0.toks).map Elem.tok).reverse ++ done) = false := by
              cases hw' : withSpacingOf tok a0.toks with
              | nil => exact absurd hw' hw
              | cons x xs =>
                simp only [List.map_cons, List.reverse_cons, List.append_assoc]
                cases hr : (xs.map Elem.tok).reverse with
                | nil => simp [PmTop]
                | cons y ys =>
                  have : y ∈ (xs.map Elem.tok).reverse := by rw [hr]; simp
                  simp only [List.mem_reverse, List.mem_map] at this
                  obtain ⟨z, _, rfl⟩ := this
                  simp [PmTop]
            obtain ⟨out, args', st', hm, hs⟩ := ih st args rest
              ((setHeadFlags a.toks tok.atBol tok.hasSpace).reverse ++ acc)
              (((withSpacingOf tok a0.toks).map Elem.tok).reverse ++ done) pf' items' e2 es
              (by omega) (by omega) hcore hcache hbt (by rw [hpmf]; intro h; cases h)
              (by rw [spell_append, spell_reverse, spell_setHeadFlags, dropPM_push, spell_append, spell_reverse,
                    spell_withSpacingOf, hR, htoks]) hp' hsub' hpaste
            refine ⟨out, args', st', ?_, hs⟩
            unfold substLoop
            simp only [hh, Bool.false_eq_true, if_false]
            rw [hg]
            simp only [h2', Bool.false_eq_true, if_false, ha, hnx, if_true]
            cases rest with
            | nil => simp [textIs] at hnx
            | cons hh2 rest2 =>
              cases rest2 with
              | nil =>
                -- "##" is the last token: the specification fails too
                exfalso
                have hhh : hh2.text = "##" := by simpa [textIs] using hnx
                obtain ⟨k, rfl⟩ : ∃ k, pf' = k + 1 := ⟨pf' - 1, by simp only [List.length_cons] at hpf; omega⟩
                obtain ⟨items2, rfl, hp2⟩ := parse_op_cons hhh (anyBad_tail hbt).1 hp'
                obtain ⟨e2', rfl, hsub2⟩ := substItems_op_cons hsub'
                rw [parse_nil hp2] at hsub2
                simp only [substItems, Except.ok.injEq] at hsub2
                subst hsub2
                exact pasteAll_op_last lx _ _ hpaste
              | cons rhs rest3 =>
                simp only [List.drop_succ_cons, List.drop_zero]
                rw [htoks, htk]
                simp only
                rw [← htk, ← htoks]
                exact hm
          | nil =>
            -- empty: 6.10.3.3 puts a placemarker; chibicc copies the right operand of the "##" instead
            rw [htk] at he1
            have he1' : e1 = [Elem.pm] := by rw [he1]; simp [withSpacingOf, setHeadFlags, rawOrPlacemarker]
            subst he1'
            cases rest with
            | nil => simp [textIs] at hnx
            | cons hh2 rest2 =>
              have hhh : hh2.text = "##" := by simpa [textIs] using hnx
              obtain ⟨k, rfl⟩ : ∃ k, pf' = k + 1 := ⟨pf' - 1, by simp only [List.length_cons] at hpf; omega⟩
              obtain ⟨items2, rfl, hp2⟩ := parse_op_cons hhh (anyBad_tail hbt).1 hp'
              obtain ⟨e2', rfl, hsub2⟩ := substItems_op_cons hsub'
              have hpaste1 : pasteAll lx (Elem.op :: e2') (Elem.pm :: done) = .ok es := by
                simpa [pasteAll] using hpaste
              cases rest2 with
              | nil =>
                exfalso
                rw [parse_nil hp2] at hsub2
                simp only [substItems, Except.ok.injEq] at hsub2
                subst hsub2
                exact pasteAll_op_last lx _ _ hpaste1
              | cons rhs rest3 =>
                obtain ⟨k', rfl⟩ : ∃ k', k = k' + 1 := ⟨k - 1, by simp only [List.length_cons] at hpf; omega⟩
                obtain ⟨hbh2, hbt2⟩ := anyBad_tail hbt
                -- the `while` loop of the C code: every `q ##` with an empty `q` is one `placemarker ## placemarker`
                obtain ⟨hh', j, items2', e2'', hhh', hbh', hbt', hj, hp2', hsub2', hpaste1', hstop⟩ :=
                  skip_sim lx done es rest3 rhs hh2 k' items2 e2' hhh hbh2 hbt2
                    (by simp only [List.length_cons] at hpf; omega) hp2 hsub2 hpaste1
                have hskc := skipEmptyOperands_congr (emptyParam_core hcore) rest3 rhs
                have hskl := skipEmptyOperands_length args0 rest3 rhs
                generalize skipEmptyOperands args0 rhs rest3 = sk at hbh' hbt' hj hp2' hstop hskc hskl
                obtain ⟨rhs', rest4⟩ := sk
                simp only at hbh' hbt' hj hp2' hstop hskl
                obtain ⟨hbh3, hbt3⟩ := anyBad_tail hbt'
                rcases rhs_step hhh' hbh' hbt' hp2' hsub2' with ⟨e, rfl⟩ | ⟨items3, e3, hp3, hsub3, hcase⟩
                · exact absurd hpaste1' (pasteAll_op_op lx _ _ _)
                have hmodel : ∀ (out : List Tok) (args' : List MacroArg) (st' : St),
                    (match findArg args (some rhs') with
                      | some a2 => substLoop lx (purePP full) isObj n st args rest4 (a2.toks.reverse ++ acc)
                      | none => substLoop lx (purePP full) isObj n st args rest4 (rhs' :: acc)) = .ok (out, args', st') →
                    substLoop lx (purePP full) isObj (n + 1) st args (tok :: hh2 :: rhs :: rest3) acc = .ok (out, args', st') := by
                  intro out args' st' hm
                  unfold substLoop
                  simp only [hh, Bool.false_eq_true, if_false]
                  rw [hg]
                  simp only [h2', Bool.false_eq_true, if_false, ha, hnx, if_true, List.drop_succ_cons, List.drop_zero]
                  rw [htoks, htk]
                  simp only [hskc]
                  exact hm
                rcases hcase with ⟨a2_0, ha2_0, W, hW, hWnil, rfl⟩ | ⟨hnone, rfl⟩
                · obtain ⟨a2, ha2, _, _, htoks2⟩ := findArg_of_core_symm hcore ha2_0
                  rw [pasteAll_pm_raw] at hpaste1'
                  -- a placemarker stays on top only when the loop stopped at an empty argument: then no `##` follows
                  have hnext : PmTop ((rawOrPlacemarker W).reverse ++ done) = true → textIs rest4.head? "##" = false := by
                    intro hpt
                    have hWe := pmTop_raw W done hpt
                    have ha2e : a2_0.toks = [] := hWnil.1 hWe
                    have hemp : emptyParam args0 rhs' = true := by simp [emptyParam, ha2_0, ha2e]
                    cases hx : textIs rest4.head? "##" with
                    | false => rfl
                    | true =>
                      exfalso
                      have hlen := hstop hemp hx
                      obtain ⟨h3, rfl⟩ : ∃ h3, rest4 = [h3] := List.length_eq_one_iff.1 hlen
                      obtain ⟨j', rfl⟩ : ∃ j', j = j' + 1 := ⟨j - 1, by simp only [List.length_cons] at hj; omega⟩
                      exact paste_single_op_absurd lx (by simpa [textIs] using hx) (anyBad_tail hbt3).1 hp3 hsub3 hpaste1'
                  obtain ⟨out, args', st', hm, hs⟩ := ih st args rest4 (a2.toks.reverse ++ acc)
                    ((rawOrPlacemarker W).reverse ++ done) j items3 e3 es
                    (by simp only [List.length_cons] at hfuel; omega) hj
                    hcore hcache hbt3 hnext
                    (by rw [spell_append, spell_reverse, dropPM_raw, spell_append, spell_reverse, hW, hR, htoks2])
                    hp3 hsub3 hpaste1'
                  exact ⟨out, args', st', hmodel out args' st' (by rw [ha2]; exact hm), hs⟩
                · have hnone' : findArg args (some rhs') = none := findArg_none_core hcore.symm hnone
                  have hpaste2 : pasteAll lx e3 (Elem.tok rhs' :: done) = .ok es := by
                    simpa [pasteAll, combine] using hpaste1'
                  obtain ⟨out, args', st', hm, hs⟩ := ih st args rest4 (rhs' :: acc) (Elem.tok rhs' :: done) j items3 e3 es
                    (by simp only [List.length_cons] at hfuel; omega) hj
                    hcore hcache hbt3
                    (by simp [PmTop]) (by rw [spell_cons, dropPM_cons_tok, spell_cons, hR]) hp3 hsub3 hpaste2
                  exact ⟨out, args', st', hmodel out args' st' (by rw [hnone']; exact hm), hs⟩
        · -- plain parameter: the completely macro-replaced argument
          have hnx' : textIs rest.head? "##" = false := by simpa using hnx
          simp only [hnx', Bool.false_eq_true, if_false] at he1
          subst he1
          rw [pasteAll_toks] at hpaste
          have hR' : spell ((setHeadFlags (full a.toks) tok.atBol tok.hasSpace).reverse ++ acc) =
              spell (dropPlacemarkers (((withSpacingOf tok (full a0.toks)).map Elem.tok).reverse ++ done)) := by
            rw [spell_append, spell_reverse, spell_setHeadFlags, dropPM_push, spell_append, spell_reverse,
              spell_withSpacingOf, hR, htoks]
          have hmem := findArg_mem ha
          rcases hcache a hmem with hex | hex
          · -- first use: expand a copy
            obtain ⟨out, args', st', hm, hs⟩ := ih st (setExpanded args a.name (full a.toks)) rest
              ((setHeadFlags (full a.toks) tok.atBol tok.hasSpace).reverse ++ acc)
              (((withSpacingOf tok (full a0.toks)).map Elem.tok).reverse ++ done) pf' items' e2 es
              (by omega) (by omega) (by rw [setExpanded_core]; exact hcore) (cacheOK_setExpanded hcache ha)
              hbt (fun _ => hnx') hR' hp' hsub' hpaste
            refine ⟨out, args', st', ?_, hs⟩
            unfold substLoop
            simp only [hh, Bool.false_eq_true, if_false]
            rw [hg]
            simp only [h2', Bool.false_eq_true, if_false, ha, hnx', hex, purePP, addHideset_nil]
            exact hm
          · obtain ⟨out, args', st', hm, hs⟩ := ih st args rest
              ((setHeadFlags (full a.toks) tok.atBol tok.hasSpace).reverse ++ acc)
              (((withSpacingOf tok (full a0.toks)).map Elem.tok).reverse ++ done) pf' items' e2 es
              (by omega) (by omega) hcore hcache hbt (fun _ => hnx') hR' hp' hsub' hpaste
            refine ⟨out, args', st', ?_, hs⟩
            unfold substLoop
            simp only [hh, Bool.false_eq_true, if_false]
            rw [hg]
            simp only [h2', Bool.false_eq_true, if_false, ha, hnx', hex]
            exact hm
      · -- any other token
        obtain ⟨e1, e2, rfl, hsub', he1⟩ := substItems_cons_ok hsub (by intro c h; cases h)
        simp only at he1
        subst he1
        have hfa : findArg args (some tok) = none := by
          have : findArg args0 (some tok) = none := by
            have := isParam_iff args0 tok
            rw [hip] at this
            cases h : findArg args0 (some tok) with
            | none => rfl
            | some a => rw [h] at this; simp at this
          exact findArg_none_core hcore.symm this
        have hpaste' : pasteAll lx e2 (.tok tok :: done) = .ok es := by simpa [pasteAll] using hpaste
        simp only [badHead, Bool.or_eq_false_iff] at hbh
        have hh : (tok.text == "#" && !isObj) = false := by
          cases hc : (tok.text == "#" && !isObj) with
          | false => rfl
          | true => simp only [Bool.and_eq_true, beq_iff_eq] at hc; exact absurd ⟨hc.1, by simpa using hc.2⟩ h1
        have h2' : (tok.text == "##") = false := by simpa using h2
        obtain ⟨out, args', st', hm, hs⟩ := ih st args rest (tok :: acc) (.tok tok :: done) pf' items' e2 es
          (by omega) (by omega) hcore hcache hbt (by simp [PmTop])
          (by rw [spell_cons, dropPM_cons_tok, spell_cons, hR]) hp' hsub' hpaste'
        refine ⟨out, args', st', ?_, hs⟩
        unfold substLoop
        simp only [hh, Bool.false_eq_true, if_false, hbh.1.1, h2', hfa, hbh.1.2]
        have hg := model_gnu_none hcore (tok := tok) (rest := rest) hbh.1.1
        rw [hg]
        exact hm
end ChibiVerif.PP

namespace ChibiVerif.PP
open ChibiVerif.Spec.PPSpec

/-- the arguments come straight from `read_macro_args`: nothing is cached yet -/
def FreshArgs (args : List MacroArg) : Prop := ∀ a ∈ args, a.expanded = none

instance (args : List MacroArg) : Decidable (FreshArgs args) := by unfold FreshArgs; infer_instance

/-- outside C11 6.10.3 proper or unspecified by it: GNU `, ##` in front of the variable parameter, C2x `__VA_OPT__ (`,
    and `## #` in a function-like macro (6.10.3.2p2: order of evaluation of `#` and `##`).  Nothing else is excluded: a `##`
    whose right operand is `##` is rejected by the specification itself (`pasteAll_op_op`), chains of `##` over empty
    arguments are covered (`skip_sim`) -/
def NoExtension (body : List Tok) (args : List MacroArg) : Prop := anyBad true args body = false

instance (body : List Tok) (args : List MacroArg) : Decidable (NoExtension body args) := by
  unfold NoExtension; infer_instance

/-- `subst` (function-like macro, pure pre-expander) produces the spellings of `Spec.subst` whenever the
    specification defines them, for every replacement list without the three constructs of `NoExtension` -/
theorem subst_spec_of_region (lx : String → LexOne) (full : List Tok → List Tok) (body : List Tok) (args : List MacroArg)
    (s : List Tok)
    (hext : NoExtension body args) (hfresh : FreshArgs args)
    (hspec : ChibiVerif.Spec.PPSpec.subst lx full true body args = .ok s) :
    ∃ m st', subst lx (purePP full) {} body args false = .ok (m, st') ∧ spell m = spell s := by
  unfold ChibiVerif.Spec.PPSpec.subst substPhases at hspec
  split at hspec
  · simp at hspec
  · rename_i items hparse
    split at hspec
    · simp at hspec
    · simp only [Except.map] at hspec
      split at hspec
      · simp at hspec
      · rename_i elems hsub
        split at hspec
        · simp at hspec
        · rename_i es hpaste
          simp only [Except.ok.injEq] at hspec
          subst hspec
          obtain ⟨out, args', st', hm, hs⟩ := subst_sim lx full false args _ _ (body.length + 1) {} args body [] []
            (body.length + 1) items elems es (by omega) (by omega) rfl
            (fun a ha => Or.inl (hfresh a ha)) hext (by simp [PmTop]) (by simp [spell, dropPlacemarkers])
            hparse hsub hpaste
          refine ⟨out, st', ?_, hs⟩
          simp [subst, hm, Except.map]

end ChibiVerif.PP
