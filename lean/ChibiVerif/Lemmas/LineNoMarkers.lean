/-
Lemmas about the `#line` marker list of a `File` (Model/LineNo.lean: `readLineMarker`, `lineMarkerAt`, `runFile`) and its
relation to the positional specification `Spec.Line.inForce` (C18).
-/
import ChibiVerif.Model.LineNo
import ChibiVerif.Spec.LineSpec
import ChibiVerif.Lemmas.LineNoLemmas

namespace ChibiVerif.LineNo
open ChibiVerif.Spec.Line (Dir lower inForce namedInForce presumedLineAt presumedFileAt presumedLine)

/-! ### reverse induction on lists (core Lean has no `List.reverseRecOn`) -/

theorem list_snoc_induction {α : Type} {P : List α → Prop} (nil : P [])
    (snoc : ∀ (l : List α) (a : α), P l → P (l ++ [a])) : ∀ l, P l := by
  have key : ∀ r : List α, P r.reverse := by
    intro r
    induction r with
    | nil => exact nil
    | cons a r ih => rw [List.reverse_cons]; exact snoc _ _ ih
  intro l
  have := key l.reverse
  rwa [List.reverse_reverse] at this

theorem list_nil_or_snoc {α : Type} (l : List α) : l = [] ∨ ∃ r a, l = r ++ [a] := by
  induction l using list_snoc_induction with
  | nil => exact Or.inl rfl
  | snoc r a _ => exact Or.inr ⟨r, a, rfl⟩

/-! ### the directives among the events of a file -/

/-- the directive an event is, by position (line of its `#` as `add_line_numbers` computes it) -/
def Ev.dir? (text : List Nat) : Ev → Option Dir
  | .lineDir off n name => some ⟨lineNoOf text off, n, name⟩
  | _ => none

/-- the directives among the events, in processing order -/
def dirsOf (text : List Nat) (evs : List Ev) : List Dir := evs.filterMap (Ev.dir? text)

/-- `read_line_marker` for each directive in turn -/
def pushDirs (f : File) (ds : List Dir) : File :=
  ds.foldl (fun f d => readLineMarker f (d.line : Int) d.n d.name) f

theorem dirsOf_append (text : List Nat) (e₁ e₂ : List Ev) : dirsOf text (e₁ ++ e₂) = dirsOf text e₁ ++ dirsOf text e₂ := by
  simp [dirsOf, List.filterMap_append]

theorem dirsOf_noDir (text : List Nat) (evs : List Ev) (h : ∀ e ∈ evs, e.isDir = false) : dirsOf text evs = [] := by
  induction evs with
  | nil => rfl
  | cons e r ih =>
    have hr : ∀ e ∈ r, e.isDir = false := fun e he => h e (by simp [he])
    have he := h e (by simp)
    cases e <;> simp_all [dirsOf, Ev.dir?, Ev.isDir]

theorem stateAfter_eq_pushDirs (text : List Nat) (f : File) (evs : List Ev) :
    stateAfter text f evs = pushDirs f (dirsOf text evs) := by
  induction evs generalizing f with
  | nil => rfl
  | cons e r ih => cases e <;> simp [stateAfter, dirsOf, Ev.dir?, pushDirs, ih] <;> rfl

theorem pushDirs_append (f : File) (a b : List Dir) : pushDirs f (a ++ b) = pushDirs (pushDirs f a) b := by
  simp [pushDirs, List.foldl_append]

@[simp] theorem pushDirs_nil (f : File) : pushDirs f [] = f := rfl

@[simp] theorem pushDirs_cons (f : File) (d : Dir) (r : List Dir) :
    pushDirs f (d :: r) = pushDirs (readLineMarker f (d.line : Int) d.n d.name) r := rfl

theorem pushDirs_name (f : File) (ds : List Dir) : (pushDirs f ds).name = f.name := by
  induction ds generalizing f with
  | nil => rfl
  | cons d r ih => simp [ih, readLineMarker]

theorem pushDirs_fileNo (f : File) (ds : List Dir) : (pushDirs f ds).fileNo = f.fileNo := by
  induction ds generalizing f with
  | nil => rfl
  | cons d r ih => simp [ih, readLineMarker]

/-! ### `line_marker_at` -/

/-- what the walk returns is a marker of the list that lies strictly above the line -/
theorem lineMarkerAt_some (ms : List LineMarker) (l : Int) (m : LineMarker) (h : lineMarkerAt ms l = some m) :
    m ∈ ms ∧ m.lineNo < l := by
  induction ms with
  | nil => simp [lineMarkerAt] at h
  | cons a r ih =>
    simp only [lineMarkerAt] at h
    split at h
    · have := ih h; exact ⟨by simp [this.1], this.2⟩
    · simp only [Option.some.injEq] at h; subst h; exact ⟨by simp, by omega⟩

/-- directives at or below line `l` are skipped by the walk, whenever they were processed -/
theorem lineMarkerAt_pushDirs_below (f : File) (ds : List Dir) (l : Nat) (h : ∀ d ∈ ds, l ≤ d.line) :
    lineMarkerAt (pushDirs f ds).markers (l : Int) = lineMarkerAt f.markers (l : Int) := by
  induction ds generalizing f with
  | nil => rfl
  | cons d r ih =>
    have hd : l ≤ d.line := h d (by simp)
    rw [pushDirs_cons, ih _ (fun x hx => h x (by simp [hx]))]
    simp only [readLineMarker, lineMarkerAt]
    rw [if_pos (by omega)]

/-- the last directive pushed, if it lies above line `l`, is the one the walk returns -/
theorem lineMarkerAt_pushDirs_snoc (f : File) (ds : List Dir) (d : Dir) (l : Nat) (h : d.line < l) :
    lineMarkerAt (pushDirs f (ds ++ [d])).markers (l : Int)
      = some ⟨d.line, d.n - d.line, (pushDirs f (ds ++ [d])).displayName⟩ := by
  rw [pushDirs_append]
  simp only [pushDirs_cons, pushDirs_nil, readLineMarker, lineMarkerAt]
  rw [if_neg (by omega)]

/-! ### the display name after a run of directives -/

/-- `display_name` after the directives: the name of the last one that carries a name -/
theorem pushDirs_displayName (f : File) (ds : List Dir) :
    (pushDirs f ds).displayName
      = match (ds.filter (fun d => d.name.isSome)).getLast? with
        | some d => d.name.getD f.displayName
        | none => f.displayName := by
  induction ds using list_snoc_induction with
  | nil => rfl
  | snoc r d ih =>
    rw [pushDirs_append]
    simp only [pushDirs_cons, pushDirs_nil, readLineMarker, List.filter_append]
    cases hn : d.name with
    | none => simp [hn, ih]
    | some s => simp [hn]

/-! ### ascending lists: `inForce` is the last directive above the line -/

theorem foldl_lower_ascending (xs : List Dir) (b : Dir)
    (h : (b :: xs).Pairwise (fun a c => a.line < c.line)) :
    xs.foldl lower (some b) = some ((b :: xs).getLast (by simp)) := by
  induction xs generalizing b with
  | nil => rfl
  | cons x r ih =>
    have hbx : b.line < x.line := (List.pairwise_cons.mp h).1 x (by simp)
    have hr : (x :: r).Pairwise (fun a c => a.line < c.line) := (List.pairwise_cons.mp h).2
    simp only [List.foldl_cons, lower, if_pos hbx]
    rw [ih x hr]
    simp [List.getLast_cons]

theorem foldl_lower_none_ascending (xs : List Dir) (h : xs.Pairwise (fun a c => a.line < c.line)) :
    xs.foldl lower none = xs.getLast? := by
  cases xs with
  | nil => rfl
  | cons x r =>
    simp only [List.foldl_cons, lower]
    rw [foldl_lower_ascending r x h, List.getLast?_eq_some_getLast]

/-- for directives in ascending order, the one in force is the last one strictly above the line -/
theorem inForce_ascending (ds : List Dir) (l : Nat) (h : ds.Pairwise (fun a c => a.line < c.line)) :
    inForce ds l = (ds.filter (fun d => d.line < l)).getLast? :=
  foldl_lower_none_ascending _ (h.sublist List.filter_sublist)

/-- an ascending list splits at a line: first the directives above it, then those at or below it -/
theorem ascending_split (ds : List Dir) (l : Nat) (h : ds.Pairwise (fun a c => a.line < c.line)) :
    ds = ds.filter (fun d => d.line < l) ++ ds.filter (fun d => l ≤ d.line) := by
  induction ds with
  | nil => rfl
  | cons d r ih =>
    have hr := (List.pairwise_cons.mp h).2
    have hd := (List.pairwise_cons.mp h).1
    by_cases hp : d.line < l
    · have hp' : ¬ l ≤ d.line := by omega
      simp only [List.filter_cons, hp, hp', decide_true, if_true, decide_false, Bool.false_eq_true, if_false,
        List.cons_append]
      rw [← ih hr]
    · have hp' : l ≤ d.line := by omega
      have hall : ∀ x ∈ r, l ≤ x.line := fun x hx => by have := hd x hx; omega
      have h1 : r.filter (fun d => d.line < l) = [] := by
        simp only [List.filter_eq_nil_iff, decide_eq_true_eq]; intro x hx; have := hall x hx; omega
      have h2 : r.filter (fun d => l ≤ d.line) = r := by
        simp only [List.filter_eq_self, decide_eq_true_eq]; exact hall
      simp only [List.filter_cons, hp, hp', decide_true, if_true, decide_false, Bool.false_eq_true, if_false, h1, h2,
        List.nil_append]

/-! ### the positional characterisation of the marker walk -/

/-- what chibicc adds to the line of a token on line `l` of a file with the directives `dirs` (by position) -/
def deltaSpec (dirs : List Dir) (l : Nat) : Int :=
  match inForce dirs l with
  | none => 0
  | some d => d.n - d.line

/-- the line chibicc reports for a token on line `l`: the line after `#line N` is numbered N+1 (known finding
    `C18-line-directive-off-by-one`), i.e. the C11 presumed line plus one wherever a directive is in force -/
def reportedLineAt (dirs : List Dir) (l : Nat) : Int := (l : Int) + deltaSpec dirs l

theorem reportedLineAt_eq (dirs : List Dir) (l : Nat) :
    reportedLineAt dirs l = presumedLineAt dirs l + (if (inForce dirs l).isSome then 1 else 0) := by
  unfold reportedLineAt deltaSpec presumedLineAt presumedLine
  cases inForce dirs l <;> simp <;> omega

/-- **the walk is positional.**  `done` are the directives processed so far (in processing order), `later` any directives of
    the file not yet processed; if all of them together are in ascending order of line (a file is read from top to bottom) and
    those not yet processed lie at or below line `l` (a token is never passed on before the directives above it were read), then
    the marker found for line `l` is the directive that the positional specification names, over ALL directives of the file. -/
theorem markerAt_positional (name : String) (fileNo : Nat) (done later : List Dir) (l : Nat)
    (hasc : (done ++ later).Pairwise (fun a c => a.line < c.line)) (hlater : ∀ d ∈ later, l ≤ d.line) :
    deltaAt (pushDirs (newFile name fileNo) done) (l : Int) = deltaSpec (done ++ later) l ∧
    nameAt (pushDirs (newFile name fileNo) done) (l : Int) = presumedFileAt name (done ++ later) l := by
  have hdone : done.Pairwise (fun a c => a.line < c.line) := (List.pairwise_append.mp hasc).1
  have hlater0 : later.filter (fun d => d.line < l) = [] := by
    simp only [List.filter_eq_nil_iff, decide_eq_true_eq]
    intro d hd; have := hlater d hd; omega
  -- specification side: only `done`'s directives above the line count
  have hspec : inForce (done ++ later) l = (done.filter (fun d => d.line < l)).getLast? := by
    rw [inForce_ascending _ _ hasc, List.filter_append, hlater0, List.append_nil]
  have hnamedAsc : ((done ++ later).filter (fun d => d.name.isSome)).Pairwise (fun a c => a.line < c.line) :=
    hasc.sublist List.filter_sublist
  have hspecN : namedInForce (done ++ later) l
      = ((done.filter (fun d => d.line < l)).filter (fun d => d.name.isSome)).getLast? := by
    unfold namedInForce
    rw [inForce_ascending _ _ hnamedAsc, List.filter_append, List.filter_append]
    have : (later.filter (fun d => d.name.isSome)).filter (fun d => d.line < l) = [] := by
      simp only [List.filter_eq_nil_iff, decide_eq_true_eq, List.mem_filter]
      intro d hd; have := hlater d hd.1; omega
    rw [this, List.append_nil, List.filter_filter, List.filter_filter]
    congr 1
    apply List.filter_congr
    intro x _; exact Bool.and_comm _ _
  -- model side: split `done` at the line
  have hsplit := ascending_split done l hdone
  generalize habove : done.filter (fun d => d.line < l) = above at hsplit hspec hspecN
  generalize hbelow : done.filter (fun d => l ≤ d.line) = below at hsplit
  have hbelow' : ∀ d ∈ below, l ≤ d.line := by
    intro d hd
    rw [← hbelow] at hd
    simpa using (List.mem_filter.mp hd).2
  have hwalk : lineMarkerAt (pushDirs (newFile name fileNo) done).markers (l : Int)
      = lineMarkerAt (pushDirs (newFile name fileNo) above).markers (l : Int) := by
    rw [hsplit, pushDirs_append, lineMarkerAt_pushDirs_below _ _ _ hbelow']
  have hname : (pushDirs (newFile name fileNo) done).name = name := by rw [pushDirs_name]; rfl
  unfold deltaAt nameAt deltaSpec presumedFileAt
  rw [hwalk, hspec, hspecN, hname]
  rcases list_nil_or_snoc above with rfl | ⟨r, d, rfl⟩
  · simp [newFile, lineMarkerAt]
  · have hd : d.line < l := by
      have : d ∈ done.filter (fun d => d.line < l) := by rw [habove]; simp
      simpa using (List.mem_filter.mp this).2
    rw [lineMarkerAt_pushDirs_snoc _ _ _ _ hd, pushDirs_displayName]
    simp only [List.getLast?_append, List.getLast?_singleton, Option.some_or, newFile]
    refine ⟨trivial, ?_⟩
    cases ((r ++ [d]).filter (fun d => d.name.isSome)).getLast? <;> rfl

/-! ### positivity -/

/-- every marker records an operand ≥ 1 (`line_delta = N − line_no`, so `N = line_no + line_delta`) -/
def MarkersPositive (f : File) : Prop := ∀ m ∈ f.markers, 1 ≤ m.lineNo + m.lineDelta

theorem markersPositive_new (name : String) (fileNo : Nat) : MarkersPositive (newFile name fileNo) := by
  intro m hm; simp [newFile] at hm

theorem markersPositive_read (f : File) (h : MarkersPositive f) (l : Int) (n : Int) (name : Option String) (hn : 1 ≤ n) :
    MarkersPositive (readLineMarker f l n name) := by
  intro m hm
  simp only [readLineMarker, List.mem_cons] at hm
  rcases hm with rfl | hm
  · simp; omega
  · exact h m hm

/-- with positive markers a token on a line ≥ 1 is reported on a line ≥ 1 -/
theorem deltaAt_positive (f : File) (h : MarkersPositive f) (l : Int) (hl : 1 ≤ l) : 1 ≤ l + deltaAt f l := by
  unfold deltaAt
  cases hm : lineMarkerAt f.markers l with
  | none => simpa using hl
  | some m =>
    have := lineMarkerAt_some _ _ _ hm
    have := h m this.1
    simp only; omega

theorem lineNoOf_pos (text : List Nat) (off : Nat) : 1 ≤ lineNoOf text off := by unfold lineNoOf; omega

/-- the numeric payload of an output, if it has one -/
def Out.lineVal? : Out → Option Int
  | .tok l _ => some l
  | .line v => some v
  | .file _ => none

/-- the operand of a directive event -/
def Ev.operandOK : Ev → Bool
  | .lineDir _ n _ => decide (1 ≤ n)
  | _ => true

theorem runFile_positive (text : List Nat) (f : File) (evs : List Ev) (hf : MarkersPositive f)
    (hops : ∀ e ∈ evs, e.operandOK = true) :
    ∀ o ∈ runFile text f evs, ∀ v, o.lineVal? = some v → 1 ≤ v := by
  induction evs generalizing f with
  | nil => intro o ho; simp [runFile] at ho
  | cons e r ih =>
    have hr : ∀ e ∈ r, e.operandOK = true := fun e he => hops e (by simp [he])
    have hpos : ∀ off, (1 : Int) ≤ (lineNoOf text off : Int) := fun off => by have := lineNoOf_pos text off; omega
    cases e with
    | tok off =>
      intro o ho v hv
      simp only [runFile, List.mem_cons] at ho
      rcases ho with rfl | ho
      · simp only [Out.lineVal?, finalize, passThroughF, Option.some.injEq] at hv
        subst hv
        exact deltaAt_positive f hf _ (hpos off)
      · exact ih f hf hr o ho v hv
    | lineDir off n name =>
      have hn : 1 ≤ n := by simpa [Ev.operandOK] using hops (.lineDir off n name) (by simp)
      intro o ho v hv
      simp only [runFile] at ho
      exact ih _ (markersPositive_read f hf _ n name hn) hr o ho v hv
    | lineMac off =>
      intro o ho v hv
      simp only [runFile, List.mem_cons] at ho
      rcases ho with rfl | ho
      · simp only [Out.lineVal?, Option.some.injEq] at hv
        subst hv
        exact deltaAt_positive f hf _ (hpos off)
      · exact ih f hf hr o ho v hv
    | fileMac off =>
      intro o ho v hv
      simp only [runFile, List.mem_cons] at ho
      rcases ho with rfl | ho
      · simp [Out.lineVal?] at hv
      · exact ih f hf hr o ho v hv

end ChibiVerif.LineNo

namespace ChibiVerif.LineNo
open ChibiVerif.Spec.Line (Dir)

/-! ### events processed later that lie at or below the line do not matter -/

theorem deltaAt_pushDirs_below (f : File) (ds : List Dir) (l : Nat) (h : ∀ d ∈ ds, l ≤ d.line) :
    deltaAt (pushDirs f ds) (l : Int) = deltaAt f (l : Int) := by
  unfold deltaAt; rw [lineMarkerAt_pushDirs_below f ds l h]

theorem nameAt_pushDirs_below (f : File) (ds : List Dir) (l : Nat) (h : ∀ d ∈ ds, l ≤ d.line) :
    nameAt (pushDirs f ds) (l : Int) = nameAt f (l : Int) := by
  unfold nameAt; rw [lineMarkerAt_pushDirs_below f ds l h, pushDirs_name]

theorem deltaAt_stateAfter_below (text : List Nat) (f : File) (evs : List Ev) (l : Nat)
    (h : ∀ d ∈ dirsOf text evs, l ≤ d.line) :
    deltaAt (stateAfter text f evs) (l : Int) = deltaAt f (l : Int) := by
  rw [stateAfter_eq_pushDirs, deltaAt_pushDirs_below _ _ _ h]

theorem nameAt_stateAfter_below (text : List Nat) (f : File) (evs : List Ev) (l : Nat)
    (h : ∀ d ∈ dirsOf text evs, l ≤ d.line) :
    nameAt (stateAfter text f evs) (l : Int) = nameAt f (l : Int) := by
  rw [stateAfter_eq_pushDirs, nameAt_pushDirs_below _ _ _ h]

/-- a directive strictly above the line, just read: it is the one in force -/
theorem deltaAt_read_above (f : File) (ld l : Nat) (n : Int) (name : Option String) (h : ld < l) :
    deltaAt (readLineMarker f (ld : Int) n name) (l : Int) = n - ld := by
  simp only [deltaAt, readLineMarker, lineMarkerAt]; rw [if_neg (by omega)]

theorem nameAt_read_above (f : File) (ld l : Nat) (n : Int) (name : Option String) (h : ld < l) :
    nameAt (readLineMarker f (ld : Int) n name) (l : Int) = name.getD f.displayName := by
  simp only [nameAt, readLineMarker, lineMarkerAt]; rw [if_neg (by omega)]

/-- a directive at or below the line, just read: no influence -/
theorem deltaAt_read_below (f : File) (ld l : Nat) (n : Int) (name : Option String) (h : l ≤ ld) :
    deltaAt (readLineMarker f (ld : Int) n name) (l : Int) = deltaAt f (l : Int) := by
  simp only [deltaAt, readLineMarker, lineMarkerAt]; rw [if_pos (by omega)]

theorem nameAt_read_below (f : File) (ld l : Nat) (n : Int) (name : Option String) (h : l ≤ ld) :
    nameAt (readLineMarker f (ld : Int) n name) (l : Int) = nameAt f (l : Int) := by
  simp only [nameAt, readLineMarker, lineMarkerAt]; rw [if_pos (by omega)]

/-- the last output of a run that ends with a probe event -/
theorem runFile_last_tok (text : List Nat) (f : File) (evs : List Ev) (off : Nat) :
    (runFile text f (evs ++ [.tok off])).getLast?
      = some (.tok ((lineNoOf text off : Int) + deltaAt (stateAfter text f evs) (lineNoOf text off))
                   (nameAt (stateAfter text f evs) (lineNoOf text off))) := by
  rw [runFile_append]; simp [runFile, passThroughF, finalize]

theorem runFile_last_lineMac (text : List Nat) (f : File) (evs : List Ev) (off : Nat) :
    (runFile text f (evs ++ [.lineMac off])).getLast?
      = some (.line ((lineNoOf text off : Int) + deltaAt (stateAfter text f evs) (lineNoOf text off))) := by
  rw [runFile_append]; simp [runFile]

theorem runFile_last_fileMac (text : List Nat) (f : File) (evs : List Ev) (off : Nat) :
    (runFile text f (evs ++ [.fileMac off])).getLast?
      = some (.file (nameAt (stateAfter text f evs) (lineNoOf text off))) := by
  rw [runFile_append]; simp [runFile]

/-- state after `pre ++ directive :: post` -/
theorem stateAfter_dir (text : List Nat) (f : File) (pre post : List Ev) (d : Nat) (n : Int) (name : Option String) :
    stateAfter text f (pre ++ .lineDir d n name :: post)
      = stateAfter text (readLineMarker (stateAfter text f pre) (lineNoOf text d) n name) post := by
  rw [stateAfter_append]; rfl

end ChibiVerif.LineNo
