/-
Helper lemmas for C10, the include machine with the nesting limit (Model/IncludeDepth.lean):
* `runIncD_lines`, `runIncD_files`: for every file system a step budget exists with which the spliced-stream
  machine `runIncD` (the transcription of the C code) computes the total function `runAt` / `runTop`
* `runLines_nested_chain`: the diagnostic "#include nested too deeply" implies a chain of `limit` nested includes
* `runLines_no_outOfFuel`: the total machine never reports `outOfFuel`
-/
import ChibiVerif.Model.IncludeDepth
import ChibiVerif.Lemmas.IncludeSearchLemmas

namespace ChibiVerif.IncludeDepth
open ChibiVerif.CondIncl ChibiVerif.IncludeSearch ChibiVerif.IncludeOperand
variable {ε β : Type}

theorem runAt_eq (ev : ε → Defs β → Except Diag Bool) (xp : Xp β) (fs : XFS ε β) (paths : List String) (g : Bool) (r : Nat)
    (file : String) (ls : List (XLine ε β)) (m : Mode) (s : IState β) :
    runAt ev xp fs paths g r file ls m s = runLines ev xp fs paths g (subOf ev xp fs paths g r) file 1 ls m s := by
  cases r <;> rfl

theorem runIncD_nil (ev : ε → Defs β → Except Diag Bool) (xp : Xp β) (fs : XFS ε β) (paths : List String) (g : Bool) (limit f : Nat)
    (m : Mode) (s : IState β) : runIncD ev xp fs paths g limit f [] m s = .ok (s, m) := by
  cases f <;> rfl

-- ------------------------------------------------------------------ the spliced stream computes the total function

/-- what the simulation needs to know about `sub` for lines of nesting depth `d` -/
def SubSim (ev : ε → Defs β → Except Diag Bool) (xp : Xp β) (fs : XFS ε β) (paths : List String) (g : Bool) (limit d : Nat)
    (sub : Sub ε β) : Prop :=
  match sub with
  | none => limit ≤ d
  | some f => d < limit ∧ ∀ (path : String) (ls : List (XLine ε β)) (m : Mode) (s : IState β) (rest : List (Src × XLine ε β)),
      ∃ N, ∀ fuel, runIncD ev xp fs paths g limit (fuel + N) (tagLines path (d + 1) 1 ls ++ rest) m s =
        match f path ls m s with
        | .error e => .error e
        | .ok (s', m') => runIncD ev xp fs paths g limit fuel rest m' s'

/-- one level: the lines of one file inside the stream -/
theorem runIncD_level (ev : ε → Defs β → Except Diag Bool) (xp : Xp β) (fs : XFS ε β) (paths : List String) (g : Bool) (limit d : Nat)
    (sub : Sub ε β) (hsub : SubSim ev xp fs paths g limit d sub) (file : String) (rest : List (Src × XLine ε β)) :
    ∀ (ls : List (XLine ε β)) (i : Nat) (m : Mode) (s : IState β),
      ∃ N, ∀ fuel, runIncD ev xp fs paths g limit (fuel + N) (tagLines file d i ls ++ rest) m s =
        match runLines ev xp fs paths g sub file i ls m s with
        | .error e => .error e
        | .ok (s', m') => runIncD ev xp fs paths g limit fuel rest m' s' := by
  intro ls
  induction ls with
  | nil => intro i m s; exact ⟨0, fun fuel => by simp [tagLines, runLines]⟩
  | cons l ls ih =>
    intro i m s
    cases hp : preStep ev xp fs paths g file l m s with
    | error e =>
      exact ⟨1, fun fuel => by simp [tagLines, runIncD, runLines, hp]⟩
    | ok p =>
      obtain ⟨o, s', m'⟩ := p
      cases o with
      | none =>
        obtain ⟨N, hN⟩ := ih (i + 1) m' s'
        refine ⟨N + 1, fun fuel => ?_⟩
        have := hN fuel
        simp only [tagLines, List.cons_append, ← Nat.add_assoc, runIncD, runLines, hp]
        exact this
      | some path =>
        cases sub with
        | none =>
          have hle : limit ≤ d := hsub
          exact ⟨1, fun fuel => by simp [tagLines, runIncD, runLines, hp, hle]⟩
        | some f =>
          obtain ⟨hlt, hf⟩ := hsub
          have hnle : ¬ limit ≤ d := Nat.not_le.mpr hlt
          cases ho : openFile fs path s' with
          | error e =>
            exact ⟨1, fun fuel => by simp [tagLines, runIncD, runLines, hp, hnle, ho]⟩
          | ok q =>
            obtain ⟨fl, s''⟩ := q
            obtain ⟨N1, h1⟩ := hf path fl m' s'' (tagLines file d (i + 1) ls ++ rest)
            cases hr : f path fl m' s'' with
            | error e =>
              refine ⟨N1 + 1, fun fuel => ?_⟩
              have := h1 fuel
              rw [hr] at this
              simp only [tagLines, List.cons_append, ← Nat.add_assoc, runIncD, runLines, hp, hnle, if_false, ho, hr]
              exact this
            | ok q2 =>
              obtain ⟨s3, m3⟩ := q2
              obtain ⟨N2, h2⟩ := ih (i + 1) m3 s3
              refine ⟨N2 + N1 + 1, fun fuel => ?_⟩
              have e1 := h1 (fuel + N2)
              rw [hr] at e1
              have e2 := h2 fuel
              simp only [tagLines, List.cons_append, ← Nat.add_assoc, runIncD, runLines, hp, hnle, if_false, ho, hr]
              simp only at e1
              rw [e1]
              exact e2

/-- every level: a file that may nest `r ≤ limit` levels stands in the stream at depth `limit − r` -/
theorem subSim_subOf (ev : ε → Defs β → Except Diag Bool) (xp : Xp β) (fs : XFS ε β) (paths : List String) (g : Bool) (limit : Nat) :
    ∀ (r : Nat), r ≤ limit → SubSim ev xp fs paths g limit (limit - r) (subOf ev xp fs paths g r) := by
  intro r
  induction r with
  | zero => intro _; simp [SubSim, subOf]
  | succ r ih =>
    intro hr
    have hr' : r ≤ limit := Nat.le_of_succ_le hr
    refine ⟨by omega, ?_⟩
    intro path ls m s rest
    have hd : limit - (r + 1) + 1 = limit - r := by omega
    rw [hd, runAt_eq]
    exact runIncD_level ev xp fs paths g limit (limit - r) _ (ih hr') path rest ls 1 m s

/-- **the lines of one file**: with enough budget the spliced-stream machine does to the lines of a
    file at depth `limit − r` exactly what the total function `runLines` does, then goes on -/
theorem runIncD_lines (ev : ε → Defs β → Except Diag Bool) (xp : Xp β) (fs : XFS ε β) (paths : List String) (g : Bool) (limit r : Nat)
    (hr : r ≤ limit) (file : String) (ls : List (XLine ε β)) (i : Nat) (m : Mode) (s : IState β) (rest : List (Src × XLine ε β)) :
    ∃ N, ∀ fuel, runIncD ev xp fs paths g limit (fuel + N) (tagLines file (limit - r) i ls ++ rest) m s =
      match runLines ev xp fs paths g (subOf ev xp fs paths g r) file i ls m s with
      | .error e => .error e
      | .ok (s', m') => runIncD ev xp fs paths g limit fuel rest m' s' :=
  runIncD_level ev xp fs paths g limit (limit - r) _ (subSim_subOf ev xp fs paths g limit r hr) file rest ls i m s

/-- **the whole input**: the -include files and the main file -/
theorem runIncD_files (ev : ε → Defs β → Except Diag Bool) (xp : Xp β) (fs : XFS ε β) (paths : List String) (g : Bool) (limit : Nat) :
    ∀ (files : List (String × List (XLine ε β))) (m : Mode) (s : IState β),
      ∃ N, ∀ fuel, N ≤ fuel →
        runIncD ev xp fs paths g limit fuel (tagFiles files) m s = runTop ev xp fs paths g limit files m s := by
  intro files
  induction files with
  | nil => intro m s; exact ⟨0, fun fuel _ => by simp [tagFiles, runTop, runIncD_nil]⟩
  | cons x more ih =>
    intro m s
    obtain ⟨file, ls⟩ := x
    obtain ⟨N1, h1⟩ := runIncD_lines ev xp fs paths g limit limit (Nat.le_refl _) file ls 1 m s (tagFiles more)
    simp only [Nat.sub_self] at h1
    cases hr : runAt ev xp fs paths g limit file ls m s with
    | error e =>
      refine ⟨N1, fun fuel hle => ?_⟩
      have := h1 (fuel - N1)
      rw [← runAt_eq, hr, Nat.sub_add_cancel hle] at this
      simp only [tagFiles, runTop, hr]
      exact this
    | ok q =>
      obtain ⟨s', m'⟩ := q
      obtain ⟨N2, h2⟩ := ih m' s'
      refine ⟨N2 + N1, fun fuel hle => ?_⟩
      have := h1 (fuel - N1)
      rw [← runAt_eq, hr, Nat.sub_add_cancel (by omega)] at this
      simp only [tagFiles, runTop, hr]
      rw [this]
      exact h2 (fuel - N1) (by omega)

-- ------------------------------------------------------------------ what `preStep` can answer

/-- the line is an #include (`next = false`) / #include_next (`next = true`) directive whose operand can be the
    file name `name` in form `dq` (for the macro form: under some macro table) -/
def IsIncl (xp : Xp β) (file : String) (l : XLine ε β) (next : Bool) (name : String) (dq : Bool) : Prop :=
  (next = false ∧ l = .base (.incl dq name)) ∨ (next = true ∧ l = .base (.includeNext name)) ∨
  (∃ toks defs, l = .inclMacro next toks ∧ readOperand (xp defs file) toks = .ok (name, dq))

theorem mkTarget_some (g : Bool) (p : String) (s1 s' : IState β) (m' : Mode) (path : String)
    (h : mkTarget g p s1 = (some path, s', m')) : path = p ∧ m' = .proc := by
  simp only [mkTarget, Prod.mk.injEq] at h
  obtain ⟨h1, _, h3⟩ := h
  refine ⟨?_, h3.symm⟩
  split at h1
  · cases h1
  · exact (Option.some.inj h1).symm

/-- the two shapes of `preStep`: a step of the conditional machine (no file asked for, the same with and
    without the guard table), or the target of an include directive -/
theorem preStep_shape (ev : ε → Defs β → Except Diag Bool) (xp : Xp β) (fs : XFS ε β) (paths : List String) (file : String)
    (l : XLine ε β) (m : Mode) (s : IState β) :
    (∃ r : Except Diag (St β × Mode), ∀ g, preStep ev xp fs paths g file l m s =
        match r with
        | .error e => .error e
        | .ok (st', m') => .ok (none, { s with st := st' }, m')) ∨
    (∃ e, ∀ g, preStep ev xp fs paths g file l m s = .error e) ∨
    (∃ o, ∀ g, preStep ev xp fs paths g file l m s = .ok (none, { s with once := o }, .proc)) ∨
    (m = .proc ∧ ∃ dq name, IsIncl xp file l false name dq ∧ ∀ g, preStep ev xp fs paths g file l m s =
        .ok (mkTarget g (resolveInclude fs.has paths s.cache file dq name).1
          { s with cache := (resolveInclude fs.has paths s.cache file dq name).2 })) ∨
    (m = .proc ∧ ∃ dq name, IsIncl xp file l true name dq ∧ ∀ g, preStep ev xp fs paths g file l m s =
        .ok (mkTarget g (resolveIncludeNext fs.has paths file name) s)) := by
  cases m with
  | skip d =>
    left; exact ⟨stepLine ev l.toLine (.skip d) s.st, fun g => by cases l with | base l0 => cases l0 <;> rfl | inclMacro n t => rfl⟩
  | proc =>
    cases l with
    | base l0 =>
      cases l0 with
      | c l1 => left; exact ⟨stepLine ev l1 .proc s.st, fun g => rfl⟩
      | pragmaOnce => right; right; left; exact ⟨file :: s.once, fun g => rfl⟩
      | incl dq name => right; right; right; left; exact ⟨rfl, dq, name, Or.inl ⟨rfl, rfl⟩, fun g => rfl⟩
      | includeNext name => right; right; right; right; exact ⟨rfl, true, name, Or.inr (Or.inl ⟨rfl, rfl⟩), fun g => rfl⟩
    | inclMacro next toks =>
      cases hr : readOperand (xp s.st.obs.defs file) toks with
      | error e => right; left; exact ⟨e, fun g => by simp only [preStep, hr]⟩
      | ok q =>
        obtain ⟨name, dq⟩ := q
        cases next with
        | false =>
          right; right; right; left
          exact ⟨rfl, dq, name, Or.inr (Or.inr ⟨toks, s.st.obs.defs, rfl, hr⟩), fun g => by simp only [preStep, hr]; rfl⟩
        | true =>
          right; right; right; right
          exact ⟨rfl, dq, name, Or.inr (Or.inr ⟨toks, s.st.obs.defs, rfl, hr⟩), fun g => by simp only [preStep, hr]; rfl⟩

/-- `preStep` asks for a file only for an #include / #include_next line reached in `preprocess2`'s own loop,
    and the file is the one the search functions name -/
theorem preStep_some (ev : ε → Defs β → Except Diag Bool) (xp : Xp β) (fs : XFS ε β) (paths : List String) (g : Bool) (file : String)
    (l : XLine ε β) (m m' : Mode) (s s' : IState β) (path : String)
    (h : preStep ev xp fs paths g file l m s = .ok (some path, s', m')) :
    m = .proc ∧ m' = .proc ∧
    ((∃ dq name, IsIncl xp file l false name dq ∧ path = (resolveInclude fs.has paths s.cache file dq name).1) ∨
     (∃ dq name, IsIncl xp file l true name dq ∧ path = resolveIncludeNext fs.has paths file name)) := by
  rcases preStep_shape ev xp fs paths file l m s with ⟨r, hr⟩ | ⟨e, he⟩ | ⟨o, ho⟩ | ⟨hm, dq, name, hi, ht⟩ | ⟨hm, dq, name, hi, ht⟩
  · rw [hr g] at h
    cases r with
    | error e => simp at h
    | ok q => simp at h
  · rw [he g] at h; simp at h
  · rw [ho g] at h; simp at h
  · rw [ht g] at h
    obtain ⟨h1, h2⟩ := mkTarget_some g _ _ s' m' path (Except.ok.inj h)
    exact ⟨hm, h2, Or.inl ⟨dq, name, hi, h1⟩⟩
  · rw [ht g] at h
    obtain ⟨h1, h2⟩ := mkTarget_some g _ _ s' m' path (Except.ok.inj h)
    exact ⟨hm, h2, Or.inr ⟨dq, name, hi, h1⟩⟩

theorem openFile_get (fs : XFS ε β) (path : String) (s s' : IState β) (ls : List (XLine ε β))
    (h : openFile fs path s = .ok (ls, s')) : fs.get path = some ls := by
  unfold openFile at h
  cases hg : fs.get path with
  | none => simp [hg] at h
  | some fl => simp only [hg, Except.ok.injEq, Prod.mk.injEq] at h; rw [h.1]

-- ------------------------------------------------------------------ "nested too deeply" only along a chain

/-- the include graph, independent of any run: the directive at line `i` (1-based) of `file`, whose lines are
    `full`, is an #include / #include_next that can name the file `q` (for the quoted and angle forms: under some
    content of the filename cache; for a macro operand: under some macro table) -/
def Names (xp : Xp β) (fs : XFS ε β) (paths : List String) (file : String) (full : List (XLine ε β)) (i : Nat) (q : String) : Prop :=
  ∃ l, 1 ≤ i ∧ full[i - 1]? = some l ∧
    ((∃ dq name cache, IsIncl xp file l false name dq ∧ q = (resolveInclude fs.has paths cache file dq name).1) ∨
     (∃ dq name, IsIncl xp file l true name dq ∧ q = resolveIncludeNext fs.has paths file name))

/-- `NestChain xp fs paths n file full f j`: there are files `file = p₀, p₁, …, pₙ = f` such that an include
    directive of `pₖ` names `pₖ₊₁`, every `pₖ₊₁` exists – n nested includes – and `f` itself has one more include
    directive, at line `j` -/
inductive NestChain (xp : Xp β) (fs : XFS ε β) (paths : List String) : Nat → String → List (XLine ε β) → String → Nat → Prop
  | here (file : String) (full : List (XLine ε β)) (i : Nat) (q : String) :
      Names xp fs paths file full i q → NestChain xp fs paths 0 file full file i
  | step (n : Nat) (file : String) (full : List (XLine ε β)) (i : Nat) (q : String) (qls : List (XLine ε β)) (f : String) (j : Nat) :
      Names xp fs paths file full i q → fs.get q = some qls → NestChain xp fs paths n q qls f j →
      NestChain xp fs paths (n + 1) file full f j

theorem runLines_nested_chain (ev : ε → Defs β → Except Diag Bool) (xp : Xp β) (fs : XFS ε β) (paths : List String) (g : Bool) :
    ∀ (r : Nat) (file : String) (full ls : List (XLine ε β)) (i : Nat) (m : Mode) (s : IState β) (f : String) (j : Nat),
      1 ≤ i → full.drop (i - 1) = ls →
      runLines ev xp fs paths g (subOf ev xp fs paths g r) file i ls m s = .error (.nestedTooDeeply f j) →
      NestChain xp fs paths r file full f j := by
  intro r
  induction r with
  | zero =>
    intro file full ls
    induction ls with
    | nil => intro i m s f j _ _ h; simp [runLines] at h
    | cons l ls ih =>
      intro i m s f j hi hdrop h
      have hl : full[i - 1]? = some l := by
        have := congrArg List.head? hdrop
        simpa [List.head?_drop] using this
      have hdrop' : full.drop (i + 1 - 1) = ls := by
        have := congrArg List.tail hdrop
        simpa [List.tail_drop, Nat.sub_add_cancel hi] using this
      simp only [runLines] at h
      cases hp : preStep ev xp fs paths g file l m s with
      | error e => simp [hp] at h
      | ok p =>
        obtain ⟨o, s', m'⟩ := p
        cases o with
        | none => simp only [hp] at h; exact ih (i + 1) m' s' f j (by omega) hdrop' h
        | some path =>
          simp only [hp, subOf, Except.error.injEq, IDiag.nestedTooDeeply.injEq] at h
          obtain ⟨hf, hj⟩ := h
          subst hf; subst hj
          obtain ⟨hm, _, hnames⟩ := preStep_some ev xp fs paths g file l m m' s s' path hp
          refine NestChain.here file full i path ⟨l, hi, hl, ?_⟩
          rcases hnames with ⟨dq, name, h1, h2⟩ | ⟨dq, name, h1, h2⟩
          · exact Or.inl ⟨dq, name, s.cache, h1, h2⟩
          · exact Or.inr ⟨dq, name, h1, h2⟩
  | succ r ihr =>
    intro file full ls
    induction ls with
    | nil => intro i m s f j _ _ h; simp [runLines] at h
    | cons l ls ih =>
      intro i m s f j hi hdrop h
      have hl : full[i - 1]? = some l := by
        have := congrArg List.head? hdrop
        simpa [List.head?_drop] using this
      have hdrop' : full.drop (i + 1 - 1) = ls := by
        have := congrArg List.tail hdrop
        simpa [List.tail_drop, Nat.sub_add_cancel hi] using this
      simp only [runLines] at h
      cases hp : preStep ev xp fs paths g file l m s with
      | error e => simp [hp] at h
      | ok p =>
        obtain ⟨o, s', m'⟩ := p
        cases o with
        | none => simp only [hp] at h; exact ih (i + 1) m' s' f j (by omega) hdrop' h
        | some path =>
          simp only [hp, subOf] at h
          obtain ⟨hm, _, hnames⟩ := preStep_some ev xp fs paths g file l m m' s s' path hp
          have hN : Names xp fs paths file full i path := by
            refine ⟨l, hi, hl, ?_⟩
            rcases hnames with ⟨dq, name, h1, h2⟩ | ⟨dq, name, h1, h2⟩
            · exact Or.inl ⟨dq, name, s.cache, h1, h2⟩
            · exact Or.inr ⟨dq, name, h1, h2⟩
          cases ho : openFile fs path s' with
          | error e => simp [ho] at h
          | ok q =>
            obtain ⟨fl, s''⟩ := q
            simp only [ho] at h
            cases hr : runAt ev xp fs paths g r path fl m' s'' with
            | error e =>
              simp only [hr, Except.error.injEq] at h
              subst h
              rw [runAt_eq] at hr
              exact NestChain.step r file full i path fl f j hN (openFile_get fs path s' s'' fl ho)
                (ihr path fl fl 1 m' s'' f j (Nat.le_refl _) (by simp) hr)
            | ok q2 =>
              obtain ⟨s3, m3⟩ := q2
              simp only [hr] at h
              exact ih (i + 1) m3 s3 f j (by omega) hdrop' h

/-- the same for the whole input: one of the files handed to `preprocess` heads the chain -/
theorem runTop_nested_chain (ev : ε → Defs β → Except Diag Bool) (xp : Xp β) (fs : XFS ε β) (paths : List String) (g : Bool) (limit : Nat) :
    ∀ (files : List (String × List (XLine ε β))) (m : Mode) (s : IState β) (f : String) (j : Nat),
      runTop ev xp fs paths g limit files m s = .error (.nestedTooDeeply f j) →
      ∃ x ∈ files, NestChain xp fs paths limit x.1 x.2 f j := by
  intro files
  induction files with
  | nil => intro m s f j h; simp [runTop] at h
  | cons x more ih =>
    intro m s f j h
    obtain ⟨file, ls⟩ := x
    simp only [runTop] at h
    cases hr : runAt ev xp fs paths g limit file ls m s with
    | error e =>
      simp only [hr, Except.error.injEq] at h
      subst h
      rw [runAt_eq] at hr
      exact ⟨(file, ls), List.mem_cons_self .., runLines_nested_chain ev xp fs paths g limit file ls ls 1 m s f j (Nat.le_refl _) (by simp) hr⟩
    | ok q =>
      obtain ⟨s', m'⟩ := q
      simp only [hr] at h
      obtain ⟨x, hx, hc⟩ := ih m' s' f j h
      exact ⟨x, List.mem_cons_of_mem _ hx, hc⟩

-- ------------------------------------------------------------------ no `outOfFuel`

theorem procLine_ne_outOfFuel (ev : ε → Defs β → Except Diag Bool) (hev : ∀ c d, ev c d ≠ .error .outOfFuel)
    (l : Line ε β) (s : St β) : procLine ev l s ≠ .error .outOfFuel := by
  intro h
  cases l with
  | plain p =>
    cases p <;> simp [procLine, procPlain, bind, Except.bind, pure, Except.pure] at h
  | opens hd =>
    cases hd with
    | ifE c =>
      simp only [procLine, evalHead, bind, Except.bind] at h
      cases hc : ev c s.obs.defs with
      | error e => rw [hc] at h; simp only [Except.error.injEq] at h; exact hev c _ (h ▸ hc)
      | ok v => rw [hc] at h; simp [pure, Except.pure] at h
    | ifdef n x => simp [procLine, evalHead, bind, Except.bind, pure, Except.pure] at h
    | ifndef n x => simp [procLine, evalHead, bind, Except.bind, pure, Except.pure] at h
    | noName => simp [procLine, evalHead, bind, Except.bind] at h
  | part ph =>
    cases ph with
    | elif c =>
      simp only [procLine] at h
      cases hs : s.stack with
      | nil => simp [hs] at h
      | cons f st =>
        simp only [hs] at h
        split at h
        · simp at h
        · split at h
          · simp [pure, Except.pure] at h
          · simp only [bind, Except.bind] at h
            cases hc : ev c s.obs.defs with
            | error e => rw [hc] at h; simp only [Except.error.injEq] at h; exact hev c _ (h ▸ hc)
            | ok v => rw [hc] at h; cases v <;> simp [pure, Except.pure] at h
    | els x =>
      simp only [procLine] at h
      cases hs : s.stack with
      | nil => simp [hs] at h
      | cons f st =>
        simp only [hs] at h
        split at h <;> simp [pure, Except.pure] at h
  | endif x =>
    simp only [procLine] at h
    cases hs : s.stack with
    | nil => simp [hs] at h
    | cons f st => simp [hs, pure, Except.pure] at h

theorem stepLine_ne_outOfFuel (ev : ε → Defs β → Except Diag Bool) (hev : ∀ c d, ev c d ≠ .error .outOfFuel)
    (l : Line ε β) (m : Mode) (s : St β) : stepLine ev l m s ≠ .error .outOfFuel := by
  cases m with
  | proc => exact procLine_ne_outOfFuel ev hev l s
  | skip d =>
    cases d with
    | zero =>
      cases l with
      | opens _ => simp [stepLine]
      | plain _ => simp [stepLine]
      | part ph => exact procLine_ne_outOfFuel ev hev (.part ph) s
      | endif x => exact procLine_ne_outOfFuel ev hev (.endif x) s
    | succ d => cases l <;> simp [stepLine]

theorem readDirect_ne_outOfFuel (ts : List OTok) : readDirect ts ≠ .error .outOfFuel := by
  unfold readDirect
  cases ts with
  | nil => simp
  | cons t rest =>
    simp only
    split
    · simp
    · split
      · split <;> simp
      · simp

theorem readOperand_ne_outOfFuel (x : List OTok → Except Diag (List OTok)) (hx : ∀ ts, x ts ≠ .error .outOfFuel)
    (ts : List OTok) : readOperand x ts ≠ .error .outOfFuel := by
  unfold readOperand
  cases ts with
  | nil => simp
  | cons t rest =>
    simp only
    split
    · cases hr : x (t :: rest) with
      | error e => simp only [Except.error.injEq, ne_eq]; intro h; subst h; exact hx _ hr
      | ok ts' =>
        cases ts' with
        | nil => simp
        | cons t' r' =>
          simp only
          split
          · simp
          · exact readDirect_ne_outOfFuel _
    · exact readDirect_ne_outOfFuel _

theorem preStep_ne_outOfFuel (ev : ε → Defs β → Except Diag Bool) (hev : ∀ c d, ev c d ≠ .error .outOfFuel)
    (xp : Xp β) (hxp : ∀ d f ts, xp d f ts ≠ .error .outOfFuel)
    (fs : XFS ε β) (paths : List String) (g : Bool) (file : String) (l : XLine ε β) (m : Mode) (s : IState β) :
    preStep ev xp fs paths g file l m s ≠ .error .outOfFuel := by
  have hline : ∀ (l0 : Line ε β) (m0 : Mode), (match stepLine ev l0 m0 s.st with
       | Except.error e => (Except.error e : Except Diag (Option String × IState β × Mode))
       | Except.ok (st', m1) => Except.ok (none, { s with st := st' }, m1)) ≠ Except.error .outOfFuel := by
    intro l0 m0 h0
    cases hst : stepLine ev l0 m0 s.st with
    | error e =>
      simp only [hst, Except.error.injEq] at h0
      exact stepLine_ne_outOfFuel ev hev l0 m0 s.st (h0 ▸ hst)
    | ok p => simp [hst] at h0
  cases m with
  | skip d =>
    have : preStep ev xp fs paths g file l (.skip d) s = (match stepLine ev l.toLine (.skip d) s.st with
       | Except.error e => (Except.error e : Except Diag (Option String × IState β × Mode))
       | Except.ok (st', m1) => Except.ok (none, { s with st := st' }, m1)) := by
      cases l with
      | base l0 => cases l0 <;> rfl
      | inclMacro n t => rfl
    rw [this]; exact hline _ _
  | proc =>
    cases l with
    | base l0 =>
      cases l0 with
      | c l1 => exact hline l1 .proc
      | pragmaOnce => simp [preStep]
      | incl dq name => simp [preStep]
      | includeNext name => simp [preStep]
    | inclMacro next toks =>
      simp only [preStep]
      cases hr : readOperand (xp s.st.obs.defs file) toks with
      | error e =>
        simp only [ne_eq, Except.error.injEq]
        intro h; subst h
        exact readOperand_ne_outOfFuel _ (hxp _ _) toks hr
      | ok q => simp

theorem openFile_ne_outOfFuel (fs : XFS ε β) (path : String) (s : IState β) : openFile fs path s ≠ .error .outOfFuel := by
  unfold openFile
  cases fs.get path <;> simp

/-- the total machine has no step budget to run out of -/
theorem runLines_no_outOfFuel (ev : ε → Defs β → Except Diag Bool) (hev : ∀ c d, ev c d ≠ .error .outOfFuel)
    (xp : Xp β) (hxp : ∀ d f ts, xp d f ts ≠ .error .outOfFuel) (fs : XFS ε β) (paths : List String) (g : Bool) :
    ∀ (r : Nat) (file : String) (ls : List (XLine ε β)) (i : Nat) (m : Mode) (s : IState β),
      runLines ev xp fs paths g (subOf ev xp fs paths g r) file i ls m s ≠ .error (.diag .outOfFuel) := by
  intro r
  induction r with
  | zero =>
    intro file ls
    induction ls with
    | nil => intro i m s; simp [runLines]
    | cons l ls ih =>
      intro i m s h
      simp only [runLines] at h
      cases hp : preStep ev xp fs paths g file l m s with
      | error e =>
        simp only [hp, Except.error.injEq, IDiag.diag.injEq] at h
        exact preStep_ne_outOfFuel ev hev xp hxp fs paths g file l m s (h ▸ hp)
      | ok p =>
        obtain ⟨o, s', m'⟩ := p
        cases o with
        | none => simp only [hp] at h; exact ih (i + 1) m' s' h
        | some path => simp [hp, subOf] at h
  | succ r ihr =>
    intro file ls
    induction ls with
    | nil => intro i m s; simp [runLines]
    | cons l ls ih =>
      intro i m s h
      simp only [runLines] at h
      cases hp : preStep ev xp fs paths g file l m s with
      | error e =>
        simp only [hp, Except.error.injEq, IDiag.diag.injEq] at h
        exact preStep_ne_outOfFuel ev hev xp hxp fs paths g file l m s (h ▸ hp)
      | ok p =>
        obtain ⟨o, s', m'⟩ := p
        cases o with
        | none => simp only [hp] at h; exact ih (i + 1) m' s' h
        | some path =>
          simp only [hp, subOf] at h
          cases ho : openFile fs path s' with
          | error e =>
            simp only [ho, Except.error.injEq, IDiag.diag.injEq] at h
            exact openFile_ne_outOfFuel fs path s' (h ▸ ho)
          | ok q =>
            obtain ⟨fl, s''⟩ := q
            simp only [ho] at h
            cases hr : runAt ev xp fs paths g r path fl m' s'' with
            | error e =>
              simp only [hr, Except.error.injEq] at h
              rw [runAt_eq, h] at hr
              exact ihr path fl 1 m' s'' hr
            | ok q2 =>
              obtain ⟨s3, m3⟩ := q2
              simp only [hr] at h
              exact ih (i + 1) m3 s3 h

theorem runTop_no_outOfFuel (ev : ε → Defs β → Except Diag Bool) (hev : ∀ c d, ev c d ≠ .error .outOfFuel)
    (xp : Xp β) (hxp : ∀ d f ts, xp d f ts ≠ .error .outOfFuel) (fs : XFS ε β) (paths : List String) (g : Bool) (limit : Nat) :
    ∀ (files : List (String × List (XLine ε β))) (m : Mode) (s : IState β),
      runTop ev xp fs paths g limit files m s ≠ .error (.diag .outOfFuel) := by
  intro files
  induction files with
  | nil => intro m s; simp [runTop]
  | cons x more ih =>
    intro m s h
    obtain ⟨file, ls⟩ := x
    simp only [runTop] at h
    cases hr : runAt ev xp fs paths g limit file ls m s with
    | error e =>
      simp only [hr, Except.error.injEq] at h
      rw [runAt_eq, h] at hr
      exact runLines_no_outOfFuel ev hev xp hxp fs paths g limit file ls 1 m s hr
    | ok q =>
      obtain ⟨s', m'⟩ := q
      simp only [hr] at h
      exact ih m' s' h

-- ------------------------------------------------------------------ whole runs

theorem cmdFiles_mem (fs : XFS ε β) (paths : List String) :
    ∀ (incs : List String) (cache : Cache) (main : String) (files : List (String × List (XLine ε β))) (c : Cache),
      cmdFiles fs paths incs cache main = .ok (files, c) → ∀ x ∈ files, fs.get x.1 = some x.2 := by
  intro incs
  induction incs with
  | nil =>
    intro cache main files c h x hx
    simp only [cmdFiles] at h
    cases hg : fs.get main with
    | none => simp [hg] at h
    | some ls =>
      simp only [hg, Except.ok.injEq, Prod.mk.injEq] at h
      rw [← h.1] at hx
      simp only [List.mem_singleton] at hx
      subst hx; exact hg
  | cons f fsn ih =>
    intro cache main files c h x hx
    simp only [cmdFiles] at h
    cases hr : resolveCmdInclude fs.has paths cache f with
    | error e => simp [hr] at h
    | ok q =>
      obtain ⟨p, cache'⟩ := q
      simp only [hr] at h
      cases hg : fs.get p with
      | none => simp [hg] at h
      | some ls =>
        simp only [hg] at h
        cases hrec : cmdFiles fs paths fsn cache' main with
        | error e => simp [hrec] at h
        | ok q2 =>
          obtain ⟨rest, c2⟩ := q2
          simp only [hrec, Except.ok.injEq, Prod.mk.injEq] at h
          rw [← h.1] at hx
          rcases List.mem_cons.mp hx with hx | hx
          · subst hx; exact hg
          · exact ih cache' main rest c2 hrec x hx

theorem finishD_error (r : Except IDiag (IState β × Mode)) (e : IDiag) (he : e ≠ .diag .unterminated)
    (h : finishD r = .error e) : r = .error e := by
  unfold finishD at h
  cases r with
  | error e' => simpa using h
  | ok q =>
    obtain ⟨s, m⟩ := q
    simp only at h
    split at h
    · cases h
    · simp only [Except.error.injEq] at h; exact absurd h.symm he

theorem finishD_congr (a b : Except IDiag (IState β × Mode)) (h : a = b) : finishD a = finishD b := by rw [h]

/-- `includeRunFuel` with enough budget is `includeRun` -/
theorem includeRunFuel_eq (ev : ε → Defs β → Except Diag Bool) (xp : Xp β) (fs : XFS ε β) (sysDirs : List String) (builtin : Defs β)
    (os : List (Opt β)) (main : String) (g : Bool) (limit : Nat) :
    ∃ N, ∀ fuel, N ≤ fuel →
      includeRunFuel ev xp fs sysDirs builtin os main g limit fuel = includeRun ev xp fs sysDirs builtin os main g limit := by
  unfold includeRunFuel includeRun
  dsimp only
  cases hc : cmdFiles fs (includePaths (optConfig sysDirs os)) (optIncludes os) [] main with
  | error e => exact ⟨0, fun _ _ => rfl⟩
  | ok q =>
    obtain ⟨files, cache⟩ := q
    obtain ⟨N, hN⟩ := runIncD_files ev xp fs (includePaths (optConfig sysDirs os)) g limit files .proc
      ⟨⟨⟨applyDU builtin os, []⟩, []⟩, [], [], cache⟩
    exact ⟨N, fun fuel hle => by simp only [hN fuel hle]⟩

theorem includeRun_no_outOfFuel (ev : ε → Defs β → Except Diag Bool) (hev : ∀ c d, ev c d ≠ .error .outOfFuel)
    (xp : Xp β) (hxp : ∀ d f ts, xp d f ts ≠ .error .outOfFuel) (fs : XFS ε β) (sysDirs : List String) (builtin : Defs β) (os : List (Opt β)) (main : String) (g : Bool) (limit : Nat) :
    includeRun ev xp fs sysDirs builtin os main g limit ≠ .error (.diag .outOfFuel) := by
  unfold includeRun
  dsimp only
  cases hc : cmdFiles fs (includePaths (optConfig sysDirs os)) (optIncludes os) [] main with
  | error e =>
    simp only
    intro h
    simp only [Except.error.injEq, IDiag.diag.injEq] at h
    subst h
    -- cmdFiles only reports cannotOpen
    have : ∀ (incs : List String) (cache : Cache), cmdFiles fs (includePaths (optConfig sysDirs os)) incs cache main ≠ .error .outOfFuel := by
      intro incs
      induction incs with
      | nil => intro cache; simp only [cmdFiles]; cases fs.get main <;> simp
      | cons f fsn ih =>
        intro cache
        simp only [cmdFiles]
        cases hr : resolveCmdInclude fs.has (includePaths (optConfig sysDirs os)) cache f with
        | error e =>
          simp only [resolveCmdInclude] at hr
          split at hr
          · cases hr
          · split at hr
            · cases hr
            · simp only [Except.error.injEq] at hr; subst hr; simp
        | ok q =>
          obtain ⟨p, cache'⟩ := q
          simp only
          cases fs.get p with
          | none => simp
          | some ls =>
            simp only
            cases hrec : cmdFiles fs (includePaths (optConfig sysDirs os)) fsn cache' main with
            | error e => simp only [Except.error.injEq, ne_eq]; intro h; subst h; exact ih cache' hrec
            | ok q2 => simp
    exact this _ _ hc
  | ok q =>
    obtain ⟨files, cache⟩ := q
    simp only
    intro h
    have := finishD_error _ _ (by simp) h
    exact runTop_no_outOfFuel ev hev xp hxp fs _ g limit files _ _ this

theorem includeRun_nested_chain (ev : ε → Defs β → Except Diag Bool) (xp : Xp β)
    (fs : XFS ε β) (sysDirs : List String) (builtin : Defs β) (os : List (Opt β)) (main : String) (g : Bool) (limit : Nat)
    (f : String) (j : Nat) (h : includeRun ev xp fs sysDirs builtin os main g limit = .error (.nestedTooDeeply f j)) :
    ∃ (p : String) (ls : List (XLine ε β)), fs.get p = some ls ∧
      NestChain xp fs (includePaths (optConfig sysDirs os)) limit p ls f j := by
  unfold includeRun at h
  dsimp only at h
  cases hc : cmdFiles fs (includePaths (optConfig sysDirs os)) (optIncludes os) [] main with
  | error e => simp [hc] at h
  | ok q =>
    obtain ⟨files, cache⟩ := q
    simp only [hc] at h
    have := finishD_error _ _ (by simp) h
    obtain ⟨x, hx, hch⟩ := runTop_nested_chain ev xp fs _ g limit files _ _ f j this
    exact ⟨x.1, x.2, cmdFiles_mem fs _ _ _ _ files cache hc x hx, hch⟩

end ChibiVerif.IncludeDepth
