/-
C01: which of the analysed instruction sequences the model (Model/C01Codegen over the generated tables) selects for each
(operator, computation type) — by kernel evaluation — and the C11 operator each node kind stands for.
-/
import ChibiVerif.Lemmas.C01ArithLemmas

namespace ChibiVerif.C01
open ChibiVerif.X86 ChibiVerif.Asm ChibiVerif.Spec.IntSpec ChibiVerif.Gen.CommonType ChibiVerif.C01Codegen

/-- the C11 operator a node kind of `add_type`'s switch stands for (`a > b` is parsed as `b < a`) -/
def specOp : NK → Option BinOp
  | .ND_ADD => some .add | .ND_SUB => some .sub | .ND_MUL => some .mul | .ND_DIV => some .div | .ND_MOD => some .mod
  | .ND_BITAND => some .band | .ND_BITOR => some .bor | .ND_BITXOR => some .bxor
  | .ND_SHL => some .shl | .ND_SHR => some .shr
  | .ND_EQ => some .eq | .ND_NE => some .ne | .ND_LT => some .lt | .ND_LE => some .le
  | _ => none

def specUnOp : NK → Option UnOp
  | .ND_NEG => some .neg | .ND_BITNOT => some .bitnot | .ND_NOT => some .lognot
  | _ => none

/-! which analysed sequence the model (over the generated tables) selects for each (operator, type): by evaluation -/
theorem sel_ND_ADD_i32 : classifyOp (opSeq .ND_ADD .i32) = some .add32 := by decide +kernel
theorem sel_ND_ADD_u32 : classifyOp (opSeq .ND_ADD .u32) = some .add32 := by decide +kernel
theorem sel_ND_ADD_i64 : classifyOp (opSeq .ND_ADD .i64) = some .add64 := by decide +kernel
theorem sel_ND_ADD_u64 : classifyOp (opSeq .ND_ADD .u64) = some .add64 := by decide +kernel
theorem sel_ND_SUB_i32 : classifyOp (opSeq .ND_SUB .i32) = some .sub32 := by decide +kernel
theorem sel_ND_SUB_u32 : classifyOp (opSeq .ND_SUB .u32) = some .sub32 := by decide +kernel
theorem sel_ND_SUB_i64 : classifyOp (opSeq .ND_SUB .i64) = some .sub64 := by decide +kernel
theorem sel_ND_SUB_u64 : classifyOp (opSeq .ND_SUB .u64) = some .sub64 := by decide +kernel
theorem sel_ND_MUL_i32 : classifyOp (opSeq .ND_MUL .i32) = some .mul32 := by decide +kernel
theorem sel_ND_MUL_u32 : classifyOp (opSeq .ND_MUL .u32) = some .mul32 := by decide +kernel
theorem sel_ND_MUL_i64 : classifyOp (opSeq .ND_MUL .i64) = some .mul64 := by decide +kernel
theorem sel_ND_MUL_u64 : classifyOp (opSeq .ND_MUL .u64) = some .mul64 := by decide +kernel
theorem sel_ND_DIV_i32 : classifyOp (opSeq .ND_DIV .i32) = some .divs32 := by decide +kernel
theorem sel_ND_DIV_u32 : classifyOp (opSeq .ND_DIV .u32) = some .divu32 := by decide +kernel
theorem sel_ND_DIV_i64 : classifyOp (opSeq .ND_DIV .i64) = some .divs64 := by decide +kernel
theorem sel_ND_DIV_u64 : classifyOp (opSeq .ND_DIV .u64) = some .divu64 := by decide +kernel
theorem sel_ND_MOD_i32 : classifyOp (opSeq .ND_MOD .i32) = some .mods32 := by decide +kernel
theorem sel_ND_MOD_u32 : classifyOp (opSeq .ND_MOD .u32) = some .modu32 := by decide +kernel
theorem sel_ND_MOD_i64 : classifyOp (opSeq .ND_MOD .i64) = some .mods64 := by decide +kernel
theorem sel_ND_MOD_u64 : classifyOp (opSeq .ND_MOD .u64) = some .modu64 := by decide +kernel
theorem sel_ND_BITAND_i32 : classifyOp (opSeq .ND_BITAND .i32) = some .and32 := by decide +kernel
theorem sel_ND_BITAND_u32 : classifyOp (opSeq .ND_BITAND .u32) = some .and32 := by decide +kernel
theorem sel_ND_BITAND_i64 : classifyOp (opSeq .ND_BITAND .i64) = some .and64 := by decide +kernel
theorem sel_ND_BITAND_u64 : classifyOp (opSeq .ND_BITAND .u64) = some .and64 := by decide +kernel
theorem sel_ND_BITOR_i32 : classifyOp (opSeq .ND_BITOR .i32) = some .or32 := by decide +kernel
theorem sel_ND_BITOR_u32 : classifyOp (opSeq .ND_BITOR .u32) = some .or32 := by decide +kernel
theorem sel_ND_BITOR_i64 : classifyOp (opSeq .ND_BITOR .i64) = some .or64 := by decide +kernel
theorem sel_ND_BITOR_u64 : classifyOp (opSeq .ND_BITOR .u64) = some .or64 := by decide +kernel
theorem sel_ND_BITXOR_i32 : classifyOp (opSeq .ND_BITXOR .i32) = some .xor32 := by decide +kernel
theorem sel_ND_BITXOR_u32 : classifyOp (opSeq .ND_BITXOR .u32) = some .xor32 := by decide +kernel
theorem sel_ND_BITXOR_i64 : classifyOp (opSeq .ND_BITXOR .i64) = some .xor64 := by decide +kernel
theorem sel_ND_BITXOR_u64 : classifyOp (opSeq .ND_BITXOR .u64) = some .xor64 := by decide +kernel
theorem sel_ND_EQ_i32 : classifyOp (opSeq .ND_EQ .i32) = some .eq32 := by decide +kernel
theorem sel_ND_EQ_u32 : classifyOp (opSeq .ND_EQ .u32) = some .eq32 := by decide +kernel
theorem sel_ND_EQ_i64 : classifyOp (opSeq .ND_EQ .i64) = some .eq64 := by decide +kernel
theorem sel_ND_EQ_u64 : classifyOp (opSeq .ND_EQ .u64) = some .eq64 := by decide +kernel
theorem sel_ND_NE_i32 : classifyOp (opSeq .ND_NE .i32) = some .ne32 := by decide +kernel
theorem sel_ND_NE_u32 : classifyOp (opSeq .ND_NE .u32) = some .ne32 := by decide +kernel
theorem sel_ND_NE_i64 : classifyOp (opSeq .ND_NE .i64) = some .ne64 := by decide +kernel
theorem sel_ND_NE_u64 : classifyOp (opSeq .ND_NE .u64) = some .ne64 := by decide +kernel
theorem sel_ND_LT_i32 : classifyOp (opSeq .ND_LT .i32) = some .lts32 := by decide +kernel
theorem sel_ND_LT_u32 : classifyOp (opSeq .ND_LT .u32) = some .ltu32 := by decide +kernel
theorem sel_ND_LT_i64 : classifyOp (opSeq .ND_LT .i64) = some .lts64 := by decide +kernel
theorem sel_ND_LT_u64 : classifyOp (opSeq .ND_LT .u64) = some .ltu64 := by decide +kernel
theorem sel_ND_LE_i32 : classifyOp (opSeq .ND_LE .i32) = some .les32 := by decide +kernel
theorem sel_ND_LE_u32 : classifyOp (opSeq .ND_LE .u32) = some .leu32 := by decide +kernel
theorem sel_ND_LE_i64 : classifyOp (opSeq .ND_LE .i64) = some .les64 := by decide +kernel
theorem sel_ND_LE_u64 : classifyOp (opSeq .ND_LE .u64) = some .leu64 := by decide +kernel
theorem sel_ND_SHL_i32 : classifyOp (opSeq .ND_SHL .i32) = some .shl32 := by decide +kernel
theorem sel_ND_SHL_u32 : classifyOp (opSeq .ND_SHL .u32) = some .shl32 := by decide +kernel
theorem sel_ND_SHL_i64 : classifyOp (opSeq .ND_SHL .i64) = some .shl64 := by decide +kernel
theorem sel_ND_SHL_u64 : classifyOp (opSeq .ND_SHL .u64) = some .shl64 := by decide +kernel
theorem sel_ND_SHR_i32 : classifyOp (opSeq .ND_SHR .i32) = some .sar32 := by decide +kernel
theorem sel_ND_SHR_u32 : classifyOp (opSeq .ND_SHR .u32) = some .shr32 := by decide +kernel
theorem sel_ND_SHR_i64 : classifyOp (opSeq .ND_SHR .i64) = some .sar64 := by decide +kernel
theorem sel_ND_SHR_u64 : classifyOp (opSeq .ND_SHR .u64) = some .shr64 := by decide +kernel

/-- the sequence the model selects for `(k, t)` is one of the analysed sequences and computes the C11 operation -/
theorem binop_selected (k : NK) (op : BinOp) (hop : specOp k = some op) (hns : op.isShift = false)
    (t : ITy) (ht : t = .i32 ∨ t = .u32 ∨ t = .i64 ∨ t = .u64) :
    ∃ kind, classifyOp (opSeq k t) = some kind ∧ kind.Computes op t := by
  cases k <;> simp [specOp] at hop <;> subst hop <;> simp [BinOp.isShift] at hns
  case ND_ADD =>
    rcases ht with rfl | rfl | rfl | rfl
    · exact ⟨_, sel_ND_ADD_i32, add_i32⟩
    · exact ⟨_, sel_ND_ADD_u32, add_u32'⟩
    · exact ⟨_, sel_ND_ADD_i64, add_i64⟩
    · exact ⟨_, sel_ND_ADD_u64, add_u64'⟩
  case ND_SUB =>
    rcases ht with rfl | rfl | rfl | rfl
    · exact ⟨_, sel_ND_SUB_i32, sub_i32⟩
    · exact ⟨_, sel_ND_SUB_u32, sub_u32'⟩
    · exact ⟨_, sel_ND_SUB_i64, sub_i64⟩
    · exact ⟨_, sel_ND_SUB_u64, sub_u64'⟩
  case ND_MUL =>
    rcases ht with rfl | rfl | rfl | rfl
    · exact ⟨_, sel_ND_MUL_i32, mul_i32⟩
    · exact ⟨_, sel_ND_MUL_u32, mul_u32'⟩
    · exact ⟨_, sel_ND_MUL_i64, mul_i64⟩
    · exact ⟨_, sel_ND_MUL_u64, mul_u64'⟩
  case ND_DIV =>
    rcases ht with rfl | rfl | rfl | rfl
    · exact ⟨_, sel_ND_DIV_i32, div_i32⟩
    · exact ⟨_, sel_ND_DIV_u32, div_u32⟩
    · exact ⟨_, sel_ND_DIV_i64, div_i64⟩
    · exact ⟨_, sel_ND_DIV_u64, div_u64⟩
  case ND_MOD =>
    rcases ht with rfl | rfl | rfl | rfl
    · exact ⟨_, sel_ND_MOD_i32, mod_i32⟩
    · exact ⟨_, sel_ND_MOD_u32, mod_u32⟩
    · exact ⟨_, sel_ND_MOD_i64, mod_i64⟩
    · exact ⟨_, sel_ND_MOD_u64, mod_u64⟩
  case ND_BITAND =>
    rcases ht with rfl | rfl | rfl | rfl
    · exact ⟨_, sel_ND_BITAND_i32, and_i32⟩
    · exact ⟨_, sel_ND_BITAND_u32, and_u32⟩
    · exact ⟨_, sel_ND_BITAND_i64, and_i64⟩
    · exact ⟨_, sel_ND_BITAND_u64, and_u64⟩
  case ND_BITOR =>
    rcases ht with rfl | rfl | rfl | rfl
    · exact ⟨_, sel_ND_BITOR_i32, or_i32⟩
    · exact ⟨_, sel_ND_BITOR_u32, or_u32⟩
    · exact ⟨_, sel_ND_BITOR_i64, or_i64⟩
    · exact ⟨_, sel_ND_BITOR_u64, or_u64⟩
  case ND_BITXOR =>
    rcases ht with rfl | rfl | rfl | rfl
    · exact ⟨_, sel_ND_BITXOR_i32, xor_i32⟩
    · exact ⟨_, sel_ND_BITXOR_u32, xor_u32⟩
    · exact ⟨_, sel_ND_BITXOR_i64, xor_i64⟩
    · exact ⟨_, sel_ND_BITXOR_u64, xor_u64⟩
  case ND_EQ =>
    rcases ht with rfl | rfl | rfl | rfl
    · exact ⟨_, sel_ND_EQ_i32, eq_i32⟩
    · exact ⟨_, sel_ND_EQ_u32, eq_u32⟩
    · exact ⟨_, sel_ND_EQ_i64, eq_i64⟩
    · exact ⟨_, sel_ND_EQ_u64, eq_u64⟩
  case ND_NE =>
    rcases ht with rfl | rfl | rfl | rfl
    · exact ⟨_, sel_ND_NE_i32, ne_i32⟩
    · exact ⟨_, sel_ND_NE_u32, ne_u32⟩
    · exact ⟨_, sel_ND_NE_i64, ne_i64⟩
    · exact ⟨_, sel_ND_NE_u64, ne_u64⟩
  case ND_LT =>
    rcases ht with rfl | rfl | rfl | rfl
    · exact ⟨_, sel_ND_LT_i32, lt_i32⟩
    · exact ⟨_, sel_ND_LT_u32, lt_u32⟩
    · exact ⟨_, sel_ND_LT_i64, lt_i64⟩
    · exact ⟨_, sel_ND_LT_u64, lt_u64⟩
  case ND_LE =>
    rcases ht with rfl | rfl | rfl | rfl
    · exact ⟨_, sel_ND_LE_i32, le_i32⟩
    · exact ⟨_, sel_ND_LE_u32, le_u32⟩
    · exact ⟨_, sel_ND_LE_i64, le_i64⟩
    · exact ⟨_, sel_ND_LE_u64, le_u64⟩

theorem shift_selected (k : NK) (op : BinOp) (hop : specOp k = some op) (hs : op.isShift = true)
    (t : ITy) (ht : t = .i32 ∨ t = .u32 ∨ t = .i64 ∨ t = .u64) :
    ∃ kind, classifyOp (opSeq k t) = some kind ∧ kind.ComputesShift op t := by
  cases k <;> simp [specOp] at hop <;> subst hop <;> simp [BinOp.isShift] at hs
  case ND_SHL =>
    rcases ht with rfl | rfl | rfl | rfl
    · exact ⟨_, sel_ND_SHL_i32, shl_i32⟩
    · exact ⟨_, sel_ND_SHL_u32, shl_u32⟩
    · exact ⟨_, sel_ND_SHL_i64, shl_i64⟩
    · exact ⟨_, sel_ND_SHL_u64, shl_u64⟩
  case ND_SHR =>
    rcases ht with rfl | rfl | rfl | rfl
    · exact ⟨_, sel_ND_SHR_i32, shr_i32⟩
    · exact ⟨_, sel_ND_SHR_u32, shr_u32⟩
    · exact ⟨_, sel_ND_SHR_i64, shr_i64⟩
    · exact ⟨_, sel_ND_SHR_u64, shr_u64⟩

/-! ### composition helpers -/

theorem run_append (a b : List Ins) (s : State) :
    X86.run (a ++ b) s = (X86.run a s).bind (X86.run b) := by
  induction a generalizing s with
  | nil => rfl
  | cons i is ih =>
    simp only [List.cons_append, X86.run]
    cases X86.step i s with
    | none => rfl
    | some s' => exact ih s'

theorem promote_mem (t : ITy) : promote t = .i32 ∨ promote t = .u32 ∨ promote t = .i64 ∨ promote t = .u64 := by
  cases t <;> simp [promote, ITy.rank, ITy.min, ITy.max, ITy.signed, ITy.bits]

theorem promote_promote (t : ITy) : promote (promote t) = promote t := by
  cases t <;> simp [promote, ITy.rank, ITy.min, ITy.max, ITy.signed, ITy.bits]

theorem convert_convert_promote (t : ITy) (v : Int) : convert (promote t) (convert (promote t) v) = convert (promote t) v := by
  cases t <;> simp [promote, ITy.rank, ITy.min, ITy.max, ITy.signed, ITy.bits, convert, wrap, Int.bmod_def] <;>
    (repeat' split) <;> omega

/-- Spec: a unary operator on `t` is the operator on the promoted type applied to the promoted operand -/
theorem unop_promote (op : UnOp) (hne : op ≠ .lognot) (t : ITy) (v : Int) :
    unop op t v = unop op (promote t) (convert (promote t) v) := by
  cases op <;> simp [unop, promote_promote, convert_convert_promote] at *
end ChibiVerif.C01
